/-
  Property C01 — DiscreteDP.solve returns an optimal (or ε-optimal) policy and value:
  theorems about the executable model `QEModel.C01` (the definitions the driver runs),
  over an arbitrary linearly ordered field `K` (ℚ, ℝ, …).

  Vocabulary (defined in `QEProofs/Lemmas/C01Bellman.lean`, `C01Basic.lean`):
    `WF P`          every state has a feasible action, the action labels of a state are
                    distinct, every transition row is a probability vector over the states;
    `Feasible P σ`  σ names a feasible action in every state;
    `supDist v w`   the executed `np.abs(v - w).max()`  (sup-norm distance);
    `LeAdd c v w`   `v ≤ w + c` entrywise;
    a fixed point `vS` of `bellman P β` is *the* optimal value (`vStar_unique`,
    `vStar_dominates`: it dominates the value of every feasible policy and is attained by
    its own greedy policy; `vStar_exists` shows one exists over ℝ).
-/
import QEModel.C01
import QEProofs.Lemmas.C01Loops
import QEProofs.Lemmas.C01Mpi
import QEProofs.Lemmas.C01Exists
import QEProofs.Lemmas.C01Forms
import QEProofs.Lemmas.C01More
import QEProofs.Lemmas.C01Solve
import QEProofs.Lemmas.C01Term
import QEProofs.Lemmas.C01Lp
import QEProofs.Lemmas.C01LpOpt
import QEProofs.Lemmas.C01LpStart
import QEProofs.Lemmas.C01MpiMono
import QEProofs.Lemmas.C01LpRay
import QEProofs.Lemmas.C01LpTerm
set_option linter.unusedSectionVars false

namespace QE.C01
open List

variable {K : Type} [Field K] [LinearOrder K] [IsStrictOrderedRing K]

/-! ## the operators are β-contractions in the sup norm -/

/-- **T1 `bellman_contracting`.** For `β ≥ 0` and (sub)stochastic rows the Bellman operator
    contracts the executed sup-distance by `β`; so does every policy operator `T_σ`. -/
theorem bellman_contracting {P : Prob K} (hP : WF P) {β : K} (hβ : 0 ≤ β) {v w : List K}
    (h : v.length = w.length) :
    supDist (bellman P β v) (bellman P β w) ≤ β * supDist v w ∧
    ∀ σ : List ℕ, supDist (tSigma P β σ v) (tSigma P β σ w) ≤ β * supDist v w :=
  have hs : ∀ acts ∈ P, ∀ x ∈ acts, SubStoch x := fun a ha x hx => (hP.stoch a ha x hx).sub
  ⟨bellman_supDist hs hβ h, fun σ => tSigma_supDist hs hβ σ h⟩

/-- **the Bellman step is the state-wise maximum.** For a state with feasible pairs `acts ≠ []`, the
    entry of `bellman` is `r + β q·v` of one of its pairs and is `≥` that of every pair; the entry
    of `greedy` is the label of that pair. -/
theorem bellman_spec (β : K) (v : List K) (acts : List (Act K)) (h : acts ≠ []) :
    bestAct β v acts ∈ acts ∧ ∀ y ∈ acts, qval β v y ≤ qval β v (bestAct β v acts) :=
  ⟨bestAct_mem h, bestAct_ge⟩

/-- monotonicity with shift: `v ≤ w + c` entrywise (`c ≥ 0`) implies `T v ≤ T w + β c` -/
theorem bellman_monotone_shift {P : Prob K} (hP : WF P) {β c : K} (hβ : 0 ≤ β) (hc : 0 ≤ c)
    {v w : List K} (h : LeAdd c v w) : LeAdd (β * c) (bellman P β v) (bellman P β w) :=
  bellman_leAdd (fun a ha x hx => (hP.stoch a ha x hx).sub) hβ hc h

/-- the optimal value is unique: two fixed points of `T` (of the right length) coincide -/
theorem vStar_unique {P : Prob K} (hP : WF P) {β : K} (hβ0 : 0 ≤ β) (hβ1 : β < 1) {v w : List K}
    (fv : bellman P β v = v) (fw : bellman P β w = w) : v = w := by
  have hs : ∀ acts ∈ P, ∀ x ∈ acts, SubStoch x := fun a ha x hx => (hP.stoch a ha x hx).sub
  have hv : v.length = P.length := by rw [← fv]; simp
  have hw : w.length = P.length := by rw [← fw]; simp
  exact (contr_bellman hs hβ0).fp_unique hβ1 hv hw fv fw

/-- **T1 `vStar_dominates`.** A fixed point `vS` of the Bellman operator dominates the value
    `w` (fixed point of `T_σ`) of every feasible policy `σ`, and its own greedy policy attains
    it — so `vS` is the optimum the property speaks about, not merely a fixed point. -/
theorem vStar_dominates {P : Prob K} (hP : WF P) {β : K} (hβ0 : 0 ≤ β) (hβ1 : β < 1)
    {vS : List K} (hS : bellman P β vS = vS) :
    (∀ (σ : List ℕ) (w : List K), Feasible P σ → tSigma P β σ w = w → LeAdd 0 w vS) ∧
    Feasible P (greedy P β vS) ∧ tSigma P β (greedy P β vS) vS = vS := by
  have hs : ∀ acts ∈ P, ∀ x ∈ acts, SubStoch x := fun a ha x hx => (hP.stoch a ha x hx).sub
  refine ⟨?_, greedy_feasible hP.nonempty β vS, by rw [tSigma_greedy hP.nonempty hP.nodup, hS]⟩
  intro σ w hf hw
  have hSl : vS.length = P.length := by rw [← hS]; simp
  have hσl : σ.length = P.length := (Forall₂.length_eq hf).symm
  have hwl : w.length = P.length := by rw [← hw, tSigma_length, hσl]; simp
  have hlen : w.length = vS.length := hwl.trans hSl.symm
  -- d = max(0, max_i (w_i - vS_i)); w = T_σ w ≤ T w ≤ T vS + β d = vS + β d, hence d ≤ β d
  have hd0 := exc_nonneg w vS
  have h1 : LeAdd (exc w vS) w vS := leAdd_exc hlen
  have h2 : LeAdd (β * exc w vS) (bellman P β w) (bellman P β vS) := bellman_leAdd hs hβ0 hd0 h1
  have h3 : LeAdd 0 (tSigma P β σ w) (bellman P β w) := tSigma_le_bellman hf β w
  rw [hw] at h3
  rw [hS] at h2
  have h4 : LeAdd (0 + β * exc w vS) w vS := h3.trans h2
  have h5 : exc w vS ≤ 0 + β * exc w vS :=
    (exc_le_iff hlen _).mpr ⟨by have := mul_nonneg hβ0 hd0; linarith, h4⟩
  have h6 : exc w vS = 0 := by nlinarith
  rw [← h6]; exact h1

/-! ## value iteration -/

/-- **T1 `vi_stop_half_eps`.** If the model's value iteration leaves its loop through the
    tolerance test (i.e. before / not because of the iteration cap), the returned `v` is
    within `ε/2` of the optimal value `vS` in the sup norm.  The branch `β = 0`
    (`tol = ∞`: one application of `T` is exact) is included. -/
theorem vi_stop_half_eps {P : Prob K} (hP : WF P) {β ε : K} (hβ0 : 0 ≤ β) (hβ1 : β < 1)
    (hε : 0 < ε) {vInit : List K} (hv0 : vInit.length = P.length) (maxIter : ℕ)
    {vS : List K} (hS : bellman P β vS = vS)
    (hstop : (valueIteration P β ε vInit maxIter).stopped = true) :
    supDist (valueIteration P β ε vInit maxIter).v vS < ε / 2 := by
  have hs : ∀ acts ∈ P, ∀ x ∈ acts, SubStoch x := fun a ha x hx => (hP.stoch a ha x hx).sub
  have hC := contr_bellman hs hβ0
  have hSl : vS.length = P.length := by rw [← hS]; simp
  obtain ⟨u, hu, hres, hpass⟩ := opIter_stopped (bellman P β) (viTol β ε)
    (fun v => v.length = P.length) (fun v _ => by simp) maxIter vInit 0 hv0 hstop
  show supDist (opIter (bellman P β) (viTol β ε) maxIter vInit 0).1 vS < ε / 2
  rw [hres]
  have hb := hC.stop_bound hβ0 hβ1 hS hSl hu
  by_cases hβ : 0 < β
  · simp only [viTol, if_pos hβ, Tol.passes, decide_eq_true_eq] at hpass
    have hpos : 0 < 1 - β := by linarith
    have : β / (1 - β) * (ε * (1 - β) / ((1 + 1) * β)) = ε / 2 := by
      field_simp; ring
    have h2 : β / (1 - β) * supDist (bellman P β u) u < β / (1 - β) * (ε * (1 - β) / ((1 + 1) * β)) :=
      mul_lt_mul_of_pos_left hpass (div_pos hβ hpos)
    linarith
  · have hβz : β = 0 := le_antisymm (not_lt.mp hβ) hβ0
    rw [hβz] at hb
    simp only [zero_div, zero_mul] at hb
    rw [hβz]
    linarith

/-- **T1 `vi_policy_eps_optimal`.** Under the same exit condition the returned policy is
    `ε`-optimal: its value `w` (any fixed point of `T_σ` of the right length) is within `ε` of
    the optimal value; and the policy is feasible. -/
theorem vi_policy_eps_optimal {P : Prob K} (hP : WF P) {β ε : K} (hβ0 : 0 ≤ β) (hβ1 : β < 1)
    (hε : 0 < ε) {vInit : List K} (hv0 : vInit.length = P.length) (maxIter : ℕ)
    {vS : List K} (hS : bellman P β vS = vS)
    (hstop : (valueIteration P β ε vInit maxIter).stopped = true)
    {w : List K} (hw : tSigma P β (valueIteration P β ε vInit maxIter).sigma w = w) :
    Feasible P (valueIteration P β ε vInit maxIter).sigma ∧ supDist w vS < ε := by
  have hs : ∀ acts ∈ P, ∀ x ∈ acts, SubStoch x := fun a ha x hx => (hP.stoch a ha x hx).sub
  have hC := contr_bellman hs hβ0
  have hSl : vS.length = P.length := by rw [← hS]; simp
  have hhalf := vi_stop_half_eps hP hβ0 hβ1 hε hv0 maxIter hS hstop
  obtain ⟨u, hu, hres, hpass⟩ := opIter_stopped (bellman P β) (viTol β ε)
    (fun v => v.length = P.length) (fun v _ => by simp) maxIter vInit 0 hv0 hstop
  -- names: v = T u is the returned value, σ = greedy v
  have hv : (valueIteration P β ε vInit maxIter).v = bellman P β u := hres
  have hσ : (valueIteration P β ε vInit maxIter).sigma
      = greedy P β (valueIteration P β ε vInit maxIter).v := rfl
  rw [hv] at hhalf hσ
  rw [hσ] at hw ⊢
  refine ⟨greedy_feasible hP.nonempty β _, ?_⟩
  set v := bellman P β u with hvdef
  have hvl : v.length = P.length := by simp [hvdef]
  have hσl : (greedy P β v).length = P.length := by simp
  have hCσ := contr_tSigma hs hβ0 hσl
  have hwl : w.length = P.length := by rw [← hw, tSigma_length, hσl]; simp
  -- ‖w − v‖ ≤ 1/(1−β) ‖T_σ v − v‖ = 1/(1−β) ‖T v − T u‖ ≤ β/(1−β) ‖T u − u‖
  have h1 := hCσ.fp_near hβ1 hw hwl hvl
  rw [tSigma_greedy hP.nonempty hP.nodup] at h1
  have h2 : supDist (bellman P β v) v ≤ β * supDist v u := hC.contr v u hvl hu
  have hpos : 0 < 1 - β := by linarith
  have htri : supDist w vS ≤ supDist w v + supDist v vS :=
    supDist_triangle (hwl.trans hvl.symm) (hvl.trans hSl.symm)
  by_cases hβ : 0 < β
  · simp only [viTol, if_pos hβ, Tol.passes, decide_eq_true_eq] at hpass
    have h3 : supDist w v ≤ 1 / (1 - β) * (β * supDist v u) :=
      le_trans h1 (mul_le_mul_of_nonneg_left h2 (by positivity))
    have h4 : 1 / (1 - β) * (β * supDist v u) < 1 / (1 - β) * (β * (ε * (1 - β) / ((1 + 1) * β))) :=
      mul_lt_mul_of_pos_left (mul_lt_mul_of_pos_left hpass hβ) (by positivity)
    have h5 : 1 / (1 - β) * (β * (ε * (1 - β) / ((1 + 1) * β))) = ε / 2 := by
      field_simp; ring
    linarith
  · have hβz : β = 0 := le_antisymm (not_lt.mp hβ) hβ0
    have h0 : supDist (bellman P β v) v ≤ 0 := by
      have : β * supDist v u = 0 := by rw [hβz]; simp
      linarith
    have h3 : supDist w v ≤ 0 := by
      have : 1 / (1 - β) * supDist (bellman P β v) v ≤ 0 :=
        mul_nonpos_of_nonneg_of_nonpos (by positivity) h0
      linarith
    linarith

/-- `num_iter` never exceeds `max_iter`, and equals it when the tolerance test never fired -/
theorem vi_num_iter (P : Prob K) (β ε : K) (vInit : List K) (maxIter : ℕ) :
    (valueIteration P β ε vInit maxIter).iters ≤ maxIter ∧
    ((valueIteration P β ε vInit maxIter).stopped = false →
      (valueIteration P β ε vInit maxIter).iters = maxIter) := by
  have := opIter_count (bellman P β) (viTol β ε) maxIter vInit 0
  simpa [valueIteration] using this

/-! ## policy iteration -/

/-- **T1 `pi_exit_optimal`.** Assume the linear solver does its job: for every feasible `σ`
    the vector `evalPolicy solve P β σ` solves `(I − βQ_σ) v = R_σ`, i.e. is the fixed point of
    `T_σ` (the assumption about LAPACK; `evalPolicy_fixed_of_solves` derives it from the matrix form
    `SolvesExactly`).
    If policy iteration leaves its loop through the `break` (the greedy policy repeated),
    then the returned `v` satisfies the optimality equation `T v = v`, the returned `σ` is
    feasible, `v` is the value of `σ`, and therefore (by `vStar_unique`, `vStar_dominates`)
    `v` is the optimal value and `σ` an optimal policy. -/
theorem pi_exit_optimal {P : Prob K} (hP : WF P) {β : K}
    (solve : List (List K) → List K → List K)
    (hsolve : ∀ σ, Feasible P σ →
      tSigma P β σ (evalPolicy solve P β σ) = evalPolicy solve P β σ)
    (vInit : List K) (maxIter : ℕ)
    (hstop : (policyIteration solve P β vInit maxIter).stopped = true) :
    let r := policyIteration solve P β vInit maxIter
    bellman P β r.v = r.v ∧ Feasible P r.sigma ∧ tSigma P β r.sigma r.v = r.v ∧
      r.sigma = greedy P β r.v := by
  intro r
  obtain ⟨h1, h2⟩ := piLoop_stopped (evalPolicy solve P β) (greedy P β) maxIter
    (greedy P β vInit) [] 0 hstop
  have hv : r.v = evalPolicy solve P β r.sigma := h1
  have hg : greedy P β r.v = r.sigma := h2
  have hf : Feasible P r.sigma := by rw [← hg]; exact greedy_feasible hP.nonempty β _
  have hfix : tSigma P β r.sigma r.v = r.v := by rw [hv]; exact hsolve _ hf
  refine ⟨?_, hf, hfix, hg.symm⟩
  rw [← tSigma_greedy hP.nonempty hP.nodup, hg, hfix]

/-- corollary: on `break`, the value returned by policy iteration *is* any given optimal value
    and dominates the value of every feasible policy -/
theorem pi_exit_value {P : Prob K} (hP : WF P) {β : K} (hβ0 : 0 ≤ β) (hβ1 : β < 1)
    (solve : List (List K) → List K → List K)
    (hsolve : ∀ σ, Feasible P σ →
      tSigma P β σ (evalPolicy solve P β σ) = evalPolicy solve P β σ)
    (vInit : List K) (maxIter : ℕ)
    (hstop : (policyIteration solve P β vInit maxIter).stopped = true) :
    (∀ vS, bellman P β vS = vS → (policyIteration solve P β vInit maxIter).v = vS) ∧
    (∀ σ w, Feasible P σ → tSigma P β σ w = w →
      LeAdd 0 w (policyIteration solve P β vInit maxIter).v) := by
  have h := pi_exit_optimal hP solve hsolve vInit maxIter hstop
  exact ⟨fun vS hS => vStar_unique hP hβ0 hβ1 h.1 hS, (vStar_dominates hP hβ0 hβ1 h.1).1⟩

/-- What is assumed of `np.linalg.solve` / `spsolve` in exact arithmetic: on the system
    `(I − βQ_σ) x = R_σ` that `evaluate_policy` poses for a feasible `σ` (matrix rows
    `policyMatrix`, products `dot`), it returns a vector of the right length solving it. -/
def SolvesExactly (solve : List (List K) → List K → List K) (P : Prob K) (β : K) : Prop :=
  ∀ σ, Feasible P σ →
    (evalPolicy solve P β σ).length = P.length ∧
    Forall₂ (fun row b => dot row (evalPolicy solve P β σ) = b)
      (policyMatrix β (polActs P σ)) ((polActs P σ).map fun y => y.r)

/-- the linear system of `evaluate_policy` characterises the value of `σ`: a solver that
    `SolvesExactly` returns the fixed point of `T_σ` -/
theorem evalPolicy_fixed_of_solves {P : Prob K} (hP : WF P) {β : K}
    {solve : List (List K) → List K → List K} (h : SolvesExactly solve P β)
    {σ : List ℕ} (hf : Feasible P σ) :
    tSigma P β σ (evalPolicy solve P β σ) = evalPolicy solve P β σ :=
  tSigma_fixed_of_system hP hf (h σ hf).1 (h σ hf).2

/-- `pi_exit_optimal` with the assumption on the solver in matrix form -/
theorem pi_exit_optimal_of_solver {P : Prob K} (hP : WF P) {β : K}
    {solve : List (List K) → List K → List K} (h : SolvesExactly solve P β)
    (vInit : List K) (maxIter : ℕ)
    (hstop : (policyIteration solve P β vInit maxIter).stopped = true) :
    let r := policyIteration solve P β vInit maxIter
    bellman P β r.v = r.v ∧ Feasible P r.sigma ∧ tSigma P β r.sigma r.v = r.v :=
  have := pi_exit_optimal hP solve (fun _ hf => evalPolicy_fixed_of_solves hP h hf) vInit maxIter hstop
  ⟨this.1, this.2.1, this.2.2.1⟩

/-- `num_iter ≤ max_iter` for policy iteration -/
theorem pi_num_iter (solve : List (List K) → List K → List K) (P : Prob K) (β : K)
    (vInit : List K) (maxIter : ℕ) :
    (policyIteration solve P β vInit maxIter).iters ≤ maxIter := by
  have := piLoop_count (evalPolicy solve P β) (greedy P β) maxIter (greedy P β vInit) [] 0
  simpa [policyIteration] using this

/-- **T2 `vi_terminates`.** Over an Archimedean field (ℚ, ℝ) value iteration stops through its
    tolerance test for every sufficiently large `max_iter`: the successive differences decay like
    `βᵏ‖Tv₀ − v₀‖`.  Together with `vi_stop_half_eps` / `vi_policy_eps_optimal` this makes value
    iteration totally correct for a large enough cap. -/
theorem vi_terminates [Archimedean K] {P : Prob K} (hP : WF P) {β ε : K} (hβ0 : 0 ≤ β) (hβ1 : β < 1)
    (hε : 0 < ε) {vInit : List K} (hv0 : vInit.length = P.length) :
    ∃ N, ∀ maxIter, N ≤ maxIter → (valueIteration P β ε vInit maxIter).stopped = true := by
  have hs : ∀ acts ∈ P, ∀ x ∈ acts, SubStoch x := fun a ha x hx => (hP.stoch a ha x hx).sub
  have hC := contr_bellman hs hβ0
  by_cases hβ : 0 < β
  · have ht : 0 < ε * (1 - β) / ((1 + 1) * β) := by
      apply div_pos (mul_pos hε (by linarith)) (by positivity)
    obtain ⟨k, hk⟩ := hC.exists_pass hβ0 hβ1 hv0 ht
    refine ⟨k + 1, fun maxIter hN => ?_⟩
    apply opIter_stops (bellman P β) (viTol β ε) maxIter vInit 0 k (by omega)
    simp only [viTol, if_pos hβ, Tol.passes, decide_eq_true_eq]
    exact hk
  · refine ⟨1, fun maxIter hN => ?_⟩
    apply opIter_stops (bellman P β) (viTol β ε) maxIter vInit 0 0 (by omega)
    simp [viTol, if_neg hβ, Tol.passes]

/-- **a-priori bound, also at the cap.** Whether or not the tolerance test fired, after `num_iter`
    sweeps the value returned by value iteration satisfies
    `‖v − v*‖ ≤ β^num_iter/(1−β) · ‖T v₀ − v₀‖` (geometric convergence). -/
theorem vi_cap_bound {P : Prob K} (hP : WF P) {β ε : K} (hβ0 : 0 ≤ β) (hβ1 : β < 1)
    {vInit : List K} (hv0 : vInit.length = P.length) (maxIter : ℕ)
    {vS : List K} (hS : bellman P β vS = vS) :
    supDist (valueIteration P β ε vInit maxIter).v vS ≤
      β ^ (valueIteration P β ε vInit maxIter).iters / (1 - β) *
        supDist (bellman P β vInit) vInit := by
  have hs : ∀ acts ∈ P, ∀ x ∈ acts, SubStoch x := fun a ha x hx => (hP.stoch a ha x hx).sub
  have hSl : vS.length = P.length := by rw [← hS]; simp
  have h := (opIter_eq_iterate (bellman P β) (viTol β ε) maxIter vInit 0).1
  show supDist (opIter (bellman P β) (viTol β ε) maxIter vInit 0).1 vS ≤ _
  rw [h, Nat.sub_zero]
  exact (contr_bellman hs hβ0).iterate_bound hβ0 hβ1 hv0 hS hSl _

/-! ## modified policy iteration -/

/-- **T2 `mpi_stop`.** If modified policy iteration leaves its loop through the span test
    (`span(Tv − v) < ε(1−β)/β`, or at once when `β = 0`), then the returned value
    `Tv + midrange(Tv − v)·β/(1−β)` is within `ε/2` of the optimal value, the returned policy
    (the `v`-greedy one) is feasible, and its value `w` is within `ε` of the optimum
    (Puterman 6.6.5/6.6.6). Holds for every `k` (number of partial-evaluation sweeps) and every
    `v_init` of the right length. -/
theorem mpi_stop {P : Prob K} (hP : WF P) {β ε : K} (hβ0 : 0 ≤ β) (hβ1 : β < 1) (hε : 0 < ε)
    {vInit : List K} (hv0 : vInit.length = P.length) (maxIter k : ℕ)
    {vS : List K} (hS : bellman P β vS = vS)
    (hstop : (modifiedPI P β ε vInit maxIter k).stopped = true) :
    supDist (modifiedPI P β ε vInit maxIter k).v vS < ε / 2 ∧
    Feasible P (modifiedPI P β ε vInit maxIter k).sigma ∧
    ∀ w, tSigma P β (modifiedPI P β ε vInit maxIter k).sigma w = w → supDist w vS < ε := by
  obtain ⟨v, hv, hpass, hres, hσ⟩ := mpiLoop_stopped P β (mpiTol β ε) k maxIter vInit [] 0 hv0 hstop
  have hrv : (modifiedPI P β ε vInit maxIter k).v = _ := hres
  have hrs : (modifiedPI P β ε vInit maxIter k).sigma = greedy P β v := hσ
  rw [hrv, hrs]
  obtain ⟨B2, B1, Bw⟩ := mpi_bounds hP hβ0 hβ1 hv hS
  set u := bellman P β v with hu
  set d := zipWith (fun a b => a - b) u v with hd
  have hpos : 0 < 1 - β := by linarith
  have hne : (1 : K) - β ≠ 0 := ne_of_gt hpos
  have hSl : vS.length = P.length := by rw [← hS]; simp
  set L := β * (vmin d / (1 - β)) with hL
  set H := β * (vmax d / (1 - β)) with hH
  -- the scalar fact: H − L < ε, and 0 ≤ H − L
  have hHL0 : 0 ≤ H - L := by
    have h1 := vmin_le_vmax d
    have : H - L = β / (1 - β) * (vmax d - vmin d) := by rw [hH, hL]; field_simp
    rw [this]
    exact mul_nonneg (div_nonneg hβ0 hpos.le) (by linarith)
  have hHL : H - L < ε := by
    by_cases hβ : 0 < β
    · simp only [mpiTol, if_pos hβ, Tol.passes, decide_eq_true_eq, span] at hpass
      have : H - L = β / (1 - β) * (vmax d - vmin d) := by rw [hH, hL]; field_simp
      rw [this]
      have h2 : β / (1 - β) * (vmax d - vmin d) < β / (1 - β) * (ε * (1 - β) / β) :=
        mul_lt_mul_of_pos_left hpass (div_pos hβ hpos)
      have h3 : β / (1 - β) * (ε * (1 - β) / β) = ε := by field_simp
      linarith
    · have hβz : β = 0 := le_antisymm (not_lt.mp hβ) hβ0
      have : H - L = 0 := by rw [hH, hL, hβz]; simp
      linarith
  have hmid : midrange d * β / (1 - β) = (L + H) / 2 := by
    rw [hH, hL]; unfold midrange; field_simp; ring
  rw [hmid]
  refine ⟨?_, greedy_feasible hP.nonempty β v, ?_⟩
  · -- u + L ≤ vS ≤ u + H entrywise, and the returned value is u + (L+H)/2
    have hul : u.length = vS.length := by rw [hSl]; simp [hu]
    refine (supDist_lt_iff (by simpa using hul) _).mpr ⟨by linarith, ?_⟩
    have C1 : Forall₂ (fun a b => a ≤ b + (0 - L)) u vS := leAdd_addConst_left.mp B2
    have C2 : Forall₂ (fun b a => b ≤ a + (H + 0)) vS u := leAdd_addConst_right.mp B1
    have C := forall₂_and C1 C2.flip
    unfold addConst
    rw [forall₂_map_left_iff]
    refine C.imp fun a b hab => ?_
    obtain ⟨h1, h2⟩ := hab
    rw [abs_lt]
    constructor <;> linarith
  · intro w hw
    have hwB := Bw w hw
    have hσl : (greedy P β v).length = P.length := by simp
    have hwl : w.length = P.length := by rw [← hw, tSigma_length, hσl]; simp
    have hdom : LeAdd 0 w vS :=
      (vStar_dominates hP hβ0 hβ1 hS).1 _ w (greedy_feasible hP.nonempty β v) hw
    -- vS ≤ u + H and u + L ≤ w give vS ≤ w + (H − L)
    have D1 : LeAdd (H + 0) vS u := leAdd_addConst_right.mp B1
    have D2 : LeAdd (0 - L) u w := leAdd_addConst_left.mp hwB
    have D3 : LeAdd (H - L) vS w := (D1.trans D2).mono (by linarith)
    have hcl : Close (H - L) w vS := (close_iff _ _ _).mpr ⟨hdom.mono hHL0, D3⟩
    have := (supDist_le_iff (hwl.trans hSl.symm) (H - L)).mpr ⟨hHL0, hcl⟩
    linarith

/-- `num_iter ≤ max_iter` for modified policy iteration -/
theorem mpi_num_iter (P : Prob K) (β ε : K) (vInit : List K) (maxIter k : ℕ) :
    (modifiedPI P β ε vInit maxIter k).iters ≤ maxIter := by
  have := mpiLoop_count P β (mpiTol β ε) k maxIter vInit [] 0
  simpa [modifiedPI] using this

/-! ## the formulations agree -/

/-- **T1 `forms_agree` (product form).** `bellmanProd` is the product-form step as the code
    performs it — `vals = R + βQv` with `-inf` rewards kept, `argmax(axis=1)`, value at the
    arg-max.  If every state has a feasible action (what the constructor enforces), it returns,
    state by state, exactly the value and the action label that the scan over the feasible
    pairs (`bellman`/`greedy` on `ofProduct R Q`, the representation all solvers of the model
    run on) returns; in particular `-inf` entries never win and ties are broken identically. -/
theorem forms_agree_product (R : List (List (Option K))) (Q : List (List (List K))) (β : K)
    (v : List K) (hfeas : ∀ p ∈ zip R Q, (rowCols p.1 p.2).filterMap colAct ≠ []) :
    bellmanProd R Q β v =
      zipWith (fun x a => (some x, a)) (bellman (ofProduct R Q) β v) (greedy (ofProduct R Q) β v) := by
  rw [bellmanProd_eq_aux β v R Q hfeas]
  simp [bellman, greedy, zipWith_map_left, zipWith_map_right]

/-- **T1 `forms_agree` (state-action pairs in any order).** Two lists of pairs
    `(s, a, r, q)` that are permutations of each other, with distinct `(s, a)`, are turned by
    the constructor's re-sorting into the *same* problem; hence every solver of the model
    returns the same `(v, σ, num_iter)` on both, and the optimal values coincide. -/
theorem forms_agree_pairs (n : ℕ) {p₁ p₂ : List (ℕ × ℕ × K × List K)} (hp : p₁ ~ p₂)
    (hnd : (p₁.map fun p => (p.1, p.2.1)).Nodup) : ofPairsZ n p₁ = ofPairsZ n p₂ :=
  ofPairsZ_perm n hp hnd

/-- **T1 `forms_agree` (`to_sa_pair_form`).** Listing the feasible pairs of a product-form
    problem state by state (`np.where(R > -inf)`, what `to_sa_pair_form` and the LP method do) and
    handing them to the pair constructor gives back the same problem — so the product form, its
    pair form in any order (`forms_agree_pairs`) and the sparse variant (same data) share one
    Bellman operator, one optimal value and the same solver outputs. -/
theorem forms_agree_toSaPair (R : List (List (Option K))) (Q : List (List (List K))) :
    ofPairsZ (ofProduct R Q).length (toPairs (ofProduct R Q)) = ofProduct R Q :=
  ofPairsZ_toPairs _ (ofProduct_sorted R Q)

/-- `ofPairsZ` is the driver's `ofPairs` on the zipped index / reward / transition arrays -/
theorem ofPairs_is_ofPairsZ (n : ℕ) (sInd aInd : List ℕ) (R : List K) (Q : List (List K)) :
    ofPairs n sInd aInd R Q = ofPairsZ n (zip sInd (zip aInd (zip R Q))) := rfl

/-! ## ties, policy improvement, the LP certificate -/

/-- **tie-breaking.** In every state the greedy action is the *first* maximiser in the order of
    the feasible pairs (increasing action label after the constructor's sorting): every earlier
    pair has a strictly smaller value, every later pair a value not larger. -/
theorem greedy_first_max (β : K) (v : List K) (x : Act K) (xs : List (Act K)) :
    ∃ l₁ l₂, x :: xs = l₁ ++ bestAct β v (x :: xs) :: l₂ ∧
      (∀ y ∈ l₁, qval β v y < qval β v (bestAct β v (x :: xs))) ∧
      (∀ y ∈ l₂, qval β v y ≤ qval β v (bestAct β v (x :: xs))) :=
  scanMax_first (qval β v) xs x

/-- **policy improvement.** If `v` is the value of a feasible policy `σ` and `w` the value of the
    `v`-greedy policy, then `v ≤ w` entrywise: the values along policy iteration never decrease. -/
theorem pi_improves {P : Prob K} (hP : WF P) {β : K} (hβ0 : 0 ≤ β) (hβ1 : β < 1)
    {σ : List ℕ} (hf : Feasible P σ) {v w : List K} (hv : tSigma P β σ v = v)
    (hw : tSigma P β (greedy P β v) w = w) : LeAdd 0 v w := by
  have hs : ∀ acts ∈ P, ∀ x ∈ acts, SubStoch x := fun a ha x hx => (hP.stoch a ha x hx).sub
  have hσl : σ.length = P.length := (Forall₂.length_eq hf).symm
  have hvl : v.length = P.length := by rw [← hv, tSigma_length, hσl]; simp
  have hgl : (greedy P β v).length = P.length := by simp
  have hwl : w.length = P.length := by rw [← hw, tSigma_length, hgl]; simp
  have hM := monoShift_tSigma hs hβ0 hgl
  refine hM.sub hβ0 hβ1 hw hwl hvl ?_
  rw [tSigma_greedy hP.nonempty hP.nodup]
  have := tSigma_le_bellman hf β v
  rwa [hv] at this

/-- **LP optimality certificate.** What the simplex method on the dual LP delivers at status 0 —
    a policy `σ` (the optimal basis) whose value is `v` (`T_σ v = v`: the basic solution's dual)
    with all reduced costs non-positive (`r(s,a) + β q(s,a)·v ≤ v(s)`, i.e. `T v ≤ v`) — makes `v`
    a fixed point of the Bellman operator, hence the optimal value, and `σ` optimal. -/
theorem lp_certificate {P : Prob K} {β : K} {σ : List ℕ} (hf : Feasible P σ) {v : List K}
    (hv : tSigma P β σ v = v) (hdual : LeAdd 0 (bellman P β v) v) : bellman P β v = v := by
  have h := tSigma_le_bellman hf β v
  rw [hv] at h
  exact leAdd_antisymm hdual h

/-- the default start vectors have the right length, so the theorems above apply to runs with
    `v_init=None` -/
theorem default_vinit_length (P : Prob K) (β : K) :
    (rmax P).length = P.length ∧ (mpiInit P β).length = P.length := ⟨by simp, by simp⟩

/-! ## policy iteration terminates -/

/-- **T2 `pi_terminates`.** With an exact solver and `β ∈ [0,1)`, policy iteration leaves its loop
    through the `break` as soon as `max_iter ≥ (number of feasible policies) + 2`, from every start
    vector: the values never decrease (`pi_improves`), equal consecutive values make the next
    greedy policy repeat, and a policy cannot recur after a strict increase.
    (`allPolicies P` lists one action label per state in all possible ways.) -/
theorem pi_terminates {P : Prob K} (hP : WF P) {β : K} (hβ0 : 0 ≤ β) (hβ1 : β < 1)
    (solve : List (List K) → List K → List K)
    (hsolve : ∀ σ, Feasible P σ →
      tSigma P β σ (evalPolicy solve P β σ) = evalPolicy solve P β σ)
    (vInit : List K) (maxIter : ℕ) (hN : (allPolicies P).length + 2 ≤ maxIter) :
    (policyIteration solve P β vInit maxIter).stopped = true := by
  unfold policyIteration
  refine piLoop_terminates_aux (evalPolicy solve P β) (greedy P β) (allPolicies P) (LeAdd 0)
    (fun a b c h1 h2 => by have := h1.trans h2; rwa [zero_add] at this)
    (fun a b h1 h2 => leAdd_antisymm h1 h2) ?_ ?_ maxIter _ [] 0 []
    (mem_allPolicies.mpr (greedy_feasible hP.nonempty β vInit)) (by simp) nodup_nil (by simp)
    (by simp) (by simpa using hN)
  · intro σ _
    exact mem_allPolicies.mpr (greedy_feasible hP.nonempty β _)
  · intro σ hσ
    have hf := mem_allPolicies.mp hσ
    exact pi_improves hP hβ0 hβ1 hf (hsolve σ hf) (hsolve _ (greedy_feasible hP.nonempty β _))

/-- **policy iteration is totally correct** (exact solver, cap at least the number of feasible
    policies + 2): it returns a fixed point of the Bellman operator — the optimal value, which
    dominates the value of every feasible policy — and a feasible policy whose value it is. -/
theorem pi_correct {P : Prob K} (hP : WF P) {β : K} (hβ0 : 0 ≤ β) (hβ1 : β < 1)
    {solve : List (List K) → List K → List K} (h : SolvesExactly solve P β)
    (vInit : List K) (maxIter : ℕ) (hN : (allPolicies P).length + 2 ≤ maxIter) :
    let r := policyIteration solve P β vInit maxIter
    bellman P β r.v = r.v ∧ Feasible P r.sigma ∧ tSigma P β r.sigma r.v = r.v ∧
      ∀ σ w, Feasible P σ → tSigma P β σ w = w → LeAdd 0 w r.v := by
  intro r
  have hsolve := fun σ (hf : Feasible P σ) => evalPolicy_fixed_of_solves hP h hf
  have hstop := pi_terminates hP hβ0 hβ1 solve hsolve vInit maxIter hN
  have h1 := pi_exit_optimal hP solve hsolve vInit maxIter hstop
  exact ⟨h1.1, h1.2.1, h1.2.2.1, (vStar_dominates hP hβ0 hβ1 h1.1).1⟩

/-- **the observable exit criterion.** For each of the three iterative methods, `num_iter < max_iter`
    implies that the loop was left through the method's own stopping rule (`stopped = true`) — the
    hypothesis of `vi_stop_half_eps`, `pi_exit_optimal`, `mpi_stop` is what the property calls
    "stops before the iteration cap". -/
theorem stopped_of_before_cap (solve : List (List K) → List K → List K) (P : Prob K) (β ε : K)
    (vInit : List K) (maxIter k : ℕ) :
    ((valueIteration P β ε vInit maxIter).iters < maxIter →
      (valueIteration P β ε vInit maxIter).stopped = true) ∧
    ((policyIteration solve P β vInit maxIter).iters < maxIter →
      (policyIteration solve P β vInit maxIter).stopped = true) ∧
    ((modifiedPI P β ε vInit maxIter k).iters < maxIter →
      (modifiedPI P β ε vInit maxIter k).stopped = true) := by
  refine ⟨fun h => ?_, fun h => ?_, fun h => ?_⟩
  · by_contra hc
    have := (vi_num_iter P β ε vInit maxIter).2 (by simpa using hc)
    omega
  · by_contra hc
    have := piLoop_count_eq (evalPolicy solve P β) (greedy P β) maxIter (greedy P β vInit) [] 0
      (by simpa [policyIteration] using hc)
    simp only [policyIteration] at h
    omega
  · by_contra hc
    have := mpiLoop_count_eq P β (mpiTol β ε) k maxIter vInit [] 0 (by simpa [modifiedPI] using hc)
    simp only [modifiedPI] at h
    omega

/-! ## linear programming -/

/-- **T2 `lp_exit_partial`.**  About the model of `ddp_linprog_simplex` (tableau of the dual LP, `n`
    pivots onto the start policy, `solve_tableau` with the lexicographic ratio test) over an
    ordered field, for every start policy, pivot history and cap: if it reports success (status 0)
    then the returned `v` is approximately dual feasible, `T v ≤ v + fea_tol` entrywise, and hence
    bounds the optimal value from above up to `fea_tol/(1−β)`: `v* ≤ v + fea_tol/(1−β)`.
    *Missing for the full clause:* the matching lower bound `v ≤ v*` and the optimality of the
    returned policy; they need the canonical-form invariant of the simplex method (the basic
    columns stay unit vectors and the basis stays a policy), which is not proved here — the
    certificate `lp_certificate` says what that invariant would deliver, and the exact oracle of
    the correspondence run checks both on every generated instance. -/
theorem lp_exit_partial {P : Prob K} (hP : WF P) {β : K} (hβ0 : 0 ≤ β) (hβ1 : β < 1)
    (tol : PivTol K) (σ0 : List ℕ) (maxIter : ℕ)
    (hstop : (lpSolve tol P β σ0 maxIter).stopped = true)
    {vS : List K} (hS : bellman P β vS = vS) :
    LeAdd tol.fea (bellman P β (lpSolve tol P β σ0 maxIter).v) (lpSolve tol P β σ0 maxIter).v ∧
    LeAdd (tol.fea / (1 - β)) vS (lpSolve tol P β σ0 maxIter).v := by
  have hdual := lpSolve_dual_feasible hP tol σ0 maxIter hstop
  refine ⟨hdual, ?_⟩
  set v := (lpSolve tol P β σ0 maxIter).v with hv
  have hvl : v.length = P.length := by rw [← hdual.length_eq]; simp
  have hs : ∀ acts ∈ P, ∀ x ∈ acts, SubStoch x := fun a ha x hx => (hP.stoch a ha x hx).sub
  have hM := monoShift_bellman hs hβ0
  have hSl : vS.length = P.length := by rw [← hS]; simp
  have hpos : 0 < 1 - β := by linarith
  have hne : (1 : K) - β ≠ 0 := ne_of_gt hpos
  -- w = v + δ/(1−β) is a super-solution
  have hsup : LeAdd 0 (bellman P β (addConst v (tol.fea / (1 - β)))) (addConst v (tol.fea / (1 - β))) := by
    rw [bellman_addConst hP β _ hvl, leAdd_addConst_right, leAdd_addConst_left]
    have : tol.fea / (1 - β) + 0 - β * (tol.fea / (1 - β)) = tol.fea := by field_simp; ring
    rw [this]; exact hdual
  have h1 := hM.super hβ0 hβ1 hS hSl (by simp [hvl]) hsup
  have h2 := leAdd_addConst_right.mp h1
  rwa [add_zero] at h2

/-- **LP, checked certificate.**  If, in addition to status 0, the returned policy is feasible and
    the returned `v` is its value (`T_σ v = v`; the driver evaluates exactly this test on its exact
    run and prints it as `rcert`), then `v ≤ v* ≤ v + fea_tol/(1−β)` entrywise: value and policy are
    optimal to solver precision. -/
theorem lp_certified {P : Prob K} (hP : WF P) {β : K} (hβ0 : 0 ≤ β) (hβ1 : β < 1)
    (tol : PivTol K) (σ0 : List ℕ) (maxIter : ℕ)
    (hstop : (lpSolve tol P β σ0 maxIter).stopped = true)
    (hfeas : Feasible P (lpSolve tol P β σ0 maxIter).sigma)
    (hval : tSigma P β (lpSolve tol P β σ0 maxIter).sigma (lpSolve tol P β σ0 maxIter).v
      = (lpSolve tol P β σ0 maxIter).v)
    {vS : List K} (hS : bellman P β vS = vS) :
    LeAdd 0 (lpSolve tol P β σ0 maxIter).v vS ∧
    LeAdd (tol.fea / (1 - β)) vS (lpSolve tol P β σ0 maxIter).v :=
  ⟨(vStar_dominates hP hβ0 hβ1 hS).1 _ _ hfeas hval,
   (lp_exit_partial hP hβ0 hβ1 tol σ0 maxIter hstop hS).2⟩

/-- the `n` initial pivots of `ddp_linprog_simplex` onto a feasible policy are always valid: no zero
    pivot element, non-negative right-hand sides afterwards (M-matrix invariant of `I − βQ_σ`:
    non-positive off-diagonal entries and positive column sums on the unprocessed block survive
    every elimination step).  `lpStartChk` is the executable check the driver prints as `rstart`. -/
theorem lp_start_valid {P : Prob K} (hP : WF P) {β : K} (hβ0 : 0 ≤ β) (hβ1 : β < 1) {σ0 : List ℕ}
    (hf0 : Feasible P σ0) : lpStartChk P β (lpBasis0 P σ0) = true :=
  lpStartChk_holds hP hβ0 hβ1 hf0

/-- **T2 `lp_exit_optimal`** (exact arithmetic: the three pivoting tolerances are 0).
    About the model of `ddp_linprog_simplex` — dual-LP tableau, `n` pivots onto the start policy,
    `solve_tableau` with the largest-coefficient rule and the lexicographic ratio test (the C04
    model) — for every well-formed problem, `β ∈ [0,1)`, feasible start policy `σ0` and cap:
    if the method reports status 0 then
      * the returned policy is feasible (the basis is a policy: one pair per state, row `i` holding
        a pair of state `i` — kept invariant through all pivots by a pigeonhole argument on the
        non-negative basic solution, C04's canonical-form / feasibility / solution-set invariant
        being started from `lp_start_valid`),
      * the returned `v` (negated criterion-row entries) is the value of that policy, `T_σ v = v`,
      * `T v = v`: `v` is the optimal value (`vStar_unique`, `vStar_dominates`) and `σ` is optimal.
    Termination is `lp_terminates`; `lp_exit_partial` is the tolerance-robust half. -/
theorem lp_exit_optimal {P : Prob K} (hP : WF P) {β : K} (hβ0 : 0 ≤ β) (hβ1 : β < 1) {σ0 : List ℕ}
    (hf0 : Feasible P σ0) (maxIter : ℕ)
    (hstop : (lpSolve (QE.C04.tol0 : QE.C04.Tol K) P β σ0 maxIter).stopped = true) :
    Feasible P (lpSolve (QE.C04.tol0 : QE.C04.Tol K) P β σ0 maxIter).sigma ∧
    tSigma P β (lpSolve (QE.C04.tol0 : QE.C04.Tol K) P β σ0 maxIter).sigma
        (lpSolve (QE.C04.tol0 : QE.C04.Tol K) P β σ0 maxIter).v
      = (lpSolve (QE.C04.tol0 : QE.C04.Tol K) P β σ0 maxIter).v ∧
    bellman P β (lpSolve (QE.C04.tol0 : QE.C04.Tol K) P β σ0 maxIter).v
      = (lpSolve (QE.C04.tol0 : QE.C04.Tol K) P β σ0 maxIter).v :=
  lpSolve_opt_of_start hP hβ0 hf0 maxIter
    (inv0_of_startChk hf0 (lpStartChk_holds hP hβ0 hβ1 hf0)) hstop

/-- the LP method as `DiscreteDP.linprog_simplex` calls it (start policy = the `v_init`-greedy one):
    at status 0 the returned value is *the* optimal value and dominates every policy's value -/
theorem lp_exit_value {P : Prob K} (hP : WF P) {β : K} (hβ0 : 0 ≤ β) (hβ1 : β < 1) (vInit : List K)
    (maxIter : ℕ)
    (hstop : (lpSolve (QE.C04.tol0 : QE.C04.Tol K) P β (greedy P β vInit) maxIter).stopped = true) :
    (∀ vS, bellman P β vS = vS →
      (lpSolve (QE.C04.tol0 : QE.C04.Tol K) P β (greedy P β vInit) maxIter).v = vS) ∧
    (∀ σ w, Feasible P σ → tSigma P β σ w = w →
      LeAdd 0 w (lpSolve (QE.C04.tol0 : QE.C04.Tol K) P β (greedy P β vInit) maxIter).v) := by
  have h := (lp_exit_optimal hP hβ0 hβ1 (greedy_feasible hP.nonempty β vInit) maxIter hstop).2.2
  exact ⟨fun vS hS => vStar_unique hP hβ0 hβ1 h hS, (vStar_dominates hP hβ0 hβ1 h).1⟩

/-- **T2 `lp_never_unbounded`** (tolerances 0).  The LP method's `solve_tableau` never reports
    status 3 on a discounted DP: a column with positive reduced cost always has a positive entry
    and the lexicographic ratio test always resolves ties (otherwise there would be a non-zero
    non-negative `d` with `A d = 0`, and summing the constraint rows gives `(1−β) Σ d = 0`).
    Consequently the method either reports success — and then `lp_exit_optimal` applies — or has
    used up `max_iter` (`num_iter = max(max_iter − n, 0) + n`). -/
theorem lp_never_unbounded {P : Prob K} (hP : WF P) {β : K} (hβ0 : 0 ≤ β) (hβ1 : β < 1)
    {σ0 : List ℕ} (hf0 : Feasible P σ0) (maxIter : ℕ) :
    (lpSolve (QE.C04.tol0 : QE.C04.Tol K) P β σ0 maxIter).stopped = true ∨
    (lpSolve (QE.C04.tol0 : QE.C04.Tol K) P β σ0 maxIter).iters = (maxIter - P.length) + P.length :=
  lpSolve_stopped_or_cap hP hβ0 hβ1 hf0 maxIter

/-- **T2 `lp_terminates`** (tolerances 0).  The LP method reports success as soon as
    `max_iter ≥ n + (number of conceivable bases) + 1`: every basic variable carries positive mass
    (non-degeneracy of the dual LP of a discounted DP), so every pivot strictly improves the
    objective; a basis determines the objective value, so no basis recurs.
    (`allBases P` lists the `L^n` ways of naming one structural column per row — a crude bound.) -/
theorem lp_terminates {P : Prob K} (hP : WF P) {β : K} (hβ0 : 0 ≤ β) (hβ1 : β < 1)
    {σ0 : List ℕ} (hf0 : Feasible P σ0) (maxIter : ℕ)
    (hN : P.length + (allBases P).length + 1 ≤ maxIter) :
    (lpSolve (QE.C04.tol0 : QE.C04.Tol K) P β σ0 maxIter).stopped = true :=
  lpSolve_terminates hP hβ0 hβ1 hf0 maxIter hN

/-- **the LP method is totally correct in exact arithmetic**: for a large enough cap it returns a
    feasible policy, its value, and that value satisfies the optimality equation (hence is the
    optimal value and dominates every policy's value) -/
theorem lp_correct {P : Prob K} (hP : WF P) {β : K} (hβ0 : 0 ≤ β) (hβ1 : β < 1)
    {σ0 : List ℕ} (hf0 : Feasible P σ0) (maxIter : ℕ)
    (hN : P.length + (allBases P).length + 1 ≤ maxIter) :
    Feasible P (lpSolve (QE.C04.tol0 : QE.C04.Tol K) P β σ0 maxIter).sigma ∧
    tSigma P β (lpSolve (QE.C04.tol0 : QE.C04.Tol K) P β σ0 maxIter).sigma
        (lpSolve (QE.C04.tol0 : QE.C04.Tol K) P β σ0 maxIter).v
      = (lpSolve (QE.C04.tol0 : QE.C04.Tol K) P β σ0 maxIter).v ∧
    bellman P β (lpSolve (QE.C04.tol0 : QE.C04.Tol K) P β σ0 maxIter).v
      = (lpSolve (QE.C04.tol0 : QE.C04.Tol K) P β σ0 maxIter).v ∧
    ∀ σ w, Feasible P σ → tSigma P β σ w = w →
      LeAdd 0 w (lpSolve (QE.C04.tol0 : QE.C04.Tol K) P β σ0 maxIter).v := by
  have h := lp_exit_optimal hP hβ0 hβ1 hf0 maxIter (lp_terminates hP hβ0 hβ1 hf0 maxIter hN)
  exact ⟨h.1, h.2.1, h.2.2, (vStar_dominates hP hβ0 hβ1 h.2.2).1⟩

/-! ## existence over ℝ, and the statements without fixed-point hypotheses -/

/-- **T1 `vStar_exists`.** Over ℝ the optimal value exists (Banach fixed point of the
    β-contraction `bellman P β`), for every well-formed problem and `β ∈ [0,1)`. -/
theorem vStar_exists {P : Prob ℝ} (hP : WF P) {β : ℝ} (hβ0 : 0 ≤ β) (hβ1 : β < 1) :
    ∃ vS, bellman P β vS = vS :=
  exists_fixed_of_close (n := P.length) (bellman P β) (fun v => by simp) hβ0 hβ1 fun c hc v w h =>
    bellman_close (fun a ha x hx => (hP.stoch a ha x hx).sub) hβ0 hc h

/-- over ℝ every policy of the right length has a value (fixed point of `T_σ`) -/
theorem vPolicy_exists {P : Prob ℝ} (hP : WF P) {β : ℝ} (hβ0 : 0 ≤ β) (hβ1 : β < 1)
    {σ : List ℕ} (hσ : σ.length = P.length) : ∃ w, tSigma P β σ w = w :=
  exists_fixed_of_close (n := P.length) (tSigma P β σ) (fun v => by simp [tSigma_length, hσ]) hβ0 hβ1
    fun c hc v w h => tSigma_close (fun a ha x hx => (hP.stoch a ha x hx).sub) hβ0 hc σ h

/-- **value iteration, closed statement over ℝ.** For every well-formed problem, `β ∈ [0,1)`,
    `ε > 0`, start vector of the right length and cap: there is an optimal value `vS`
    (`T vS = vS`, dominating the value of every feasible policy) such that, whenever value
    iteration stops through its tolerance test, the returned `v` is within `ε/2` of `vS`, the
    returned policy is feasible, has a value `w`, and `‖w − vS‖ < ε`. -/
theorem vi_correct_real {P : Prob ℝ} (hP : WF P) {β ε : ℝ} (hβ0 : 0 ≤ β) (hβ1 : β < 1) (hε : 0 < ε)
    {vInit : List ℝ} (hv0 : vInit.length = P.length) (maxIter : ℕ) :
    ∃ vS, bellman P β vS = vS ∧
      (∀ σ w, Feasible P σ → tSigma P β σ w = w → LeAdd 0 w vS) ∧
      ((valueIteration P β ε vInit maxIter).stopped = true →
        supDist (valueIteration P β ε vInit maxIter).v vS < ε / 2 ∧
        Feasible P (valueIteration P β ε vInit maxIter).sigma ∧
        ∃ w, tSigma P β (valueIteration P β ε vInit maxIter).sigma w = w ∧ supDist w vS < ε) := by
  obtain ⟨vS, hS⟩ := vStar_exists hP hβ0 hβ1
  refine ⟨vS, hS, (vStar_dominates hP hβ0 hβ1 hS).1, fun hstop => ?_⟩
  have hσl : (valueIteration P β ε vInit maxIter).sigma.length = P.length := by
    simp [valueIteration]
  obtain ⟨w, hw⟩ := vPolicy_exists hP hβ0 hβ1 hσl
  have h := vi_policy_eps_optimal hP hβ0 hβ1 hε hv0 maxIter hS hstop hw
  exact ⟨vi_stop_half_eps hP hβ0 hβ1 hε hv0 maxIter hS hstop, h.1, w, hw, h.2⟩

/-- **modified policy iteration, closed statement over ℝ** (same shape as `vi_correct_real`) -/
theorem mpi_correct_real {P : Prob ℝ} (hP : WF P) {β ε : ℝ} (hβ0 : 0 ≤ β) (hβ1 : β < 1) (hε : 0 < ε)
    {vInit : List ℝ} (hv0 : vInit.length = P.length) (maxIter k : ℕ) :
    ∃ vS, bellman P β vS = vS ∧
      (∀ σ w, Feasible P σ → tSigma P β σ w = w → LeAdd 0 w vS) ∧
      ((modifiedPI P β ε vInit maxIter k).stopped = true →
        supDist (modifiedPI P β ε vInit maxIter k).v vS < ε / 2 ∧
        Feasible P (modifiedPI P β ε vInit maxIter k).sigma ∧
        ∃ w, tSigma P β (modifiedPI P β ε vInit maxIter k).sigma w = w ∧ supDist w vS < ε) := by
  obtain ⟨vS, hS⟩ := vStar_exists hP hβ0 hβ1
  refine ⟨vS, hS, (vStar_dominates hP hβ0 hβ1 hS).1, fun hstop => ?_⟩
  have h := mpi_stop hP hβ0 hβ1 hε hv0 maxIter k hS hstop
  have hσl : (modifiedPI P β ε vInit maxIter k).sigma.length = P.length :=
    (Forall₂.length_eq h.2.1).symm
  obtain ⟨w, hw⟩ := vPolicy_exists hP hβ0 hβ1 hσl
  exact ⟨h.1, h.2.1, w, hw, h.2.2 w hw⟩

/-! ## modified policy iteration from a sub-solution (Puterman 6.5) -/

/-- **T2 `mpi_monotone`.** `mpiStep P β k v` is one non-stopping outer iteration of
    `modified_policy_iteration` (the `v`-greedy policy, then `k` sweeps of `T_σ` on `T v`; this is
    literally the argument of the recursive call in `mpiLoop`).  Started from a sub-solution
    `v ≤ T v`, for every `k` and every number `j` of outer iterations the iterate is again a
    sub-solution, the iterates increase, they stay below the optimal value, and the error
    `max(v* − v_j)` contracts: `≤ βʲ · max(v* − v₀)`. -/
theorem mpi_monotone {P : Prob K} (hP : WF P) {β : K} (hβ0 : 0 ≤ β) (hβ1 : β < 1) (k : ℕ)
    {v vS : List K} (hv : LeAdd 0 v (bellman P β v)) (hS : bellman P β vS = vS) (j : ℕ) :
    LeAdd 0 ((mpiStep P β k)^[j] v) (bellman P β ((mpiStep P β k)^[j] v)) ∧
    LeAdd 0 ((mpiStep P β k)^[j] v) ((mpiStep P β k)^[j + 1] v) ∧
    LeAdd 0 ((mpiStep P β k)^[j] v) vS ∧
    exc vS ((mpiStep P β k)^[j] v) ≤ β ^ j * exc vS v :=
  have h := mpiStep_iterate hP hβ0 k hv j
  ⟨h.1, h.2, sub_le_vStar hP hβ0 hβ1 h.1 hS, mpiStep_error_iterate hP hβ0 k hv hS j⟩

/-- the default start `min r/(1−β)` of `modified_policy_iteration` is a sub-solution
    ("to guarantee convergence", as the docstring of `solve` says) -/
theorem mpi_default_start_sub {P : Prob K} (hP : WF P) {β : K} (hβ1 : β < 1) :
    LeAdd 0 (mpiInit P β) (bellman P β (mpiInit P β)) := mpiInit_sub hP hβ1

/-- **T2 `mpi_terminates`.** Over an Archimedean field, started from a sub-solution — in particular
    from the default `v_init` — modified policy iteration leaves its loop through the span test for
    every sufficiently large `max_iter` (and then `mpi_stop` applies), for every `k`. -/
theorem mpi_terminates [Archimedean K] {P : Prob K} (hP : WF P) {β ε : K} (hβ0 : 0 ≤ β) (hβ1 : β < 1)
    (hε : 0 < ε) (k : ℕ) {vS : List K} (hS : bellman P β vS = vS) :
    (∀ vInit, LeAdd 0 vInit (bellman P β vInit) →
      ∃ N, ∀ maxIter, N ≤ maxIter → (modifiedPI P β ε vInit maxIter k).stopped = true) ∧
    ∃ N, ∀ maxIter, N ≤ maxIter → (modifiedPI P β ε (mpiInit P β) maxIter k).stopped = true :=
  ⟨fun _ hv => mpi_terminates_aux hP hβ0 hβ1 hε k hv hS,
   mpi_terminates_aux hP hβ0 hβ1 hε k (mpiInit_sub hP hβ1) hS⟩

/-- **MPI with its default start is totally correct over ℝ**: for every large enough cap it stops by
    its own rule, within `ε/2` of the optimal value, with a feasible `ε`-optimal policy. -/
theorem mpi_default_correct_real {P : Prob ℝ} (hP : WF P) {β ε : ℝ} (hβ0 : 0 ≤ β) (hβ1 : β < 1)
    (hε : 0 < ε) (k : ℕ) :
    ∃ vS, bellman P β vS = vS ∧ ∃ N, ∀ maxIter, N ≤ maxIter →
      (modifiedPI P β ε (mpiInit P β) maxIter k).stopped = true ∧
      supDist (modifiedPI P β ε (mpiInit P β) maxIter k).v vS < ε / 2 ∧
      Feasible P (modifiedPI P β ε (mpiInit P β) maxIter k).sigma ∧
      ∀ w, tSigma P β (modifiedPI P β ε (mpiInit P β) maxIter k).sigma w = w → supDist w vS < ε := by
  obtain ⟨vS, hS⟩ := vStar_exists hP hβ0 hβ1
  obtain ⟨N, hN⟩ := (mpi_terminates hP hβ0 hβ1 hε k hS).2
  refine ⟨vS, hS, N, fun maxIter hm => ?_⟩
  have hstop := hN maxIter hm
  have h := mpi_stop hP hβ0 hβ1 hε (by simp) maxIter k hS hstop
  exact ⟨hstop, h.1, h.2.1, h.2.2⟩

/-! ## why policy iteration must stop on "greedy policy unchanged", not on `T v_σ ≈ v_σ` -/

/-- slow-gain example, β = 0.999: state 0 can stay (reward 1) or take reward 0.998 and move with
    probability 0.001 to the absorbing state 1 (reward 1.01) -/
def exSlow : Prob ℚ :=
  [[⟨0, 1, [1, 0]⟩, ⟨1, 998/1000, [999/1000, 1/1000]⟩], [⟨0, 101/100, [0, 1]⟩]]

/-- **a relative-tolerance stopping rule is unsound.**  On `exSlow` the all-stay policy `σ = (0,0)`
    has value `v_σ = (1000, 1010)` and `T v_σ` differs from it by less than `10⁻⁵·|v_σ|` in every entry
    (what `np.allclose(T v_σ, v_σ)` accepts) — yet `T v_σ ≠ v_σ`, the greedy policy at `v_σ` is
    `(1,0) ≠ σ`, and the optimal value, returned by the model's policy iteration (which stops only
    when the greedy policy repeats, `pi_exit_optimal`), is more than 3.99 higher in state 0. -/
theorem pi_rtol_stop_unsound :
    evalPolicy solveRat exSlow (999/1000) [0, 0] = [1000, 1010] ∧
    supDist (bellman exSlow (999/1000) [1000, 1010]) [1000, 1010] ≤ (1/100000) * 1000 ∧
    bellman exSlow (999/1000) [1000, 1010] ≠ [1000, 1010] ∧
    greedy exSlow (999/1000) [1000, 1010] = [1, 0] ∧
    (policyIteration solveRat exSlow (999/1000) [1, 101/100] 250).stopped = true ∧
    (policyIteration solveRat exSlow (999/1000) [1, 101/100] 250).sigma = [1, 0] ∧
    1000 + 399/100 < ((policyIteration solveRat exSlow (999/1000) [1, 101/100] 250).v).getD 0 0 := by
  refine ⟨by decide +kernel, by decide +kernel, by decide +kernel, by decide +kernel,
    by decide +kernel, by decide +kernel, by decide +kernel⟩

/-! ## `solve(method=…)`: the accepted method names -/

/-- **method dispatch, characterised.** `methodOfName` (the `if / elif / else: raise ValueError` chain
    of `DiscreteDP.solve`) selects value iteration exactly for the names `value_iteration`, `vi`,
    policy iteration exactly for `policy_iteration`, `pi`, modified policy iteration exactly for
    `modified_policy_iteration`, `mpi`, linear programming exactly for `linear_programming`, `lp`,
    and raises (`none`) exactly for every other string. -/
theorem methodOfName_iff (s : String) :
    (methodOfName s = some .vi ↔ s = "value_iteration" ∨ s = "vi") ∧
    (methodOfName s = some .pi ↔ s = "policy_iteration" ∨ s = "pi") ∧
    (methodOfName s = some .mpi ↔ s = "modified_policy_iteration" ∨ s = "mpi") ∧
    (methodOfName s = some .lp ↔ s = "linear_programming" ∨ s = "lp") ∧
    (methodOfName s = none ↔ s ∉ ["value_iteration", "vi", "policy_iteration", "pi",
      "modified_policy_iteration", "mpi", "linear_programming", "lp"]) := by
  unfold methodOfName
  by_cases h1 : s = "value_iteration" ∨ s = "vi"
  · rcases h1 with rfl | rfl <;> simp
  by_cases h2 : s = "policy_iteration" ∨ s = "pi"
  · rcases h2 with rfl | rfl <;> simp
  by_cases h3 : s = "modified_policy_iteration" ∨ s = "mpi"
  · rcases h3 with rfl | rfl <;> simp
  by_cases h4 : s = "linear_programming" ∨ s = "lp"
  · rcases h4 with rfl | rfl <;> simp
  · rw [if_neg h1, if_neg h2, if_neg h3, if_neg h4]
    simp only [not_or] at h1 h2 h3 h4
    simp [h1.1, h1.2, h2.1, h2.2, h3.1, h3.2, h4.1, h4.2]

example : methodOfName "mpi" = some .mpi := by decide
example : methodOfName "linear_programming" = some .lp := by decide
example : methodOfName "VI" = none := by decide
example : methodOfName "value iteration" = none := by decide
example : hexToString "7069" = some "pi" := by decide

/-! ## non-vacuity: Puterman's two-state example (ddp.py docstring), β = 1/2 -/

/-- state 0: action 0 (r = 5, q = (½,½)), action 1 (r = 10, q = (0,1)); state 1: action 0
    (r = −1, q = (0,1)) -/
def exP : Prob ℚ := [[⟨0, 5, [1/2, 1/2]⟩, ⟨1, 10, [0, 1]⟩], [⟨0, -1, [0, 1]⟩]]

example : WF exP := by
  refine ⟨by simp [exP], by simp [exP], ?_⟩
  intro acts ha x hx
  simp only [exP, mem_cons, not_mem_nil, or_false] at ha
  rcases ha with rfl | rfl
  · simp only [mem_cons, not_mem_nil, or_false] at hx
    rcases hx with rfl | rfl <;> refine ⟨?_, ?_, ?_⟩ <;> (simp [exP]; try norm_num)
  · simp only [mem_cons, not_mem_nil, or_false] at hx
    subst hx
    refine ⟨?_, ?_, ?_⟩ <;> simp [exP]

/-- the optimal value of the example is `(9, −2)` … -/
example : bellman exP (1/2) [9, -2] = [9, -2] := by decide +kernel
/-- … value iteration started at `(0,0)` with `ε = 1/10` stops by its tolerance test after 6
    iterations (hypothesis `hstop` of `vi_stop_half_eps` holds) … -/
example : (valueIteration exP (1/2) (1/10) [0, 0] 250).stopped = true := by decide +kernel
example : (valueIteration exP (1/2) (1/10) [0, 0] 250).iters = 6 := by decide +kernel
example : (valueIteration exP (1/2) (1/10) [0, 0] 250).sigma = [1, 0] := by decide +kernel
/-- … and policy iteration with the exact solver of the driver leaves through `break`. -/
example : (policyIteration solveRat exP (1/2) [0, 0] 250).stopped = true := by decide +kernel
example : (policyIteration solveRat exP (1/2) [0, 0] 250).v = [9, -2] := by decide +kernel
/-- the exact solver returns the fixed point of `T_σ` on this example (hypothesis `hsolve`) -/
example : tSigma exP (1/2) [1, 0] (evalPolicy solveRat exP (1/2) [1, 0])
    = evalPolicy solveRat exP (1/2) [1, 0] := by decide +kernel
/-- modified policy iteration (k = 3, default start `min r/(1−β)`) stops by its span test -/
example : (modifiedPI exP (1/2) (1/10) (mpiInit exP (1/2)) 250 3).stopped = true := by decide +kernel
example : (modifiedPI exP (1/2) (1/10) (mpiInit exP (1/2)) 250 3).v = [9, -2] := by decide +kernel
/-- the example in product form (action 1 infeasible in state 1) and as shuffled pairs -/
example : ofProduct [[some 5, some 10], [some (-1), none]]
    [[[1/2, 1/2], [0, 1]], [[0, 1], [1/2, 1/2]]] = exP := by decide +kernel
example : ofPairs 2 [1, 0, 0] [0, 1, 0] [-1, 10, 5] [[0, 1], [0, 1], [1/2, 1/2]] = exP := by
  decide +kernel
example : toPairs exP = [(0, 0, 5, [1/2, 1/2]), (0, 1, 10, [0, 1]), (1, 0, -1, [0, 1])] := by
  decide +kernel
example : bellmanProd [[some 5, some 10], [some (-1), none]]
    [[[1/2, 1/2], [0, 1]], [[0, 1], [(1/2 : ℚ), 1/2]]] (1/2) [0, 0] = [(some 10, 1), (some (-1), 0)] := by
  decide +kernel
/-- the exact solver solves the system posed for the policy (1, 0) (instance of `SolvesExactly`) -/
example : Forall₂ (fun row b => dot row (evalPolicy solveRat exP (1/2) [1, 0]) = b)
    (policyMatrix (1/2) (polActs exP [1, 0])) ((polActs exP [1, 0]).map fun y => y.r) := by
  decide +kernel
/-- the example has 2 feasible policies: the bound of `pi_terminates` is `max_iter ≥ 4` -/
example : (allPolicies exP).length = 2 := by decide +kernel
/-- the LP model on the example, with the code's tolerances, reports success (hypothesis of
    `lp_exit_partial`) and returns the optimal value and policy -/
example : (lpSolve ratPivTol exP (1/2) [0, 0] 500).stopped = true := by decide +kernel
example : (lpSolve ratPivTol exP (1/2) [0, 0] 500).v = [9, -2] := by decide +kernel
example : (lpSolve ratPivTol exP (1/2) [0, 0] 500).sigma = [1, 0] := by decide +kernel
example : tSigma exP (1/2) (lpSolve ratPivTol exP (1/2) [0, 0] 500).sigma
    (lpSolve ratPivTol exP (1/2) [0, 0] 500).v = (lpSolve ratPivTol exP (1/2) [0, 0] 500).v := by
  decide +kernel
/-- hypotheses of `lp_exit_optimal` on the example (tolerances 0, start policy (0,0)) -/
example : lpStartChk exP (1/2) (lpBasis0 exP [0, 0]) = true := by decide +kernel
example : (lpSolve (QE.C04.tol0 : QE.C04.Tol ℚ) exP (1/2) [0, 0] 500).stopped = true := by
  decide +kernel
example : (lpSolve (QE.C04.tol0 : QE.C04.Tol ℚ) exP (1/2) [0, 0] 500).v = [9, -2] := by
  decide +kernel
/-- the default MPI start of the example is a sub-solution; one outer step (k = 3) increases it -/
example : mpiInit exP (1/2) = [-2, -2] := by decide +kernel
example : mpiStep exP (1/2) 3 [-2, -2] = [9, -2] := by decide +kernel
/-- with `max_iter = 2` the cap is hit instead: `stopped = false`, `num_iter = max_iter` -/
example : (valueIteration exP (1/2) (1/10) [0, 0] 2).stopped = false := by decide +kernel

end QE.C01
