/-
  Property C01 — theorems about QEModel.C01 (stub; to be filled in).
-/
import QEModel.C01
namespace QE.C01

end QE.C01
