/-
  Property C11 — theorems about QEModel.C11 (stub; to be filled in).
-/
import QEModel.C11
namespace QE.C11

end QE.C11
