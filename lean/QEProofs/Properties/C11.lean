/-
  Property C11 — lcp_lemke: success means a genuine solution; solvable classes are solved.
  Theorems about the definitions of `QEModel.C11` (the ones `qedriver_c11` executes),
  over an arbitrary linearly ordered field `K` (exact arithmetic; the code's tolerances
  `tol_piv`, `tol_ratio_diff` are parameters of the model: the structural theorems hold
  for every `tol_piv ≥ 0` and every `tol_ratio_diff`, the feasibility / solution /
  completeness theorems for tolerances `0`).

  Conventions (lcp_lemke.py 196-258): tableau `n × (2n+2)`, columns `w` (0..n-1),
  `z` (n..2n-1), `z₀` (2n), right-hand side (2n+1); `basis i` = basic variable of row `i`.

  Clauses of the property and where they are proved (all for every `n`, `M`, `q`, `d > 0`):
  * success ⇒ `z ≥ 0`, `Mz+q ≥ 0`, `z_i (Mz+q)_i = 0`          `lemke_success_solves`
  * positive definite / strictly copositive ⇒ success for every q   `lemke_solves_posDef`,
                                                                    `lemke_solves_strictly_copositive`
  * P-matrices ⇒ success for every q     `lemke_solves_P_matrix_signReversalForm` (hypothesis in
      the sign-reversal form; Fiedler–Pták equivalence with the minor definition not proved),
      `lemke_solves_triangular_or_diag_dominant` (concrete classes, unconditional)
  * PSD: status 2 ⇒ no solution (even infeasible)                `lemke_ray_psd_infeasible`
  * no cycling: status 1 impossible for `max_iter > C(2n+1,n)·2n`   `lemke_terminates`
-/
import QEModel.C11
import QEProofs.Lemmas.C11Run
import QEProofs.Lemmas.C11Ray
import QEProofs.Lemmas.C11Psd
import QEProofs.Lemmas.C11LexMin
import QEProofs.Lemmas.C11LexPos
import QEProofs.Lemmas.C11Rev
import QEProofs.Lemmas.C11Complete
import QEProofs.Lemmas.C11Term
import QEProofs.Lemmas.C11PClasses
import QEProofs.Lemmas.C11Buf
import Mathlib.Algebra.Order.Field.Rat
import Mathlib.Tactic.NormNum

namespace QE.C11
open QE QE.Pivot Finset

variable {K : Type} [Field K] [LinearOrder K] [IsStrictOrderedRing K]

/-! ## the first ratio test (lcp_lemke.py 143-154, repaired loop) -/

/-- **T1.** With tie tolerance 0 the hand-written first ratio test returns a row index that
    minimises `q_i/d_i` over all rows. (Before the repair — `firstPivotRowBuggy`, running minimum
    never updated — this was false, see `first_pivot_buggy_not_min_witness`; DESIGN.md carried it
    as a hypothesis "forced by the proof". The repaired loop makes it a theorem, and the
    hypothesis disappears from everything below.) -/
theorem first_pivot_row_is_argmin (n : ℕ) (hn : 0 < n) (q d : ℕ → K) :
    firstPivotRow n q d 0 < n ∧
    ∀ k, k < n → q (firstPivotRow n q d 0) / d (firstPivotRow n q d 0) ≤ q k / d k :=
  firstPivotRow_argmin n hn q d

/-- **T1 (tie rule).** With tolerance 0 the first ratio test returns the *last* arg-min: every
    later row has a strictly larger ratio. This is the choice of the lexicographic rule (the
    comment "Equivalent to lex_min_ratio_test" at lcp_lemke.py 143): among tied rows `i`, the
    vectors `e_i/d_i` are lexicographically smallest for the largest `i`. -/
theorem first_pivot_row_is_last_argmin (n : ℕ) (q d : ℕ → K) :
    ∀ k, firstPivotRow n q d 0 < k → k < n →
      q (firstPivotRow n q d 0) / d (firstPivotRow n q d 0) < q k / d k := by
  intro k hlt hk
  have h1 := (firstFold q d (List.range' 1 (n - 1)) (0, q 0 / d 0) (fun k => k = 0) rfl rfl
    (by intro k hk; rw [hk])).1
  have h := firstFoldLast q d (List.range' 1 (n - 1)) (0, q 0 / d 0) (fun k => k = 0)
    (List.pairwise_lt_range') (by intro x hx; have := List.mem_range'_1.mp hx; simp only; omega)
    (by intro k hk x hx; have := List.mem_range'_1.mp hx; omega)
    (by intro k hk hlt; simp only at hlt; omega) k
    (by
      by_cases hk0 : k = 0
      · exact Or.inl hk0
      · exact Or.inr (List.mem_range'_1.mpr (by omega)))
  unfold firstPivotRow at hlt ⊢
  rw [← h1]
  exact h hlt

/-- for every tie tolerance the first pivot row is a valid row index -/
theorem first_pivot_row_lt (n : ℕ) (hn : 0 < n) (q d : ℕ → K) (td : K) :
    firstPivotRow n q d td < n := firstPivotRow_lt n hn q d td

/-- **T1 (tolerance version).** With a tie tolerance `td ≥ 0` (the code's default is `1e-13`)
    the chosen row is an arg-min up to `(n−1)·td`: the running minimum can drift upward by at
    most `td` per accepted row. -/
theorem first_pivot_row_approx_argmin (n : ℕ) (hn : 0 < n) (q d : ℕ → K) (td : K) (htd : 0 ≤ td) :
    ∀ k, k < n → q (firstPivotRow n q d td) / d (firstPivotRow n q d td)
      ≤ q k / d k + ((n - 1 : ℕ) : K) * td := by
  have h := firstFoldTol q d td htd (List.range' 1 (n - 1)) (0, q 0 / d 0) (fun k => k = 0) 0
    (le_refl _) rfl (by intro k hk; rw [hk]; simp)
  obtain ⟨h1, h3⟩ := h
  intro k hk
  unfold firstPivotRow
  rw [← h1]
  have := h3 k (by
    by_cases hk0 : k = 0
    · exact Or.inl hk0
    · exact Or.inr (List.mem_range'_1.mpr (by omega)))
  simpa using this

/-- the pre-repair loop on `q = (-1,-3,-2)`, `d = 1`: returns row 2 although row 1 has the
    minimal ratio; the repaired loop returns row 1. -/
theorem first_pivot_buggy_not_min_witness :
    firstPivotRowBuggy 3 (fun i => ([-1, -3, -2] : List ℚ).getD i 0) (fun _ => 1) 0 = 2 ∧
    firstPivotRow 3 (fun i => ([-1, -3, -2] : List ℚ).getD i 0) (fun _ => 1) 0 = 1 := by
  constructor <;> decide +kernel

/-- positive definite witness of the pre-repair defect (found by exact search with the model):
    `M = [[4,-1,0],[-1,2,1],[0,1,3]]` (symmetric, leading minors 4, 7, 17), `q = (-1,-2,-1)`,
    `d = 1`. The ratios are `-1, -2, -1`: the stale minimum makes the old loop return row 2
    instead of row 1, the start basis is infeasible, and the run reports **status 0 with
    `z = (10/17, 23/17, -2/17)`** — a negative component. The repaired run returns a genuine
    solution (`lemke_success_solves`). -/
def witM : ℕ → ℕ → ℚ := fnOfMat [[4, -1, 0], [-1, 2, 1], [0, 1, 3]]
def witq : ℕ → ℚ := fnOfList [-1, -2, -1]

theorem first_pivot_buggy_negative_z_witness :
    (lemkeRunBuggy 3 witM witq (fun _ => 1) 100 (0 : ℚ) 0).status = 0 ∧
    getSolution 3 (lemkeRunBuggy 3 witM witq (fun _ => 1) 100 (0 : ℚ) 0).T
      (lemkeRunBuggy 3 witM witq (fun _ => 1) 100 (0 : ℚ) 0).basis 2 = -2 / 17 ∧
    firstPivotRowBuggy 3 witq (fun _ => 1) (0 : ℚ) = 2 ∧ firstPivotRow 3 witq (fun _ => 1) (0 : ℚ) = 1 ∧
    (lcpLemke 3 witM witq (fun _ => 1) 100 (0 : ℚ) 0).success = true ∧
    (List.range 3).map (lcpLemke 3 witM witq (fun _ => 1) 100 (0 : ℚ) 0).z = [4 / 7, 9 / 7, 0] := by
  refine ⟨?_, ?_, ?_, ?_, ?_, ?_⟩ <;> decide +kernel

/-! ## structure of every tableau of the run -/

omit [IsStrictOrderedRing K] in
theorem lemkeRun_eq (n : ℕ) (Mm : ℕ → ℕ → K) (q d : ℕ → K) (maxIter : ℕ) (tp td : K) :
    lemkeRun n Mm q d maxIter tp td = lemkeLoop n tp td (maxIter - 1) (firstPivot n Mm q d td).1
      (firstPivot n Mm q d td).2.1 (firstPivot n Mm q d td).2.2 1 := rfl


/-- the system `w − Mz − d z₀ = q` read on a vector `x = (w, z, z₀)` -/
def InitSys (n : ℕ) (Mm : ℕ → ℕ → K) (q d : ℕ → K) (x : ℕ → K) : Prop :=
  ∀ k, k < n → x k - ∑ j ∈ range n, Mm k j * x (n + j) - d k * x (2 * n) = q k

/-- **T1 `lemke_tableau_equiv`.** For every pivot tolerance `≥ 0`, every tie tolerance, every
    iteration limit and every exit status: the rows of the final tableau have exactly the
    solutions of `w − Mz − d z₀ = q` (only `d_i ≠ 0` is needed). -/
theorem lemke_tableau_equiv (n : ℕ) (hn : 0 < n) (Mm : ℕ → ℕ → K) (q d : ℕ → K)
    (hd : ∀ i, i < n → d i ≠ 0) (maxIter : ℕ) (tp td : K) (htp : 0 ≤ tp) (x : ℕ → K) :
    RowsSat (lemkeRun n Mm q d maxIter tp td).T x n ↔ InitSys n Mm q d x := by
  obtain ⟨h1, he, hc⟩ := firstPivot_inv1 n Mm q d hn hd td
  have hI := (lemkeLoop_inv1 hn (initTableau n Mm q d) tp td htp (maxIter - 1) _ _ _ 1 h1 he hc).1
  have := hI.equiv x
  unfold lemkeRun
  rw [this]
  constructor
  · intro h k hk; exact (init_rowSat n Mm q d x k hk).mp (h k hk)
  · intro h k hk; exact (init_rowSat n Mm q d x k hk).mpr (h k hk)

/-- **T1 basis bookkeeping.** For every tolerance setting as above the final basis is
    injective, its columns are unit vectors of the final tableau, `w_i` and `z_i` are never
    both basic, and on status 0 the artificial variable `2n` is not basic. -/
theorem lemke_basis_structure (n : ℕ) (hn : 0 < n) (Mm : ℕ → ℕ → K) (q d : ℕ → K)
    (hd : ∀ i, i < n → d i ≠ 0) (maxIter : ℕ) (tp td : K) (htp : 0 ≤ tp) :
    let o := lemkeRun n Mm q d maxIter tp td
    (∀ i, i < n → o.basis i ≤ 2 * n) ∧
    (∀ i j, i < n → j < n → o.basis i = o.basis j → i = j) ∧
    (∀ i k, i < n → k < n → o.T.get k (o.basis i) = if k = i then 1 else 0) ∧
    (∀ i j v, i < n → j < n → v < n → ¬ (o.basis i = v ∧ o.basis j = v + n)) ∧
    (o.status = 0 → ∀ i, i < n → o.basis i ≠ 2 * n) := by
  intro o
  obtain ⟨h1, he, hc⟩ := firstPivot_inv1 n Mm q d hn hd td
  have hI := lemkeLoop_inv1 hn (initTableau n Mm q d) tp td htp (maxIter - 1) _ _ _ 1 h1 he hc
  have hI1 : Inv1 n (initTableau n Mm q d) o.T o.basis := hI.1
  refine ⟨hI1.le, hI1.inj, hI1.unit, ?_, hI.2⟩
  rintro i j v hi hj hv ⟨e1, e2⟩
  have := hI1.nopair j i hj hi (by omega)
  rw [e1, e2] at this
  unfold complement at this
  rw [if_pos hv] at this
  exact this rfl

/-! ## feasibility, almost complementarity, success -/

/-- **T1 `lemke_almost_complementary` / feasibility** (tolerances 0, `d > 0`, some `q_i < 0`):
    at *every* exit (success, ray, iteration limit) the basic solution `x = (w, z, z₀)` of the
    final tableau is non-negative, satisfies `w = Mz + q + d z₀` and `w_i z_i = 0`; the vector
    returned by `_get_solution` is its `z` part; on status 0, `z₀ = 0`. No hypothesis on the
    first pivot is left. -/
theorem lemke_almost_complementary (n : ℕ) (hn : 0 < n) (Mm : ℕ → ℕ → K) (q d : ℕ → K)
    (hd : ∀ i, i < n → 0 < d i) (hq : ∃ i, i < n ∧ q i < 0) (maxIter : ℕ) :
    let o := lemkeRun n Mm q d maxIter (0 : K) 0
    let x := basicSol n o.T o.basis
    (∀ v, 0 ≤ x v) ∧
    (∀ i, i < n → x i = ∑ j ∈ range n, Mm i j * x (n + j) + q i + d i * x (2 * n)) ∧
    (∀ i, i < n → x i * x (n + i) = 0) ∧
    (∀ j, j < n → getSolution n o.T o.basis j = x (n + j)) ∧
    (o.status = 0 → x (2 * n) = 0) :=
  lemkeRun_basic n hn Mm q d hd hq maxIter

/-- **T1 `lemke_success_solves`.** Whenever `lcpLemke` reports success (tolerances 0), for
    every covering vector `d > 0`, every `M`, `q` and every iteration limit, the returned `z`
    satisfies `z ≥ 0`, `Mz + q ≥ 0` and `z_i (Mz+q)_i = 0` for every `i`. -/
theorem lemke_success_solves (n : ℕ) (hn : 0 < n) (Mm : ℕ → ℕ → K) (q d : ℕ → K)
    (hd : ∀ i, i < n → 0 < d i) (maxIter : ℕ)
    (hs : (lcpLemke n Mm q d maxIter (0 : K) 0).success = true) :
    LCPSol n Mm q (lcpLemke n Mm q d maxIter (0 : K) 0).z := by
  unfold lcpLemke at hs ⊢
  by_cases ht : trivialExit n q = true
  · rw [if_pos ht]
    have hq := (trivialExit_iff n q).mp ht
    refine ⟨fun j _ => le_refl _, ?_, ?_⟩
    · intro i hi; simpa using hq i hi
    · intro i _; simp
  · rw [if_neg ht] at hs ⊢
    have hq : ∃ i, i < n ∧ q i < 0 := by
      by_contra hne
      apply ht
      rw [trivialExit_iff]
      intro i hi
      by_contra hlt
      exact hne ⟨i, hi, not_le.mp hlt⟩
    have hst : (lemkeRun n Mm q d maxIter (0 : K) 0).status = 0 := by simpa using hs
    obtain ⟨hx0, hxrow, hxc, hget, hz0⟩ := lemkeRun_basic n hn Mm q d hd hq maxIter
    have hz00 := hz0 hst
    have hw : ∀ i, i < n →
        ∑ j ∈ range n, Mm i j * getSolution n (lemkeRun n Mm q d maxIter (0 : K) 0).T
          (lemkeRun n Mm q d maxIter (0 : K) 0).basis j + q i
        = basicSol n (lemkeRun n Mm q d maxIter (0 : K) 0).T
          (lemkeRun n Mm q d maxIter (0 : K) 0).basis i := by
      intro i hi
      rw [hxrow i hi, hz00, mul_zero, add_zero]
      congr 1
      apply Finset.sum_congr rfl
      intro j hj
      rw [hget j (mem_range.mp hj)]
    refine ⟨?_, ?_, ?_⟩
    · intro j hj; show 0 ≤ getSolution n _ _ j; rw [hget j hj]; exact hx0 _
    · intro i hi; show 0 ≤ ∑ j ∈ range n, Mm i j * getSolution n _ _ j + q i
      rw [hw i hi]; exact hx0 _
    · intro i hi
      show getSolution n _ _ i * (∑ j ∈ range n, Mm i j * getSolution n _ _ j + q i) = 0
      rw [hw i hi, hget i hi, mul_comm]; exact hxc i hi

/-- **what survives arbitrary tolerances.** For every pivot tolerance `tp ≥ 0` and every tie
    tolerance `td` (in particular the code's defaults `1e-7`, `1e-13`, read in exact
    arithmetic), `d_i ≠ 0`: whenever `lcpLemke` reports success the returned `z` satisfies the
    complementarity `z_i (Mz+q)_i = 0` for every `i` *exactly*; and `(Mz+q)_i` is the level of
    `w_i` in the final basic solution. Only the sign conditions `z ≥ 0`, `Mz+q ≥ 0` depend on
    the ratio test being exact (tolerances 0: `lemke_success_solves`). -/
theorem lemke_success_complementary_any_tol (n : ℕ) (hn : 0 < n) (Mm : ℕ → ℕ → K) (q d : ℕ → K)
    (hd : ∀ i, i < n → d i ≠ 0) (maxIter : ℕ) (tp td : K) (htp : 0 ≤ tp)
    (hs : (lcpLemke n Mm q d maxIter tp td).success = true) :
    ∀ i, i < n → (lcpLemke n Mm q d maxIter tp td).z i *
      (∑ j ∈ range n, Mm i j * (lcpLemke n Mm q d maxIter tp td).z j + q i) = 0 := by
  unfold lcpLemke at hs ⊢
  by_cases ht : trivialExit n q = true
  · rw [if_pos ht]
    intro i _; simp
  · rw [if_neg ht] at hs ⊢
    have hst : (lemkeRun n Mm q d maxIter tp td).status = 0 := by simpa using hs
    obtain ⟨h1, he, hc⟩ := firstPivot_inv1 n Mm q d hn hd td
    have hI := lemkeLoop_inv1 hn (initTableau n Mm q d) tp td htp (maxIter - 1) _ _ _ 1 h1 he hc
    have hI1 : Inv1 n (initTableau n Mm q d) (lemkeRun n Mm q d maxIter tp td).T
        (lemkeRun n Mm q d maxIter tp td).basis := hI.1
    have hz0 : basicSol n (lemkeRun n Mm q d maxIter tp td).T
        (lemkeRun n Mm q d maxIter tp td).basis (2 * n) = 0 :=
      basicSol_eq_zero _ (hI.2 hst)
    intro i hi
    show getSolution n _ _ i * (∑ j ∈ range n, Mm i j * getSolution n _ _ j + q i) = 0
    have hw : ∑ j ∈ range n, Mm i j * getSolution n (lemkeRun n Mm q d maxIter tp td).T
          (lemkeRun n Mm q d maxIter tp td).basis j + q i
        = basicSol n (lemkeRun n Mm q d maxIter tp td).T
          (lemkeRun n Mm q d maxIter tp td).basis i := by
      rw [basicSol_init Mm q d hI1 i hi, hz0, mul_zero, add_zero]
      congr 1
      apply Finset.sum_congr rfl
      intro j hj
      rw [getSolution_eq hI1 j (mem_range.mp hj)]
    rw [hw, getSolution_eq hI1 i hi, mul_comm]
    exact basicSol_compl hI1 i hi

/-- corollary in the form of the docstring: `z · (Mz + q) = 0` -/
theorem lemke_success_dot (n : ℕ) (hn : 0 < n) (Mm : ℕ → ℕ → K) (q d : ℕ → K)
    (hd : ∀ i, i < n → 0 < d i) (maxIter : ℕ)
    (hs : (lcpLemke n Mm q d maxIter (0 : K) 0).success = true) :
    ∑ i ∈ range n, (lcpLemke n Mm q d maxIter (0 : K) 0).z i *
      (∑ j ∈ range n, Mm i j * (lcpLemke n Mm q d maxIter (0 : K) 0).z j + q i) = 0 := by
  apply Finset.sum_eq_zero
  intro i hi
  exact (lemke_success_solves n hn Mm q d hd maxIter hs).2.2 i (mem_range.mp hi)

/-- trivial exit (lcp_lemke.py 126-130): `q ≥ 0` ⇒ success, status 0, no iteration, `z = 0` -/
theorem lemke_trivial (n : ℕ) (Mm : ℕ → ℕ → K) (q d : ℕ → K) (maxIter : ℕ) (tp td : K)
    (hq : ∀ i, i < n → 0 ≤ q i) :
    (lcpLemke n Mm q d maxIter tp td).success = true ∧
    (lcpLemke n Mm q d maxIter tp td).status = 0 ∧
    (lcpLemke n Mm q d maxIter tp td).numIter = 0 ∧
    ∀ j, (lcpLemke n Mm q d maxIter tp td).z j = 0 := by
  unfold lcpLemke
  rw [if_pos ((trivialExit_iff n q).mpr hq)]
  exact ⟨rfl, rfl, rfl, fun _ => rfl⟩

omit [IsStrictOrderedRing K] in
/-- `success` is exactly `status = 0`, for every input and tolerance -/
theorem lemke_success_iff_status (n : ℕ) (Mm : ℕ → ℕ → K) (q d : ℕ → K) (maxIter : ℕ) (tp td : K) :
    (lcpLemke n Mm q d maxIter tp td).success = true ↔
      (lcpLemke n Mm q d maxIter tp td).status = 0 := by
  unfold lcpLemke
  by_cases ht : trivialExit n q = true
  · rw [if_pos ht]; simp
  · rw [if_neg ht]; simp

/-! ## ray termination (status 2) -/

/-- **T2 the lexicographic ratio test never fails on a Lemke tableau** (tolerances 0): on
    every tableau that is row-equivalent to `[I | −M | −d | q]` with unit basic columns — in
    particular on every tableau of the run, see `lemke_ray_termination` — a pivot column with a
    positive entry always gets a (unique) pivot row: ties of the ratio `rhs/entry` are always
    resolved by the columns `0..n-1`, because two rows of the `w`-block cannot be proportional. -/
theorem lex_ratio_test_total {n : ℕ} {T : M K} {basis : ℕ → ℕ} (Mm : ℕ → ℕ → K) (q d : ℕ → K)
    (h : Inv1 n (initTableau n Mm q d) T basis) (c : ℕ) :
    (lexMinRatio T c 0 (0 : K) 0).1 = true ↔ ∃ k, k < n ∧ 0 < T.get k c := by
  constructor
  · intro hf
    obtain ⟨hr, hpos⟩ := lexMinRatio_found_pos T c 0 (0 : K) 0 hf
    exact ⟨_, by rw [h.nr] at hr; exact hr, hpos⟩
  · exact lexMinRatio_found_of_pos Mm q d h c

/-- **T2 functional specification of `_lex_min_ratio_test`** (tolerances 0, any tableau, any
    `slack_start`): when a row is found it has a positive pivot-column entry and its ratio
    vector `(T[r,rhs], T[r,s], T[r,s+1], …)/T[r,c]` is *strictly* lexicographically smaller
    than that of every other row with positive entry (`LexPosOn` of the difference: its first
    non-zero component along `rhs, s, s+1, …` is positive). With `lex_ratio_test_total` (a row
    is always found on a Lemke tableau) this determines the pivot row uniquely. -/
theorem lex_ratio_test_is_strict_lexmin (T : M K) (c ss : ℕ)
    (hf : (lexMinRatio T c ss (0 : K) 0).1 = true) :
    (lexMinRatio T c ss (0 : K) 0).2 < T.nr ∧ 0 < T.get (lexMinRatio T c ss (0 : K) 0).2 c ∧
    ∀ k, k < T.nr → k ≠ (lexMinRatio T c ss (0 : K) 0).2 → 0 < T.get k c →
      LexPosOn (ratioDiff T c (lexMinRatio T c ss (0 : K) 0).2 k)
        ((T.nc - 1) :: (List.range T.nr).map (· + ss)) :=
  ⟨(lexMinRatio_found_pos T c ss (0 : K) 0 hf).1, (lexMinRatio_found_pos T c ss (0 : K) 0 hf).2,
    lexMinRatio_strict T c ss hf⟩

/-- **T2 `lemke_lex_feasible`: lexicographic feasibility of every tableau** (tolerances 0,
    `d > 0`, some `q_i < 0`; every iteration limit, every exit status). In the final tableau
    every row `i`, read along (right-hand side, `w`-columns `0, …, n-1`), has a positive first
    non-zero entry. This is the classical invariant of the lexicographic rule (it contains
    `rhs ≥ 0` and is what makes the pivot row unique at every step); it holds from the first
    pivot on because the hand-written first ratio test takes the *last* arg-min
    (`first_pivot_row_is_last_argmin`). -/
theorem lemke_lex_feasible (n : ℕ) (hn : 0 < n) (Mm : ℕ → ℕ → K) (q d : ℕ → K)
    (hd : ∀ i, i < n → 0 < d i) (hq : ∃ i, i < n ∧ q i < 0) (maxIter : ℕ) :
    ∀ i, i < n → LexPosOn (fun j => (lemkeRun n Mm q d maxIter (0 : K) 0).T.get i j)
      ((2 * n + 1) :: List.range n) := by
  obtain ⟨h1, he, hc⟩ := firstPivot_inv1 n Mm q d hn (fun i hi => ne_of_gt (hd i hi)) (0 : K)
  exact lemkeLoop_lp hn (initTableau n Mm q d) (maxIter - 1) _ _ _ 1 h1 he hc
    (firstPivot_lp n Mm q d hn hd hq)

/-- **T2 reversibility of the complementary pivot step** (tolerances 0). At a state of the run
    — tableau/basis satisfying the bookkeeping invariant `Inv1` (`lemke_basis_structure`,
    `lemke_tableau_equiv`), lexicographically feasible `LP` (`lemke_lex_feasible`), admissible
    entering column `c` — let `r` be the row chosen by the ratio test and `ℓ = basis r` the leaving
    variable. Then in the new tableau the ratio test for the column of `ℓ` finds a row, that row is
    again `r`, pivoting there restores every entry of the old tableau, and the basis update is
    undone. This is the key lemma of Lemke's finiteness and completeness arguments (an almost
    complementary basis has at most two almost complementary neighbours); the path argument built
    on it is `lemke_never_returns_to_primary_ray` / `lemke_terminates`. -/
theorem lemke_step_reversible {n : ℕ} {T : M K} {basis : ℕ → ℕ} {c : ℕ} (hn : 0 < n)
    (Mm : ℕ → ℕ → K) (q d : ℕ → K) (h : Inv1 n (initTableau n Mm q d) T basis)
    (he : Enter n basis c) (hlp : LP n T) (hf : (lexMinRatio T c 0 (0 : K) 0).1 = true) :
    let r := (lexMinRatio T c 0 (0 : K) 0).2
    lexMinRatio (pivot T c r) (basis r) 0 (0 : K) 0 = (true, r) ∧
    (∀ i j, i < n → j < 2 * n + 2 → (pivot (pivot T c r) (basis r) r).get i j = T.get i j) ∧
    setBasis (setBasis basis r c) r (basis r) = basis := by
  intro r
  obtain ⟨hr0, hpos⟩ := lexMinRatio_found_pos T c 0 (0 : K) 0 hf
  have hr : r < n := by rw [h.nr] at hr0; exact hr0
  obtain ⟨h1, h2⟩ := step_reversible_row hn Mm q d h he hlp hf
  refine ⟨Prod.ext h1 h2, ?_, ?_⟩
  · intro i j hi hj
    exact step_reversible_tableau h hr (ne_of_gt hpos) i j hi hj
  · funext i
    unfold setBasis
    by_cases hir : i = r
    · rw [if_pos hir, hir]
    · rw [if_neg hir, if_neg hir]

/-- **T2 `lemke_ray_termination`: status 2 is a genuine secondary ray** (tolerances 0, `d > 0`,
    some `q_i < 0`). If the run ends with status 2 there is a non-basic column `c < 2n` of the
    final tableau without positive entry, and with `x` the final basic solution and `r` the
    direction "increase variable `c`" (`r_c = 1`, `r ≥ 0`), every point `x + t r`, `t ≥ 0`, is
    non-negative, satisfies `w = Mz + q + d z₀` and `w_i z_i = 0`: an unbounded almost
    complementary half-line. In particular the ratio test did not give up on an unresolved tie. -/
theorem lemke_ray_termination (n : ℕ) (hn : 0 < n) (Mm : ℕ → ℕ → K) (q d : ℕ → K)
    (hd : ∀ i, i < n → 0 < d i) (hq : ∃ i, i < n ∧ q i < 0) (maxIter : ℕ)
    (hs : (lemkeRun n Mm q d maxIter (0 : K) 0).status = 2) :
    ∃ c, c < 2 * n ∧ (∀ i, i < n → (lemkeRun n Mm q d maxIter (0 : K) 0).basis i ≠ c) ∧
      (∀ k, k < n → (lemkeRun n Mm q d maxIter (0 : K) 0).T.get k c ≤ 0) ∧
      rayDir n (lemkeRun n Mm q d maxIter (0 : K) 0).T (lemkeRun n Mm q d maxIter (0 : K) 0).basis c c = 1 ∧
      ∀ t : K, 0 ≤ t →
        let p := fun v => basicSol n (lemkeRun n Mm q d maxIter (0 : K) 0).T
            (lemkeRun n Mm q d maxIter (0 : K) 0).basis v +
          t * rayDir n (lemkeRun n Mm q d maxIter (0 : K) 0).T
            (lemkeRun n Mm q d maxIter (0 : K) 0).basis c v
        (∀ v, 0 ≤ p v) ∧ InitSys n Mm q d p ∧ ∀ i, i < n → p i * p (n + i) = 0 := by
  obtain ⟨h1, he, hc⟩ := firstPivot_inv1 n Mm q d hn (fun i hi => ne_of_gt (hd i hi)) (0 : K)
  have hfe := firstPivot_feas n Mm q d hn hd hq
  have hI := (lemkeLoop_inv1 hn (initTableau n Mm q d) (0 : K) 0 (le_refl _) (maxIter - 1)
    _ _ _ 1 h1 he hc).1
  have hF := lemkeLoop_feas hn (initTableau n Mm q d) (maxIter - 1) _ _ _ 1 h1 he hc hfe
  obtain ⟨c, hc2, hec, hcol⟩ := lemkeLoop_ray hn Mm q d (maxIter - 1) _ _ _ 1 h1 he hc hs
  refine ⟨c, hc2, hec.notin, hcol, rayDir_self hec, ?_⟩
  intro t ht p
  refine ⟨?_, ?_, ?_⟩
  · intro v
    exact add_nonneg (basicSol_nonneg hF v) (mul_nonneg ht (rayDir_nonneg hcol v))
  · have hrows : RowsSat (lemkeRun n Mm q d maxIter (0 : K) 0).T p n :=
      fun k hk => ray_rowSat hI hec t k hk
    have h0 := (hI.equiv p).mp hrows
    intro k hk
    exact (init_rowSat n Mm q d p k hk).mp (h0 k hk)
  · intro i hi
    exact ray_compl hn hI hec hc2 t i hi

/-- positive definiteness (not necessarily symmetric `M`): `yᵀ M y > 0` for `y ≠ 0` -/
def PosDef (n : ℕ) (Mm : ℕ → ℕ → K) : Prop :=
  ∀ y : ℕ → K, (∃ j, j < n ∧ y j ≠ 0) → 0 < ∑ i ∈ range n, y i * ∑ j ∈ range n, Mm i j * y j

omit [IsStrictOrderedRing K] in
theorem posDef_strictCop (n : ℕ) (Mm : ℕ → ℕ → K) (h : PosDef n Mm) : StrictCop n Mm :=
  fun y _ ⟨j, hj, hpos⟩ => h y ⟨j, hj, ne_of_gt hpos⟩

/-- positive definite matrices have the sign-reversal (P-matrix) property used below -/
theorem posDef_noSignReversal (n : ℕ) (Mm : ℕ → ℕ → K) (h : PosDef n Mm) : NoSignReversal n Mm := by
  intro x hx i hi
  by_contra hne
  have hpos := h x ⟨i, hi, hne⟩
  have hle : ∑ i ∈ range n, x i * ∑ j ∈ range n, Mm i j * x j ≤ 0 :=
    Finset.sum_nonpos (fun i hi => hx i (mem_range.mp hi))
  linarith

/-- **the artificial variable is basic exactly until success** (every tolerance `tp ≥ 0`,
    `d_i ≠ 0`): status 0 ⇒ `2n` is not in the final basis; status 1 or 2 ⇒ it still is. -/
theorem lemke_artificial_basic_iff (n : ℕ) (hn : 0 < n) (Mm : ℕ → ℕ → K) (q d : ℕ → K)
    (hd : ∀ i, i < n → d i ≠ 0) (maxIter : ℕ) (tp td : K) (htp : 0 ≤ tp) :
    (∃ i, i < n ∧ (lemkeRun n Mm q d maxIter tp td).basis i = 2 * n) ↔
      (lemkeRun n Mm q d maxIter tp td).status ≠ 0 := by
  constructor
  · rintro ⟨i, hi, hbi⟩ h0
    exact (lemke_basis_structure n hn Mm q d hd maxIter tp td htp).2.2.2.2 h0 i hi hbi
  · intro hs
    rw [lemkeRun_eq] at hs ⊢
    apply lemkeLoop_art n tp td _ _ _ _ _ _ hs
    refine ⟨firstPivotRow n q d td, firstPivotRow_lt n hn q d td, ?_⟩
    rw [firstPivot_snd]
    unfold setBasis
    rw [if_pos rfl]

/-- **iteration counter and status** (every input, every tolerance): `status ∈ {0,1,2}`;
    `num_iter ≤ max(max_iter, 1)` (the first pivot is made unconditionally); status 1 is
    reported exactly at the limit; a non-trivial success needs at least two pivots. -/
theorem lemke_num_iter (n : ℕ) (Mm : ℕ → ℕ → K) (q d : ℕ → K) (maxIter : ℕ) (tp td : K) :
    (lcpLemke n Mm q d maxIter tp td).status ≤ 2 ∧
    (lcpLemke n Mm q d maxIter tp td).numIter ≤ max maxIter 1 ∧
    ((lcpLemke n Mm q d maxIter tp td).status = 1 →
      (lcpLemke n Mm q d maxIter tp td).numIter = max maxIter 1) ∧
    (trivialExit n q = false → (lcpLemke n Mm q d maxIter tp td).status = 0 →
      2 ≤ (lcpLemke n Mm q d maxIter tp td).numIter) := by
  unfold lcpLemke
  by_cases ht : trivialExit n q = true
  · rw [if_pos ht]; simp [ht]
  · rw [if_neg ht]
    obtain ⟨h1, h2, h3, h4, h5⟩ := lemkeLoop_count n tp td (maxIter - 1)
      (firstPivot n Mm q d td).1 (firstPivot n Mm q d td).2.1 (firstPivot n Mm q d td).2.2 1
    refine ⟨h5, ?_, ?_, ?_⟩
    · show (lemkeRun n Mm q d maxIter tp td).numIter ≤ _
      rw [lemkeRun_eq]; omega
    · intro h
      show (lemkeRun n Mm q d maxIter tp td).numIter = _
      rw [lemkeRun_eq] at h ⊢
      have := h3 h
      omega
    · intro _ h
      show 2 ≤ (lemkeRun n Mm q d maxIter tp td).numIter
      rw [lemkeRun_eq] at h ⊢
      have := h4 h
      omega

/-- **the iteration limit does not matter once the run has ended**: if `lcpLemke` with limit
    `maxIter ≥ 1` does not report status 1, it returns the very same result for every larger
    limit (every input, every tolerance). Used by the harness to query the model with a smaller
    limit than the code's `10^6`. -/
theorem lemke_fuel_irrelevant (n : ℕ) (Mm : ℕ → ℕ → K) (q d : ℕ → K) (maxIter : ℕ) (tp td : K)
    (hm : 1 ≤ maxIter) (hs : (lcpLemke n Mm q d maxIter tp td).status ≠ 1) (k : ℕ) :
    lcpLemke n Mm q d (maxIter + k) tp td = lcpLemke n Mm q d maxIter tp td := by
  unfold lcpLemke at hs ⊢
  by_cases ht : trivialExit n q = true
  · rw [if_pos ht, if_pos ht]
  · rw [if_neg ht] at hs
    rw [if_neg ht, if_neg ht]
    have hs' : (lemkeRun n Mm q d maxIter tp td).status ≠ 1 := hs
    rw [lemkeRun_eq] at hs'
    have e : lemkeRun n Mm q d (maxIter + k) tp td = lemkeRun n Mm q d maxIter tp td := by
      rw [lemkeRun_eq, lemkeRun_eq, show maxIter + k - 1 = (maxIter - 1) + k by omega]
      exact lemkeLoop_fuel_irrelevant n tp td _ _ _ _ _ hs' k
    simp only [e]

omit [IsStrictOrderedRing K] in
/-- **exception path** (Numba's Python error model): `lcpLemkeE` signals `ZeroDivisionError`
    exactly when the input is not the trivial case and some `d_i = 0`; in particular never for
    a covering vector `d > 0`, where it returns the result of `lcpLemke`. -/
theorem lemke_zero_division_iff (n : ℕ) (Mm : ℕ → ℕ → K) (q d : ℕ → K) (maxIter : ℕ) (tp td : K) :
    lcpLemkeE n Mm q d maxIter tp td = none ↔
      (trivialExit n q = false ∧ ∃ i, i < n ∧ d i = 0) := by
  unfold lcpLemkeE divByZero
  constructor
  · intro h
    by_cases hc : (!trivialExit n q && (List.range n).any fun i => d i == 0) = true
    · rw [Bool.and_eq_true, List.any_eq_true] at hc
      obtain ⟨h1, i, hi, hdi⟩ := hc
      exact ⟨by simpa using h1, i, List.mem_range.mp hi, by simpa using hdi⟩
    · rw [if_neg hc] at h; exact absurd h (by simp)
  · rintro ⟨h1, i, hi, hdi⟩
    have hc : (!trivialExit n q && (List.range n).any fun i => d i == 0) = true := by
      rw [Bool.and_eq_true, List.any_eq_true]
      exact ⟨by simp [h1], i, List.mem_range.mpr hi, by simpa using hdi⟩
    rw [if_pos hc]

omit [IsStrictOrderedRing K] in
theorem lemke_no_exception_of_pos (n : ℕ) (Mm : ℕ → ℕ → K) (q d : ℕ → K) (maxIter : ℕ) (tp td : K)
    (hd : ∀ i, i < n → 0 < d i) :
    lcpLemkeE n Mm q d maxIter tp td = some (lcpLemke n Mm q d maxIter tp td) := by
  cases h : lcpLemkeE n Mm q d maxIter tp td with
  | none =>
    obtain ⟨_, i, hi, hdi⟩ := (lemke_zero_division_iff n Mm q d maxIter tp td).mp h
    exact absurd hdi (ne_of_gt (hd i hi))
  | some r =>
    unfold lcpLemkeE at h
    split at h
    · exact absurd h (by simp)
    · exact h.symm ▸ rfl

/-! ## completeness (round 2): the path argument and its consequences -/

/-- crude bound on the number of passes of the main loop: (number of `n`-subsets of the `2n+1`
    variables) × (number of entering columns) -/
def iterBound (n : ℕ) : ℕ := (2 * n + 1).choose n * (2 * n)

/-- the library's default `max_iter = 10^6` is above the bound for every `n ≤ 8` (the property's
    quantifier is `n ≤ 6`), so the completeness theorems below apply to default calls -/
theorem iterBound_lt_default (n : ℕ) (hn : n ≤ 8) : iterBound n < 10 ^ 6 := by
  unfold iterBound
  have : n = 0 ∨ n = 1 ∨ n = 2 ∨ n = 3 ∨ n = 4 ∨ n = 5 ∨ n = 6 ∨ n = 7 ∨ n = 8 := by omega
  rcases this with e | e | e | e | e | e | e | e | e <;> subst e <;> decide

/-- **T2 the run never returns to a primary-ray tableau** (tolerances 0, `d > 0`, some
    `q_i < 0`, every `M`): at a status-2 exit the direction of the ray (`lemke_ray_termination`)
    has a non-zero `z` component. Proof: the step map on (set of basic variables, entering
    column) is well defined (`rows_determined`: a basis set determines the rows of the tableau;
    the lexicographic minimiser is unique) and reversible (`lemke_step_reversible`); a return to
    the tableau of the primary ray — the only lexicographically feasible tableau with basis
    `{z₀} ∪ {w_i : i ≠ r}` is the one after the first pivot — would make the path a palindrome,
    which has no middle. -/
theorem lemke_never_returns_to_primary_ray (n : ℕ) (hn : 0 < n) (Mm : ℕ → ℕ → K) (q d : ℕ → K)
    (hd : ∀ i, i < n → 0 < d i) (hq : ∃ i, i < n ∧ q i < 0) (maxIter : ℕ)
    (hs : (lemkeRun n Mm q d maxIter (0 : K) 0).status = 2) :
    ∃ c, c < 2 * n ∧ (∀ i, i < n → (lemkeRun n Mm q d maxIter (0 : K) 0).basis i ≠ c) ∧
      (∀ k, k < n → (lemkeRun n Mm q d maxIter (0 : K) 0).T.get k c ≤ 0) ∧
      ∃ j, j < n ∧ rayDir n (lemkeRun n Mm q d maxIter (0 : K) 0).T
        (lemkeRun n Mm q d maxIter (0 : K) 0).basis c (n + j) ≠ 0 := by
  obtain ⟨c, hc, he, hcol, hA⟩ := ray_zh_ne_zero n Mm q d hn hd hq maxIter hs
  exact ⟨c, hc, he.notin, hcol, hA⟩

/-- **T2 finite termination** (every `M`, `q`, `d > 0`): no two states of the run have the same
    entering column and the same set of basic variables, so the loop body runs fewer than
    `iterBound n = C(2n+1,n)·2n` times; with `max_iter` above that bound status 1 is never
    reported. (No cycling under the lexicographic rule.) -/
theorem lemke_terminates (n : ℕ) (hn : 0 < n) (Mm : ℕ → ℕ → K) (q d : ℕ → K)
    (hd : ∀ i, i < n → 0 < d i) (maxIter : ℕ) (hm : iterBound n < maxIter) :
    (lcpLemke n Mm q d maxIter (0 : K) 0).status ≠ 1 := by
  unfold lcpLemke
  by_cases ht : trivialExit n q = true
  · rw [if_pos ht]; simp
  · rw [if_neg ht]
    have hq : ∃ i, i < n ∧ q i < 0 := by
      by_contra hne
      apply ht
      rw [trivialExit_iff]
      intro i hi
      by_contra hlt
      exact hne ⟨i, hi, not_le.mp hlt⟩
    exact run_status_ne_one n Mm q d hn hd hq maxIter hm

omit [IsStrictOrderedRing K] in
/-- status of the non-trivial branch is what `lcpLemke` reports -/
theorem lcpLemke_status_of_nontrivial (n : ℕ) (Mm : ℕ → ℕ → K) (q d : ℕ → K) (maxIter : ℕ)
    (tp td : K) (ht : ¬ trivialExit n q = true) :
    (lcpLemke n Mm q d maxIter tp td).status = (lemkeRun n Mm q d maxIter tp td).status := by
  unfold lcpLemke
  rw [if_neg ht]

theorem nontrivial_neg (n : ℕ) (q : ℕ → K) (ht : ¬ trivialExit n q = true) :
    ∃ i, i < n ∧ q i < 0 := by
  by_contra hne
  apply ht
  rw [trivialExit_iff]
  intro i hi
  by_contra hlt
  exact hne ⟨i, hi, not_le.mp hlt⟩

/-- a run that is neither cut by the limit nor ended on a ray is a success -/
theorem lemke_success_of_no_ray (n : ℕ) (hn : 0 < n) (Mm : ℕ → ℕ → K) (q d : ℕ → K)
    (hd : ∀ i, i < n → 0 < d i) (maxIter : ℕ) (hm : iterBound n < maxIter)
    (hray : (∃ i, i < n ∧ q i < 0) → (lemkeRun n Mm q d maxIter (0 : K) 0).status ≠ 2) :
    (lcpLemke n Mm q d maxIter (0 : K) 0).success = true ∧
    LCPSol n Mm q (lcpLemke n Mm q d maxIter (0 : K) 0).z := by
  have hsucc : (lcpLemke n Mm q d maxIter (0 : K) 0).success = true := by
    rw [lemke_success_iff_status]
    have h1 := lemke_terminates n hn Mm q d hd maxIter hm
    have h2 := (lemke_num_iter n Mm q d maxIter (0 : K) 0).1
    by_cases ht : trivialExit n q = true
    · exact (lemke_trivial n Mm q d maxIter 0 0 ((trivialExit_iff n q).mp ht)).2.1
    · have h3 := hray (nontrivial_neg n q ht)
      rw [← lcpLemke_status_of_nontrivial n Mm q d maxIter 0 0 ht] at h3
      omega
  exact ⟨hsucc, lemke_success_solves n hn Mm q d hd maxIter hsucc⟩

/-- **T2 strictly copositive `M` (in particular positive definite): `lcp_lemke` succeeds for
    every `q`** and every covering vector `d > 0` (tolerances 0, `max_iter > iterBound n`): it
    reports success and the returned `z` solves the LCP. A ray exit would have direction
    `zh ≠ 0` (`lemke_never_returns_to_primary_ray`) with `zhᵀ M zh = −(zhᵀd)·z₀h ≤ 0`, impossible
    for a strictly copositive matrix. -/
theorem lemke_solves_strictly_copositive (n : ℕ) (hn : 0 < n) (Mm : ℕ → ℕ → K) (q d : ℕ → K)
    (hd : ∀ i, i < n → 0 < d i) (hcop : StrictCop n Mm) (maxIter : ℕ) (hm : iterBound n < maxIter) :
    (lcpLemke n Mm q d maxIter (0 : K) 0).success = true ∧
    LCPSol n Mm q (lcpLemke n Mm q d maxIter (0 : K) 0).z :=
  lemke_success_of_no_ray n hn Mm q d hd maxIter hm
    (fun hq => run_no_ray_cop n Mm q d hn hd hq hcop maxIter)

/-- status 2 never occurs for a strictly copositive `M`, whatever the iteration limit -/
theorem lemke_no_ray_strictly_copositive (n : ℕ) (hn : 0 < n) (Mm : ℕ → ℕ → K) (q d : ℕ → K)
    (hd : ∀ i, i < n → 0 < d i) (hcop : StrictCop n Mm) (maxIter : ℕ) :
    (lcpLemke n Mm q d maxIter (0 : K) 0).status ≠ 2 := by
  by_cases ht : trivialExit n q = true
  · rw [(lemke_trivial n Mm q d maxIter 0 0 ((trivialExit_iff n q).mp ht)).2.1]; decide
  · rw [lcpLemke_status_of_nontrivial n Mm q d maxIter 0 0 ht]
    exact run_no_ray_cop n Mm q d hn hd (nontrivial_neg n q ht) hcop maxIter

/-- **T2 positive definite `M`** (`yᵀMy > 0` for `y ≠ 0`, `M` not necessarily symmetric):
    success and a genuine solution for every `q`, every `d > 0`. -/
theorem lemke_solves_posDef (n : ℕ) (hn : 0 < n) (Mm : ℕ → ℕ → K) (q d : ℕ → K)
    (hd : ∀ i, i < n → 0 < d i) (hpd : PosDef n Mm) (maxIter : ℕ) (hm : iterBound n < maxIter) :
    (lcpLemke n Mm q d maxIter (0 : K) 0).success = true ∧
    LCPSol n Mm q (lcpLemke n Mm q d maxIter (0 : K) 0).z :=
  lemke_solves_strictly_copositive n hn Mm q d hd (posDef_strictCop n Mm hpd) maxIter hm

/-- **T2 P-matrices, hypothesis in the sign-reversal form** (`NoSignReversal`:
    `(∀ i, x_i (Mx)_i ≤ 0) → x = 0`; by the Fiedler–Pták theorem this is equivalent to "all
    principal minors positive" — that equivalence is *not* proved here, the theorem is about the
    sign-reversal property as stated): success and a genuine solution for every `q`, `d > 0`. -/
theorem lemke_solves_P_matrix_signReversalForm (n : ℕ) (hn : 0 < n) (Mm : ℕ → ℕ → K) (q d : ℕ → K)
    (hd : ∀ i, i < n → 0 < d i) (hP : NoSignReversal n Mm) (maxIter : ℕ)
    (hm : iterBound n < maxIter) :
    (lcpLemke n Mm q d maxIter (0 : K) 0).success = true ∧
    LCPSol n Mm q (lcpLemke n Mm q d maxIter (0 : K) 0).z :=
  lemke_success_of_no_ray n hn Mm q d hd maxIter hm
    (fun hq => run_no_ray_P n Mm q d hn hd hq hP maxIter)

/-- **T2 concrete P-matrix classes** (no unproved equivalence involved): triangular matrices
    with positive diagonal and strictly row-diagonally-dominant matrices with positive diagonal
    (the classes the harness generates under "p") have the sign-reversal property, hence
    `lcp_lemke` succeeds on them for every `q`, `d > 0`. -/
theorem lemke_solves_triangular_or_diag_dominant (n : ℕ) (hn : 0 < n) (Mm : ℕ → ℕ → K) (q d : ℕ → K)
    (hd : ∀ i, i < n → 0 < d i)
    (hM : LowerTriPos n Mm ∨ UpperTriPos n Mm ∨ RowDiagDom n Mm) (maxIter : ℕ)
    (hm : iterBound n < maxIter) :
    (lcpLemke n Mm q d maxIter (0 : K) 0).success = true ∧
    LCPSol n Mm q (lcpLemke n Mm q d maxIter (0 : K) 0).z := by
  apply lemke_solves_P_matrix_signReversalForm n hn Mm q d hd _ maxIter hm
  rcases hM with h | h | h
  · exact lowerTriPos_noSignReversal n Mm h
  · exact upperTriPos_noSignReversal n Mm h
  · exact rowDiagDom_noSignReversal n Mm h

/-- **T2 positive semidefinite `M`: status 2 is reported only if the problem is infeasible**
    (`{z ≥ 0, Mz + q ≥ 0} = ∅`; a fortiori the LCP has no solution). `M` need not be symmetric.
    Covers the degenerate exit with the artificial variable basic at level 0: the Farkas
    argument is carried out lexicographically (right-hand side and `w`-block columns), using
    `lemke_lex_feasible`. -/
theorem lemke_ray_psd_infeasible (n : ℕ) (hn : 0 < n) (Mm : ℕ → ℕ → K) (q d : ℕ → K)
    (hd : ∀ i, i < n → 0 < d i) (hpsd : PSD n Mm) (maxIter : ℕ)
    (hs : (lcpLemke n Mm q d maxIter (0 : K) 0).status = 2) :
    ¬ ∃ z : ℕ → K, (∀ j, j < n → 0 ≤ z j) ∧
      (∀ i, i < n → 0 ≤ ∑ j ∈ range n, Mm i j * z j + q i) := by
  by_cases ht : trivialExit n q = true
  · rw [(lemke_trivial n Mm q d maxIter 0 0 ((trivialExit_iff n q).mp ht)).2.1] at hs
    exact absurd hs (by decide)
  · rw [lcpLemke_status_of_nontrivial n Mm q d maxIter 0 0 ht] at hs
    exact run_ray_psd n Mm q d hn hd (nontrivial_neg n q ht) hpsd maxIter hs

/-- corollary: for PSD `M` status 2 implies that the LCP has no solution -/
theorem lemke_ray_psd_no_solution (n : ℕ) (hn : 0 < n) (Mm : ℕ → ℕ → K) (q d : ℕ → K)
    (hd : ∀ i, i < n → 0 < d i) (hpsd : PSD n Mm) (maxIter : ℕ)
    (hs : (lcpLemke n Mm q d maxIter (0 : K) 0).status = 2) :
    ¬ ∃ z : ℕ → K, LCPSol n Mm q z := by
  rintro ⟨z, h1, h2, _⟩
  exact lemke_ray_psd_infeasible n hn Mm q d hd hpsd maxIter hs ⟨z, h1, h2⟩

/-- **T2 PSD `M`, feasible problem ⇒ solved**: if `{z ≥ 0, Mz + q ≥ 0}` is non-empty then
    `lcp_lemke` reports success and returns a solution (`max_iter > iterBound n`). -/
theorem lemke_solves_psd_of_feasible (n : ℕ) (hn : 0 < n) (Mm : ℕ → ℕ → K) (q d : ℕ → K)
    (hd : ∀ i, i < n → 0 < d i) (hpsd : PSD n Mm) (maxIter : ℕ) (hm : iterBound n < maxIter)
    (hfeas : ∃ z : ℕ → K, (∀ j, j < n → 0 ≤ z j) ∧
      (∀ i, i < n → 0 ≤ ∑ j ∈ range n, Mm i j * z j + q i)) :
    (lcpLemke n Mm q d maxIter (0 : K) 0).success = true ∧
    LCPSol n Mm q (lcpLemke n Mm q d maxIter (0 : K) 0).z :=
  lemke_success_of_no_ray n hn Mm q d hd maxIter hm
    (fun hq hs => run_ray_psd n Mm q d hn hd hq hpsd maxIter hs hfeas)

/-! ## the artificial variable at level 0 (pins the known finding on rounding) -/

/-- **the returned `z` solves the LCP exactly when the artificial variable is at level 0** —
    at every exit of the non-trivial branch (success, ray, iteration limit), tolerances 0,
    `d > 0`. In particular a run that stops with the artificial variable basic at level 0
    (whatever status it reports) has already found a solution: this is the situation of the
    known finding `psd_ray_rounded_tie_at_solution`, where the floating-point run reports
    status 2 with `z₀ ≈ 0`. -/
theorem lemke_returned_z_solves_iff_artificial_zero (n : ℕ) (hn : 0 < n) (Mm : ℕ → ℕ → K)
    (q d : ℕ → K) (hd : ∀ i, i < n → 0 < d i) (hq : ∃ i, i < n ∧ q i < 0) (maxIter : ℕ) :
    LCPSol n Mm q (getSolution n (lemkeRun n Mm q d maxIter (0 : K) 0).T
        (lemkeRun n Mm q d maxIter (0 : K) 0).basis) ↔
      basicSol n (lemkeRun n Mm q d maxIter (0 : K) 0).T
        (lemkeRun n Mm q d maxIter (0 : K) 0).basis (2 * n) = 0 := by
  obtain ⟨hx0, hxrow, hxc, hget, _⟩ := lemkeRun_basic n hn Mm q d hd hq maxIter
  set T := (lemkeRun n Mm q d maxIter (0 : K) 0).T with hT
  set basis := (lemkeRun n Mm q d maxIter (0 : K) 0).basis with hB
  have hsum : ∀ i, i < n → ∑ j ∈ range n, Mm i j * getSolution n T basis j
      = ∑ j ∈ range n, Mm i j * basicSol n T basis (n + j) := by
    intro i _
    apply Finset.sum_congr rfl
    intro j hj
    rw [hget j (mem_range.mp hj)]
  constructor
  · rintro ⟨hz, hw, hc⟩
    by_contra hne
    have hpos : 0 < basicSol n T basis (2 * n) := lt_of_le_of_ne (hx0 _) (Ne.symm hne)
    -- every w-level is positive, hence z = 0, hence q ≥ 0: contradiction
    have hzero : ∀ i, i < n → getSolution n T basis i = 0 := by
      intro i hi
      have hwi := hw i hi
      rw [hsum i hi] at hwi
      have hxi : 0 < basicSol n T basis i := by
        rw [hxrow i hi]
        have := mul_pos (hd i hi) hpos
        linarith
      have := hxc i hi
      rcases mul_eq_zero.mp this with e | e
      · exact absurd e (ne_of_gt hxi)
      · rw [hget i hi]; exact e
    obtain ⟨i, hi, hqi⟩ := hq
    have hwi := hw i hi
    have : ∑ j ∈ range n, Mm i j * getSolution n T basis j = 0 := by
      apply Finset.sum_eq_zero
      intro j hj
      rw [hzero j (mem_range.mp hj), mul_zero]
    rw [this, zero_add] at hwi
    linarith
  · intro h0
    have hwv : ∀ i, i < n → ∑ j ∈ range n, Mm i j * getSolution n T basis j + q i
        = basicSol n T basis i := by
      intro i hi
      rw [hsum i hi, hxrow i hi, h0, mul_zero, add_zero]
    refine ⟨?_, ?_, ?_⟩
    · intro j hj; rw [hget j hj]; exact hx0 _
    · intro i hi; rw [hwv i hi]; exact hx0 _
    · intro i hi; rw [hwv i hi, hget i hi, mul_comm]; exact hxc i hi

/-- **PSD `M`, solvable problem: the exact run never ends on a ray** (any iteration limit,
    any `d > 0`); equivalently a ray exit has the artificial variable at a strictly positive
    level. So on the witness of `psd_ray_rounded_tie_at_solution` (PSD, solvable) the status 2
    of the real code cannot come from the algorithm as modelled: it is produced by rounding in
    the tie test. -/
theorem lemke_psd_solvable_no_ray (n : ℕ) (hn : 0 < n) (Mm : ℕ → ℕ → K) (q d : ℕ → K)
    (hd : ∀ i, i < n → 0 < d i) (hpsd : PSD n Mm) (maxIter : ℕ)
    (hsol : ∃ z : ℕ → K, LCPSol n Mm q z) :
    (lcpLemke n Mm q d maxIter (0 : K) 0).status ≠ 2 :=
  fun hs => lemke_ray_psd_no_solution n hn Mm q d hd hpsd maxIter hs hsol

theorem lemke_psd_ray_artificial_positive (n : ℕ) (hn : 0 < n) (Mm : ℕ → ℕ → K) (q d : ℕ → K)
    (hd : ∀ i, i < n → 0 < d i) (hq : ∃ i, i < n ∧ q i < 0) (hpsd : PSD n Mm) (maxIter : ℕ)
    (hs : (lemkeRun n Mm q d maxIter (0 : K) 0).status = 2) :
    0 < basicSol n (lemkeRun n Mm q d maxIter (0 : K) 0).T
        (lemkeRun n Mm q d maxIter (0 : K) 0).basis (2 * n) := by
  have hx0 := (lemkeRun_basic n hn Mm q d hd hq maxIter).1
  apply lt_of_le_of_ne (hx0 _)
  intro e
  have hsolves := (lemke_returned_z_solves_iff_artificial_zero n hn Mm q d hd hq maxIter).mpr e.symm
  obtain ⟨h1, h2, _⟩ := hsolves
  exact run_ray_psd n Mm q d hn hd hq hpsd maxIter hs ⟨_, h1, h2⟩

/-! ## signed iteration limit -/

omit [LinearOrder K] [IsStrictOrderedRing K] in
theorem getSolution_no_z_basic (n : ℕ) (T : M K) (basis : ℕ → ℕ)
    (h : ∀ i, i < n → ¬ (n ≤ basis i ∧ basis i < 2 * n)) (j : ℕ) : getSolution n T basis j = 0 := by
  unfold getSolution
  have gen : ∀ (l : List ℕ) (z : ℕ → K), (∀ i ∈ l, i < n) →
      l.foldl (fun z i =>
        if n ≤ basis i ∧ basis i < 2 * n then setVec z (basis i - n) (T.get i (T.nc - 1)) else z) z = z := by
    intro l
    induction l with
    | nil => intro z _; rfl
    | cons i l ih =>
      intro z hl
      rw [List.foldl_cons, if_neg (h i (hl i (by simp)))]
      exact ih z (fun x hx => hl x (List.mem_cons_of_mem _ hx))
  rw [gen (List.range n) _ (fun i hi => List.mem_range.mp hi)]

/-- **every iteration limit `≤ 1` — zero and negative `max_iter` included — stops right after the
    unconditional first pivot** (every non-trivial input, every tolerance): status 1, not a
    success, `num_iter = 1`, and `z = 0` (only `w`'s and the artificial variable are basic).
    For limits `≥ 0` `lcpLemkeI` is `lcpLemke`. -/
theorem lemke_limit_le_one (n : ℕ) (_hn : 0 < n) (Mm : ℕ → ℕ → K) (q d : ℕ → K) (maxIter : ℤ)
    (tp td : K) (hm : maxIter ≤ 1) (ht : trivialExit n q = false) :
    (lcpLemkeI n Mm q d maxIter tp td).status = 1 ∧
    (lcpLemkeI n Mm q d maxIter tp td).success = false ∧
    (lcpLemkeI n Mm q d maxIter tp td).numIter = 1 ∧
    ∀ j, (lcpLemkeI n Mm q d maxIter tp td).z j = 0 := by
  have hfuel : maxIter.toNat - 1 = 0 := by omega
  have hrun : lemkeRun n Mm q d maxIter.toNat tp td
      = ⟨(firstPivot n Mm q d td).1, (firstPivot n Mm q d td).2.1, 1, 1⟩ := by
    rw [lemkeRun_eq, hfuel]; rfl
  have e : lcpLemkeI n Mm q d maxIter tp td
      = ⟨getSolution n (firstPivot n Mm q d td).1 (firstPivot n Mm q d td).2.1, false, 1, 1,
          some (firstPivot n Mm q d td).2.1⟩ := by
    unfold lcpLemkeI lcpLemke
    rw [if_neg (by rw [ht]; simp), hrun]
    rfl
  rw [e]
  refine ⟨rfl, rfl, rfl, ?_⟩
  intro j
  apply getSolution_no_z_basic
  intro i hi
  rw [firstPivot_snd]
  unfold setBasis initBasis
  split <;> omega

omit [IsStrictOrderedRing K] in
theorem lcpLemkeI_of_nonneg (n : ℕ) (Mm : ℕ → ℕ → K) (q d : ℕ → K) (maxIter : ℕ) (tp td : K) :
    lcpLemkeI n Mm q d (maxIter : ℤ) tp td = lcpLemke n Mm q d maxIter tp td := by
  unfold lcpLemkeI; simp

/-! ## caller-supplied buffers (round 3) -/

omit [IsStrictOrderedRing K] in
/-- **the optional arguments `tableau=`, `basis=`, `z=` are pure work/output buffers**: whatever
    they contain on entry (garbage, NaN, the result of an earlier solve, in any call history),
    `lcpLemkeBuf` returns exactly what `lcpLemke` returns — every input, every tolerance, every
    iteration limit, the trivial branch `q ≥ 0` included (there `z[:] = 0` overwrites the
    buffer). All theorems of this file therefore hold for buffered calls. The scalar-generic
    version `lcpLemkeBuf_eq_lcpLemke` holds for IEEE doubles as well. -/
theorem lemke_buffers_irrelevant (n : ℕ) (Mm : ℕ → ℕ → K) (q d : ℕ → K) (maxIter : ℕ) (tp td : K)
    (tbuf : M K) (bbuf : ℕ → ℕ) (zbuf : ℕ → K) :
    lcpLemkeBuf n Mm q d maxIter tp td tbuf bbuf zbuf = lcpLemke n Mm q d maxIter tp td :=
  lcpLemkeBuf_eq_lcpLemke n Mm q d maxIter tp td tbuf bbuf zbuf

/-- in particular a trivial problem solved into a dirty `z` buffer returns `z = 0` -/
theorem lemke_trivial_clears_buffer (n : ℕ) (Mm : ℕ → ℕ → K) (q d : ℕ → K) (maxIter : ℕ) (tp td : K)
    (tbuf : M K) (bbuf : ℕ → ℕ) (zbuf : ℕ → K) (hq : ∀ i, i < n → 0 ≤ q i) :
    ∀ j, (lcpLemkeBuf n Mm q d maxIter tp td tbuf bbuf zbuf).z j = 0 := by
  rw [lemke_buffers_irrelevant]
  exact (lemke_trivial n Mm q d maxIter tp td hq).2.2.2

/-- one call of a history: its own arguments and whatever the caller left in the work arrays -/
structure Call (K : Type) where
  n : ℕ
  Mm : ℕ → ℕ → K
  q : ℕ → K
  d : ℕ → K
  maxIter : ℕ
  tp : K
  td : K
  tbuf : M K
  bbuf : ℕ → ℕ

/-- a call history on one reused output buffer: the `z` buffer handed to each call is the one the
    previous call returned (its content is the previous answer) -/
def runCalls : List (Call K) → (ℕ → K) → List (LCPResult K)
  | [], _ => []
  | c :: cs, zbuf =>
    let r := lcpLemkeBuf c.n c.Mm c.q c.d c.maxIter c.tp c.td c.tbuf c.bbuf zbuf
    r :: runCalls cs r.z

omit [IsStrictOrderedRing K] in
/-- **history theorem**: in every call history with reused buffers, every answer is a function of
    that call's own arguments only — `lcp_lemke` has no state. -/
theorem lemke_history_independent (calls : List (Call K)) (zbuf : ℕ → K) :
    runCalls calls zbuf =
      calls.map (fun c => lcpLemke c.n c.Mm c.q c.d c.maxIter c.tp c.td) := by
  induction calls generalizing zbuf with
  | nil => rfl
  | cons c cs ih =>
    unfold runCalls
    simp only [List.map_cons, lemke_buffers_irrelevant]
    rw [ih]

/-! ## non-vacuity: concrete instances satisfy the hypotheses and exercise the conclusions -/

/-- docstring instance of `lcp_lemke` -/
def exM : ℕ → ℕ → ℚ := fnOfMat [[1, 0, 0], [2, 1, 0], [2, 2, 1]]
def exq : ℕ → ℚ := fnOfList [-8, -12, -14]
def exd : ℕ → ℚ := fun _ => 1
/-- Murty Ex. 2.9 (secondary ray) -/
def rayM : ℕ → ℕ → ℚ := fnOfMat [[-1, 0, -3], [1, -2, -5], [-2, -1, -2]]
def rayq : ℕ → ℚ := fnOfList [-3, -2, -1]
/-- a problem with ties in `q_i/d_i` and three negative ratios in non-monotone order -/
def tieq : ℕ → ℚ := fnOfList [-2, -6, -1, -6]
def tied : ℕ → ℚ := fnOfList [1, 2, 1, 2]

theorem exd_pos : ∀ i, i < 3 → 0 < exd i := fun _ _ => by norm_num [exd]

-- hypotheses of `lemke_success_solves` / `lemke_almost_complementary` hold, success is reached,
-- after 8 pivots, with z = (8,0,0)
example : LCPSol 3 exM exq (lcpLemke 3 exM exq exd 1000 (0 : ℚ) 0).z :=
  lemke_success_solves 3 (by norm_num) exM exq exd exd_pos 1000 (by decide +kernel)
example : ∃ i, i < 3 ∧ exq i < 0 := ⟨0, by norm_num, by decide +kernel⟩
example : (lcpLemke 3 exM exq exd 1000 (0 : ℚ) 0).numIter = 8 := by decide +kernel
example : (List.range 3).map (lcpLemke 3 exM exq exd 1000 (0 : ℚ) 0).z = [8, 0, 0] := by
  decide +kernel
-- `lemke_success_complementary_any_tol` at the code's default tolerances 1e-7, 1e-13 (as rationals)
example := lemke_success_complementary_any_tol 3 (by norm_num) exM exq exd
  (fun _ _ => by norm_num [exd]) 1000 (1 / 10000000) (1 / 10000000000000) (by norm_num)
  (by decide +kernel)
-- `lemke_fuel_irrelevant`: limit 9 (status 0 after 8 pivots) gives what limit 10^6 gives
example : lcpLemke 3 exM exq exd (9 + 999991) (0 : ℚ) 0 = lcpLemke 3 exM exq exd 9 (0 : ℚ) 0 :=
  lemke_fuel_irrelevant 3 exM exq exd 9 0 0 (by norm_num) (by decide +kernel) 999991
-- the iteration limit and the ray exits are reached as well (the almost-complementary theorem
-- speaks about them too)
example : (lemkeRun 3 exM exq exd 3 (0 : ℚ) 0).status = 1 := by decide +kernel
example : (lemkeRun 3 rayM rayq exd 1000 (0 : ℚ) 0).status = 2 := by decide +kernel
example : ∃ i, i < 3 ∧ rayq i < 0 := ⟨0, by norm_num, by decide +kernel⟩
-- `lemke_ray_termination` applies to it
example := lemke_ray_termination 3 (by norm_num) rayM rayq exd exd_pos ⟨0, by norm_num, by decide +kernel⟩
  1000 (by decide +kernel)
-- `StrictCop` / `PosDef` are satisfiable (identity, n = 2)
example : PosDef 2 (fun i j => if i = j then (1 : ℚ) else 0) := by
  intro y ⟨j, hj, hne⟩
  simp only [Finset.sum_range_succ, Finset.sum_range_zero]
  norm_num
  have : j = 0 ∨ j = 1 := by omega
  rcases this with e | e <;> subst e
  · have := mul_self_pos.mpr hne; nlinarith [mul_self_nonneg (y 1)]
  · have := mul_self_pos.mpr hne; nlinarith [mul_self_nonneg (y 0)]
-- a PSD instance ending on a ray with `z`-part and positive artificial level: M = [[0,-1],[1,0]] (skew),
-- q = (-1,-1): w₁ = −z₂ − 1 ≥ 0 is impossible
def skM : ℕ → ℕ → ℚ := fnOfMat [[0, -1], [1, 0]]
def skq : ℕ → ℚ := fnOfList [-1, -1]
theorem skM_psd : PSD 2 skM := by
  intro y
  unfold bil
  simp only [Finset.sum_range_succ, Finset.sum_range_zero]
  have e : skM 0 0 = 0 ∧ skM 0 1 = -1 ∧ skM 1 0 = 1 ∧ skM 1 1 = 0 := by
    refine ⟨?_, ?_, ?_, ?_⟩ <;> decide +kernel
  rw [e.1, e.2.1, e.2.2.1, e.2.2.2]
  nlinarith
example : (lemkeRun 2 skM skq exd 1000 (0 : ℚ) 0).status = 2 := by decide +kernel
example : (List.range 2).map (lemkeRun 2 skM skq exd 1000 (0 : ℚ) 0).basis = [2, 4] := by decide +kernel
example : 0 < basicSol 2 (lemkeRun 2 skM skq exd 1000 (0 : ℚ) 0).T
    (lemkeRun 2 skM skq exd 1000 (0 : ℚ) 0).basis 4 := by decide +kernel
-- all hypotheses of `lemke_ray_psd_infeasible` hold on this instance (status 2 is reached)
example := lemke_ray_psd_infeasible 2 (by norm_num) skM skq exd (fun _ _ => by norm_num [exd])
  skM_psd 1000 (by decide +kernel)

example : NoSignReversal 2 (fun i j => if i = j then (1 : ℚ) else 0) := by
  apply posDef_noSignReversal
  intro y ⟨j, hj, hne⟩
  simp only [Finset.sum_range_succ, Finset.sum_range_zero]
  norm_num
  have : j = 0 ∨ j = 1 := by omega
  rcases this with e | e <;> subst e
  · have := mul_self_pos.mpr hne; nlinarith [mul_self_nonneg (y 1)]
  · have := mul_self_pos.mpr hne; nlinarith [mul_self_nonneg (y 0)]
-- the witness matrix of `first_pivot_buggy_negative_z_witness` is positive definite:
-- yᵀMy = 3a² + (a−b)² + (b+c)² + 2c²
theorem witM_posDef : PosDef 3 witM := by
  intro y ⟨j, hj, hne⟩
  simp only [Finset.sum_range_succ, Finset.sum_range_zero]
  have e : witM 0 0 = 4 ∧ witM 0 1 = -1 ∧ witM 0 2 = 0 ∧ witM 1 0 = -1 ∧ witM 1 1 = 2 ∧ witM 1 2 = 1 ∧
      witM 2 0 = 0 ∧ witM 2 1 = 1 ∧ witM 2 2 = 3 := by
    refine ⟨?_, ?_, ?_, ?_, ?_, ?_, ?_, ?_, ?_⟩ <;> decide +kernel
  obtain ⟨e1, e2, e3, e4, e5, e6, e7, e8, e9⟩ := e
  rw [e1, e2, e3, e4, e5, e6, e7, e8, e9]
  have key : 0 + y 0 * (0 + 4 * y 0 + -1 * y 1 + 0 * y 2) + y 1 * (0 + -1 * y 0 + 2 * y 1 + 1 * y 2)
      + y 2 * (0 + 0 * y 0 + 1 * y 1 + 3 * y 2)
      = 3 * (y 0 * y 0) + (y 0 - y 1) * (y 0 - y 1) + (y 1 + y 2) * (y 1 + y 2) + 2 * (y 2 * y 2) := by ring
  rw [key]
  have h0 := mul_self_nonneg (y 0)
  have h1 := mul_self_nonneg (y 0 - y 1)
  have h2 := mul_self_nonneg (y 1 + y 2)
  have h3 := mul_self_nonneg (y 2)
  have : j = 0 ∨ j = 1 ∨ j = 2 := by omega
  rcases this with e | e | e <;> subst e
  · have := mul_self_pos.mpr hne; linarith
  · by_cases hy0 : y 0 = 0
    · have : 0 < (y 0 - y 1) * (y 0 - y 1) := by
        apply mul_self_pos.mpr; rw [hy0, zero_sub]; exact neg_ne_zero.mpr hne
      linarith
    · have := mul_self_pos.mpr hy0; linarith
  · have := mul_self_pos.mpr hne; linarith
-- `lemke_step_reversible`, `lemke_lex_feasible`: the state after the first pivot of the docstring instance
-- satisfies `Inv1`, `Enter`, `LP`, and its ratio test finds a row
example :=
  lemke_step_reversible (n := 3) (by norm_num) exM exq exd
    (firstPivot_inv1 3 exM exq exd (by norm_num) (fun i hi => ne_of_gt (exd_pos i hi)) (0 : ℚ)).1
    (firstPivot_inv1 3 exM exq exd (by norm_num) (fun i hi => ne_of_gt (exd_pos i hi)) (0 : ℚ)).2.1
    (firstPivot_lp 3 exM exq exd (by norm_num) exd_pos ⟨0, by norm_num, by decide +kernel⟩)
    (by decide +kernel)
-- `lex_ratio_test_is_strict_lexmin`: a tableau with a tie in the first pass (rows 0 and 1 have ratio 2),
-- resolved by the slack columns
def tieT : M ℚ := M.ofRows [[1, 0, 2, 4], [0, 1, 1, 2]]
example : lexMinRatio tieT 2 0 (0 : ℚ) 0 = (true, 1) := by decide +kernel
example : (minRatioNoTie tieT 2 3 [0, 1] (0 : ℚ) 0).length = 2 := by decide +kernel
-- first ratio test: ties (rows 1 and 3 share the minimum −3): the last one is taken
example : firstPivotRow 4 tieq tied (0 : ℚ) = 3 := by decide +kernel
example : firstPivotRowBuggy 4 tieq tied (0 : ℚ) = 3 := by decide +kernel
-- trivial exit
example : ∀ i, i < 2 → (0 : ℚ) ≤ (fnOfList [0, 3] : ℕ → ℚ) i := by
  intro i hi
  have : i = 0 ∨ i = 1 := by omega
  rcases this with h | h <;> subst h <;> decide +kernel

-- `lemke_solves_posDef` on the positive definite witness matrix: iterBound 3 = 210 < 1000
example := lemke_solves_posDef 3 (by norm_num) witM witq (fun _ => 1) (fun _ _ => by norm_num)
  witM_posDef 1000 (by decide)
-- the docstring matrix [[1,0,0],[2,1,0],[2,2,1]] is lower triangular with positive diagonal
example : LowerTriPos 3 exM := by
  constructor
  · intro i hi
    have : i = 0 ∨ i = 1 ∨ i = 2 := by omega
    rcases this with e | e | e <;> subst e <;> decide +kernel
  · intro i j hi hj hij
    have : (i = 0 ∧ j = 1) ∨ (i = 0 ∧ j = 2) ∨ (i = 1 ∧ j = 2) := by omega
    rcases this with ⟨e1, e2⟩ | ⟨e1, e2⟩ | ⟨e1, e2⟩ <;> subst e1 <;> subst e2 <;> decide +kernel
-- the seeded-change scenario: M = [[1]], q = [1], z buffer left at [2] by an earlier solve
example : (lcpLemkeBuf 1 (fun _ _ => (1 : ℚ)) (fun _ => 1) (fun _ => 1) 1000 0 0
    (M.ofRows [[7, 7, 7, 7]]) (fun _ => 5) (fun _ => 2)).z 0 = 0 := by decide +kernel
-- the witness of the known finding `psd_ray_rounded_tie_at_solution`: PSD (yᵀMy = (y₁ − y₂ + y₃)²), and the EXACT
-- run succeeds after 5 pivots with z = (21, 0, 42, 38) — the real code reports status 2 with the same z
def kfM : ℕ → ℕ → ℚ := fnOfMat [[0, 1, 2, -2], [-1, 1, -4, 5], [-2, 2, 1, 0], [2, -3, -2, 1]]
def kfq : ℕ → ℚ := fnOfList [-8, -1, 0, 4]
def kfd : ℕ → ℚ := fnOfList [3 / 2, 1, 5 / 2, 2]
theorem kfM_psd : PSD 4 kfM := by
  intro y
  unfold bil
  simp only [Finset.sum_range_succ, Finset.sum_range_zero]
  have e : kfM 0 0 = 0 ∧ kfM 0 1 = 1 ∧ kfM 0 2 = 2 ∧ kfM 0 3 = -2 ∧ kfM 1 0 = -1 ∧ kfM 1 1 = 1 ∧
      kfM 1 2 = -4 ∧ kfM 1 3 = 5 ∧ kfM 2 0 = -2 ∧ kfM 2 1 = 2 ∧ kfM 2 2 = 1 ∧ kfM 2 3 = 0 ∧
      kfM 3 0 = 2 ∧ kfM 3 1 = -3 ∧ kfM 3 2 = -2 ∧ kfM 3 3 = 1 := by
    refine ⟨?_, ?_, ?_, ?_, ?_, ?_, ?_, ?_, ?_, ?_, ?_, ?_, ?_, ?_, ?_, ?_⟩ <;> decide +kernel
  obtain ⟨e1, e2, e3, e4, e5, e6, e7, e8, e9, e10, e11, e12, e13, e14, e15, e16⟩ := e
  rw [e1, e2, e3, e4, e5, e6, e7, e8, e9, e10, e11, e12, e13, e14, e15, e16]
  nlinarith [mul_self_nonneg (y 1 - y 2 + y 3)]
example : (lcpLemke 4 kfM kfq kfd 1000 (0 : ℚ) 0).status = 0 ∧
    (lcpLemke 4 kfM kfq kfd 1000 (0 : ℚ) 0).numIter = 5 ∧
    (List.range 4).map (lcpLemke 4 kfM kfq kfd 1000 (0 : ℚ) 0).z = [21, 0, 42, 38] := by
  refine ⟨?_, ?_, ?_⟩ <;> decide +kernel
-- the exact run meets exactly one tied ratio test on its path (the one the floating-point run misses)
example : lcpTies 4 kfM kfq kfd 1000 (0 : ℚ) 0 = 1 := by decide +kernel
-- `lemke_psd_solvable_no_ray` applies to it (the solution is exhibited by the run itself)
example : (lcpLemke 4 kfM kfq kfd 1000 (0 : ℚ) 0).status ≠ 2 :=
  lemke_psd_solvable_no_ray 4 (by norm_num) kfM kfq kfd
    (by intro i hi
        have : i = 0 ∨ i = 1 ∨ i = 2 ∨ i = 3 := by omega
        rcases this with e | e | e | e <;> subst e <;> decide +kernel)
    kfM_psd 1000
    ⟨_, lemke_success_solves 4 (by norm_num) kfM kfq kfd
      (by intro i hi
          have : i = 0 ∨ i = 1 ∨ i = 2 ∨ i = 3 := by omega
          rcases this with e | e | e | e <;> subst e <;> decide +kernel)
      1000 (by decide +kernel)⟩
-- `lemke_limit_le_one`: a negative limit on the docstring instance
example : (lcpLemkeI 3 exM exq exd (-3) (0 : ℚ) 0).status = 1 ∧
    (lcpLemkeI 3 exM exq exd (-3) (0 : ℚ) 0).numIter = 1 :=
  ⟨(lemke_limit_le_one 3 (by norm_num) exM exq exd (-3) 0 0 (by norm_num) (by decide +kernel)).1,
   (lemke_limit_le_one 3 (by norm_num) exM exq exd (-3) 0 0 (by norm_num) (by decide +kernel)).2.2.1⟩
-- `lemke_terminates`: hypotheses are satisfiable (n = 3, limit 1000)
example : iterBound 3 < 1000 := by decide

end QE.C11
