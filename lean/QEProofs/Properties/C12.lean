/-
  Property C12 — theorems about QEModel.C12 (stub; to be filled in).
-/
import QEModel.C12
namespace QE.C12

end QE.C12
