/-
  Property C09 — Bellman operator, policy evaluation, backward induction, form
  conversion and constructor validation of `DiscreteDP`: theorems about QEModel.C09.

  Scalars: `K` is any linearly ordered type with `0, +, *` (the Bellman / recursion
  theorems use nothing else), a linearly ordered field where division is needed.
  `Ext K` is `{-inf} ∪ K` with the order of IEEE doubles; `¬ x < y` reads `y ≤ x`.

  **Histories.** Every operation of the model (`bellman`, `rqSigma`, `tSigma`, `evalPolicyOf`,
  `backwardInduction`, `toSaPair`, `toProduct`) is a pure function of (problem, arguments):
  there is no state on the model side, so the theorems below hold for the result of *each* call
  of any sequence of calls on one instance, and a result, once returned, is that value for
  ever. For the code this is an additional obligation — results the caller keeps must not be
  overwritten by later calls, must not alias each other, the inputs or the object's arrays, and
  the object's `R, Q, s_indices, a_indices, a_indptr` must stay bitwise unchanged. It is not a
  consequence of any theorem here; it is checked on the real code by the history runs of
  `harness/c09.py` (`history_*` keys), which also compare every kept result, as it stands at the
  end of the history, with the pure model.
-/
import QEModel.C09
import QEProofs.Lemmas.C09Max
import QEProofs.Lemmas.C09Bellman
import QEProofs.Lemmas.C09Backward
import QEProofs.Lemmas.C09Policy
import QEProofs.Lemmas.C09Indptr
import QEProofs.Lemmas.C09Ctor
import QEProofs.Lemmas.C09Resort
import QEProofs.Lemmas.C09Forms
import QEProofs.Lemmas.C09Feasible
import QEProofs.Lemmas.C09Optimal
import QEProofs.Lemmas.C09Unique
import QEProofs.Lemmas.C09Given
import QEProofs.Lemmas.C09OptimalProd
import QEProofs.Lemmas.C09Dispatch
namespace QE.C09
set_option linter.unusedSectionVars false

section bellman
variable {K : Type} [Zero K] [Add K] [Mul K] [LinearOrder K]

/-! ## Bellman operator and greedy policy -/

/-- **Bellman operator, SA-pair form.** Let state `i` own the non-empty block
    `[a_indptr[i], a_indptr[i+1])` of the pair arrays (which lies inside them). Then
    `bellman v` reports for state `i` the value `R[m] + β·Q[m]·v` of a pair `m` of that block
    and the action `a_indices[m]` of that same pair, such that no pair of the block has a
    larger value (so `Tv[i]` is the maximum over the feasible actions of `i`, attained by
    `σ[i]`), and every *earlier* pair of the block has a strictly smaller value (first
    maximum: with the pairs of a state in increasing action order, `σ[i]` is the smallest
    maximising action). -/
-- (history independence: `d.bellman v` depends on `d` and `v` only — see the header note)
theorem bellman_spec_sa (d : SaDDP K) (v : List K) (i : Nat) (hi : i < d.n)
    (hne : d.aIndptr.getD i 0 < d.aIndptr.getD (i + 1) 0)
    (hhi : d.aIndptr.getD (i + 1) 0 ≤ d.R.length)
    (hQ : d.Q.length = d.R.length) (hA : d.aInd.length = d.R.length) :
    ∃ m act, d.aIndptr.getD i 0 ≤ m ∧ m < d.aIndptr.getD (i + 1) 0 ∧
      d.aInd[m]? = some act ∧
      (d.bellman v).1[i]? = some (d.pairVal v m) ∧
      (d.bellman v).2[i]? = some act ∧
      (∀ j, d.aIndptr.getD i 0 ≤ j → j < d.aIndptr.getD (i + 1) 0 →
        ¬ d.pairVal v m < d.pairVal v j) ∧
      (∀ j, d.aIndptr.getD i 0 ≤ j → j < m → d.pairVal v j < d.pairVal v m) :=
  sa_bellman_spec d v i hi hne hhi hQ hA

/-- the value of a pair is `r + β Σ q v` for a finite reward and `-inf` for a `-inf` reward -/
theorem pairVal_def (d : SaDDP K) (v : List K) (j : Nat) :
    d.pairVal v j = match d.R.getD j .ninf with
      | .ninf => .ninf
      | .fin r => .fin (r + d.beta * dot (d.Q.getD j []) v) := by
  unfold SaDDP.pairVal qval
  cases d.R.getD j .ninf <;> rfl

/-- **Bellman operator, product form** (`m ≥ 1` actions; infeasible actions carry `-inf`).
    `bellman v` reports for state `i` an action `a < m` and its value
    `R[i,a] + β·Q[i,a]·v`; no action has a larger value and every smaller action has a
    strictly smaller value (NumPy's first `argmax`). -/
theorem bellman_spec_prod (d : ProdDDP K) (v : List K) (i : Nat) (hi : i < d.R.length)
    (hQl : d.Q.length = d.R.length) (m : Nat) (hm : 0 < m)
    (hRi : (d.R.getD i []).length = m) (hQi : (d.Q.getD i []).length = m) :
    ∃ a, a < m ∧ (d.bellman v).1[i]? = some (d.actVal v i a) ∧ (d.bellman v).2[i]? = some a ∧
      (∀ b, b < m → ¬ d.actVal v i a < d.actVal v i b) ∧
      (∀ b, b < a → d.actVal v i b < d.actVal v i a) :=
  prod_bellman_spec d v i hi hQl m hm hRi hQi

/-- in product form the greedy action is feasible as soon as the state has a feasible action -/
theorem greedy_feasible_prod (d : ProdDDP K) (v : List K) (i : Nat) (hi : i < d.R.length)
    (hQl : d.Q.length = d.R.length) (m : Nat) (hm : 0 < m)
    (hRi : (d.R.getD i []).length = m) (hQi : (d.Q.getD i []).length = m)
    (hfeas : ∃ b, b < m ∧ (d.R.getD i []).getD b .ninf ≠ .ninf) :
    ∃ a, a < m ∧ (d.bellman v).2[i]? = some a ∧ (d.R.getD i []).getD a .ninf ≠ .ninf := by
  obtain ⟨a, ha, _, h2, h3, _⟩ := prod_bellman_spec d v i hi hQl m hm hRi hQi
  refine ⟨a, ha, h2, ?_⟩
  obtain ⟨b, hb, hfb⟩ := hfeas
  intro hninf
  have := h3 b hb
  apply this
  unfold ProdDDP.actVal qval
  rw [hninf]
  cases hrb : (d.R.getD i []).getD b .ninf with
  | ninf => exact absurd hrb hfb
  | fin r => exact trivial

end bellman

/-! non-vacuity: a 2-state SA instance over `ℤ` (pairs (0,0),(0,1),(1,0); tie in state 0 is
    resolved to the first pair) and a product instance with an infeasible action -/
def exSa : SaDDP Int :=
  { n := 2, beta := 1, R := [.fin 1, .fin 1, .fin 0], Q := [[1, 0], [1, 0], [0, 1]],
    sInd := [0, 0, 1], aInd := [0, 1, 0], aIndptr := [0, 2, 3] }
example : exSa.bellman [5, 7] = ([.fin 6, .fin 7], [0, 0]) := by decide
example : exSa.aIndptr.getD 0 0 < exSa.aIndptr.getD 1 0 ∧ exSa.aIndptr.getD 1 0 ≤ exSa.R.length ∧
    exSa.Q.length = exSa.R.length ∧ exSa.aInd.length = exSa.R.length := by decide
def exProd : ProdDDP Int :=
  { n := 2, m := 2, beta := 2, R := [[.ninf, .fin 1], [.fin 0, .fin 3]],
    Q := [[[1, 0], [0, 1]], [[1, 0], [0, 1]]] }
example : exProd.bellman [1, 2] = ([.fin 5, .fin 7], [1, 1]) := by decide


/-! ## policies: RQ_sigma, controlled_mc, T_sigma, evaluate_policy -/

section policy
variable {K : Type}

/-- **RQ_sigma / controlled_mc select exactly the chosen rows (SA-pair form).** Whenever the
    model returns rows at all, row `i` of `R_σ` / `Q_σ` (`Q_σ` is what `controlled_mc` wraps)
    is the reward / transition row of a pair `j` in the block of state `i` with
    `a_indices[j] = σ[i]`. -/
theorem rqSigma_rows_sa (d : SaDDP K) (sigma : List Nat) (hs : sigma.length = d.n)
    (R' : List (Ext K)) (Q' : List (List K)) (h : d.rqSigma sigma = some (R', Q')) :
    R'.length = d.n ∧ Q'.length = d.n ∧
    ∀ i, i < d.n → ∃ j, d.aIndptr.getD i 0 ≤ j ∧ j < d.aIndptr.getD (i + 1) 0 ∧
      d.aInd[j]? = some (sigma.getD i 0) ∧
      R'[i]? = some (d.R.getD j .ninf) ∧ Q'[i]? = some (d.Q.getD j []) :=
  sa_rqSigma_rows d sigma hs R' Q' h

/-- … and the model does return rows for every policy that picks an available action in
    every state (for other policies the code indexes with uninitialised memory; the model
    says `none`). -/
theorem rqSigma_defined_sa (d : SaDDP K) (sigma : List Nat) (hs : sigma.length = d.n)
    (hfeas : ∀ i, i < d.n → ∃ j, d.aIndptr.getD i 0 ≤ j ∧ j < d.aIndptr.getD (i + 1) 0 ∧
      d.aInd[j]? = some (sigma.getD i 0)) :
    (d.rqSigma sigma).isSome = true :=
  sa_rqSigma_isSome d sigma hs hfeas

/-- **RQ_sigma / controlled_mc, product form**: row `i` is `R[i, σ[i]]` / `Q[i, σ[i], :]`. -/
theorem rqSigma_rows_prod (d : ProdDDP K) (sigma : List Nat)
    (R' : List (Ext K)) (Q' : List (List K)) (h : d.rqSigma sigma = some (R', Q')) :
    sigma.length = d.n ∧ (∀ a ∈ sigma, a < d.m) ∧ R'.length = d.n ∧ Q'.length = d.n ∧
    ∀ i, i < d.n →
      R'[i]? = some ((d.R.getD i []).getD (sigma.getD i 0) .ninf) ∧
      Q'[i]? = some ((d.Q.getD i []).getD (sigma.getD i 0) []) :=
  prod_rqSigma_rows d sigma R' Q' h

example : exSa.rqSigma [1, 0] = some ([.fin 1, .fin 0], [[1, 0], [0, 1]]) := by decide
example : exSa.rqSigma [0, 1] = none := by decide   -- action 1 is not available in state 1
example : exProd.rqSigma [0, 1] = some ([.ninf, .fin 3], [[1, 0], [0, 1]]) := by decide

section
variable [Zero K] [Add K] [Mul K]

/-- **T_sigma is the affine map `v ↦ R_σ + β Q_σ v`**: entry `i` is
    `R_σ[i] + β·Q_σ[i]·v` (`-inf` if `R_σ[i] = -inf`), for all three forms
    (`DDP.tSigma` is `tSigmaOf` applied to `rqSigma`). -/
theorem tSigma_entry (beta : K) (R' : List (Ext K)) (Q' : List (List K)) (v : List K) (i : Nat)
    (h1 : i < R'.length) (h2 : i < Q'.length) :
    (tSigmaOf beta (R', Q') v)[i]? = some (qval beta (R'.getD i .ninf) (Q'.getD i []) v) :=
  tSigmaOf_getElem? beta R' Q' v i h1 h2

theorem tSigma_def (d : DDP K) (sigma : List Nat) (v : List K) :
    d.tSigma sigma v = (d.rqSigma sigma).map fun rq => tSigmaOf d.beta rq v := rfl

/-- with finite rewards `b` the result is the vector `b + β Q_σ v` -/
theorem tSigma_affine (beta : K) (b : List K) (Q' : List (List K)) (v : List K) :
    tSigmaOf beta (b.map Ext.fin, Q') v
      = (List.zipWith (fun r q => r + beta * dot q v) b Q').map Ext.fin :=
  tSigmaOf_fin beta b Q' v

end

/-- `dot` is linear in its second argument, so the map above is affine in `v` -/
theorem dot_linear {K : Type} [CommRing K] (q v w : List K) (c : K) (h : v.length = w.length) :
    dot q (List.zipWith (· + ·) v w) = dot q v + dot q w ∧ dot q (v.map (c * ·)) = c * dot q v :=
  ⟨dot_add_right q v w h, dot_smul_right c q v⟩

/-- `dot q v` is the sum `Σ_{s'} q(s') v(s')` of the property statement -/
theorem dot_is_sum {K : Type} [CommRing K] (q v : List K) :
    dot q v = ∑ i ∈ Finset.range (min q.length v.length), q.getD i 0 * v.getD i 0 :=
  dot_eq_sum q v

end policy

section evalpol
variable {K : Type} [Field K] [DecidableEq K]

/-- **evaluate_policy returns the fixed point of `T_σ`.** With the driver's checked solver:
    whenever `evalPolicyOf` answers `x`, then `β ≠ 1`, the policy's rows exist, all its rewards
    are finite, and — `Q_σ` being square of the size of `x` — `T_σ x = x`. (`β = 1` gives
    `NotImplementedError`, see `evalPolicy_beta_one`.) -/
theorem evalPolicy_fixed_point (beta : K) (rq : Option (List (Ext K) × List (List K))) (x : List K)
    (h : evalPolicyOf solveChecked beta rq = .ok x) :
    beta ≠ 1 ∧ ∃ (R' : List (Ext K)) (Q' : List (List K)) (b : List K), rq = some (R', Q') ∧ R' = b.map Ext.fin ∧ x.length = Q'.length ∧
      ((∀ row ∈ Q', row.length = Q'.length) → tSigmaOf beta (R', Q') x = x.map Ext.fin) := by
  unfold evalPolicyOf at h
  by_cases hb : (beta == 1) = true
  · rw [if_pos hb] at h; cases h
  rw [if_neg hb] at h
  refine ⟨fun e => hb (by simp [e]), ?_⟩
  cases rq with
  | none => cases h
  | some p =>
    obtain ⟨R', Q'⟩ := p
    simp only at h
    cases hm : R'.mapM Ext.toOption with
    | none => simp [hm] at h
    | some b =>
      simp only [hm] at h
      cases hsol : solveChecked (policyMatrix beta Q') b with
      | none => simp [hsol] at h
      | some y =>
        simp only [hsol] at h
        cases h
        have hR := mapM_toOption_eq_some _ _ hm
        obtain ⟨hl, hmv⟩ := solveChecked_sound _ _ _ hsol
        have hl' : x.length = Q'.length := by simpa [policyMatrix] using hl
        refine ⟨R', Q', b, rfl, hR, hl', ?_⟩
        intro hsq
        rw [hR, tSigmaOf_fin, fixed_point_of_solve beta Q' b x hl' hsq hmv]

theorem evalPolicy_beta_one (solve : List (List K) → List K → Option (List K))
    (rq : Option (List (Ext K) × List (List K))) :
    evalPolicyOf solve (1 : K) rq = .error "NotImplementedError" := by
  simp [evalPolicyOf]

end evalpol


section evalunique
variable {K : Type} [Field K] [LinearOrder K] [IsStrictOrderedRing K]

/-- **the fixed point of `T_σ` is unique for `0 ≤ β < 1`** (contraction in the max norm; rows of
    `Q_σ` non-negative with sum `≤ 1`) -/
theorem tSigma_fixed_point_unique' (beta : K) (hb0 : 0 ≤ beta) (hb1 : beta < 1)
    (b : List K) (Q' : List (List K)) (hQn : ∀ row ∈ Q', ∀ a ∈ row, 0 ≤ a)
    (hQs : ∀ row ∈ Q', row.sum ≤ 1) (x y : List K) (hxy : x.length = y.length)
    (hx : tSigmaOf beta (b.map Ext.fin, Q') x = x.map Ext.fin)
    (hy : tSigmaOf beta (b.map Ext.fin, Q') y = y.map Ext.fin) : x = y := by
  have hinj : Function.Injective (Ext.fin : K → Ext K) := fun a c h => by injection h
  rw [tSigmaOf_fin] at hx hy
  exact tSigma_fixed_point_unique beta hb0 hb1 b Q' hQn hQs x y hxy
    (List.map_injective_iff.mpr hinj hx) (List.map_injective_iff.mpr hinj hy)

/-- **evaluate_policy returns *the* value of the policy**: for `0 ≤ β < 1` and a square
    sub-stochastic `Q_σ`, whatever `evalPolicyOf` answers equals every fixed point of `T_σ` of the
    same length. -/
theorem evalPolicy_unique (beta : K) (hb0 : 0 ≤ beta) (hb1 : beta < 1)
    (b : List K) (Q' : List (List K)) (hsq : ∀ row ∈ Q', row.length = Q'.length)
    (hQn : ∀ row ∈ Q', ∀ a ∈ row, 0 ≤ a) (hQs : ∀ row ∈ Q', row.sum ≤ 1)
    (x y : List K) (hx : evalPolicyOf solveChecked beta (some (b.map Ext.fin, Q')) = .ok x)
    (hyl : y.length = Q'.length) (hy : tSigmaOf beta (b.map Ext.fin, Q') y = y.map Ext.fin) :
    y = x := by
  obtain ⟨_, R'', Q'', b'', hrq, hR, hl, hfix⟩ := evalPolicy_fixed_point beta _ x hx
  simp only [Option.some.injEq, Prod.mk.injEq] at hrq
  obtain ⟨rfl, rfl⟩ := hrq
  have hxfix := hfix hsq
  exact (tSigma_fixed_point_unique' beta hb0 hb1 b Q' hQn hQs x y (by omega) hxfix hy).symm

end evalunique

example : evalPolicyOf solveChecked (1/2 : Rat) (some ([.fin 1, .fin 0], [[1, 0], [0, 1]]))
    = .ok [2, 0] := by decide +kernel


/-! ## `_generate_a_indptr` (as repaired: bounded scan) -/

/-- **The scan never leaves the array, for all inputs** (any `s`, any remaining array, sorted
    or not): it advances by some `k ≤ len(rest)` elements, all equal to `s`, and stops either at
    the end of the array or in front of an element `≠ s` — every element it inspects is an
    element of the array. -/
theorem scan_in_bounds (s : Nat) (rest : List Nat) (idx : Nat) :
    ∃ k, k ≤ rest.length ∧ scanState s rest idx = (idx + k, rest.drop k) ∧
      (∀ x ∈ rest.take k, x = s) ∧ (∀ x, (rest.drop k).head? = some x → x ≠ s) :=
  scanState_drop s rest idx

/-- **`a_indptr` is well formed for all inputs** (`n` arbitrary, `s_indices` arbitrary — empty
    trailing, middle or leading states, unsorted, values `≥ n`): it has `n+1` entries, every
    entry is a position `≤ len(s_indices)`, entries are non-decreasing, the last one is
    `len(s_indices)` and (for `n > 0`) the first is `0`. -/
theorem aindptr_in_bounds (n : Nat) (S : List Nat) :
    (generateAIndptr n S).length = n + 1 ∧
    (∀ y ∈ generateAIndptr n S, y ≤ S.length) ∧
    List.Pairwise (· ≤ ·) (generateAIndptr n S) ∧
    (generateAIndptr n S)[n]? = some S.length ∧
    (0 < n → (generateAIndptr n S)[0]? = some 0) := by
  unfold generateAIndptr
  by_cases hn : n = 0
  · subst hn; simp
  rw [if_neg hn]
  obtain ⟨h1, h2, h3⟩ := genLoop_inv S (List.range (n - 1)) S 0 (by simp) (Nat.zero_le _)
  rw [List.length_range] at h1
  refine ⟨by simp [h1]; omega, ?_, ?_, ?_, fun _ => by simp⟩
  · intro y hy
    simp only [List.mem_append, List.mem_cons] at hy
    rcases hy with (rfl | hy) | hy
    · exact Nat.zero_le _
    · exact (h2 y hy).2
    · simp at hy; omega
  · rw [List.pairwise_append]
    refine ⟨?_, by simp, ?_⟩
    · rw [List.pairwise_cons]
      exact ⟨fun y _ => Nat.zero_le _, h3⟩
    · intro a ha b hb
      simp only [List.mem_singleton] at hb
      subst hb
      rcases List.mem_cons.mp ha with rfl | ha
      · exact Nat.zero_le _
      · exact (h2 a ha).2
  · have hl : (0 :: genLoop S 0 (List.range (n - 1))).length = n := by
      rw [List.length_cons, h1]; omega
    rw [List.getElem?_append_right (by omega), hl]
    simp

/-- **On sorted input `a_indptr[k]` is the number of pairs with state `< k`** (`k < n`), and
    `a_indptr[n] = L`; hence state `i` owns exactly `count(i)` positions. -/
theorem aindptr_sorted (n : Nat) (S : List Nat) (hp : List.Pairwise (· ≤ ·) S) (k : Nat) :
    (k < n → (generateAIndptr n S)[k]? = some (S.countP (· < k))) ∧
    (k = n → (generateAIndptr n S)[k]? = some S.length) :=
  generateAIndptr_sorted n S hp k

/-- whenever the scan **without** the guard `idx < L` (the code before the repair) stays
    inside the array, it computes the same pointer array … -/
theorem aindptrU_agrees (n : Nat) (S l : List Nat) (h : generateAIndptrUnbounded n S = some l) :
    l = generateAIndptr n S := by
  unfold generateAIndptrUnbounded at h
  unfold generateAIndptr
  by_cases hn : n = 0
  · simp [hn] at h ⊢; exact h.symm
  · rw [if_neg hn] at h ⊢
    cases hg : genLoopU S 0 (List.range (n - 1)) with
    | none => simp [hg] at h
    | some mid =>
      simp only [hg, Option.map_some, Option.some.injEq] at h
      rw [genLoopU_some _ _ _ _ hg]
      exact h.symm

/-- … and it runs off the array exactly when everything left equals the state scanned for -/
theorem scanU_out_of_bounds_iff (s : Nat) (rest : List Nat) (idx : Nat) :
    scanStateU s rest idx = none ↔ ∀ x ∈ rest, x = s :=
  scanStateU_none_iff s rest idx

/-- **aindptr_total_iff (the pre-repair scan, F4).** On sorted input the scan *without* the
    guard `idx < L` reads past the end of `s_indices` **iff** `n ≥ 2` and no pair belongs to a
    state `≥ n-1` — with states `< n`: iff the last state has no pair. The repaired scan needs
    no such hypothesis (`aindptr_in_bounds`). -/
theorem aindptr_total_iff (n : Nat) (S : List Nat) (hp : List.Pairwise (· ≤ ·) S) :
    generateAIndptrUnbounded n S = none ↔ 2 ≤ n ∧ ∀ x ∈ S, x < n - 1 :=
  generateAIndptrUnbounded_none_iff n S hp

-- the input of finding F4: last state empty. Unguarded: read past the end; guarded: fine
example : generateAIndptrUnbounded 3 [0, 0] = none := by decide
example : generateAIndptr 3 [0, 0] = [0, 2, 2, 2] := by decide
example : generateAIndptr 4 [1, 1, 3] = [0, 0, 2, 2, 3] := by decide
example : generateAIndptrUnbounded 4 [1, 1, 3] = some [0, 0, 2, 2, 3] := by decide


/-! ## argument handling of the constructor: which formulation, or which `ValueError` -/

/-- **The state-action-pair formulation is selected exactly for the documented shapes**:
    `dispatch` answers `sa L n sparse` iff `Q` has shape `(L, n)` (dense 2-D or sparse), `R` has
    shape `(L,)`, both index arrays are supplied with length `L`, and `sparse = issparse(Q)`. -/
theorem dispatch_sa_iff (x : RawArgs) (L n : Nat) (sp : Bool) :
    dispatch x = .ok (.sa L n sp) ↔
      (x.qShape = [L, n] ∧ x.rShape = [L] ∧ x.sLen = some L ∧ x.aLen = some L ∧ x.qSparse = sp) :=
  dispatch_sa_iff' x L n sp

/-- **The product formulation is selected exactly for a dense `Q` of shape `(n, m, n)` and `R` of
    shape `(n, m)`** — whatever `s_indices` / `a_indices` are (they are ignored). -/
theorem dispatch_prod_iff (x : RawArgs) (n m : Nat) :
    dispatch x = .ok (.prod n m) ↔
      (x.qSparse = false ∧ x.rShape = [n, m] ∧ x.qShape = [n, m, n]) :=
  dispatch_prod_iff' x n m

/-- **Everything else is rejected** (the result type has no third alternative: a `ShapeErr`,
    each of which is a `ValueError`): the constructor gets past the shape stage **iff** the
    arguments have one of the two documented shape patterns. -/
theorem dispatch_accepts_iff (x : RawArgs) :
    (∃ f, dispatch x = .ok f) ↔
      ((∃ L n, x.qShape = [L, n] ∧ x.rShape = [L] ∧ x.sLen = some L ∧ x.aLen = some L) ∨
       (x.qSparse = false ∧ ∃ n m, x.rShape = [n, m] ∧ x.qShape = [n, m, n])) := by
  constructor
  · rintro ⟨f, hf⟩
    cases f with
    | sa L n sp =>
      obtain ⟨h1, h2, h3, h4, _⟩ := (dispatch_sa_iff' x L n sp).mp hf
      exact Or.inl ⟨L, n, h1, h2, h3, h4⟩
    | prod n m =>
      obtain ⟨h1, h2, h3⟩ := (dispatch_prod_iff' x n m).mp hf
      exact Or.inr ⟨h1, n, m, h2, h3⟩
  · rintro (⟨L, n, h1, h2, h3, h4⟩ | ⟨h1, n, m, h2, h3⟩)
    · exact ⟨_, (dispatch_sa_iff' x L n x.qSparse).mpr ⟨h1, h2, h3, h4, rfl⟩⟩
    · exact ⟨_, (dispatch_prod_iff' x n m).mpr ⟨h1, h2, h3⟩⟩

/-- **which message** — the dimension tests come first, in the order of the code
    (a sparse `Q` is 2-dimensional): 'Q must be 2- or 3-dimensional', then 'R must be 1- or
    2-dimensional' -/
theorem dispatch_dim_errors_iff (x : RawArgs) (hsp : x.qSparse = true → x.qShape.length = 2) :
    (dispatch x = .error .qDim ↔ (x.qSparse = false ∧ x.qShape.length ≠ 2 ∧ x.qShape.length ≠ 3)) ∧
    (dispatch x = .error .rDim ↔ ((x.qSparse = true ∨ x.qShape.length = 2 ∨ x.qShape.length = 3) ∧
        x.rShape.length ≠ 1 ∧ x.rShape.length ≠ 2)) :=
  dispatch_error_iff' x hsp

/-- … and the index-array messages arise exactly for a well-shaped SA pair `R (L,)`, `Q (L, n)`:
    's_indices must be supplied' iff `s_indices` is missing; 'a_indices must be supplied' iff only
    `a_indices` is missing; the length message iff both are there and one length is not `L`. -/
theorem dispatch_index_errors_iff (x : RawArgs) :
    (dispatch x = .error .sMissing ↔ ∃ L n, x.qShape = [L, n] ∧ x.rShape = [L] ∧ x.sLen = none) ∧
    (dispatch x = .error .aMissing ↔ ∃ L n, x.qShape = [L, n] ∧ x.rShape = [L] ∧ x.sLen ≠ none ∧ x.aLen = none) ∧
    (dispatch x = .error .length ↔ ∃ L n sl al, x.qShape = [L, n] ∧ x.rShape = [L] ∧ x.sLen = some sl ∧
        x.aLen = some al ∧ ¬ (sl = L ∧ al = L)) :=
  dispatch_index_errors' x

example : dispatch ⟨[4], [4, 2], true, some 4, some 4⟩ = .ok (.sa 4 2 true) := by decide
example : dispatch ⟨[2, 3], [2, 3, 2], false, none, none⟩ = .ok (.prod 2 3) := by decide
example : dispatch ⟨[2, 3], [2, 3, 2], false, some 7, none⟩ = .ok (.prod 2 3) := by decide
example : dispatch ⟨[], [4, 2], false, some 4, some 4⟩ = .error .rDim := by decide
example : dispatch ⟨[4], [4], false, some 4, some 4⟩ = .error .qDim := by decide
example : dispatch ⟨[4, 1], [4, 2], true, some 4, some 4⟩ = .error .dimension := by decide
example : dispatch ⟨[2, 3], [2, 3, 3], false, none, none⟩ = .error .shape := by decide
example : dispatch ⟨[4], [4, 2], false, none, none⟩ = .error .sMissing := by decide
example : dispatch ⟨[4], [4, 2], false, some 4, none⟩ = .error .aMissing := by decide
example : dispatch ⟨[4], [4, 2], false, some 4, some 3⟩ = .error .length := by decide

/-! ## the constructor's feasibility check -/

/-- the error of a constructor call, if any -/
def errOf {β : Type} : Except CtorErr β → Option CtorErr
  | .error e => some e
  | .ok _ => none


section ctor
variable {K : Type} [LinearOrder K]

/-- **`_check_action_feasibility`, SA-pair form**, on any pointer array that is non-decreasing
    on `0..n`: it accepts iff every state owns a non-empty block containing a finite reward;
    otherwise the error is `reward s` (a state whose block is non-empty and all `-inf`) or
    `action s` (a state with an empty block) — both `ValueError`s. -/
theorem check_feasible_sa (n : Nat) (R : List (Ext K)) (aInd aIndptr : List Nat)
    (hmono : ∀ i, i < n → aIndptr.getD i 0 ≤ aIndptr.getD (i + 1) 0) :
    (checkFeasibleSa n R aInd aIndptr = .ok () ↔
      ∀ i, i < n → aIndptr.getD i 0 < aIndptr.getD (i + 1) 0 ∧
        ∃ j, aIndptr.getD i 0 ≤ j ∧ j < aIndptr.getD (i + 1) 0 ∧ R.getD j .ninf ≠ .ninf) ∧
    (∀ e, checkFeasibleSa n R aInd aIndptr = .error e →
      (∃ s, s < n ∧ e = .reward s ∧ aIndptr.getD s 0 < aIndptr.getD (s + 1) 0 ∧
        ∀ j, aIndptr.getD s 0 ≤ j → j < aIndptr.getD (s + 1) 0 → R.getD j .ninf = .ninf) ∨
      (∃ s, s < n ∧ e = .action s ∧ aIndptr.getD s 0 = aIndptr.getD (s + 1) 0)) :=
  checkFeasibleSa_spec n R aInd aIndptr hmono

/-- **The constructor rejects with `ValueError` every problem in which some state has no
    state-action pair** — the first, a middle or the last state, pairs sorted or in any order
    (arrays of consistent lengths, states `< n`). No hypothesis about *which* state is empty is
    needed any more: before the repairs the sorted path read past `s_indices` when the last
    states were empty (F4) and the unsorted path raised `IndexError` (F5). -/
theorem constructor_rejects_missing_state (n : Nat) (beta : K) [Zero K] [One K]
    (R : List (Ext K)) (Q : List (List K)) (S A : List Nat)
    (hR : R.length = Q.length) (hSl : S.length = Q.length) (hAl : A.length = Q.length)
    (hS : ∀ s ∈ S, s < n) (i : Nat) (hi : i < n) (hmiss : i ∉ S) :
    ∃ s, s < n ∧ (mkSa n beta R Q S A = .error (.reward s) ∨ mkSa n beta R Q S A = .error (.action s)) :=
  mkSa_rejects_missing_state n beta R Q S A hR hSl hAl hS i hi hmiss

end ctor


section ctor_iff
variable {K : Type} [LinearOrder K] [Zero K] [One K]

/-- **The constructor accepts exactly the admissible problems** (SA-pair form; arrays of
    consistent lengths, states `< n`, pairs **in any order**): it returns the arranged instance
    iff every state `i < n` has a pair `k` (`s_indices[k] = i`) with a finite reward, and
    `0 ≤ β ≤ 1`. -/
theorem constructor_accepts_iff (n : Nat) (beta : K) (R : List (Ext K)) (Q : List (List K)) (S A : List Nat)
    (hR : R.length = Q.length) (hSl : S.length = Q.length) (hAl : A.length = Q.length)
    (hS : ∀ s ∈ S, s < n) :
    mkSa n beta R Q S A = .ok (arrangeSa n beta R Q S A) ↔
      ((∀ i, i < n → ∃ k, k < S.length ∧ S[k]? = some i ∧ R.getD k .ninf ≠ .ninf) ∧
        0 ≤ beta ∧ beta ≤ 1) :=
  mkSa_ok_iff n beta R Q S A hR hSl hAl hS

/-- **constructor_rejects_iff.** Under the same hypotheses the constructor answers with the
    `ValueError` `reward s` or `action s` **iff** some state `i < n` has no available action or
    only `-inf` rewards (every pair `k` with `s_indices[k] = i` — possibly none — has reward
    `-inf`; the reads `R[k]` are guarded by `k < L`). On the code before the repairs this was
    false for an empty *trailing* state (out-of-bounds scan / `IndexError`). -/
theorem constructor_rejects_iff (n : Nat) (beta : K) (R : List (Ext K)) (Q : List (List K)) (S A : List Nat)
    (hR : R.length = Q.length) (hSl : S.length = Q.length) (hAl : A.length = Q.length)
    (hS : ∀ s ∈ S, s < n) :
    (∃ s, s < n ∧ (mkSa n beta R Q S A = .error (.reward s) ∨ mkSa n beta R Q S A = .error (.action s))) ↔
      ∃ i, i < n ∧ ∀ k, k < S.length → S[k]? = some i → R.getD k .ninf = .ninf :=
  mkSa_rejects_iff n beta R Q S A hR hSl hAl hS

/-- the pairs of state `i` sit, in both branches (kept / re-sorted), in the block
    `[#{s<i}, #{s<i+1})` of the stored arrays, with their own rewards -/
theorem arranged_block (n : Nat) (beta : K) (R : List (Ext K)) (Q : List (List K)) (S A : List Nat)
    (hA : A.length = S.length) (i : Nat) :
    (∃ j, S.countP (· < i) ≤ j ∧ j < S.countP (· < i + 1) ∧
        (arrangeSa n beta R Q S A).R.getD j .ninf ≠ .ninf) ↔
    (∃ k, k < S.length ∧ S[k]? = some i ∧ R.getD k .ninf ≠ .ninf) :=
  arrangeSa_block n beta R Q S A hA i

end ctor_iff

/-- **Product form**: the check accepts iff every row of `R` has an entry `> -inf`; otherwise
    it reports (`ValueError`) the first row that is entirely `-inf`. -/
theorem check_feasible_prod {K : Type} (R : List (List (Ext K))) :
    (checkFeasibleProd R = .ok () ↔ ∀ i, i < R.length → ∃ r ∈ R.getD i [], r ≠ .ninf) ∧
    (∀ e, checkFeasibleProd R = .error e →
      ∃ s, s < R.length ∧ e = .reward s ∧ (∀ r ∈ R.getD s [], r = .ninf) ∧
        ∀ i, i < s → ∃ r ∈ R.getD i [], r ≠ .ninf) :=
  checkFeasibleProd_spec R

example : errOf (mkProd (1/2 : Rat) [[.fin 1, .ninf], [.ninf, .ninf]] [[[1, 0], [1, 0]], [[1, 0], [1, 0]]])
    = some (.reward 1) := by decide +kernel


-- F4's and F5's inputs (hypotheses of the theorem hold: state 2 / state 2 has no pair), and an
-- instance with an only-`-inf` state
example : errOf (mkSa 3 (1/2 : Rat) [.fin 1, .fin 2] [[1, 0, 0], [0, 1, 0]] [0, 0] [0, 1])
    = some (.action 1) := by decide +kernel
example : errOf (mkSa 2 (1/2 : Rat) [.fin 1, .ninf, .ninf] [[1, 0], [0, 1], [0, 1]] [0, 1, 1] [0, 0, 1])
    = some (.reward 1) := by decide +kernel
example : errOf (mkSa 2 (1/2 : Rat) [.fin 1, .ninf, .fin 0] [[1, 0], [0, 1], [0, 1]] [0, 1, 1] [0, 0, 1])
    = none := by decide +kernel



/-! ## the re-sort of pairs given in arbitrary order -/

/-- **`resortPairs` is a permutation of the pair indices that lists the pairs in
    lexicographic `(s, a)` order** (the `sa_ptrs.data` of the COO → CSR conversion) -/
theorem resort_permutation (S A : List Nat) (h : A.length = S.length) :
    (resortPairs S A).Perm (List.range S.length) ∧
    List.Pairwise (fun k k' => S.getD k 0 < S.getD k' 0 ∨ (S.getD k 0 = S.getD k' 0 ∧ A.getD k 0 ≤ A.getD k' 0))
      (resortPairs S A) :=
  ⟨resortPairs_perm S A h, resortPairs_sorted S A h⟩

/-- **… and the constructor moves every pair together with its own state, action, reward and
    transition row** (no row mix-up): in the unsorted branch, position `j` of the stored arrays
    holds the data of the given pair `k = perm[j]` (`k < L`, so all reads are inside the arrays). -/
theorem resort_preserves {K : Type} (n : Nat) (beta : K) (R : List (Ext K)) (Q : List (List K)) (S A : List Nat)
    (hR : R.length = S.length) (hQ : Q.length = S.length) (hA : A.length = S.length)
    (hS : ∀ s ∈ S, s < n) (hs : ¬ hasSortedSa S A = true) (j : Nat) (hj : j < S.length) :
    ∃ k, (resortPairs S A)[j]? = some k ∧ k < S.length ∧
      (arrangeSa n beta R Q S A).sInd[j]? = S[k]? ∧
      (arrangeSa n beta R Q S A).aInd[j]? = A[k]? ∧
      (arrangeSa n beta R Q S A).R[j]? = R[k]? ∧
      (arrangeSa n beta R Q S A).Q[j]? = Q[k]? := by
  obtain ⟨k, hk, hkl, h1, h2, h3⟩ := arrangeSa_unsorted n beta R Q S A hR hQ hA hs j hj
  obtain ⟨k', hk', _, h4⟩ := arrangeSa_unsorted_sInd n beta R Q S A hA hS hs j hj
  rw [hk] at hk'
  cases hk'
  exact ⟨k, hk, hkl, h4, h3, h1, h2⟩

/-- in the sorted branch nothing moves -/
theorem sorted_keeps {K : Type} (n : Nat) (beta : K) (R : List (Ext K)) (Q : List (List K)) (S A : List Nat)
    (hs : hasSortedSa S A = true) :
    (arrangeSa n beta R Q S A).sInd = S ∧ (arrangeSa n beta R Q S A).aInd = A ∧
    (arrangeSa n beta R Q S A).R = R ∧ (arrangeSa n beta R Q S A).Q = Q ∧
    (arrangeSa n beta R Q S A).aIndptr = generateAIndptr n S := by
  unfold arrangeSa
  rw [if_pos hs]
  exact ⟨rfl, rfl, rfl, rfl, rfl⟩

/-! ## form conversion -/

section forms
variable {K : Type} [LinearOrder K] [Zero K] [One K]

/-- `np.where(R > -inf)`: the records `(s, a, r, q)` of `feasiblePairs` are exactly the entries
    of the product form with a finite reward, with their own reward and transition row … -/
theorem feasible_pairs_mem (R : List (List (Ext K))) (Q : List (List (List K))) (s a : Nat) (r : K) (q : List K) :
    (s, a, r, q) ∈ feasiblePairs R Q ↔
      s < R.length ∧ a < (R.getD s []).length ∧ (R.getD s []).getD a .ninf = .fin r ∧
        q = (Q.getD s []).getD a [] :=
  mem_feasiblePairs R Q s a r q

/-- … listed in strictly increasing lexicographic `(s, a)` order (so there are no duplicates
    and the SA constructor takes the "already sorted" path) -/
theorem feasible_pairs_sorted (R : List (List (Ext K))) (Q : List (List (List K))) :
    List.Pairwise lexLt4 (feasiblePairs R Q) :=
  feasiblePairs_pairwise R Q

/-- **to_sa_pair_form preserves rewards, transitions and feasibility**: the SA instance stores
    exactly the feasible pairs, in that order, with their rewards and rows; `n`, `β` unchanged. -/
theorem to_sa_pair_form_spec (d : ProdDDP K) (e : SaDDP K) (h : toSaPair d = .ok e) :
    e.n = d.n ∧ e.beta = d.beta ∧
    e.R = (feasiblePairs d.R d.Q).map (fun p => Ext.fin p.2.2.1) ∧
    e.Q = (feasiblePairs d.R d.Q).map (fun p => p.2.2.2) ∧
    e.sInd = (feasiblePairs d.R d.Q).map (fun p => p.1) ∧
    e.aInd = (feasiblePairs d.R d.Q).map (fun p => p.2.1) :=
  toSaPair_ok d e h

/-- **to_product_form**: `n`, `β` unchanged, `m = max a + 1`, and entry `(s, a)` holds the reward
    / row of a stored pair `(s, a)` if there is one, else `-inf` / a zero row. -/
theorem to_product_form_spec (e : SaDDP K) (d' : ProdDDP K) (h : toProduct e = .ok d') :
    d'.n = e.n ∧ d'.beta = e.beta ∧ (0 < e.n → d'.m = e.aInd.foldl max 0 + 1) ∧
    ∀ s a, s < e.n → a < e.aInd.foldl max 0 + 1 →
      (d'.R.getD s [])[a]? = some (match lookupPair e.sInd e.aInd s a with
        | some i => e.R.getD i Ext.ninf
        | none => Ext.ninf) ∧
      (d'.Q.getD s [])[a]? = some (match lookupPair e.sInd e.aInd s a with
        | some i => e.Q.getD i []
        | none => List.replicate e.n 0) :=
  toProduct_ok e d' h

/-- a successful lookup designates a stored pair `(s, a)`; a failed one means there is none -/
theorem lookupPair_spec (S A : List Nat) (s a : Nat) :
    (∀ i, lookupPair S A s a = some i → i < S.length ∧ S[i]? = some s ∧ A[i]? = some a) ∧
    (lookupPair S A s a = none → ∀ i, i < S.length → ¬ (S[i]? = some s ∧ A[i]? = some a)) := by
  refine ⟨fun i h => lookupPair_some S A s a i h, ?_⟩
  intro hnone i hi hp
  have := lookupPair_isSome S A s a i hi hp.1 hp.2
  rw [hnone] at this; cases this

/-- **form_roundtrip: product → SA-pair → product is the identity on feasible pairs.**
    For every state `s` and action `a`: if `(s, a)` is feasible in `d` with reward `r`, then `a`
    is still an action of the result and the result holds the same reward and the same
    transition row there; if `(s, a)` is not feasible in `d` (reward `-inf`, or `a` beyond the
    row) and `a` is an action of the result, the result holds `-inf` there. (The number of
    actions may shrink to `1 + ` the largest feasible action.) -/
theorem form_roundtrip (d : ProdDDP K) (e : SaDDP K) (d' : ProdDDP K)
    (h1 : toSaPair d = .ok e) (h2 : toProduct e = .ok d') (hn : d.n = d.R.length) :
    d'.n = d.n ∧ d'.beta = d.beta ∧
    ∀ s a, s < d.n →
      (∀ r, a < (d.R.getD s []).length → (d.R.getD s []).getD a .ninf = .fin r →
        a < d'.m ∧ (d'.R.getD s [])[a]? = some (.fin r) ∧
        (d'.Q.getD s [])[a]? = some ((d.Q.getD s []).getD a [])) ∧
      ((¬ ∃ r, a < (d.R.getD s []).length ∧ (d.R.getD s []).getD a .ninf = .fin r) → a < d'.m →
        (d'.R.getD s [])[a]? = some .ninf) :=
  roundtrip_prod d e d' h1 h2 hn

/-- **form_roundtrip, other direction: SA-pair → product → SA-pair keeps exactly the pairs with
    a finite reward, with their rewards and transition rows** (pairs of `e` pairwise distinct,
    states `< n`): a record `(s, a, r, q)` is stored in the result iff `e` stores the pair
    `(s, a)` with the finite reward `r` and the row `q` (reads guarded by `i < L`). -/
theorem form_roundtrip_sa (e : SaDDP K) (d' : ProdDDP K) (e' : SaDDP K)
    (h1 : toProduct e = .ok d') (h2 : toSaPair d' = .ok e')
    (hsn : ∀ s ∈ e.sInd, s < e.n)
    (hnodup : ∀ k k', k < e.sInd.length → k' < e.sInd.length → e.sInd[k]? = e.sInd[k']? →
      e.aInd[k]? = e.aInd[k']? → k = k')
    (s a : Nat) (r : K) (q : List K) :
    (∃ j : Nat, e'.sInd[j]? = some s ∧ e'.aInd[j]? = some a ∧ e'.R[j]? = some (Ext.fin r) ∧
      e'.Q[j]? = some q) ↔
    (∃ i, i < e.sInd.length ∧ e.sInd[i]? = some s ∧ e.aInd[i]? = some a ∧
      e.R.getD i .ninf = .fin r ∧ e.Q.getD i [] = q) :=
  roundtrip_sa e d' e' h1 h2 hsn hnodup s a r q

end forms

/-- non-vacuity: a product instance over `ℤ` whose last action is infeasible everywhere (the
    round trip drops that column) -/
def exProd2 : ProdDDP Int :=
  { n := 2, m := 3, beta := 1, R := [[.ninf, .fin 1, .ninf], [.fin 0, .fin 3, .ninf]],
    Q := [[[1, 0], [0, 1], [1, 0]], [[1, 0], [0, 1], [0, 1]]] }
example : (toSaPair exProd2).toOption.map (fun e => (e.sInd, e.aInd, e.aIndptr, e.R))
    = some ([0, 1, 1], [1, 0, 1], [0, 1, 3], [.fin 1, .fin 0, .fin 3]) := by decide
example : ((toSaPair exProd2).toOption.bind fun e => (toProduct e).toOption).map (fun d => (d.n, d.m, d.R))
    = some (2, 2, [[.ninf, .fin 1], [.fin 0, .fin 3]]) := by decide



/-! ## the operators in terms of the pairs AS GIVEN to the constructor (any order) -/

section given
variable {K : Type} [LinearOrder K] [Zero K] [One K] [Add K] [Mul K]

/-- **Bellman operator, user level (SA-pair form, pairs in any order).** Let the constructor
    accept arrays `R, Q, s_indices = S, a_indices = A` (consistent lengths, states `< n`) and
    return `d`. Then for every `v` and every state `i < n` there is a **given** pair `k`
    (`k < L`, `S[k] = i`) such that `Tv[i] = R[k] + β·Q[k]·v`, `σ[i] = A[k]`, and no given pair
    of state `i` has a larger value: `Tv[i]` is the maximum over the feasible actions of `i` and
    the greedy action attains it — whatever the order in which the pairs were supplied (no row
    mix-up by the re-sort). `givenVal β R Q v k = R[k] + β·Q[k]·v` (`-inf` if `R[k] = -inf`);
    all reads are guarded by `k < L`. -/
theorem accepted_bellman_given (n : Nat) (beta : K) (R : List (Ext K)) (Q : List (List K)) (S A : List Nat)
    (hR : R.length = Q.length) (hSl : S.length = Q.length) (hAl : A.length = Q.length)
    (hS : ∀ s ∈ S, s < n) (d : SaDDP K) (hd : mkSa n beta R Q S A = .ok d)
    (v : List K) (i : Nat) (hi : i < n) :
    ∃ k act, k < S.length ∧ S[k]? = some i ∧ A[k]? = some act ∧
      (d.bellman v).1[i]? = some (givenVal beta R Q v k) ∧ (d.bellman v).2[i]? = some act ∧
      ∀ k', k' < S.length → S[k']? = some i → ¬ givenVal beta R Q v k < givenVal beta R Q v k' :=
  accepted_bellman_given' n beta R Q S A hR hSl hAl hS d hd v i hi

/-- **RQ_sigma / controlled_mc / T_sigma, user level (pairs in any order, pairwise distinct).**
    For a policy `σ` of length `n` that picks, in every state, the action of some given pair,
    `RQ_sigma` returns rows, and row `i` of `R_σ` / `Q_σ` is the reward / transition row **of the
    given pair `(i, σ[i])`** — for every given index `k` with `S[k] = i`, `A[k] = σ[i]`. -/
theorem accepted_rqSigma_given (n : Nat) (beta : K) (R : List (Ext K)) (Q : List (List K)) (S A : List Nat)
    (hR : R.length = Q.length) (hSl : S.length = Q.length) (hAl : A.length = Q.length)
    (hS : ∀ s ∈ S, s < n)
    (hnodup : ∀ k k', k < S.length → k' < S.length → S[k]? = S[k']? → A[k]? = A[k']? → k = k')
    (d : SaDDP K) (hd : mkSa n beta R Q S A = .ok d)
    (sigma : List Nat) (hsl : sigma.length = n)
    (hsig : ∀ i, i < n → ∃ k, k < S.length ∧ S[k]? = some i ∧ A[k]? = some (sigma.getD i 0)) :
    ∃ (R' : List (Ext K)) (Q' : List (List K)), d.rqSigma sigma = some (R', Q') ∧
      R'.length = n ∧ Q'.length = n ∧
      ∀ i k, i < n → k < S.length → S[k]? = some i → A[k]? = some (sigma.getD i 0) →
        R'[i]? = some (R.getD k .ninf) ∧ Q'[i]? = some (Q.getD k []) :=
  accepted_rqSigma_given' n beta R Q S A hR hSl hAl hS hnodup d hd sigma hsl hsig

/-- … hence `T_σ v` has in state `i` the value `R[k] + β·Q[k]·v` of the given pair `(i, σ[i])` -/
theorem accepted_tSigma_given (n : Nat) (beta : K) (R : List (Ext K)) (Q : List (List K)) (S A : List Nat)
    (hR : R.length = Q.length) (hSl : S.length = Q.length) (hAl : A.length = Q.length)
    (hS : ∀ s ∈ S, s < n)
    (hnodup : ∀ k k', k < S.length → k' < S.length → S[k]? = S[k']? → A[k]? = A[k']? → k = k')
    (d : SaDDP K) (hd : mkSa n beta R Q S A = .ok d)
    (sigma : List Nat) (hsl : sigma.length = n)
    (hsig : ∀ i, i < n → ∃ k, k < S.length ∧ S[k]? = some i ∧ A[k]? = some (sigma.getD i 0))
    (v : List K) :
    ∃ x, d.tSigma sigma v = some x ∧
      ∀ i k, i < n → k < S.length → S[k]? = some i → A[k]? = some (sigma.getD i 0) →
        x[i]? = some (givenVal beta R Q v k) := by
  obtain ⟨R', Q', hrq, hl1, hl2, hrows⟩ :=
    accepted_rqSigma_given' n beta R Q S A hR hSl hAl hS hnodup d hd sigma hsl hsig
  have hbeta : d.beta = beta := by
    rw [mkSa_ok_eq n beta R Q S A d hd]; exact arrangeSa_beta n beta R Q S A
  refine ⟨tSigmaOf d.beta (R', Q') v, by unfold SaDDP.tSigma; rw [hrq]; rfl, ?_⟩
  intro i k hi hk hSk hAk
  obtain ⟨e1, e2⟩ := hrows i k hi hk hSk hAk
  rw [tSigmaOf_getElem? d.beta R' Q' v i (by omega) (by omega), hbeta]
  unfold givenVal
  rw [List.getD_eq_getElem?_getD, List.getD_eq_getElem?_getD, e1, e2]
  rfl

end given

/-- non-vacuity: three pairs over `ℤ` given as (0,0),(0,1),(1,0) — the hypotheses hold, the
    constructor accepts, and in state 0 the given pair 1 (value 3 + 1·7 = 10) is the maximiser -/
example : (mkSa 2 (1 : Int) [.fin 1, .fin 3, .fin 0] [[1, 0], [0, 1], [0, 1]] [0, 0, 1] [0, 1, 0]).toOption.map
    (fun d => d.bellman [5, 7]) = some ([.fin 10, .fin 7], [1, 0]) := by decide
example : givenVal (1 : Int) [.fin 1, .fin 3, .fin 0] [[1, 0], [0, 1], [0, 1]] [5, 7] 1 = .fin 10 := by decide

/-! ## histories on one object -/

section history
variable {K : Type} [Zero K] [Add K] [Mul K] [LT K] [DecidableLT K]

/-- **History theorem.** In any sequence of operations on one object — reassigning `beta`,
    editing `R[j]` / `Q[j,:]` in place, `bellman_operator`, `T_sigma` — the `k`-th answer is the
    answer of the `k`-th operation computed **from the current state** (the initial problem with
    the earlier setters applied, in order) **and its arguments only**: no earlier query, output
    buffer or cached quantity can influence it. -/
theorem history_theorem (ops : List (Op K)) (d : DDP K) (k : Nat) :
    (run d ops)[k]? = ops[k]?.map fun op => op.answer ((ops.take k).foldl Op.next d) := by
  induction ops generalizing d k with
  | nil => simp [run]
  | cons op rest ih =>
    cases k with
    | zero => simp [run]
    | succ k => simp [run, ih (op.next d) k]

/-- queries leave the object as it is … -/
theorem query_keeps_state (d : DDP K) (v : List K) (sigma : List Nat) :
    Op.next d (.bellman v) = d ∧ Op.next d (.tsigma sigma v) = d := ⟨rfl, rfl⟩

/-- … and answer with the operators all theorems of this file are about -/
theorem query_answers (d : DDP K) (v : List K) (sigma : List Nat) :
    Op.answer d (.bellman v) = .bell (d.bellman v).1 (d.bellman v).2 ∧
    Op.answer d (.tsigma sigma v) = .vec (d.tSigma sigma v) := ⟨rfl, rfl⟩

/-- hence two equal queries separated by queries only give equal answers, and a query after a
    setter is the query on the updated problem -/
theorem history_two_calls (d : DDP K) (v w : List K) (b : K) :
    run d [.bellman v, .bellman w, .bellman v, .setBeta b, .bellman v]
      = [.bell (d.bellman v).1 (d.bellman v).2, .bell (d.bellman w).1 (d.bellman w).2,
         .bell (d.bellman v).1 (d.bellman v).2, .none,
         .bell ((d.setBeta b).bellman v).1 ((d.setBeta b).bellman v).2] := rfl

end history

example : (run (DDP.sa exSa) [.bellman [5, 7], .setReward 1 (.fin 9), .bellman [5, 7]]).length = 3 := by decide

/-! ## backward induction -/

section backward
variable {K : Type} [Zero K] [Add K] [Mul K] [LinearOrder K]

/-- **Backward induction, every horizon `T` and terminal value (any `β`, `β = 1` included).**
    Whenever `backwardInduction d T vTerm` returns `(vs, σs)`: `vs` has `T+1` rows, `σs` has
    `T` rows, `vs[T]` is the terminal value (zeros if none was given), and for every
    `t < T` the pair `(vs[t], σs[t])` is exactly the Bellman operator's output at `vs[t+1]`
    — i.e. (with `bellman_spec_*`) `vs[t] = max_a r + β q·vs[t+1]` with `σs[t]` greedy. -/
theorem backward_recursion (d : DDP K) (T : Nat) (vTerm : Option (List K))
    (vs : List (List K)) (ss : List (List Nat))
    (h : backwardInduction d T vTerm = some (vs, ss)) :
    vs.length = T + 1 ∧ ss.length = T ∧
    vs[T]? = some (vTerm.getD (List.replicate d.n 0)) ∧
    ∀ t, t < T → ∃ w w' σ, vs[t + 1]? = some w ∧ vs[t]? = some w' ∧ ss[t]? = some σ ∧
      d.bellman w = (w'.map Ext.fin, σ) := by
  unfold backwardInduction at h
  cases hb : backwardLoop d T (vTerm.getD (List.replicate d.n 0)) with
  | none => simp [hb] at h
  | some p =>
    obtain ⟨vs', ss'⟩ := p
    simp only [hb, Option.map_some, Option.some.injEq, Prod.mk.injEq] at h
    obtain ⟨rfl, rfl⟩ := h
    obtain ⟨h1, h2, h3⟩ := backwardLoop_spec d T _ vs' ss' hb
    refine ⟨by simp [h1], h2, ?_, h3⟩
    rw [List.getElem?_append_right (by omega)]; simp [h1]

/-- the loop cannot fail as long as the Bellman operator only produces finite values -/
theorem backward_total (d : DDP K) (hfin : ∀ v, ∃ tv : List K, (d.bellman v).1 = tv.map Ext.fin)
    (T : Nat) (vTerm : Option (List K)) : (backwardInduction d T vTerm).isSome = true :=
  backwardInduction_isSome d hfin T vTerm

end backward


/-! ## accepted instances: finite values, backward induction never fails -/


/-- **one-step optimality in policy terms** (SA-pair form, feasible instance): for every policy
    `σ` that picks available actions, `T_σ v ≤ T v` in every state — together with
    `bellman_spec_sa` (the greedy action attains `T v`) this is `T v = max_σ T_σ v`. -/
theorem bellman_dominates_policy {K : Type} [Zero K] [Add K] [Mul K] [LinearOrder K]
    (d : SaDDP K) (hf : d.Feasible) (v : List K) (sigma : List Nat)
    (hs : sigma.length = d.n) (R' : List (Ext K)) (Q' : List (List K))
    (h : d.rqSigma sigma = some (R', Q')) (i : Nat) (hi : i < d.n) :
    ∃ x y, (d.bellman v).1[i]? = some x ∧ (tSigmaOf d.beta (R', Q') v)[i]? = some y ∧ ¬ x < y :=
  sa_bellman_dominates d hf v sigma hs R' Q' h i hi

section accepted
variable {K : Type} [LinearOrder K] [Zero K] [One K] [Add K] [Mul K]

/-- on a feasible SA instance (`SaDDP.Feasible`: every state owns a non-empty block inside the
    arrays containing a finite reward) the Bellman operator returns finite values only -/
theorem bellman_finite_sa (d : SaDDP K) (hf : d.Feasible) (v : List K) :
    ∃ tv : List K, (d.bellman v).1 = tv.map Ext.fin :=
  sa_bellman_finite d hf v

/-- **every SA instance the constructor accepts is feasible** (pairs in any order) … -/
theorem accepted_feasible (n : Nat) (beta : K) (R : List (Ext K)) (Q : List (List K)) (S A : List Nat)
    (hR : R.length = Q.length) (hSl : S.length = Q.length) (hAl : A.length = Q.length)
    (hS : ∀ s ∈ S, s < n) (d : SaDDP K) (h : mkSa n beta R Q S A = .ok d) :
    d.Feasible ∧ d.n = n :=
  accepted_sa_feasible n beta R Q S A hR hSl hAl hS d h

/-- … hence `backward_induction` on it returns values and policies for **every** horizon and
    terminal value (so the hypothesis of `backward_recursion` is never vacuous there) -/
theorem accepted_backward_total (n : Nat) (beta : K) (R : List (Ext K)) (Q : List (List K)) (S A : List Nat)
    (hR : R.length = Q.length) (hSl : S.length = Q.length) (hAl : A.length = Q.length)
    (hS : ∀ s ∈ S, s < n) (d : SaDDP K) (h : mkSa n beta R Q S A = .ok d)
    (T : Nat) (vTerm : Option (List K)) :
    (backwardInduction (DDP.sa d) T vTerm).isSome = true :=
  accepted_sa_backward_total n beta R Q S A hR hSl hAl hS d h T vTerm

end accepted



/-! ## product form: constructor, finite values, backward induction never fails -/

section accepted_prod
variable {K : Type} [LinearOrder K] [Zero K] [One K]

/-- **product-form constructor**: on arrays of consistent shape it accepts iff every row of `R`
    has an entry `> -inf` and `0 ≤ β ≤ 1`; it answers `reward s` (`ValueError`) iff some row
    (state) is entirely `-inf`. -/
theorem constructor_prod_iff (beta : K) (R : List (List (Ext K))) (Q : List (List (List K)))
    (hshape : (R.all (·.length == (R.headD []).length) ∧ Q.length = R.length ∧
      Q.all (fun qs => qs.length == (R.headD []).length && qs.all (·.length == R.length))) ) :
    (mkProd beta R Q = .ok { n := R.length, m := (R.headD []).length, beta := beta, R := R, Q := Q } ↔
      (∀ i, i < R.length → ∃ r ∈ R.getD i [], r ≠ .ninf) ∧ 0 ≤ beta ∧ beta ≤ 1) ∧
    ((∃ s, mkProd beta R Q = .error (.reward s)) ↔
      ∃ i, i < R.length ∧ ∀ r ∈ R.getD i [], r = .ninf) :=
  mkProd_spec beta R Q hshape

variable [Add K] [Mul K]

/-- every accepted product-form instance is feasible (`ProdDDP.Feasible`), the Bellman operator
    is finite on it, and backward induction returns for every horizon and terminal value -/
theorem accepted_prod_total (beta : K) (R : List (List (Ext K))) (Q : List (List (List K)))
    (d : ProdDDP K) (h : mkProd beta R Q = .ok d) :
    d.Feasible ∧ (∀ v, ∃ tv : List K, (d.bellman v).1 = tv.map Ext.fin) ∧
    ∀ T vTerm, (backwardInduction (DDP.prod d) T vTerm).isSome = true := by
  have hf := accepted_prod_feasible beta R Q d h
  exact ⟨hf, fun v => prod_bellman_finite d hf v, fun T vTerm => prod_backward_total d hf T vTerm⟩

end accepted_prod

/-! ## backward induction is an upper bound for every Markov policy sequence -/

section optimum
variable {K : Type} [CommRing K] [LinearOrder K] [IsOrderedRing K]

/-- **backward_upper_bound, every horizon.** Feasible SA instance, `β ≥ 0`, non-negative
    transition rows. Let `σs = [σ_{T-1}, …, σ_0]` be any sequence of `T` policies whose value
    `T_{σ_0}(… T_{σ_{T-1}} v_T)` is defined (`seqValue`: available actions, finite rewards). Then
    it is `≤ vs[0]` componentwise, where `(vs, _) = backward_induction(T, v_T)`. Proved by
    induction on the horizon from monotonicity of `T_σ` and `T_σ v ≤ T v`. -/
theorem backward_upper_bound (d : SaDDP K) (hf : d.Feasible) (hβ : 0 ≤ d.beta)
    (hQ : ∀ row ∈ d.Q, ∀ x ∈ row, 0 ≤ x) (T : Nat) (vT : List K)
    (vs : List (List K)) (ss : List (List Nat))
    (h : backwardInduction (DDP.sa d) T (some vT) = some (vs, ss))
    (σs : List (List Nat)) (hT : σs.length = T) (hσ : ∀ σ ∈ σs, σ.length = d.n)
    (x : List K) (hx : seqValue d σs vT = some x) :
    ∃ w, vs[0]? = some w ∧ List.Forall₂ (· ≤ ·) x w := by
  unfold backwardInduction at h
  simp only [Option.getD_some] at h
  cases hb : backwardLoop (DDP.sa d) T vT with
  | none => simp [hb] at h
  | some p =>
    obtain ⟨vs', ss'⟩ := p
    simp only [hb, Option.map_some, Option.some.injEq, Prod.mk.injEq] at h
    obtain ⟨rfl, rfl⟩ := h
    subst hT
    have hrefl : List.Forall₂ (· ≤ ·) vT vT :=
      forall₂_of_getElem? _ _ _ rfl (fun i a c ha hc => by rw [ha] at hc; cases hc; exact le_refl _)
    exact seqValue_le_backward d hf hβ hQ σs hσ vT vT x vs' ss' hrefl hx hb


/-- **backward_is_optimum, every horizon and terminal value.** If moreover the pairs of each
    state carry distinct actions (`SaDDP.DistinctActions`; true for every instance built from
    distinct pairs), then `vs[0]` *is* the maximum over all Markov policy sequences of the
    `T`-period value: it is the value of the reported sequence `σs` (read from the last period
    backwards) and an upper bound for the value of every sequence. -/
theorem backward_is_optimum (d : SaDDP K) (hf : d.Feasible) (hdist : d.DistinctActions)
    (hβ : 0 ≤ d.beta) (hQ : ∀ row ∈ d.Q, ∀ x ∈ row, 0 ≤ x) (T : Nat) (vT : List K)
    (vs : List (List K)) (ss : List (List Nat))
    (h : backwardInduction (DDP.sa d) T (some vT) = some (vs, ss)) :
    ∃ w, vs[0]? = some w ∧ seqValue d ss.reverse vT = some w ∧
      ∀ (σs : List (List Nat)) (x : List K), σs.length = T → (∀ σ ∈ σs, σ.length = d.n) →
        seqValue d σs vT = some x → List.Forall₂ (· ≤ ·) x w := by
  have h' := h
  unfold backwardInduction at h
  simp only [Option.getD_some] at h
  cases hb : backwardLoop (DDP.sa d) T vT with
  | none => simp [hb] at h
  | some p =>
    obtain ⟨vs', ss'⟩ := p
    simp only [hb, Option.map_some, Option.some.injEq, Prod.mk.injEq] at h
    obtain ⟨rfl, rfl⟩ := h
    obtain ⟨w, hw, hseq⟩ := backward_attained d hf hdist T vT vs' ss' hb
    refine ⟨w, hw, hseq, ?_⟩
    intro σs x hT hσ hx
    obtain ⟨w', hw', hle⟩ := backward_upper_bound d hf hβ hQ T vT _ _ h' σs hT hσ x hx
    rw [hw] at hw'
    cases hw'
    exact hle


/-- **backward induction is optimal on every accepted instance with distinct pairs**
    (SA-pair form, pairs in any order, non-negative transition rows): for every horizon `T` and
    terminal value, `vs[0]` is the value of the reported policy sequence and dominates the
    value of every sequence of `T` policies. All hypotheses are about the *given* arrays. -/
theorem accepted_backward_is_optimum (n : Nat) (beta : K) (R : List (Ext K)) (Q : List (List K)) (S A : List Nat)
    (hR : R.length = Q.length) (hSl : S.length = Q.length) (hAl : A.length = Q.length)
    (hS : ∀ s ∈ S, s < n)
    (hnodup : ∀ k k', k < S.length → k' < S.length → S[k]? = S[k']? → A[k]? = A[k']? → k = k')
    (hQ : ∀ row ∈ Q, ∀ x ∈ row, 0 ≤ x)
    (d : SaDDP K) (hd : mkSa n beta R Q S A = .ok d) (T : Nat) (vT : List K) :
    ∃ vs ss w, backwardInduction (DDP.sa d) T (some vT) = some (vs, ss) ∧
      vs[0]? = some w ∧ seqValue d ss.reverse vT = some w ∧
      ∀ (σs : List (List Nat)) (x : List K), σs.length = T → (∀ σ ∈ σs, σ.length = d.n) →
        seqValue d σs vT = some x → List.Forall₂ (· ≤ ·) x w := by
  have hf := (accepted_sa_feasible n beta R Q S A hR hSl hAl hS d hd).1
  have hde := mkSa_ok_eq n beta R Q S A d hd
  have hβ : 0 ≤ d.beta := by
    have h1 := hd
    rw [hde] at h1
    have := ((mkSa_ok_iff n beta R Q S A hR hSl hAl hS).mp h1).2.1
    rw [hde]
    unfold arrangeSa
    by_cases hs : hasSortedSa S A = true
    · rw [if_pos hs]; exact this
    · rw [if_neg hs]; exact this
  have hdist : d.DistinctActions := by
    rw [hde]; exact arrangeSa_distinct n beta R Q S A (by omega) (by omega) (by omega) hS hnodup
  have hQd : ∀ row ∈ d.Q, ∀ x ∈ row, 0 ≤ x := by
    rw [hde]; exact arrangeSa_Q_nonneg n beta R Q S A hQ
  have htot := accepted_sa_backward_total n beta R Q S A hR hSl hAl hS d hd T (some vT)
  cases hb : backwardInduction (DDP.sa d) T (some vT) with
  | none => rw [hb] at htot; cases htot
  | some p =>
    obtain ⟨vs, ss⟩ := p
    obtain ⟨w, h1, h2, h3⟩ := backward_is_optimum d hf hdist hβ hQd T vT vs ss hb
    exact ⟨vs, ss, w, rfl, h1, h2, h3⟩



/-- **the greedy policy attains the Bellman operator, in policy terms** (`compute_greedy` then
    `T_sigma`): on a feasible SA instance whose states carry distinct actions, one period under
    `σ_v = (bellman v).2` from `v` gives exactly `T v` — `T_{σ_v} v = T v`. -/
theorem greedy_policy_attains_sa (d : SaDDP K) (hf : d.Feasible) (hdist : d.DistinctActions)
    (v tv : List K) (hT : (d.bellman v).1 = tv.map Ext.fin) :
    stepPolicy d (d.bellman v).2 v = some tv :=
  greedy_step d hf hdist v tv hT

/-- the same in product form (no distinctness needed) -/
theorem greedy_policy_attains_prod (d : ProdDDP K) (hf : d.Feasible) (hn : d.n = d.R.length)
    (v tv : List K) (hT : (d.bellman v).1 = tv.map Ext.fin) :
    stepPolicyP d (d.bellman v).2 v = some tv :=
  greedy_stepP d hf hn v tv hT

/-- one period in product form: any policy step from `u ≤ v` is dominated by the Bellman step
    from `v` (monotonicity of `T_σ` and `T_σ ≤ T`), `β ≥ 0`, `Q ≥ 0` -/
theorem policy_step_le_bellman_prod (d : ProdDDP K) (hf : d.Feasible) (hn : d.n = d.R.length)
    (hβ : 0 ≤ d.beta) (hQ : d.QNonneg) (sigma : List Nat) (u v u' tv : List K)
    (huv : List.Forall₂ (· ≤ ·) u v) (hstep : stepPolicyP d sigma u = some u')
    (hT : (d.bellman v).1 = tv.map Ext.fin) : List.Forall₂ (· ≤ ·) u' tv :=
  step_le_bellmanP d hf hn hβ hQ sigma u v u' tv huv hstep hT

/-- **backward_is_optimum, product form, every horizon and terminal value.** Feasible product
    instance (`n = #rows`), `β ≥ 0`, non-negative transition probabilities. `vs[0]` of
    `backward_induction(T, v_T)` is the value of the reported policy sequence (read from the last
    period backwards) and dominates componentwise the value `T_{σ_0}(… T_{σ_{T-1}} v_T)` of every
    sequence of `T` policies for which it is defined (`seqValueP`: actions `< m`, finite rewards).
    No distinctness hypothesis is needed here: `RQ_sigma` indexes `R[s, σ[s]]` directly. -/
theorem backward_is_optimum_prod (d : ProdDDP K) (hf : d.Feasible) (hn : d.n = d.R.length)
    (hβ : 0 ≤ d.beta) (hQ : d.QNonneg) (T : Nat) (vT : List K)
    (vs : List (List K)) (ss : List (List Nat))
    (h : backwardInduction (DDP.prod d) T (some vT) = some (vs, ss)) :
    ∃ w, vs[0]? = some w ∧ seqValueP d ss.reverse vT = some w ∧
      ∀ (σs : List (List Nat)) (x : List K), σs.length = T →
        seqValueP d σs vT = some x → List.Forall₂ (· ≤ ·) x w := by
  unfold backwardInduction at h
  simp only [Option.getD_some] at h
  cases hb : backwardLoop (DDP.prod d) T vT with
  | none => simp [hb] at h
  | some p =>
    obtain ⟨vs', ss'⟩ := p
    simp only [hb, Option.map_some, Option.some.injEq, Prod.mk.injEq] at h
    obtain ⟨rfl, rfl⟩ := h
    obtain ⟨w, hw, hseq⟩ := backward_attainedP d hf hn T vT vs' ss' hb
    refine ⟨w, hw, hseq, ?_⟩
    intro σs x hT hx
    subst hT
    have hrefl : List.Forall₂ (· ≤ ·) vT vT :=
      forall₂_of_getElem? _ _ _ rfl (fun i a c ha hc => by rw [ha] at hc; cases hc; exact le_refl _)
    obtain ⟨w', hw', hle⟩ := seqValueP_le_backward d hf hn hβ hQ σs vT vT x vs' ss' hrefl hx hb
    rw [hw] at hw'
    cases hw'
    exact hle

/-- **… on every product-form instance the constructor accepts** (non-negative `Q`): all
    hypotheses are about the given arrays; backward induction returns, and `vs[0]` is optimal. -/
theorem accepted_backward_is_optimum_prod (beta : K) (R : List (List (Ext K))) (Q : List (List (List K)))
    (hQ : ∀ qs ∈ Q, ∀ row ∈ qs, ∀ x ∈ row, (0 : K) ≤ x)
    (d : ProdDDP K) (hd : mkProd beta R Q = .ok d) (T : Nat) (vT : List K) :
    ∃ vs ss w, backwardInduction (DDP.prod d) T (some vT) = some (vs, ss) ∧
      vs[0]? = some w ∧ seqValueP d ss.reverse vT = some w ∧
      ∀ (σs : List (List Nat)) (x : List K), σs.length = T →
        seqValueP d σs vT = some x → List.Forall₂ (· ≤ ·) x w := by
  have hf := accepted_prod_feasible beta R Q d hd
  have hde := mkProd_ok_eq beta R Q d hd
  have hb := (mkProd_ok_beta beta R Q d hd).1
  have hn : d.n = d.R.length := by rw [hde]
  have hβ : 0 ≤ d.beta := by rw [hde]; exact hb
  have hQd : d.QNonneg := by rw [hde]; exact hQ
  have htot := prod_backward_total d hf T (some vT)
  cases hbi : backwardInduction (DDP.prod d) T (some vT) with
  | none => rw [hbi] at htot; cases htot
  | some p =>
    obtain ⟨vs, ss⟩ := p
    obtain ⟨w, h1, h2, h3⟩ := backward_is_optimum_prod d hf hn hβ hQd T vT vs ss hbi
    exact ⟨vs, ss, w, rfl, h1, h2, h3⟩

end optimum

/-- non-vacuity: `exSa` (β = 1, 0/1 transition rows) is feasible; the policy sequence
    `[[1,0],[0,0]]` has value `[2,0]`, and backward induction gives `vs[0] = [2,0]` -/
example : exSa.Feasible :=
  ⟨by decide, by decide, by
    intro i hi
    have : i = 0 ∨ i = 1 := by have : i < 2 := hi; omega
    rcases this with rfl | rfl
    · exact ⟨by decide, by decide, 0, by decide, by decide, by decide⟩
    · exact ⟨by decide, by decide, 2, by decide, by decide, by decide⟩⟩
example : seqValue exSa [[1, 0], [0, 0]] [0, 0] = some [2, 0] := by decide
example : exSa.DistinctActions := by
  intro i hi j j' h1 h2 h3 h4 h
  have hi' : i = 0 ∨ i = 1 := by have : i < 2 := hi; omega
  rcases hi' with rfl | rfl
  · have a1 : exSa.aIndptr.getD 0 0 = 0 := by decide
    have a2 : exSa.aIndptr.getD (0 + 1) 0 = 2 := by decide
    rw [a1] at h1 h3; rw [a2] at h2 h4
    have hj : j = 0 ∨ j = 1 := by omega
    have hj' : j' = 0 ∨ j' = 1 := by omega
    rcases hj with rfl | rfl <;> rcases hj' with rfl | rfl <;> first | rfl | (exact absurd h (by decide))
  · have a1 : exSa.aIndptr.getD 1 0 = 2 := by decide
    have a2 : exSa.aIndptr.getD (1 + 1) 0 = 3 := by decide
    rw [a1] at h1 h3; rw [a2] at h2 h4
    omega


/-- non-vacuity (product form, `ℤ`, β = 1): the constructor accepts `exProd3`, the policy sequence
    `[[1,0],[0,1]]` has a defined value, and backward induction dominates it -/
def exProd3R : List (List (Ext Int)) := [[.fin 1, .fin 2], [.fin 0, .ninf]]
def exProd3Q : List (List (List Int)) := [[[1, 0], [0, 1]], [[0, 1], [1, 0]]]
example : (mkProd (1 : Int) exProd3R exProd3Q).toOption.map (fun d => (d.n, d.m)) = some (2, 2) := by decide
example : ∀ qs ∈ exProd3Q, ∀ row ∈ qs, ∀ x ∈ row, (0 : Int) ≤ x := by decide
example : (mkProd (1 : Int) exProd3R exProd3Q).toOption.bind (fun d => seqValueP d [[1, 0], [0, 0]] [0, 0])
    = some [3, 0] := by decide
example : (mkProd (1 : Int) exProd3R exProd3Q).toOption.bind
    (fun d => (backwardInduction (DDP.prod d) 2 (some [0, 0])).map (fun r => (r.1[0]?, r.2)))
    = some (some [3, 0], [[0, 0], [1, 0]]) := by decide

example : stepPolicy exSa (exSa.bellman [5, 7]).2 [5, 7] = some [6, 7] := by decide
example : (mkProd (1 : Int) exProd3R exProd3Q).toOption.bind
    (fun d => stepPolicyP d (d.bellman [0, 0]).2 [0, 0]) = some [2, 0] := by decide

example : backwardInduction (DDP.sa exSa) 2 none
    = some ([[2, 0], [1, 0], [0, 0]], [[0, 0], [0, 0]]) := by decide
example : backwardInduction (DDP.prod exProd) 2 (some [1, 2])
    = some ([[15, 17], [5, 7], [1, 2]], [[1, 1], [1, 1]]) := by decide

end QE.C09
