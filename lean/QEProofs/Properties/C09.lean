/-
  Property C09 — theorems about QEModel.C09 (stub; to be filled in).
-/
import QEModel.C09
namespace QE.C09

end QE.C09
