/-
  Property C07 — LQ control: theorems about the definitions of `QEModel/C07.lean` that the
  driver `qedriver_c07` executes, read as Mathlib matrices through `toMat`
  (`toMat n m A i j = A.get i j`). `scipy.linalg.solve` enters through the hypothesis
  `SolSpec` (a returned solution solves an invertible system; LAPACK is not modelled).
  `qf M x = x'Mx`, `bf u N x = u'Nx`, `stage R Q N x u = x'Rx + u'Qu + 2u'Nx`.

  What is proved (all sizes `n`, `k`, `j`; every horizon `T`):
  * `lq_update_completes_square`, `lq_update_one_step_minimum`: one call of `update_values` is the exact
    one-period minimisation (matrix completion of the square with cross term and discount).
  * `lq_d_recursion`, `lq_update_bellman`: the constant `d` accounts exactly for the expected discounted
    noise cost under any finitely supported shock law with mean 0 and second moment `I`.
  * `finite_horizon_exact`: by induction on `T`, the backward recursion run by `compute_sequence` returns the
    minimum over all control sequences of the T-period programme (and `P` stays symmetric PSD).
  * `policy_order`, `policy_order_inf`: list bookkeeping of `compute_sequence` — the policy applied at time `t`
    is the one of backward step `T - t`; law of motion of the produced paths (any scalar type, also `Float`).
  * `stationary_is_fixed_point`: a solution of the Riccati equation of the sqrt(beta)-scaled system makes
    `(P, F, d)` a fixed point of `update_values`.
  * `rblq_b_operator_is_lq_update`: `RBLQ.b_operator` is `update_values` of the problem without cross term.
  What is not proved (decided by the spec run of harness/c07.py only): infinite-horizon optimality among all
  linear rules (needs stability and limits), convergence of the Riccati / nnash / Markov-jump iterations,
  RBLQ -> LQ as theta grows, the nnash best-response and identical-regime statements, optimality over
  state-feedback (closed-loop) policies under noise beyond the one-step Bellman identity.
-/
import QEProofs.Lemmas.C07Bridge
import QEProofs.Lemmas.C07Seq
import QEProofs.Lemmas.C07Horizon
import QEProofs.Lemmas.C07Noise
import QEProofs.Lemmas.C07Rblq

namespace QE.C07
open QE QE.MatAlg QE.C06 Finset Matrix

section update
variable {K : Type} [CommRing K] {n k j : ℕ}

/-- **lq_update_completes_square** (all sizes `n`, `k`, with cross term and discounting).
    If `update_values` (lines 184-198) succeeds from the symmetric value matrix `P`, then for every
    state `x` and every control `u`
    `x'Rx + u'Qu + 2u'Nx + β (Ax+Bu)'P(Ax+Bu) = x'P_new x + (u+Fx)' S1 (u+Fx)`,
    `S1 = Q + βB'PB` (line 188), `F` and `P_new` the new policy and value matrix. -/
theorem lq_update_completes_square (sol : M K → M K → Option (M K)) (hsol : SolSpec sol k)
    (lq : LQ K) (h : LQDim lq n k j) (v v' : Val K) (F : M K) (hP : Dim v.P n n)
    (hPs : (toMat n n v.P)ᵀ = toMat n n v.P) (hQs : (toMat k k lq.Q)ᵀ = toMat k k lq.Q)
    (hu : lqUpdate sol lq v = some (F, v')) (x : Fin n → K) (u : Fin k → K) :
    stage (toMat n n lq.R) (toMat k k lq.Q) (toMat k n lq.N) x u
        + lq.beta * qf (toMat n n v.P) (toMat n n lq.A *ᵥ x + toMat n k lq.B *ᵥ u)
      = qf (toMat n n v'.P) x + qf (toMat k k (lqS1 lq v.P)) (u + toMat k n F *ᵥ x) := by
  obtain ⟨_, _, hF, hP', _, _⟩ := lqUpdate_toMat sol hsol h hP hu
  rw [hP', lqS3_toMat h hP]
  exact complete_square_qf _ _ _ _ _ _ _ _ _ _ x u hPs hQs (lqS1_toMat h hP) (lqS2_toMat h hP) hF

/-- **lq_d_recursion** (line 196). For every finitely supported shock distribution (`p_s`, `w_s`) with
    `Σ p_s = 1`, mean zero and second moment `Σ p_s w_s w_s' = I` (the assumption `E ww' = I` of the class
    docstring, entered as a hypothesis on the moments — no probability theory), the expected discounted
    continuation value from the post-decision state `y = Ax + Bu` is
    `β Σ_s p_s ((y + Cw_s)'P(y + Cw_s) + d) = β y'Py + d_new` with `d_new = β (d + tr(P C C'))` the constant
    computed by `update_values`. -/
theorem lq_d_recursion {ι : Type} [Fintype ι] (sol : M K → M K → Option (M K)) (hsol : SolSpec sol k)
    (lq : LQ K) (h : LQDim lq n k j) (v v' : Val K) (F : M K) (hP : Dim v.P n n)
    (hu : lqUpdate sol lq v = some (F, v'))
    (p : ι → K) (w : ι → Fin j → K)
    (hp : ∑ s, p s = 1) (hmean : ∑ s, p s • colM (w s) = 0)
    (hcov : ∑ s, p s • (colM (w s) * (colM (w s))ᵀ) = 1) (y : Fin n → K) :
    lq.beta * ∑ s, p s * (qf (toMat n n v.P) (y + toMat n j lq.C *ᵥ w s) + v.d)
      = lq.beta * qf (toMat n n v.P) y + v'.d := by
  obtain ⟨_, _, _, _, hd, _⟩ := lqUpdate_toMat sol hsol h hP hu
  have := expect_qf p w (toMat n n v.P) (toMat n j lq.C) y hp hmean hcov
  simp only [mul_add, Finset.sum_add_distrib]
  rw [← mul_add, this, ← Finset.sum_mul, hp, hd]
  ring

/-- **lq_update_bellman**: the stochastic one-period identity. With the shock distribution of
    `lq_d_recursion`, for every state `x` and control `u`
    `x'Rx + u'Qu + 2u'Nx + β E[V(Ax + Bu + Cw)] = V_new(x) + (u+Fx)'S1(u+Fx)`,
    where `V(z) = z'Pz + d`, `V_new(x) = x'P_new x + d_new`. -/
theorem lq_update_bellman {ι : Type} [Fintype ι] (sol : M K → M K → Option (M K)) (hsol : SolSpec sol k)
    (lq : LQ K) (h : LQDim lq n k j) (v v' : Val K) (F : M K) (hP : Dim v.P n n)
    (hPs : (toMat n n v.P)ᵀ = toMat n n v.P) (hQs : (toMat k k lq.Q)ᵀ = toMat k k lq.Q)
    (hu : lqUpdate sol lq v = some (F, v'))
    (p : ι → K) (w : ι → Fin j → K)
    (hp : ∑ s, p s = 1) (hmean : ∑ s, p s • colM (w s) = 0)
    (hcov : ∑ s, p s • (colM (w s) * (colM (w s))ᵀ) = 1) (x : Fin n → K) (u : Fin k → K) :
    stage (toMat n n lq.R) (toMat k k lq.Q) (toMat k n lq.N) x u
        + lq.beta * ∑ s, p s * (qf (toMat n n v.P)
            (toMat n n lq.A *ᵥ x + toMat n k lq.B *ᵥ u + toMat n j lq.C *ᵥ w s) + v.d)
      = qf (toMat n n v'.P) x + v'.d + qf (toMat k k (lqS1 lq v.P)) (u + toMat k n F *ᵥ x) := by
  rw [lq_d_recursion sol hsol lq h v v' F hP hu p w hp hmean hcov, ← add_assoc,
    lq_update_completes_square sol hsol lq h v v' F hP hPs hQs hu x u]
  ring

/-- non-vacuity of the moment hypotheses: the two-point shock `w = ±1` with weights `1/2`. -/
example : (∑ s : Fin 2, (fun _ => (1 / 2 : ℚ)) s = 1) ∧
    (∑ s : Fin 2, (1 / 2 : ℚ) • colM (fun _ : Fin 1 => if s = 0 then (1 : ℚ) else -1) = 0) ∧
    (∑ s : Fin 2, (1 / 2 : ℚ) • (colM (fun _ : Fin 1 => if s = 0 then (1 : ℚ) else -1)
        * (colM (fun _ : Fin 1 => if s = 0 then (1 : ℚ) else -1))ᵀ) = 1) := by
  refine ⟨by norm_num [Fin.sum_univ_two], ?_, ?_⟩
  · ext i a; simp [Fin.sum_univ_two, colM]
  · ext i a
    have := Fin.eq_zero i; have := Fin.eq_zero a; subst_vars
    simp [Fin.sum_univ_two, colM, Matrix.mul_apply]
    norm_num

end update

section ordered
variable {K : Type} [Field K] [LinearOrder K] [IsStrictOrderedRing K] {n k j : ℕ}

/-- **lq_update_one_step_minimum.** If moreover `S1 = Q + βB'PB` is positive semidefinite, the new
    value `x'P_new x` is the exact minimum over `u` of the one-period problem
    `x'Rx + u'Qu + 2u'Nx + β (Ax+Bu)'P(Ax+Bu)`, attained at `u = -Fx`. -/
theorem lq_update_one_step_minimum (sol : M K → M K → Option (M K)) (hsol : SolSpec sol k)
    (lq : LQ K) (h : LQDim lq n k j) (v v' : Val K) (F : M K) (hP : Dim v.P n n)
    (hPs : (toMat n n v.P)ᵀ = toMat n n v.P) (hQs : (toMat k k lq.Q)ᵀ = toMat k k lq.Q)
    (hpsd : ∀ w : Fin k → K, 0 ≤ qf (toMat k k (lqS1 lq v.P)) w)
    (hu : lqUpdate sol lq v = some (F, v')) (x : Fin n → K) :
    (∀ u : Fin k → K, qf (toMat n n v'.P) x ≤
        stage (toMat n n lq.R) (toMat k k lq.Q) (toMat k n lq.N) x u
          + lq.beta * qf (toMat n n v.P) (toMat n n lq.A *ᵥ x + toMat n k lq.B *ᵥ u)) ∧
    qf (toMat n n v'.P) x =
        stage (toMat n n lq.R) (toMat k k lq.Q) (toMat k n lq.N) x (-(toMat k n F *ᵥ x))
          + lq.beta * qf (toMat n n v.P)
              (toMat n n lq.A *ᵥ x + toMat n k lq.B *ᵥ (-(toMat k n F *ᵥ x))) := by
  constructor
  · intro u
    rw [lq_update_completes_square sol hsol lq h v v' F hP hPs hQs hu x u]
    exact le_add_of_nonneg_right (hpsd _)
  · rw [lq_update_completes_square sol hsol lq h v v' F hP hPs hQs hu x (-(toMat k n F *ᵥ x))]
    have : (-(toMat k n F *ᵥ x) + toMat k n F *ᵥ x) = 0 := by simp
    rw [this, qf_zero, add_zero]

/-- non-vacuity: the scalar problem `Q=R=A=B=1, N=1/2, β=1/2` from `P=1`: the update runs with the
    exact 1×1 solver and gives `F = 2/3`, `P_new = 5/6`. -/
example : (lqUpdate sol1 (⟨M.ofRows [[1]], M.ofRows [[1]], M.ofRows [[1]], M.ofRows [[1]], M.ofRows [[1]],
    M.ofRows [[1 / 2]], 1 / 2⟩ : LQ ℚ) ⟨M.ofRows [[1]], 0⟩).map (fun r => (r.1.get 0 0, r.2.P.get 0 0, r.2.d))
    = some (2 / 3, 5 / 6, 1 / 2) := by decide +kernel

end ordered

section horizon
variable {K : Type} [Field K] [LinearOrder K] [IsStrictOrderedRing K] {n k j : ℕ}

/-- **finite_horizon_exact** (all sizes `n`, `k`, every horizon `T`, by induction on `T`).
    Let the one-period loss be non-negative (`x'Rx + u'Qu + 2u'Nx ≥ 0` for all `x`, `u`), `Q`, `R`, `Rf`
    symmetric, `Rf` positive semidefinite, `β ≥ 0`. If the `T` calls of `update_values` made by
    `compute_sequence` (`lqBackward`, lines 320-324) succeed from `(Rf, 0)` and end with the value matrix
    `P`, then for **every** initial state `x` and **every** control sequence `u_0 … u_{T-1}`
    `x'Px ≤ Σ_{t<T} β^t (x_t'Rx_t + u_t'Qu_t + 2u_t'Nx_t) + β^T x_T'Rf x_T` (`cost`, deterministic law of
    motion `x_{t+1} = Ax_t + Bu_t`), and some control sequence attains `x'Px`: the recursion returns the
    exact minimum of the T-period quadratic programme. `P` is symmetric positive semidefinite. -/
theorem finite_horizon_exact (sol : M K → M K → Option (M K)) (hsol : SolSpec sol k)
    (lq : LQ K) (h : LQDim lq n k j) (Rf : M K) (hRf : Dim Rf n n)
    (hRfs : (toMat n n Rf)ᵀ = toMat n n Rf) (hRfp : ∀ x : Fin n → K, 0 ≤ qf (toMat n n Rf) x)
    (hQs : (toMat k k lq.Q)ᵀ = toMat k k lq.Q) (hRs : (toMat n n lq.R)ᵀ = toMat n n lq.R)
    (hβ : 0 ≤ lq.beta)
    (hstage : ∀ x u, 0 ≤ stage (toMat n n lq.R) (toMat k k lq.Q) (toMat k n lq.N) x u)
    (T : ℕ) (pol : List (M K)) (vT : Val K)
    (hb : lqBackward sol lq T ⟨Rf, 0⟩ [] = some (pol, vT)) :
    (∀ (x : Fin n → K) (us : List (Fin k → K)), us.length = T →
      qf (toMat n n vT.P) x ≤ cost (toMat n n lq.R) (toMat n n lq.A) (toMat n n Rf) (toMat k k lq.Q)
        (toMat k n lq.N) (toMat n k lq.B) lq.beta us x) ∧
    (∀ x : Fin n → K, ∃ us : List (Fin k → K), us.length = T ∧
      cost (toMat n n lq.R) (toMat n n lq.A) (toMat n n Rf) (toMat k k lq.Q)
        (toMat k n lq.N) (toMat n k lq.B) lq.beta us x = qf (toMat n n vT.P) x) ∧
    (toMat n n vT.P)ᵀ = toMat n n vT.P ∧ ∀ x : Fin n → K, 0 ≤ qf (toMat n n vT.P) x := by
  obtain ⟨hv, _⟩ := lqBackward_spec sol lq T _ _ _ _ hb
  obtain ⟨g, hlow, hatt⟩ := horizon_induction sol hsol h hQs hRs hβ hstage ⟨Rf, 0⟩ ⟨hRf, hRfs, hRfp⟩ T vT hv
  exact ⟨hlow, hatt, g.symm, g.psd⟩

/-- non-vacuity of the hypotheses on the scalar instance `Q = R = A = B = Rf = 1`, `N = 0`, `β = 1/2`,
    `T = 3` with the exact 1×1 solver: the loss `x² + u²` is non-negative and the recursion runs. -/
example : ∀ x u : Fin 1 → ℚ, 0 ≤ stage (toMat 1 1 (M.ofRows [[(1 : ℚ)]])) (toMat 1 1 (M.ofRows [[(1 : ℚ)]]))
    (toMat 1 1 (M.ofRows [[(0 : ℚ)]])) x u := by
  intro x u
  have e1 : toMat 1 1 (M.ofRows [[(1 : ℚ)]]) = Matrix.of fun _ _ => 1 := by
    ext i j; have := Fin.eq_zero i; have := Fin.eq_zero j; subst_vars; rfl
  have e0 : toMat 1 1 (M.ofRows [[(0 : ℚ)]]) = Matrix.of fun _ _ => 0 := by
    ext i j; have := Fin.eq_zero i; have := Fin.eq_zero j; subst_vars; rfl
  rw [e1, e0]
  have q : ∀ y : Fin 1 → ℚ, qf (Matrix.of fun _ _ => (1 : ℚ)) y = y 0 * y 0 := by
    intro y; rw [qf_eq_sum]; simp
  have b0 : bf u (Matrix.of fun _ _ => (0 : ℚ)) x = 0 := by
    simp [bf, Matrix.mul_apply]
  unfold stage
  rw [q, q, b0]
  nlinarith [mul_self_nonneg (x 0), mul_self_nonneg (u 0)]

example : (lqBackward sol1 (⟨M.ofRows [[1]], M.ofRows [[1]], M.ofRows [[1]], M.ofRows [[1]], M.ofRows [[1]],
    M.ofRows [[0]], 1 / 2⟩ : LQ ℚ) 3 ⟨M.ofRows [[1]], 0⟩ []).isSome = true := by decide +kernel

end horizon

section rblq
variable {K : Type} [CommRing K] {n k j : ℕ}

/-- **rblq_b_operator_is_lq_update** (all sizes). `RBLQ.b_operator(P)` (_robustlq.py 144-152, with a control)
    returns the same policy and the same value matrix as `LQ.update_values` of the problem
    `(Q, R, A, B, β)` without cross term (`N = 0`) — so `lq_update_completes_square` and
    `lq_update_one_step_minimum` apply to it verbatim: the robust rule's `B` operator is the exact
    one-period minimisation. -/
theorem rblq_b_operator_is_lq_update (sol : M K → M K → Option (M K)) (hsol : SolSpec sol k)
    (lq : LQ K) (h : LQDim lq n k j) (hN : toMat k n lq.N = 0) (P : M K) (hP : Dim P n n) (d : K)
    (F P' F2 : M K) (v2 : Val K)
    (hb : rblqB sol lq false P = some (F, P')) (hu : lqUpdate sol lq ⟨P, d⟩ = some (F2, v2)) :
    toMat k n F2 = toMat k n F ∧ toMat n n v2.P = toMat n n P' := by
  obtain ⟨_, _, mF, mP', V, hV1, _⟩ := rblqB_toMat sol hsol h hP hb
  have hv : Dim (⟨P, d⟩ : Val K).P n n := hP
  obtain ⟨_, _, mF2, mP2, _, _⟩ := lqUpdate_toMat sol hsol h hv hu
  simp only at mF2 mP2
  rw [lqS2_toMat h hP, hN, add_zero] at mF2 mP2
  have e : toMat k n F2 = toMat k n F := by
    calc toMat k n F2 = (V * toMat k k (lqS1 lq P)) * toMat k n F2 := by rw [hV1, Matrix.one_mul]
      _ = V * (toMat k k (lqS1 lq P) * toMat k n F2) := by rw [Matrix.mul_assoc]
      _ = V * (toMat k k (lqS1 lq P) * toMat k n F) := by rw [mF2, mF]
      _ = (V * toMat k k (lqS1 lq P)) * toMat k n F := by rw [Matrix.mul_assoc]
      _ = toMat k n F := by rw [hV1, Matrix.one_mul]
  refine ⟨e, ?_⟩
  rw [mP2, mP', e, lqS3_toMat h hP]

/-- non-vacuity: both operators run on the scalar instance and agree (`F = 1/3`, `P_new = 4/3`). -/
example : ((rblqB sol1 (⟨M.ofRows [[1]], M.ofRows [[1]], M.ofRows [[1]], M.ofRows [[1]], M.ofRows [[1]],
      M.ofRows [[0]], 1 / 2⟩ : LQ ℚ) false (M.ofRows [[1]])).map (fun r => (r.1.get 0 0, r.2.get 0 0)),
    (lqUpdate sol1 (⟨M.ofRows [[1]], M.ofRows [[1]], M.ofRows [[1]], M.ofRows [[1]], M.ofRows [[1]],
      M.ofRows [[0]], 1 / 2⟩ : LQ ℚ) ⟨M.ofRows [[1]], 0⟩).map (fun r => (r.1.get 0 0, r.2.P.get 0 0)))
    = (some (1 / 3, 4 / 3), some (1 / 3, 4 / 3)) := by decide +kernel

end rblq

section stationary
variable {K : Type} [Field K] [DecidableEq K] {n k j : ℕ}

/-- **stationary_is_fixed_point** (lines 234-255). Let `P` be what the Riccati solver returned for the
    scaled system `A0 = sA`, `B0 = sB`, `s² = β` (lines 238-239), i.e. a solution of the equation
    `solve_discrete_riccati` solves (its form in property C06, `riccati_fixed_point_iff`):
    `P = A0'PA0 − (N + B0'PA0)'(Q + B0'PB0)^{-1}(N + B0'PA0) + R`. Then the `(P, F, d)` returned by
    `stationary_values` is a fixed point of `update_values`: one more update from `(P, d)` returns the
    same policy `F`, the same matrix `P` and, for `β ≠ 1`, the same constant `d`. -/
theorem stationary_is_fixed_point (sol : M K → M K → Option (M K)) (hsol : SolSpec sol k)
    (lq : LQ K) (h : LQDim lq n k j) (P : M K) (hP : Dim P n n) (F : M K) (d : K)
    (hst : lqStationary sol lq P = some (F, d)) (s : K) (hs : s * s = lq.beta)
    (Si : Matrix (Fin k) (Fin k) K)
    (hSi : Si * (toMat k k lq.Q + (s • toMat n k lq.B)ᵀ * toMat n n P * (s • toMat n k lq.B)) = 1)
    (hric : toMat n n P = (s • toMat n n lq.A)ᵀ * toMat n n P * (s • toMat n n lq.A)
        - (toMat k n lq.N + (s • toMat n k lq.B)ᵀ * toMat n n P * (s • toMat n n lq.A))ᵀ * Si
          * (toMat k n lq.N + (s • toMat n k lq.B)ᵀ * toMat n n P * (s • toMat n n lq.A))
        + toMat n n lq.R)
    (F' : M K) (v' : Val K) (hu : lqUpdate sol lq ⟨P, d⟩ = some (F', v')) :
    F' = F ∧ toMat n n v'.P = toMat n n P ∧ (lq.beta ≠ 1 → v'.d = d) := by
  have hv : Dim (⟨P, d⟩ : Val K).P n n := hP
  obtain ⟨_, _, hF, hP', _, _⟩ := lqUpdate_toMat sol hsol h hv hu
  simp only at hF hP'
  have eS1 : toMat k k (lqS1 lq P)
      = toMat k k lq.Q + (s • toMat n k lq.B)ᵀ * toMat n n P * (s • toMat n k lq.B) := by
    rw [lqS1_toMat h hP, ← hs]
    simp only [transpose_smul, Matrix.smul_mul, Matrix.mul_smul, smul_smul, Matrix.mul_assoc]
  have eS2 : toMat k n (lqS2 lq P)
      = toMat k n lq.N + (s • toMat n k lq.B)ᵀ * toMat n n P * (s • toMat n n lq.A) := by
    rw [lqS2_toMat h hP, ← hs, add_comm]
    simp only [transpose_smul, Matrix.smul_mul, Matrix.mul_smul, smul_smul, Matrix.mul_assoc]
  have eS3 : toMat n n (lqS3 lq P) = (s • toMat n n lq.A)ᵀ * toMat n n P * (s • toMat n n lq.A) := by
    rw [lqS3_toMat h hP, ← hs]
    simp only [transpose_smul, Matrix.smul_mul, Matrix.mul_smul, smul_smul, Matrix.mul_assoc]
  rw [eS1, eS2] at hF
  rw [eS2, eS3] at hP'
  have hFm : toMat k n F' = Si * (toMat k n lq.N + (s • toMat n k lq.B)ᵀ * toMat n n P * (s • toMat n n lq.A)) := by
    rw [← hF, ← Matrix.mul_assoc, hSi, Matrix.one_mul]
  refine ⟨?_, ?_, ?_⟩
  · unfold lqStationary at hst
    unfold lqUpdate at hu
    simp only at hu
    cases hsol' : sol (lqS1 lq P) (lqS2 lq P) with
    | none => rw [hsol'] at hst; cases hst
    | some X =>
      rw [hsol'] at hst hu
      simp only [Option.some.injEq, Prod.mk.injEq] at hst hu
      rw [← hu.1, ← hst.1]
  · rw [hP', hFm]
    conv_rhs => rw [hric]
    simp only [Matrix.mul_assoc]
    abel
  · intro hb
    unfold lqStationary at hst
    unfold lqUpdate at hu
    simp only at hu
    cases hsol' : sol (lqS1 lq P) (lqS2 lq P) with
    | none => rw [hsol'] at hst; cases hst
    | some X =>
      rw [hsol'] at hst hu
      simp only [Option.some.injEq, Prod.mk.injEq] at hst hu
      rw [← hu.2]
      simp only [lqNewD]
      have hd := hst.2
      unfold lqStatD at hd
      have hne : (lq.beta == 1) = false := by simpa using hb
      rw [hne] at hd
      simp only [Bool.false_eq_true, if_false] at hd
      have h1 : (1 : K) - lq.beta ≠ 0 := fun hc => hb (by
        have := sub_eq_zero.mp hc; exact this.symm)
      rw [← hd]
      field_simp
      ring

/-- non-vacuity: `Q = 2`, `R = A = B = 1`, `N = 0`, `C = 0`, `β = 1` (so `s = 1`): `P = 2` solves the Riccati
    equation `P = P − P²/(2+P) + 1` (second example), and `stationary_values` returns `F = 1/2`, `d = 0`. -/
example : (lqStationary sol1 (⟨M.ofRows [[2]], M.ofRows [[1]], M.ofRows [[1]], M.ofRows [[1]], M.ofRows [[0]],
    M.ofRows [[0]], 1⟩ : LQ ℚ) (M.ofRows [[2]])).map (fun r => (r.1.get 0 0, r.2)) = some (1 / 2, 0) := by
  decide +kernel
example : ((2 : ℚ) = 1 * 2 * 1 - (0 + 1 * 2 * 1) * (1 / (2 + 1 * 2 * 1)) * (0 + 1 * 2 * 1) + 1) := by norm_num

end stationary

section sequence
variable {α : Type} [Zero α] [One α] [Add α] [Sub α] [Mul α] [Div α] [Neg α] [BEq α]

/-- **policy_order** (every horizon `T`, every scalar type — also the `Float` reading the driver runs).
    If `compute_sequence` of a finite-horizon instance returns paths `xs`, `us`, then with
    `T = horizon Tfin ts` (lines 300-301): `xs` has `T+1` and `us` has `T` entries, `x_0 = x0`, and for
    every `t < T` the control is `u_t = -F_t x_t` where `F_t` is the policy produced by call number
    `T - t` of `update_values` starting from `(Rf, 0)` (`polAt … (T-1-t)`: the list is built backwards
    and popped from its end), and `x_{t+1} = A x_t + B u_t + (C W)[:, t+1]`. -/
theorem policy_order (sol : M α → M α → Option (M α)) (lq : LQ α) (Rf : M α) (Tfin ts : Nat)
    (x0 W : M α) (xs us : List (M α)) (hT : horizon Tfin ts ≠ 0)
    (h : computeSequence sol lq Rf Tfin ts x0 W = .ok xs us) :
    xs.length = horizon Tfin ts + 1 ∧ us.length = horizon Tfin ts ∧ xs[0]? = some x0 ∧
    ∀ t, t < horizon Tfin ts → ∃ xt ut Ft,
      xs[t]? = some xt ∧ us[t]? = some ut ∧
      polAt sol lq ⟨Rf, 0⟩ (horizon Tfin ts - 1 - t) = some Ft ∧ ut = ctrl Ft xt ∧
      xs[t + 1]? = some (nextX lq.A lq.B xt ut (col (mmul lq.C W) (t + 1))) := by
  unfold computeSequence at h
  simp only at h
  cases hb : lqBackward sol lq (horizon Tfin ts) ⟨Rf, 0⟩ [] with
  | none => rw [hb] at h; cases h
  | some r =>
    obtain ⟨pol, vT⟩ := r
    rw [hb] at h
    simp only at h
    obtain ⟨_, L, hL, hlen, hpol⟩ := lqBackward_spec sol lq _ _ _ _ _ hb
    simp only [List.nil_append] at hL
    subst hL
    rw [simulate_eq lq pol _ x0 W hlen hT] at h
    simp only [SeqOut.ok.injEq] at h
    obtain ⟨hx, hu⟩ := h
    have hne : pol.reverse ≠ [] := by
      intro hc
      have : pol = [] := by simpa using hc
      subst this; simp at hlen; exact hT hlen.symm
    obtain ⟨l1, l2, h0, hstep⟩ := closedLoop_spec lq.A lq.B (col (mmul lq.C W)) pol.reverse x0 hne
    simp only [hx, hu, List.length_reverse, hlen] at l1 l2 hstep h0
    refine ⟨l1, l2, h0, ?_⟩
    intro t ht
    obtain ⟨xt, ut, Ft, e1, e2, e3, e4, e5⟩ := hstep t ht
    refine ⟨xt, ut, Ft, e1, e2, ?_, e4, e5⟩
    rw [hpol _ (by omega), ← hlen, ← e3]
    rw [List.getElem?_reverse (by omega)]

/-- **policy_order_inf.** In the infinite-horizon case every control is `u_t = -F x_t` with the
    stationary `F`, and the same law of motion holds, for every `T = ts_length` (100 when absent). -/
theorem policy_order_inf (lq : LQ α) (F : M α) (ts : Nat) (x0 W : M α) (xs us : List (M α))
    (h : computeSequenceInf lq F ts x0 W = .ok xs us) :
    xs.length = horizon 0 ts + 1 ∧ us.length = horizon 0 ts ∧ xs[0]? = some x0 ∧
    ∀ t, t < horizon 0 ts → ∃ xt ut,
      xs[t]? = some xt ∧ us[t]? = some ut ∧ ut = ctrl F xt ∧
      xs[t + 1]? = some (nextX lq.A lq.B xt ut (col (mmul lq.C W) (t + 1))) := by
  have hT : horizon 0 ts ≠ 0 := by
    unfold horizon; simp only [ne_eq, not_true_eq_false, if_false]; split <;> omega
  unfold computeSequenceInf at h
  simp only at h
  rw [simulate_eq lq _ _ x0 W (List.length_replicate) hT] at h
  simp only [SeqOut.ok.injEq, List.reverse_replicate] at h
  obtain ⟨hx, hu⟩ := h
  have hne : List.replicate (horizon 0 ts) F ≠ [] := by
    intro hc
    have := congrArg List.length hc
    simp at this; exact hT this
  obtain ⟨l1, l2, h0, hstep⟩ := closedLoop_spec lq.A lq.B (col (mmul lq.C W)) _ x0 hne
  simp only [hx, hu, List.length_replicate] at l1 l2 hstep h0
  refine ⟨l1, l2, h0, ?_⟩
  intro t ht
  obtain ⟨xt, ut, Ft, e1, e2, e3, e4, e5⟩ := hstep t ht
  have : Ft = F := by
    rw [List.getElem?_replicate] at e3
    simp only [ht, if_true, Option.some.injEq] at e3
    exact e3.symm
  subst this
  exact ⟨xt, ut, e1, e2, e4, e5⟩

/-- non-vacuity: a 3-period scalar instance runs, and its controls are read off the policies in reverse:
    `polAt 2` (backward step 3) is applied at time 0. -/
example :
    (match computeSequence (solve : M ℚ → M ℚ → Option (M ℚ))
        ⟨M.ofRows [[1]], M.ofRows [[1]], M.ofRows [[1]], M.ofRows [[1]], M.ofRows [[1]], M.ofRows [[0]], 1 / 2⟩
        (M.ofRows [[1]]) 3 0 (M.ofRows [[1]]) (M.ofRows [[0, 1, 0, 1]]) with
      | .ok xs us => (xs.length, us.length)
      | _ => (0, 0)) = (4, 3) := by decide +kernel

end sequence

end QE.C07
