/-
  Property C07 — theorems about QEModel.C07 (stub; to be filled in).
-/
import QEModel.C07
namespace QE.C07

end QE.C07
