/-
  Property C14 — theorems about QEModel.C14 (stub; to be filled in).
-/
import QEModel.C14
namespace QE.C14

end QE.C14
