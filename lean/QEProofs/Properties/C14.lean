/-
  Property C14 — game objects keep one consistent payoff convention across all views.
  Theorems about the definitions of `QEModel/C14.lean` (the ones `qedriver_c14` executes).

  Conventions: a game `g` is well formed for the action counts `nums` (`Game.WF g nums`) when
  player `i`'s array has shape `nums[i:] + nums[:i]` and as many cells as that shape says.
  A profile is in bounds when `inBounds nums prof`.

  Added in the last growth round (end of file): `best_responses_nonempty`, `best_response_smallest`,
  `is_nash_is_definition` (pure and mixed profiles), `delete_actions_views` (list of actions),
  `poke_views`, `profile_array_after_set`, `dominated_never_best_response`, `dominated_not_nash`,
  `mixed_dominated_never_best_response`; second round: `best_response_2p_eq`, `best_response_2p_spec`,
  `payoff_vector_pure2mixed`, `randomChoice_mem`, `step_brr` (new model definitions `payoffVector2p`,
  `bestResponse2p`, `pure2mixed`, `randomChoice`, op `brr`).
  Not proved (outside the model, see QEModel/C14.lean): the decimal text of GAM numbers, `lstsq`
  in `PolymatrixGame.from_nf`, the LP solver behind `is_dominated` (a certificate is checked instead).
-/
import QEProofs.Lemmas.C14Expect
import QEProofs.Lemmas.C14Rot
import QEProofs.Lemmas.C14Round
import QEProofs.Lemmas.C14Dual
import QEProofs.Lemmas.C14Sum
import QEProofs.Lemmas.C14Delete
import QEProofs.Lemmas.C14Order
import QEProofs.Lemmas.C14Gam
namespace QE.C14

variable {α : Type} [Zero α]

/-- well-formed game: what `NormalFormGame.__init__` establishes -/
structure Game.WF (g : Game α) (nums : List Nat) : Prop where
  len : g.players.length = nums.length
  shape : ∀ i, i < nums.length → (g.player i).shape = rotL i nums
  size : ∀ i, i < nums.length → (g.player i).data.length = prod (g.player i).shape

/-- a concrete 2×3 game used for the non-vacuity examples: `u(a,b) = (10a+b, 100+10a+b)` -/
def exGame : Game Int :=
  ⟨[⟨[2, 3], [0, 1, 2, 10, 11, 12]⟩, ⟨[3, 2], [100, 110, 101, 111, 102, 112]⟩]⟩

theorem exGame_WF : exGame.WF [2, 3] := ⟨rfl, by decide, by decide⟩

/-! ## T1 views_agree -/

theorem getItem_getD (g : Game α) (prof : List Nat) (i : Nat) (hi : i < g.N) :
    (g.getItem prof).getD i 0 = (g.player i).get (rotL i prof) := by
  simp [Game.getItem, List.getD_eq_getElem?_getD, List.getElem?_map, List.getElem?_range hi]

/-- **One convention, three views.** For every number of players, every in-bounds profile and
    every player `i`: the entry of `payoff_profile_array` at `(profile, i)`, the `i`-th entry of
    `g[profile]`, and `players[i].payoff_array` read at the profile rotated so that `i`'s own
    action comes first, are the same cell. -/
theorem views_agree (g : Game α) (nums prof : List Nat) (i : Nat) (hg : g.WF nums)
    (hp : inBounds nums prof = true) (hi : i < nums.length) :
    g.profileArray.get (prof ++ [i]) = (g.player i).get (rotL i prof) ∧
    (g.getItem prof).getD i 0 = (g.player i).get (rotL i prof) := by
  have hN : g.N = nums.length := hg.len
  refine ⟨?_, getItem_getD g prof i (by rw [hN]; exact hi)⟩
  have hpl : prof.length = nums.length := inBounds_length _ _ hp
  have hs0 : (g.player 0).shape = nums := by rw [hg.shape 0 (by omega), rotL_zero]
  unfold Game.profileArray
  rw [get_tab _ _ _ (by
    rw [hs0, hN]; exact inBounds_append _ _ _ _ hp (inBounds_single _ _ hi))]
  simp only [List.getLastD_concat, List.dropLast_concat]
  have : ((List.range g.N).map fun i => (g.player i).transpose (rotPerm g.N (g.N - i))).getD i default
      = (g.player i).transpose (rotPerm g.N (g.N - i)) := by
    simp [List.getD_eq_getElem?_getD, List.getElem?_map, List.getElem?_range (show i < g.N by omega)]
  rw [this, hN]
  unfold Arr.transpose
  have hsh : (rotPerm nums.length (nums.length - i)).map (fun k => (g.player i).shape.getD k 0) = nums := by
    rw [map_getD_rotPerm _ _ _ (by omega) (by rw [hg.shape i hi, length_rotL]), hg.shape i hi]
    exact rotL_rotL i _ nums (by omega) (by omega) (by omega)
  rw [hsh, get_tab _ _ _ hp, srcIndex_rotPerm _ _ _ (by omega) hpl]
  congr 2
  omega

example : exGame.profileArray.get ([1, 2] ++ [1]) = 112 ∧ (exGame.getItem [1, 2]).getD 1 0 = 112 := by
  decide

/-! ## T1 set / get -/

theorem setItem_N (g : Game α) (prof : List Nat) (vals : List α) : (g.setItem prof vals).N = g.N := by
  simp [Game.setItem, Game.N]

theorem setItem_player (g : Game α) (prof : List Nat) (vals : List α) (i : Nat) (hi : i < g.N) :
    (g.setItem prof vals).player i =
      ⟨(g.player i).shape,
       (g.player i).data.set (flatIndex (g.player i).shape (rotL i prof)) (vals.getD i 0)⟩ := by
  simp [Game.setItem, Game.player, List.getD_eq_getElem?_getD, List.getElem?_map,
    List.getElem?_range hi]

/-- `__setitem__` keeps the game well formed -/
theorem setItem_WF (g : Game α) (nums prof : List Nat) (vals : List α) (hg : g.WF nums) :
    (g.setItem prof vals).WF nums := by
  have hN : g.N = nums.length := hg.len
  refine ⟨by rw [← hg.len]; exact setItem_N g prof vals, ?_, ?_⟩
  · intro i hi
    rw [setItem_player g prof vals i (by omega)]
    exact hg.shape i hi
  · intro i hi
    rw [setItem_player g prof vals i (by omega)]
    simp only [List.length_set]
    exact hg.size i hi

/-- **set then get.** After `g[prof] = vals`, `g[prof]` is `vals` (for every player). -/
theorem set_get (g : Game α) (nums prof : List Nat) (vals : List α) (i : Nat) (hg : g.WF nums)
    (hp : inBounds nums prof = true) (hi : i < nums.length) :
    ((g.setItem prof vals).getItem prof).getD i 0 = vals.getD i 0 := by
  have hN : g.N = nums.length := hg.len
  rw [getItem_getD _ _ _ (by rw [setItem_N]; omega), setItem_player g prof vals i (by omega)]
  unfold Arr.get
  simp only
  have hb : inBounds (g.player i).shape (rotL i prof) = true := by
    rw [hg.shape i hi]; exact inBounds_rotL i nums prof (by omega) hp
  have hlt := flatIndex_lt _ _ hb
  rw [← hg.size i hi] at hlt
  rw [List.getD_eq_getElem?_getD, List.getElem?_set_self hlt]
  rfl

theorem flatIndex_inj (s a b : List Nat) (ha : inBounds s a = true) (hb : inBounds s b = true)
    (h : flatIndex s a = flatIndex s b) : a = b := by
  have h1 := allIdx_flatIndex s a ha
  have h2 := allIdx_flatIndex s b hb
  rw [h, h2] at h1
  exact (Option.some.inj h1).symm

theorem rotL_inj (i : Nat) (a b : List Nat) (hi : i ≤ a.length) (hl : a.length = b.length)
    (h : rotL i a = rotL i b) : a = b := by
  have e1 := rotL_rotL i (a.length - i) a hi (by omega) (by omega)
  have e2 := rotL_rotL i (b.length - i) b (by omega) (by omega) (by omega)
  rw [← e1, ← e2, h, hl]

/-- **set leaves every other profile alone.** After `g[prof] = vals`, every other in-bounds
    profile reads as before, for every player (no aliasing between cells or players). -/
theorem set_other_unchanged (g : Game α) (nums prof prof' : List Nat) (vals : List α) (i : Nat)
    (hg : g.WF nums) (hp : inBounds nums prof = true) (hp' : inBounds nums prof' = true)
    (hne : prof' ≠ prof) (hi : i < nums.length) :
    ((g.setItem prof vals).getItem prof').getD i 0 = (g.getItem prof').getD i 0 := by
  have hN : g.N = nums.length := hg.len
  rw [getItem_getD _ _ _ (by rw [setItem_N]; omega), getItem_getD _ _ _ (by omega),
    setItem_player g prof vals i (by omega)]
  unfold Arr.get
  simp only
  have hb : inBounds (g.player i).shape (rotL i prof) = true := by
    rw [hg.shape i hi]; exact inBounds_rotL i nums prof (by omega) hp
  have hb' : inBounds (g.player i).shape (rotL i prof') = true := by
    rw [hg.shape i hi]; exact inBounds_rotL i nums prof' (by omega) hp'
  have hl := inBounds_length _ _ hp
  have hl' := inBounds_length _ _ hp'
  have hk : flatIndex (g.player i).shape (rotL i prof) ≠ flatIndex (g.player i).shape (rotL i prof') := by
    intro h
    have := flatIndex_inj _ _ _ hb hb' h
    exact hne (rotL_inj i prof' prof (by omega) (by omega) this.symm)
  rw [List.getD_eq_getElem?_getD, List.getElem?_set_ne hk, ← List.getD_eq_getElem?_getD]

example : ((exGame.setItem [1, 2] [7, 8]).getItem [1, 2]) = [7, 8] ∧
    ((exGame.setItem [1, 2] [7, 8]).getItem [0, 2]) = exGame.getItem [0, 2] := by decide

/-! ## T1 reconstruction round trips -/

omit [Zero α] in
theorem players_eq (g : Game α) : g.players = (List.range g.N).map g.player := by
  apply List.ext_getElem
  · simp [Game.N]
  · intro i h1 h2
    simp [Game.player, List.getD_eq_getElem?_getD, List.getElem?_eq_getElem h1]

theorem profileArray_shape (g : Game α) (nums : List Nat) (hg : g.WF nums) (hN : 0 < nums.length) :
    g.profileArray.shape = nums ++ [nums.length] := by
  show (g.player 0).shape ++ [g.N] = _
  rw [hg.shape 0 hN, rotL_zero, show g.N = nums.length from hg.len]

/-- **from_profile_array_roundtrip.** Splitting `payoff_profile_array` back into Players
    (`NormalFormGame(g.payoff_profile_array)`) gives the same game, array for array. -/
theorem from_profile_array_roundtrip (g : Game α) (nums : List Nat) (hg : g.WF nums)
    (hN : 0 < nums.length) : Game.ofProfileArray g.profileArray = .ok g := by
  have hsh := profileArray_shape g nums hg hN
  unfold Game.ofProfileArray
  simp only [hsh, List.length_append, List.length_cons, List.length_nil, Nat.add_sub_cancel,
    List.getLastD_concat, bne_self_eq_false, Bool.false_eq_true, if_false]
  congr 1
  cases g with
  | mk players =>
    congr 1
    refine Eq.trans ?_ (players_eq ⟨players⟩).symm
    have hlen : (Game.mk players).N = nums.length := hg.len
    rw [hlen]
    apply List.map_congr_left
    intro i hi
    have hi' : i < nums.length := by simpa using hi
    apply transpose_fwd ((Game.mk players).player i) _ nums i (by omega) (hg.shape i hi') (hg.size i hi')
    · show (Game.mk players).profileArray.shape.dropLast = nums
      rw [hsh]; simp
    · intro idx hp
      show (Arr.tab (Game.mk players).profileArray.shape.dropLast _).get idx = _
      rw [hsh, List.dropLast_concat, get_tab _ _ _ hp]
      exact (views_agree _ nums idx i hg hp hi').1

omit [Zero α] in
/-- `NormalFormGame(g.players)` accepts a well-formed game and is the same game -/
theorem from_players_roundtrip (g : Game α) (nums : List Nat) (hg : g.WF nums) :
    Game.ofPlayers g.players = .ok g := by
  unfold Game.ofPlayers
  have hall : ((List.range g.players.length).all fun i =>
      i == 0 || (((g.players.getD i default).shape.length == g.players.length) &&
                 ((g.players.getD i default).shape == rotL i (g.players.headD default).shape))) = true := by
    rw [List.all_eq_true]
    intro i hi
    have hi' : i < nums.length := by rw [← hg.len]; simpa using hi
    have h0 : (g.players.headD default).shape = nums := by
      have := hg.shape 0 (by omega)
      rw [rotL_zero] at this
      rw [← this]
      simp [Game.player, List.headD_eq_head?_getD, List.getD_eq_getElem?_getD, List.head?_eq_getElem?]
    have hsi : (g.players.getD i default).shape = rotL i nums := hg.shape i hi'
    rw [hsi, h0]
    simp [length_rotL, hg.len]
  rw [if_pos hall]

example : Game.ofProfileArray exGame.profileArray = .ok exGame ∧ Game.ofPlayers exGame.players = .ok exGame := by
  decide

/-- **gam_roundtrip_tokens.** Reading back the numbers written by the GAM writer (player by
    player, the common-order array in Fortran order) rebuilds the same game, array for array —
    for every number of players and every action counts (index order only; the decimal text of
    each number is outside the model). -/
theorem gam_roundtrip_tokens (g : Game α) (nums : List Nat) (hg : g.WF nums)
    (hN : 0 < nums.length) (hpos : prod nums ≠ 0) :
    parseGam nums (gamPayoffs g).flatten = .ok g := by
  have hlen : g.N = nums.length := hg.len
  have hT : ∀ i, i < nums.length →
      ((g.player i).transpose (rotPerm g.N (g.N - i))).shape = nums ∧
      ∀ idx, inBounds nums idx = true →
        ((g.player i).transpose (rotPerm g.N (g.N - i))).get idx = (g.player i).get (rotL i idx) := by
    intro i hi
    rw [hlen]
    exact transpose_back (g.player i) nums i (by omega) (hg.shape i hi)
  have hL : ∀ l ∈ gamPayoffs g, l.length = prod nums := by
    intro l hl
    simp only [gamPayoffs, List.mem_map, List.mem_range] at hl
    obtain ⟨i, hi, rfl⟩ := hl
    rw [length_ravelF, (hT i (by omega)).1]
  have hLlen : (gamPayoffs g).length = nums.length := by simp [gamPayoffs, hlen]
  have hflat : (gamPayoffs g).flatten.length = nums.length * prod nums := by
    rw [length_flatten_const _ _ hL, hLlen]
  have hps : ((List.range nums.length).map fun i =>
      (Arr.reshapeF (((gamPayoffs g).flatten.drop (i * prod nums)).take (prod nums)) nums).transpose
        (rotPerm nums.length i)) = g.players := by
    rw [players_eq g, hlen]
    apply List.map_congr_left
    intro i hi
    have hi' : i < nums.length := by simpa using hi
    have hb := flatten_block _ _ i hL (by omega)
    have hb2 : (gamPayoffs g)[i]? = some ((g.player i).transpose (rotPerm g.N (g.N - i))).ravelF := by
      simp [gamPayoffs, List.getElem?_map, List.getElem?_range (show i < g.N by omega)]
    rw [hb2] at hb
    rw [← Option.some.inj hb]
    obtain ⟨hs, hget⟩ := hT i hi'
    have hr := reshapeF_ravelF ((g.player i).transpose (rotPerm g.N (g.N - i)))
    rw [hs] at hr
    rw [hr]
    apply transpose_fwd (g.player i) _ nums i (by omega) (hg.shape i hi') (hg.size i hi') rfl
    intro idx hp
    rw [get_tab _ _ _ hp]
    exact hget idx hp
  have hall : g.players.all Game.playerOk = true := by
    rw [players_eq g, List.all_eq_true]
    intro A hA
    simp only [List.mem_map, List.mem_range] at hA
    obtain ⟨i, hi, rfl⟩ := hA
    have hs := hg.shape i (by omega)
    simp only [Game.playerOk, hs, length_rotL, prod_rotL, Bool.and_eq_true, bne_iff_ne, ne_eq]
    exact ⟨by omega, hpos⟩
  unfold parseGam
  simp only [hflat, bne_self_eq_false, Bool.false_eq_true, if_false, hps, hall, if_true]
  exact from_players_roundtrip g nums hg

example : parseGam [2, 3] (gamPayoffs exGame).flatten = .ok exGame ∧
    gamPayoffs exGame = [[0, 10, 1, 11, 2, 12], [100, 110, 101, 111, 102, 112]] := by decide

/-- **Order of the numbers the GAM writer emits.** In player `i`'s block, the number at the
    Fortran offset of a profile (first player's action fastest) is player `i`'s payoff at that
    profile; every block has `∏ nums` numbers. -/
theorem gam_write_order (g : Game α) (nums prof : List Nat) (i : Nat) (hg : g.WF nums)
    (hp : inBounds nums prof = true) (hi : i < nums.length) :
    ((gamPayoffs g).getD i []).getD (flatIndex nums.reverse prof.reverse) 0 = (g.getItem prof).getD i 0 ∧
    ((gamPayoffs g).getD i []).length = prod nums := by
  have hlen : g.N = nums.length := hg.len
  have hT := transpose_back (g.player i) nums i (by omega) (hg.shape i hi)
  have hblock : (gamPayoffs g).getD i [] = ((g.player i).transpose (rotPerm g.N (g.N - i))).ravelF := by
    simp [gamPayoffs, List.getD_eq_getElem?_getD, List.getElem?_map, List.getElem?_range (show i < g.N by omega)]
  rw [hblock, hlen, length_ravelF, hT.1]
  refine ⟨?_, rfl⟩
  rw [getItem_getD _ _ _ (by omega)]
  unfold Arr.ravelF
  rw [hT.1, List.getD_eq_getElem?_getD, List.getElem?_map,
    allIdx_flatIndex _ _ (inBounds_reverse _ _ hp)]
  simp only [Option.map_some, Option.getD_some, List.reverse_reverse]
  exact hT.2 prof hp

example : ((gamPayoffs exGame).getD 1 []).getD (flatIndex [3, 2] [2, 1]) 0 = (exGame.getItem [1, 2]).getD 1 0 := by
  decide

/-! ## T1 constructors: the game built from data shows that data in every view -/

theorem mk_player (ps : List (Arr α)) (i : Nat) (f : Nat → Arr α) (n : Nat) (hi : i < n)
    (hps : ps = (List.range n).map f) : (Game.mk ps).player i = f i := by
  subst hps
  simp [Game.player, List.getD_eq_getElem?_getD, List.getElem?_map, List.getElem?_range hi]

/-- **Construction from a payoff profile array.** `NormalFormGame(D)` for `D` of shape
    `nums ++ [N]` succeeds, is well formed, and `g[profile][i] = D[profile, i]` for every
    in-bounds profile and player (so, by `views_agree`, every view shows `D`). -/
theorem from_profile_array_views (D : Arr α) (nums : List Nat) (hN : 0 < nums.length)
    (hD : D.shape = nums ++ [nums.length]) :
    ∃ g, Game.ofProfileArray D = .ok g ∧ g.WF nums ∧
      ∀ prof i, inBounds nums prof = true → i < nums.length →
        (g.getItem prof).getD i 0 = D.get (prof ++ [i]) := by
  have hsh : ∀ i, i ≤ nums.length →
      ((D.takeLast i).transpose (rotPerm nums.length i)).shape = rotL i nums := by
    intro i hi
    show (rotPerm nums.length i).map (fun k => (D.takeLast i).shape.getD k 0) = _
    have : (D.takeLast i).shape = nums := by
      show D.shape.dropLast = nums
      rw [hD]; simp
    rw [this, map_getD_rotPerm _ _ _ hi rfl]
  refine ⟨⟨(List.range nums.length).map fun i => (D.takeLast i).transpose (rotPerm nums.length i)⟩, ?_, ?_, ?_⟩
  · unfold Game.ofProfileArray
    simp only [hD, List.length_append, List.length_cons, List.length_nil, Nat.add_sub_cancel,
      List.getLastD_concat, bne_self_eq_false, Bool.false_eq_true, if_false]
  · refine ⟨by simp, ?_, ?_⟩
    · intro i hi
      rw [mk_player _ i _ nums.length hi rfl]
      exact hsh i (by omega)
    · intro i hi
      rw [mk_player _ i _ nums.length hi rfl]
      exact tab_size _ _
  · intro prof i hp hi
    have hl := inBounds_length _ _ hp
    rw [getItem_getD _ _ _ (by simpa [Game.N] using hi), mk_player _ i _ nums.length hi rfl]
    have hshape : (rotPerm nums.length i).map (fun k => (D.takeLast i).shape.getD k 0) = rotL i nums :=
      hsh i (by omega)
    unfold Arr.transpose
    rw [hshape, get_tab _ _ _ (inBounds_rotL i nums prof (by omega) hp),
      srcIndex_rotPerm _ _ _ (by omega) (by rw [length_rotL]; exact hl),
      rotL_rotL i _ prof (by omega) (by omega) (by omega)]
    show (Arr.tab D.shape.dropLast _).get prof = _
    rw [hD, List.dropLast_concat, get_tab _ _ _ hp]

/-- **Construction from GAM numbers.** `from_gam` on `N`, `nums` and `N·∏nums` numbers succeeds
    (every player having at least one action), is well formed, and player `i`'s payoff at a
    profile is number `i·∏nums + (Fortran offset of the profile)` of the file: within a player's
    block the first player's action varies fastest. -/
theorem parse_gam_views (nums : List Nat) (payoffs : List α) (hN : 0 < nums.length)
    (hpos : prod nums ≠ 0) (hlen : payoffs.length = nums.length * prod nums) :
    ∃ g, parseGam nums payoffs = .ok g ∧ g.WF nums ∧
      ∀ prof i, inBounds nums prof = true → i < nums.length →
        (g.getItem prof).getD i 0 =
          payoffs.getD (i * prod nums + flatIndex nums.reverse prof.reverse) 0 := by
  let P : Nat → Arr α := fun i =>
    (Arr.reshapeF ((payoffs.drop (i * prod nums)).take (prod nums)) nums).transpose (rotPerm nums.length i)
  have hsh : ∀ i, i ≤ nums.length → (P i).shape = rotL i nums := by
    intro i hi
    show (rotPerm nums.length i).map (fun k => nums.getD k 0) = _
    exact map_getD_rotPerm _ _ _ hi rfl
  have hWF : (Game.mk ((List.range nums.length).map P)).WF nums := by
    refine ⟨by simp, ?_, ?_⟩
    · intro i hi
      rw [mk_player _ i _ nums.length hi rfl]; exact hsh i (by omega)
    · intro i hi
      rw [mk_player _ i _ nums.length hi rfl]; exact tab_size _ _
  have hall : ((List.range nums.length).map P).all Game.playerOk = true := by
    rw [List.all_eq_true]
    intro A hA
    simp only [List.mem_map, List.mem_range] at hA
    obtain ⟨i, hi, rfl⟩ := hA
    simp only [Game.playerOk, hsh i (by omega), length_rotL, prod_rotL, Bool.and_eq_true, bne_iff_ne, ne_eq]
    exact ⟨by omega, hpos⟩
  refine ⟨⟨(List.range nums.length).map P⟩, ?_, hWF, ?_⟩
  · unfold parseGam
    simp only [hlen, bne_self_eq_false, Bool.false_eq_true, if_false]
    rw [if_pos hall]
    exact from_players_roundtrip _ _ hWF
  · intro prof i hp hi
    have hl := inBounds_length _ _ hp
    rw [getItem_getD _ _ _ (by simpa [Game.N] using hi), mk_player _ i _ nums.length hi rfl]
    have hshape : (rotPerm nums.length i).map (fun k =>
        (Arr.reshapeF ((payoffs.drop (i * prod nums)).take (prod nums)) nums).shape.getD k 0) = rotL i nums :=
      hsh i (by omega)
    show ((Arr.reshapeF _ nums).transpose _).get _ = _
    unfold Arr.transpose
    rw [hshape, get_tab _ _ _ (inBounds_rotL i nums prof (by omega) hp),
      srcIndex_rotPerm _ _ _ (by omega) (by rw [length_rotL]; exact hl),
      rotL_rotL i _ prof (by omega) (by omega) (by omega)]
    unfold Arr.reshapeF
    rw [get_tab _ _ _ hp]
    have hlt : flatIndex nums.reverse prof.reverse < prod nums := by
      have := flatIndex_lt _ _ (inBounds_reverse _ _ hp)
      rwa [prod_reverse] at this
    rw [List.getD_eq_getElem?_getD, List.getElem?_take, if_pos hlt, List.getElem?_drop,
      ← List.getD_eq_getElem?_getD]

example : ∃ g, parseGam [3, 2] ([3, 2, 0, 3, 5, 6, 3, 2, 3, 2, 6, 1] : List Int) = .ok g ∧
    g.getItem [1, 1] = [5, 6] ∧ g.getItem [2, 0] = [0, 3] := ⟨_, rfl, by decide, by decide⟩

/-- `NormalFormGame(nums)` (all-zero payoffs) is well formed and reads 0 everywhere -/
theorem zeros_views (nums : List Nat) :
    (Game.zeros nums : Game α).WF nums ∧
    ∀ prof i, inBounds nums prof = true → i < nums.length →
      ((Game.zeros nums : Game α).getItem prof).getD i 0 = 0 := by
  refine ⟨⟨by simp [Game.zeros], ?_, ?_⟩, ?_⟩
  · intro i hi; rw [show (Game.zeros nums : Game α) = ⟨_⟩ from rfl, mk_player _ i _ nums.length hi rfl]; rfl
  · intro i hi; rw [show (Game.zeros nums : Game α) = ⟨_⟩ from rfl, mk_player _ i _ nums.length hi rfl]
    exact tab_size _ _
  · intro prof i hp hi
    rw [getItem_getD _ _ _ (by simpa [Game.zeros, Game.N] using hi),
      show (Game.zeros nums : Game α) = ⟨_⟩ from rfl, mk_player _ i _ nums.length hi rfl,
      get_tab _ _ _ (inBounds_rotL i nums prof (by omega) hp)]

/-- **Symmetric two-player game from a square matrix** `M`: both players own (a copy of) `M`;
    `g[a, b] = (M[a, b], M[b, a])`. -/
theorem square_views (M : Arr α) (n : Nat) (hM : M.shape = [n, n]) (hsz : M.data.length = prod M.shape) :
    ∃ g, Game.ofSquare M = .ok g ∧ g.WF [n, n] ∧
      ∀ a b, (g.getItem [a, b]) = [M.get [a, b], M.get [b, a]] := by
  refine ⟨⟨[M, M]⟩, ?_, ⟨rfl, ?_, ?_⟩, ?_⟩
  · unfold Game.ofSquare; simp [hM]
  · intro i hi
    have : i = 0 ∨ i = 1 := by simp at hi; omega
    rcases this with rfl | rfl <;> simp [Game.player, hM, rotL]
  · intro i hi
    have : i = 0 ∨ i = 1 := by simp at hi; omega
    rcases this with rfl | rfl <;> simpa [Game.player] using hsz
  · intro a b
    simp [Game.getItem, Game.N, Game.player, rotL, List.range_succ]

/-! ## T1 delete_action -/

theorem rotL_bump (p a i : Nat) (prof : List Nat) (hp : p < prof.length) (hi : i < prof.length) :
    rotL i (Arr.bump p a prof) = Arr.bump (delAxis p prof.length i) a (rotL i prof) := by
  unfold Arr.bump
  rw [rotL_set prof p i _ hp hi]
  have : (rotL i prof).getD (delAxis p prof.length i) 0 = prof.getD p 0 := by
    rw [getD_rotL i prof 0 _ (by omega) (delAxis_lt p _ i hp hi), delAxis_mod p _ i hp hi]
  rw [this]

/-- **delete_action_views.** Deleting action `a` of player `p` (who keeps at least one action)
    succeeds, yields a well-formed game with `nums[p]` decreased by one, and in *every* player's
    array exactly the cells of the surviving profiles remain, in order: the new game at `prof`
    reads the old game at `prof` with `prof[p]` shifted past `a`. (All `N`, all `p`, including the
    players `i > p` whose axis `p - i` is negative.) -/
theorem delete_action_views (g : Game α) (nums : List Nat) (p a : Nat) (hg : g.WF nums)
    (hp : p < nums.length) (ha : a < nums.getD p 0) (h2 : 2 ≤ nums.getD p 0) (hpos : prod nums ≠ 0) :
    ∃ g', g.deleteAction (p : Int) a = .ok g' ∧ g'.WF (nums.set p (nums.getD p 0 - 1)) ∧
      ∀ prof i, inBounds (nums.set p (nums.getD p 0 - 1)) prof = true → i < nums.length →
        (g'.getItem prof).getD i 0 = (g.getItem (Arr.bump p a prof)).getD i 0 := by
  have hN : g.N = nums.length := hg.len
  let B : Nat → Arr α := fun i => (g.player i).deleteAxis (delAxis p nums.length i) a
  have hax : ∀ i, i < nums.length → (g.player i).shape.getD (delAxis p nums.length i) 0 = nums.getD p 0 := by
    intro i hi
    rw [hg.shape i hi, getD_rotL i nums 0 _ (by omega) (delAxis_lt p _ i hp hi), delAxis_mod p _ i hp hi]
  have hBshape : ∀ i, i < nums.length → (B i).shape = rotL i (nums.set p (nums.getD p 0 - 1)) := by
    intro i hi
    show ((g.player i).shape.set _ _) = _
    rw [hax i hi, hg.shape i hi, rotL_set nums p i _ hp hi]
  have hWF : (Game.mk ((List.range nums.length).map B)).WF (nums.set p (nums.getD p 0 - 1)) := by
    have hpl : ∀ i, i < nums.length → (Game.mk ((List.range nums.length).map B)).player i = B i := by
      intro i hi
      simp [Game.player, List.getD_eq_getElem?_getD, List.getElem?_map, List.getElem?_range hi]
    refine ⟨by simp, ?_, ?_⟩
    · intro i hi
      have hi' : i < nums.length := by simpa using hi
      rw [hpl i hi']; exact hBshape i hi'
    · intro i hi
      have hi' : i < nums.length := by simpa using hi
      rw [hpl i hi']; exact tab_size _ _
  have hmap : (List.range g.N).mapM (fun (i : Nat) =>
      match Game.normAxis ((p : Int) - (i : Int)) (g.player i).shape.length with
      | none => Except.error Err.axis
      | some ax =>
        if a < (g.player i).shape.getD ax 0 then
          if Game.playerOk ((g.player i).deleteAxis ax a) then Except.ok ((g.player i).deleteAxis ax a)
          else Except.error Err.value
        else Except.error Err.index) = .ok ((List.range g.N).map B) := by
    apply mapM_ok
    intro i hi
    have hi' : i < nums.length := by rw [← hN]; simpa using hi
    have hl : (g.player i).shape.length = nums.length := by rw [hg.shape i hi', length_rotL]
    simp only [hl, normAxis_sub p nums.length i hp hi', hax i hi', ha, if_true]
    have hok : Game.playerOk ((g.player i).deleteAxis (delAxis p nums.length i) a) = true := by
      have hs := hBshape i hi'
      simp only [Game.playerOk, Bool.and_eq_true, bne_iff_ne, ne_eq]
      show ¬ (B i).shape.length = 0 ∧ ¬ prod (B i).shape = 0
      rw [hs, length_rotL, prod_rotL, List.length_set]
      exact ⟨by omega, prod_set_ne_zero nums p _ hpos (by omega)⟩
    rw [if_pos hok]
  refine ⟨⟨(List.range nums.length).map B⟩, ?_, hWF, ?_⟩
  · unfold Game.deleteAction
    dsimp only
    erw [hmap]
    rw [hN]
    exact from_players_roundtrip _ _ hWF
  · intro prof i hb hi
    have hpl : (Game.mk ((List.range nums.length).map B)).player i = B i := by
      simp [Game.player, List.getD_eq_getElem?_getD, List.getElem?_map, List.getElem?_range hi]
    have hlen : prof.length = nums.length := by rw [inBounds_length _ _ hb, List.length_set]
    rw [getItem_getD _ _ _ (by simpa [Game.N] using hi), getItem_getD _ _ _ (by omega), hpl]
    show ((g.player i).deleteAxis _ a).get _ = _
    rw [deleteAxis_get _ _ _ _ (by
      rw [hax i hi, hg.shape i hi, ← rotL_set nums p i _ hp hi]
      exact inBounds_rotL i _ prof (by simp; omega) hb)]
    rw [rotL_bump p a i prof (by omega) (by omega), hlen]

example : ∃ g', exGame.deleteAction 1 1 = .ok g' ∧ g'.getItem [1, 1] = exGame.getItem [1, 2] ∧
    g'.players.map (·.shape) = [[2, 2], [2, 2]] := ⟨_, rfl, by decide, by decide⟩

/-- **`delete_action` with the one-element list `[a]` is `delete_action` with `a`** (same game or
    same refusal), for every player index — the array_like form generalises the scalar one. -/
theorem deleteActions_single (g : Game α) (pidx : Int) (a : Nat) :
    g.deleteActions pidx [a] = g.deleteAction pidx a := by
  unfold Game.deleteActions Game.deleteAction
  dsimp only
  congr 2
  funext i
  cases Game.normAxis (pidx - (i : Int)) (g.player i).shape.length with
  | none => rfl
  | some ax =>
    simp only [List.all_cons, List.all_nil, Bool.and_true, decide_eq_true_eq]
    by_cases h : a < (g.player i).shape.getD ax 0
    · rw [if_pos h, if_pos h, deleteMany_single _ ax a h]
    · rw [if_neg h, if_neg h]

/-! ## T1 payoff_vector is the expected payoff -/

section pv
variable [Add α] [Mul α]

/-- **payoff_vector is the expectation.** For a player's array of shape `n0 :: s` (own action
    first, then the opponents in the player's cyclic order) and any opponents' actions `os`
    (each pure or mixed, each fitting its axis), reducing the last axis repeatedly with
    `take`/`dot` yields a vector of length `n0` whose entry `a` is the iterated expectation
    `E_{b₁∼os₁} … E_{b_k∼os_k} A[a, b₁, …, b_k]` — for every number of opponents. -/
theorem payoff_vector_is_expectation (A : Arr α) (n0 : Nat) (s : List Nat) (os : List (Act α))
    (a : Nat) (hs : A.shape = n0 :: s) (hok : actsOk s os) (ha : a < n0) :
    (payoffVector A os).shape = [n0] ∧
    (payoffVector A os).get [a] = expect s os (fun r => A.get (a :: r)) :=
  payoffVector_get n0 a ha s.length s os A rfl hs hok

/-- against pure opponents the expectation is the cell itself -/
theorem expect_pure : ∀ (s r : List Nat) (f : List Nat → α), r.length = s.length →
    expect s (r.map Act.pure) f = f r
  | [], [], _, _ => rfl
  | [], _ :: _, _, h => by simp at h
  | _ :: _, [], _, h => by simp at h
  | _ :: s, b :: r, f, h => by
    simp only [List.map_cons, expect, reduceFn]
    exact expect_pure s r (fun r => f (b :: r)) (by simpa using h)

omit [Zero α] [Add α] [Mul α] in
theorem actsOk_pure : ∀ (s r : List Nat), inBounds s r = true → actsOk (α := α) s (r.map Act.pure)
  | [], [], _ => trivial
  | [], _ :: _, h => by simp [inBounds] at h
  | _ :: _, [], h => by simp [inBounds] at h
  | n :: s, b :: r, h => by
    simp only [inBounds, Bool.and_eq_true, decide_eq_true_eq] at h
    simp only [List.map_cons, actsOk, actOk, h.1, if_true, true_and]
    exact actsOk_pure s r h.2

/-- **pure opponents.** `payoff_vector` against a pure opponent profile `r` is the column of the
    player's array at `r`: entry `a` is `payoff_array[a, r…]`. -/
theorem payoff_vector_pure (A : Arr α) (n0 : Nat) (s r : List Nat) (a : Nat)
    (hs : A.shape = n0 :: s) (hr : inBounds s r = true) (ha : a < n0) :
    (payoffVector A (r.map Act.pure)).get [a] = A.get (a :: r) := by
  rw [(payoff_vector_is_expectation A n0 s _ a hs (actsOk_pure s r hr) ha).2,
    expect_pure s r _ (inBounds_length s r hr)]

/-- the checked `payoff_vector` raises nothing on fitting actions and is then the unchecked one
    (the error paths of the driver are not what makes the theorems above true) -/
theorem payoffVectorC_ok : ∀ (os : List (Act α)) (s pre : List Nat) (A : Arr α),
    A.shape = pre ++ s → actsOk s os →
    payoffVectorC A os = .ok (payoffVector A os) ∧ (payoffVector A os).shape = pre
  | [], [], pre, A, hs, _ => ⟨rfl, by simpa [payoffVector] using hs⟩
  | [], _ :: _, _, _, _, h => by simp [actsOk] at h
  | _ :: _, [], _, _, _, h => by simp [actsOk] at h
  | σ :: os, m :: s, pre, A, hs, h => by
    simp only [actsOk] at h
    have ih := payoffVectorC_ok os s (pre ++ [m]) A (by simpa using hs) h.2
    have hlast : (payoffVector A os).shape.getLastD 0 = m := by rw [ih.2]; simp
    constructor
    · show (do
          let B ← payoffVectorC A os
          match actOk (B.shape.getLastD 0) σ with
          | some e => throw e
          | none => pure (reduceLast B σ)) = _
      rw [ih.1]
      show (match actOk ((payoffVector A os).shape.getLastD 0) σ with
          | some e => throw e
          | none => pure (reduceLast (payoffVector A os) σ)) = _
      rw [hlast, h.1]
      rfl
    · show (reduceLast (payoffVector A os) σ).shape = pre
      rw [reduceLast_shape, ih.2]; simp

example : (payoffVector exGame.players[0] [Act.mixed [1, 2, 3]]).data = [8, 68] := by decide
example : actsOk (α := Int) [3] [Act.mixed [1, 2, 3]] := ⟨rfl, trivial⟩

end pv

/-- **payoff_vector, closed form.** Over a commutative (semi)ring, entry `a` of `payoff_vector`
    is `Σ_{r} (Π_j σ_j(r_j)) · A[a, r]`, the sum ranging over all opponent profiles `r`
    (`σ_j(b)` = `p[b]` for a mixed action `p`, the indicator of `b = a_j` for a pure one). -/
theorem payoff_vector_is_expected_sum {K : Type} [CommSemiring K] (A : Arr K) (n0 : Nat)
    (s : List Nat) (os : List (Act K)) (a : Nat) (hs : A.shape = n0 :: s) (hok : actsOk s os)
    (ha : a < n0) :
    (payoffVector A os).get [a] = ((allIdx s).map fun r => weight os r * A.get (a :: r)).sum := by
  rw [(payoff_vector_is_expectation A n0 s os a hs hok ha).2, expect_eq_sum s os _ hok]
  rfl

example : (payoffVector (⟨[2, 2, 2], [1, 2, 3, 4, 5, 6, 7, 8]⟩ : Arr Int)
    [Act.mixed [1, 1], Act.pure 1]).get [1] = 6 + 8 := by decide

/-! ## T1 best responses, Nash, domination are their definitions -/

section order
variable {K : Type} [Field K] [LinearOrder K] [IsStrictOrderedRing K]

/-- **best_response.** `a` is returned by `best_response(…, tie_breaking=False)` exactly when it
    is an action whose payoff is within `tol` of every action's payoff. -/
theorem best_response_spec (v : List K) (tol : K) (a : Nat) :
    a ∈ bestResponses v tol ↔ a < v.length ∧ ∀ b, b < v.length → v.getD b 0 - tol ≤ v.getD a 0 := by
  simp only [bestResponses, List.mem_filter, List.mem_range, decide_eq_true_eq]
  constructor
  · rintro ⟨ha, h⟩
    have hv : v ≠ [] := by intro e; simp [e] at ha
    exact ⟨ha, (max_sub_le_iff v tol _ hv).mp h⟩
  · rintro ⟨ha, h⟩
    have hv : v ≠ [] := by intro e; simp [e] at ha
    exact ⟨ha, (max_sub_le_iff v tol _ hv).mpr h⟩

/-- value of an own action (pure or mixed) against a payoff vector -/
def ownValue (v : List K) : Act K → K
  | .pure a => v.getD a 0
  | .mixed x => dot x v

/-- **is_best_response.** True exactly when the own action's (expected) payoff is within `tol`
    of every pure action's payoff. -/
theorem is_best_response_spec (v : List K) (own : Act K) (tol : K) (hv : v ≠ []) :
    isBestResponseV v own tol = true ↔ ∀ b, b < v.length → v.getD b 0 - tol ≤ ownValue v own := by
  cases own with
  | pure a => simp only [isBestResponseV, decide_eq_true_eq, ownValue]; exact max_sub_le_iff v tol _ hv
  | mixed x => simp only [isBestResponseV, decide_eq_true_eq, ownValue]; exact max_sub_le_iff v tol _ hv

/-- **is_nash.** True exactly when every player's action is a best response (in the sense of
    `is_best_response_spec`) to the others' actions taken in that player's cyclic order, the payoff
    vector being the expected payoff of `payoff_vector_is_expectation`. -/
theorem is_nash_spec (g : Game K) (prof : List (Act K)) (tol : K)
    (hne : ∀ i, i < g.N → (payoffVector (g.player i) (Game.oppsOf g.N i prof)).data ≠ []) :
    g.isNash prof tol = true ↔ ∀ i, i < g.N →
      ∀ b, b < (payoffVector (g.player i) (Game.oppsOf g.N i prof)).data.length →
        (payoffVector (g.player i) (Game.oppsOf g.N i prof)).data.getD b 0 - tol ≤
          ownValue (payoffVector (g.player i) (Game.oppsOf g.N i prof)).data
            (match prof[i]? with | some a => a | none => .pure 0) := by
  simp only [Game.isNash, List.all_eq_true, List.mem_range]
  constructor
  · intro h i hi
    exact (is_best_response_spec _ _ tol (hne i hi)).mp (h i hi)
  · intro h i hi
    exact (is_best_response_spec _ _ tol (hne i hi)).mpr (h i hi)

/-- opponents of player `i` in `is_nash`: the `N = 2` special case of the code
    (`action_profile[1-i]`) is the same cyclic rule as for `N ≥ 3` -/
theorem oppsOf_two {β : Type} (prof : List β) (i : Nat) (hl : prof.length = 2) (hi : i < 2) :
    Game.oppsOf 2 i prof = prof.drop (i + 1) ++ prof.take i := by
  match prof, hl with
  | [x, y], _ =>
    rcases i with _ | _ | i
    · simp [Game.oppsOf]
    · simp [Game.oppsOf]
    · omega

/-- **is_dominated without opponents**: some action pays more than `a` by more than `tol` -/
theorem is_dominated0_spec (v : List K) (a : Nat) (tol : K) (hv : v ≠ []) :
    isDominated0 v a tol = true ↔ ∃ b, b < v.length ∧ v.getD a 0 + tol < v.getD b 0 := by
  simp only [isDominated0, decide_eq_true_eq]
  obtain ⟨hm, hle⟩ := maxList_spec v hv
  constructor
  · intro h
    obtain ⟨b, hb, e⟩ := List.mem_iff_getElem.mp hm
    refine ⟨b, hb, ?_⟩
    rw [List.getD_eq_getElem?_getD (l := v) (i := b), List.getElem?_eq_getElem hb]
    simp only [Option.getD_some]
    rw [e]; exact h
  · rintro ⟨b, hb, h⟩
    exact lt_of_lt_of_le h (hle _ (getD_mem v b hb))

omit [IsStrictOrderedRing K] in
/-- **pure-strategy domination** (the LP-free sufficient condition for `is_dominated`):
    the test is true exactly when another pure action beats `a` by more than `tol` against every
    in-bounds opponent profile. -/
theorem is_dominated_by_pure_spec (A : Arr K) (a : Nat) (tol : K) :
    isDominatedByPure A a tol = true ↔
      ∃ b, b < A.shape.headD 0 ∧ b ≠ a ∧
        ∀ r, inBounds A.shape.tail r = true → A.get (a :: r) + tol < A.get (b :: r) := by
  simp only [isDominatedByPure, List.any_eq_true, List.mem_range, Bool.and_eq_true, bne_iff_ne, ne_eq,
    List.all_eq_true, decide_eq_true_eq]
  constructor
  · rintro ⟨b, hb, hne, h⟩
    refine ⟨b, hb, hne, ?_⟩
    intro r hr
    exact h r (List.mem_of_getElem? (allIdx_flatIndex _ _ hr))
  · rintro ⟨b, hb, hne, h⟩
    exact ⟨b, hb, hne, fun r hr => h r (mem_allIdx_inBounds _ _ hr)⟩

example : bestResponses ([3, 5, 4, 5] : List ℚ) 1 = [1, 2, 3] := by decide +kernel
example : isBestResponseV ([3, 5, 4, 5] : List ℚ) (.mixed [0, 1/2, 1/2, 0]) (1/2) = true := by decide +kernel

end order

/-! ## T1 read-only calls keep the stored payoffs -/

section ro
variable [Add α] [Sub α] [Mul α] [LT α] [LE α] [DecidableLT α] [DecidableLE α]

/-- the calls that only observe: everything except `set`, `del` and the three reconstructions -/
def Op.observes : Op α → Bool
  | .set _ _ | .del _ _ | .delm _ _ | .poke _ _ _ | .reprof | .replayers | .gam => false
  | _ => true

/-- **Observing calls leave the game as it is**: `get`, `payoff_vector`, `best_response`,
    `is_best_response`, `is_nash`, the domination tests, `payoff_profile_array`, building a
    dynamics object, and the polymatrix conversion return the very same game (all stored arrays
    identical), whatever their arguments — including the error paths. -/
theorem readonly_ops_keep_state (g : Game α) (op : Op α) (h : op.observes = true) :
    (step g op).1 = g := by
  cases op <;> first
    | (simp [Op.observes] at h; done)
    | (simp only [step]; done)
    | (simp only [step]; (repeat' split) <;> rfl)

end ro

/-! ## Histories: every call sequence keeps the game well formed; only `set`/`del` change it -/

section hist
variable [Add α] [Sub α] [Mul α] [LT α] [LE α] [DecidableLT α] [DecidableLE α]

omit [Add α] [Sub α] [Mul α] [LT α] [LE α] [DecidableLT α] [DecidableLE α] in
theorem nums_eq (g : Game α) (nums : List Nat) (hg : g.WF nums) : g.nums = nums := by
  unfold Game.nums
  rw [players_eq g, List.map_map]
  apply List.ext_getElem
  · simp [show g.N = nums.length from hg.len]
  · intro i h1 h2
    have hi : i < nums.length := h2
    simp only [List.getElem_map, List.getElem_range, Function.comp]
    rw [hg.shape i hi, List.headD_eq_head?_getD, List.head?_eq_getElem?, ← List.getD_eq_getElem?_getD,
      getD_rotL i nums 0 0 (by omega) (by omega), Nat.add_zero, Nat.mod_eq_of_lt hi,
      List.getD_eq_getElem?_getD, List.getElem?_eq_getElem hi]
    rfl

/-- the calls that never change a well-formed game: the observing ones and the three
    reconstructions (`NormalFormGame(g.payoff_profile_array)`, `NormalFormGame(players)`,
    `from_gam(to_gam(g))`) -/
def Op.keeps : Op α → Bool
  | .set _ _ | .del _ _ | .delm _ _ | .poke _ _ _ => false
  | _ => true

/-- **Every call except `__setitem__` and `delete_action` returns the same game**: on a
    well-formed game with at least one player and one action each, also the reconstructions
    through the payoff profile array, through the Players and through the GAM numbers give back
    identical arrays. -/
theorem keeping_ops_keep_state (g : Game α) (nums : List Nat) (op : Op α) (hg : g.WF nums)
    (hN : 0 < nums.length) (hpos : prod nums ≠ 0) (h : op.keeps = true) : (step g op).1 = g := by
  cases op with
  | set _ _ => simp [Op.keeps] at h
  | del _ _ => simp [Op.keeps] at h
  | delm _ _ => simp [Op.keeps] at h
  | poke _ _ _ => simp [Op.keeps] at h
  | reprof => simp only [step, from_profile_array_roundtrip g nums hg hN]
  | replayers => simp only [step, from_players_roundtrip g nums hg]
  | gam => simp only [step, nums_eq g nums hg, gam_roundtrip_tokens g nums hg hN hpos]
  | _ => exact readonly_ops_keep_state g _ rfl

omit [Add α] [Sub α] [Mul α] [LT α] [LE α] [DecidableLT α] [DecidableLE α] in
theorem normAxis_some (x : Int) (N ax : Nat) (h : Game.normAxis x N = some ax) (hx : 0 ≤ x) :
    x = (ax : Int) ∧ ax < N := by
  unfold Game.normAxis at h
  split at h
  · simp only [Option.some.injEq] at h; omega
  · split at h
    · omega
    · simp at h

theorem normIdx_some (n : Nat) (a : Int) (x : Nat) (h : normIdx n a = some x) : x < n := by
  unfold normIdx at h
  split at h
  · simp only [Option.some.injEq] at h; omega
  · split at h
    · simp only [Option.some.injEq] at h; omega
    · simp at h

omit [Add α] [Sub α] [Mul α] [LT α] [LE α] [DecidableLT α] [DecidableLE α] in
/-- deleting a player's only action is refused (`Player.__init__` raises ValueError) -/
theorem deleteAction_last (g : Game α) (nums : List Nat) (p a : Nat) (hg : g.WF nums)
    (hp : p < nums.length) (h1 : nums.getD p 0 = 1) (ha : a < 1) :
    g.deleteAction (p : Int) a = .error .value := by
  have hN : g.N = nums.length := hg.len
  unfold Game.deleteAction
  dsimp only
  obtain ⟨m, hm⟩ : ∃ m, g.N = m + 1 := ⟨g.N - 1, by omega⟩
  rw [hm, List.range_succ_eq_map, List.mapM_cons]
  have hl : (g.player 0).shape.length = nums.length := by rw [hg.shape 0 (by omega), length_rotL]
  have hax : (g.player 0).shape.getD (delAxis p nums.length 0) 0 = nums.getD p 0 := by
    rw [hg.shape 0 (by omega), getD_rotL 0 nums 0 _ (by omega) (delAxis_lt p _ 0 hp (by omega)),
      delAxis_mod p _ 0 hp (by omega)]
  have hbad : Game.playerOk ((g.player 0).deleteAxis (delAxis p nums.length 0) a) = false := by
    have : prod ((g.player 0).deleteAxis (delAxis p nums.length 0) a).shape = 0 := by
      show prod ((g.player 0).shape.set _ _) = 0
      rw [hax, h1]
      by_contra hc
      have := (prod_ne_zero_iff _).mp hc 0 (by
        have hlt : delAxis p nums.length 0 < ((g.player 0).shape.set (delAxis p nums.length 0) (1 - 1)).length := by
          rw [List.length_set, hl]; exact delAxis_lt p _ 0 hp (by omega)
        have := List.getElem_mem hlt
        rwa [List.getElem_set_self] at this)
      exact this rfl
    simp [Game.playerOk, this]
  have e : (↑p - ((0 : Nat) : Int)) = (p : Int) - ((0 : Nat) : Int) := rfl
  simp only [hl, normAxis_sub p nums.length 0 hp (by omega), hax, h1, ha, if_true, hbad]
  rfl


omit [Add α] [Sub α] [Mul α] [LT α] [LE α] [DecidableLT α] [DecidableLE α] in
theorem normAxis_lt (x : Int) (nd ax : Nat) (h : Game.normAxis x nd = some ax) : ax < nd := by
  unfold Game.normAxis at h
  split at h
  · simp only [Option.some.injEq] at h; omega
  · split at h
    · simp only [Option.some.injEq] at h; omega
    · simp at h

omit [Add α] [Sub α] [Mul α] [LT α] [LE α] [DecidableLT α] [DecidableLE α] in
/-- whenever `delete_action` with a list of actions succeeds, the result is a well-formed game
    with the same number of players, every player keeping at least one action -/
theorem deleteActions_WF (g : Game α) (nums : List Nat) (pidx : Int) (as : List Nat) (g' : Game α)
    (hg : g.WF nums) (hN : 0 < nums.length) (h : g.deleteActions pidx as = .ok g') :
    ∃ nums', g'.WF nums' ∧ nums'.length = nums.length ∧ prod nums' ≠ 0 := by
  have hgN : g.N = nums.length := hg.len
  unfold Game.deleteActions at h
  dsimp only at h
  cases hm : (List.range g.N).mapM (fun (i : Nat) =>
      match Game.normAxis (pidx - (i : Int)) (g.player i).shape.length with
      | none => Except.error Err.axis
      | some ax =>
        if (as.all fun a => decide (a < (g.player i).shape.getD ax 0)) = true then
          if Game.playerOk ((g.player i).deleteMany ax as) = true then Except.ok ((g.player i).deleteMany ax as)
          else Except.error Err.value
        else Except.error Err.index) with
  | error e => erw [hm] at h; cases h
  | ok ps =>
    erw [hm] at h
    obtain ⟨rfl, hshapes⟩ := ofPlayers_inv ps g' h
    obtain ⟨hlen, helem⟩ := mapM_ok_inv _ _ _ hm
    rw [List.length_range, hgN] at hlen
    have hfact : ∀ i (hi : i < ps.length), ∃ ax, ax < (g.player i).shape.length ∧
        ps[i] = (g.player i).deleteMany ax as ∧ Game.playerOk ps[i] = true := by
      intro i hi
      have := helem i (by simp; omega) hi
      simp only [List.getElem_range] at this
      split at this
      · cases this
      · rename_i ax hax
        split at this
        · split at this
          · rename_i hok
            have e := Except.ok.inj this
            exact ⟨ax, normAxis_lt _ _ _ hax, e.symm, by rw [← e]; exact hok⟩
          · cases this
        · cases this
    have h0 : 0 < ps.length := by omega
    obtain ⟨ax0, hax0, hp0, hok0⟩ := hfact 0 h0
    have hpl : ∀ i (hi : i < ps.length), (Game.mk ps).player i = ps[i] := by
      intro i hi
      simp [Game.player, List.getD_eq_getElem?_getD, List.getElem?_eq_getElem hi]
    have hhead : ps.headD default = ps[0] := by
      cases ps with
      | nil => simp at h0
      | cons x xs => rfl
    have hs0len : ps[0].shape.length = nums.length := by
      rw [hp0]
      show ((g.player 0).shape.set _ _).length = _
      rw [List.length_set, hg.shape 0 hN, length_rotL]
    refine ⟨ps[0].shape, ⟨by simp [hlen, hs0len], ?_, ?_⟩, hs0len, ?_⟩
    · intro i hi
      have hi' : i < ps.length := by omega
      rw [hpl i hi']
      by_cases hz : i = 0
      · subst hz; rw [rotL_zero]
      · have := hshapes i hi' hz
        rw [hhead] at this
        rw [← this]
        simp [List.getD_eq_getElem?_getD, List.getElem?_eq_getElem hi']
    · intro i hi
      have hi' : i < ps.length := by omega
      rw [hpl i hi']
      obtain ⟨ax, _, hp, _⟩ := hfact i hi'
      rw [hp]
      exact tab_size _ _
    · simp only [Game.playerOk, Bool.and_eq_true, bne_iff_ne, ne_eq] at hok0
      exact hok0.2


omit [Add α] [Sub α] [Mul α] [LT α] [LE α] [DecidableLT α] [DecidableLE α] in
theorem pokeItem_player (g : Game α) (i : Nat) (idx : List Nat) (v : α) (j : Nat) (hj : j < g.N) :
    (g.pokeItem i idx v).player j =
      if j = i then ⟨(g.player j).shape, (g.player j).data.set (flatIndex (g.player j).shape idx) v⟩
      else g.player j := by
  simp [Game.pokeItem, Game.player, List.getD_eq_getElem?_getD, List.getElem?_map, List.getElem?_range hj]

omit [Add α] [Sub α] [Mul α] [LT α] [LE α] [DecidableLT α] [DecidableLE α] in
/-- an in-place edit of one cell of one player's array keeps the game well formed -/
theorem pokeItem_WF (g : Game α) (nums : List Nat) (i : Nat) (idx : List Nat) (v : α) (hg : g.WF nums) :
    (g.pokeItem i idx v).WF nums := by
  have hN : g.N = nums.length := hg.len
  refine ⟨by rw [← hg.len]; simp [Game.pokeItem, Game.N], ?_, ?_⟩
  · intro j hj
    rw [pokeItem_player g i idx v j (by omega)]
    split <;> exact hg.shape j hj
  · intro j hj
    rw [pokeItem_player g i idx v j (by omega)]
    split
    · simp only [List.length_set]; exact hg.size j hj
    · exact hg.size j hj

omit [Add α] [Sub α] [Mul α] [LT α] [LE α] [DecidableLT α] [DecidableLE α] in
/-- **an in-place edit is seen by the edited player only, at the edited cell only**: the other
    players' arrays are untouched (no aliasing between players), and player `i` reads `v` there -/
theorem pokeItem_views (g : Game α) (nums : List Nat) (i : Nat) (idx : List Nat) (v : α) (hg : g.WF nums)
    (hi : i < nums.length) (hb : inBounds (g.player i).shape idx = true) :
    ((g.pokeItem i idx v).player i).get idx = v ∧
    ∀ j, j < nums.length → j ≠ i → (g.pokeItem i idx v).player j = g.player j := by
  have hN : g.N = nums.length := hg.len
  constructor
  · rw [pokeItem_player g i idx v i (by omega), if_pos rfl]
    unfold Arr.get
    have hlt := flatIndex_lt _ _ hb
    rw [← hg.size i hi] at hlt
    simp only
    rw [List.getD_eq_getElem?_getD, List.getElem?_set_self hlt]
    rfl
  · intro j hj hne
    rw [pokeItem_player g i idx v j (by omega), if_neg hne]

/-- **One call keeps the game well formed** (same number of players, every player keeps at
    least one action), whatever the call and its arguments — valid, malformed or refused. -/
theorem step_WF (g : Game α) (nums : List Nat) (op : Op α) (hg : g.WF nums)
    (hN : 0 < nums.length) (hpos : prod nums ≠ 0) :
    ∃ nums', (step g op).1.WF nums' ∧ nums'.length = nums.length ∧ prod nums' ≠ 0 := by
  by_cases hk : op.keeps = true
  · rw [keeping_ops_keep_state g nums op hg hN hpos hk]; exact ⟨nums, hg, rfl, hpos⟩
  cases op with
  | set prof vals =>
    refine ⟨nums, ?_, rfl, hpos⟩
    simp only [step]
    repeat' split
    all_goals first | exact hg | exact setItem_WF g nums _ _ hg
  | del pidx action =>
    simp only [step]
    have hgN : g.N = nums.length := hg.len
    split
    · exact ⟨nums, hg, rfl, hpos⟩
    · rename_i ax hax
      split
      · exact ⟨nums, hg, rfl, hpos⟩
      · rename_i a hnorm
        have hpid : 0 ≤ (if -(g.N : Int) ≤ pidx ∧ pidx < 0 then pidx + g.N else pidx) ∨
            (if -(g.N : Int) ≤ pidx ∧ pidx < 0 then pidx + g.N else pidx) < -(g.N : Int) := by
          split <;> omega
        rcases hpid with hpid | hpid
        · obtain ⟨e, haxN⟩ := normAxis_some _ _ _ hax hpid
          rw [hgN] at haxN
          have hs0 : (g.player 0).shape = nums := by rw [hg.shape 0 hN, rotL_zero]
          have ha := normIdx_some _ _ _ hnorm
          rw [hs0] at ha
          rw [e]
          by_cases h2 : 2 ≤ nums.getD ax 0
          · obtain ⟨g', hd, hwf, _⟩ := delete_action_views g nums ax a hg haxN ha h2 hpos
            rw [hd]
            exact ⟨_, hwf, by simp, prod_set_ne_zero nums ax _ hpos (by omega)⟩
          · rw [deleteAction_last g nums ax a hg haxN (by omega) (by omega)]
            exact ⟨nums, hg, rfl, hpos⟩
        · exfalso
          unfold Game.normAxis at hax
          rw [if_neg (by omega), if_neg (by omega)] at hax
          simp at hax
  | poke i idx v =>
    simp only [step]
    split
    · exact ⟨nums, pokeItem_WF g nums i idx v hg, rfl, hpos⟩
    · exact ⟨nums, hg, rfl, hpos⟩
  | delm pidx actions =>
    simp only [step]
    repeat' split
    all_goals first
      | exact ⟨nums, hg, rfl, hpos⟩
      | (rename_i g' hd; exact deleteActions_WF g nums _ _ g' hg hN hd)
  | _ => simp [Op.keeps] at hk

/-- **Every history keeps the game well formed**: after any sequence of calls (any length), the
    current game is well formed with the same number of players (induction on the history). -/
theorem run_WF : ∀ (ops : List (Op α)) (g : Game α) (nums : List Nat), g.WF nums → 0 < nums.length →
    prod nums ≠ 0 → ∀ og ∈ run g ops, ∃ nums', og.2.WF nums' ∧ nums'.length = nums.length ∧ prod nums' ≠ 0
  | [], _, _, _, _, _, og, h => by simp [run] at h
  | op :: ops, g, nums, hg, hN, hpos, og, h => by
    obtain ⟨nums', hwf, hl, hp⟩ := step_WF g nums op hg hN hpos
    simp only [run, List.mem_cons] at h
    rcases h with rfl | h
    · exact ⟨nums', hwf, hl, hp⟩
    · obtain ⟨n2, h1, h2, h3⟩ := run_WF ops _ nums' hwf (by omega) hp og h
      exact ⟨n2, h1, by omega, h3⟩

/-- **No observing or reconstructing call sequence changes the stored payoffs**: if a history
    contains no `__setitem__` and no `delete_action`, the game after every call of it is the
    game it started with (induction on the history). -/
theorem run_keeps_state : ∀ (ops : List (Op α)) (g : Game α) (nums : List Nat), g.WF nums →
    0 < nums.length → prod nums ≠ 0 → (∀ op ∈ ops, op.keeps = true) → ∀ og ∈ run g ops, og.2 = g
  | [], _, _, _, _, _, _, og, h => by simp [run] at h
  | op :: ops, g, nums, hg, hN, hpos, hall, og, h => by
    have hs := keeping_ops_keep_state g nums op hg hN hpos (hall op List.mem_cons_self)
    simp only [run, List.mem_cons] at h
    rcases h with rfl | h
    · exact hs
    · rw [hs] at h
      exact run_keeps_state ops g nums hg hN hpos (fun o ho => hall o (List.mem_cons_of_mem _ ho)) og h

example : (run exGame [Op.gam, Op.reprof, Op.pv 0 [Act.mixed [1, 2, 3]], Op.logit, Op.get [1, -1]]).map (·.2)
    = [exGame, exGame, exGame, exGame, exGame] := by decide
example : exGame.WF [2, 3] ∧ 0 < [2, 3].length ∧ prod [2, 3] ≠ 0 := ⟨exGame_WF, by decide, by decide⟩

end hist

/-! ## The calls of the state machine on valid arguments are the core functions -/

section ops
variable [Add α] [Sub α] [Mul α] [LT α] [LE α] [DecidableLT α] [DecidableLE α]

theorem normIdx_ofNat (n a : Nat) (h : a < n) : normIdx n (a : Int) = some a := by
  unfold normIdx
  rw [if_pos (by omega)]
  simp

/-- a negative index counts from the end, as in NumPy -/
theorem normIdx_neg (n a : Nat) (h : a < n) : normIdx n ((a : Int) - n) = some a := by
  unfold normIdx
  rw [if_neg (by omega), if_pos (by omega)]
  congr 1
  omega

theorem normIdxs_ofNat : ∀ (s idx : List Nat), inBounds s idx = true →
    normIdxs s (idx.map Int.ofNat) = some idx
  | [], [], _ => rfl
  | [], _ :: _, h => by simp [inBounds] at h
  | _ :: _, [], h => by simp [inBounds] at h
  | n :: s, a :: r, h => by
    simp only [inBounds, Bool.and_eq_true, decide_eq_true_eq] at h
    rw [List.map_cons]
    unfold normIdxs
    rw [show Int.ofNat a = (a : Int) from rfl, normIdx_ofNat n a h.1, normIdxs_ofNat s r h.2]
    rfl

/-- `g[profile]` on an in-bounds profile of a game with at least two players -/
theorem step_get (g : Game α) (nums prof : List Nat) (hg : g.WF nums) (hN : 2 ≤ nums.length)
    (hp : inBounds nums prof = true) :
    step g (.get (prof.map Int.ofNat)) = (g, .vals (g.getItem prof)) := by
  have hgN : g.N = nums.length := hg.len
  have hs0 : (g.player 0).shape = nums := by rw [hg.shape 0 (by omega), rotL_zero]
  have hl := inBounds_length _ _ hp
  simp only [step]
  rw [if_neg (by omega), if_neg (by simp; omega), hs0, normIdxs_ofNat nums prof hp]

/-- `g[profile] = vals` on an in-bounds profile with one value per player -/
theorem step_set (g : Game α) (nums prof : List Nat) (vals : List α) (hg : g.WF nums)
    (hN : 2 ≤ nums.length) (hp : inBounds nums prof = true) (hv : vals.length = nums.length) :
    step g (.set (prof.map Int.ofNat) vals) = (g.setItem prof vals, .none) := by
  have hgN : g.N = nums.length := hg.len
  have hs0 : (g.player 0).shape = nums := by rw [hg.shape 0 (by omega), rotL_zero]
  have hl := inBounds_length _ _ hp
  simp only [step]
  rw [if_neg (by omega), if_neg (by simp; omega), if_neg (by simp; omega), hs0,
    normIdxs_ofNat nums prof hp]

omit [Add α] [Sub α] [Mul α] [LT α] [LE α] [DecidableLT α] [DecidableLE α] in
/-- `g[profile]` after `g[profile] = vals` is `vals`, as lists -/
theorem getItem_setItem (g : Game α) (nums prof : List Nat) (vals : List α) (hg : g.WF nums)
    (hp : inBounds nums prof = true) (hv : vals.length = nums.length) :
    (g.setItem prof vals).getItem prof = vals := by
  have hgN : g.N = nums.length := hg.len
  apply List.ext_getElem
  · simp [Game.getItem, setItem_N, hgN, hv]
  · intro i h1 h2
    have hi : i < nums.length := by omega
    have := set_get g nums prof vals i hg hp hi
    rw [List.getD_eq_getElem?_getD, List.getElem?_eq_getElem h1,
      List.getD_eq_getElem?_getD, List.getElem?_eq_getElem h2] at this
    simpa using this

/-- **history form of set/get**: the calls `g[p] = vals; g[p]` return `vals` and leave the game
    `setItem g p vals` -/
theorem run_set_get (g : Game α) (nums prof : List Nat) (vals : List α) (hg : g.WF nums)
    (hN : 2 ≤ nums.length) (hp : inBounds nums prof = true) (hv : vals.length = nums.length) :
    run g [.set (prof.map Int.ofNat) vals, .get (prof.map Int.ofNat)] =
      [(.none, g.setItem prof vals), (.vals vals, g.setItem prof vals)] := by
  simp only [run, step_set g nums prof vals hg hN hp hv,
    step_get _ nums prof (setItem_WF g nums prof vals hg) hN hp,
    getItem_setItem g nums prof vals hg hp hv]

end ops

/-! ## Histories, composed: a write persists through any sequence of non-writing calls -/

section persist
variable [Add α] [Sub α] [Mul α] [LT α] [LE α] [DecidableLT α] [DecidableLE α]

/-- the current game after a history -/
def exec (g : Game α) (ops : List (Op α)) : Game α := ops.foldl (fun g op => (step g op).1) g

theorem run_append : ∀ (a b : List (Op α)) (g : Game α),
    run g (a ++ b) = run g a ++ run (exec g a) b
  | [], _, _ => rfl
  | op :: a, b, g => by
    simp only [List.cons_append, run, exec, List.foldl_cons]
    rw [run_append a b (step g op).1]
    rfl

theorem exec_keeps : ∀ (ops : List (Op α)) (g : Game α) (nums : List Nat), g.WF nums →
    0 < nums.length → prod nums ≠ 0 → (∀ op ∈ ops, op.keeps = true) → exec g ops = g
  | [], _, _, _, _, _, _ => rfl
  | op :: ops, g, nums, hg, hN, hpos, hall => by
    simp only [exec, List.foldl_cons]
    rw [keeping_ops_keep_state g nums op hg hN hpos (hall op List.mem_cons_self)]
    exact exec_keeps ops g nums hg hN hpos (fun o ho => hall o (List.mem_cons_of_mem _ ho))

/-- **A written payoff profile persists.** After `g[p] = vals`, any sequence (of any length) of
    calls other than `__setitem__`/`delete_action` — reads, payoff vectors, best responses, Nash and
    domination tests, profile-array / Players / GAM reconstructions, dynamics objects — and then
    `g[p]`: the last call returns `vals` and the game is still `setItem g p vals`. -/
theorem set_persists (g : Game α) (nums prof : List Nat) (vals : List α) (ops : List (Op α))
    (hg : g.WF nums) (hN : 2 ≤ nums.length) (hpos : prod nums ≠ 0) (hp : inBounds nums prof = true)
    (hv : vals.length = nums.length) (hall : ∀ op ∈ ops, op.keeps = true) :
    (run g (.set (prof.map Int.ofNat) vals :: (ops ++ [.get (prof.map Int.ofNat)]))).getLast? =
      some (.vals vals, g.setItem prof vals) := by
  have hwf := setItem_WF g nums prof vals hg
  simp only [run, step_set g nums prof vals hg hN hp hv]
  rw [run_append, exec_keeps ops _ nums hwf (by omega) hpos hall]
  simp only [run, step_get _ nums prof hwf hN hp, getItem_setItem g nums prof vals hg hp hv]
  rw [List.getLast?_cons, List.getLast?_append]
  rfl

end persist

/-! ## T1 is_nash on pure profiles, in terms of the game's own entries -/

theorem rotL_cons {β : Type} (i : Nat) (l : List β) (d : β) (hi : i < l.length) :
    rotL i l = l.getD i d :: (l.drop (i + 1) ++ l.take i) := by
  unfold rotL
  rw [List.drop_eq_getElem_cons hi, List.getD_eq_getElem?_getD, List.getElem?_eq_getElem hi]
  rfl

theorem rotL_map {β γ : Type} (f : β → γ) (i : Nat) (l : List β) : rotL i (l.map f) = (rotL i l).map f := by
  simp [rotL, List.map_drop, List.map_take]

theorem oppsOf_eq {β : Type} (prof : List β) (i : Nat) (hi : i < prof.length) :
    Game.oppsOf prof.length i prof = prof.drop (i + 1) ++ prof.take i := by
  by_cases h2 : prof.length = 2
  · rw [h2]; exact oppsOf_two prof i h2 (by omega)
  · simp [Game.oppsOf, h2]

section
variable {α : Type} [Zero α] [Add α] [Mul α]

theorem payoffVector_size (A : Arr α) (os : List (Act α)) (h : A.data.length = prod A.shape) :
    (payoffVector A os).data.length = prod (payoffVector A os).shape := by
  cases os with
  | nil => exact h
  | cons σ os =>
    show (reduceLast (payoffVector A os) σ).data.length = prod (reduceLast (payoffVector A os) σ).shape
    cases σ <;> exact tab_size _ _

/-- the payoff vector as a list: length `n0`, entry `b` the expectation -/
theorem payoffVector_data (A : Arr α) (n0 : Nat) (s : List Nat) (os : List (Act α))
    (hs : A.shape = n0 :: s) (hok : actsOk s os) (hsz : A.data.length = prod A.shape) :
    (payoffVector A os).data.length = n0 ∧
    ∀ b, b < n0 → (payoffVector A os).data.getD b 0 = expect s os (fun r => A.get (b :: r)) := by
  have hsize := payoffVector_size A os hsz
  have hshape := (payoffVectorC_ok os s [n0] A (by simpa using hs) hok).2
  constructor
  · rw [hsize, hshape]; simp [prod]
  · intro b hb
    rw [← (payoff_vector_is_expectation A n0 s os b hs hok hb).2]
    unfold Arr.get
    rw [hshape]
    simp [flatIndex, prod]
end

section
variable {K : Type} [Field K] [LinearOrder K] [IsStrictOrderedRing K]

/-- **is_nash on pure profiles is the textbook definition.** For a well-formed game and an
    in-bounds pure profile `acts`, `is_nash(acts, tol)` is true exactly when no player `i` gains more
    than `tol` by switching to any own action `b`: `u_i(acts[i ↦ b]) − tol ≤ u_i(acts)`, where
    `u_i(q)` is the `i`-th entry of `g[q]` (all `N`, including the code's special cases `N = 1, 2`). -/
theorem is_nash_pure_is_definition (g : Game K) (nums acts : List Nat) (tol : K) (hg : g.WF nums)
    (hp : inBounds nums acts = true) :
    g.isNash (acts.map Act.pure) tol = true ↔
      ∀ i, i < nums.length → ∀ b, b < nums.getD i 0 →
        (g.getItem (acts.set i b)).getD i 0 - tol ≤ (g.getItem acts).getD i 0 := by
  have hgN : g.N = nums.length := hg.len
  have hl := inBounds_length _ _ hp
  -- facts about one player
  have hplayer : ∀ i, i < nums.length →
      (payoffVector (g.player i) (Game.oppsOf g.N i (acts.map Act.pure))).data.length = nums.getD i 0 ∧
      (∀ b, b < nums.getD i 0 →
        (payoffVector (g.player i) (Game.oppsOf g.N i (acts.map Act.pure))).data.getD b 0
          = (g.getItem (acts.set i b)).getD i 0) ∧
      (g.getItem acts).getD i 0 = (g.player i).get (acts.getD i 0 :: (acts.drop (i + 1) ++ acts.take i)) ∧
      acts.getD i 0 < nums.getD i 0 := by
    intro i hi
    have hai : acts.getD i 0 < nums.getD i 0 := ((inBounds_iff _ _).mp hp).2 i hi
    have hshape : (g.player i).shape = nums.getD i 0 :: (nums.drop (i + 1) ++ nums.take i) := by
      rw [hg.shape i hi]; exact rotL_cons i nums 0 hi
    have hrb : ∀ b, b < nums.getD i 0 →
        inBounds (nums.getD i 0 :: (nums.drop (i + 1) ++ nums.take i))
          (b :: (acts.drop (i + 1) ++ acts.take i)) = true := by
      intro b hb
      have h1 := inBounds_rotL i nums acts (by omega) hp
      rw [rotL_cons i nums 0 hi, rotL_cons i acts 0 (by omega)] at h1
      simp only [inBounds, Bool.and_eq_true, decide_eq_true_eq] at h1 ⊢
      exact ⟨hb, h1.2⟩
    have hr : inBounds (nums.drop (i + 1) ++ nums.take i) (acts.drop (i + 1) ++ acts.take i) = true := by
      have := hrb _ hai
      simp only [inBounds, Bool.and_eq_true] at this
      exact this.2
    have hopp : Game.oppsOf g.N i (acts.map Act.pure)
        = (acts.drop (i + 1) ++ acts.take i).map (Act.pure (α := K)) := by
      have := oppsOf_eq (acts.map (Act.pure (α := K))) i (by simp; omega)
      rw [List.length_map, hl, ← hgN] at this
      rw [this]; simp [List.map_drop, List.map_take]
    have hdata := payoffVector_data (g.player i) (nums.getD i 0) _ _ hshape
      (actsOk_pure (α := K) _ _ hr) (hg.size i hi)
    rw [← hopp] at hdata
    have hset : ∀ b, rotL i (acts.set i b) = b :: (acts.drop (i + 1) ++ acts.take i) := by
      intro b
      rw [rotL_cons i _ 0 (by simp; omega), getD_set acts i i b 0 (by omega), if_pos rfl,
        List.drop_set_of_lt (by omega), List.take_set_of_le (by omega)]
    refine ⟨hdata.1, ?_, ?_, hai⟩
    · intro b hb
      rw [hdata.2 b hb, hopp, expect_pure _ _ _ (inBounds_length _ _ hr),
        getItem_getD _ _ _ (by omega), hset b]
    · rw [getItem_getD _ _ _ (by omega), rotL_cons i acts 0 (by omega)]
  rw [is_nash_spec g _ tol (by
    intro i hi
    have := (hplayer i (by omega)).1
    have hpos := (hplayer i (by omega)).2.2.2
    intro e
    rw [e, List.length_nil] at this
    omega)]
  rw [hgN] at hplayer ⊢
  constructor
  · intro h i hi b hb
    obtain ⟨h1, h2, h3, h4⟩ := hplayer i hi
    have := h i hi b (by rw [h1]; exact hb)
    rw [h2 b hb] at this
    have hown : (acts.map (Act.pure (α := K)))[i]? = some (Act.pure (acts.getD i 0)) := by
      rw [List.getElem?_map, List.getD_eq_getElem?_getD, List.getElem?_eq_getElem (by omega)]
      rfl
    rw [hown] at this
    simp only [ownValue] at this
    rw [h2 _ h4] at this
    have e : acts.set i (acts.getD i 0) = acts := by
      rw [List.getD_eq_getElem?_getD, List.getElem?_eq_getElem (by omega)]
      simp
    rwa [e] at this
  · intro h i hi b hb
    obtain ⟨h1, h2, h3, h4⟩ := hplayer i hi
    rw [h1] at hb
    have := h i hi b hb
    have hown : (acts.map (Act.pure (α := K)))[i]? = some (Act.pure (acts.getD i 0)) := by
      rw [List.getElem?_map, List.getD_eq_getElem?_getD, List.getElem?_eq_getElem (by omega)]
      rfl
    rw [hown]
    simp only [ownValue]
    rw [h2 b hb, h2 _ h4]
    have e : acts.set i (acts.getD i 0) = acts := by
      rw [List.getD_eq_getElem?_getD, List.getElem?_eq_getElem (by omega)]
      simp
    rwa [e]
end


example : exGame.isNash ([1, 2].map Act.pure) 0 = true ∧ exGame.isNash ([0, 2].map Act.pure) 0 = false := by
  decide

/-! ## T2 polymatrix → normal form -/

section poly
variable [Add α]

theorem ofPolymatrix_player (nums : List Nat) (pm : Nat → Nat → List α) (i : Nat) (hi : i < nums.length) :
    (ofPolymatrix nums pm).player i = polyPlayer nums pm i := by
  simp [ofPolymatrix, Game.player, List.getD_eq_getElem?_getD, List.getElem?_map, List.getElem?_range hi]

/-- `PolymatrixGame.to_nfg` builds a well-formed game -/
theorem ofPolymatrix_WF (nums : List Nat) (pm : Nat → Nat → List α) : (ofPolymatrix nums pm).WF nums := by
  refine ⟨by simp [ofPolymatrix], ?_, ?_⟩
  · intro i hi; rw [ofPolymatrix_player nums pm i hi]; rfl
  · intro i hi; rw [ofPolymatrix_player nums pm i hi]; exact tab_size _ _

/-- **polymatrix views.** In the normal-form game built from a polymatrix, player `i`'s payoff at
    a profile is the sum, over the other players `o = i+1, …, i-1` (cyclically, in this order of
    addition), of the head-to-head entry `polymatrix[(i, o)][profile[i], profile[o]]`. -/
theorem polymatrix_views (nums : List Nat) (pm : Nat → Nat → List α) (prof : List Nat) (i : Nat)
    (hp : inBounds nums prof = true) (hi : i < nums.length) :
    ((ofPolymatrix nums pm).getItem prof).getD i 0 =
      (List.range (nums.length - 1)).foldl (fun acc j =>
        acc + (pm i ((i + 1 + j) % nums.length)).getD
          (prof.getD i 0 * nums.getD ((i + 1 + j) % nums.length) 0
            + prof.getD ((i + 1 + j) % nums.length) 0) 0) 0 := by
  have hl := inBounds_length _ _ hp
  rw [getItem_getD _ _ _ (by simpa [ofPolymatrix, Game.N] using hi), ofPolymatrix_player nums pm i hi]
  unfold polyPlayer
  rw [get_tab _ _ _ (inBounds_rotL i nums prof (by omega) hp)]
  apply foldl_congr_range
  intro acc j hj
  have e0 : (rotL i prof).getD 0 0 = prof.getD i 0 := by
    rw [getD_rotL i prof 0 0 (by omega) (by omega), Nat.add_zero, hl, Nat.mod_eq_of_lt hi]
  have e1 : (rotL i prof).getD (j + 1) 0 = prof.getD ((i + 1 + j) % nums.length) 0 := by
    rw [getD_rotL i prof 0 (j + 1) (by omega) (by omega), hl]
    congr 2; omega
  have e2 : ((rotL (i + 1) (List.range nums.length)).take (nums.length - 1)).getD j 0
      = (i + 1 + j) % nums.length := by
    rw [List.getD_eq_getElem?_getD, List.getElem?_take, if_pos hj, ← List.getD_eq_getElem?_getD,
      getD_rotL (i + 1) _ 0 j (by simp; omega) (by simp; omega)]
    simp only [List.length_range]
    rw [List.getD_eq_getElem?_getD, List.getElem?_range (Nat.mod_lt _ (by omega))]
    rfl
  simp only [e0, e1, e2]

example : ((ofPolymatrix [2, 2, 2] (fun i j => [100 * i + 10 * j, 100 * i + 10 * j + 1,
    100 * i + 10 * j + 2, 100 * i + 10 * j + 3] : Nat → Nat → List Int)).getItem [1, 0, 1]) =
    [12 + 23, 121 + 101, 203 + 212] := by decide

end poly

/-! ## T2 mixed-strategy domination through a checked certificate -/

section cert
variable {K : Type} [Field K] [LinearOrder K] [IsStrictOrderedRing K]
open Finset

/-- **Certificate of the domination value.** If `domCertOk A a x y v` accepts (and `y` is a
    probability vector over the opponent profiles), then `v` is the value of the zero-sum game
    "`A[b, ·] − A[a, ·]` over the own actions `b ≠ a`": the mix `x` beats `a` by at least `v`
    against every opponent profile, and no mix `x'` beats `a` by more than `v` against every
    profile. Hence "`a` is strictly dominated by a mixed action with margin `tol`" holds exactly
    when `tol < v`, which is what the `domcert` call of the state machine answers. -/
theorem dom_cert_value (A : Arr K) (a : Nat) (x y : List K) (v : K)
    (hc : domCertOk A a x y v = true) (hy0 : ∀ k, 0 ≤ y.getD k 0)
    (hy1 : ∑ k ∈ range (allIdx A.shape.tail).length, y.getD k 0 = 1) :
    (∀ r, inBounds A.shape.tail r = true →
      v ≤ ∑ k ∈ range ((List.range (A.shape.headD 0)).filter (· != a)).length,
        x.getD k 0 * (A.get (((List.range (A.shape.headD 0)).filter (· != a)).getD k 0 :: r) - A.get (a :: r))) ∧
    (∀ x' : Nat → K, (∀ k, 0 ≤ x' k) →
      ∑ k ∈ range ((List.range (A.shape.headD 0)).filter (· != a)).length, x' k = 1 →
      ∃ r, inBounds A.shape.tail r = true ∧
        ∑ k ∈ range ((List.range (A.shape.headD 0)).filter (· != a)).length,
          x' k * (A.get (((List.range (A.shape.headD 0)).filter (· != a)).getD k 0 :: r) - A.get (a :: r)) ≤ v) := by
  unfold domCertOk at hc
  simp only [Bool.and_eq_true, List.all_eq_true, decide_eq_true_eq, foldl_eq_finset_sum] at hc
  obtain ⟨h1, h2⟩ := hc
  constructor
  · intro r hr
    exact h1 r (List.mem_of_getElem? (allIdx_flatIndex _ _ hr))
  · intro x' hx0 hx1
    obtain ⟨j, hj, hle⟩ := weak_duality _ (allIdx A.shape.tail).length
      (fun k j => A.get (((List.range (A.shape.headD 0)).filter (· != a)).getD k 0 :: (allIdx A.shape.tail).getD j [])
        - A.get (a :: (allIdx A.shape.tail).getD j []))
      (fun k => y.getD k 0) x' v (fun j _ => hy0 j) hy1
      (by
        intro i hi
        have hm : ((List.range (A.shape.headD 0)).filter (· != a)).getD i 0 ∈
            (List.range (A.shape.headD 0)).filter (· != a) := by
          rw [List.getD_eq_getElem?_getD, List.getElem?_eq_getElem hi]
          exact List.getElem_mem hi
        exact h2 _ hm)
      (fun k _ => hx0 k) hx1
    refine ⟨(allIdx A.shape.tail).getD j [], ?_, hle⟩
    apply mem_allIdx_inBounds
    rw [List.getD_eq_getElem?_getD, List.getElem?_eq_getElem hj]
    exact List.getElem_mem hj

example : domCertOk (⟨[3, 2], [0, 0, 3, -1, -1, 3]⟩ : Arr ℚ) 0 [1/2, 1/2] [1/2, 1/2] 1 = true := by
  decide +kernel

end cert

/-! ## Tolerance arguments: only an omitted tolerance takes the default -/

/-- an explicit tolerance — `0` included — is used as given (`if tol is None: tol = self.tol`) -/
theorem resolveTol_explicit (t : Rat) : resolveTol (some t) = t := rfl

/-- an omitted tolerance is `Player.tol`, the double `1e-8`, which is positive -/
theorem resolveTol_default : resolveTol none = playerTol ∧ 0 < playerTol := ⟨rfl, by decide +kernel⟩

example : resolveTol (some 0) = 0 ∧ resolveTol (some 0) ≠ resolveTol none := by decide +kernel

/-! ## T1 best_response: never empty, and 'smallest' is the least best response -/

section brsmall
variable {K : Type} [Field K] [LinearOrder K] [IsStrictOrderedRing K]

omit [IsStrictOrderedRing K] in
/-- `np.where(...)[0]` lists the best responses in increasing order -/
theorem best_responses_increasing (v : List K) (tol : K) :
    (bestResponses v tol).Pairwise (· < ·) := by
  unfold bestResponses
  exact List.Pairwise.filter _ List.pairwise_lt_range

/-- **best_response never comes back empty-handed**: for a non-empty payoff vector and `tol ≥ 0`
    the set of best responses is non-empty (a maximiser is in it). -/
theorem best_responses_nonempty (v : List K) (tol : K) (hv : v ≠ []) (htol : 0 ≤ tol) :
    bestResponses v tol ≠ [] := by
  obtain ⟨hm, _⟩ := maxList_spec v hv
  obtain ⟨b, hb, e⟩ := List.mem_iff_getElem.mp hm
  have : b ∈ bestResponses v tol := by
    rw [best_response_spec]
    refine ⟨hb, ?_⟩
    intro c hc
    have h1 := (maxList_spec v hv).2 _ (getD_mem v c hc)
    have h2 : v.getD b 0 = maxList v := by
      rw [List.getD_eq_getElem?_getD, List.getElem?_eq_getElem hb]; exact e
    rw [h2]; linarith
  intro h; rw [h] at this; simp at this

/-- **tie_breaking='smallest'** (the first element of the list of best responses) is the least
    index among the actions whose payoff is within `tol` of every action's payoff — not merely a
    maximiser. -/
theorem best_response_smallest (v : List K) (tol : K) (a : Nat) :
    (bestResponses v tol).head? = some a ↔
      (a < v.length ∧ ∀ b, b < v.length → v.getD b 0 - tol ≤ v.getD a 0) ∧
      ∀ c, (c < v.length ∧ ∀ b, b < v.length → v.getD b 0 - tol ≤ v.getD c 0) → a ≤ c := by
  have hs := best_responses_increasing v tol
  constructor
  · intro h
    have hmem : a ∈ bestResponses v tol := List.mem_of_mem_head? h
    refine ⟨(best_response_spec v tol a).mp hmem, ?_⟩
    intro c hc
    have hcm : c ∈ bestResponses v tol := (best_response_spec v tol c).mpr hc
    cases hl : bestResponses v tol with
    | nil => rw [hl] at hmem; simp at hmem
    | cons x xs =>
      rw [hl] at h hcm hs
      simp only [List.head?_cons, Option.some.injEq] at h
      subst h
      rcases List.mem_cons.mp hcm with rfl | hc'
      · exact le_refl _
      · exact le_of_lt ((List.pairwise_cons.mp hs).1 c hc')
  · rintro ⟨ha, hmin⟩
    have hmem : a ∈ bestResponses v tol := (best_response_spec v tol a).mpr ha
    cases hl : bestResponses v tol with
    | nil => rw [hl] at hmem; simp at hmem
    | cons x xs =>
      rw [hl] at hmem hs
      simp only [List.head?_cons, Option.some.injEq]
      have hx : x ∈ bestResponses v tol := by rw [hl]; exact List.mem_cons_self
      have h1 := hmin x ((best_response_spec v tol x).mp hx)
      rcases List.mem_cons.mp hmem with rfl | ha'
      · rfl
      · have := (List.pairwise_cons.mp hs).1 a ha'
        omega

example : (bestResponses ([3, 5, 4, 5] : List ℚ) 1).head? = some 1 := by decide +kernel

end brsmall

/-! ## T1 is_nash is its definition (pure and mixed profiles, every N) -/

section nashdef
variable {K : Type} [Field K] [LinearOrder K] [IsStrictOrderedRing K]

/-- player `i`'s expected payoff from the pure own action `b` when the others play their parts
    of `prof` (pure or mixed, independently): the iterated expectation over the opponents in
    `i`'s cyclic order `i+1, …, N-1, 0, …, i-1` of `players[i].payoff_array[b, ·]` -/
def expPayoff (g : Game K) (nums : List Nat) (prof : List (Act K)) (i b : Nat) : K :=
  expect (nums.drop (i + 1) ++ nums.take i) (prof.drop (i + 1) ++ prof.take i)
    (fun r => (g.player i).get (b :: r))

/-- value of player `i`'s own part of the profile: the expected payoff of the pure action, or
    the mixture `Σ_c x_c · U_i(c)` (summed in the order of `np.dot`) -/
def ownExpPayoff (g : Game K) (nums : List Nat) (prof : List (Act K)) (i : Nat) : K :=
  match prof[i]? with
  | some (.pure a) => expPayoff g nums prof i a
  | some (.mixed x) =>
    (List.range (nums.getD i 0)).foldl (fun acc c => acc + x.getD c 0 * expPayoff g nums prof i c) 0
  | none => 0

/-- **is_nash is its definition, for pure and mixed profiles and every number of players.**
    On a well-formed game whose players all have at least one action, for a profile whose every
    part fits (pure actions in range, mixed actions of the right length): `is_nash(prof, tol)` is
    true exactly when, for every player `i` and every own pure action `b`, the expected payoff of
    `b` against the others' parts exceeds the expected payoff of `i`'s own part by at most `tol`. -/
theorem is_nash_is_definition (g : Game K) (nums : List Nat) (prof : List (Act K)) (tol : K)
    (hg : g.WF nums) (hpos : prod nums ≠ 0) (hlen : prof.length = nums.length)
    (hopp : ∀ i, i < nums.length →
      actsOk (nums.drop (i + 1) ++ nums.take i) (prof.drop (i + 1) ++ prof.take i))
    (hown : ∀ i a, i < nums.length → prof[i]? = some (.pure a) → a < nums.getD i 0) :
    g.isNash prof tol = true ↔
      ∀ i, i < nums.length → ∀ b, b < nums.getD i 0 →
        expPayoff g nums prof i b - tol ≤ ownExpPayoff g nums prof i := by
  have hgN : g.N = nums.length := hg.len
  have hdata : ∀ i, i < nums.length →
      (payoffVector (g.player i) (Game.oppsOf g.N i prof)).data.length = nums.getD i 0 ∧
      ∀ b, b < nums.getD i 0 →
        (payoffVector (g.player i) (Game.oppsOf g.N i prof)).data.getD b 0 = expPayoff g nums prof i b := by
    intro i hi
    have hshape : (g.player i).shape = nums.getD i 0 :: (nums.drop (i + 1) ++ nums.take i) := by
      rw [hg.shape i hi]; exact rotL_cons i nums 0 hi
    have ho : Game.oppsOf g.N i prof = prof.drop (i + 1) ++ prof.take i := by
      have := oppsOf_eq prof i (by omega)
      rwa [hlen, ← hgN] at this
    rw [ho]
    exact payoffVector_data (g.player i) _ _ _ hshape (hopp i hi) (hg.size i hi)
  have hnpos : ∀ i, i < nums.length → 0 < nums.getD i 0 := by
    intro i hi
    have hm : nums.getD i 0 ∈ nums := by
      rw [List.getD_eq_getElem?_getD, List.getElem?_eq_getElem hi]; exact List.getElem_mem hi
    have := (prod_ne_zero_iff nums).mp hpos _ hm
    omega
  have hown' : ∀ i, i < nums.length →
      ownValue (payoffVector (g.player i) (Game.oppsOf g.N i prof)).data
        (match prof[i]? with | some a => a | none => .pure 0) = ownExpPayoff g nums prof i := by
    intro i hi
    obtain ⟨h1, h2⟩ := hdata i hi
    have hsome : ∃ a, prof[i]? = some a := ⟨prof[i]'(by omega), List.getElem?_eq_getElem (by omega)⟩
    obtain ⟨a, ha⟩ := hsome
    unfold ownExpPayoff
    rw [ha]
    cases a with
    | pure a =>
      simp only [ownValue]
      exact h2 a (hown i a hi ha)
    | mixed x =>
      simp only [ownValue, dot]
      rw [h1]
      apply foldl_congr_range
      intro acc c hc
      rw [h2 c hc]
  rw [is_nash_spec g prof tol (by
    intro i hi e
    have := (hdata i (by omega)).1
    rw [e, List.length_nil] at this
    have := hnpos i (by omega)
    omega)]
  rw [hgN] at hdata hown' ⊢
  constructor
  · intro h i hi b hb
    have := h i hi b (by rw [(hdata i hi).1]; exact hb)
    rw [(hdata i hi).2 b hb] at this
    exact le_of_le_of_eq this (hown' i hi)
  · intro h i hi b hb
    rw [(hdata i hi).1] at hb
    rw [(hdata i hi).2 b hb]
    exact le_of_le_of_eq (h i hi b hb) (hown' i hi).symm

/-- matching pennies (over ℚ for the hypotheses, over ℤ with weights `[1, 1]` for evaluation by the kernel) -/
def mpGame : Game ℚ := ⟨[⟨[2, 2], [1, -1, -1, 1]⟩, ⟨[2, 2], [-1, 1, 1, -1]⟩]⟩
def mpGameZ : Game Int := ⟨[⟨[2, 2], [1, -1, -1, 1]⟩, ⟨[2, 2], [-1, 1, 1, -1]⟩]⟩

example : mpGameZ.isNash [.mixed [1, 1], .mixed [1, 1]] 0 = true ∧
    mpGameZ.isNash [.pure 0, .mixed [1, 1]] 0 = false ∧
    mpGameZ.isNash [.pure 0, .pure 0] 0 = false := by decide
/-- the hypotheses of `is_nash_is_definition` hold for the uniform mixed profile of matching pennies -/
example : mpGame.WF [2, 2] ∧ prod [2, 2] ≠ 0 ∧
    (∀ i, i < [2, 2].length → actsOk (α := ℚ) ([2, 2].drop (i + 1) ++ [2, 2].take i)
      ([Act.mixed [1/2, 1/2], Act.mixed [1/2, 1/2]].drop (i + 1) ++ [Act.mixed [1/2, 1/2], Act.mixed [1/2, 1/2]].take i)) := by
  refine ⟨⟨rfl, by decide, by decide⟩, by decide, ?_⟩
  intro i hi
  have : i = 0 ∨ i = 1 := by simp at hi; omega
  rcases this with rfl | rfl <;> exact ⟨rfl, trivial⟩

end nashdef

/-! ## T1 delete_action with a list of actions: the surviving cells, in every player's array -/


/-- the actions of an axis of size `n` that survive the deletion of the set `as`, in order -/
def survivors (n : Nat) (as : List Nat) : List Nat := (List.range n).filter fun k => !as.contains k

theorem deleteMany_get (A : Arr α) (ax : Nat) (as : List Nat) (idx : List Nat)
    (hb : inBounds (A.shape.set ax (survivors (A.shape.getD ax 0) as).length) idx = true) :
    (A.deleteMany ax as).get idx =
      A.get (idx.set ax ((survivors (A.shape.getD ax 0) as).getD (idx.getD ax 0) 0)) := by
  unfold Arr.deleteMany
  exact get_tab _ _ _ hb

theorem rotL_setAt (p i : Nat) (prof : List Nat) (f : Nat → Nat) (hp : p < prof.length) (hi : i < prof.length) :
    rotL i (prof.set p (f (prof.getD p 0))) =
      (rotL i prof).set (delAxis p prof.length i) (f ((rotL i prof).getD (delAxis p prof.length i) 0)) := by
  rw [rotL_set prof p i _ hp hi]
  have : (rotL i prof).getD (delAxis p prof.length i) 0 = prof.getD p 0 := by
    rw [getD_rotL i prof 0 _ (by omega) (delAxis_lt p _ i hp hi), delAxis_mod p _ i hp hi]
  rw [this]

/-- **delete_action with a list of actions.** Deleting the set `as` of player `p`'s actions (all in
    range, at least one action surviving) succeeds, yields a well-formed game in which `p` has
    exactly the surviving actions, and in EVERY player's array exactly the cells of the surviving
    profiles remain, in order: the new game at `prof` reads the old game at `prof` with `prof[p]`
    replaced by the `prof[p]`-th surviving action. (All `N`, all `p`, duplicates in `as` allowed.) -/
theorem delete_actions_views (g : Game α) (nums : List Nat) (p : Nat) (as : List Nat) (hg : g.WF nums)
    (hp : p < nums.length) (has : ∀ a ∈ as, a < nums.getD p 0)
    (hkeep : 0 < (survivors (nums.getD p 0) as).length) (hpos : prod nums ≠ 0) :
    ∃ g', g.deleteActions (p : Int) as = .ok g' ∧
      g'.WF (nums.set p (survivors (nums.getD p 0) as).length) ∧
      ∀ prof i, inBounds (nums.set p (survivors (nums.getD p 0) as).length) prof = true → i < nums.length →
        (g'.getItem prof).getD i 0 =
          (g.getItem (prof.set p ((survivors (nums.getD p 0) as).getD (prof.getD p 0) 0))).getD i 0 := by
  have hN : g.N = nums.length := hg.len
  let K := (survivors (nums.getD p 0) as).length
  let B : Nat → Arr α := fun i => (g.player i).deleteMany (delAxis p nums.length i) as
  have hax : ∀ i, i < nums.length → (g.player i).shape.getD (delAxis p nums.length i) 0 = nums.getD p 0 := by
    intro i hi
    rw [hg.shape i hi, getD_rotL i nums 0 _ (by omega) (delAxis_lt p _ i hp hi), delAxis_mod p _ i hp hi]
  have hBshape : ∀ i, i < nums.length → (B i).shape = rotL i (nums.set p K) := by
    intro i hi
    show ((g.player i).shape.set _ (survivors ((g.player i).shape.getD _ 0) as).length) = _
    rw [hax i hi, hg.shape i hi, rotL_set nums p i _ hp hi]
  have hWF : (Game.mk ((List.range nums.length).map B)).WF (nums.set p K) := by
    refine ⟨by simp, ?_, ?_⟩
    · intro i hi
      have hi' : i < nums.length := by simpa using hi
      rw [mk_player _ i B nums.length hi' rfl]; exact hBshape i hi'
    · intro i hi
      have hi' : i < nums.length := by simpa using hi
      rw [mk_player _ i B nums.length hi' rfl]; exact tab_size _ _
  have hmap : (List.range g.N).mapM (fun (i : Nat) =>
      match Game.normAxis ((p : Int) - (i : Int)) (g.player i).shape.length with
      | none => Except.error Err.axis
      | some ax =>
        if (as.all fun a => decide (a < (g.player i).shape.getD ax 0)) = true then
          if Game.playerOk ((g.player i).deleteMany ax as) = true then Except.ok ((g.player i).deleteMany ax as)
          else Except.error Err.value
        else Except.error Err.index) = .ok ((List.range g.N).map B) := by
    apply mapM_ok
    intro i hi
    have hi' : i < nums.length := by rw [← hN]; simpa using hi
    have hl : (g.player i).shape.length = nums.length := by rw [hg.shape i hi', length_rotL]
    have hall : (as.all fun a => decide (a < nums.getD p 0)) = true := by
      rw [List.all_eq_true]; intro a ha; simpa using has a ha
    simp only [hl, normAxis_sub p nums.length i hp hi', hax i hi', hall, if_true]
    have hok : Game.playerOk ((g.player i).deleteMany (delAxis p nums.length i) as) = true := by
      have hs := hBshape i hi'
      simp only [Game.playerOk, Bool.and_eq_true, bne_iff_ne, ne_eq]
      show ¬ (B i).shape.length = 0 ∧ ¬ prod (B i).shape = 0
      rw [hs, length_rotL, prod_rotL, List.length_set]
      exact ⟨by omega, prod_set_ne_zero nums p _ hpos (by omega)⟩
    rw [if_pos hok]
  refine ⟨⟨(List.range nums.length).map B⟩, ?_, hWF, ?_⟩
  · unfold Game.deleteActions
    dsimp only
    erw [hmap]
    rw [hN]
    exact from_players_roundtrip _ _ hWF
  · intro prof i hb hi
    have hlen : prof.length = nums.length := by rw [inBounds_length _ _ hb, List.length_set]
    rw [getItem_getD _ _ _ (by simpa [Game.N] using hi), getItem_getD _ _ _ (by omega),
      mk_player _ i B nums.length hi rfl]
    show ((g.player i).deleteMany _ as).get _ = _
    rw [deleteMany_get _ _ _ _ (by
      rw [hax i hi, hg.shape i hi, ← rotL_set nums p i _ hp hi]
      exact inBounds_rotL i _ prof (by simp; omega) hb)]
    rw [hax i hi]
    have := rotL_setAt p i prof (fun k => (survivors (nums.getD p 0) as).getD k 0) (by omega) (by omega)
    rw [hlen] at this
    rw [this]

example : ∃ g', exGame.deleteActions 1 [2, 0, 2] = .ok g' ∧ g'.getItem [1, 0] = exGame.getItem [1, 1] ∧
    g'.players.map (·.shape) = [[2, 1], [1, 2]] := ⟨_, rfl, by decide, by decide⟩
example : survivors 3 [2, 0, 2] = [1] := by decide


/-! ## T1 in-place edits and writes, seen through the other views -/


/-- **An in-place edit of one player's array, seen through the game.** After the caller writes `v`
    into player `i`'s array at the cell of profile `prof` (`g.players[i].payoff_array[rot i prof] = v`),
    `g[prof'][j]` is `v` for `(prof', j) = (prof, i)` and what it was for every other profile and
    every other player. -/
theorem poke_views (g : Game α) (nums prof prof' : List Nat) (i j : Nat) (v : α) (hg : g.WF nums)
    (hp : inBounds nums prof = true) (hp' : inBounds nums prof' = true)
    (hi : i < nums.length) (hj : j < nums.length) :
    ((g.pokeItem i (rotL i prof) v).getItem prof').getD j 0 =
      if j = i ∧ prof' = prof then v else (g.getItem prof').getD j 0 := by
  have hN : g.N = nums.length := hg.len
  have hNp : (g.pokeItem i (rotL i prof) v).N = g.N := by simp [Game.pokeItem, Game.N]
  rw [getItem_getD _ _ _ (by rw [hNp]; omega), getItem_getD _ _ _ (by omega),
    pokeItem_player g i _ v j (by omega)]
  by_cases hji : j = i
  · subst hji
    rw [if_pos rfl]
    have hb : inBounds (g.player j).shape (rotL j prof) = true := by
      rw [hg.shape j hj]; exact inBounds_rotL j nums prof (by omega) hp
    have hb' : inBounds (g.player j).shape (rotL j prof') = true := by
      rw [hg.shape j hj]; exact inBounds_rotL j nums prof' (by omega) hp'
    unfold Arr.get
    simp only
    by_cases hpp : prof' = prof
    · subst hpp
      rw [if_pos (by simp)]
      have hlt := flatIndex_lt _ _ hb
      rw [← hg.size j hj] at hlt
      rw [List.getD_eq_getElem?_getD, List.getElem?_set_self hlt]
      rfl
    · rw [if_neg (fun h => hpp h.2)]
      have hl := inBounds_length _ _ hp
      have hl' := inBounds_length _ _ hp'
      have hk : flatIndex (g.player j).shape (rotL j prof) ≠ flatIndex (g.player j).shape (rotL j prof') := by
        intro h
        have := flatIndex_inj _ _ _ hb hb' h
        exact hpp (rotL_inj j prof' prof (by omega) (by omega) this.symm)
      rw [List.getD_eq_getElem?_getD, List.getElem?_set_ne hk, ← List.getD_eq_getElem?_getD]
  · rw [if_neg hji, if_neg (fun h => hji h.1)]

example : ((exGame.pokeItem 1 (rotL 1 [1, 2]) 7).getItem [1, 2]) = [12, 7] ∧
    ((exGame.pokeItem 1 (rotL 1 [1, 2]) 7).getItem [0, 2]) = exGame.getItem [0, 2] := by decide

/-- **The payoff profile array after `g[prof] = vals`**: entry `(prof', i)` is `vals[i]` at
    `prof' = prof` and unchanged everywhere else (the freshly computed `payoff_profile_array`
    shows the write and nothing but the write). -/
theorem profile_array_after_set (g : Game α) (nums prof prof' : List Nat) (vals : List α) (i : Nat)
    (hg : g.WF nums) (hp : inBounds nums prof = true) (hp' : inBounds nums prof' = true)
    (hi : i < nums.length) :
    (g.setItem prof vals).profileArray.get (prof' ++ [i]) =
      if prof' = prof then vals.getD i 0 else g.profileArray.get (prof' ++ [i]) := by
  have hwf := setItem_WF g nums prof vals hg
  rw [(views_agree _ nums prof' i hwf hp' hi).1, ← (views_agree _ nums prof' i hwf hp' hi).2]
  by_cases h : prof' = prof
  · subst h
    rw [if_pos rfl, set_get g nums prof' vals i hg hp hi]
  · rw [if_neg h, set_other_unchanged g nums prof prof' vals i hg hp hp' h hi,
      (views_agree g nums prof' i hg hp' hi).2, ← (views_agree g nums prof' i hg hp' hi).1]

example : (exGame.setItem [1, 2] [7, 8]).profileArray.get ([1, 2] ++ [1]) = 8 ∧
    (exGame.setItem [1, 2] [7, 8]).profileArray.get ([0, 2] ++ [1]) = exGame.profileArray.get ([0, 2] ++ [1]) := by
  decide


/-! ## T1 domination and best responses agree: a dominated action is never a best response -/

section dom
variable {K : Type} [Field K] [LinearOrder K] [IsStrictOrderedRing K]
open Finset

/-- every mixed action in the list is a probability vector over its axis -/
def probOk : List Nat → List (Act K) → Prop
  | n :: s, σ :: os =>
    (match σ with
      | .pure _ => True
      | .mixed p => (∀ c, c < n → 0 ≤ p.getD c 0) ∧ ∑ c ∈ range n, p.getD c 0 = 1) ∧ probOk s os
  | [], [] => True
  | _, _ => False

theorem mixed_strict_mono (n : Nat) (p : List K) (F G : Nat → K) (tol : K)
    (hp0 : ∀ c, c < n → 0 ≤ p.getD c 0) (hp1 : ∑ c ∈ range n, p.getD c 0 = 1)
    (h : ∀ c, c < n → F c + tol < G c) :
    (List.range n).foldl (fun acc c => acc + F c * p.getD c 0) 0 + tol <
      (List.range n).foldl (fun acc c => acc + G c * p.getD c 0) 0 := by
  rw [foldl_eq_finset_sum n (fun c => F c * p.getD c 0), foldl_eq_finset_sum n (fun c => G c * p.getD c 0)]
  have e : ∑ c ∈ range n, F c * p.getD c 0 + tol = ∑ c ∈ range n, (F c + tol) * p.getD c 0 := by
    simp only [add_mul, Finset.sum_add_distrib, ← Finset.mul_sum, hp1, mul_one]
  rw [e]
  have hpos : ∃ c ∈ range n, 0 < p.getD c 0 := by
    by_contra hno
    push Not at hno
    have : ∑ c ∈ range n, p.getD c 0 = 0 := by
      apply Finset.sum_eq_zero
      intro c hc
      exact le_antisymm (hno c hc) (hp0 c (mem_range.mp hc))
    rw [this] at hp1
    exact zero_ne_one hp1
  apply Finset.sum_lt_sum
  · intro c hc
    exact mul_le_mul_of_nonneg_right (le_of_lt (h c (mem_range.mp hc))) (hp0 c (mem_range.mp hc))
  · obtain ⟨c, hc, hpc⟩ := hpos
    exact ⟨c, hc, mul_lt_mul_of_pos_right (h c (mem_range.mp hc)) hpc⟩

/-- expectation under independent (pure or probability-vector) play preserves a strict margin -/
theorem expect_strict_mono (tol : K) : ∀ (s : List Nat) (os : List (Act K)) (f g : List Nat → K),
    actsOk s os → probOk s os → (∀ r, inBounds s r = true → f r + tol < g r) →
    expect s os f + tol < expect s os g
  | [], [], f, g, _, _, h => h [] rfl
  | [], _ :: _, _, _, h, _, _ => by simp [actsOk] at h
  | _ :: _, [], _, _, h, _, _ => by simp [actsOk] at h
  | n :: s, σ :: os, f, g, hok, hpr, h => by
    simp only [actsOk] at hok
    simp only [probOk] at hpr
    have ih : ∀ c, c < n →
        expect s os (fun r => f (c :: r)) + tol < expect s os (fun r => g (c :: r)) := by
      intro c hc
      apply expect_strict_mono tol s os _ _ hok.2 hpr.2
      intro r hr
      apply h
      simp [inBounds, hc, hr]
    simp only [expect]
    cases σ with
    | pure a =>
      have ha : a < n := by
        have := hok.1
        simp only [actOk] at this
        by_contra hc; simp [hc] at this
      exact ih a ha
    | mixed p =>
      simp only [reduceFn]
      exact mixed_strict_mono n p _ _ tol hpr.1.1 hpr.1.2 ih

/-- **A dominated action is never a best response.** If own action `b` beats own action `a` by more
    than `tol` against every pure opponent profile (the pure-domination test of `is_dominated`),
    then against ANY opponents' actions — pure or mixed probability vectors, any number of
    opponents — `payoff_vector` puts `b` more than `tol` above `a`, so `a` is not among the best
    responses with tolerance `tol` (`best_response`, `is_best_response`, hence `is_nash`, agree
    with `is_dominated`). -/
theorem dominated_never_best_response (A : Arr K) (n0 : Nat) (s : List Nat) (os : List (Act K))
    (a b : Nat) (tol : K) (hs : A.shape = n0 :: s) (hsz : A.data.length = prod A.shape)
    (hok : actsOk s os) (hpr : probOk s os) (ha : a < n0) (hb : b < n0)
    (hdom : ∀ r, inBounds s r = true → A.get (a :: r) + tol < A.get (b :: r)) :
    (payoffVector A os).get [a] + tol < (payoffVector A os).get [b] ∧
    a ∉ bestResponses (payoffVector A os).data tol := by
  have hlt : (payoffVector A os).get [a] + tol < (payoffVector A os).get [b] := by
    rw [(payoff_vector_is_expectation A n0 s os a hs hok ha).2,
      (payoff_vector_is_expectation A n0 s os b hs hok hb).2]
    exact expect_strict_mono tol s os _ _ hok hpr hdom
  refine ⟨hlt, ?_⟩
  obtain ⟨hlen, hd⟩ := payoffVector_data A n0 s os hs hok hsz
  intro hmem
  rw [best_response_spec] at hmem
  have := hmem.2 b (by rw [hlen]; exact hb)
  rw [hd a ha, hd b hb] at this
  rw [(payoff_vector_is_expectation A n0 s os a hs hok ha).2,
    (payoff_vector_is_expectation A n0 s os b hs hok hb).2] at hlt
  linarith

/-- non-vacuity: in the 3×2 array below action 2 beats action 0 by 2 at both opponent actions, and
    the uniform mixed opponent action is a probability vector -/
example : probOk (K := ℚ) [2] [.mixed [1/2, 1/2]] ∧ actsOk (α := ℚ) [2] [.mixed [1/2, 1/2]] := by
  refine ⟨⟨⟨?_, ?_⟩, trivial⟩, ⟨rfl, trivial⟩⟩
  · intro c hc
    have : c = 0 ∨ c = 1 := by omega
    rcases this with rfl | rfl <;> norm_num
  · norm_num [Finset.sum_range_succ]
example : ∀ r, inBounds [2] r = true →
    (⟨[3, 2], [0, 1, 5, 5, 2, 3]⟩ : Arr ℚ).get (0 :: r) + 1 < (⟨[3, 2], [0, 1, 5, 5, 2, 3]⟩ : Arr ℚ).get (2 :: r) := by
  intro r hr
  have hm := List.mem_of_getElem? (allIdx_flatIndex _ _ hr)
  have : ∃ a, a < 2 ∧ r = [a] := by simpa [allIdx] using hm
  obtain ⟨c, hc, rfl⟩ := this
  have : c = 0 ∨ c = 1 := by omega
  rcases this with rfl | rfl <;> norm_num [Arr.get, flatIndex, prod]

end dom

section domnash
variable {K : Type} [Field K] [LinearOrder K] [IsStrictOrderedRing K]

/-- **A dominated action is never played in a Nash equilibrium.** If player `i`'s action `b` beats
    action `a` by more than `tol` against every pure profile of the others, then no profile in which
    `i` plays `a` — whatever the others do, pure or mixed probability vectors — passes
    `is_nash(·, tol)`: `is_nash` and the domination test agree, for every number of players. -/
theorem dominated_not_nash (g : Game K) (nums : List Nat) (prof : List (Act K)) (tol : K) (i a b : Nat)
    (hg : g.WF nums) (hlen : prof.length = nums.length) (hi : i < nums.length)
    (hplay : prof[i]? = some (.pure a)) (ha : a < nums.getD i 0) (hb : b < nums.getD i 0)
    (hok : actsOk (nums.drop (i + 1) ++ nums.take i) (prof.drop (i + 1) ++ prof.take i))
    (hpr : probOk (nums.drop (i + 1) ++ nums.take i) (prof.drop (i + 1) ++ prof.take i))
    (hdom : ∀ r, inBounds (nums.drop (i + 1) ++ nums.take i) r = true →
      (g.player i).get (a :: r) + tol < (g.player i).get (b :: r)) :
    g.isNash prof tol = false := by
  have hgN : g.N = nums.length := hg.len
  have hshape : (g.player i).shape = nums.getD i 0 :: (nums.drop (i + 1) ++ nums.take i) := by
    rw [hg.shape i hi]; exact rotL_cons i nums 0 hi
  have ho : Game.oppsOf g.N i prof = prof.drop (i + 1) ++ prof.take i := by
    have := oppsOf_eq prof i (by omega)
    rwa [hlen, ← hgN] at this
  have hJ := dominated_never_best_response (g.player i) _ _ _ a b tol hshape (hg.size i hi) hok hpr ha hb hdom
  obtain ⟨hlenv, hd⟩ := payoffVector_data (g.player i) _ _ _ hshape hok (hg.size i hi)
  cases hn : g.isNash prof tol with
  | false => rfl
  | true =>
    exfalso
    simp only [Game.isNash, List.all_eq_true, List.mem_range] at hn
    have h1 := hn i (by omega)
    rw [ho, hplay] at h1
    have hv : (payoffVector (g.player i) (prof.drop (i + 1) ++ prof.take i)).data ≠ [] := by
      intro e; rw [e, List.length_nil] at hlenv; omega
    have h2 := (is_best_response_spec _ _ tol hv).mp h1 b (by rw [hlenv]; exact hb)
    simp only [ownValue] at h2
    apply hJ.2
    rw [best_response_spec]
    refine ⟨by rw [hlenv]; exact ha, ?_⟩
    intro c hc
    have h3 := (is_best_response_spec _ _ tol hv).mp h1 c hc
    simpa only [ownValue] using h3

/-- prisoner's dilemma: cooperating (0) is dominated by defecting (1) for player 0, and
    (cooperate, cooperate) is not a Nash equilibrium; the hypotheses above hold there -/
def pdGame : Game ℚ := ⟨[⟨[2, 2], [3, 0, 5, 1]⟩, ⟨[2, 2], [3, 0, 5, 1]⟩]⟩
def pdGameZ : Game Int := ⟨[⟨[2, 2], [3, 0, 5, 1]⟩, ⟨[2, 2], [3, 0, 5, 1]⟩]⟩

example : pdGameZ.isNash [.pure 0, .pure 0] 0 = false ∧ pdGameZ.isNash [.pure 1, .pure 1] 0 = true := by decide
example : pdGame.WF [2, 2] ∧
    actsOk (α := ℚ) ([2, 2].drop 1 ++ [2, 2].take 0) ([Act.pure 0, Act.pure 0].drop 1 ++ [Act.pure 0, Act.pure 0].take 0) ∧
    probOk (K := ℚ) ([2, 2].drop 1 ++ [2, 2].take 0) ([Act.pure 0, Act.pure 0].drop 1 ++ [Act.pure 0, Act.pure 0].take 0) ∧
    ∀ r, inBounds ([2, 2].drop 1 ++ [2, 2].take 0) r = true →
      (pdGame.player 0).get (0 :: r) + 1/2 < (pdGame.player 0).get (1 :: r) := by
  refine ⟨⟨rfl, by decide, by decide⟩, ⟨rfl, trivial⟩, ⟨trivial, trivial⟩, ?_⟩
  intro r hr
  have hm := List.mem_of_getElem? (allIdx_flatIndex _ _ hr)
  have : ∃ c, c < 2 ∧ r = [c] := by simpa [allIdx] using hm
  obtain ⟨c, hc, rfl⟩ := this
  have : c = 0 ∨ c = 1 := by omega
  rcases this with rfl | rfl <;> norm_num [pdGame, Game.player, Arr.get, flatIndex, prod]

end domnash

section mixdom
variable {K : Type} [Field K] [LinearOrder K] [IsStrictOrderedRing K]
open Finset

omit [LinearOrder K] [IsStrictOrderedRing K] in
theorem reduceFn_finset_sum (n : Nat) (σ : Act K) (m : Nat) (x : Nat → K) (E : Nat → Nat → K) :
    reduceFn n σ (fun c => ∑ k ∈ range m, x k * E k c) = ∑ k ∈ range m, x k * reduceFn n σ (E k) := by
  cases σ with
  | pure a => rfl
  | mixed p =>
    simp only [reduceFn]
    rw [foldl_eq_finset_sum n (fun c => (∑ k ∈ range m, x k * E k c) * p.getD c 0)]
    have : ∀ k, (List.range n).foldl (fun acc b => acc + E k b * p.getD b 0) 0
        = ∑ c ∈ range n, E k c * p.getD c 0 := fun k => foldl_eq_finset_sum n (fun c => E k c * p.getD c 0)
    simp only [this, Finset.sum_mul, Finset.mul_sum]
    rw [Finset.sum_comm]
    apply Finset.sum_congr rfl
    intro k _
    apply Finset.sum_congr rfl
    intro c _
    ring

omit [LinearOrder K] [IsStrictOrderedRing K] in
/-- the iterated expectation is linear in the payoff function -/
theorem expect_finset_sum (m : Nat) (x : Nat → K) : ∀ (s : List Nat) (os : List (Act K))
    (f : Nat → List Nat → K),
    expect s os (fun r => ∑ k ∈ range m, x k * f k r) = ∑ k ∈ range m, x k * expect s os (f k)
  | [], [], _ => rfl
  | [], _ :: _, _ => rfl
  | _ :: _, [], _ => rfl
  | n :: s, σ :: os, f => by
    simp only [expect]
    have : (fun c => expect s os (fun r => ∑ k ∈ range m, x k * f k (c :: r)))
        = fun c => ∑ k ∈ range m, x k * expect s os (fun r => f k (c :: r)) := by
      funext c
      exact expect_finset_sum m x s os (fun k r => f k (c :: r))
    rw [this]
    exact reduceFn_finset_sum n σ m x (fun k c => expect s os (fun r => f k (c :: r)))

/-- **An action strictly dominated by a mixed action is never a best response.** If the mixture
    `x` (a probability vector over the own actions) pays more than `a` by more than `tol` against
    every pure opponent profile — what `is_dominated(a, tol)` certifies — then against ANY opponents'
    actions (pure or mixed probability vectors, any number of opponents) some own action's entry of
    `payoff_vector` exceeds `a`'s by more than `tol`; so `a` is not among the best responses with
    tolerance `tol`. -/
theorem mixed_dominated_never_best_response (A : Arr K) (n0 : Nat) (s : List Nat) (os : List (Act K))
    (a : Nat) (x : Nat → K) (tol : K) (hs : A.shape = n0 :: s) (hsz : A.data.length = prod A.shape)
    (hok : actsOk s os) (hpr : probOk s os) (ha : a < n0)
    (hx0 : ∀ k, k < n0 → 0 ≤ x k) (hx1 : ∑ k ∈ range n0, x k = 1)
    (hdom : ∀ r, inBounds s r = true → A.get (a :: r) + tol < ∑ k ∈ range n0, x k * A.get (k :: r)) :
    (∃ k, k < n0 ∧ (payoffVector A os).get [a] + tol < (payoffVector A os).get [k]) ∧
    a ∉ bestResponses (payoffVector A os).data tol := by
  have hE : ∀ k, k < n0 → (payoffVector A os).get [k] = expect s os (fun r => A.get (k :: r)) :=
    fun k hk => (payoff_vector_is_expectation A n0 s os k hs hok hk).2
  have hlt := expect_strict_mono tol s os _ _ hok hpr hdom
  rw [expect_finset_sum n0 x s os (fun k r => A.get (k :: r))] at hlt
  have hex : ∃ k, k < n0 ∧ (payoffVector A os).get [a] + tol < (payoffVector A os).get [k] := by
    by_contra hno
    push Not at hno
    have hle : ∑ k ∈ range n0, x k * expect s os (fun r => A.get (k :: r))
        ≤ ∑ k ∈ range n0, x k * (expect s os (fun r => A.get (a :: r)) + tol) := by
      apply Finset.sum_le_sum
      intro k hk
      have hk' := mem_range.mp hk
      have := hno k hk'
      rw [hE k hk', hE a ha] at this
      exact mul_le_mul_of_nonneg_left this (hx0 k hk')
    rw [← Finset.sum_mul, hx1, one_mul] at hle
    exact absurd hlt (not_lt.mpr hle)
  refine ⟨hex, ?_⟩
  obtain ⟨k, hk, hkl⟩ := hex
  obtain ⟨hlen, hd⟩ := payoffVector_data A n0 s os hs hok hsz
  intro hmem
  rw [best_response_spec] at hmem
  have := hmem.2 k (by rw [hlen]; exact hk)
  rw [hd a ha, hd k hk] at this
  rw [hE k hk, hE a ha] at hkl
  linarith

/-- non-vacuity: in the 3×2 game with rows (0,0), (3,−1), (−1,3) the half–half mixture of actions 1
    and 2 beats action 0 by 1 > 1/2 at both opponent actions (no pure action dominates it) -/
example : ∀ r, inBounds [2] r = true →
    (⟨[3, 2], [0, 0, 3, -1, -1, 3]⟩ : Arr ℚ).get (0 :: r) + 1/2 <
      ∑ k ∈ range 3, (if k = 0 then 0 else (1/2 : ℚ)) * (⟨[3, 2], [0, 0, 3, -1, -1, 3]⟩ : Arr ℚ).get (k :: r) := by
  intro r hr
  have hm := List.mem_of_getElem? (allIdx_flatIndex _ _ hr)
  have : ∃ c, c < 2 ∧ r = [c] := by simpa [allIdx] using hm
  obtain ⟨c, hc, rfl⟩ := this
  have : c = 0 ∨ c = 1 := by omega
  rcases this with rfl | rfl <;> norm_num [Finset.sum_range_succ, Arr.get, flatIndex, prod]

end mixdom

/-! ## Alternative entry points: `best_response_2p`, `pure2mixed`, `random_choice` -/

section br2p
variable {α : Type} [Zero α] [Add α] [Sub α] [Mul α] [LT α] [LE α] [DecidableLT α] [DecidableLE α]

omit [Sub α] [LT α] [LE α] [DecidableLT α] [DecidableLE α] in
/-- the payoff vector accumulated by the Numba kernel is `Player.payoff_vector` against the mixed
    action (same additions in the same order) -/
theorem payoffVector2p_eq (A : Arr α) (n m : Nat) (x : List α) (hs : A.shape = [n, m]) :
    payoffVector2p A x = (payoffVector A [.mixed x]).data := by
  unfold payoffVector2p
  show _ = (A.dotLast x).data
  unfold Arr.dotLast Arr.tab
  have hfm : ∀ l : List Nat, l.flatMap (fun a => [[a]]) = l.map fun a => [a] := by
    intro l; induction l <;> simp_all
  simp only [hs, List.getD_cons_zero, List.getD_cons_succ, List.dropLast_cons_cons, List.dropLast_singleton,
    List.getLastD_cons, List.getLastD_nil]
  simp [allIdx, hfm, List.map_map, Function.comp_def]

/-- **best_response_2p is Player.best_response with the default tie-breaking**: on an `n × m` payoff
    matrix the kernel returns the first element of the list of best responses (those within `tol` of
    the maximum) computed from `payoff_vector` against the mixed action — `none` exactly when that
    list is empty. -/
theorem best_response_2p_eq (A : Arr α) (n m : Nat) (x : List α) (tol : α) (hs : A.shape = [n, m]) :
    bestResponse2p A x tol = (bestResponses (payoffVector A [.mixed x]).data tol).head? := by
  unfold bestResponse2p bestResponses
  rw [payoffVector2p_eq A n m x hs, List.head?_filter]

end br2p

example : bestResponse2p (⟨[3, 2], [1, 2, 3, 0, 3, 0]⟩ : Arr Int) [1, 1] 0 = some 0 ∧
    bestResponse2p (⟨[3, 2], [1, 2, 3, 0, 3, 0]⟩ : Arr Int) [1, 1] (-1) = none ∧
    bestResponse2p (⟨[3, 2], [1, 2, 4, 0, 4, 0]⟩ : Arr Int) [1, 1] 0 = some 1 := by decide

section br2pspec
variable {K : Type} [Field K] [LinearOrder K] [IsStrictOrderedRing K]

/-- **best_response_2p, characterised.** It returns `a` exactly when `a` is the least row whose
    expected payoff is within `tol` of every row's; for a matrix with at least one row and `tol ≥ 0`
    it always returns an action. -/
theorem best_response_2p_spec (A : Arr K) (n m : Nat) (x : List K) (tol : K) (a : Nat)
    (hs : A.shape = [n, m]) :
    (bestResponse2p A x tol = some a ↔
      (a < (payoffVector2p A x).length ∧
        ∀ b, b < (payoffVector2p A x).length → (payoffVector2p A x).getD b 0 - tol ≤ (payoffVector2p A x).getD a 0) ∧
      ∀ c, (c < (payoffVector2p A x).length ∧
        ∀ b, b < (payoffVector2p A x).length → (payoffVector2p A x).getD b 0 - tol ≤ (payoffVector2p A x).getD c 0) → a ≤ c) ∧
    (0 < n → 0 ≤ tol → bestResponse2p A x tol ≠ none) := by
  rw [best_response_2p_eq A n m x tol hs, payoffVector2p_eq A n m x hs]
  refine ⟨best_response_smallest _ tol a, ?_⟩
  intro hn htol
  have hv : (payoffVector A [Act.mixed x]).data ≠ [] := by
    rw [← payoffVector2p_eq A n m x hs]
    intro e
    have := congrArg List.length e
    simp [payoffVector2p, hs] at this
    omega
  have := best_responses_nonempty _ tol hv htol
  cases h : bestResponses (payoffVector A [Act.mixed x]).data tol with
  | nil => exact absurd h this
  | cons y ys => simp

end br2pspec

section p2m
variable {K : Type} [CommSemiring K]

theorem getD_pure2mixed (n a b : Nat) (hb : b < n) :
    (pure2mixed (α := K) n a).getD b 0 = if b = a then 1 else 0 := by
  simp [pure2mixed, List.getD_eq_getElem?_getD, List.getElem?_map, List.getElem?_range hb]

theorem length_pure2mixed (n a : Nat) : (pure2mixed (α := K) n a).length = n := by simp [pure2mixed]

/-- reducing an axis with `pure2mixed(n, a)` is evaluating at `a` -/
theorem reduceFn_pure2mixed (n a : Nat) (h : Nat → K) (ha : a < n) :
    reduceFn n (.mixed (pure2mixed n a)) h = h a := by
  simp only [reduceFn]
  rw [foldl_add_eq_sum n (fun b => h b * (pure2mixed (α := K) n a).getD b 0)]
  have : (List.range n).map (fun b => h b * (pure2mixed (α := K) n a).getD b 0)
      = (List.range n).map (fun b => (if b = a then 1 else 0) * h b) := by
    apply List.map_congr_left
    intro b hb
    rw [getD_pure2mixed n a b (List.mem_range.mp hb), mul_comm]
  rw [this, sum_indicator n a h ha]

/-- the opponents' pure profile `r`, each action written as `pure2mixed(n_j, r_j)` -/
def asMixed : List Nat → List Nat → List (Act K)
  | n :: s, a :: r => .mixed (pure2mixed n a) :: asMixed s r
  | _, _ => []

theorem expect_asMixed : ∀ (s r : List Nat) (f : List Nat → K), inBounds s r = true →
    expect s (asMixed (K := K) s r) f = f r
  | [], [], _, _ => rfl
  | [], _ :: _, _, h => by simp [inBounds] at h
  | _ :: _, [], _, h => by simp [inBounds] at h
  | n :: s, a :: r, f, h => by
    simp only [inBounds, Bool.and_eq_true, decide_eq_true_eq] at h
    simp only [asMixed, expect]
    rw [reduceFn_pure2mixed n a _ h.1]
    exact expect_asMixed s r (fun r => f (a :: r)) h.2

theorem actsOk_asMixed : ∀ (s r : List Nat), inBounds s r = true → actsOk (α := K) s (asMixed s r)
  | [], [], _ => trivial
  | [], _ :: _, h => by simp [inBounds] at h
  | _ :: _, [], h => by simp [inBounds] at h
  | n :: s, a :: r, h => by
    simp only [inBounds, Bool.and_eq_true, decide_eq_true_eq] at h
    simp only [asMixed, actsOk, actOk, length_pure2mixed, if_true, true_and]
    exact actsOk_asMixed s r h.2

/-- **pure2mixed is faithful.** Against opponents whose pure actions `r` are passed in their mixed
    representation `pure2mixed(n_j, r_j)`, `payoff_vector` is the same as against the pure actions
    themselves: entry `a` is `payoff_array[a, r…]` (any number of opponents). -/
theorem payoff_vector_pure2mixed (A : Arr K) (n0 : Nat) (s r : List Nat) (a : Nat)
    (hs : A.shape = n0 :: s) (hr : inBounds s r = true) (ha : a < n0) :
    (payoffVector A (asMixed s r)).get [a] = A.get (a :: r) ∧
    (payoffVector A (asMixed s r)).get [a] = (payoffVector A (r.map Act.pure)).get [a] := by
  have h1 : (payoffVector A (asMixed s r)).get [a] = A.get (a :: r) := by
    rw [(payoff_vector_is_expectation A n0 s _ a hs (actsOk_asMixed s r hr) ha).2, expect_asMixed s r _ hr]
  exact ⟨h1, by rw [h1, payoff_vector_pure A n0 s r a hs hr ha]⟩

example : pure2mixed (α := Int) 3 2 = [0, 0, 1] ∧
    (payoffVector (⟨[2, 3], [0, 1, 2, 10, 11, 12]⟩ : Arr Int) (asMixed [3] [2])).data = [2, 12] := by decide

end p2m

/-! ### random_choice -/

/-- `random_choice` returns one of the candidates, and with a single candidate the same one
    whatever the generator would have produced -/
theorem randomChoice_mem (actions : List Nat) (draw a : Nat) (h : randomChoice actions draw = some a) :
    a ∈ actions := by
  unfold randomChoice at h
  split at h <;> exact List.mem_of_getElem? h

theorem randomChoice_single (a draw : Nat) : randomChoice [a] draw = some a := rfl

theorem randomChoice_some (actions : List Nat) (draw : Nat) (hd : draw < actions.length) :
    ∃ a, randomChoice actions draw = some a := by
  unfold randomChoice
  split
  · exact ⟨actions[0]'(by omega), List.getElem?_eq_getElem (by omega)⟩
  · exact ⟨actions[draw], List.getElem?_eq_getElem hd⟩

section brr
variable {K : Type} [Field K] [LinearOrder K] [IsStrictOrderedRing K]

omit [IsStrictOrderedRing K] in
/-- **tie_breaking='random' returns a best response** (whatever the generator draws), leaves the game
    as it is, and equals the 'smallest' answer when there is only one best response. -/
theorem step_brr (g : Game K) (i : Nat) (opps : List (Act K)) (tol : K) (draw a : Nat) (g' : Game K)
    (h : step g (.brr i opps tol none draw) = (g', .idxs [a])) :
    g' = g ∧ ∃ v, payoffVectorC (g.player i) opps = .ok v ∧ a ∈ bestResponses v.data tol ∧
      (∀ b, bestResponses v.data tol = [b] → a = b) := by
  simp only [step] at h
  split at h
  · rename_i v hv
    split at h
    · rename_i c hc
      simp only [addPert] at hc
      have e1 : g' = g := (Prod.mk.inj h).1.symm
      have e2 : c = a := by
        have := (Prod.mk.inj h).2
        injection this with h3
        exact (List.cons.inj h3).1
      subst e2
      refine ⟨e1, v, hv, randomChoice_mem _ _ _ hc, ?_⟩
      intro b hb
      rw [hb] at hc
      exact (Option.some.inj hc).symm
    · cases (Prod.mk.inj h).2
  · cases (Prod.mk.inj h).2

end brr

example : (step exGame (.brr 0 [.pure 1] 100 none 1)).2 = .idxs [1] ∧
    (step exGame (.brr 0 [.pure 1] 0 none 7)).2 = .idxs [1] := ⟨rfl, rfl⟩


end QE.C14
