/-
  Property C04 — linprog_simplex / minmax: theorems about `QEModel/C04.lean`
  (the definitions the driver `qedriver_c04` executes) and `QEModel/Pivot.lean`.

  Reading guide.  A tableau `T` has `L` constraint rows `0..L-1`, the criterion row `L`,
  `N` variable columns and the right-hand side in column `N` (`Shape T L N`).  Row `i`
  is the equation `Σ_{j<N} T[i,j] z_j = T[i,N]` (`RowSat`, `RowsSat`); the objective of
  the tableau at `z` is `resid T z L = Σ_{j<N} T[L,j] z_j − T[L,N]`  (the code reports
  `fun = −T[L,N]`).  `Canon T b L N`: column `basis[i]` is the unit vector `e_i`.
  `bsol T b L N` is the basic solution (what `get_solution` reads, `getX_eq_bsol`).
  All theorems are over an arbitrary linearly ordered field, in exact arithmetic with the
  three tolerances equal to `0` (`tol0`) — on the property's well-scaled domain the
  tolerances cannot change a decision; the correspondence run checks exactly that.
-/
import QEModel.C04
import QEProofs.Lemmas.PivotLemmas
import QEProofs.Lemmas.C04Ratio
import QEProofs.Lemmas.C04Simplex
import QEProofs.Lemmas.C04Phase1
import QEProofs.Lemmas.C04Final
import QEProofs.Lemmas.C04DualCert
import QEProofs.Lemmas.C04Unbounded
import QEProofs.Lemmas.C04Minmax
import QEProofs.Lemmas.C04Tol
import QEProofs.Lemmas.C04Farkas
import QEProofs.Lemmas.C04Iters
import QEProofs.Lemmas.C04Ray
import QEProofs.Lemmas.C04MinmaxTie
import QEProofs.Lemmas.C04Mono
import QEProofs.Lemmas.C04Term2
import QEProofs.Lemmas.C04Buf
import QEProofs.Lemmas.C04MinmaxLex
import QEProofs.Lemmas.C04Infeas
import QEProofs.Lemmas.C04MinmaxIff
import Mathlib.Algebra.Order.Field.Rat
namespace QE.C04
open QE QE.Pivot Finset

variable {K : Type} [Field K] [LinearOrder K] [IsStrictOrderedRing K]

/-! ## the pivot (`_pivoting`) -/

omit [IsStrictOrderedRing K] in
/-- **T1 pivot_preserves_solutions.** A pivot on a non-zero element of a constraint row is
    an invertible row operation: the constraint rows have the same solution set, and on that
    set the criterion row defines the same objective function. -/
theorem pivot_preserves_solutions (T : M K) (L N c r : ℕ) (hs : Shape T L N) (hr : r < L)
    (hp : T.get r c ≠ 0) (z : ℕ → K) :
    (RowsSat (pivot T c r) z L ↔ RowsSat T z L) ∧
    (RowsSat T z L → resid (pivot T c r) z L = resid T z L) := by
  refine ⟨solset_pivot T T L N c r hs hr hp (fun _ => Iff.rfl) z, fun h => ?_⟩
  exact obj_pivot T T L N c r hs hr hp (fun _ _ => rfl) z
    ((solset_pivot T T L N c r hs hr hp (fun _ => Iff.rfl) z).mpr h)

omit [IsStrictOrderedRing K] in
/-- **T1 pivot_canonical.** After `_pivoting(T, c, r); basis[r] = c` the basic columns are
    again unit vectors (over all rows including the criterion row). -/
theorem pivot_canonical (T : M K) (b : List ℕ) (L N c r : ℕ) (hs : Shape T L N)
    (hc : Canon T b L N) (hcN : c < N) (hr : r < L) (hp : T.get r c ≠ 0) :
    Canon (pivot T c r) (b.set r c) L N :=
  canon_pivot T b L N c r hs hc hcN hr hp

/-- **T1 ratio_test_keeps_rhs_nonneg.** If `_lex_min_ratio_test` (tolerances 0) on the
    constraint rows returns `(True, r)` for column `c`, then `r` is a constraint row with a
    positive entry and the pivot keeps every right-hand side non-negative. -/
theorem ratio_test_keeps_rhs_nonneg (T : M K) (L N c ss r : ℕ) (hs : Shape T L N)
    (hrhs : RhsNonneg T L N) (h : lexMinRatio (dropLast T) c ss (0 : K) 0 = (true, r)) :
    r < L ∧ 0 < T.get r c ∧ RhsNonneg (pivot T c r) L N := by
  have hL : T.nr - 1 = L := by rw [hs.1]; rfl
  have hN : T.nc - 1 = N := by rw [hs.2]; rfl
  obtain ⟨g1, g2, g3⟩ := lexMinRatio_found (dropLast T) c ss 0 r h
  simp only [dropLast_nr, dropLast_nc, dropLast_get, hL, hN] at g1 g2 g3
  exact ⟨g1, g2, rhs_pivot T L N c r hs hrhs g1 g2 g3⟩

/-! ## the simplex loop (`solve_tableau`) -/

/-- **T1 solveTableau_invariant.** Started from a canonical tableau with non-negative
    right-hand sides, `solve_tableau` returns — for every `max_iter`, every size, whatever the
    exit status — a canonical tableau with non-negative right-hand sides whose constraint rows
    have the solution set of the initial rows and whose criterion row defines the initial
    objective on that set. -/
theorem solveTableau_invariant (skip : Bool) (fuel : ℕ) (T0 : M K) (b0 : List ℕ) (L N : ℕ)
    (hs : Shape T0 L N) (hc : Canon T0 b0 L N) (hr : RhsNonneg T0 L N) :
    let r := solveTableau tol0 skip fuel T0 b0
    Shape r.T L N ∧ Canon r.T r.basis L N ∧ RhsNonneg r.T L N ∧
    (∀ z, RowsSat r.T z L ↔ RowsSat T0 z L) ∧
    (∀ z, RowsSat r.T z L → resid r.T z L = resid T0 z L) := by
  intro r
  have h := solveTableau_inv0 skip fuel T0 b0 L N hs hc hr
  exact ⟨h.shape, h.canon, h.rhs, h.sol, h.obj⟩

/-- **T1 status0_optimal (tableau level).** If `solve_tableau` exits with status 0, the basic
    solution `z*` of the final tableau is non-negative, satisfies the *initial* rows, has
    objective `−T[L,N]` (the reported `fun`) and maximises the initial objective over all
    non-negative solutions of the initial rows (with `skip_aux`: over those that vanish on the
    `L` artificial columns). -/
theorem solveTableau_status0_optimal (skip : Bool) (fuel : ℕ) (T0 : M K) (b0 : List ℕ) (L N : ℕ)
    (hs : Shape T0 L N) (hc : Canon T0 b0 L N) (hr : RhsNonneg T0 L N)
    (h0 : (solveTableau tol0 skip fuel T0 b0).status = 0) :
    let r := solveTableau tol0 skip fuel T0 b0
    let zs := bsol r.T r.basis L N
    (∀ j, 0 ≤ zs j) ∧ RowsSat T0 zs L ∧ resid T0 zs L = - r.T.get L N ∧
    ∀ z : ℕ → K, (∀ j, j < N → 0 ≤ z j) → RowsSat T0 z L →
      (skip = true → ∀ j, N - L ≤ j → j < N → z j = 0) → resid T0 z L ≤ resid T0 zs L := by
  intro r zs
  exact inv0_optimal skip T0 L N r.T r.basis (solveTableau_inv0 skip fuel T0 b0 L N hs hc hr)
    (solveTableau_status0 tol0 skip fuel T0 b0 h0)

/-- **T1 status3_unbounded_partial (tableau level).** If `solve_tableau` exits with status 3
    there is an entering column `c` with positive reduced cost in the final tableau and the
    ratio test found no row; then either column `c` has no positive entry — and
    `z* + t·d` (`d = rayDir`) is, for every `t ≥ 0`, a non-negative solution of the initial
    rows with objective `−T[L,N] + t·T[L,c]`, unbounded above — or the first pass of the ratio
    test ended in a tie of at least two rows that the lexicographic passes did not resolve.
    *Partial* for an arbitrary start tableau `T0`: the second alternative is excluded only
    when the rows are combinations of initial rows with an identity block in the
    lexicographic columns — which holds for every tableau of `linprog_simplex`
    (`ratio_test_complete`), giving the unconditional `status3_unbounded` below. -/
theorem solveTableau_status3_unbounded_partial (skip : Bool) (fuel : ℕ) (T0 : M K) (b0 : List ℕ)
    (L N : ℕ) (hs : Shape T0 L N) (hc : Canon T0 b0 L N) (hr : RhsNonneg T0 L N)
    (h3 : (solveTableau tol0 skip fuel T0 b0).status = 3) :
    let r := solveTableau tol0 skip fuel T0 b0
    ∃ c, c < N - (if skip then L else 0) ∧ 0 < r.T.get L c ∧
      (((∀ i, i < L → r.T.get i c ≤ 0) ∧
        ∀ t : K, 0 ≤ t →
          (∀ j, 0 ≤ bsol r.T r.basis L N j + t * rayDir r.T r.basis L c j) ∧
          RowsSat T0 (fun j => bsol r.T r.basis L N j + t * rayDir r.T r.basis L c j) L ∧
          resid T0 (fun j => bsol r.T r.basis L N j + t * rayDir r.T r.basis L c j) L
            = - r.T.get L N + t * r.T.get L c)
      ∨ 2 ≤ (minRatioNoTie (dropLast r.T) c N (List.range L) (0 : K) 0).length) := by
  intro r
  have hinv := solveTableau_inv0 skip fuel T0 b0 L N hs hc hr
  obtain ⟨c, hpc, hnf⟩ := solveTableau_status3 (tol0 : Tol K) skip fuel T0 b0 h3
  have hL : r.T.nr - 1 = L := by rw [hinv.shape.1]; rfl
  have hN : r.T.nc - 1 = N := by rw [hinv.shape.2]; rfl
  obtain ⟨h1, h2, _⟩ := pivotCol_some r.T skip (tol0 : Tol K).fea c hpc
  rw [hL, hN] at h1
  rw [hL] at h2
  refine ⟨c, h1, h2, ?_⟩
  rcases lexMinRatio_not_found (dropLast r.T) c _ _ _ hnf with hcol | htie
  · left
    simp only [dropLast_nr, dropLast_get, hL] at hcol
    exact ⟨hcol, inv0_ray T0 L N r.T r.basis c hinv (by omega) h2 hcol⟩
  · right
    simp only [dropLast_nr, dropLast_nc, hL, hN] at htie
    exact htie

omit [IsStrictOrderedRing K] in
/-- **T2 solveTableau_invariant_tolerances.** With the code's *positive* tolerances (any
    `fea_tol`, any `tol_ratio_diff`, `tol_piv ≥ 0`; exact arithmetic) every pivot element is
    `> tol_piv ≥ 0`, so along the whole run — every `max_iter`, every exit status — the tableau
    stays canonical, its rows keep the solution set of the initial rows and its criterion row
    keeps the initial objective on that set. -/
theorem solveTableau_invariant_tolerances (tol : Tol K) (hpiv : 0 ≤ tol.piv) (skip : Bool)
    (fuel : ℕ) (T0 : M K) (b0 : List ℕ) (L N : ℕ) (hs : Shape T0 L N) (hc : Canon T0 b0 L N) :
    let r := solveTableau tol skip fuel T0 b0
    Shape r.T L N ∧ Canon r.T r.basis L N ∧ (∀ z, RowsSat r.T z L ↔ RowsSat T0 z L) ∧
    (∀ z, RowsSat r.T z L → resid r.T z L = resid T0 z L) := by
  intro r
  have h := solveTableau_invT tol hpiv skip fuel T0 b0 L N hs hc
  exact ⟨h.shape, h.canon, h.sol, h.obj⟩

/-- **T2 status0_fea_tol_optimal.** With arbitrary tolerances (`tol_piv ≥ 0`), status 0 of
    `solve_tableau` (all columns scanned) means: the basic solution satisfies the initial rows
    exactly, its objective is `−T[L,N]`, and every non-negative solution `z` of the initial rows
    has objective at most `−T[L,N] + fea_tol·Σ_j z_j`. -/
theorem status0_fea_tol_optimal (tol : Tol K) (hpiv : 0 ≤ tol.piv) (fuel : ℕ) (T0 : M K)
    (b0 : List ℕ) (L N : ℕ) (hs : Shape T0 L N) (hc : Canon T0 b0 L N)
    (h0 : (solveTableau tol false fuel T0 b0).status = 0) :
    let r := solveTableau tol false fuel T0 b0
    RowsSat T0 (bsol r.T r.basis L N) L ∧ resid T0 (bsol r.T r.basis L N) L = - r.T.get L N ∧
    ∀ z : ℕ → K, (∀ j, j < N → 0 ≤ z j) → RowsSat T0 z L →
      resid T0 z L ≤ - r.T.get L N + tol.fea * ∑ j ∈ range N, z j :=
  solveTableau_status0_tol tol hpiv fuel T0 b0 L N hs hc h0

/-- **objective_monotone.** Along `solve_tableau` the reported objective `−T[L,N]` never
    decreases (each pivot adds `(T[r,N]/T[r,c])·T[L,c] ≥ 0`). -/
theorem objective_monotone (skip : Bool) (fuel : ℕ) (T0 : M K) (b0 : List ℕ) (L N : ℕ)
    (hs : Shape T0 L N) (hc : Canon T0 b0 L N) (hr : RhsNonneg T0 L N) :
    - T0.get L N ≤ - (solveTableau tol0 skip fuel T0 b0).T.get L N :=
  neg_le_neg (solveTableau_objective_monotone skip fuel T0 b0 L N hs hc hr)

omit [LinearOrder K] [IsStrictOrderedRing K] in
/-- **basis_determines_solution.** Two canonical tableaux with the same basis and row-equivalent
    constraint rows have the same right-hand sides and the same basic solution (and the same
    objective value if their criterion rows agree on the solution set): the vertex — and the
    reported `x`, `fun` — depend only on the final basis, not on the pivot path. -/
theorem basis_determines_solution (T T' : M K) (b : List ℕ) (L N : ℕ)
    (hs : Shape T L N) (hs' : Shape T' L N) (hc : Canon T b L N) (hc' : Canon T' b L N)
    (hsol : ∀ z, RowsSat T z L ↔ RowsSat T' z L) :
    (∀ i, i < L → T.get i N = T'.get i N) ∧ (∀ j, bsol T b L N j = bsol T' b L N j) ∧
    ((∀ z, RowsSat T z L → resid T z L = resid T' z L) → T.get L N = T'.get L N) :=
  basis_determines_vertex T T' b L N hs hs' hc hc' hsol

omit [IsStrictOrderedRing K] in
/-- **tableau_buffer_irrelevant.** `_initialize_tableau` run on a caller-supplied `tableau=` array of
    the right shape — modelled as the code's sequence of partial writes, `initTableauBuf` —
    produces the same tableau whatever the array contained before (garbage, NaN, an earlier
    tableau): every cell is overwritten.  Everything downstream (`linprogSimplex`) is a function
    of that tableau only, so work buffers cannot influence results; the harness checks the same
    on the real code for `tableau=`, `basis=`, `x=`, `lambd=` in all combinations. -/
theorem tableau_buffer_irrelevant (buf buf' : M K) (P : LP K)
    (h : buf.nr = P.m + P.k + 1 ∧ buf.nc = P.n + P.m + (P.m + P.k) + 1)
    (h' : buf'.nr = P.m + P.k + 1 ∧ buf'.nc = P.n + P.m + (P.m + P.k) + 1) :
    ∀ i j, i < P.m + P.k + 1 → j < P.n + P.m + (P.m + P.k) + 1 →
      (initTableauBuf buf P).get i j = (initTableauBuf buf' P).get i j ∧
      (initTableauBuf buf P).get i j = (initTableau P).get i j := by
  intro i j hi hj
  rw [initTableauBuf_eq buf P h.1 h.2 i j hi hj, initTableauBuf_eq buf' P h'.1 h'.2 i j hi hj]
  exact ⟨rfl, rfl⟩

/-! ## `linprog_simplex` -/

omit [IsStrictOrderedRing K] in
/-- the exit status of `linprog_simplex` is one of 0, 1, 2, 3 -/
theorem linprog_status_range (P : LP K) (fuel : ℕ) (tol : Tol K) :
    (linprogSimplex P fuel tol).status ∈ [0, 1, 2, 3] := by
  rw [linprogSimplex_status]
  split_ifs with h
  · rcases solvePhase1_cases tol fuel (initTableau P) (initBasis P) with ⟨_, e⟩ | ⟨_, _, e⟩ | ⟨h1, _, e⟩
    · simp only [e]
      rcases solveTableau_status tol false fuel (initTableau P) (initBasis P) with s | s | s <;>
        simp [s]
    · simp [e]
    · exfalso; apply h; rw [e, cleanup_status, h1]
  · rcases solveTableau_status tol true (fuel - (solvePhase1 tol fuel (initTableau P) (initBasis P)).iters)
      (setCriterionRow P.c P.n (solvePhase1 tol fuel (initTableau P) (initBasis P)).basis
        (solvePhase1 tol fuel (initTableau P) (initBasis P)).T)
      (solvePhase1 tol fuel (initTableau P) (initBasis P)).basis with s | s | s <;> simp [s]

/-- **T1 cleanup_sound.** When Phase 1 succeeds, the tableau handed to Phase 2 (after the
    artificial clean-up loop) is canonical with non-negative right-hand sides, its rows have
    the solution set of the initial rows, and every row whose artificial variable is still
    basic is identically zero on the `n+m` non-artificial columns and on the right-hand side —
    so Phase 2 (which never enters an artificial column) never moves it. -/
theorem cleanup_sound (P : LP K) (fuel : ℕ)
    (h : (solvePhase1 tol0 fuel (initTableau P) (initBasis P)).status = 0) :
    let r1 := solvePhase1 tol0 fuel (initTableau P) (initBasis P)
    let L := P.m + P.k
    let N := P.n + P.m + (P.m + P.k)
    Shape r1.T L N ∧ Canon r1.T r1.basis L N ∧ RhsNonneg r1.T L N ∧
    (∀ z, RowsSat r1.T z L ↔ RowsSat (initTableau P) z L) ∧
    ∀ i, i < L → P.n + P.m ≤ r1.basis.getD i 0 →
      r1.T.get i N = 0 ∧ ∀ j, j < P.n + P.m → r1.T.get i j = 0 := by
  intro r1 L N
  have I := solvePhase1_success P fuel h
  exact ⟨I.shape, I.canon, I.rhs, I.sol, fun i hi hai => ⟨(I.zero i hi hai).1, (I.zero i hi hai).2 hi⟩⟩

omit [LinearOrder K] [IsStrictOrderedRing K] in
/-- **T1 set_criterion_row_sound.** On a canonical tableau `_set_criterion_row` leaves the
    constraint rows alone, restores canonical form (criterion row zero on the basic columns)
    and the new criterion row represents `c·x` on the solutions of the rows. -/
theorem set_criterion_row_sound (c : ℕ → K) (n : ℕ) (b : List ℕ) (T : M K) (L N : ℕ)
    (hs : Shape T L N) (hc : Canon T b L N) (hn : n ≤ N) :
    Canon (setCriterionRow c n b T) b L N ∧
    (∀ z, RowsSat (setCriterionRow c n b T) z L ↔ RowsSat T z L) ∧
    ∀ z, RowsSat (setCriterionRow c n b T) z L →
      resid (setCriterionRow c n b T) z L = ∑ j ∈ range n, c j * z j :=
  ⟨(setCriterionRow_spec c n b T L N hs hc hn).1, setCriterionRow_rowsSat c n b T L N hs,
    (setCriterionRow_spec c n b T L N hs hc hn).2⟩

/-- **T1 status0_optimal.** If `linprog_simplex` (exact arithmetic) reports status 0, the
    returned `x` is feasible (`x ≥ 0`, `A_ub x ≤ b_ub`, `A_eq x = b_eq`), the returned `fun`
    is `c·x`, and no feasible point has a larger objective — for every LP (any sizes, signs of
    `b`, degenerate vertices, redundant equalities) and every `max_iter`. -/
theorem status0_optimal (P : LP K) (fuel : ℕ) (h : (linprogSimplex P fuel tol0).status = 0) :
    let x := fun j => (linprogSimplex P fuel (tol0 : Tol K)).x.getD j 0
    Feasible P x ∧ (linprogSimplex P fuel (tol0 : Tol K)).fn = some (objective P x) ∧
      ∀ x', Feasible P x' → objective P x' ≤ objective P x :=
  linprog_status0_core P fuel h

/-- **T2 dual_certificate.** If `linprog_simplex` (exact arithmetic) reports status 0, the
    returned `lambd` (criterion-row entries of the artificial columns with the `b_signs` sign
    repair) is dual feasible — non-negative on the inequality rows, `A_ubᵀλ_ub + A_eqᵀλ_eq ≥ c` —
    and `b·λ` equals the returned `fun`. -/
theorem dual_certificate (P : LP K) (fuel : ℕ) (h : (linprogSimplex P fuel tol0).status = 0) :
    let lam := fun i => (linprogSimplex P fuel (tol0 : Tol K)).lambd.getD i 0
    DualFeasible P lam ∧ (linprogSimplex P fuel (tol0 : Tol K)).fn = some (dualObjective P lam) :=
  linprog_dual_core P fuel h

/-- **weak duality** (what makes the pair a certificate): a primal feasible `x` and a dual
    feasible `λ` satisfy `c·x ≤ b·λ`; hence `c·x = b·λ` proves both optimal. -/
theorem primal_dual_certifies (P : LP K) (x lam : ℕ → K) (hx : Feasible P x)
    (hl : DualFeasible P lam) (heq : objective P x = dualObjective P lam) :
    (∀ x', Feasible P x' → objective P x' ≤ objective P x) ∧
    (∀ lam', DualFeasible P lam' → dualObjective P lam ≤ dualObjective P lam') :=
  ⟨fun x' hx' => by rw [heq]; exact weak_duality P x' lam hx' hl,
   fun lam' hl' => by rw [← heq]; exact weak_duality P x lam' hx hl'⟩

/-- **success ⇒ certified optimal primal-dual pair** (the property's success clause):
    `x` primal feasible, `lambd` dual feasible, `c·x = fun = b·lambd`. -/
theorem status0_certified_pair (P : LP K) (fuel : ℕ) (h : (linprogSimplex P fuel tol0).status = 0) :
    let res := linprogSimplex P fuel (tol0 : Tol K)
    let x := fun j => res.x.getD j 0
    let lam := fun i => res.lambd.getD i 0
    Feasible P x ∧ DualFeasible P lam ∧ res.fn = some (objective P x) ∧
      objective P x = dualObjective P lam := by
  intro res x lam
  obtain ⟨hf, hfx, _⟩ := status0_optimal P fuel h
  obtain ⟨hd, hfl⟩ := dual_certificate P fuel h
  refine ⟨hf, hd, hfx, ?_⟩
  have := hfx.symm.trans hfl
  exact Option.some.inj this

/-- **T1 status2_infeasible.** If `linprog_simplex` (exact arithmetic) reports status 2, the
    program has no feasible point: no `x ≥ 0` with `A_ub x ≤ b_ub`, `A_eq x = b_eq` — for
    every LP (any sizes, any signs of `b`, redundant or contradictory rows) and every
    `max_iter`. -/
theorem status2_infeasible (P : LP K) (fuel : ℕ) (h : (linprogSimplex P fuel tol0).status = 2) :
    ¬ ∃ x, Feasible P x := by
  apply phase1_status2_infeasible P fuel
  rw [linprogSimplex_status] at h
  split_ifs at h with h1
  · exact h
  · exfalso
    rcases solveTableau_status (tol0 : Tol K) true
      (fuel - (solvePhase1 tol0 fuel (initTableau P) (initBasis P)).iters)
      (setCriterionRow P.c P.n (solvePhase1 tol0 fuel (initTableau P) (initBasis P)).basis
        (solvePhase1 tol0 fuel (initTableau P) (initBasis P)).T)
      (solvePhase1 tol0 fuel (initTableau P) (initBasis P)).basis with s | s | s <;>
      rw [s] at h <;> simp at h

/-- **T1 ratio_test_complete.** On every tableau met by `linprog_simplex` (canonical, rows in
    the span of the initial rows whose artificial block is the identity) the lexicographic
    ratio test fails only if the entering column has no positive entry: ties are always
    resolved by the passes over the artificial columns. -/
theorem ratio_test_complete (P : LP K) (T : M K) (b : List ℕ) (c : ℕ)
    (hs : Shape T (P.m + P.k) (P.n + P.m + (P.m + P.k)))
    (hc : Canon T b (P.m + P.k) (P.n + P.m + (P.m + P.k)))
    (hsp : RowsSpan (initTableau P) T (P.m + P.k) (P.n + P.m + (P.m + P.k)))
    (hnf : (lexMinRatio (dropLast T) c (P.n + P.m) (0 : K) 0).1 = false) :
    ∀ i, i < P.m + P.k → T.get i c ≤ 0 :=
  no_unresolved_tie (initTableau P) T b _ _ (P.n + P.m) c hs hc (by omega) (initTableau_block P) hsp hnf

/-- **T1 status3_unbounded.** If `linprog_simplex` (exact arithmetic) reports status 3, the
    program is unbounded: for every bound there is a feasible point with a larger objective
    (Phase 1 never reports status 3; in Phase 2 the points lie on the ray read off the final
    tableau). -/
theorem status3_unbounded (P : LP K) (fuel : ℕ) (h : (linprogSimplex P fuel tol0).status = 3) :
    ∀ Mb : K, ∃ x, Feasible P x ∧ Mb < objective P x :=
  linprog_status3_core P fuel h

/-- **status2_farkas_certificate.** When `linprog_simplex` (exact arithmetic) reports status 2,
    the vector the model reads off the final Phase-1 tableau (`farkas`, the `cert=` field the
    harness verifies exactly on every infeasible case) is a Farkas certificate:
    `y_ub ≥ 0`, `A_ubᵀy_ub + A_eqᵀy_eq ≥ 0`, `b·y < 0` — which excludes any feasible point. -/
theorem status2_farkas_certificate (P : LP K) (fuel : ℕ)
    (h : (linprogSimplex P fuel tol0).status = 2) :
    FarkasCert P (fun i => (linprogSimplex P fuel (tol0 : Tol K)).cert.getD i 0) ∧
    (∀ y, FarkasCert P y → ¬ ∃ x, Feasible P x) :=
  ⟨linprog_farkas_core P fuel h, fun y hy => farkas_infeasible P y hy⟩

/-- **status3_ray_certificate.** When `linprog_simplex` (exact arithmetic) reports status 3, the
    point `x` and the direction `cert` the model prints (verified exactly by the harness on
    every unbounded case) form a certificate of unboundedness: `x` feasible, `d ≥ 0`,
    `A_ub d ≤ 0`, `A_eq d = 0`, `c·d > 0`. -/
theorem status3_ray_certificate (P : LP K) (fuel : ℕ)
    (h : (linprogSimplex P fuel tol0).status = 3) :
    let res := linprogSimplex P fuel (tol0 : Tol K)
    let x0 := fun j => res.x.getD j 0
    let d := fun j => res.cert.getD j 0
    Feasible P x0 ∧ (∀ j, j < P.n → 0 ≤ d j) ∧
    (∀ i, i < P.m → ∑ j ∈ range P.n, P.Aub i j * d j ≤ 0) ∧
    (∀ i, i < P.k → ∑ j ∈ range P.n, P.Aeq i j * d j = 0) ∧
    0 < ∑ j ∈ range P.n, P.c j * d j :=
  linprog_ray_core P fuel h

omit [IsStrictOrderedRing K] in
/-- **status1_iteration_limit.** Status 1 is reported only when the iteration cap was reached:
    `num_iter ≥ max_iter` (any tolerances). -/
theorem status1_iteration_limit (P : LP K) (fuel : ℕ) (tol : Tol K)
    (h : (linprogSimplex P fuel tol).status = 1) : fuel ≤ (linprogSimplex P fuel tol).iters :=
  linprog_status1_core P fuel tol h

/-- the LP has an optimal solution -/
def HasOptimum (P : LP K) : Prop :=
  ∃ x, Feasible P x ∧ ∀ x', Feasible P x' → objective P x' ≤ objective P x
/-- the LP has no feasible point -/
def Infeasible (P : LP K) : Prop := ¬ ∃ x, Feasible P x
/-- the LP has feasible points of arbitrarily large objective -/
def Unbounded (P : LP K) : Prop := ∀ Mb : K, ∃ x, Feasible P x ∧ Mb < objective P x

/-- **linprog_classification_partial.** Whenever `linprog_simplex` (exact arithmetic) does not
    stop at the iteration cap, its status is the true class of the program: success exactly
    when an optimum exists, status 2 exactly when the constraints are infeasible, status 3
    exactly when the objective is unbounded.  *Partial*: the hypothesis `status ≠ 1` is removed
    in `linprog_classification` below when `max_iter > 2(N^L+1)+L` and Phase 2 starts from
    lex-positive rows (`lexStartOK`); when a clean-up pivot divided a row by a negative element
    `lexStartOK` fails and termination of Phase 2 is not proved (no cycling instance exists in
    the exhaustive / random scopes of `harness/corpus/c04_term_attack_results.txt`). -/
theorem linprog_classification_partial (P : LP K) (fuel : ℕ)
    (hcap : (linprogSimplex P fuel tol0).status ≠ 1) :
    ((linprogSimplex P fuel tol0).status = 0 ↔ HasOptimum P) ∧
    ((linprogSimplex P fuel tol0).status = 2 ↔ Infeasible P) ∧
    ((linprogSimplex P fuel tol0).status = 3 ↔ Unbounded P) := by
  have hrange := linprog_status_range P fuel (tol0 : Tol K)
  have f0 : (linprogSimplex P fuel tol0).status = 0 → HasOptimum P := fun h =>
    ⟨_, (status0_optimal P fuel h).1, (status0_optimal P fuel h).2.2⟩
  have f2 : (linprogSimplex P fuel tol0).status = 2 → Infeasible P := status2_infeasible P fuel
  have f3 : (linprogSimplex P fuel tol0).status = 3 → Unbounded P := status3_unbounded P fuel
  have x02 : HasOptimum P → Infeasible P → False := fun ⟨x, hx, _⟩ hi => hi ⟨x, hx⟩
  have x03 : HasOptimum P → Unbounded P → False := by
    rintro ⟨x, _, hopt⟩ hu
    obtain ⟨x', hx', hlt⟩ := hu (objective P x)
    exact absurd (hopt x' hx') (not_le.mpr hlt)
  have x23 : Infeasible P → Unbounded P → False := by
    intro hi hu
    obtain ⟨x, hx, _⟩ := hu 0
    exact hi ⟨x, hx⟩
  have hcases : (linprogSimplex P fuel tol0).status = 0 ∨ (linprogSimplex P fuel tol0).status = 2 ∨
      (linprogSimplex P fuel tol0).status = 3 := by
    simp only [List.mem_cons, List.not_mem_nil, or_false] at hrange
    rcases hrange with h | h | h | h
    · exact Or.inl h
    · exact absurd h hcap
    · exact Or.inr (Or.inl h)
    · exact Or.inr (Or.inr h)
  refine ⟨⟨f0, fun ho => ?_⟩, ⟨f2, fun hi => ?_⟩, ⟨f3, fun hu => ?_⟩⟩
  · rcases hcases with h | h | h
    · exact h
    · exact absurd (f2 h) (fun hi => x02 ho hi)
    · exact absurd (f3 h) (fun hu => x03 ho hu)
  · rcases hcases with h | h | h
    · exact absurd (f0 h) (fun ho => x02 ho hi)
    · exact h
    · exact absurd (f3 h) (fun hu => x23 hi hu)
  · rcases hcases with h | h | h
    · exact absurd (f0 h) (fun ho => x03 ho hu)
    · exact absurd (f2 h) (fun hi => x23 hi hu)
    · exact h

/-! ## termination of the lexicographic rule -/

/-- **lex_pivot_descent.** From lexicographically positive constraint rows (read along the
    right-hand side, then the `slack_start` block — the order `_lex_min_ratio_test` uses), one
    pivoting iteration of `solve_tableau` keeps all rows lex-positive and makes the criterion
    row strictly lex-smaller.  (Together with: the criterion row is determined by the basis,
    `crit_of_basis`, so no basis can recur.) -/
theorem lex_pivot_descent (skip : Bool) (T : M K) (b : List ℕ) (T' : M K) (b' : List ℕ) (L N : ℕ)
    (hLN : L ≤ N) (hs : Shape T L N) (hlex : LexRows T L N (N - L))
    (hst : Step (tol0 : Tol K) skip T b T' b') :
    LexRows T' L N (N - L) ∧
      LexLt (lexCols L N (N - L)) (fun col => T'.get L col) (fun col => T.get L col) := by
  obtain ⟨c, r, _, hr, hp, hpos, hmin, hT, _⟩ := step_data_lex skip T b T' b' L N hs hst
  subst hT
  exact ⟨lexRows_pivot T L N (N - L) c r hs (by omega) hlex hr hp hmin,
    crit_lex_decreases T L N (N - L) c r hs (by omega) hlex hr hp hpos⟩

/-- **phase1_terminates.** Phase 1 of `linprog_simplex` (exact arithmetic) always terminates:
    its start tableau has the identity in the artificial block and non-negative right-hand
    sides, hence lex-positive rows; its simplex run makes at most `N^L + 1` iterations
    (`N = n+m+L` columns, `L = m+k` rows) and never stops at the cap once `max_iter` exceeds
    that. -/
theorem phase1_terminates (P : LP K) (fuel : ℕ)
    (hfuel : (P.n + P.m + (P.m + P.k)) ^ (P.m + P.k) + 1 < fuel) :
    (solveTableau (tol0 : Tol K) false fuel (initTableau P) (initBasis P)).status ≠ 1 ∧
    (solveTableau (tol0 : Tol K) false fuel (initTableau P) (initBasis P)).iters
      ≤ (P.n + P.m + (P.m + P.k)) ^ (P.m + P.k) + 1 :=
  phase1_loop_terminates P fuel hfuel

/-- **lexStartOK_when_no_cleanup.** If Phase 1 succeeds and the artificial clean-up makes no
    pivot, Phase 2 starts from lex-positive rows (`lexStartOK`, the predicate the driver
    evaluates). -/
theorem lexStartOK_when_no_cleanup (P : LP K) (fuel : ℕ)
    (h1 : (solvePhase1 tol0 fuel (initTableau P) (initBasis P)).status = 0)
    (hno : (solvePhase1 tol0 fuel (initTableau P) (initBasis P)).iters
      = (solveTableau (tol0 : Tol K) false fuel (initTableau P) (initBasis P)).iters) :
    lexStartOK P fuel (tol0 : Tol K) = true :=
  lexStartOK_of_no_cleanup P fuel h1 hno

/-- **linprog_terminates.** With `max_iter > 2(N^L+1) + L` and `lexStartOK` (Phase 2 starts
    from lex-positive rows) `linprog_simplex` (exact arithmetic) never reports status 1.
    Without `lexStartOK` (a clean-up pivot divided a row by a negative element) the textbook
    argument does not apply; no cycling instance was found by the search recorded in the
    evidence. -/
theorem linprog_terminates_lex (P : LP K) (fuel : ℕ)
    (hfuel : 2 * ((P.n + P.m + (P.m + P.k)) ^ (P.m + P.k) + 1) + (P.m + P.k) < fuel)
    (hlex : lexStartOK P fuel (tol0 : Tol K) = true) :
    (linprogSimplex P fuel tol0).status ≠ 1 :=
  linprog_terminates P fuel hfuel hlex

/-- **linprog_classification.** Under the same two hypotheses the status *is* the class of the
    program: success exactly when an optimum exists, status 2 exactly when infeasible, status 3
    exactly when unbounded — and one of the three always happens. -/
theorem linprog_classification (P : LP K) (fuel : ℕ)
    (hfuel : 2 * ((P.n + P.m + (P.m + P.k)) ^ (P.m + P.k) + 1) + (P.m + P.k) < fuel)
    (hlex : lexStartOK P fuel (tol0 : Tol K) = true) :
    ((linprogSimplex P fuel tol0).status = 0 ↔ HasOptimum P) ∧
    ((linprogSimplex P fuel tol0).status = 2 ↔ Infeasible P) ∧
    ((linprogSimplex P fuel tol0).status = 3 ↔ Unbounded P) ∧
    (HasOptimum P ∨ Infeasible P ∨ Unbounded P) := by
  have hcap := linprog_terminates P fuel hfuel hlex
  obtain ⟨h0, h2, h3⟩ := linprog_classification_partial P fuel hcap
  refine ⟨h0, h2, h3, ?_⟩
  have hrange := linprog_status_range P fuel (tol0 : Tol K)
  simp only [List.mem_cons, List.not_mem_nil, or_false] at hrange
  rcases hrange with h | h | h | h
  · exact Or.inl (h0.mp h)
  · exact absurd h hcap
  · exact Or.inr (Or.inl (h2.mp h))
  · exact Or.inr (Or.inr (h3.mp h))

/-- **iteration_bound_subsets.** From a lex-positive start `solve_tableau` visits every `L`-subset
    of the `N` columns at most once (the criterion row is determined by the *set* of basic
    columns and strictly lex-decreases): at most `C(N,L) + 1` iterations, for every `max_iter`;
    in particular Phase 1 of every LP. -/
theorem iteration_bound_subsets (P : LP K) (fuel : ℕ) :
    (solveTableau (tol0 : Tol K) false fuel (initTableau P) (initBasis P)).iters
      ≤ (P.n + P.m + (P.m + P.k)).choose (P.m + P.k) + 1 := by
  have hb := solveTableau_iters_bound_set false (initTableau P)
    (fun j => (initTableau P).get (P.m + P.k) j) (P.m + P.k) (P.n + P.m + (P.m + P.k)) (by omega)
    fuel (initTableau P) (initBasis P) ∅ (initTableau_termInv P) (by simp) (by simp)
  simpa using hb

/-- **linprog_terminates_default_cap.** On the whole domain of the property — at most 6 variables
    and at most 5 constraint rows — with the *default* `max_iter = 10^6`, `linprog_simplex`
    (exact arithmetic) never reports status 1 when Phase 2 starts from lex-positive rows
    (`lexStartOK`): the bound `2(C(N,L)+1)+L ≤ 25 747` is far below the cap. -/
theorem linprog_terminates_default_cap (P : LP K) (hn : P.n ≤ 6) (hL : P.m + P.k ≤ 5)
    (hlex : lexStartOK P (10 ^ 6) (tol0 : Tol K) = true) :
    (linprogSimplex P (10 ^ 6) tol0).status ≠ 1 :=
  linprog_terminates_choose P (10 ^ 6) (domain_bound P.n P.m P.k hn hL) hlex

/-- **linprog_classification_default_cap.** Same domain, default cap, `lexStartOK`: the status is
    the class of the program — success exactly when an optimum exists, 2 exactly when
    infeasible, 3 exactly when unbounded. -/
theorem linprog_classification_default_cap (P : LP K) (hn : P.n ≤ 6) (hL : P.m + P.k ≤ 5)
    (hlex : lexStartOK P (10 ^ 6) (tol0 : Tol K) = true) :
    ((linprogSimplex P (10 ^ 6) tol0).status = 0 ↔ HasOptimum P) ∧
    ((linprogSimplex P (10 ^ 6) tol0).status = 2 ↔ Infeasible P) ∧
    ((linprogSimplex P (10 ^ 6) tol0).status = 3 ↔ Unbounded P) :=
  linprog_classification_partial P (10 ^ 6) (linprog_terminates_default_cap P hn hL hlex)

/-- **status2_iff_infeasible.** For *every* LP and every `max_iter > C(N,L) + 1`, `linprog_simplex`
    (exact arithmetic) reports status 2 **exactly when** the constraints are infeasible — no
    hypothesis on the exit status, on `lexStartOK` or on Phase 2: Phase 1 always terminates,
    never reports 3, and a Phase-1 optimum of value 0 exhibits a feasible point. -/
theorem status2_iff_infeasible (P : LP K) (fuel : ℕ)
    (hfuel : (P.n + P.m + (P.m + P.k)).choose (P.m + P.k) + 1 < fuel) :
    (linprogSimplex P fuel tol0).status = 2 ↔ Infeasible P :=
  linprog_status2_iff P fuel hfuel

/-- **status2_iff_infeasible_default_cap.** On the property's domain (≤ 6 variables, ≤ 5 rows) with
    the default `max_iter = 10^6`: status 2 exactly when infeasible, unconditionally. -/
theorem status2_iff_infeasible_default_cap (P : LP K) (hn : P.n ≤ 6) (hL : P.m + P.k ≤ 5) :
    (linprogSimplex P (10 ^ 6) tol0).status = 2 ↔ Infeasible P :=
  linprog_status2_iff P (10 ^ 6) (by have := domain_bound P.n P.m P.k hn hL; omega)

/-! ## `minmax` -/

/-- **minmax_start_canonical.** After the shift to a positive matrix and the two hand pivots
    (`_pivoting(tableau, n, pivrow)`, `_pivoting(tableau, 0, m)`, `pivrow` = first argmax of
    column 0) the tableau handed to `solve_tableau` is canonical for the basis the code builds,
    has non-negative right-hand sides and is row-equivalent to the game LP
    `min v  s.t. (A+const) y − v·1 + s = 0, 1·y = 1`. -/
theorem minmax_start_canonical (A : ℕ → ℕ → K) (m n : ℕ) (hm : 1 ≤ m) (hn : 1 ≤ n) :
    let T0 := mmTableau A m n
    let T2 := mmStart A m n
    let b0 := mmBasis m n (mmPivRow T0 m)
    Shape T2 (m + 1) (n + 1 + m) ∧ Canon T2 b0 (m + 1) (n + 1 + m) ∧ RhsNonneg T2 (m + 1) (n + 1 + m) ∧
    (∀ z, RowsSat T2 z (m + 1) ↔ RowsSat T0 z (m + 1)) ∧
    (∀ z, RowsSat T2 z (m + 1) → resid T2 z (m + 1) = resid T0 z (m + 1)) := by
  intro T0 T2 b0
  obtain ⟨h1, h2, h3, h4, h5, _, _⟩ := mmStart_facts A m n hm hn
  exact ⟨h1, h2, h3, h4, h5⟩

/-- **T2 minmax_certificate.** If the simplex run inside `minmax` (exact arithmetic) ends with
    status 0, the returned `(v, x, y)` is a saddle-point certificate of the matrix game `A`
    (any real payoffs: negative, constant, duplicated rows): `x ∈ Δ_m`, `y ∈ Δ_n`,
    `(xᵀA)_j ≥ v` for every column and `(Ay)_i ≤ v` for every row, both attained — i.e.
    `min_j (xᵀA)_j = v = max_i (Ay)_i`, so `v` is the value of the game.
    (`minmax` itself ignores the status; that status 0 is always reached is the termination
    question not proved here — the correspondence run checks the status of every game.) -/
theorem minmax_certificate (A : ℕ → ℕ → K) (m n fuel : ℕ) (hm : 1 ≤ m) (hn : 1 ≤ n)
    (h0 : (minmax A m n fuel tol0).status = 0) :
    let R := minmax A m n fuel (tol0 : Tol K)
    let x := fun i => R.x.getD i 0
    let y := fun j => R.y.getD j 0
    ((∀ i, i < m → 0 ≤ x i) ∧ ∑ i ∈ range m, x i = 1) ∧
    ((∀ j, j < n → 0 ≤ y j) ∧ ∑ j ∈ range n, y j = 1) ∧
    (∀ j, j < n → R.v ≤ ∑ i ∈ range m, x i * A i j) ∧
    (∀ i, i < m → ∑ j ∈ range n, A i j * y j ≤ R.v) ∧
    (∃ j, j < n ∧ ∑ i ∈ range m, x i * A i j = R.v) ∧
    (∃ i, i < m ∧ ∑ j ∈ range n, A i j * y j = R.v) := by
  intro R x y
  obtain ⟨hx0, hxs, hy0, hys, hcol, hrow⟩ := minmax_core A m n fuel hm hn h0
  obtain ⟨a1, a2⟩ := saddle_attained A m n x y R.v hx0 hxs hy0 hys hcol hrow
  exact ⟨⟨hx0, hxs⟩, ⟨hy0, hys⟩, hcol, hrow, a1, a2⟩

/-- **minmax_never_unbounded.** The simplex run inside `minmax` (exact arithmetic) never ends
    in status 3 — which matters because `minmax` does not look at the status.  (The
    lexicographic columns `n..n+m` of the game tableau contain no identity, but together with
    the right-hand side they do, and the first pass of the ratio test is on the right-hand
    side, so ties are always resolved; and the game LP is bounded.)  Hence, unless the iteration
    cap is hit, the status is 0 and `minmax_certificate` applies. -/
theorem minmax_never_unbounded (A : ℕ → ℕ → K) (m n fuel : ℕ) (hm : 1 ≤ m) (hn : 1 ≤ n) :
    (minmax A m n fuel tol0).status ≠ 3 ∧
    ((minmax A m n fuel tol0).status ≠ 1 → (minmax A m n fuel tol0).status = 0) := by
  have h3 := minmax_not_status3 A m n fuel hm hn
  refine ⟨h3, fun h1 => ?_⟩
  have : (minmax A m n fuel (tol0 : Tol K)).status
      = (solveTableau (tol0 : Tol K) false (fuel - 2) (mmStart A m n)
          (mmBasis m n (mmPivRow (mmTableau A m n) m))).status := rfl
  rcases solveTableau_status (tol0 : Tol K) false (fuel - 2) (mmStart A m n)
    (mmBasis m n (mmPivRow (mmTableau A m n) m)) with s | s | s
  · rw [this]; exact s
  · exact absurd (this.trans s) h1
  · exact absurd (this.trans s) h3

/-- **minmax_value_certified.** `minmax` never looks at the status of its simplex run; this
    theorem needs no hypothesis on it.  If the first column of `A` has a unique largest entry
    (then the start tableau after the two hand pivots has lex-positive rows; the decidable guard
    is `lexRowsOK (mmStart A m n)`) and `max_iter > C(n+1+m, m+1) + 3` (e.g. the default `10^6`
    for every matrix up to 8×8), the returned `(v, x, y)` is a saddle-point certificate:
    `x ∈ Δ_m`, `y ∈ Δ_n`, `min_j (xᵀA)_j = v = max_i (Ay)_i`. -/
theorem minmax_value_certified (A : ℕ → ℕ → K) (m n fuel : ℕ) (hm : 1 ≤ m) (hn : 1 ≤ n)
    (hlex : lexRowsOK (mmStart A m n) = true) (hfuel : (n + 1 + m).choose (m + 1) + 3 < fuel) :
    let R := minmax A m n fuel (tol0 : Tol K)
    let x := fun i => R.x.getD i 0
    let y := fun j => R.y.getD j 0
    ((∀ i, i < m → 0 ≤ x i) ∧ ∑ i ∈ range m, x i = 1) ∧
    ((∀ j, j < n → 0 ≤ y j) ∧ ∑ j ∈ range n, y j = 1) ∧
    (∀ j, j < n → R.v ≤ ∑ i ∈ range m, x i * A i j) ∧
    (∀ i, i < m → ∑ j ∈ range n, A i j * y j ≤ R.v) ∧
    (∃ j, j < n ∧ ∑ i ∈ range m, x i * A i j = R.v) ∧
    (∃ i, i < m ∧ ∑ j ∈ range n, A i j * y j = R.v) :=
  minmax_certificate A m n fuel hm hn (minmax_status0 A m n fuel hm hn hlex hfuel)

/-- **minmax_guard_unique_max.** The guard of `minmax_value_certified` holds whenever the first
    column of `A` has a unique largest entry. -/
theorem minmax_guard_unique_max (A : ℕ → ℕ → K) (m n : ℕ) (hm : 1 ≤ m) (hn : 1 ≤ n)
    (huniq : ∃ p, p < m ∧ ∀ i, i < m → i ≠ p → A i 0 < A p 0) :
    lexRowsOK (mmStart A m n) = true :=
  mmStart_lexRowsOK A m n hm hn huniq

/-- **minmax_guard_iff.** The rows `minmax` hands to `solve_tableau` (after the two hand pivots,
    `mmStartT`) are lexicographically positive **exactly when** column 0 of `A` attains its
    maximum in a single row (`minmaxUniqueMax`, judged on `A` itself).  With a tie, the later tied
    row has right-hand side 0 and first non-zero lexicographic entry `−1`: that is precisely the
    case in which termination of `minmax`'s simplex run is *not* covered by
    `minmax_value_certified` (the harness replays every such game with cycle detection). -/
theorem minmax_guard_iff (A : ℕ → ℕ → K) (m n : ℕ) (hm : 1 ≤ m) (hn : 1 ≤ n) :
    minmaxLexOK A m n = minmaxUniqueMax A m n :=
  minmaxLexOK_iff A m n hm hn

/-- **minmax_certified_of_unique_max.** `minmax_value_certified` with the guard stated on the
    matrix: if `minmaxUniqueMax A m n` (executable) and `max_iter > C(n+1+m, m+1) + 3`, the
    returned `(v, x, y)` is a saddle-point certificate, whatever status the inner run reports. -/
theorem minmax_certified_of_unique_max (A : ℕ → ℕ → K) (m n fuel : ℕ) (hm : 1 ≤ m) (hn : 1 ≤ n)
    (hu : minmaxUniqueMax A m n = true) (hfuel : (n + 1 + m).choose (m + 1) + 3 < fuel) :
    let R := minmax A m n fuel (tol0 : Tol K)
    let x := fun i => R.x.getD i 0
    let y := fun j => R.y.getD j 0
    ((∀ i, i < m → 0 ≤ x i) ∧ ∑ i ∈ range m, x i = 1) ∧
    ((∀ j, j < n → 0 ≤ y j) ∧ ∑ j ∈ range n, y j = 1) ∧
    (∀ j, j < n → R.v ≤ ∑ i ∈ range m, x i * A i j) ∧
    (∀ i, i < m → ∑ j ∈ range n, A i j * y j ≤ R.v) ∧
    (∃ j, j < n ∧ ∑ i ∈ range m, x i * A i j = R.v) ∧
    (∃ i, i < m ∧ ∑ j ∈ range n, A i j * y j = R.v) := by
  have hlex : lexRowsOK (mmStart A m n) = true := by
    have := minmaxLexOK_iff A m n hm hn
    rw [hu] at this
    exact this
  exact minmax_value_certified A m n fuel hm hn hlex hfuel

omit [IsStrictOrderedRing K] in
/-- `minmax` runs `solve_tableau` on exactly the modelled start tableau and basis -/
theorem minmax_runs_on_start (A : ℕ → ℕ → K) (m n fuel : ℕ) (tol : Tol K) :
    (minmax A m n fuel tol).status
      = (solveTableau tol false (fuel - 2) (mmStartT A m n) (mmBasisT A m n)).status ∧
    (minmax A m n fuel tol).iters
      = (solveTableau tol false (fuel - 2) (mmStartT A m n) (mmBasisT A m n)).iters :=
  ⟨rfl, rfl⟩

/-! ## non-vacuity: concrete programs over ℚ on which the hypotheses hold -/

/-- max x+y s.t. x+y ≤ 1, −x−y ≤ −2 : infeasible -/
def exInfeasible : LP ℚ :=
  ⟨2, 2, 0, fnOfList [1, 1], fnOfMat [[1, 1], [-1, -1]], fnOfList [1, -2], fnOfMat [], fnOfList []⟩
/-- max x+y s.t. x+2y ≤ 4, 3x+y ≤ 6 : optimum 14/5 at (8/5, 6/5) -/
def exOptimal : LP ℚ :=
  ⟨2, 2, 0, fnOfList [1, 1], fnOfMat [[1, 2], [3, 1]], fnOfList [4, 6], fnOfMat [], fnOfList []⟩
/-- max x+y s.t. x−y ≤ 1 : unbounded -/
def exUnbounded : LP ℚ :=
  ⟨2, 1, 0, fnOfList [1, 1], fnOfMat [[1, -1]], fnOfList [1], fnOfMat [], fnOfList []⟩

example : (linprogSimplex exInfeasible 100 tol0).status = 2 ∧
    (linprogSimplex exInfeasible 100 tol0).cert = [1, 1] := by decide +kernel
example : (linprogSimplex exOptimal 100 tol0).status = 0 ∧
    (linprogSimplex exOptimal 100 tol0).x = [8/5, 6/5] ∧
    (linprogSimplex exOptimal 100 tol0).fn = some (14/5) := by decide +kernel
example : (linprogSimplex exOptimal 100 tol0).lambd = [2/5, 1/5] := by decide +kernel
example : (linprogSimplex exOptimal 3 tol0).status = 1 ∧ (linprogSimplex exOptimal 3 tol0).iters = 3 := by
  decide +kernel
example : (linprogSimplex exUnbounded 100 tol0).status = 3 ∧
    (linprogSimplex exUnbounded 100 tol0).cert = [1, 1] := by decide +kernel
-- hypotheses of the tableau-level theorems hold for every initial tableau:
example : Shape (initTableau exOptimal) 2 6 ∧ Canon (initTableau exOptimal) (initBasis exOptimal) 2 6 ∧
    RhsNonneg (initTableau exOptimal) 2 6 :=
  ⟨initTableau_shape exOptimal, initTableau_canon exOptimal, initTableau_rhs_nonneg exOptimal⟩
example : (solveTableau tol0 false 100 (initTableau exOptimal) (initBasis exOptimal)).status = 0 := by
  decide +kernel
example : (solveTableau tol0 true 100 (setCriterionRow exUnbounded.c 2
    (solvePhase1 tol0 100 (initTableau exUnbounded) (initBasis exUnbounded)).basis
    (solvePhase1 tol0 100 (initTableau exUnbounded) (initBasis exUnbounded)).T)
    (solvePhase1 tol0 100 (initTableau exUnbounded) (initBasis exUnbounded)).basis).status = 3 := by
  decide +kernel
example : lexMinRatio (dropLast (initTableau exOptimal)) 0 4 (0 : ℚ) 0 = (true, 1) := by decide +kernel
example : lexStartOK exOptimal 100 tol0 = true ∧ lexStartOK exUnbounded 100 tol0 = true := by decide +kernel
/-- max −x+y s.t. −x−y = 0 (twice): the clean-up pivots on a negative element, so `lexStartOK`
    fails — the hypothesis of `linprog_terminates_lex` is not vacuous and not always true; the
    run still terminates with status 0 -/
def exNegCleanup : LP ℚ :=
  ⟨2, 0, 2, fnOfList [-1, 1], fnOfMat [], fnOfList [], fnOfMat [[-1, -1], [-1, -1]], fnOfList [0, 0]⟩
example : lexStartOK exNegCleanup 100 tol0 = false ∧ (linprogSimplex exNegCleanup 100 tol0).status = 0 := by
  decide +kernel
example : 2 * ((exOptimal.n + exOptimal.m + (exOptimal.m + exOptimal.k)) ^ (exOptimal.m + exOptimal.k) + 1)
    + (exOptimal.m + exOptimal.k) < 100 := by decide
/-- the code's tolerances 1e-6, 1e-7, 1e-13 (as decimal rationals) -/
def exTol : Tol ℚ := ⟨1/1000000, 1/10000000, 1/10000000000000⟩
example : (0 : ℚ) ≤ exTol.piv ∧
    (solveTableau exTol false 100 (initTableau exOptimal) (initBasis exOptimal)).status = 0 := by
  decide +kernel
example : exOptimal.n ≤ 6 ∧ exOptimal.m + exOptimal.k ≤ 5 ∧ lexStartOK exOptimal (10 ^ 6) tol0 = true := by
  decide +kernel
example : (exInfeasible.n + exInfeasible.m + (exInfeasible.m + exInfeasible.k)).choose
    (exInfeasible.m + exInfeasible.k) + 1 < 100 ∧ exInfeasible.n ≤ 6 ∧ exInfeasible.m + exInfeasible.k ≤ 5 := by
  decide
/-- matching pennies with a negative entry: value 0 at (1/2,1/2), (1/2,1/2) -/
def exGame : ℕ → ℕ → ℚ := fnOfMat [[1, -1], [-1, 1]]
example : (minmax exGame 2 2 100 tol0).status = 0 ∧ (minmax exGame 2 2 100 tol0).v = 0 ∧
    (minmax exGame 2 2 100 tol0).x = [1/2, 1/2] ∧ (minmax exGame 2 2 100 tol0).y = [1/2, 1/2] := by
  decide +kernel

-- guard of `minmax_value_certified`: holds for `exGame` (unique maximum 1 in column 0) ...
example : lexRowsOK (mmStart exGame 2 2) = true ∧ (2 + 1 + 2).choose (2 + 1) + 3 < 100 ∧
    (∃ p, p < 2 ∧ ∀ i, i < 2 → i ≠ p → exGame i 0 < exGame p 0) := by
  refine ⟨by decide +kernel, by decide, 0, by decide, ?_⟩
  intro i hi hne
  have : i = 1 := by omega
  subst this
  decide +kernel
/-- ... and fails for a constant matrix (tie in column 0: a row of the start tableau is
    lex-negative); the run still ends with status 0 and the value 2 -/
def exConstGame : ℕ → ℕ → ℚ := fnOfMat [[2, 2], [2, 2]]
example : lexRowsOK (mmStart exConstGame 2 2) = false ∧ (minmax exConstGame 2 2 100 tol0).status = 0 ∧
    (minmax exConstGame 2 2 100 tol0).v = 2 := by decide +kernel

example : minmaxUniqueMax exGame 2 2 = true ∧ minmaxLexOK exGame 2 2 = true ∧
    minmaxUniqueMax exConstGame 2 2 = false ∧ minmaxLexOK exConstGame 2 2 = false := by decide +kernel

end QE.C04
