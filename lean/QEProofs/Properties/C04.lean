/-
  Property C04 — theorems about QEModel.C04 (stub; to be filled in).
-/
import QEModel.C04
namespace QE.C04

end QE.C04
