/-
  #audit_module M : for every theorem declared in module M print
      AUDIT <name> [<axioms it depends on>]
  (Lean.collectAxioms, the same traversal `#print axioms` uses).
-/
import Lean
open Lean Elab Command

elab "#audit_module " id:ident : command => do
  let env ← getEnv
  let some idx := env.getModuleIdx? id.getId
    | throwError "unknown module {id.getId}"
  let names := env.header.moduleData[idx.toNat]!.constNames
  for n in names do
    if n.isInternalDetail then continue
    match env.find? n with
    | some (.thmInfo _) =>
      let axs ← Lean.collectAxioms n
      let l := ", ".intercalate (axs.toList.map toString)
      logInfo m!"AUDIT {n} [{l}]"
    | _ => pure ()
