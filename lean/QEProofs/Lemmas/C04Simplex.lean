/-
  C04 — the invariant of the `solve_tableau` loop in exact arithmetic
  (tolerances 0): shape, canonical form, non-negative right-hand sides, the
  solution set of the constraint rows and the objective function are those of
  the tableau the loop started from.  Holds for every fuel, every size.
-/
import QEProofs.Lemmas.C04Loop
import QEProofs.Lemmas.C04Inv
import QEProofs.Lemmas.C04Opt
namespace QE.C04
open QE QE.Pivot Finset

variable {K : Type} [Field K] [LinearOrder K] [IsStrictOrderedRing K]

omit [IsStrictOrderedRing K] in
/-- what one pivoting iteration of `solveTableau tol0` does, in plain terms -/
theorem step_data (skip : Bool) (T : M K) (b : List ℕ) (T' : M K) (b' : List ℕ) (L N : ℕ)
    (hs : Shape T L N) (h : Step (tol0 : Tol K) skip T b T' b') :
    ∃ c r, c < N - (if skip then L else 0) ∧ r < L ∧ 0 < T.get r c ∧ 0 < T.get L c ∧
      (∀ k, k < L → 0 < T.get k c → T.get r N / T.get r c ≤ T.get k N / T.get k c) ∧
      T' = pivot T c r ∧ b' = b.set r c := by
  obtain ⟨hnr, hnc⟩ := hs
  obtain ⟨c, hpc, hf, hT, hb⟩ := h
  have hL : T.nr - 1 = L := by rw [hnr]; rfl
  have hN : T.nc - 1 = N := by rw [hnc]; rfl
  obtain ⟨h1, h2, _⟩ := pivotCol_some T skip (tol0 : Tol K).fea c hpc
  rw [hL, hN] at h1
  rw [hL] at h2
  set r := (lexMinRatio (dropLast T) c (T.nc - (T.nr - 1) - 1) (tol0 : Tol K).piv (tol0 : Tol K).diff).2
    with hr
  have hfound : lexMinRatio (dropLast T) c (T.nc - (T.nr - 1) - 1) (0 : K) 0 = (true, r) :=
    Prod.ext hf rfl
  obtain ⟨g1, g2, g3⟩ := lexMinRatio_found (dropLast T) c _ 0 r hfound
  simp only [dropLast_nr, dropLast_nc, dropLast_get, hL, hN] at g1 g2 g3
  exact ⟨c, r, h1, g1, g2, h2, g3, hT, hb⟩

/-- the loop invariant relative to the starting tableau `T0` -/
structure Inv0 (T0 : M K) (L N : ℕ) (T : M K) (b : List ℕ) : Prop where
  shape : Shape T L N
  canon : Canon T b L N
  rhs : RhsNonneg T L N
  sol : ∀ z, RowsSat T z L ↔ RowsSat T0 z L
  obj : ∀ z, RowsSat T z L → resid T z L = resid T0 z L

omit [IsStrictOrderedRing K] in
theorem inv0_refl (T0 : M K) (b0 : List ℕ) (L N : ℕ) (hs : Shape T0 L N) (hc : Canon T0 b0 L N)
    (hr : RhsNonneg T0 L N) : Inv0 T0 L N T0 b0 :=
  ⟨hs, hc, hr, fun _ => Iff.rfl, fun _ _ => rfl⟩

theorem inv0_step (skip : Bool) (T0 : M K) (L N : ℕ) (T : M K) (b : List ℕ) (T' : M K)
    (b' : List ℕ) (h : Inv0 T0 L N T b) (hst : Step (tol0 : Tol K) skip T b T' b') :
    Inv0 T0 L N T' b' := by
  obtain ⟨c, r, hc, hr, hp, _, hmin, hT, hb⟩ := step_data skip T b T' b' L N h.shape hst
  subst hT hb
  have hcN : c < N := by omega
  exact ⟨shape_pivot T L N c r h.shape,
    canon_pivot T b L N c r h.shape h.canon hcN hr (ne_of_gt hp),
    rhs_pivot T L N c r h.shape h.rhs hr hp hmin,
    solset_pivot T T0 L N c r h.shape hr (ne_of_gt hp) h.sol,
    obj_pivot T T0 L N c r h.shape hr (ne_of_gt hp) h.obj⟩

/-- **the invariant holds at exit of `solve_tableau`, for every `max_iter`** -/
theorem solveTableau_inv0 (skip : Bool) (fuel : ℕ) (T0 : M K) (b0 : List ℕ) (L N : ℕ)
    (hs : Shape T0 L N) (hc : Canon T0 b0 L N) (hr : RhsNonneg T0 L N) :
    Inv0 T0 L N (solveTableau tol0 skip fuel T0 b0).T (solveTableau tol0 skip fuel T0 b0).basis :=
  solveTableau_induct tol0 skip (Inv0 T0 L N) (fun T b T' b' h hst => inv0_step skip T0 L N T b T' b' h hst)
    fuel T0 b0 (inv0_refl T0 b0 L N hs hc hr)

/-- optimality of the basic solution of a tableau satisfying the invariant on which
    `_pivot_col` finds no entering column -/
theorem inv0_optimal (skip : Bool) (T0 : M K) (L N : ℕ) (T : M K) (b : List ℕ)
    (h : Inv0 T0 L N T b) (hpc : pivotCol T skip (0 : K) = none) :
    (∀ j, 0 ≤ bsol T b L N j) ∧ RowsSat T0 (bsol T b L N) L ∧
    resid T0 (bsol T b L N) L = - T.get L N ∧
    ∀ z : ℕ → K, (∀ j, j < N → 0 ≤ z j) → RowsSat T0 z L →
      (skip = true → ∀ j, N - L ≤ j → j < N → z j = 0) → resid T0 z L ≤ resid T0 (bsol T b L N) L := by
  have hL : T.nr - 1 = L := by rw [h.shape.1]; rfl
  have hN : T.nc - 1 = N := by rw [h.shape.2]; rfl
  have hsat := bsol_rowsSat T b L N h.shape h.canon
  have hobj : resid T0 (bsol T b L N) L = - T.get L N := by
    rw [← h.obj _ hsat]; exact bsol_obj T b L N h.shape h.canon
  refine ⟨fun j => bsol_nonneg T b L N j h.rhs, (h.sol _).mp hsat, hobj, ?_⟩
  intro z hz hrows hskip
  have hrowsT : RowsSat T z L := (h.sol z).mpr hrows
  rw [hobj, ← h.obj z hrowsT]
  apply obj_le_of_nonpos T L N z h.shape hz
  intro j hj
  have hnone := pivotCol_none T skip 0 hpc j
  rw [hL, hN] at hnone
  cases skip with
  | false => left; exact hnone (by simpa using hj)
  | true =>
    by_cases hjl : j < N - L
    · left; exact hnone (by simpa using hjl)
    · right; exact hskip rfl j (by omega) hj

/-- a column with positive reduced cost and no positive entry gives a feasible ray of `T0`
    along which the objective of `T0` grows without bound -/
theorem inv0_ray (T0 : M K) (L N : ℕ) (T : M K) (b : List ℕ) (c : ℕ)
    (h : Inv0 T0 L N T b) (hcN : c < N) (hpos : 0 < T.get L c) (hcol : ∀ i, i < L → T.get i c ≤ 0) :
    ∀ t : K, 0 ≤ t →
      (∀ j, 0 ≤ bsol T b L N j + t * rayDir T b L c j) ∧
      RowsSat T0 (fun j => bsol T b L N j + t * rayDir T b L c j) L ∧
      resid T0 (fun j => bsol T b L N j + t * rayDir T b L c j) L = - T.get L N + t * T.get L c := by
  intro t ht
  have hnb : ∀ i, i < L → b.getD i 0 ≠ c := by
    intro i hi e
    have := (h.canon.2 i hi).2 L (by omega)
    rw [e] at this
    simp [show ¬ L = i by omega] at this
    rw [this] at hpos
    exact lt_irrefl _ hpos
  have hsat := ray_rowsSat T b L N c t h.shape h.canon hcN hnb
  refine ⟨fun j => ray_nonneg T b L N c t j h.rhs ht hcol, (h.sol _).mp hsat, ?_⟩
  rw [← h.obj _ hsat]
  exact ray_obj T b L N c t h.shape h.canon hcN hnb

end QE.C04
