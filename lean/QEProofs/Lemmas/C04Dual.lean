/-
  C04 — row-space bookkeeping for the dual certificate.  Every row of every
  tableau met by `linprog_simplex` is a linear combination of the rows of the
  initial tableau, and the Phase-2 criterion row is `(c,0,…,0 | 0)` minus such a
  combination.  Reading the combination off the artificial columns gives
  `get_solution`'s `lambd`, which is therefore dual feasible with `b·λ = fun`.
-/
import QEProofs.Lemmas.C04Final
namespace QE.C04
open QE QE.Pivot Finset

variable {K : Type} [Field K] [LinearOrder K] [IsStrictOrderedRing K]

/-! ### span of the initial rows -/

/-- `v` (read on the columns `0..N`) is a linear combination of the rows `< L` of `T0` -/
def InSpan (T0 : M K) (L N : ℕ) (v : ℕ → K) : Prop :=
  ∃ w : ℕ → K, ∀ j, j < N + 1 → v j = ∑ i ∈ range L, w i * T0.get i j

omit [LinearOrder K] [IsStrictOrderedRing K] in
theorem inSpan_zero (T0 : M K) (L N : ℕ) : InSpan T0 L N (fun _ => 0) :=
  ⟨fun _ => 0, fun j _ => by simp⟩

omit [LinearOrder K] [IsStrictOrderedRing K] in
theorem inSpan_row (T0 : M K) (L N i : ℕ) (hi : i < L) : InSpan T0 L N (fun j => T0.get i j) := by
  refine ⟨fun i' => if i' = i then 1 else 0, fun j _ => ?_⟩
  have : ∀ i' ∈ range L, (if i' = i then (1 : K) else 0) * T0.get i' j
      = if i' = i then T0.get i' j else 0 := by
    intro i' _; split_ifs <;> simp
  rw [Finset.sum_congr rfl this, Finset.sum_ite_eq']
  simp [hi]

omit [LinearOrder K] [IsStrictOrderedRing K] in
theorem inSpan_add (T0 : M K) (L N : ℕ) (u v : ℕ → K) (hu : InSpan T0 L N u) (hv : InSpan T0 L N v) :
    InSpan T0 L N (fun j => u j + v j) := by
  obtain ⟨w1, h1⟩ := hu
  obtain ⟨w2, h2⟩ := hv
  refine ⟨fun i => w1 i + w2 i, fun j hj => ?_⟩
  simp only [add_mul, Finset.sum_add_distrib]
  rw [h1 j hj, h2 j hj]

omit [LinearOrder K] [IsStrictOrderedRing K] in
theorem inSpan_smul (T0 : M K) (L N : ℕ) (a : K) (v : ℕ → K) (hv : InSpan T0 L N v) :
    InSpan T0 L N (fun j => a * v j) := by
  obtain ⟨w, h⟩ := hv
  refine ⟨fun i => a * w i, fun j hj => ?_⟩
  simp only [mul_assoc, ← Finset.mul_sum]
  rw [h j hj]

omit [LinearOrder K] [IsStrictOrderedRing K] in
theorem inSpan_congr (T0 : M K) (L N : ℕ) (u v : ℕ → K) (h : ∀ j, j < N + 1 → v j = u j)
    (hu : InSpan T0 L N u) : InSpan T0 L N v := by
  obtain ⟨w, hw⟩ := hu
  exact ⟨w, fun j hj => by rw [h j hj, hw j hj]⟩

/-- every constraint row of `T` is in the span of the rows of `T0` -/
def RowsSpan (T0 T : M K) (L N : ℕ) : Prop := ∀ i, i < L → InSpan T0 L N (fun j => T.get i j)

/-- `base − (criterion row of T)` is in the span of the rows of `T0` -/
def CritSpan (T0 T : M K) (L N : ℕ) (base : ℕ → K) : Prop :=
  InSpan T0 L N (fun j => base j - T.get L j)

omit [LinearOrder K] [IsStrictOrderedRing K] in
theorem rowsSpan_refl (T0 : M K) (L N : ℕ) : RowsSpan T0 T0 L N := fun i hi => inSpan_row T0 L N i hi

theorem rowsSpan_pivot (T0 T : M K) (L N c r : ℕ) (hs : Shape T L N) (hr : r < L)
    (h : RowsSpan T0 T L N) : RowsSpan T0 (pivot T c r) L N := by
  intro i hi
  by_cases hir : i = r
  · subst hir
    apply inSpan_congr T0 L N (fun j => (1 / T.get i c) * T.get i j) _ _
      (inSpan_smul T0 L N _ _ (h i hi))
    intro j hj
    rw [pivot_get_r T c i j (by rw [hs.1]; omega) (by rw [hs.2]; exact hj)]; ring
  · apply inSpan_congr T0 L N (fun j => T.get i j + (-(T.get i c / T.get r c)) * T.get r j) _ _
      (inSpan_add T0 L N _ _ (h i hi) (inSpan_smul T0 L N _ _ (h r hr)))
    intro j hj
    rw [pivot_get_i T c r i j (by rw [hs.1]; omega) (by rw [hs.2]; exact hj) hir]; ring

theorem critSpan_pivot (T0 T : M K) (L N c r : ℕ) (base : ℕ → K) (hs : Shape T L N) (hr : r < L)
    (h : RowsSpan T0 T L N) (hc : CritSpan T0 T L N base) : CritSpan T0 (pivot T c r) L N base := by
  unfold CritSpan at *
  apply inSpan_congr T0 L N (fun j => (base j - T.get L j) + (T.get L c / T.get r c) * T.get r j) _ _
    (inSpan_add T0 L N _ _ hc (inSpan_smul T0 L N _ _ (h r hr)))
  intro j hj
  rw [pivot_get_i T c r L j (by rw [hs.1]; omega) (by rw [hs.2]; exact hj) (by omega)]; ring

/-! ### through the loops -/

/-- `solve_tableau` keeps the rows (and `base −` criterion row) in the span -/
theorem solveTableau_span (skip : Bool) (fuel : ℕ) (T0 T1 : M K) (b1 : List ℕ) (L N : ℕ)
    (base : ℕ → K) (hs : Shape T1 L N) (h : RowsSpan T0 T1 L N) (hc : CritSpan T0 T1 L N base) :
    RowsSpan T0 (solveTableau tol0 skip fuel T1 b1).T L N ∧
      CritSpan T0 (solveTableau tol0 skip fuel T1 b1).T L N base := by
  have := solveTableau_induct (tol0 : Tol K) skip
    (fun T _ => Shape T L N ∧ RowsSpan T0 T L N ∧ CritSpan T0 T L N base)
    (by
      intro T b T' b' ⟨hsT, hrT, hcT⟩ hst
      obtain ⟨c, r, _, hr, _, _, _, hT, _⟩ := step_data skip T b T' b' L N hsT hst
      subst hT
      exact ⟨shape_pivot T L N c r hsT, rowsSpan_pivot T0 T L N c r hsT hr hrT,
        critSpan_pivot T0 T L N c r base hsT hr hrT hcT⟩)
    fuel T1 b1 ⟨hs, h, hc⟩
  exact ⟨this.2.1, this.2.2⟩

theorem cleanupStep_span (T0 : M K) (L N nm q : ℕ) (r : Res K) (hq : q < L)
    (h : Shape r.T L N ∧ RowsSpan T0 r.T L N) :
    Shape (cleanupStep (0 : K) nm r q).T L N ∧ RowsSpan T0 (cleanupStep (0 : K) nm r q).T L N := by
  unfold cleanupStep
  split_ifs
  · split
    · exact ⟨shape_pivot r.T L N _ q h.1, rowsSpan_pivot T0 r.T L N _ q h.1 hq h.2⟩
    · exact h
  · exact h

theorem cleanup_span (T0 : M K) (L N nm : ℕ) (r : Res K)
    (h : Shape r.T L N ∧ RowsSpan T0 r.T L N) :
    ∀ q, q ≤ L → Shape ((List.range q).foldl (cleanupStep (0 : K) nm) r).T L N ∧
      RowsSpan T0 ((List.range q).foldl (cleanupStep (0 : K) nm) r).T L N := by
  intro q
  induction q with
  | zero => intro _; simpa using h
  | succ q ih =>
    intro hq
    rw [List.range_succ, List.foldl_append]
    exact cleanupStep_span T0 L N nm q _ (by omega) (ih (by omega))

/-- the tableau handed to Phase 2 has its rows in the span of the initial rows -/
theorem solvePhase1_span (P : LP K) (fuel : ℕ)
    (h : (solvePhase1 tol0 fuel (initTableau P) (initBasis P)).status = 0) :
    RowsSpan (initTableau P) (solvePhase1 tol0 fuel (initTableau P) (initBasis P)).T
      (P.m + P.k) (P.n + P.m + (P.m + P.k)) := by
  rcases solvePhase1_cases (tol0 : Tol K) fuel (initTableau P) (initBasis P) with
    ⟨h1, e⟩ | ⟨_, _, e⟩ | ⟨_, _, e⟩
  · rw [e] at h; exact absurd h h1
  · rw [e] at h; simp at h
  · rw [e]
    have hL : (initTableau P).nr - 1 = P.m + P.k := rfl
    rw [hL]
    have hinv := solveTableau_inv0 false fuel (initTableau P) (initBasis P) _ _
      (initTableau_shape P) (initTableau_canon P) (initTableau_rhs_nonneg P)
    have hsp := solveTableau_span false fuel (initTableau P) (initTableau P) (initBasis P)
      (P.m + P.k) (P.n + P.m + (P.m + P.k)) (fun j => (initTableau P).get (P.m + P.k) j)
      (initTableau_shape P) (rowsSpan_refl _ _ _)
      (by unfold CritSpan; simp only [sub_self]; exact inSpan_zero _ _ _)
    exact (cleanup_span (initTableau P) _ _ _ _ ⟨hinv.shape, hsp.1⟩ (P.m + P.k) (le_refl _)).2

/-! ### `_set_criterion_row` -/

omit [LinearOrder K] [IsStrictOrderedRing K] in
theorem critRow_span (T0 T : M K) (b : List ℕ) (L N : ℕ) (base : ℕ → K) (hs : Shape T L N)
    (h : RowsSpan T0 T L N) (row0 : List K)
    (h0 : InSpan T0 L N (fun j => base j - row0.getD j 0)) :
    ∀ q, q ≤ L → InSpan T0 L N (fun j => base j - ((List.range q).foldl (critStep T b) row0).getD j 0) := by
  intro q
  induction q with
  | zero => intro _; simpa using h0
  | succ q ih =>
    intro hq
    rw [List.range_succ, List.foldl_append]
    simp only [List.foldl_cons, List.foldl_nil]
    set row := (List.range q).foldl (critStep T b) row0 with hrow
    apply inSpan_congr T0 L N
      (fun j => (base j - row.getD j 0) + row.getD (b.getD q 0) 0 * T.get q j) _ _
      (inSpan_add T0 L N _ _ (ih (by omega)) (inSpan_smul T0 L N _ _ (h q (by omega))))
    intro j hj
    rw [critStep_getD T b row q j (by rw [hs.2]; exact hj)]; ring

omit [LinearOrder K] [IsStrictOrderedRing K] in
theorem setCriterionRow_span (T0 T : M K) (b : List ℕ) (L N n : ℕ) (c : ℕ → K) (hs : Shape T L N)
    (h : RowsSpan T0 T L N) :
    RowsSpan T0 (setCriterionRow c n b T) L N ∧
    CritSpan T0 (setCriterionRow c n b T) L N (fun j => if j < n then c j else 0) := by
  constructor
  · intro i hi
    apply inSpan_congr T0 L N _ _ _ (h i hi)
    intro j hj
    exact setCriterionRow_get_row c n b T L N i j hs hi hj
  · unfold CritSpan
    have hL : T.nr - 1 = L := by rw [hs.1]; rfl
    have := critRow_span T0 T b L N (fun j => if j < n then c j else 0) hs h
      ((List.range T.nc).map fun j => if j < n then c j else 0)
      (by
        apply inSpan_congr T0 L N _ _ _ (inSpan_zero T0 L N)
        intro j hj
        rw [getD_map_range T.nc _ j (by rw [hs.2]; exact hj)]; simp)
      L (le_refl _)
    apply inSpan_congr T0 L N _ _ _ this
    intro j hj
    rw [setCriterionRow_get_crit c n b T L N j hs hj]
    unfold critRow
    rw [hL]

/-- **the final criterion row of a successful run** is `(c,0,…,0|0)` minus a combination of the
    rows of the initial tableau -/
theorem phase2_critSpan (P : LP K) (fuel : ℕ)
    (h1 : (solvePhase1 tol0 fuel (initTableau P) (initBasis P)).status = 0) :
    CritSpan (initTableau P) (phase2Run P fuel (tol0 : Tol K)).T (P.m + P.k)
      (P.n + P.m + (P.m + P.k)) (fun j => if j < P.n then P.c j else 0) := by
  have I1 := solvePhase1_success P fuel h1
  have hsp := solvePhase1_span P fuel h1
  obtain ⟨hr, hc⟩ := setCriterionRow_span (initTableau P) _ (solvePhase1 tol0 fuel (initTableau P) (initBasis P)).basis
    _ _ P.n P.c I1.shape hsp
  exact (solveTableau_span true _ (initTableau P) _ _ _ _ _
    (setCriterionRow_shape P.c P.n _ _ _ _ I1.shape) hr hc).2

end QE.C04
