/-
  C04 — status 1 of `linprog_simplex` means the iteration cap was reached.
-/
import QEProofs.Lemmas.C04Final
namespace QE.C04
open QE QE.Pivot Finset

variable {K : Type} [Field K] [LinearOrder K]

theorem linprogSimplex_iters (P : LP K) (fuel : ℕ) (tol : Tol K) :
    (linprogSimplex P fuel tol).iters
      = if (solvePhase1 tol fuel (initTableau P) (initBasis P)).status ≠ 0
        then (solvePhase1 tol fuel (initTableau P) (initBasis P)).iters
        else (solvePhase1 tol fuel (initTableau P) (initBasis P)).iters + (phase2Run P fuel tol).iters := by
  unfold linprogSimplex phase2Run
  simp only
  by_cases h : (solvePhase1 tol fuel (initTableau P) (initBasis P)).status ≠ 0
  · rw [if_pos h, if_pos h]
  · rw [if_neg h, if_neg h]

/-- **status 1 ⇒ the iteration limit was reached**: `num_iter ≥ max_iter` (any tolerances) -/
theorem linprog_status1_core (P : LP K) (fuel : ℕ) (tol : Tol K)
    (h : (linprogSimplex P fuel tol).status = 1) : fuel ≤ (linprogSimplex P fuel tol).iters := by
  rw [linprogSimplex_iters]
  rw [linprogSimplex_status] at h
  by_cases h1 : (solvePhase1 tol fuel (initTableau P) (initBasis P)).status ≠ 0
  · rw [if_pos h1] at h ⊢
    rcases solvePhase1_cases tol fuel (initTableau P) (initBasis P) with ⟨_, e⟩ | ⟨_, _, e⟩ | ⟨h0, _, e⟩
    · rw [e] at h ⊢
      exact le_of_eq (solveTableau_status1 tol false fuel _ _ h).symm
    · rw [e] at h; simp at h
    · rw [e, cleanup_status, h0] at h; simp at h
  · rw [if_neg h1] at h ⊢
    have := solveTableau_status1 tol true _ _ _ h
    unfold phase2Run
    simp only
    omega

end QE.C04
