/-
  Lemmas for C20, part 8: what the N-player tensor contraction `payoffVecN` computes — the
  expected payoff against independent mixed actions, written with the C-order flat index.
-/
import Mathlib.Tactic.Ring
import QEProofs.Lemmas.C20FpN
namespace QE.C20

section exp
variable {K : Type} [CommRing K]

/-- `Σ_{j<m} f j` as a list sum (no Finset needed) -/
def sumRange (m : Nat) (f : Nat → K) : K := ((List.range m).map f).sum

theorem sumRange_succ (m : Nat) (f : Nat → K) : sumRange (m + 1) f = f 0 + sumRange m (fun j => f (j + 1)) := by
  simp [sumRange, List.range_succ_eq_map, List.map_map, Function.comp_def]

theorem sumRange_congr (m : Nat) (f g : Nat → K) (h : ∀ j, j < m → f j = g j) : sumRange m f = sumRange m g := by
  unfold sumRange
  congr 1
  apply List.map_congr_left
  intro j hj
  exact h j (List.mem_range.1 hj)

theorem sumRange_mul (m : Nat) (f : Nat → K) (c : K) : sumRange m f * c = sumRange m (fun j => f j * c) := by
  unfold sumRange
  rw [← sum_map_mul, List.map_map]
  rfl

/-- the dot product of two lists of equal length as an indexed sum -/
theorem dot_eq_sumRange : ∀ (r x : List K), r.length = x.length →
    dot r x = sumRange x.length (fun j => r.getD j 0 * x.getD j 0) := by
  intro r
  induction r with
  | nil => intro x h; cases x with
    | nil => simp [dot, sumRange]
    | cons b u => simp at h
  | cons a t ih =>
    intro x h
    cases x with
    | nil => simp at h
    | cons b u =>
      have := ih u (by simpa using h)
      simp only [dot, List.length_cons, sumRange_succ, List.getD_cons_zero, List.getD_cons_succ, this]

theorem getD_take_drop (l : List K) (s m j : Nat) (hj : j < m) :
    ((l.drop s).take m).getD j 0 = l.getD (s + j) 0 := by
  simp [List.getD_eq_getElem?_getD, hj, List.getElem?_drop]

/-- entry `i` of the contraction of the last axis (length `m = |x| > 0`) of a flat tensor with `k·m`
    entries: `Σ_{j<m} l[i·m + j] · x[j]` -/
theorem contractLast_getD (x : List K) (hm : 0 < x.length) :
    ∀ (k fuel : Nat) (l : List K), l.length = k * x.length → k ≤ fuel → ∀ i, i < k →
      (contractLast x fuel l).getD i 0 = sumRange x.length (fun j => l.getD (i * x.length + j) 0 * x.getD j 0) := by
  intro k
  induction k with
  | zero => intro fuel l _ _ i hi; omega
  | succ k ih =>
    intro fuel l hl hf i hi
    cases fuel with
    | zero => omega
    | succ f =>
      have e : (k + 1) * x.length = k * x.length + x.length := Nat.succ_mul k _
      have hlpos : 0 < l.length := by rw [hl, e]; omega
      have hne : l.isEmpty = false := by
        cases l with
        | nil => simp at hlpos
        | cons a t => simp
      simp only [contractLast, hne, Bool.false_eq_true, if_false]
      cases i with
      | zero =>
        simp only [List.getD_cons_zero, Nat.zero_mul, Nat.zero_add]
        rw [dot_eq_sumRange _ _ (by simp [List.length_take]; omega)]
        apply sumRange_congr
        intro j hj
        have := getD_take_drop l 0 x.length j hj
        simp only [List.drop_zero, Nat.zero_add] at this
        rw [this]
      | succ i =>
        simp only [List.getD_cons_succ]
        rw [ih f (l.drop x.length) (by rw [List.length_drop, hl, e]; omega) (by omega) i (by omega)]
        apply sumRange_congr
        intro j _
        have : (l.drop x.length).getD (i * x.length + j) 0 = l.getD ((i + 1) * x.length + j) 0 := by
          simp only [List.getD_eq_getElem?_getD, List.getElem?_drop]
          congr 2
          rw [Nat.succ_mul]; omega
        rw [this]

/-- **Expected payoff, literally**: the payoff of the own action with (partial) flat index `idx`
    against independent mixed actions `opps = [x₁, …, x_k]` of the opponents in axis order, when
    `flat` is the C-order payoff array with axes (own, opp₁, …, opp_k):
    `Σ_{j₁<|x₁|} ( … Σ_{j_k<|x_k|} flat[((idx·|x₁| + j₁)·… )·|x_k| + j_k] · x_k[j_k] … ) · x₁[j₁]`. -/
def expPayoff (flat : List K) : List (List K) → Nat → K
  | [], idx => flat.getD idx 0
  | o :: os, idx => sumRange o.length (fun j => expPayoff flat os (idx * o.length + j) * o.getD j 0)

/-- `Player.payoff_vector` (the repeated `dot` over the opponents' mixed actions, last axis first)
    computes exactly the expected payoffs -/
theorem payoffVecN_getD (flat : List K) (opps : List (List K)) (hpos : ∀ o ∈ opps, 0 < o.length) :
    ∀ (n idx : Nat), flat.length = n * (opps.map List.length).prod → idx < n →
      (payoffVecN flat opps).getD idx 0 = expPayoff flat opps idx := by
  induction opps with
  | nil => intro n idx _ _; simp [payoffVecN, expPayoff]
  | cons o os ih =>
    intro n idx h hidx
    have ho := hpos o (by simp)
    have hpos' : ∀ q ∈ os, 0 < q.length := fun q hq => hpos q (List.mem_cons_of_mem _ hq)
    have hshape : flat.length = (n * o.length) * (os.map List.length).prod := by
      rw [h]; simp [Nat.mul_assoc]
    have hrec : (payoffVecN flat os).length = n * o.length := payoffVecN_length flat os hpos' _ hshape
    show (contractLast o (payoffVecN flat os).length (payoffVecN flat os)).getD idx 0 = _
    rw [contractLast_getD o ho n _ _ hrec (by rw [hrec]; exact Nat.le_mul_of_pos_right n ho) idx hidx]
    simp only [expPayoff]
    apply sumRange_congr
    intro j hj
    rw [ih hpos' (n * o.length) (idx * o.length + j) hshape
      (by calc idx * o.length + j < idx * o.length + o.length := by omega
            _ = (idx + 1) * o.length := by rw [Nat.succ_mul]
            _ ≤ n * o.length := Nat.mul_le_mul_right _ (by omega))]

end exp
end QE.C20

namespace QE.C20
section guard
variable {K : Type} [CommRing K] [LinearOrder K] [IsStrictOrderedRing K]

/-- guard for random tie-breaking in the first loop of N-player `_play`: every index drawn is a valid
    index into the then-current set of best responses (what `randint(len)` returns); the stream is
    threaded exactly as the loop does -/
def BrsGuard (xs : List (List K)) (perts : List (Option (List K))) : Nat → List (GameN K) → List Nat → Prop
  | _, [], _ => True
  | i, G :: rest, ri =>
    (G.rnd = true → (brSet (addPert (payoffVecN G.flat (rot i xs)) (perts.getD i none)) G.tol).length ≠ 1 →
        ri.headD 0 < (brSet (addPert (payoffVecN G.flat (rot i xs)) (perts.getD i none)) G.tol).length) ∧
      BrsGuard xs perts (i + 1) rest (brPickN G (rot i xs) (perts.getD i none) ri).2

/-- under the guard every best response computed by the loop lies in the respective best-response set
    (any tie-breaking mode) -/
theorem brsN_mem (xs : List (List K)) (perts : List (Option (List K))) :
    ∀ (rest : List (GameN K)) (i : Nat) (ri : List Nat), BrsGuard xs perts i rest ri →
      (∀ k (h : k < rest.length), addPert (payoffVecN rest[k].flat (rot (i + k) xs)) (perts.getD (i + k) none) ≠ [] ∧
        0 ≤ rest[k].tol) →
      (brsN xs perts i rest ri).1.length = rest.length ∧
      ∀ k (h : k < (brsN xs perts i rest ri).1.length) (h' : k < rest.length),
        (brsN xs perts i rest ri).1[k] ∈
          brSet (addPert (payoffVecN rest[k].flat (rot (i + k) xs)) (perts.getD (i + k) none)) rest[k].tol := by
  intro rest
  induction rest with
  | nil => intro i ri _ _; simp [brsN]
  | cons G rest ih =>
    intro i ri hg hne
    have h0 := hne 0 (by simp)
    simp only [Nat.add_zero, List.getElem_cons_zero] at h0
    have hmem : (brPickN G (rot i xs) (perts.getD i none) ri).1 ∈
        brSet (addPert (payoffVecN G.flat (rot i xs)) (perts.getD i none)) G.tol :=
      pick_fst_mem _ _ _ (brSet_ne_nil _ G.tol h0.1 h0.2) hg.1
    obtain ⟨h1, h2⟩ := ih (i + 1) _ hg.2 (by
      intro k hk
      have := hne (k + 1) (by simpa using hk)
      have e : i + (k + 1) = i + 1 + k := by omega
      simpa [e] using this)
    have hcons : (brsN xs perts i (G :: rest) ri).1 =
        (brPickN G (rot i xs) (perts.getD i none) ri).1 ::
          (brsN xs perts (i + 1) rest (brPickN G (rot i xs) (perts.getD i none) ri).2).1 := rfl
    refine ⟨by rw [hcons, List.length_cons, h1, List.length_cons], ?_⟩
    intro k hk hk'
    simp only [hcons] at hk ⊢
    cases k with
    | zero => simpa using hmem
    | succ k =>
      have := h2 k (by simpa using hk) (by simpa using hk')
      have e : i + (k + 1) = i + 1 + k := by omega
      rw [e]; simpa using this

end guard
end QE.C20
