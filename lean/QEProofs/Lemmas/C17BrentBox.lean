/-
  Lemmas for C17: brent_max, for EVERY objective — the best point and every evaluated point stay
  strictly inside the current bracket, the bracket stays inside the original interval, and
  `num`/`status_flag` bookkeeping.
-/
import QEProofs.Lemmas.C17BrentMax
namespace QE.C17
set_option linter.unusedSectionVars false

section
variable {K : Type} [Field K] [LinearOrder K] [IsStrictOrderedRing K]

/-- bracket invariant (no assumption on `f`) -/
structure BMBox (sqrtEps xtol a0 b0 : K) (s : BM K) : Prop where
  haxf : s.a < s.xf
  hxfb : s.xf < s.b
  ha0 : a0 ≤ s.a
  hb0 : s.b ≤ b0
  htol1 : s.tol1 = sqrtEps * |s.xf| + xtol / 3
  htol2 : s.tol2 = 2 * s.tol1
  hxm : s.xm = 1 / 2 * (s.a + s.b)

/-- what a step `rat` must satisfy for the new point to fall strictly inside the bracket -/
def StepOK (s : BM K) (rat : K) : Prop :=
  (0 ≤ rat → rat < s.b - s.xf ∧ s.tol1 < s.b - s.xf) ∧
  (rat < 0 → s.a - s.xf < rat ∧ s.tol1 < s.xf - s.a)

theorem bmPoint_inside (s : BM K) (rat : K) (ha : s.a < s.xf) (hb : s.xf < s.b) (ht : 0 < s.tol1)
    (h : StepOK s rat) :
    s.a < bmPoint s rat ∧ bmPoint s rat < s.b ∧ bmPoint s rat ≠ s.xf := by
  refine ⟨?_, ?_, bmPoint_ne s rat ht⟩ <;>
  · unfold bmPoint npmax sgn
    rw [absv_eq_abs]
    rcases lt_trichotomy rat 0 with hr | hr | hr
    · obtain ⟨h1, h2⟩ := h.2 hr
      have hne : ¬ rat = 0 := ne_of_lt hr
      simp only [beq_iff_eq, hne, if_false, hr, if_true, abs_of_neg hr]
      split <;> linarith
    · subst hr
      obtain ⟨h1, h2⟩ := h.1 (le_refl _)
      simp only [beq_self_eq_true, if_true, lt_irrefl, if_false, abs_zero, ht]
      linarith
    · obtain ⟨h1, h2⟩ := h.1 hr.le
      have hne : ¬ rat = 0 := ne_of_gt hr
      simp only [beq_iff_eq, hne, if_false, not_lt.mpr hr.le, hr, if_true, abs_of_pos hr]
      split <;> linarith

/-- facts delivered by the `while` test -/
theorem loop_test_facts (s : BM K) (sqrtEps xtol a0 b0 : K) (h : BMBox sqrtEps xtol a0 b0 s)
    (hw : s.tol2 - half * (s.b - s.a) < absv (s.xf - s.xm)) :
    (s.xm ≤ s.xf → s.tol2 < s.xf - s.a) ∧ (s.xf ≤ s.xm → s.tol2 < s.b - s.xf) := by
  rw [absv_eq_abs, half_eq, h.hxm] at hw
  constructor
  · intro hle
    rw [h.hxm] at hle
    rw [abs_of_nonneg (by linarith)] at hw
    linarith
  · intro hle
    rw [h.hxm] at hle
    rw [abs_of_nonpos (by linarith)] at hw
    linarith

theorem golden_stepOK (gm : K) (s : BM K) (sqrtEps xtol a0 b0 : K) (h : BMBox sqrtEps xtol a0 b0 s)
    (hg0 : 0 < gm) (hg1 : gm < 1) (ht : 0 < s.tol1)
    (hw : s.tol2 - half * (s.b - s.a) < absv (s.xf - s.xm)) :
    StepOK s (gm * (if s.xm ≤ s.xf then s.a - s.xf else s.b - s.xf)) := by
  obtain ⟨f1, f2⟩ := loop_test_facts s sqrtEps xtol a0 b0 h hw
  have h2 := h.htol2
  have ha := h.haxf
  have hb := h.hxfb
  by_cases hc : s.xm ≤ s.xf
  · rw [if_pos hc]
    have hneg : gm * (s.a - s.xf) < 0 := mul_neg_of_pos_of_neg hg0 (by linarith)
    have := f1 hc
    refine ⟨fun h0 => absurd h0 (not_le.mpr hneg), fun _ => ⟨?_, by linarith⟩⟩
    nlinarith
  · rw [if_neg hc]
    have hpos : 0 < gm * (s.b - s.xf) := mul_pos hg0 (by linarith)
    have := f2 (not_le.mp hc).le
    refine ⟨fun _ => ⟨?_, by linarith⟩, fun h0 => absurd h0 (not_lt.mpr hpos.le)⟩
    nlinarith

theorem parAccept_stepOK (s : BM K) (p q r e : K) (sqrtEps xtol a0 b0 : K) (h : BMBox sqrtEps xtol a0 b0 s)
    (hq : 0 ≤ q) (ht : 0 < s.tol1)
    (hw : s.tol2 - half * (s.b - s.a) < absv (s.xf - s.xm))
    (hacc : (bmParAccept s p q r e).1 = false) : StepOK s (bmParAccept s p q r e).2.1 := by
  obtain ⟨f1, f2⟩ := loop_test_facts s sqrtEps xtol a0 b0 h hw
  have h2 := h.htol2
  have ha := h.haxf
  have hb := h.hxfb
  unfold bmParAccept at hacc ⊢
  by_cases hc : absv p < absv (half * q * r) ∧ q * (s.a - s.xf) < p ∧ p < q * (s.b - s.xf)
  · rw [if_pos hc] at hacc ⊢
    obtain ⟨_, c1, c2⟩ := hc
    have hqpos : 0 < q := by
      rcases eq_or_lt_of_le hq with h0 | h0
      · rw [← h0] at c1 c2; simp at c1 c2; linarith
      · exact h0
    have e1 : s.a - s.xf < (p + 0) / q := by rw [add_zero, lt_div_iff₀ hqpos]; linarith
    have e2 : (p + 0) / q < s.b - s.xf := by rw [add_zero, div_lt_iff₀ hqpos]; linarith
    simp only
    by_cases hn : s.xf + (p + 0) / q - s.a < s.tol2 ∨ s.b - (s.xf + (p + 0) / q) < s.tol2
    · rw [if_pos hn]
      simp only
      unfold sgn
      rcases lt_trichotomy (s.xm - s.xf) 0 with hd | hd | hd
      · have hne : ¬ s.xm - s.xf = 0 := ne_of_lt hd
        simp only [hd, if_true, beq_iff_eq, hne, if_false, add_zero]
        have := f1 (by linarith)
        refine ⟨fun h0 => ?_, fun _ => ⟨by linarith, by linarith⟩⟩
        linarith
      · have := f2 (by linarith)
        simp only [hd, lt_irrefl, if_false, beq_self_eq_true, if_true, zero_add, mul_one]
        exact ⟨fun _ => ⟨by linarith, by linarith⟩, fun h0 => by linarith⟩
      · have hne : ¬ s.xm - s.xf = 0 := ne_of_gt hd
        have := f2 (by linarith)
        simp only [not_lt.mpr hd.le, hd, if_true, if_false, beq_iff_eq, hne, add_zero, mul_one]
        exact ⟨fun _ => ⟨by linarith, by linarith⟩, fun h0 => by linarith⟩
    · rw [if_neg hn]
      simp only
      rw [not_or, not_lt, not_lt] at hn
      obtain ⟨n1, n2⟩ := hn
      exact ⟨fun h0 => ⟨e2, by linarith⟩, fun h0 => ⟨e1, by linarith⟩⟩
  · rw [if_neg hc] at hacc
    simp at hacc

theorem bmChoose_stepOK (gm : K) (s : BM K) (sqrtEps xtol a0 b0 : K) (h : BMBox sqrtEps xtol a0 b0 s)
    (hg0 : 0 < gm) (hg1 : gm < 1) (ht : 0 < s.tol1)
    (hw : s.tol2 - half * (s.b - s.a) < absv (s.xf - s.xm)) :
    StepOK s (bmChoose gm s).1 := by
  unfold bmChoose
  simp only
  have hgold := golden_stepOK gm s sqrtEps xtol a0 b0 h hg0 hg1 ht hw
  by_cases ht1 : s.tol1 < absv s.e
  · rw [if_pos ht1]
    by_cases hp : (bmParabola s).1 = true
    · rw [if_pos hp]; exact hgold
    · rw [if_neg hp]
      simp only
      unfold bmParabola at hp ⊢
      simp only at hp ⊢
      exact parAccept_stepOK s _ _ _ _ sqrtEps xtol a0 b0 h (by rw [absv_eq_abs]; exact abs_nonneg _) ht hw
        (by simpa using hp)
  · rw [if_neg ht1]
    simp only [if_true]
    exact hgold

theorem BMBox.tol1_pos {sqrtEps xtol a0 b0 : K} {s : BM K} (h : BMBox sqrtEps xtol a0 b0 s)
    (hse : 0 ≤ sqrtEps) (hx : 0 < xtol) : 0 < s.tol1 := by
  rw [h.htol1]
  have := mul_nonneg hse (abs_nonneg s.xf)
  have : 0 < xtol / 3 := by positivity
  linarith

/-- a pass with a new point strictly inside the bracket keeps the bracket invariant, whatever the
    function value `fu` there -/
theorem bmUpdate_box (sqrtEps xtol a0 b0 : K) (s : BM K) (rat e x fu : K)
    (h : BMBox sqrtEps xtol a0 b0 s) (hax : s.a < x) (hxb : x < s.b) (hne : x ≠ s.xf) :
    BMBox sqrtEps xtol a0 b0 (bmUpdate sqrtEps xtol s rat e x fu) := by
  have ha := h.haxf
  have hb := h.hxfb
  have ha0 := h.ha0
  have hb0 := h.hb0
  refine ⟨?_, ?_, ?_, ?_, ?_, ?_, ?_⟩
  · rw [bmUpdate_a, bmUpdate_xf]
    by_cases h1 : fu ≤ s.fx
    · simp only [h1, if_true]
      by_cases h2 : s.xf ≤ x
      · rw [if_pos h2]; exact lt_of_le_of_ne h2 (Ne.symm hne)
      · rw [if_neg h2]; exact hax
    · simp only [h1, if_false]
      by_cases h2 : x < s.xf
      · rw [if_pos h2]; exact h2
      · rw [if_neg h2]; exact ha
  · rw [bmUpdate_b, bmUpdate_xf]
    by_cases h1 : fu ≤ s.fx
    · simp only [h1, if_true]
      by_cases h2 : s.xf ≤ x
      · rw [if_pos h2]; exact hxb
      · rw [if_neg h2]; exact not_le.mp h2
    · simp only [h1, if_false]
      by_cases h2 : x < s.xf
      · rw [if_pos h2]; exact hb
      · rw [if_neg h2]; exact lt_of_le_of_ne (not_lt.mp h2) (Ne.symm hne)
  · rw [bmUpdate_a]
    split <;> split <;> linarith
  · rw [bmUpdate_b]
    split <;> split <;> linarith
  · rw [bmUpdate_tol1, absv_eq_abs, three_eq]
  · rw [bmUpdate_tol2, two_eq]
  · rw [bmUpdate_xm, half_eq]

/-- **the loop, for every objective.** Started in a state satisfying the bracket invariant:
    * the final state satisfies it too (`a0 ≤ a < xf < b ≤ b0`);
    * the run depends on `f` only through its values strictly inside `(a0, b0)`: replacing `f` by
      any `g` that agrees with it there gives the identical run — every evaluated point lies in
      the open original interval;
    * counting: if on entry `num = 1` or `num < maxfun`, and the fuel covers the remaining passes,
      then `status_flag = 1` ⇒ `num = max maxfun 2` exactly, and `status_flag = 0` ⇒ the `while`
      test failed with `num = 1` or `num < maxfun`. -/
theorem bmLoop_box (f g : K → K) (sqrtEps gm xtol a0 b0 : K) (maxfun : Int)
    (hse : 0 ≤ sqrtEps) (hx : 0 < xtol) (hg0 : 0 < gm) (hg1 : gm < 1)
    (hfg : ∀ y, a0 < y → y < b0 → f y = g y) :
    ∀ (fuel : Nat) (s : BM K), BMBox sqrtEps xtol a0 b0 s →
      1 ≤ s.num → (s.num = 1 ∨ (s.num : Int) < maxfun) → max maxfun 2 ≤ (s.num : Int) + fuel →
      (let r := bmLoop f sqrtEps gm xtol maxfun fuel s
       bmLoop g sqrtEps gm xtol maxfun fuel s = r ∧
       BMBox sqrtEps xtol a0 b0 r.1 ∧
       (r.2 = 0 ∨ r.2 = 1) ∧
       (r.2 = 1 → (r.1.num : Int) = max maxfun 2) ∧
       (r.2 = 0 → (r.1.num = 1 ∨ (r.1.num : Int) < maxfun) ∧
          ¬ (r.1.tol2 - half * (r.1.b - r.1.a) < absv (r.1.xf - r.1.xm))) ∧
       s.num ≤ r.1.num) := by
  intro fuel
  induction fuel with
  | zero =>
    intro s _ h1 hE hfuel
    exfalso
    have : max maxfun 2 ≤ (s.num : Int) := by simpa using hfuel
    have h2 := le_max_left maxfun 2
    have h3 := le_max_right maxfun 2
    rcases hE with hE | hE <;> omega
  | succ fuel ih =>
    intro s h h1 hE hfuel
    unfold bmLoop
    by_cases hw : s.tol2 - half * (s.b - s.a) < absv (s.xf - s.xm)
    · rw [if_pos hw, if_pos hw]
      have hpos := h.tol1_pos hse hx
      have hstep := bmChoose_stepOK gm s sqrtEps xtol a0 b0 h hg0 hg1 hpos hw
      obtain ⟨p1, p2, p3⟩ := bmPoint_inside s (bmChoose gm s).1 h.haxf h.hxfb hpos hstep
      have hfx : f (bmPoint s (bmChoose gm s).1) = g (bmPoint s (bmChoose gm s).1) :=
        hfg _ (lt_of_le_of_lt h.ha0 p1) (lt_of_lt_of_le p2 h.hb0)
      have hbox := bmUpdate_box sqrtEps xtol a0 b0 s (bmChoose gm s).1 (bmChoose gm s).2 _
        (-f (bmPoint s (bmChoose gm s).1)) h p1 p2 p3
      simp only
      rw [← hfx]
      generalize hs' : bmUpdate sqrtEps xtol s (bmChoose gm s).1 (bmChoose gm s).2
        (bmPoint s (bmChoose gm s).1) (-f (bmPoint s (bmChoose gm s).1)) = s' at hbox
      have hnum : s'.num = s.num + 1 := by rw [← hs']; rfl
      by_cases hm : maxfun ≤ (s'.num : Int)
      · rw [if_pos hm, if_pos hm]
        refine ⟨rfl, hbox, Or.inr rfl, fun _ => ?_, fun h0 => by simp at h0, by simp; omega⟩
        simp only
        rw [hnum] at hm ⊢
        push_cast at hm ⊢
        rcases hE with hE | hE
        · rw [hE] at hm ⊢
          have : maxfun ≤ 2 := by omega
          rw [max_eq_right this]; norm_num
        · have : maxfun = (s.num : Int) + 1 := by omega
          rw [this]
          have : (2 : Int) ≤ (s.num : Int) + 1 := by omega
          rw [max_eq_left this]
      · rw [if_neg hm, if_neg hm]
        have hlt : (s'.num : Int) < maxfun := not_le.mp hm
        have := ih s' hbox (by omega) (Or.inr hlt) (by rw [hnum]; push_cast; omega)
        simp only at this
        obtain ⟨a1, a2, a3, a4, a5, a6⟩ := this
        exact ⟨a1, a2, a3, a4, a5, by omega⟩
    · rw [if_neg hw, if_neg hw]
      exact ⟨rfl, h, Or.inl rfl, fun h0 => by simp at h0, fun _ => ⟨hE, hw⟩, le_refl _⟩

/-- the starting state satisfies the bracket invariant -/
theorem bmInit_box (f : K → K) (sqrtEps gm xtol a b : K) (hab : a < b) (hg0 : 0 < gm) (hg1 : gm < 1) :
    BMBox sqrtEps xtol a b (bmInit f sqrtEps gm xtol a b) := by
  have hd : 0 < b - a := by linarith
  refine ⟨?_, ?_, le_refl _, le_refl _, by simp [bmInit, absv_eq_abs, three_eq], by simp [bmInit, two_eq],
    by simp [bmInit, half_eq]⟩
  · show a < a + gm * (b - a)
    have := mul_pos hg0 hd; linarith
  · show a + gm * (b - a) < b
    have : gm * (b - a) < 1 * (b - a) := mul_lt_mul_of_pos_right hg1 hd
    linarith

end
end QE.C17
