/-
  Lemmas for property C05, vertex enumeration: the read-out `_get_mixed_actions`
  (model `veHalf`/`veMixedActions`) and the XOR matching (model `veMatch`).
-/
import QEProofs.Lemmas.C05Labelled
import Mathlib.Data.Nat.Bitwise

namespace QE.C05
open QE QE.MatAlg Finset

set_option linter.unusedSectionVars false
variable {K : Type} [Field K] [LinearOrder K] [IsStrictOrderedRing K]

/-- the unnormalised coordinate `eq[i] * trans_recip - eq[-1]` read from a hyperplane
    equation of length `cnt + 1` -/
def rawCoord (eq : List K) (tr : K) (cnt i : ℕ) : K := eq.getD i 0 * tr - eq.getD cnt 0

theorem list_range_map_sum (f : ℕ → K) (n : ℕ) :
    ((List.range n).map f).sum = ∑ k ∈ range n, f k := by
  induction n with
  | zero => simp
  | succ n ih => rw [List.range_succ, List.map_append, List.sum_append, ih, sum_range_succ]; simp

theorem foldl_cond_sum (c : ℕ → Prop) [DecidablePred c] (h g : ℕ → K) :
    ∀ (l : List ℕ) (a : K), (∀ t, t ∈ l → ¬ c t → h t = g t) →
      l.foldl (fun acc t => if c t then acc else acc + h t) a
        = a + (l.map fun t => if c t then 0 else g t).sum
  | [], a, _ => by simp
  | x :: xs, a, hh => by
    rw [List.foldl_cons, foldl_cond_sum c h g xs _ (fun t ht => hh t (List.mem_cons_of_mem _ ht))]
    rw [List.map_cons, List.sum_cons]
    by_cases hc : c x
    · rw [if_pos hc, if_pos hc]; ring
    · rw [if_neg hc, if_neg hc, hh x List.mem_cons_self hc]; ring

/-- entry `t` of one player's half of the read-out -/
theorem veHalf_getD (bits start cnt : ℕ) (skip : Bool) (eq : List K) (tr : K) (t : ℕ)
    (ht : t < cnt) :
    (veHalf bits start cnt skip eq tr).getD t 0 =
      if (∑ u ∈ range cnt, if bits.testBit (start + u) = skip then 0 else rawCoord eq tr cnt u) = 0
      then (if bits.testBit (start + t) = skip then 0 else rawCoord eq tr cnt t)
      else (if bits.testBit (start + t) = skip then 0 else rawCoord eq tr cnt t) /
        (∑ u ∈ range cnt, if bits.testBit (start + u) = skip then 0 else rawCoord eq tr cnt u) := by
  unfold veHalf
  dsimp only
  have hraw : ∀ u, u < cnt →
      ((List.range cnt).map fun t =>
        if bits.testBit (start + t) = skip then (0 : K) else eq.getD t 0 * tr - eq.getD cnt 0).getD u 0
      = if bits.testBit (start + u) = skip then 0 else rawCoord eq tr cnt u := by
    intro u hu
    simp [List.getD_eq_getElem?_getD, hu, rawCoord]
  have hs : (List.range cnt).foldl (fun acc t =>
        if bits.testBit (start + t) = skip then acc
        else acc + ((List.range cnt).map fun t =>
          if bits.testBit (start + t) = skip then (0 : K) else eq.getD t 0 * tr - eq.getD cnt 0).getD t 0) 0
      = ∑ u ∈ range cnt, if bits.testBit (start + u) = skip then 0 else rawCoord eq tr cnt u := by
    rw [foldl_cond_sum (fun t => bits.testBit (start + t) = skip) _ (fun u => rawCoord eq tr cnt u)
      (List.range cnt) 0]
    · rw [zero_add, list_range_map_sum]
    · intro u hu hc
      rw [hraw u (List.mem_range.mp hu), if_neg hc]
  rw [hs]
  by_cases h0 : (∑ u ∈ range cnt, if bits.testBit (start + u) = skip then 0 else rawCoord eq tr cnt u) = 0
  · rw [if_pos h0, if_pos (by simpa using h0)]
    exact hraw t ht
  · rw [if_neg h0, if_neg (by simpa using h0)]
    rw [List.getD_eq_getElem?_getD, List.getElem?_map]
    have := hraw t ht
    rw [List.getD_eq_getElem?_getD] at this
    cases hg : ((List.range cnt).map fun t =>
        if bits.testBit (start + t) = skip then (0 : K) else eq.getD t 0 * tr - eq.getD cnt 0)[t]? with
    | none =>
      have hl : t < ((List.range cnt).map fun t =>
        if bits.testBit (start + t) = skip then (0 : K) else eq.getD t 0 * tr - eq.getD cnt 0).length := by
        simpa using ht
      rw [List.getElem?_eq_none_iff] at hg
      omega
    | some v =>
      rw [hg] at this
      simp only [Option.map_some, Option.getD_some] at this ⊢
      rw [this]

/-- complementary bit masks: `b0 ^ b1 == (1 << N) - 1` says that below `N` every label is in
    exactly one of the two labellings -/
theorem xor_complete (N b0 b1 : ℕ) (h : b0 ^^^ b1 = 2 ^ N - 1) (t : ℕ) (ht : t < N) :
    b0.testBit t = !b1.testBit t := by
  have := congrArg (fun z => z.testBit t) h
  simp only [Nat.testBit_xor, Nat.testBit_two_pow_sub_one] at this
  cases h0 : b0.testBit t <;> cases h1 : b1.testBit t <;> simp_all

theorem bnot_of_false : ∀ (a b : Bool), a = (!b) → a = false → b = true := by decide

theorem bnot_of_not_true : ∀ (a b : Bool), a = (!b) → ¬ a = true → b = true := by decide

theorem xor_swap (C b0 b1 : ℕ) (h : b0 ^^^ b1 = C) : b1 ^^^ C = b0 := by
  rw [← h, Nat.xor_comm b0 b1, ← Nat.xor_assoc, Nat.xor_self, Nat.zero_xor]

theorem isNash_congr (m n : ℕ) (A B : ℕ → ℕ → K) (x y x' y' : ℕ → K)
    (hx : ∀ i, i < m → x i = x' i) (hy : ∀ j, j < n → y j = y' j)
    (h : IsNash m n A B x y) : IsNash m n A B x' y' := by
  have pA : ∀ i, payoffVec n A y i = payoffVec n A y' i := by
    intro i; rw [payoffVec_eq, payoffVec_eq]
    exact sum_congr rfl fun j hj => by rw [hy j (mem_range.mp hj)]
  have pB : ∀ j, payoffVec m B x j = payoffVec m B x' j := by
    intro j; rw [payoffVec_eq, payoffVec_eq]
    exact sum_congr rfl fun i hi => by rw [hx i (mem_range.mp hi)]
  have dA : dotTo m x (payoffVec n A y) = dotTo m x' (payoffVec n A y') := by
    rw [dotTo_eq, dotTo_eq]
    exact sum_congr rfl fun i hi => by rw [hx i (mem_range.mp hi), pA]
  have dB : dotTo n y (payoffVec m B x) = dotTo n y' (payoffVec m B x') := by
    rw [dotTo_eq, dotTo_eq]
    exact sum_congr rfl fun j hj => by rw [hy j (mem_range.mp hj), pB]
  obtain ⟨⟨hx0, hx1⟩, ⟨hy0, hy1⟩, h0, h1⟩ := h
  refine ⟨⟨fun i hi => by rw [← hx i hi]; exact hx0 i hi, ?_⟩,
    ⟨fun j hj => by rw [← hy j hj]; exact hy0 j hj, ?_⟩, ?_, ?_⟩
  · rw [sumRange_eq_sum] at hx1 ⊢
    rw [← hx1]; exact sum_congr rfl fun i hi => (hx i (mem_range.mp hi)).symm
  · rw [sumRange_eq_sum] at hy1 ⊢
    rw [← hy1]; exact sum_congr rfl fun j hj => (hy j (mem_range.mp hj)).symm
  · intro i hi; rw [← pA, ← dA]; exact h0 i hi
  · intro j hj; rw [← pB, ← dB]; exact h1 j hj

/-- what is assumed of a vertex of the polytope `P` (player 0) delivered by Qhull: its raw
    coordinates are non-negative, satisfy `B x̃ ≤ c` for some `c`, the inequalities named by the
    labelling are binding, and it is not the zero vector unless the labelling is `{0..m-1}`. -/
def Vertex0OK (m n : ℕ) (B : ℕ → ℕ → K) (bits : ℕ) (eq : List K) (t0 : K) : Prop :=
  ∃ c : K,
    (∀ i, i < m → 0 ≤ rawCoord eq t0 m i) ∧
    (∀ i, i < m → bits.testBit i = true → rawCoord eq t0 m i = 0) ∧
    (∀ j, j < n → payoffVec m B (rawCoord eq t0 m) j ≤ c) ∧
    (∀ j, j < n → bits.testBit (m + j) = true → payoffVec m B (rawCoord eq t0 m) j = c) ∧
    (bits ≠ 2 ^ m - 1 → ∑ i ∈ range m, rawCoord eq t0 m i ≠ 0)

/-- the same for a vertex of `Q` (player 1); the zero vertex is the one whose labelling is the
    complement of `{0..m-1}` -/
def Vertex1OK (m n : ℕ) (A : ℕ → ℕ → K) (bits : ℕ) (eq : List K) (t1 : K) : Prop :=
  ∃ c : K,
    (∀ j, j < n → 0 ≤ rawCoord eq t1 n j) ∧
    (∀ j, j < n → bits.testBit (m + j) = true → rawCoord eq t1 n j = 0) ∧
    (∀ i, i < m → payoffVec n A (rawCoord eq t1 n) i ≤ c) ∧
    (∀ i, i < m → bits.testBit i = true → payoffVec n A (rawCoord eq t1 n) i = c) ∧
    (bits ^^^ (2 ^ (m + n) - 1) ≠ 2 ^ m - 1 → ∑ j ∈ range n, rawCoord eq t1 n j ≠ 0)

/-- the read-out for a matched pair of vertices is a Nash equilibrium -/
theorem veMixedActions_nash (m n : ℕ) (A B : ℕ → ℕ → K) (b0 b1 : ℕ) (eq0 eq1 : List K) (t0 t1 : K)
    (hxor : b0 ^^^ b1 = 2 ^ (m + n) - 1) (hnz : b0 ≠ 2 ^ m - 1)
    (h0 : Vertex0OK m n B b0 eq0 t0) (h1 : Vertex1OK m n A b1 eq1 t1) :
    IsNash m n A B (fun i => (veMixedActions m n b0 eq0 eq1 t0 t1).1.getD i 0)
      (fun j => (veMixedActions m n b0 eq0 eq1 t0 t1).2.getD j 0) := by
  obtain ⟨c0, hx0, hbx, hP, hbB, hsx⟩ := h0
  obtain ⟨c1, hy0, hby, hQ, hbA, hsy⟩ := h1
  have hsx' := hsx hnz
  have hsy' := hsy (by rw [xor_swap _ _ _ hxor]; exact hnz)
  have hcomp := xor_complete (m + n) b0 b1 hxor
  -- the conditional read-out coincides with the raw coordinates
  have gx : ∀ u, u < m →
      (if b0.testBit (0 + u) = true then (0 : K) else rawCoord eq0 t0 m u) = rawCoord eq0 t0 m u := by
    intro u hu
    rw [Nat.zero_add]
    by_cases hb : b0.testBit u = true
    · rw [if_pos hb, hbx u hu hb]
    · rw [if_neg hb]
  have gy : ∀ u, u < n →
      (if b0.testBit (m + u) = false then (0 : K) else rawCoord eq1 t1 n u) = rawCoord eq1 t1 n u := by
    intro u hu
    by_cases hb : b0.testBit (m + u) = false
    · rw [if_pos hb]
      have hb1 : b1.testBit (m + u) = true := bnot_of_false _ _ (hcomp (m + u) (by omega)) hb
      rw [hby u hu hb1]
    · rw [if_neg hb]
  have sx : (∑ u ∈ range m, if b0.testBit (0 + u) = true then (0 : K) else rawCoord eq0 t0 m u)
      = ∑ u ∈ range m, rawCoord eq0 t0 m u :=
    sum_congr rfl fun u hu => gx u (mem_range.mp hu)
  have sy : (∑ u ∈ range n, if b0.testBit (m + u) = false then (0 : K) else rawCoord eq1 t1 n u)
      = ∑ u ∈ range n, rawCoord eq1 t1 n u :=
    sum_congr rfl fun u hu => gy u (mem_range.mp hu)
  have key := completely_labelled_nash' m n A B (rawCoord eq0 t0 m) (rawCoord eq1 t1 n) c0 c1
    hx0 hy0 hP hQ
    (by
      intro i hi
      by_cases hb : b0.testBit i = true
      · exact Or.inl (hbx i hi hb)
      · right
        exact hbA i hi (bnot_of_not_true _ _ (hcomp i (by omega)) hb))
    (by
      intro j hj
      by_cases hb : b0.testBit (m + j) = true
      · exact Or.inr (hbB j hj hb)
      · left
        exact hby j hj (bnot_of_not_true _ _ (hcomp (m + j) (by omega)) hb))
    hsx' hsy'
  apply isNash_congr m n A B _ _ _ _ _ _ key
  · intro i hi
    unfold veMixedActions
    dsimp only
    rw [veHalf_getD b0 0 m true eq0 t0 i hi, sx, if_neg hsx', gx i hi]
  · intro j hj
    unfold veMixedActions
    dsimp only
    rw [veHalf_getD b0 m n false eq1 t1 j hj, sy, if_neg hsy', gy j hj]

/-- the pairs selected by the double loop of `_vertex_enumeration_gen` -/
theorem veMatch_mem (m n : ℕ) (bits0 bits1 : List ℕ) (i j : ℕ) (h : (i, j) ∈ veMatch m n bits0 bits1) :
    i < bits0.length ∧ j < bits1.length ∧ bits0.getD i 0 ≠ 2 ^ m - 1 ∧
      bits0.getD i 0 ^^^ bits1.getD j 0 = 2 ^ (m + n) - 1 := by
  unfold veMatch at h
  rw [List.mem_filterMap] at h
  obtain ⟨i', hi', hh⟩ := h
  dsimp only at hh
  split at hh
  · simp at hh
  · rename_i hne
    unfold veFind at hh
    dsimp only at hh
    split at hh
    · rename_i hlt
      have hij : i' = i ∧ List.findIdx (fun b1 => (bits0.getD i' 0 ^^^ b1) == 2 ^ (m + n) - 1) bits1 = j := by
        simpa using hh
      obtain ⟨rfl, hj⟩ := hij
      have hp := List.findIdx_getElem (w := hlt)
      rw [hj] at hlt
      refine ⟨List.mem_range.mp hi', hlt, by simpa using hne, ?_⟩
      have hget : bits1.getD j 0 = bits1[j] := by
        simp [List.getD_eq_getElem?_getD, List.getElem?_eq_getElem hlt]
      rw [hget]
      simp only [hj] at hp
      simpa using hp
    · simp at hh

end QE.C05
