/-
  Lemmas for property C05, completeness of vertex enumeration: if the vertex lists handed over
  by Qhull contain the two vertices that belong to an equilibrium, with their full label sets,
  the XOR matching finds the pair and the read-out reproduces the equilibrium.
-/
import QEProofs.Lemmas.C05Vertex
import QEProofs.Lemmas.C05Complete
import Mathlib.Data.Nat.Bitwise

namespace QE.C05
open QE QE.MatAlg Finset

set_option linter.unusedSectionVars false
variable {K : Type} [Field K] [LinearOrder K] [IsStrictOrderedRing K]

/-- label `k` is binding for player 0's point `x` (own coordinate zero, or opponent's action
    `k - m` a best response: `(B x)_{k-m} = v`) -/
def LabX (m : ℕ) (B : ℕ → ℕ → K) (x : ℕ → K) (v : K) (k : ℕ) : Prop :=
  (k < m ∧ x k = 0) ∨ (m ≤ k ∧ payoffVec m B x (k - m) = v)

/-- label `k` is binding for player 1's point `y` -/
def LabY (m n : ℕ) (A : ℕ → ℕ → K) (y : ℕ → K) (u : K) (k : ℕ) : Prop :=
  (k < m ∧ payoffVec n A y k = u) ∨ (m ≤ k ∧ y (k - m) = 0)

theorem testBit_high (N b t : ℕ) (hb : b < 2 ^ N) (ht : N ≤ t) : b.testBit t = false :=
  Nat.testBit_eq_false_of_lt (lt_of_lt_of_le hb (Nat.pow_le_pow_right (by omega) ht))

/-- complementary masks below `N`, nothing above: the XOR is the complete mask -/
theorem xor_eq_complete (N b0 b1 : ℕ) (h0 : b0 < 2 ^ N) (h1 : b1 < 2 ^ N)
    (hc : ∀ t, t < N → b0.testBit t = !b1.testBit t) : b0 ^^^ b1 = 2 ^ N - 1 := by
  apply Nat.eq_of_testBit_eq
  intro t
  rw [Nat.testBit_xor, Nat.testBit_two_pow_sub_one]
  by_cases ht : t < N
  · rw [hc t ht]
    cases b1.testBit t <;> simp [ht]
  · rw [testBit_high N b0 t h0 (by omega), testBit_high N b1 t h1 (by omega)]
    simp [ht]

theorem xor_cancel_left (a b c : ℕ) (h1 : a ^^^ b = c) (h2 : a ^^^ b' = c) : b = b' := by
  have e1 := xor_swap c a b h1
  have e2 := xor_swap c a b' h2
  have : b ^^^ c = b' ^^^ c := by rw [e1, e2]
  have h3 : b ^^^ c ^^^ c = b' ^^^ c ^^^ c := by rw [this]
  rwa [Nat.xor_assoc, Nat.xor_self, Nat.xor_zero, Nat.xor_assoc, Nat.xor_self, Nat.xor_zero] at h3

/-- the matching loop finds `(i, j)` when the masks are complementary and `j` is the only vertex
    of polytope 1 with its mask -/
theorem veMatch_complete (m n : ℕ) (bits0 bits1 : List ℕ) (i j : ℕ) (hi : i < bits0.length)
    (hj : j < bits1.length) (hnz : bits0.getD i 0 ≠ 2 ^ m - 1)
    (hxor : bits0.getD i 0 ^^^ bits1.getD j 0 = 2 ^ (m + n) - 1)
    (hinj : ∀ j', j' < bits1.length → bits1.getD j' 0 = bits1.getD j 0 → j' = j) :
    (i, j) ∈ veMatch m n bits0 bits1 := by
  unfold veMatch
  rw [List.mem_filterMap]
  refine ⟨i, List.mem_range.mpr hi, ?_⟩
  dsimp only
  rw [if_neg (by simpa using hnz)]
  unfold veFind
  dsimp only
  have hgetj : bits1.getD j 0 = bits1[j] := getD_of_lt _ _ hj
  have hex : ∃ b ∈ bits1, ((bits0.getD i 0 ^^^ b) == 2 ^ (m + n) - 1) = true :=
    ⟨bits1[j], List.getElem_mem hj, by rw [← hgetj]; simpa using hxor⟩
  have hlt := List.findIdx_lt_length_of_exists hex
  rw [if_pos hlt]
  have hp := List.findIdx_getElem (w := hlt)
  have hget' : bits1.getD (List.findIdx (fun b1 => (bits0.getD i 0 ^^^ b1) == 2 ^ (m + n) - 1) bits1) 0
      = bits1[List.findIdx (fun b1 => (bits0.getD i 0 ^^^ b1) == 2 ^ (m + n) - 1) bits1] :=
    getD_of_lt _ _ hlt
  have hx' : bits0.getD i 0 ^^^
      bits1.getD (List.findIdx (fun b1 => (bits0.getD i 0 ^^^ b1) == 2 ^ (m + n) - 1) bits1) 0
      = 2 ^ (m + n) - 1 := by
    rw [hget']; simpa using hp
  have := hinj _ hlt (xor_cancel_left _ _ _ hx' hxor)
  rw [this]
  rfl

/-- each vertex of polytope 0 contributes at most one pair (the `break`) -/
theorem veMatch_fst_nodup (m n : ℕ) (bits0 bits1 : List ℕ) :
    ((veMatch m n bits0 bits1).map (·.1)).Nodup := by
  have hsub : ((veMatch m n bits0 bits1).map (·.1)).Sublist (List.range bits0.length) := by
    unfold veMatch
    generalize List.range bits0.length = l
    induction l with
    | nil => simp
    | cons a l ih =>
      rw [List.filterMap_cons]
      dsimp only
      split
      · exact ih.cons a
      · rename_i p hp
        have : p.1 = a := by
          split at hp
          · simp at hp
          · cases hf : veFind m n (bits0.getD a 0) bits1 with
            | none => rw [hf] at hp; simp at hp
            | some j => rw [hf] at hp; simp at hp; rw [← hp]
        rw [List.map_cons, this]
        exact ih.cons_cons a
  exact hsub.nodup List.nodup_range

/-- the read-out of a matched pair whose raw coordinates are positive multiples of `x`, `y`
    and whose mask marks exactly the zero coordinates is `(x, y)` -/
theorem veMixedActions_eq (m n : ℕ) (b0 : ℕ) (eq0 eq1 : List K) (t0 t1 : K) (x y : ℕ → K)
    (c0 c1 : K) (hc0 : c0 ≠ 0) (hc1 : c1 ≠ 0)
    (hx : IsProb m x) (hy : IsProb n y)
    (hr0 : ∀ t, t < m → rawCoord eq0 t0 m t = c0 * x t)
    (hr1 : ∀ t, t < n → rawCoord eq1 t1 n t = c1 * y t)
    (hb0 : ∀ t, t < m → (b0.testBit t = true ↔ x t = 0))
    (hb1 : ∀ t, t < n → (b0.testBit (m + t) = false ↔ y t = 0)) :
    (∀ t, t < m → (veMixedActions m n b0 eq0 eq1 t0 t1).1.getD t 0 = x t) ∧
    (∀ t, t < n → (veMixedActions m n b0 eq0 eq1 t0 t1).2.getD t 0 = y t) := by
  have hxs : ∑ i ∈ range m, x i = 1 := by have := hx.2; rwa [sumRange_eq_sum] at this
  have hys : ∑ i ∈ range n, y i = 1 := by have := hy.2; rwa [sumRange_eq_sum] at this
  have g0 : ∀ u, u < m →
      (if b0.testBit (0 + u) = true then (0 : K) else rawCoord eq0 t0 m u) = c0 * x u := by
    intro u hu
    rw [Nat.zero_add]
    by_cases hb : b0.testBit u = true
    · rw [if_pos hb, (hb0 u hu).mp hb, mul_zero]
    · rw [if_neg hb, hr0 u hu]
  have g1 : ∀ u, u < n →
      (if b0.testBit (m + u) = false then (0 : K) else rawCoord eq1 t1 n u) = c1 * y u := by
    intro u hu
    by_cases hb : b0.testBit (m + u) = false
    · rw [if_pos hb, (hb1 u hu).mp hb, mul_zero]
    · rw [if_neg hb, hr1 u hu]
  have s0 : (∑ u ∈ range m, if b0.testBit (0 + u) = true then (0 : K) else rawCoord eq0 t0 m u) = c0 := by
    rw [sum_congr rfl (fun u hu => g0 u (mem_range.mp hu)), ← mul_sum, hxs, mul_one]
  have s1 : (∑ u ∈ range n, if b0.testBit (m + u) = false then (0 : K) else rawCoord eq1 t1 n u) = c1 := by
    rw [sum_congr rfl (fun u hu => g1 u (mem_range.mp hu)), ← mul_sum, hys, mul_one]
  constructor
  · intro t ht
    unfold veMixedActions
    dsimp only
    rw [veHalf_getD b0 0 m true eq0 t0 t ht, s0, if_neg hc0, g0 t ht, mul_div_cancel_left₀ _ hc0]
  · intro t ht
    unfold veMixedActions
    dsimp only
    rw [veHalf_getD b0 m n false eq1 t1 t ht, s1, if_neg hc1, g1 t ht, mul_div_cancel_left₀ _ hc1]

end QE.C05
