/-
  Lemmas for property C05: the Nash specification over an ordered field, the
  "supports inside best responses" criterion, and the algebra of `scatter`.
-/
import QEModel.C05
import QEProofs.Lemmas.MatBridge
import Mathlib.Algebra.Order.BigOperators.Ring.Finset
import Mathlib.Algebra.Order.Field.Basic
import Mathlib.Tactic.Ring
import Mathlib.Tactic.Linarith

namespace QE.C05
open QE QE.MatAlg Finset

set_option linter.unusedSectionVars false
variable {K : Type} [Field K] [LinearOrder K] [IsStrictOrderedRing K]

/-! ### specification -/

/-- `x` (read below `n`) is a probability vector -/
def IsProb (n : ℕ) (x : ℕ → K) : Prop := (∀ i, i < n → 0 ≤ x i) ∧ sumRange n x = 1

/-- `(x, y)` is a Nash equilibrium of the bimatrix game `(A, B)` (`A` is `m × n`, `B` is `n × m`
    with the own action first): both are probability vectors and no pure deviation gains. -/
def IsNash (m n : ℕ) (A B : ℕ → ℕ → K) (x y : ℕ → K) : Prop :=
  IsProb m x ∧ IsProb n y ∧
  (∀ i, i < m → payoffVec n A y i ≤ dotTo m x (payoffVec n A y)) ∧
  (∀ j, j < n → payoffVec m B x j ≤ dotTo n y (payoffVec m B x))

/-- ε-equilibrium (the code's `is_nash(…, tol)`) -/
def IsNashTol (tol : K) (m n : ℕ) (A B : ℕ → ℕ → K) (x y : ℕ → K) : Prop :=
  IsProb m x ∧ IsProb n y ∧
  (∀ i, i < m → payoffVec n A y i - tol ≤ dotTo m x (payoffVec n A y)) ∧
  (∀ j, j < n → payoffVec m B x j - tol ≤ dotTo n y (payoffVec m B x))

theorem payoffVec_eq (n : ℕ) (A : ℕ → ℕ → K) (y : ℕ → K) (i : ℕ) :
    payoffVec n A y i = ∑ j ∈ range n, A i j * y j := by
  unfold payoffVec; rw [sumRange_eq_sum]

theorem dotTo_eq (m : ℕ) (x v : ℕ → K) : dotTo m x v = ∑ i ∈ range m, x i * v i := by
  unfold dotTo; rw [sumRange_eq_sum]

/-- one player's half of the support criterion: if every pure payoff is `≤ v` and every action
    with non-zero weight earns exactly `v`, the mixed action earns `v`. -/
theorem dot_eq_of_support (m : ℕ) (x u : ℕ → K) (v : K) (hx : IsProb m x)
    (hs : ∀ i, i < m → x i ≠ 0 → u i = v) : dotTo m x u = v := by
  rw [dotTo_eq]
  have h1 : ∑ i ∈ range m, x i * u i = ∑ i ∈ range m, x i * v := by
    apply sum_congr rfl
    intro i hi
    by_cases h0 : x i = 0
    · simp [h0]
    · rw [hs i (mem_range.mp hi) h0]
  rw [h1, ← sum_mul]
  have := hx.2
  rw [sumRange_eq_sum] at this
  rw [this, one_mul]

/-- **Supports inside the best-response sets ⇒ Nash.** -/
theorem support_br_nash' (m n : ℕ) (A B : ℕ → ℕ → K) (x y : ℕ → K) (v w : K)
    (hx : IsProb m x) (hy : IsProb n y)
    (hA : ∀ i, i < m → payoffVec n A y i ≤ v)
    (hAs : ∀ i, i < m → x i ≠ 0 → payoffVec n A y i = v)
    (hB : ∀ j, j < n → payoffVec m B x j ≤ w)
    (hBs : ∀ j, j < n → y j ≠ 0 → payoffVec m B x j = w) :
    IsNash m n A B x y := by
  refine ⟨hx, hy, ?_, ?_⟩
  · intro i hi
    rw [dot_eq_of_support m x _ v hx hAs]; exact hA i hi
  · intro j hj
    rw [dot_eq_of_support n y _ w hy hBs]; exact hB j hj

/-- a probability vector cannot earn more than the best pure payoff bound -/
theorem dot_le_of_le (m : ℕ) (x u : ℕ → K) (v : K) (hx : IsProb m x)
    (hu : ∀ i, i < m → u i ≤ v) : dotTo m x u ≤ v := by
  rw [dotTo_eq]
  have h1 : ∑ i ∈ range m, x i * u i ≤ ∑ i ∈ range m, x i * v := by
    apply sum_le_sum
    intro i hi
    exact mul_le_mul_of_nonneg_left (hu i (mem_range.mp hi)) (hx.1 i (mem_range.mp hi))
  have h2 : ∑ i ∈ range m, x i * v = v := by
    rw [← sum_mul]
    have := hx.2
    rw [sumRange_eq_sum] at this
    rw [this, one_mul]
  linarith

/-! ### scatter -/

theorem getD_of_lt (s : List ℕ) (t : ℕ) (h : t < s.length) : s.getD t 0 = s[t] := by
  simp [List.getD_eq_getElem?_getD, List.getElem?_eq_getElem h]

theorem scatter_eq (s : List ℕ) (z : ℕ → K) (i : ℕ) :
    scatter s z i = ∑ t ∈ range s.length, if s.getD t 0 = i then z t else 0 := by
  unfold scatter; rw [sumRange_eq_sum]

/-- `Σ_{j<n} f j * (scatter s z) j = Σ_{t<k} f (s_t) * z_t` when all `s_t < n` -/
theorem sum_mul_scatter (n : ℕ) (s : List ℕ) (z f : ℕ → K) (hs : ∀ t, t < s.length → s.getD t 0 < n) :
    ∑ j ∈ range n, f j * scatter s z j = ∑ t ∈ range s.length, f (s.getD t 0) * z t := by
  simp only [scatter_eq, mul_sum]
  rw [sum_comm]
  apply sum_congr rfl
  intro t ht
  have hlt := hs t (mem_range.mp ht)
  simp only [mul_ite, mul_zero]
  rw [sum_ite_eq (range n) (s.getD t 0) (fun j => f j * z t), if_pos (mem_range.mpr hlt)]

theorem sum_scatter (n : ℕ) (s : List ℕ) (z : ℕ → K) (hs : ∀ t, t < s.length → s.getD t 0 < n) :
    ∑ j ∈ range n, scatter s z j = ∑ t ∈ range s.length, z t := by
  have := sum_mul_scatter n s z (fun _ => 1) hs
  simpa using this

theorem scatter_nonneg (s : List ℕ) (z : ℕ → K) (hz : ∀ t, t < s.length → 0 ≤ z t) (i : ℕ) :
    0 ≤ scatter s z i := by
  rw [scatter_eq]
  apply sum_nonneg
  intro t ht
  split
  · exact hz t (mem_range.mp ht)
  · exact le_refl 0

theorem scatter_ne_zero_mem (s : List ℕ) (z : ℕ → K) (i : ℕ) (h : scatter s z i ≠ 0) : i ∈ s := by
  by_contra hni
  apply h
  rw [scatter_eq]
  apply sum_eq_zero
  intro t ht
  have : s.getD t 0 ≠ i := by
    intro he
    apply hni
    rw [← he, getD_of_lt _ _ (mem_range.mp ht)]
    exact List.getElem_mem _
  rw [if_neg this]

theorem mem_getD (s : List ℕ) (i : ℕ) (h : i ∈ s) : ∃ t, t < s.length ∧ s.getD t 0 = i := by
  obtain ⟨t, ht, he⟩ := List.mem_iff_getElem.mp h
  exact ⟨t, ht, by rw [getD_of_lt _ _ ht]; exact he⟩

/-- pigeonhole: a duplicate-free list of `m` numbers below `m` contains every number below `m` -/
theorem mem_of_nodup_full (s : List ℕ) (m : ℕ) (hn : s.Nodup) (hl : s.length = m)
    (hb : ∀ a, a ∈ s → a < m) (i : ℕ) (hi : i < m) : i ∈ s := by
  have hsub : s.toFinset ⊆ range m := by
    intro a ha
    exact mem_range.mpr (hb a (List.mem_toFinset.mp ha))
  have hcard : (range m).card ≤ s.toFinset.card := by
    rw [List.toFinset_card_of_nodup hn, card_range, hl]
  have := eq_of_subset_of_card_le hsub hcard
  have hi' : i ∈ s.toFinset := by rw [this]; exact mem_range.mpr hi
  exact List.mem_toFinset.mp hi'

end QE.C05
