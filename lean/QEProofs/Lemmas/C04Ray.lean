/-
  C04 — the ray the model prints for status 3 (`cert=`, verified exactly by the harness
  together with the base point `x=`) is always a valid certificate of unboundedness.
-/
import QEProofs.Lemmas.C04Unbounded
namespace QE.C04
open QE QE.Pivot Finset

variable {K : Type} [Field K] [LinearOrder K] [IsStrictOrderedRing K]

/-- `x0 + t·d` feasible for all `t ≥ 0` forces `d ≥ 0`, `A_ub d ≤ 0`, `A_eq d = 0` -/
theorem ray_of_feasible_line (P : LP K) (x0 d : ℕ → K)
    (h : ∀ t : K, 0 ≤ t → Feasible P (fun j => x0 j + t * d j)) :
    (∀ j, j < P.n → 0 ≤ d j) ∧ (∀ i, i < P.m → ∑ j ∈ range P.n, P.Aub i j * d j ≤ 0) ∧
    (∀ i, i < P.k → ∑ j ∈ range P.n, P.Aeq i j * d j = 0) := by
  have h0 := h 0 (le_refl _)
  have lin : ∀ (a : ℕ → K) (t : K), ∑ j ∈ range P.n, a j * (x0 j + t * d j)
      = ∑ j ∈ range P.n, a j * x0 j + t * ∑ j ∈ range P.n, a j * d j := by
    intro a t
    rw [Finset.mul_sum, ← Finset.sum_add_distrib]
    apply Finset.sum_congr rfl; intro j _; ring
  refine ⟨?_, ?_, ?_⟩
  · intro j hj
    by_contra hneg
    have hd : d j < 0 := not_le.mp hneg
    have hx0 : 0 ≤ x0 j := by have := h0.1 j hj; simpa using this
    have ht : 0 ≤ (x0 j + 1) / (- d j) := div_nonneg (by linarith) (by linarith)
    have := (h _ ht).1 j hj
    simp only at this
    have e : (x0 j + 1) / (- d j) * d j = -(x0 j + 1) := by
      rw [div_mul_eq_mul_div, div_eq_iff (ne_of_gt (by linarith : 0 < - d j))]; ring
    rw [e] at this
    linarith
  · intro i hi
    by_contra hpos
    have hs : 0 < ∑ j ∈ range P.n, P.Aub i j * d j := not_le.mp hpos
    set s := ∑ j ∈ range P.n, P.Aub i j * d j with hs'
    set a0 := ∑ j ∈ range P.n, P.Aub i j * x0 j with ha0
    have ht : 0 ≤ (|P.bub i - a0| + 1) / s := div_nonneg (by positivity) (le_of_lt hs)
    have := (h _ ht).2.1 i hi
    rw [lin (fun j => P.Aub i j), ← ha0, ← hs', div_mul_cancel₀ _ (ne_of_gt hs)] at this
    have := le_abs_self (P.bub i - a0)
    linarith
  · intro i hi
    have e0 := h0.2.2 i hi
    have e1 := (h 1 zero_le_one).2.2 i hi
    rw [lin (fun j => P.Aeq i j)] at e0 e1
    linarith

/-- the Phase-2 data behind status 3: entering column, its positive reduced cost, and the
    feasible half-line -/
theorem phase2_line (P : LP K) (fuel : ℕ)
    (h1 : (solvePhase1 tol0 fuel (initTableau P) (initBasis P)).status = 0)
    (h3 : (phase2Run P fuel (tol0 : Tol K)).status = 3) :
    let r2 := phase2Run P fuel (tol0 : Tol K)
    let L := P.m + P.k
    let N := P.n + P.m + (P.m + P.k)
    Shape r2.T L N ∧ Canon r2.T r2.basis L N ∧
    ∃ c, pivotCol r2.T true (0 : K) = some c ∧ 0 < r2.T.get L c ∧
      ∀ t : K, 0 ≤ t →
        Feasible P (fun j => bsol r2.T r2.basis L N j + t * rayDir r2.T r2.basis L c j) ∧
        objective P (fun j => bsol r2.T r2.basis L N j + t * rayDir r2.T r2.basis L c j)
          = - r2.T.get L N + t * r2.T.get L c := by
  dsimp only
  obtain ⟨hinv, hz, hsol, hobj⟩ := phase2_facts P fuel h1
  have I1 := solvePhase1_success P fuel h1
  have hsp := solvePhase1_span P fuel h1
  set r2 := phase2Run P fuel (tol0 : Tol K) with hr2def
  set L := P.m + P.k with hLdef
  set N := P.n + P.m + (P.m + P.k) with hNdef
  set r1 := solvePhase1 (tol0 : Tol K) fuel (initTableau P) (initBasis P) with hr1
  obtain ⟨hrs, hcs⟩ := setCriterionRow_span (initTableau P) r1.T r1.basis L N P.n P.c I1.shape hsp
  set T1 := setCriterionRow P.c P.n r1.basis r1.T with hT1
  have hspan := (solveTableau_span true (fuel - r1.iters) (initTableau P) T1 r1.basis L N _
    (setCriterionRow_shape P.c P.n r1.basis r1.T L N I1.shape) hrs hcs).1
  have hr2 : r2 = solveTableau tol0 true (fuel - r1.iters) T1 r1.basis := rfl
  rw [← hr2] at hspan
  obtain ⟨c, hpc, hnf⟩ := solveTableau_status3 (tol0 : Tol K) true (fuel - r1.iters) T1 r1.basis h3
  rw [← hr2] at hpc hnf
  have hL : r2.T.nr - 1 = L := by rw [hinv.shape.1]; rfl
  have hN : r2.T.nc - 1 = N := by rw [hinv.shape.2]; rfl
  obtain ⟨hc1, hc2, _⟩ := pivotCol_some r2.T true (tol0 : Tol K).fea c hpc
  rw [hL, hN] at hc1
  rw [hL] at hc2
  simp only [if_true] at hc1
  have hcnm : c < P.n + P.m := by omega
  have hss : r2.T.nc - (r2.T.nr - 1) - 1 = P.n + P.m := by rw [hinv.shape.1, hinv.shape.2]; omega
  rw [hss] at hnf
  have hcol := no_unresolved_tie (initTableau P) r2.T r2.basis L N (P.n + P.m) c hinv.shape hinv.canon
    (by omega) (initTableau_block P) hspan hnf
  refine ⟨hinv.shape, hinv.canon, c, hpc, hc2, ?_⟩
  intro t ht
  obtain ⟨hz0, hzrows, hzobj⟩ := inv0_ray T1 L N r2.T r2.basis c hinv (by omega) hc2 hcol t ht
  set zt := fun j => bsol r2.T r2.basis L N j + t * rayDir r2.T r2.basis L c j with hzt
  have hart : ∀ q, q < L → zt (P.n + P.m + q) = 0 := by
    intro q hq
    have hb : bsol r2.T r2.basis L N (P.n + P.m + q) = 0 := by
      by_cases hex : ∃ i, i < L ∧ r2.basis.getD i 0 = P.n + P.m + q
      · obtain ⟨i, hi, hbi⟩ := hex
        rw [← hbi, bsol_basic r2.T r2.basis L N i hinv.canon hi]
        exact (hz i hi (by omega)).1
      · exact bsol_nonbasic r2.T r2.basis L N _ (fun i hi e => hex ⟨i, hi, e⟩)
    have hd : rayDir r2.T r2.basis L c (P.n + P.m + q) = 0 := by
      unfold rayDir
      rw [if_neg (by omega)]
      apply Finset.sum_eq_zero
      intro i hi
      have hi' := Finset.mem_range.mp hi
      by_cases e : r2.basis.getD i 0 = P.n + P.m + q
      · rw [if_pos e, (hz i hi' (by omega)).2 hi' c hcnm]; simp
      · rw [if_neg e]
    show bsol r2.T r2.basis L N (P.n + P.m + q) + t * rayDir r2.T r2.basis L c (P.n + P.m + q) = 0
    rw [hb, hd]; simp
  refine ⟨rows_project P zt (fun j _ => hz0 j) ((hsol zt).mp hzrows) hart, ?_⟩
  unfold objective
  rw [← hobj zt hzrows]; exact hzobj

/-- **status 3 ⇒ the model's `(x, cert)` is a certificate of unboundedness**: `x` feasible,
    `d = cert ≥ 0`, `A_ub d ≤ 0`, `A_eq d = 0`, `c·d > 0` -/
theorem linprog_ray_core (P : LP K) (fuel : ℕ) (h : (linprogSimplex P fuel tol0).status = 3) :
    let res := linprogSimplex P fuel (tol0 : Tol K)
    let x0 := fun j => res.x.getD j 0
    let d := fun j => res.cert.getD j 0
    Feasible P x0 ∧ (∀ j, j < P.n → 0 ≤ d j) ∧
    (∀ i, i < P.m → ∑ j ∈ range P.n, P.Aub i j * d j ≤ 0) ∧
    (∀ i, i < P.k → ∑ j ∈ range P.n, P.Aeq i j * d j = 0) ∧
    0 < ∑ j ∈ range P.n, P.c j * d j := by
  intro res x0 d
  -- Phase 1 succeeded and Phase 2 reports 3
  have hst := h
  rw [linprogSimplex_status] at hst
  have h1 : (solvePhase1 (tol0 : Tol K) fuel (initTableau P) (initBasis P)).status = 0 := by
    by_contra hne
    rw [if_pos hne] at hst
    rcases solvePhase1_cases (tol0 : Tol K) fuel (initTableau P) (initBasis P) with
      ⟨_, e⟩ | ⟨_, _, e⟩ | ⟨h0, _, e⟩
    · rw [e] at hst; exact phase1_not_status3 P fuel hst
    · rw [e] at hst; simp at hst
    · rw [e, cleanup_status, h0] at hst; simp at hst
  have hne : ¬ (solvePhase1 (tol0 : Tol K) fuel (initTableau P) (initBasis P)).status ≠ 0 := by simp [h1]
  rw [if_neg hne] at hst
  have h3 : (phase2Run P fuel (tol0 : Tol K)).status = 3 := hst
  obtain ⟨hs, hc, c, hpc, hg, hline⟩ := phase2_line P fuel h1 h3
  set r2 := phase2Run P fuel (tol0 : Tol K) with hr2
  set L := P.m + P.k with hL
  set N := P.n + P.m + (P.m + P.k) with hN
  -- the printed vectors
  have hx : res.x = getX r2.T r2.basis P.n := (linprogSimplex_of_phase1_ok P fuel tol0 h1).2.1
  have hcert : res.cert = ray r2.T r2.basis P.n c := by
    show (linprogSimplex P fuel (tol0 : Tol K)).cert = _
    unfold linprogSimplex
    simp only
    rw [if_neg hne]
    simp only
    have h3' : (solveTableau (tol0 : Tol K) true
        (fuel - (solvePhase1 (tol0 : Tol K) fuel (initTableau P) (initBasis P)).iters)
        (setCriterionRow P.c P.n (solvePhase1 (tol0 : Tol K) fuel (initTableau P) (initBasis P)).basis
          (solvePhase1 (tol0 : Tol K) fuel (initTableau P) (initBasis P)).T)
        (solvePhase1 (tol0 : Tol K) fuel (initTableau P) (initBasis P)).basis).status = 3 := h3
    rw [if_pos h3']
    have hpc' : pivotCol (solveTableau (tol0 : Tol K) true
        (fuel - (solvePhase1 (tol0 : Tol K) fuel (initTableau P) (initBasis P)).iters)
        (setCriterionRow P.c P.n (solvePhase1 (tol0 : Tol K) fuel (initTableau P) (initBasis P)).basis
          (solvePhase1 (tol0 : Tol K) fuel (initTableau P) (initBasis P)).T)
        (solvePhase1 (tol0 : Tol K) fuel (initTableau P) (initBasis P)).basis).T true (tol0 : Tol K).fea
        = some c := hpc
    rw [hpc']
    rfl
  have hx0 : ∀ j, j < P.n → bsol r2.T r2.basis L N j = x0 j := by
    intro j hj
    show _ = res.x.getD j 0
    rw [hx, getX_eq_bsol r2.T r2.basis L N P.n j hs hc hj]
  have hd : ∀ j, j < P.n → rayDir r2.T r2.basis L c j = d j := by
    intro j hj
    show _ = res.cert.getD j 0
    rw [hcert, ray_eq_rayDir r2.T r2.basis L N P.n c j hs hc hj]
  have hfe : ∀ t : K, 0 ≤ t → Feasible P (fun j => x0 j + t * d j) := by
    intro t ht
    apply feasible_congr P _ _ _ (hline t ht).1
    intro j hj
    show bsol r2.T r2.basis L N j + t * rayDir r2.T r2.basis L c j = x0 j + t * d j
    rw [hx0 j hj, hd j hj]
  obtain ⟨d0, dub, deq⟩ := ray_of_feasible_line P x0 d hfe
  have hf0 : Feasible P x0 := by
    apply feasible_congr P _ _ _ (hfe 0 (le_refl _))
    intro j _; simp
  refine ⟨hf0, d0, dub, deq, ?_⟩
  -- objective along the line
  have o0 := (hline 0 (le_refl _)).2
  have o1 := (hline 1 zero_le_one).2
  have e0 : objective P (fun j => bsol r2.T r2.basis L N j + 0 * rayDir r2.T r2.basis L c j)
      = ∑ j ∈ range P.n, P.c j * x0 j := by
    unfold objective
    apply Finset.sum_congr rfl
    intro j hj; dsimp only; rw [hx0 j (Finset.mem_range.mp hj)]; ring
  have e1 : objective P (fun j => bsol r2.T r2.basis L N j + 1 * rayDir r2.T r2.basis L c j)
      = ∑ j ∈ range P.n, P.c j * x0 j + ∑ j ∈ range P.n, P.c j * d j := by
    unfold objective
    rw [← Finset.sum_add_distrib]
    apply Finset.sum_congr rfl
    intro j hj; dsimp only; rw [hx0 j (Finset.mem_range.mp hj), hd j (Finset.mem_range.mp hj)]; ring
  rw [e0] at o0
  rw [e1] at o1
  linarith

end QE.C04
