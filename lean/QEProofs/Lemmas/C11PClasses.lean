/-
  Concrete classes with the sign-reversal (P-matrix) property `NoSignReversal`:
  triangular matrices with positive diagonal, strictly row-diagonally-dominant matrices with
  positive diagonal.  (The general equivalence with "all principal minors positive",
  Fiedler–Pták, is not proved.)
-/
import QEProofs.Lemmas.C11Ray
import Mathlib.Algebra.Order.BigOperators.Ring.Finset
import Mathlib.Algebra.Order.AbsoluteValue.Basic
import Mathlib.Tactic.Linarith
import Mathlib.Tactic.Positivity

namespace QE.C11
open Finset
set_option linter.unusedVariables false
set_option linter.unusedSectionVars false

variable {K : Type} [Field K] [LinearOrder K] [IsStrictOrderedRing K]

/-- lower triangular with positive diagonal -/
def LowerTriPos (n : ℕ) (Mm : ℕ → ℕ → K) : Prop :=
  (∀ i, i < n → 0 < Mm i i) ∧ ∀ i j, i < n → j < n → i < j → Mm i j = 0

/-- upper triangular with positive diagonal -/
def UpperTriPos (n : ℕ) (Mm : ℕ → ℕ → K) : Prop :=
  (∀ i, i < n → 0 < Mm i i) ∧ ∀ i j, i < n → j < n → j < i → Mm i j = 0

/-- strictly row-diagonally dominant with positive diagonal -/
def RowDiagDom (n : ℕ) (Mm : ℕ → ℕ → K) : Prop :=
  ∀ i, i < n → ∑ j ∈ (range n).erase i, |Mm i j| < Mm i i

theorem sq_nonpos_zero (a x : K) (ha : 0 < a) (h : x * (a * x) ≤ 0) : x = 0 := by
  by_contra hne
  have : 0 < x * x := mul_self_pos.mpr hne
  have : 0 < a * (x * x) := mul_pos ha this
  have e : x * (a * x) = a * (x * x) := by ring
  rw [e] at h
  linarith

theorem lowerTriPos_noSignReversal (n : ℕ) (Mm : ℕ → ℕ → K) (h : LowerTriPos n Mm) :
    NoSignReversal n Mm := by
  intro x hx i
  induction i using Nat.strongRecOn with
  | _ i ih =>
    intro hi
    have hsum : ∑ j ∈ range n, Mm i j * x j = Mm i i * x i := by
      rw [Finset.sum_eq_single i]
      · intro j hj hne
        have hj' := mem_range.mp hj
        rcases Nat.lt_or_gt_of_ne hne with hlt | hgt
        · rw [ih j hlt hj', mul_zero]
        · rw [h.2 i j hi hj' hgt, zero_mul]
      · intro hni; exact absurd (mem_range.mpr hi) hni
    have := hx i hi
    rw [hsum] at this
    exact sq_nonpos_zero _ _ (h.1 i hi) this

theorem upperTriPos_noSignReversal (n : ℕ) (Mm : ℕ → ℕ → K) (h : UpperTriPos n Mm) :
    NoSignReversal n Mm := by
  intro x hx
  -- downward induction: measure n - i
  have key : ∀ m i, n - i = m → i < n → x i = 0 := by
    intro m
    induction m using Nat.strongRecOn with
    | _ m ih =>
      intro i hm hi
      have hsum : ∑ j ∈ range n, Mm i j * x j = Mm i i * x i := by
        rw [Finset.sum_eq_single i]
        · intro j hj hne
          have hj' := mem_range.mp hj
          rcases Nat.lt_or_gt_of_ne hne with hlt | hgt
          · rw [h.2 i j hi hj' hlt, zero_mul]
          · rw [ih (n - j) (by omega) j rfl hj', mul_zero]
        · intro hni; exact absurd (mem_range.mpr hi) hni
      have := hx i hi
      rw [hsum] at this
      exact sq_nonpos_zero _ _ (h.1 i hi) this
  intro i hi
  exact key (n - i) i rfl hi

theorem rowDiagDom_noSignReversal (n : ℕ) (Mm : ℕ → ℕ → K) (h : RowDiagDom n Mm) :
    NoSignReversal n Mm := by
  intro x hx i hi
  by_contra hne
  have hnonempty : (range n).Nonempty := ⟨i, mem_range.mpr hi⟩
  obtain ⟨i0, hi0, hmax⟩ := Finset.exists_max_image (range n) (fun j => |x j|) hnonempty
  have hi0' := mem_range.mp hi0
  have hpos : 0 < |x i0| := lt_of_lt_of_le (abs_pos.mpr hne) (hmax i (mem_range.mpr hi))
  have hdd := h i0 hi0'
  have hsplit : ∑ j ∈ range n, Mm i0 j * x j
      = Mm i0 i0 * x i0 + ∑ j ∈ (range n).erase i0, Mm i0 j * x j := by
    exact (Finset.add_sum_erase (range n) (fun j => Mm i0 j * x j) hi0).symm
  have hS : |∑ j ∈ (range n).erase i0, Mm i0 j * x j|
      ≤ (∑ j ∈ (range n).erase i0, |Mm i0 j|) * |x i0| := by
    calc |∑ j ∈ (range n).erase i0, Mm i0 j * x j|
        ≤ ∑ j ∈ (range n).erase i0, |Mm i0 j * x j| := Finset.abs_sum_le_sum_abs _ _
      _ = ∑ j ∈ (range n).erase i0, |Mm i0 j| * |x j| := by
          apply Finset.sum_congr rfl; intro j _; rw [abs_mul]
      _ ≤ ∑ j ∈ (range n).erase i0, |Mm i0 j| * |x i0| := by
          apply Finset.sum_le_sum
          intro j hj
          exact mul_le_mul_of_nonneg_left (hmax j (Finset.mem_of_mem_erase hj)) (abs_nonneg _)
      _ = (∑ j ∈ (range n).erase i0, |Mm i0 j|) * |x i0| := by rw [Finset.sum_mul]
  have hx0 := hx i0 hi0'
  rw [hsplit, mul_add] at hx0
  set S := ∑ j ∈ (range n).erase i0, Mm i0 j * x j with hSdef
  set D := ∑ j ∈ (range n).erase i0, |Mm i0 j| with hDdef
  have h1 : x i0 * (Mm i0 i0 * x i0) = Mm i0 i0 * (|x i0| * |x i0|) := by
    rw [abs_mul_abs_self]; ring
  have h2 : - (|x i0| * (D * |x i0|)) ≤ x i0 * S := by
    have : |x i0 * S| ≤ |x i0| * (D * |x i0|) := by
      rw [abs_mul]
      exact mul_le_mul_of_nonneg_left hS (abs_nonneg _)
    have := neg_abs_le (x i0 * S)
    linarith
  have h3 : 0 < (Mm i0 i0 - D) * (|x i0| * |x i0|) :=
    mul_pos (by linarith) (mul_pos hpos hpos)
  rw [h1] at hx0
  nlinarith

end QE.C11
