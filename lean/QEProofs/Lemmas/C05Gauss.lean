/-
  Lemmas for property C05: the exact Gauss-Jordan elimination `MatAlg.solve` that the driver
  runs in place of LAPACK `gesv` (inside `solveChecked`) is correct on square systems with one
  right-hand side: what it returns solves the system, and it returns something whenever the
  system has exactly one solution. Hence `SolveRegular solveChecked`.
-/
import QEProofs.Lemmas.C05Complete
import QEProofs.Lemmas.PivotLemmas

namespace QE.C05
open QE QE.MatAlg QE.Pivot Finset

set_option linter.unusedSectionVars false
variable {K : Type} [Field K] [LinearOrder K] [IsStrictOrderedRing K]

/-! ### entries -/

theorem hcat_get (A B : M K) (i j : ℕ) (hi : i < A.nr) (hj : j < A.nc + B.nc) :
    (hcat A B).get i j = if j < A.nc then A.get i j else B.get i (j - A.nc) := by
  unfold hcat; exact M.get_tab _ _ _ _ _ hi hj

theorem swapRows_get (T : M K) (a b i j : ℕ) (hi : i < T.nr) (hj : j < T.nc) :
    (swapRows T a b).get i j =
      if i = a then T.get b j else if i = b then T.get a j else T.get i j := by
  unfold swapRows; exact M.get_tab _ _ _ _ _ hi hj

theorem elimCol_get (T : M K) (k i j : ℕ) (hi : i < T.nr) (hj : j < T.nc) :
    (elimCol T k).get i j =
      if i = k then T.get k j / T.get k k else T.get i j - T.get i k * (T.get k j / T.get k k) := by
  unfold elimCol; exact M.get_tab _ _ _ _ _ hi hj

theorem elimCol_eq_pivot (T : M K) (k i j : ℕ) (hk : k < T.nr) (hi : i < T.nr) (hj : j < T.nc) :
    (elimCol T k).get i j = (pivot T k k).get i j := by
  rw [elimCol_get T k i j hi hj]
  by_cases h : i = k
  · subst h; rw [if_pos rfl, pivot_get_r T i i j hi hj]
  · rw [if_neg h, pivot_get_i T k k i j hi hj h]; ring

theorem rowSat_congr (T T' : M K) (z : ℕ → K) (i i' : ℕ) (hnc : T.nc = T'.nc) (hpos : 0 < T.nc)
    (h : ∀ j, j < T.nc → T.get i j = T'.get i' j) : RowSat T z i ↔ RowSat T' z i' := by
  unfold RowSat
  rw [← hnc, ← h (T.nc - 1) (by omega)]
  have : ∑ j ∈ range (T.nc - 1), T.get i j * z j = ∑ j ∈ range (T.nc - 1), T'.get i' j * z j := by
    apply sum_congr rfl
    intro j hj
    rw [h j (by have := mem_range.mp hj; omega)]
  rw [this]

/-! ### `findPivot` -/

theorem findPivot_some (T : M K) (k r : ℕ) (h : findPivot T k = some r) :
    k ≤ r ∧ r < T.nr ∧ T.get r k ≠ 0 := by
  unfold findPivot at h
  have hm : r ∈ (List.range T.nr).filter fun i => decide (k ≤ i) && !(T.get i k == 0) :=
    List.mem_of_mem_head? (by simpa using h)
  rw [List.mem_filter] at hm
  obtain ⟨hr, hc⟩ := hm
  simp only [Bool.and_eq_true, decide_eq_true_eq, Bool.not_eq_true', beq_eq_false_iff_ne] at hc
  exact ⟨hc.1, List.mem_range.mp hr, hc.2⟩

theorem findPivot_none (T : M K) (k : ℕ) (h : findPivot T k = none) :
    ∀ i, k ≤ i → i < T.nr → T.get i k = 0 := by
  unfold findPivot at h
  rw [List.head?_eq_none_iff, List.filter_eq_nil_iff] at h
  intro i hki hi
  have := h i (List.mem_range.mpr hi)
  simp only [decide_eq_true_eq, Bool.not_eq_true', beq_eq_false_iff_ne,
    not_and, not_not] at this
  exact this hki

/-! ### the invariant of the elimination -/

structure GJInv (T0 T : M K) (N k : ℕ) : Prop where
  nr : T.nr = N
  nc : T.nc = N + 1
  sol : ∀ z, RowsSat T z N ↔ RowsSat T0 z N
  idb : ∀ c, c < k → ∀ i, i < N → T.get i c = if i = c then 1 else 0

theorem swap_rowsSat (T : M K) (z : ℕ → K) (N a b : ℕ) (hnr : T.nr = N) (hnc : 0 < T.nc)
    (ha : a < N) (hb : b < N) : RowsSat (swapRows T a b) z N ↔ RowsSat T z N := by
  have key : ∀ i, i < N → (RowSat (swapRows T a b) z i ↔
      RowSat T z (if i = a then b else if i = b then a else i)) := by
    intro i hi
    apply rowSat_congr (swapRows T a b) T z i _ rfl hnc
    intro j hj
    rw [swapRows_get T a b i j (by rw [hnr]; exact hi) hj]
    by_cases h1 : i = a
    · rw [if_pos h1, if_pos h1]
    · rw [if_neg h1, if_neg h1]
      by_cases h2 : i = b
      · rw [if_pos h2, if_pos h2]
      · rw [if_neg h2, if_neg h2]
  constructor
  · intro h i hi
    -- row i of T is row σ(i) of the swapped tableau
    have hs : (if (if i = a then b else if i = b then a else i) = a then b
        else if (if i = a then b else if i = b then a else i) = b then a
        else (if i = a then b else if i = b then a else i)) = i := by
      by_cases h1 : i = a
      · subst h1
        by_cases h3 : b = i
        · subst h3; simp
        · simp [h3]
      · by_cases h2 : i = b
        · subst h2; simp [h1]
        · simp [h1, h2]
    have hlt : (if i = a then b else if i = b then a else i) < N := by
      split
      · exact hb
      · split
        · exact ha
        · exact hi
    have := (key _ hlt).mp (h _ hlt)
    rwa [hs] at this
  · intro h i hi
    apply (key i hi).mpr
    apply h
    split
    · exact hb
    · split
      · exact ha
      · exact hi

/-- one elimination step -/
theorem gj_step (T0 T : M K) (N k r : ℕ) (hinv : GJInv T0 T N k) (hk : k < N)
    (hp : findPivot T k = some r) : GJInv T0 (elimCol (swapRows T k r) k) N (k + 1) := by
  obtain ⟨hkr, hrN, hne⟩ := findPivot_some T k r hp
  rw [hinv.nr] at hrN
  have hsnr : (swapRows T k r).nr = N := hinv.nr
  have hsnc : (swapRows T k r).nc = N + 1 := hinv.nc
  -- entries of the swapped tableau
  have hsw : ∀ i j, i < N → j < N + 1 → (swapRows T k r).get i j =
      if i = k then T.get r j else if i = r then T.get k j else T.get i j := by
    intro i j hi hj
    exact swapRows_get T k r i j (by rw [hinv.nr]; exact hi) (by rw [hinv.nc]; exact hj)
  have hpiv : (swapRows T k r).get k k ≠ 0 := by
    rw [hsw k k hk (by omega), if_pos rfl]; exact hne
  -- identity block survives the swap
  have hidb : ∀ c, c < k → ∀ i, i < N → (swapRows T k r).get i c = if i = c then 1 else 0 := by
    intro c hc i hi
    rw [hsw i c hi (by omega)]
    by_cases h1 : i = k
    · rw [if_pos h1, hinv.idb c hc r hrN, if_neg (by omega), if_neg (by omega)]
    · rw [if_neg h1]
      by_cases h2 : i = r
      · rw [if_pos h2, hinv.idb c hc k hk, if_neg (by omega), if_neg (by omega)]
      · rw [if_neg h2]; exact hinv.idb c hc i hi
  have hget : ∀ i j, i < N → j < N + 1 →
      (elimCol (swapRows T k r) k).get i j = (pivot (swapRows T k r) k k).get i j := by
    intro i j hi hj
    exact elimCol_eq_pivot _ k i j (by rw [hsnr]; exact hk) (by rw [hsnr]; exact hi)
      (by rw [hsnc]; exact hj)
  refine ⟨hsnr, hsnc, ?_, ?_⟩
  · intro z
    have h1 : RowsSat (elimCol (swapRows T k r) k) z N ↔ RowsSat (pivot (swapRows T k r) k k) z N := by
      constructor
      · intro h i hi
        exact (rowSat_congr _ _ z i i (by simp [elimCol, M.tab, hsnc]) (by simp [elimCol, M.tab, hsnc])
          (fun j hj => hget i j hi (by simpa [elimCol, M.tab, hsnc] using hj))).mp (h i hi)
      · intro h i hi
        exact (rowSat_congr _ _ z i i (by simp [elimCol, M.tab, hsnc]) (by simp [elimCol, M.tab, hsnc])
          (fun j hj => hget i j hi (by simpa [elimCol, M.tab, hsnc] using hj))).mpr (h i hi)
    rw [h1, pivot_rowsSat (swapRows T k r) z k k N (by rw [hsnr]) hk (by rw [hsnc]; omega) hpiv,
      swap_rowsSat T z N k r hinv.nr (by rw [hinv.nc]; omega) hk hrN]
    exact hinv.sol z
  · intro c hc i hi
    rw [hget i c hi (by omega)]
    by_cases hck : c = k
    · subst hck
      by_cases hic : i = c
      · subst hic; rw [if_pos rfl]
        exact pivot_col_r _ i i (by rw [hsnr]; exact hi) (by rw [hsnc]; omega) hpiv
      · rw [if_neg hic]
        exact pivot_col_i _ c c i (by rw [hsnr]; exact hi) (by rw [hsnc]; omega) hic hpiv
    · have hc' : c < k := by omega
      have hz : (swapRows T k r).get k c = 0 := by
        rw [hidb c hc' k hk, if_neg (by omega)]
      rw [pivot_col_keep _ k k i c (by rw [hsnr]; exact hi) (by rw [hsnc]; omega) hz]
      exact hidb c hc' i hi

/-- soundness of the whole elimination -/
theorem gj_sound (T0 : M K) (N : ℕ) : ∀ (fuel k : ℕ) (T T' : M K), GJInv T0 T N k → k + fuel = N →
    gaussJordan fuel k T = some T' → GJInv T0 T' N N
  | 0, k, T, T', hinv, hk, h => by
    unfold gaussJordan at h
    have : T = T' := by simpa using h
    subst this
    have : k = N := by omega
    subst this; exact hinv
  | fuel + 1, k, T, T', hinv, hk, h => by
    unfold gaussJordan at h
    cases hp : findPivot T k with
    | none => rw [hp] at h; simp at h
    | some r =>
      rw [hp] at h
      exact gj_sound T0 N fuel (k + 1) _ T' (gj_step T0 T N k r hinv (by omega) hp) (by omega) h

/-- if the system has exactly one solution, no pivot search fails -/
theorem gj_regular (T0 : M K) (N : ℕ) (z : ℕ → K) (hz : RowsSat T0 z N)
    (huniq : ∀ z', RowsSat T0 z' N → ∀ j, j < N → z' j = z j) :
    ∀ (fuel k : ℕ) (T : M K), GJInv T0 T N k → k + fuel = N → (gaussJordan fuel k T).isSome = true
  | 0, k, T, _, _ => by unfold gaussJordan; rfl
  | fuel + 1, k, T, hinv, hk => by
    unfold gaussJordan
    cases hp : findPivot T k with
    | some r =>
      exact gj_regular T0 N z hz huniq fuel (k + 1) _ (gj_step T0 T N k r hinv (by omega) hp) (by omega)
    | none =>
      exfalso
      have hkN : k < N := by omega
      have hzero := findPivot_none T k hp
      -- a second solution
      let d : ℕ → K := fun j => (if j = k then 1 else 0) + (if j < k then - T.get j k else 0)
      have hker : ∀ i, i < N → ∑ j ∈ range N, T.get i j * d j = 0 := by
        intro i hi
        have h1 : ∑ j ∈ range N, T.get i j * d j
            = ∑ j ∈ range N, T.get i j * (if j = k then 1 else 0)
              + ∑ j ∈ range N, T.get i j * (if j < k then - T.get j k else 0) := by
          rw [← sum_add_distrib]
          apply sum_congr rfl
          intro j _
          show T.get i j * ((if j = k then 1 else 0) + (if j < k then - T.get j k else 0)) = _
          ring
        have h2 : ∑ j ∈ range N, T.get i j * (if j = k then (1 : K) else 0) = T.get i k := by
          simp only [mul_ite, mul_one, mul_zero]
          rw [sum_ite_eq' (range N) k (fun j => T.get i j), if_pos (mem_range.mpr hkN)]
        have h3 : ∑ j ∈ range N, T.get i j * (if j < k then - T.get j k else 0)
            = if i < k then - T.get i k else 0 := by
          have : ∀ j ∈ range N, T.get i j * (if j < k then - T.get j k else 0)
              = if i = j then (if i < k then - T.get i k else 0) else 0 := by
            intro j _
            by_cases hjk : j < k
            · rw [if_pos hjk, hinv.idb j hjk i hi]
              by_cases hij : i = j
              · subst hij; rw [if_pos rfl, if_pos rfl, if_pos hjk, one_mul]
              · rw [if_neg hij, if_neg hij, zero_mul]
            · rw [if_neg hjk, mul_zero]
              by_cases hij : i = j
              · subst hij; rw [if_pos rfl, if_neg hjk]
              · rw [if_neg hij]
          rw [sum_congr rfl this, sum_ite_eq (range N) i, if_pos (mem_range.mpr hi)]
        rw [h1, h2, h3]
        by_cases hik : i < k
        · rw [if_pos hik]; ring
        · rw [if_neg hik, hzero i (by omega) (by rw [hinv.nr]; exact hi)]; ring
      have hzT := (hinv.sol z).mpr hz
      have hzd : RowsSat T (fun j => z j + d j) N := by
        intro i hi
        have := hzT i hi
        unfold RowSat at this ⊢
        rw [hinv.nc, Nat.add_sub_cancel] at this ⊢
        have hsplit : ∑ j ∈ range N, T.get i j * (z j + d j)
            = ∑ j ∈ range N, T.get i j * z j + ∑ j ∈ range N, T.get i j * d j := by
          rw [← sum_add_distrib]
          apply sum_congr rfl
          intro j _; ring
        rw [hsplit, this, hker i hi, add_zero]
      have := huniq _ ((hinv.sol _).mp hzd) k hkN
      have hdk : d k = 1 := by
        show (if k = k then (1 : K) else 0) + (if k < k then - T.get k k else 0) = 1
        rw [if_pos rfl, if_neg (lt_irrefl _), add_zero]
      rw [hdk] at this
      have h10 : (1 : K) = 0 := by linarith
      exact one_ne_zero h10

/-! ### `MatAlg.solve` on a square system with one right-hand side -/

theorem hcat_rowSat (S b : M K) (z : ℕ → K) (hb : b.nc = 1) (i : ℕ) (hi : i < S.nr) :
    RowSat (hcat S b) z i ↔ sumRange S.nc (fun j => S.get i j * z j) = b.get i 0 := by
  unfold RowSat
  have hnc : (hcat S b).nc - 1 = S.nc := by show S.nc + b.nc - 1 = S.nc; omega
  rw [hnc, sumRange_eq_sum, hcat_get S b i S.nc hi (by omega), if_neg (lt_irrefl _), Nat.sub_self]
  have : ∑ j ∈ range S.nc, (hcat S b).get i j * z j = ∑ j ∈ range S.nc, S.get i j * z j := by
    apply sum_congr rfl
    intro j hj
    have hj' := mem_range.mp hj
    rw [hcat_get S b i j hi (by omega), if_pos hj']
  rw [this]

theorem hcat_inv (S b : M K) (hsq : S.nr = S.nc) (hb : b.nc = 1) : GJInv (hcat S b) (hcat S b) S.nr 0 :=
  ⟨rfl, by show S.nc + b.nc = S.nr + 1; omega, fun _ => Iff.rfl, fun c hc => absurd hc (Nat.not_lt_zero c)⟩

/-- the exact Gauss-Jordan solver is sound on square systems with one right-hand side -/
theorem matSolve_sound (S b Z : M K) (hsq : S.nr = S.nc) (hb : b.nc = 1)
    (h : MatAlg.solve S b = some Z) : Solves S b (fun j => Z.get j 0) := by
  unfold MatAlg.solve at h
  cases hg : gaussJordan S.nr 0 (hcat S b) with
  | none => rw [hg] at h; simp at h
  | some T =>
    rw [hg] at h
    have hZ : M.tab S.nr b.nc (fun i j => T.get i (S.nc + j)) = Z := by simpa using h
    have hinv := gj_sound (hcat S b) S.nr S.nr 0 _ T (hcat_inv S b hsq hb) (by omega) hg
    -- the last column of `T` solves `T`, hence the original system
    have hsolT : RowsSat T (fun j => T.get j S.nr) S.nr := by
      intro i hi
      unfold RowSat
      rw [hinv.nc, Nat.add_sub_cancel]
      have : ∀ j ∈ range S.nr, T.get i j * T.get j S.nr = if i = j then T.get j S.nr else 0 := by
        intro j hj
        rw [hinv.idb j (mem_range.mp hj) i hi]
        by_cases hij : i = j
        · rw [if_pos hij, if_pos hij, one_mul]
        · rw [if_neg hij, if_neg hij, zero_mul]
      rw [sum_congr rfl this, sum_ite_eq (range S.nr) i (fun j => T.get j S.nr),
        if_pos (mem_range.mpr hi)]
    have hsol0 := (hinv.sol _).mp hsolT
    intro i hi
    have := (hcat_rowSat S b _ hb i hi).mp (hsol0 i hi)
    rw [← this, sumRange_eq_sum, sumRange_eq_sum]
    apply sum_congr rfl
    intro j hj
    have hj' : j < S.nr := by rw [hsq]; exact mem_range.mp hj
    rw [← hZ]
    dsimp only
    rw [M.get_tab _ _ _ _ _ hj' (by omega), Nat.add_zero, hsq]

/-- … and does not fail on a uniquely solvable one -/
theorem matSolve_regular (S b : M K) (hsq : S.nr = S.nc) (hb : b.nc = 1) (z : ℕ → K)
    (hz : Solves S b z) (huniq : ∀ z', Solves S b z' → ∀ j, j < S.nc → z' j = z j) :
    (MatAlg.solve S b).isSome = true := by
  have hz0 : RowsSat (hcat S b) z S.nr := fun i hi => (hcat_rowSat S b z hb i hi).mpr (hz i hi)
  have hu0 : ∀ z', RowsSat (hcat S b) z' S.nr → ∀ j, j < S.nr → z' j = z j := by
    intro z' hz' j hj
    exact huniq z' (fun i hi => (hcat_rowSat S b z' hb i hi).mp (hz' i hi)) j (by rw [← hsq]; exact hj)
  have := gj_regular (hcat S b) S.nr z hz0 hu0 S.nr 0 _ (hcat_inv S b hsq hb) (by omega)
  unfold MatAlg.solve
  cases hg : gaussJordan S.nr 0 (hcat S b) with
  | none => rw [hg] at this; simp at this
  | some T => rfl

/-- **the solver the driver runs is regular**: on a square system with one right-hand side
    that has exactly one solution, `solveChecked` returns a solution (the elimination finds all
    its pivots and the residual check passes). -/
theorem solveChecked_regular (S b : M K) (hsq : S.nr = S.nc) (hb : b.nc = 1) (z : ℕ → K)
    (hz : Solves S b z) (huniq : ∀ z', Solves S b z' → ∀ j, j < S.nc → z' j = z j) :
    (solveChecked S b).isSome = true := by
  have hsome := matSolve_regular S b hsq hb z hz huniq
  obtain ⟨Z, hZ⟩ := Option.isSome_iff_exists.mp hsome
  have hsound := matSolve_sound S b Z hsq hb hZ
  unfold solveChecked
  rw [hZ]
  dsimp only
  rw [if_pos]
  · rfl
  · rw [List.all_eq_true]
    intro i hi
    have := hsound i (List.mem_range.mp hi)
    simpa using this

theorem solveChecked_isRegular : SolveRegular (solveChecked : M K → M K → Option (M K)) :=
  fun S b z hsq hb hz huniq => solveChecked_regular S b hsq hb z hz huniq

end QE.C05
