/-
  Lemmas for C16, part 2: simplex_grid / simplex_index.
  `simplex_grid(m, n)` enumerates the m-part compositions of n and `simplex_index` is the rank
  of a composition in that enumeration: row `i` of the grid has index `i`.
-/
import Mathlib.Data.Nat.Choose.Basic
import Mathlib.Tactic.Ring
import Mathlib.Tactic.Linarith
import Mathlib.Logic.Function.Iterate
import QEModel.C16
import QEProofs.Lemmas.C16Comb
namespace QE.C16

/-! ### num_compositions -/

theorem numCompositions_eq_choose (m n : Nat) :
    numCompositions m n = Nat.choose (n + m - 1) (m - 1) := by
  unfold numCompositions; exact chooseFast_eq_choose _ _

theorem numCompositions_pos (m n : Nat) (hm : 1 ≤ m) : 0 < numCompositions m n := by
  rw [numCompositions_eq_choose]; exact Nat.choose_pos (by omega)

/-! ### a structural form of `simplex_index` -/

/-- the amount subtracted in iteration `i` of `simplex_index` (with `r = m - i`,
    `d = decumsum[i]`), and `0` once the loop has been left. -/
def rankTerm (r d : Nat) : Nat := if d = 0 then 0 else Nat.choose (d - 1 + r - 1) (r - 1)

/-- total amount subtracted from `L - 1` by `simplex_index`, by recursion on the list. -/
def rankSub : List Nat → Nat
  | [] => 0
  | _ :: rest => rankTerm (rest.length + 1) rest.sum + rankSub rest

theorem rankTerm_zero (r : Nat) : rankTerm r 0 = 0 := by simp [rankTerm]

theorem rankTerm_eq_numCompositions (r d : Nat) (hd : d ≠ 0) :
    rankTerm r d = numCompositions r (d - 1) := by
  rw [numCompositions_eq_choose]; simp [rankTerm, hd]

theorem rankSub_of_tail_sum_zero : ∀ (a : Nat) (rest : List Nat), rest.sum = 0 →
    rankSub (a :: rest) = 0
  | a, [], _ => by simp [rankSub, rankTerm]
  | a, b :: rest, h => by
    have h' : b + rest.sum = 0 := by simpa using h
    have ih := rankSub_of_tail_sum_zero b rest (by omega)
    rw [rankSub, ih, h, rankTerm_zero]

theorem decumsum_getD (x : List Nat) (i : Nat) (hi : i + 1 < x.length) :
    (decumsum x).getD i 0 = (x.drop (i + 1)).sum := by
  unfold decumsum
  rw [List.getD_eq_getElem?_getD, List.getElem?_map, List.getElem?_range (by omega)]
  simp [List.sum_eq_foldl]

/-- the loop of `simplex_index` started at iteration `i` subtracts `rankSub (x.drop i)`. -/
theorem simplexIndexLoop_eq (x : List Nat) : ∀ (rem i : Nat) (idx : Int),
    i + rem + 1 = x.length →
    simplexIndexLoop x.length (decumsum x) rem i idx = idx - (rankSub (x.drop i) : Int) := by
  intro rem
  induction rem with
  | zero =>
    intro i idx h
    rw [List.drop_eq_getElem_cons (by omega), rankSub_of_tail_sum_zero]
    · simp [simplexIndexLoop]
    · rw [List.drop_eq_nil_of_le (by omega)]; rfl
  | succ rem ih =>
    intro i idx h
    rw [simplexIndexLoop]
    rw [decumsum_getD x i (by omega), List.drop_eq_getElem_cons (show i < x.length by omega)]
    by_cases hd : (x.drop (i + 1)).sum = 0
    · rw [if_pos hd, rankSub_of_tail_sum_zero _ _ hd]; simp
    · rw [if_neg hd, ih (i + 1) _ (by omega), rankSub, rankTerm_eq_numCompositions _ _ hd]
      have hl : (x.drop (i + 1)).length + 1 = x.length - i := by
        rw [List.length_drop]; omega
      rw [hl]; push_cast; ring

/-- `simplex_index` in closed form: `L - 1 - rankSub x`. -/
theorem simplexIndex_eq (x : List Nat) (m n : Nat) (hm : 1 ≤ m) (hx : x.length = m) :
    simplexIndex x m n = (numCompositions m n : Int) - 1 - (rankSub x : Int) := by
  subst hx
  unfold simplexIndex
  by_cases h1 : x.length = 1
  · rw [if_pos h1]
    match x, h1 with
    | [a], _ =>
      rw [numCompositions_eq_choose]
      simp [rankSub, rankTerm]
  · rw [if_neg h1, simplexIndexLoop_eq x _ _ _ (by omega)]
    simp

/-! ### combinatorics of `rankSub` -/

theorem sum_replicate_zero (z : Nat) : (List.replicate z 0).sum = 0 := by
  induction z with
  | zero => rfl
  | succ z ih => simp [List.replicate_succ]

theorem rankSub_of_sum_zero (l : List Nat) (h : l.sum = 0) : rankSub l = 0 := by
  cases l with
  | nil => rfl
  | cons a rest =>
    have h' : a + rest.sum = 0 := by simpa using h
    exact rankSub_of_tail_sum_zero a rest (by omega)

/-- `rankSub (pre ++ s)` depends on `s` only through its length, its sum and `rankSub s`. -/
theorem rankSub_append_congr (pre s t : List Nat) (hl : s.length = t.length)
    (hs : s.sum = t.sum) :
    rankSub (pre ++ s) + rankSub t = rankSub (pre ++ t) + rankSub s := by
  induction pre with
  | nil => simp; omega
  | cons a pre ih =>
    simp only [List.cons_append, rankSub, List.length_append, List.sum_append, hl, hs]; omega

theorem rankSub_le_append (pre s : List Nat) : rankSub s ≤ rankSub (pre ++ s) := by
  induction pre with
  | nil => simp
  | cons a pre ih => simp only [List.cons_append, rankSub]; omega

/-- hockey stick: `Σ_{k=1}^{z} C(w-1+k, k) + 1 = C(w+z, z)`. -/
theorem rankSub_replicate_append (z w : Nat) :
    rankSub (List.replicate z 0 ++ [w + 1]) + 1 = Nat.choose (w + 1 + z) z := by
  induction z with
  | zero => simp [rankSub, rankTerm]
  | succ z ih =>
    rw [List.replicate_succ, List.cons_append, rankSub]
    have e : (List.replicate z 0 ++ [w + 1]).sum = w + 1 := by
      simp
    rw [e]
    have : rankTerm ((List.replicate z 0 ++ [w + 1]).length + 1) (w + 1)
        = Nat.choose (w + 1 + z) (z + 1) := by
      simp [rankTerm]; congr 1; omega
    rw [this, show w + 1 + (z + 1) = (w + 1 + z) + 1 by omega, Nat.choose_succ_succ']
    omega

/-- the successor step lowers `rankSub` by one (local form). -/
theorem rankSub_step_core (u v z : Nat) (hv : 1 ≤ v) :
    rankSub (u :: v :: List.replicate z 0)
      = rankSub ((u + 1) :: (List.replicate z 0 ++ [v - 1])) + 1 := by
  have hL : rankSub (u :: v :: List.replicate z 0) = rankTerm (z + 2) v := by
    rw [rankSub, rankSub_of_tail_sum_zero v _ (sum_replicate_zero z)]
    simp
  rw [hL, rankSub]
  have e : (List.replicate z 0 ++ [v - 1]).sum = v - 1 := by simp
  have el : (List.replicate z 0 ++ [v - 1]).length + 1 = z + 2 := by simp
  rw [e, el]
  rcases Nat.lt_or_ge 1 v with h2 | h2
  · obtain ⟨w, rfl⟩ : ∃ w, v = w + 2 := ⟨v - 2, by omega⟩
    have := rankSub_replicate_append z w
    rw [show w + 2 - 1 = w + 1 by omega]
    have t1 : rankTerm (z + 2) (w + 2) = Nat.choose (w + 1 + z + 1) (z + 1) := by
      simp [rankTerm]; congr 1
    have t2 : rankTerm (z + 2) (w + 1) = Nat.choose (w + 1 + z) (z + 1) := by
      simp [rankTerm]; congr 1; omega
    rw [t1, t2, Nat.choose_succ_succ']; omega
  · have : v = 1 := by omega
    subst this
    rw [rankSub_of_sum_zero _ e]
    simp [rankTerm]

/-- the successor step lowers `rankSub` by one. -/
theorem rankSub_step (pre : List Nat) (u v z : Nat) (hv : 1 ≤ v) :
    rankSub (pre ++ u :: v :: List.replicate z 0)
      = rankSub (pre ++ (u + 1) :: (List.replicate z 0 ++ [v - 1])) + 1 := by
  have h := rankSub_append_congr pre (u :: v :: List.replicate z 0)
    ((u + 1) :: (List.replicate z 0 ++ [v - 1])) (by simp)
    (by simp; omega)
  have := rankSub_step_core u v z hv
  omega

/-- `rankSub` of the first composition `(0, …, 0, n)` is `L - 1`. -/
theorem rankSub_first (z n : Nat) :
    rankSub (List.replicate z 0 ++ [n]) + 1 = Nat.choose (n + z) z := by
  cases n with
  | zero =>
    rw [rankSub_of_sum_zero _ (by simp)]; simp
  | succ n => exact rankSub_replicate_append z n

/-- `rankSub` of the last composition `(n, 0, …, 0)` is `0`. -/
theorem rankSub_last (z n : Nat) : rankSub (n :: List.replicate z 0) = 0 :=
  rankSub_of_tail_sum_zero n _ (sum_replicate_zero z)

/-! ### the loop body of `simplex_grid` on a state in normal form -/

theorem set_at {α : Type} (pre : List α) (a b : α) (suf : List α) :
    (pre ++ a :: suf).set pre.length b = pre ++ b :: suf := by
  induction pre with
  | nil => rfl
  | cons c pre ih => simp [ih]

theorem getD_at {α : Type} (pre : List α) (a d : α) (suf : List α) :
    (pre ++ a :: suf).getD pre.length d = a := by
  induction pre with
  | nil => rfl
  | cons c pre ih => simp

theorem set_at1 {α : Type} (pre : List α) (a b c : α) (suf : List α) :
    (pre ++ a :: b :: suf).set (pre.length + 1) c = pre ++ a :: c :: suf := by
  simp

theorem getD_at1 {α : Type} (pre : List α) (a b d : α) (suf : List α) :
    (pre ++ a :: b :: suf).getD (pre.length + 1) d = b := by
  simp

theorem set_last (pre : List Nat) (u z w : Nat) :
    (pre ++ u :: 0 :: List.replicate z 0).set (pre.length + 1 + z) w
      = pre ++ u :: (List.replicate z 0 ++ [w]) := by
  have e : pre ++ u :: 0 :: List.replicate z 0 = (pre ++ u :: List.replicate z 0) ++ 0 :: [] := by
    rw [← List.replicate_succ, List.replicate_succ']; simp
  have := set_at (pre ++ u :: List.replicate z 0) 0 w []
  have hl : (pre ++ u :: List.replicate z 0).length = pre.length + 1 + z := by
    simp; omega
  rw [hl] at this
  rw [e, this]; simp

/-- T2: one pass of the loop body of `simplex_grid` on `x = pre ++ [u, v, 0, …, 0]`,
    `h = len(pre) + 2`. -/
theorem sgStep_normal (pre : List Nat) (u v z m : Nat) (hm : m = pre.length + 2 + z) :
    sgStep m ⟨pre ++ u :: v :: List.replicate z 0, pre.length + 2⟩
      = ⟨pre ++ (u + 1) :: (List.replicate z 0 ++ [v - 1]),
          if v ≠ 1 then m else pre.length + 1⟩ := by
  subst hm
  unfold sgStep
  simp only [show pre.length + 2 - 1 = pre.length + 1 by omega,
    show pre.length + 1 - 1 = pre.length by omega,
    show pre.length + 2 + z - 1 = pre.length + 1 + z by omega,
    getD_at1, set_at1, set_last, getD_at, set_at]

/-- T3: the step on a normal form raises `simplex_index` by one. -/
theorem simplexIndex_step (pre : List Nat) (u v z m n : Nat) (hm : m = pre.length + 2 + z)
    (hv : 1 ≤ v) :
    simplexIndex (pre ++ (u + 1) :: (List.replicate z 0 ++ [v - 1])) m n
      = simplexIndex (pre ++ u :: v :: List.replicate z 0) m n + 1 := by
  rw [simplexIndex_eq _ m n (by omega) (by simp; omega),
    simplexIndex_eq _ m n (by omega) (by simp; omega), rankSub_step pre u v z hv]
  push_cast; ring

/-! ### rows of the grid as iterates of the loop body -/

theorem sgRows_length (m : Nat) : ∀ (k : Nat) (s : SG), (sgRows m k s).length = k
  | 0, _ => rfl
  | k + 1, s => by rw [sgRows, List.length_cons, sgRows_length m k]

theorem sgRows_getElem? (m : Nat) : ∀ (k : Nat) (s : SG) (i : Nat), i < k →
    (sgRows m k s)[i]? = some ((sgStep m)^[i] s).x
  | 0, _, _, h => by omega
  | k + 1, s, 0, _ => by simp [sgRows]
  | k + 1, s, i + 1, h => by
    rw [sgRows, List.getElem?_cons_succ, sgRows_getElem? m k _ i (by omega),
      Function.iterate_succ_apply]

/-! ### the loop invariant of `simplex_grid` -/

/-- normal form: `x = pre ++ [u, v, 0, …, 0]` with `v ≥ 1` (so `h - 1` is the position of the
    last non-zero entry) and `h = len(pre) + 2`. -/
def SGNormal (m : Nat) (s : SG) : Prop :=
  ∃ (pre : List Nat) (u v z : Nat), 1 ≤ v ∧ m = pre.length + 2 + z ∧
    s = ⟨pre ++ u :: v :: List.replicate z 0, pre.length + 2⟩

/-- the last composition `(n, 0, …, 0)`. -/
def SGLast (m n : Nat) (s : SG) : Prop := s.x = n :: List.replicate (m - 1) 0

theorem SGNormal.length {m : Nat} {s : SG} (h : SGNormal m s) : s.x.length = m := by
  obtain ⟨pre, u, v, z, _, hm, rfl⟩ := h
  simp; omega

theorem SGLast.length {m n : Nat} {s : SG} (hm : 1 ≤ m) (h : SGLast m n s) :
    s.x.length = m := by
  unfold SGLast at h; rw [h]; simp; omega

theorem SGLast.index {m n : Nat} {s : SG} (hm : 1 ≤ m) (h : SGLast m n s) :
    simplexIndex s.x m n = (numCompositions m n : Int) - 1 := by
  rw [simplexIndex_eq _ m n hm (h.length hm)]
  unfold SGLast at h
  rw [h, rankSub_last]; simp

theorem SGNormal.index_lt {m : Nat} {s : SG} (n : Nat) (h : SGNormal m s) :
    simplexIndex s.x m n < (numCompositions m n : Int) - 1 := by
  rw [simplexIndex_eq _ m n (by obtain ⟨pre, u, v, z, _, hm, _⟩ := h; omega) h.length]
  obtain ⟨pre, u, v, z, hv, hm, rfl⟩ := h
  have h1 := rankSub_le_append pre (u :: v :: List.replicate z 0)
  have h2 : 1 ≤ rankSub (u :: v :: List.replicate z 0) := by
    rw [rankSub_step_core u v z hv]; omega
  show _ - ((rankSub (pre ++ u :: v :: List.replicate z 0) : Nat) : Int) < _
  omega

/-- the loop body maps a normal form to a normal form or to the last composition, keeps the
    sum, and raises the index by one. -/
theorem sgStep_spec (m n : Nat) (s : SG) (hN : SGNormal m s) (hsum : s.x.sum = n) :
    (SGNormal m (sgStep m s) ∨ SGLast m n (sgStep m s)) ∧ (sgStep m s).x.sum = n ∧
      simplexIndex (sgStep m s).x m n = simplexIndex s.x m n + 1 := by
  obtain ⟨pre, u, v, z, hv, hm, rfl⟩ := hN
  rw [sgStep_normal pre u v z m hm]
  have hsum' : pre.sum + (u + v) = n := by simpa using hsum
  refine ⟨?_, ?_, simplexIndex_step pre u v z m n hm hv⟩
  · rcases Nat.lt_or_ge 1 v with h2 | h2
    · left
      rw [if_pos (by omega)]
      cases z with
      | zero => exact ⟨pre, u + 1, v - 1, 0, by omega, hm, by simp [hm]⟩
      | succ z =>
        refine ⟨pre ++ (u + 1) :: List.replicate z 0, 0, v - 1, 0, by omega, ?_, ?_⟩
        · simp; omega
        · rw [List.replicate_succ']; simp; omega
    · have hv1 : v = 1 := by omega
      subst hv1
      rw [if_neg (by simp)]
      rcases List.eq_nil_or_concat pre with rfl | ⟨pre', u', rfl⟩
      · right
        show _ = _
        have : m - 1 = z + 1 := by simp at hm; omega
        rw [this, List.replicate_succ']
        simp at hsum' ⊢; omega
      · left
        refine ⟨pre', u', u + 1, z + 1, by omega, ?_, ?_⟩
        · simp at hm; omega
        · rw [List.replicate_succ']; simp
  · simp; omega

theorem sgInit_spec (m n : Nat) (hm : 1 ≤ m) :
    (SGNormal m (sgInit m n) ∨ SGLast m n (sgInit m n)) ∧ (sgInit m n).x.sum = n ∧
      simplexIndex (sgInit m n).x m n = 0 := by
  unfold sgInit
  refine ⟨?_, by simp, ?_⟩
  · by_cases h : 2 ≤ m ∧ 1 ≤ n
    · left
      refine ⟨List.replicate (m - 2) 0, 0, n, 0, h.2, by simp; omega, ?_⟩
      obtain ⟨k, rfl⟩ : ∃ k, m = k + 2 := ⟨m - 2, by omega⟩
      simp [List.replicate_succ']
    · right
      show _ = _
      rcases Nat.lt_or_ge m 2 with h1 | h1
      · have : m = 1 := by omega
        subst this; simp
      · have : n = 0 := by omega
        subst this
        rw [← List.replicate_succ', ← List.replicate_succ]
  · show simplexIndex (List.replicate (m - 1) 0 ++ [n]) m n = 0
    rw [simplexIndex_eq _ m n hm (by simp; omega), numCompositions_eq_choose]
    have := rankSub_first (m - 1) n
    have e : n + m - 1 = n + (m - 1) := by omega
    rw [e]
    omega

/-- loop invariant of `simplex_grid`: after `i < L` passes the state is in normal form or is
    the last composition, `x` sums to `n`, and `simplex_index(x) = i`. -/
theorem sg_invariant (m n : Nat) (hm : 1 ≤ m) : ∀ i, i < numCompositions m n →
    (SGNormal m ((sgStep m)^[i] (sgInit m n)) ∨ SGLast m n ((sgStep m)^[i] (sgInit m n))) ∧
    ((sgStep m)^[i] (sgInit m n)).x.sum = n ∧
    simplexIndex ((sgStep m)^[i] (sgInit m n)).x m n = i := by
  intro i
  induction i with
  | zero => intro _; simpa using sgInit_spec m n hm
  | succ i ih =>
    intro hi
    obtain ⟨hNL, hsum, hidx⟩ := ih (by omega)
    rw [Function.iterate_succ_apply']
    have hN : SGNormal m ((sgStep m)^[i] (sgInit m n)) := by
      rcases hNL with h | h
      · exact h
      · exfalso
        have := h.index hm
        rw [hidx] at this; omega
    obtain ⟨a, b, c⟩ := sgStep_spec m n _ hN hsum
    exact ⟨a, b, by rw [c, hidx]; push_cast; ring⟩

/-- T4: row `i` of the grid is an `m`-part composition of `n` whose `simplex_index` is `i`. -/
theorem simplexGrid_row_spec (m n i : Nat) (hm : 1 ≤ m) (hi : i < numCompositions m n) :
    ∃ row, (sgRows m (numCompositions m n) (sgInit m n))[i]? = some row ∧
      row.length = m ∧ row.sum = n ∧ simplexIndex row m n = i := by
  refine ⟨_, sgRows_getElem? m _ _ i hi, ?_⟩
  obtain ⟨hNL, hsum, hidx⟩ := sg_invariant m n hm i hi
  refine ⟨?_, hsum, hidx⟩
  rcases hNL with h | h
  · exact h.length
  · exact h.length hm

/-- the rows of the grid are pairwise distinct. -/
theorem simplexGrid_rows_injective (m n i j : Nat) (hm : 1 ≤ m)
    (hi : i < numCompositions m n) (hj : j < numCompositions m n)
    (h : (sgRows m (numCompositions m n) (sgInit m n))[i]?
      = (sgRows m (numCompositions m n) (sgInit m n))[j]?) : i = j := by
  obtain ⟨r1, e1, _, _, x1⟩ := simplexGrid_row_spec m n i hm hi
  obtain ⟨r2, e2, _, _, x2⟩ := simplexGrid_row_spec m n j hm hj
  rw [e1, e2] at h
  have : r1 = r2 := by simpa using h
  subst this
  have : (i : Int) = j := by rw [← x1, ← x2]
  exact_mod_cast this

/-- first row of the grid: `(0, …, 0, n)`. -/
theorem simplexGrid_first_row (m n : Nat) (hm : 1 ≤ m) :
    (sgRows m (numCompositions m n) (sgInit m n))[0]?
      = some (List.replicate (m - 1) 0 ++ [n]) := by
  rw [sgRows_getElem? m _ _ 0 (numCompositions_pos m n hm)]; rfl

/-- T5: last row of the grid: `(n, 0, …, 0)`. -/
theorem simplexGrid_last_row (m n : Nat) (hm : 1 ≤ m) :
    (sgRows m (numCompositions m n) (sgInit m n))[numCompositions m n - 1]?
      = some (n :: List.replicate (m - 1) 0) := by
  have hpos := numCompositions_pos m n hm
  rw [sgRows_getElem? m _ _ _ (by omega)]
  obtain ⟨hNL, _, hidx⟩ := sg_invariant m n hm (numCompositions m n - 1) (by omega)
  rcases hNL with h | h
  · exfalso
    have := h.index_lt n
    rw [hidx] at this; omega
  · exact congrArg some h

/-! ### `simplex_grid` itself -/

/-- T1: `simplex_grid` raises iff `num_compositions_jit` returns 0. -/
theorem simplexGrid_eq_none_iff (m n : Nat) :
    simplexGrid m n = none ↔ numCompositionsJit m n = 0 := by
  unfold simplexGrid
  by_cases h : numCompositionsJit m n = 0 <;> simp [h]

theorem simplexGrid_eq_some (m n : Nat) (rows : List (List Nat))
    (h : simplexGrid m n = some rows) :
    numCompositionsJit m n ≠ 0 ∧
      rows = sgRows m (numCompositionsJit m n).toNat (sgInit m n) := by
  unfold simplexGrid at h
  by_cases h0 : numCompositionsJit m n = 0
  · simp [h0] at h
  · simp [h0] at h; exact ⟨h0, h.symm⟩

theorem simplexGrid_length (m n : Nat) (rows : List (List Nat))
    (h : simplexGrid m n = some rows) : rows.length = (numCompositionsJit m n).toNat := by
  rw [(simplexGrid_eq_some m n rows h).2, sgRows_length]

/-- `simplex_grid(m, n)` whenever `comb_jit` is exact (no overflow): `L` rows, the first
    `(0,…,0,n)`, the last `(n,0,…,0)`, row `i` an `m`-part composition of `n` with
    `simplex_index(row i) = i`. -/
theorem simplexGrid_spec (m n : Nat) (hm : 1 ≤ m)
    (hL : numCompositionsJit m n = numCompositions m n) :
    ∃ rows, simplexGrid m n = some rows ∧ rows.length = numCompositions m n ∧
      rows[0]? = some (List.replicate (m - 1) 0 ++ [n]) ∧
      rows[numCompositions m n - 1]? = some (n :: List.replicate (m - 1) 0) ∧
      ∀ i, i < numCompositions m n → ∃ row, rows[i]? = some row ∧
        row.length = m ∧ row.sum = n ∧ simplexIndex row m n = i := by
  have hpos := numCompositions_pos m n hm
  refine ⟨sgRows m (numCompositions m n) (sgInit m n), ?_, sgRows_length _ _ _,
    simplexGrid_first_row m n hm, simplexGrid_last_row m n hm,
    fun i hi => simplexGrid_row_spec m n i hm hi⟩
  unfold simplexGrid
  simp only [hL]
  rw [if_neg (by omega)]; simp

example : simplexGrid 3 4 = some [[0, 0, 4], [0, 1, 3], [0, 2, 2], [0, 3, 1], [0, 4, 0],
    [1, 0, 3], [1, 1, 2], [1, 2, 1], [1, 3, 0], [2, 0, 2], [2, 1, 1], [2, 2, 0], [3, 0, 1],
    [3, 1, 0], [4, 0, 0]] := by decide

example : numCompositionsJit 3 4 = numCompositions 3 4 := by decide

example : (List.range 15).map (fun i => simplexIndex
    ((sgRows 3 (numCompositions 3 4) (sgInit 3 4)).getD i []) 3 4) = (List.range 15).map Int.ofNat
    := by decide

end QE.C16
