/-
  Lemmas for C19, part 2: Gini coefficient, Lorenz curve (insertion sort, cumulative sums), ECDF.
-/
import Mathlib.Algebra.BigOperators.Group.List.Basic
import Mathlib.Algebra.BigOperators.Ring.List
import Mathlib.Algebra.Order.Field.Basic
import Mathlib.Algebra.Order.AbsoluteValue.Basic
import Mathlib.Data.List.GetD
import Mathlib.Data.List.Perm.Basic
import Mathlib.Tactic.Ring
import Mathlib.Tactic.FieldSimp
import Mathlib.Tactic.Linarith
import Mathlib.Tactic.Positivity
import QEModel.C19
set_option linter.unusedSectionVars false
namespace QE.C19

section
variable {K : Type} [Field K] [LinearOrder K] [IsStrictOrderedRing K]

theorem absv_eq_abs (x : K) : absv x = |x| := by
  unfold absv
  split
  · rename_i h; rw [abs_of_neg h]
  · rename_i h; rw [abs_of_nonneg (not_lt.mp h)]

theorem absv_mul_sub (c a b : K) (hc : 0 < c) : absv (c * a - c * b) = c * absv (a - b) := by
  rw [absv_eq_abs, absv_eq_abs, ← mul_sub, abs_mul, abs_of_pos hc]

/-! ### gini -/

theorem giniRowSum_perm {y y' : List K} (h : y.Perm y') (a : K) : giniRowSum y a = giniRowSum y' a := by
  unfold giniRowSum
  exact (h.map _).sum_eq

theorem giniNum_perm {y y' : List K} (h : y.Perm y') : giniNum y = giniNum y' := by
  unfold giniNum
  rw [(h.map (giniRowSum y)).sum_eq]
  congr 1
  apply List.map_congr_left
  intro a _
  exact giniRowSum_perm h a

theorem giniDen_perm {y y' : List K} (h : y.Perm y') : giniDen y = giniDen y' := by
  unfold giniDen
  rw [h.length_eq, h.sum_eq]

theorem giniRowSum_scale (c : K) (hc : 0 < c) (y : List K) (a : K) :
    giniRowSum (y.map fun v => c * v) (c * a) = c * giniRowSum y a := by
  unfold giniRowSum
  rw [List.map_map, ← List.sum_map_mul_left]
  congr 1
  apply List.map_congr_left
  intro b _
  exact absv_mul_sub c a b hc

theorem giniNum_scale (c : K) (hc : 0 < c) (y : List K) :
    giniNum (y.map fun v => c * v) = c * giniNum y := by
  unfold giniNum
  rw [List.map_map, ← List.sum_map_mul_left]
  congr 1
  apply List.map_congr_left
  intro a _
  exact giniRowSum_scale c hc y a

theorem giniDen_scale (c : K) (y : List K) :
    giniDen (y.map fun v => c * v) = c * giniDen y := by
  unfold giniDen
  rw [List.length_map, List.sum_map_mul_left]
  simp only [List.map_id']
  ring

/-! ### translation -/

theorem sum_map_add_const (y : List K) (c : K) : (y.map fun v => v + c).sum = y.sum + (y.length : K) * c := by
  induction y with
  | nil => simp
  | cons a as ih => simp only [List.map_cons, List.sum_cons, List.length_cons, ih]; push_cast; ring

theorem giniRowSum_translate (y : List K) (a c : K) :
    giniRowSum (y.map fun v => v + c) (a + c) = giniRowSum y a := by
  unfold giniRowSum
  rw [List.map_map]
  congr 1
  apply List.map_congr_left
  intro b _
  show absv (a + c - (b + c)) = absv (a - b)
  rw [add_sub_add_right_eq_sub]

/-- absolute differences do not see a common shift -/
theorem giniNum_translate (y : List K) (c : K) : giniNum (y.map fun v => v + c) = giniNum y := by
  unfold giniNum
  rw [List.map_map]
  congr 1
  apply List.map_congr_left
  intro a _
  exact giniRowSum_translate y a c

/-! ### insertion sort -/

theorem insertSorted_perm (x : K) (l : List K) : (insertSorted x l).Perm (x :: l) := by
  induction l with
  | nil => exact List.Perm.refl _
  | cons y ys ih =>
    unfold insertSorted
    split
    · exact List.Perm.refl _
    · exact ((List.Perm.cons y ih).trans (List.Perm.swap x y ys))

theorem sortL_perm (l : List K) : (sortL l).Perm l := by
  induction l with
  | nil => exact List.Perm.refl _
  | cons x xs ih =>
    show (insertSorted x (sortL xs)).Perm (x :: xs)
    exact (insertSorted_perm x _).trans (List.Perm.cons x ih)

theorem insertSorted_sorted (x : K) (l : List K) (h : l.Pairwise (· ≤ ·)) :
    (insertSorted x l).Pairwise (· ≤ ·) := by
  induction l with
  | nil => simp [insertSorted]
  | cons y ys ih =>
    unfold insertSorted
    have hy := List.pairwise_cons.mp h
    split
    · rename_i hxy
      refine List.pairwise_cons.mpr ⟨?_, h⟩
      intro z hz
      rcases List.mem_cons.mp hz with rfl | hz'
      · exact hxy
      · exact le_trans hxy (hy.1 z hz')
    · rename_i hxy
      have hyx : y ≤ x := le_of_lt (not_le.mp hxy)
      refine List.pairwise_cons.mpr ⟨?_, ih hy.2⟩
      intro z hz
      have hz' : z ∈ x :: ys := (insertSorted_perm x ys).subset hz
      rcases List.mem_cons.mp hz' with rfl | hz''
      · exact hyx
      · exact hy.1 z hz''

theorem sortL_sorted (l : List K) : (sortL l).Pairwise (· ≤ ·) := by
  induction l with
  | nil => simp [sortL]
  | cons x xs ih => exact insertSorted_sorted x _ ih

theorem sortL_length (l : List K) : (sortL l).length = l.length := (sortL_perm l).length_eq

theorem sorted_getD_le {l : List K} (h : l.Pairwise (· ≤ ·)) (i j : Nat) (hij : i ≤ j) (hj : j < l.length) :
    l.getD i 0 ≤ l.getD j 0 := by
  rw [List.getD_eq_getElem _ _ (by omega), List.getD_eq_getElem _ _ hj]
  rcases Nat.lt_or_eq_of_le hij with h1 | h1
  · exact (List.pairwise_iff_getElem.mp h) i j (by omega) hj h1
  · subst h1; exact le_refl _

/-! ### cumulative sums -/

theorem cumsumFrom_length (acc : K) (l : List K) : (cumsumFrom acc l).length = l.length := by
  induction l generalizing acc with
  | nil => rfl
  | cons x xs ih => simp [cumsumFrom, ih]

theorem cumsum_step (acc : K) (l : List K) (i : Nat) (hi : i < l.length) :
    (acc :: cumsumFrom acc l).getD (i + 1) 0 = (acc :: cumsumFrom acc l).getD i 0 + l.getD i 0 := by
  induction l generalizing acc i with
  | nil => simp at hi
  | cons x xs ih =>
    cases i with
    | zero => simp [cumsumFrom]
    | succ i =>
      have := ih (acc + x) i (by simpa using hi)
      simpa [cumsumFrom] using this

theorem cumsum_last (acc : K) (l : List K) :
    (acc :: cumsumFrom acc l).getD l.length 0 = acc + l.sum := by
  induction l generalizing acc with
  | nil => simp
  | cons x xs ih =>
    have := ih (acc + x)
    simp only [List.length_cons, List.getD_cons_succ, cumsumFrom, List.sum_cons]
    rw [this]; ring

end
end QE.C19
