/-
  Lemmas for C17: Nelder-Mead status contract — `nit` counts the passes, never exceeds
  `max_iter`, `fail = (nit ≥ max_iter)`, and the state at which the loop stops satisfies the
  termination test. Any scalar type.
-/
import Mathlib.Tactic.Linarith
import QEModel.C17
namespace QE.C17
set_option linter.unusedSectionVars false

section
variable {α : Type} [Zero α] [One α] [Add α] [Sub α] [Mul α] [Div α] [Neg α]
  [LT α] [LE α] [DecidableLT α] [DecidableLE α] [BEq α]

theorem nmIter_nit (f : List α → α) (P : NMP α) (bounds : List (α × α)) (s : NM α) :
    (nmIter f P bounds s).nit = s.nit + 1 := by
  unfold nmIter
  split <;> rfl

/-- the termination test of the loop, as a Boolean of the state -/
def nmStop (P : NMP α) (maxIter : Nat) (s : NM α) : Bool :=
  decide (s.lv < P.tolx) ||
  decide (s.fval.getD (s.sind.getD (s.verts.length - 1) 0) 0 - s.fval.getD (s.sind.getD 0 0) 0 < P.tolf) ||
  decide (maxIter ≤ s.nit)

/-- **the loop, status side.** Started with `nit ≤ max_iter` and enough fuel for the remaining
    passes: the final state satisfies the termination test, `nit ≤ max_iter`, `nit` did not
    decrease, and the returned `fail` flag is exactly `max_iter ≤ nit`. -/
theorem nmLoop_status (f : List α → α) (P : NMP α) (bounds : List (α × α)) (maxIter : Nat) :
    ∀ (fuel : Nat) (s : NM α), s.nit ≤ maxIter → maxIter < s.nit + fuel →
      nmStop P maxIter (nmLoop f P bounds maxIter fuel s).1 = true ∧
      (nmLoop f P bounds maxIter fuel s).1.nit ≤ maxIter ∧
      s.nit ≤ (nmLoop f P bounds maxIter fuel s).1.nit ∧
      (nmLoop f P bounds maxIter fuel s).2 = decide (maxIter ≤ (nmLoop f P bounds maxIter fuel s).1.nit) := by
  intro fuel
  induction fuel with
  | zero => intro s h1 h2; omega
  | succ fuel ih =>
    intro s h1 h2
    unfold nmLoop
    simp only
    split
    · next hc => exact ⟨hc, h1, le_refl _, rfl⟩
    · next hc =>
      have hlt : s.nit < maxIter := by
        by_contra h
        apply hc
        have : maxIter ≤ s.nit := by omega
        simp [this]
      have := ih (nmIter f P bounds s) (by rw [nmIter_nit]; omega) (by rw [nmIter_nit]; omega)
      rw [nmIter_nit] at this
      exact ⟨this.1, this.2.1, by omega, this.2.2.2⟩

end
end QE.C17
