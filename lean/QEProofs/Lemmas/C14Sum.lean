/-
  Lemmas for C14, part 8: the iterated expectation `expect` is the sum over all opponent
  profiles of (product of the probabilities) × payoff, over a commutative semiring.
-/
import Mathlib.Algebra.BigOperators.Group.List.Basic
import Mathlib.Algebra.Ring.Defs
import Mathlib.Tactic.Ring
import QEProofs.Lemmas.C14Expect
namespace QE.C14

variable {K : Type} [CommSemiring K]

/-- probability that an action puts on the pure action `b` -/
def prob (σ : Act K) (b : Nat) : K :=
  match σ with
  | .pure a => if b = a then 1 else 0
  | .mixed p => p.getD b 0

/-- probability of an opponent profile under independent play: `Π_j σ_j(r_j)` -/
def weight : List (Act K) → List Nat → K
  | σ :: os, b :: r => prob σ b * weight os r
  | _, _ => 1

/-- `Σ_{r ∈ all opponent profiles} (Π_j σ_j(r_j)) · f r` -/
def expectSum (s : List Nat) (os : List (Act K)) (f : List Nat → K) : K :=
  ((allIdx s).map fun r => weight os r * f r).sum

theorem sum_map_mul_left' (l : List (List Nat)) (c : K) (g : List Nat → K) :
    (l.map fun r => c * g r).sum = c * (l.map g).sum := by
  induction l with
  | nil => simp
  | cons x l ih => simp [ih, mul_add]

theorem expectSum_cons (n : Nat) (s : List Nat) (σ : Act K) (os : List (Act K)) (f : List Nat → K) :
    expectSum (n :: s) (σ :: os) f =
      ((List.range n).map fun b => prob σ b * expectSum s os (fun r => f (b :: r))).sum := by
  unfold expectSum
  induction n with
  | zero => simp [allIdx]
  | succ n ih =>
    rw [allIdx_succ, List.map_append, List.sum_append, ih, List.range_succ, List.map_append,
      List.sum_append]
    congr 1
    simp only [List.map_map, List.map_cons, List.map_nil, List.sum_cons, List.sum_nil, add_zero]
    rw [← sum_map_mul_left']
    congr 1
    apply List.map_congr_left
    intro r _
    simp only [Function.comp, weight]
    ring

theorem foldl_add_eq_sum (n : Nat) (h : Nat → K) :
    (List.range n).foldl (fun acc b => acc + h b) 0 = ((List.range n).map h).sum := by
  induction n with
  | zero => simp
  | succ n ih => simp [List.range_succ, List.foldl_append, ih]

theorem sum_indicator (n a : Nat) (g : Nat → K) (ha : a < n) :
    ((List.range n).map fun b => (if b = a then 1 else 0) * g b).sum = g a := by
  induction n with
  | zero => omega
  | succ n ih =>
    rw [List.range_succ, List.map_append, List.sum_append]
    by_cases h : a < n
    · rw [ih h]
      have : n ≠ a := by omega
      simp [this]
    · have e : a = n := by omega
      subst e
      have : ((List.range a).map fun b => (if b = a then (1 : K) else 0) * g b).sum = 0 := by
        apply List.sum_eq_zero
        intro x hx
        simp only [List.mem_map, List.mem_range] at hx
        obtain ⟨b, hb, rfl⟩ := hx
        have : b ≠ a := by omega
        simp [this]
      rw [this]; simp

theorem reduceFn_eq_sum (n : Nat) (σ : Act K) (h : Nat → K) (hok : actOk n σ = none) :
    reduceFn n σ h = ((List.range n).map fun b => prob σ b * h b).sum := by
  cases σ with
  | pure a =>
    have ha : a < n := by
      simp only [actOk] at hok
      by_contra hc; simp [hc] at hok
    simp only [reduceFn, prob]
    rw [sum_indicator n a h ha]
  | mixed p =>
    simp only [reduceFn, prob]
    rw [foldl_add_eq_sum n (fun b => h b * p.getD b 0)]
    congr 1
    apply List.map_congr_left
    intro b _
    ring

/-- **the iterated expectation is the sum over opponent profiles of probability × payoff** -/
theorem expect_eq_sum : ∀ (s : List Nat) (os : List (Act K)) (f : List Nat → K), actsOk s os →
    expect s os f = expectSum s os f
  | [], [], f, _ => by simp [expect, expectSum, allIdx, weight]
  | [], _ :: _, _, h => by simp [actsOk] at h
  | _ :: _, [], _, h => by simp [actsOk] at h
  | n :: s, σ :: os, f, h => by
    simp only [actsOk] at h
    rw [expectSum_cons]
    simp only [expect]
    rw [reduceFn_eq_sum n σ _ h.1]
    congr 1
    apply List.map_congr_left
    intro b _
    rw [expect_eq_sum s os _ h.2]

end QE.C14
