/-
  Lemmas for C16, part: `k_array_rank` orders the k-subsets in COLEX order (lexicographic order
  of the descending sequences = of the reversed arrays), the order the docstrings name.
-/
import QEProofs.Lemmas.C16KArray
namespace QE.C16

theorem kArrayRank_lt_iff_colex_aux : ∀ (k : Nat) (a b : List Nat), a.length = k → b.length = k →
    a.Pairwise (· < ·) → b.Pairwise (· < ·) →
    (kArrayRank a < kArrayRank b ↔ a.reverse < b.reverse) := by
  intro k
  induction k with
  | zero =>
    intro a b ha hb _ _
    rw [List.length_eq_zero_iff.mp ha, List.length_eq_zero_iff.mp hb]
    simp
  | succ k ih =>
    intro a b ha hb hpa hpb
    rcases List.eq_nil_or_concat a with rfl | ⟨la, ta, rfl⟩
    · simp at ha
    rcases List.eq_nil_or_concat b with rfl | ⟨lb, tb, rfl⟩
    · simp at hb
    simp only [List.concat_eq_append] at ha hb hpa hpb ⊢
    have hla : la.length = k := by simpa using ha
    have hlb : lb.length = k := by simpa using hb
    have hpla := (List.pairwise_append.mp hpa).1
    have hplb := (List.pairwise_append.mp hpb).1
    rw [List.reverse_append, List.reverse_append]
    simp only [List.reverse_cons, List.reverse_nil, List.nil_append, List.singleton_append]
    rw [List.cons_lt_cons_iff]
    rcases Nat.lt_trichotomy ta tb with hlt | heq | hgt
    · have := kArrayRank_lt_of_last_lt la lb ta tb (by omega) hpa hlt
      exact ⟨fun _ => Or.inl hlt, fun _ => this⟩
    · subst heq
      rw [kArrayRank_append, kArrayRank_append, hla, hlb]
      have := ih la lb hla hlb hpla hplb
      constructor
      · intro h; exact Or.inr ⟨rfl, this.mp (by omega)⟩
      · rintro (h | ⟨_, h⟩)
        · omega
        · have := this.mpr h; omega
    · have := kArrayRank_lt_of_last_lt lb la tb ta (by omega) hpb hgt
      constructor
      · intro h; omega
      · rintro (h | ⟨h, _⟩) <;> omega

/-- the rank compares two strictly increasing arrays of equal length exactly as the
    lexicographic order compares their reversals (descending sequences) -/
theorem kArrayRank_lt_iff_colex (a b : List Nat) (hlen : a.length = b.length)
    (hpa : a.Pairwise (· < ·)) (hpb : b.Pairwise (· < ·)) :
    kArrayRank a < kArrayRank b ↔ a.reverse < b.reverse :=
  kArrayRank_lt_iff_colex_aux b.length a b hlen rfl hpa hpb

end QE.C16
