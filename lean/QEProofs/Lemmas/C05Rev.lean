/-
  Lemmas for property C05 (Lemke-Howson): reversibility of one exact pivoting step. After
  pivoting on (row `r`, column `c`), re-entering the variable `b[r]` that has just left selects
  the same row `r`, and that pivot restores every entry of the tableau.
  (Adapted from C11Rev, which proves the same for `lcp_lemke`.)
-/
import QEProofs.Lemmas.C05Lex

namespace QE.C05
open QE QE.Pivot Finset

set_option linter.unusedSectionVars false
set_option linter.unusedVariables false
variable {K : Type} [Field K] [LinearOrder K] [IsStrictOrderedRing K]

/-- entries of the column of the variable that left, after the pivot -/
theorem tcol_left (T : M K) (b : List ℕ) (L N c r : ℕ) (hs : TShape T L N) (hc : TCanon T b L N)
    (hr : r < L) (k : ℕ) (hk : k < L) :
    (pivot T c r).get k (b.getD r 0)
      = if k = r then 1 / T.get r c else - T.get k c / T.get r c := by
  have hb : b.getD r 0 < T.nc := by have := (hc.2 r hr).1; rw [hs.2]; omega
  have hu := (hc.2 r hr).2
  by_cases hkr : k = r
  · rw [if_pos hkr, hkr, pivot_get_r T c r _ (by rw [hs.1]; exact hr) hb, hu r hr, if_pos rfl]
  · rw [if_neg hkr, pivot_get_i T c r k _ (by rw [hs.1]; exact hk) hb hkr, hu r hr, hu k hk,
      if_pos rfl, if_neg hkr]
    ring

/-- **reversibility, row**: re-entering the variable that just left selects the same row -/
theorem trev_row (T0 T : M K) (b : List ℕ) (L N ss c : ℕ) (h0 : TInit T0 L N ss)
    (h : TInv T0 T b L N ss) (hcN : c < N) :
    (lexMinRatio (pivot T c (lexMinRatio T c ss (0 : K) 0).2)
        (b.getD (lexMinRatio T c ss (0 : K) 0).2 0) ss (0 : K) 0).2
      = (lexMinRatio T c ss (0 : K) 0).2 := by
  obtain ⟨hf, hr, hpos, h'⟩ := tinv_step T0 T b L N ss c h0 h hcN
  set r := (lexMinRatio T c ss (0 : K) 0).2 with hrdef
  have hp : T.get r c ≠ 0 := ne_of_gt hpos
  set T' := pivot T c r with hT'
  set l := b.getD r 0 with hl
  have hlN : l < N := (h.can.2 r hr).1
  have hcol := tcol_left T b L N c r h.sh h.can hr
  have hposr : 0 < T'.get r l := by
    rw [hcol r hr, if_pos rfl]; exact one_div_pos.mpr hpos
  obtain ⟨hf', hr'', hpos'', _⟩ := tinv_step T0 T' (b.set r c) L N ss l h0 h' hlN
  by_contra hne
  set r'' := (lexMinRatio T' l ss (0 : K) 0).2 with hr''def
  have hstrict := C11.lexMinRatio_strict T' l ss hf' r (by rw [h'.sh.1]; exact hr)
    (fun e => hne e.symm) hposr
  rw [lexList_eq T' L N ss h'.sh] at hstrict
  have hm : T.get r'' c < 0 := by
    have e := hcol r'' hr''
    rw [if_neg hne] at e
    rw [e] at hpos''
    have : 0 < - T.get r'' c := by
      have := mul_pos hpos'' hpos
      rwa [div_mul_cancel₀ _ hp] at this
    linarith
  have hdiff : C11.LexPosOn (C11.ratioDiff T' l r r'') (N :: (List.range L).map (· + ss)) := by
    apply C11.lexPosOn_congr (fun j => (T.get r c / (- T.get r'' c)) * T.get r'' j)
    · intro j hj
      have hjnc : j < T.nc := by rw [h.sh.2]; exact lexList_lt L N ss h0.hss j hj
      unfold C11.ratioDiff
      rw [hcol r hr, hcol r'' hr'', if_pos rfl, if_neg hne,
        pivot_get_r T c r j (by rw [h.sh.1]; exact hr) hjnc,
        pivot_get_i T c r r'' j (by rw [h.sh.1]; exact hr'') hjnc hne]
      have hm' : T.get r'' c ≠ 0 := ne_of_lt hm
      field_simp
      ring
    · exact C11.lexPosOn_smul _ _ (div_pos hpos (by linarith)) _ (h.lex r'' hr'')
  apply C11.lexPosOn_neg_false _ _ hdiff
  apply C11.lexPosOn_congr _ _ _ _ hstrict
  intro j _
  unfold C11.ratioDiff; ring

/-- **reversibility, tableau**: pivoting back on the same row restores every entry -/
theorem trev_tab (T : M K) (b : List ℕ) (L N c r : ℕ) (hs : TShape T L N) (hc : TCanon T b L N)
    (hr : r < L) (hp : T.get r c ≠ 0) (i j : ℕ) (hi : i < L) (hj : j < N + 1) :
    (pivot (pivot T c r) (b.getD r 0) r).get i j = T.get i j := by
  have hcol := tcol_left T b L N c r hs hc hr
  have hnr : (pivot T c r).nr = L := by simpa using hs.1
  have hnc : (pivot T c r).nc = N + 1 := by simpa using hs.2
  by_cases hir : i = r
  · rw [hir, pivot_get_r _ _ _ _ (by rw [hnr]; exact hr) (by rw [hnc]; exact hj), hcol r hr, if_pos rfl,
      pivot_get_r T c r j (by rw [hs.1]; exact hr) (by rw [hs.2]; exact hj)]
    field_simp
  · rw [pivot_get_i _ _ _ _ _ (by rw [hnr]; exact hi) (by rw [hnc]; exact hj) hir, hcol r hr, hcol i hi,
      if_pos rfl, if_neg hir,
      pivot_get_r T c r j (by rw [hs.1]; exact hr) (by rw [hs.2]; exact hj),
      pivot_get_i T c r i j (by rw [hs.1]; exact hi) (by rw [hs.2]; exact hj) hir]
    field_simp
    ring

end QE.C05
