/-
  C06 helper lemmas, part 7: Loewner-order facts about the doubling sums
  `Σ_{j<m} a^j b (aᵀ)^j` for PSD `b`.
-/
import QEProofs.Lemmas.C06Mat
import QEProofs.Lemmas.C06Psd
import Mathlib.Tactic.Abel

set_option linter.unusedSectionVars false

namespace QE.C06
open Matrix Finset

variable {K : Type} [Field K] [LinearOrder K] [IsStrictOrderedRing K] {n : ℕ}

/-- the `j`-th term `a^j b (aᵀ)^j` -/
def tterm (a b : Matrix (Fin n) (Fin n) K) (j : ℕ) : Matrix (Fin n) (Fin n) K := a ^ j * b * aᵀ ^ j

theorem dsum_eq_sum_tterm (a b : Matrix (Fin n) (Fin n) K) (m : ℕ) :
    dsum a b aᵀ m = ∑ j ∈ range m, tterm a b j := rfl

theorem tterm_zero (a b : Matrix (Fin n) (Fin n) K) : tterm a b 0 = b := by simp [tterm]

theorem tterm_succ (a b : Matrix (Fin n) (Fin n) K) (j : ℕ) : a * tterm a b j * aᵀ = tterm a b (j + 1) := by
  unfold tterm
  rw [pow_succ' a j, pow_succ aᵀ j]
  simp only [Matrix.mul_assoc]

theorem tterm_psd (a : Matrix (Fin n) (Fin n) K) {b : Matrix (Fin n) (Fin n) K} (hb : PSD b) (j : ℕ) :
    PSD (tterm a b j) := by
  unfold tterm; rw [← transpose_pow]; exact psd_conj _ hb

/-- `γ − b ⪰ 0` for a partial sum with at least one term -/
theorem dsum_sub_psd (a : Matrix (Fin n) (Fin n) K) {b : Matrix (Fin n) (Fin n) K} (hb : PSD b) (m : ℕ) :
    PSD (dsum a b aᵀ (m + 1) - b) := by
  rw [dsum_eq_sum_tterm, sum_range_succ', tterm_zero, add_sub_cancel_right]
  exact psd_sum _ _ fun j _ => tterm_psd a hb _

theorem dsum_psd (a : Matrix (Fin n) (Fin n) K) {b : Matrix (Fin n) (Fin n) K} (hb : PSD b) (m : ℕ) :
    PSD (dsum a b aᵀ m) := by
  rw [dsum_eq_sum_tterm]; exact psd_sum _ _ fun j _ => tterm_psd a hb _

/-- `0 ⪯ a^m b (aᵀ)^m ⪯ a^m γ_m (aᵀ)^m` (tail term below the next increment) -/
theorem tail_le_next_increment (a : Matrix (Fin n) (Fin n) K) {b : Matrix (Fin n) (Fin n) K} (hb : PSD b)
    (m : ℕ) :
    PSD (a ^ (m + 1) * b * aᵀ ^ (m + 1)) ∧
    PSD (a ^ (m + 1) * dsum a b aᵀ (m + 1) * aᵀ ^ (m + 1) - a ^ (m + 1) * b * aᵀ ^ (m + 1)) := by
  refine ⟨tterm_psd a hb _, ?_⟩
  have : a ^ (m + 1) * dsum a b aᵀ (m + 1) * aᵀ ^ (m + 1) - a ^ (m + 1) * b * aᵀ ^ (m + 1)
      = a ^ (m + 1) * (dsum a b aᵀ (m + 1) - b) * (a ^ (m + 1))ᵀ := by
    rw [transpose_pow, Matrix.mul_sub, Matrix.sub_mul]
  rw [this]
  exact psd_conj _ (dsum_sub_psd a hb m)

/-- the tail term after doubling is below `a · (tested increment) · aᵀ`:
    `a^(2m) b (aᵀ)^(2m) ⪯ a (γ_{2m} − γ_m) aᵀ` -/
theorem tail_le_conj_increment (a : Matrix (Fin n) (Fin n) K) {b : Matrix (Fin n) (Fin n) K} (hb : PSD b)
    (m : ℕ) :
    PSD (a * (dsum a b aᵀ (2 * (m + 1)) - dsum a b aᵀ (m + 1)) * aᵀ
          - a ^ (2 * (m + 1)) * b * aᵀ ^ (2 * (m + 1))) := by
  have h2 : 2 * (m + 1) = (m + 1) + m + 1 := by omega
  have hsplit : dsum a b aᵀ (2 * (m + 1)) - dsum a b aᵀ (m + 1)
      = (∑ j ∈ range m, tterm a b (m + 1 + j)) + tterm a b (m + 1 + m) := by
    rw [h2, dsum_eq_sum_tterm, dsum_eq_sum_tterm, sum_range_succ, sum_range_add]
    abel
  have htail : a ^ (2 * (m + 1)) * b * aᵀ ^ (2 * (m + 1)) = a * tterm a b (m + 1 + m) * aᵀ := by
    rw [tterm_succ, h2]; rfl
  rw [hsplit, htail]
  have : a * ((∑ j ∈ range m, tterm a b (m + 1 + j)) + tterm a b (m + 1 + m)) * aᵀ
        - a * tterm a b (m + 1 + m) * aᵀ
      = a * (∑ j ∈ range m, tterm a b (m + 1 + j)) * aᵀ := by
    rw [Matrix.mul_add, Matrix.add_mul, add_sub_cancel_right]
  rw [this]
  exact psd_conj _ (psd_sum _ _ fun j _ => tterm_psd a hb _)

end QE.C06
