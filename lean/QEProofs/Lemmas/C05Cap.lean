/-
  Lemmas for property C05 (Lemke-Howson): the step counter of `_lemke_howson_tbl` and what
  the capping loop does when `capping ≥ max_iter` (the documented case `capping=None`).
  No arithmetic of the scalars is involved: these hold for every scalar type and tolerance.
-/
import QEModel.C05

namespace QE.C05
open QE QE.Pivot
set_option linter.unusedSectionVars false

variable {α : Type} [Zero α] [One α] [Add α] [Sub α] [Mul α] [Div α] [Neg α] [LT α] [LE α]
  [DecidableLT α] [DecidableLE α] [BEq α]

theorem lhStep_numIter (m : Nat) (tp td : α) (s : LHState α) (pl : Nat) :
    (lhStep m tp td s pl).numIter = s.numIter + 1 := by
  unfold lhStep
  split <;> rfl

/-- the loop makes at least one and at most `fuel + 1` steps, and exactly `fuel + 1` when it
    does not report convergence -/
theorem lhLoop_numIter (m ip : Nat) (tp td : α) : ∀ (fuel : Nat) (s : LHState α) (pl : Nat),
    s.numIter + 1 ≤ (lhLoop m ip tp td fuel s pl).2.numIter ∧
    (lhLoop m ip tp td fuel s pl).2.numIter ≤ s.numIter + fuel + 1 ∧
    ((lhLoop m ip tp td fuel s pl).1 = false →
      (lhLoop m ip tp td fuel s pl).2.numIter = s.numIter + fuel + 1)
  | 0, s, pl => by
    unfold lhLoop
    dsimp only
    rw [lhStep_numIter]
    exact ⟨Nat.le_refl _, Nat.le_refl _, fun _ => rfl⟩
  | fuel + 1, s, pl => by
    unfold lhLoop
    dsimp only
    split
    · rw [lhStep_numIter]
      exact ⟨Nat.le_refl _, by omega, fun h => by simp at h⟩
    · obtain ⟨h1, h2, h3⟩ := lhLoop_numIter m ip tp td fuel (lhStep m tp td s pl) (1 - pl)
      rw [lhStep_numIter] at h1 h2 h3
      exact ⟨by omega, by omega, fun h => by rw [h3 h]; omega⟩

/-- `_lemke_howson_tbl`: `1 ≤ num_iter ≤ max(max_iter, 1)`, and `num_iter ≥ max_iter` when it
    does not report convergence -/
theorem lhTbl_numIter (m n : Nat) (A B : Nat → Nat → α) (ip maxIter : Nat) (tp td : α) :
    1 ≤ (lhTbl m n A B ip maxIter tp td).2.numIter ∧
    (lhTbl m n A B ip maxIter tp td).2.numIter ≤ max maxIter 1 ∧
    ((lhTbl m n A B ip maxIter tp td).1 = false →
      maxIter ≤ (lhTbl m n A B ip maxIter tp td).2.numIter) := by
  unfold lhTbl
  dsimp only
  obtain ⟨h1, h2, h3⟩ := lhLoop_numIter m ip tp td (maxIter - 1) (lhInit m n A B ip)
    (if (lhInit m n A B ip).b0.contains ip then 1 else 0)
  have h0 : (lhInit m n A B ip).numIter = 0 := rfl
  rw [h0] at h1 h2 h3
  refine ⟨by omega, by omega, fun h => by rw [h3 h]; omega⟩

/-- **`capping ≥ max_iter` (in particular `capping=None`) is the plain Lemke-Howson algorithm**:
    one run from the given initial pivot with `max_iter` as the bound; `init` is the given pivot
    and `num_iter` the counter of that run. -/
theorem lhCapping_of_ge (m n : Nat) (hm : 1 ≤ m) (hn : 1 ≤ n) (A B : Nat → Nat → α)
    (ip maxIter capping : Nat) (hcap : maxIter ≤ capping) (tp td : α) :
    (lhCapping m n A B ip maxIter capping tp td).converged = (lhTbl m n A B ip maxIter tp td).1 ∧
    (lhCapping m n A B ip maxIter capping tp td).st = (lhTbl m n A B ip maxIter tp td).2 ∧
    (lhCapping m n A B ip maxIter capping tp td).init = ip ∧
    (lhCapping m n A B ip maxIter capping tp td).numIter = (lhTbl m n A B ip maxIter tp td).2.numIter := by
  unfold lhCapping
  obtain ⟨rem, hrem⟩ : ∃ rem, m + n - 1 = rem + 1 := ⟨m + n - 2, by omega⟩
  rw [hrem]
  unfold lhCapLoop
  dsimp only
  rw [Nat.min_eq_left hcap]
  have hni := (lhTbl_numIter m n A B ip maxIter tp td).2.2
  have hcond : (lhTbl m n A B ip maxIter tp td).1 = true ∨
      0 + (lhTbl m n A B ip maxIter tp td).2.numIter ≥ maxIter := by
    cases hc : (lhTbl m n A B ip maxIter tp td).1 with
    | true => exact Or.inl rfl
    | false => right; have := hni hc; omega
  rw [if_pos hcond]
  exact ⟨rfl, rfl, rfl, by simp⟩

/-- the initial pivot reported by the capping loop is a valid label -/
theorem lhCapLoop_init_lt (m n : Nat) (A B : Nat → Nat → α) (maxIter capping : Nat) (tp td : α) :
    ∀ (rem initCurr maxIterCurr total : Nat), initCurr < m + n →
      (lhCapLoop m n A B maxIter capping tp td rem initCurr maxIterCurr total).init < m + n
  | 0, _, _, _, h => h
  | rem + 1, initCurr, maxIterCurr, total, h => by
    unfold lhCapLoop
    dsimp only
    split
    · exact h
    · apply lhCapLoop_init_lt m n A B maxIter capping tp td rem
      split <;> omega

end QE.C05
