/-
  C06 helper lemmas, part 6: positive semidefiniteness over an ordered field by
  quadratic forms `xᵀ M x` (no spectral theory): congruence, sums, diagonal and
  off-diagonal bounds, and the entrywise bound of a congruence `A D Aᵀ`.
-/
import Mathlib.Data.Matrix.Basic
import Mathlib.Data.Matrix.Mul
import Mathlib.Algebra.Order.Field.Basic
import Mathlib.Algebra.Order.Ring.Abs
import Mathlib.Algebra.Order.BigOperators.Ring.Finset
import Mathlib.Algebra.Order.BigOperators.Group.Finset
import Mathlib.Tactic.Linarith
import Mathlib.Tactic.Ring

set_option linter.unusedSectionVars false

namespace QE.C06
open Matrix Finset

variable {K : Type} [Field K] [LinearOrder K] [IsStrictOrderedRing K] {n : ℕ}

/-- the quadratic form `xᵀ M x` -/
def qf (M : Matrix (Fin n) (Fin n) K) (x : Fin n → K) : K := x ⬝ᵥ (M *ᵥ x)

/-- symmetric with non-negative quadratic form (Loewner `0 ⪯ M`) -/
def PSD (M : Matrix (Fin n) (Fin n) K) : Prop := Mᵀ = M ∧ ∀ x, 0 ≤ qf M x

theorem qf_add (M N : Matrix (Fin n) (Fin n) K) (x : Fin n → K) : qf (M + N) x = qf M x + qf N x := by
  unfold qf; rw [add_mulVec, dotProduct_add]

theorem qf_sub (M N : Matrix (Fin n) (Fin n) K) (x : Fin n → K) : qf (M - N) x = qf M x - qf N x := by
  unfold qf; rw [sub_mulVec, dotProduct_sub]

theorem qf_zero (x : Fin n → K) : qf (0 : Matrix (Fin n) (Fin n) K) x = 0 := by
  unfold qf; rw [zero_mulVec, dotProduct_zero]

theorem qf_sum {ι : Type} (s : Finset ι) (f : ι → Matrix (Fin n) (Fin n) K) (x : Fin n → K) :
    qf (∑ i ∈ s, f i) x = ∑ i ∈ s, qf (f i) x := by
  classical
  induction s using Finset.induction_on with
  | empty => simp [qf_zero]
  | insert a s ha ih => rw [sum_insert ha, sum_insert ha, qf_add, ih]

/-- congruence: `xᵀ (C M Cᵀ) x = (Cᵀx)ᵀ M (Cᵀx)` -/
theorem qf_conj (C M : Matrix (Fin n) (Fin n) K) (x : Fin n → K) :
    qf (C * M * Cᵀ) x = qf M (x ᵥ* C) := by
  unfold qf
  rw [← mulVec_mulVec, ← mulVec_mulVec, dotProduct_mulVec, mulVec_transpose]

theorem psd_zero : PSD (0 : Matrix (Fin n) (Fin n) K) :=
  ⟨transpose_zero, fun x => by rw [qf_zero]⟩

theorem psd_add {M N : Matrix (Fin n) (Fin n) K} (hM : PSD M) (hN : PSD N) : PSD (M + N) :=
  ⟨by rw [transpose_add, hM.1, hN.1], fun x => by rw [qf_add]; exact add_nonneg (hM.2 x) (hN.2 x)⟩

theorem psd_sum {ι : Type} (s : Finset ι) (f : ι → Matrix (Fin n) (Fin n) K) (h : ∀ i ∈ s, PSD (f i)) :
    PSD (∑ i ∈ s, f i) :=
  ⟨by rw [transpose_sum]; exact sum_congr rfl fun i hi => (h i hi).1,
   fun x => by rw [qf_sum]; exact sum_nonneg fun i hi => (h i hi).2 x⟩

theorem psd_conj (C : Matrix (Fin n) (Fin n) K) {M : Matrix (Fin n) (Fin n) K} (hM : PSD M) :
    PSD (C * M * Cᵀ) :=
  ⟨by rw [transpose_mul, transpose_mul, transpose_transpose, hM.1, Matrix.mul_assoc],
   fun x => by rw [qf_conj]; exact hM.2 _⟩

theorem qf_single (M : Matrix (Fin n) (Fin n) K) (i : Fin n) : qf M (Pi.single i 1) = M i i := by
  unfold qf; rw [mulVec_single_one, single_one_dotProduct, col_apply]

theorem qf_pair_add (M : Matrix (Fin n) (Fin n) K) (i j : Fin n) :
    qf M (Pi.single i 1 + Pi.single j 1) = M i i + M i j + M j i + M j j := by
  unfold qf
  rw [mulVec_add, add_dotProduct, dotProduct_add, dotProduct_add, mulVec_single_one, mulVec_single_one,
    single_one_dotProduct, single_one_dotProduct, single_one_dotProduct, single_one_dotProduct]
  simp only [col_apply]
  ring

theorem qf_pair_sub (M : Matrix (Fin n) (Fin n) K) (i j : Fin n) :
    qf M (Pi.single i 1 - Pi.single j 1) = M i i - M i j - M j i + M j j := by
  unfold qf
  rw [mulVec_sub, sub_dotProduct, dotProduct_sub, dotProduct_sub, mulVec_single_one, mulVec_single_one,
    single_one_dotProduct, single_one_dotProduct, single_one_dotProduct, single_one_dotProduct]
  simp only [col_apply]
  ring

theorem psd_diag_nonneg {M : Matrix (Fin n) (Fin n) K} (hM : PSD M) (i : Fin n) : 0 ≤ M i i := by
  have := hM.2 (Pi.single i 1)
  rwa [qf_single] at this

/-- Loewner monotonicity on the diagonal -/
theorem psd_diag_mono {M N : Matrix (Fin n) (Fin n) K} (h : PSD (N - M)) (i : Fin n) : M i i ≤ N i i := by
  have := psd_diag_nonneg h i
  rw [sub_apply] at this
  linarith

/-- `2 |m_ij| ≤ m_ii + m_jj` for PSD `m` -/
theorem psd_two_abs_le {M : Matrix (Fin n) (Fin n) K} (hM : PSD M) (i j : Fin n) :
    2 * |M i j| ≤ M i i + M j j := by
  have hs : M j i = M i j := by
    have := congrFun (congrFun hM.1 i) j
    rwa [transpose_apply] at this
  have h1 := hM.2 (Pi.single i 1 + Pi.single j 1)
  have h2 := hM.2 (Pi.single i 1 - Pi.single j 1)
  rw [qf_pair_add, hs] at h1
  rw [qf_pair_sub, hs] at h2
  rcases abs_cases (M i j) with ⟨h, _⟩ | ⟨h, _⟩ <;> rw [h] <;> linarith

/-- every entry of a PSD matrix is dominated by the larger of the two diagonal entries -/
theorem psd_abs_le_max_diag {M : Matrix (Fin n) (Fin n) K} (hM : PSD M) (i j : Fin n) :
    |M i j| ≤ max (M i i) (M j j) := by
  have h := psd_two_abs_le hM i j
  have h1 := le_max_left (M i i) (M j j)
  have h2 := le_max_right (M i i) (M j j)
  linarith

/-- entrywise bound of a quadratic form: `|D_pq| ≤ t` for all `p, q` gives
    `xᵀ D x ≤ t (Σ|x_p|)²` -/
theorem qf_le_of_entries (D : Matrix (Fin n) (Fin n) K) (t : K) (hD : ∀ p q, |D p q| ≤ t) (x : Fin n → K) :
    qf D x ≤ t * (∑ p, |x p|) ^ 2 := by
  unfold qf dotProduct mulVec dotProduct
  have : t * (∑ p, |x p|) ^ 2 = ∑ p, ∑ q, |x p| * (t * |x q|) := by
    rw [pow_two, ← mul_assoc, mul_comm t, mul_assoc, Finset.sum_mul]
    apply sum_congr rfl; intro p _
    rw [mul_sum, mul_sum]
  rw [this]
  apply sum_le_sum; intro p _
  rw [mul_sum]
  apply sum_le_sum; intro q _
  calc x p * (D p q * x q) ≤ |x p * (D p q * x q)| := le_abs_self _
    _ = |x p| * (|D p q| * |x q|) := by rw [abs_mul, abs_mul]
    _ ≤ |x p| * (t * |x q|) := by
        apply mul_le_mul_of_nonneg_left _ (abs_nonneg _)
        exact mul_le_mul_of_nonneg_right (hD p q) (abs_nonneg _)

/-- diagonal of a congruence `A D Aᵀ` with `|D_pq| ≤ t`: at most `t · (Σ_p |A_ip|)²` -/
theorem conj_diag_le (A D : Matrix (Fin n) (Fin n) K) (t : K) (hD : ∀ p q, |D p q| ≤ t) (i : Fin n) :
    (A * D * Aᵀ) i i ≤ t * (∑ p, |A i p|) ^ 2 := by
  have hq := qf_conj A D (Pi.single i 1)
  rw [qf_single] at hq
  rw [hq]
  have hrow : (Pi.single i 1 ᵥ* A) = fun p => A i p := by
    rw [single_one_vecMul]; rfl
  rw [hrow]
  exact qf_le_of_entries D t hD _

end QE.C06
