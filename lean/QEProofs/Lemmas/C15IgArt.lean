/-
  Lemmas for C15, part 13: the imitation game's tableaux `[I | I | 1]`, `[I | P | 1]` satisfy `TInit`;
  a completely labelled state of the run with `Σ y = 0` is the initial state up to the order of the
  rows; hence (no return, C15IgPath) a CONVERGED inner Lemke–Howson run never stops with `Σ y = 0`.
-/
import QEProofs.Lemmas.C15IgPath
import QEProofs.Lemmas.C15IgLH
namespace QE.C15
open QE QE.Pivot QE.C05 Finset

set_option linter.unusedSectionVars false
set_option linter.unusedVariables false
variable {K : Type} [Field K] [LinearOrder K] [IsStrictOrderedRing K]

theorem ig0_tinit (m : ℕ) : TInit (igT0 m : M K) m (m + m) m :=
  { sh := ⟨rfl, by show 2 * m + 1 = m + m + 1; omega⟩
    hss := le_refl _
    hid := by
      intro q q' hq hq'
      rw [igT0_get m q (m + q') hq (by omega)]
      by_cases h : q = q'
      · rw [if_pos (Or.inr (by omega)), if_pos h]
      · rw [if_neg (by omega), if_neg (by omega), if_neg h]
    nonneg := fun i j hi hj => ig0_nonneg m i j hi (by omega)
    colpos := fun c hc => ig0_col_pos m c (by omega) }

theorem ig1_tinit (m : ℕ) (hm : 1 ≤ m) (X Y : List (List K)) : TInit (igT1 m X Y) m (m + m) 0 :=
  { sh := ⟨rfl, by show 2 * m + 1 = m + m + 1; omega⟩
    hss := by omega
    hid := by
      intro q q' hq hq'
      rw [Nat.zero_add, igT1_get_slack m X Y q q' hq hq']
      by_cases h : q = q'
      · rw [if_pos h.symm, if_pos h]
      · rw [if_neg (fun e => h e.symm), if_neg h]
    nonneg := fun i j hi hj => ig1_nonneg m X Y i j hi (by omega)
    colpos := fun c hc => ig1_col_pos m hm X Y c (by omega) }

theorem igInit_full (m : ℕ) (X Y : List (List K)) (ip : ℕ) :
    GFull m m (igT0 m) (igT1 m X Y) (igInit m X Y ip) := by
  have e : 2 * m = m + m := by omega
  refine ⟨⟨⟨rfl, by show 2 * m + 1 = m + m + 1; omega⟩, by rw [← e]; exact ig0_canon m,
      by rw [← e]; exact ig0_rhs m, fun _ => Iff.rfl, C04.rowsSpan_refl _ _ _, ?_⟩,
    ⟨⟨rfl, by show 2 * m + 1 = m + m + 1; omega⟩, by rw [← e]; exact ig1_canon m X Y,
      by rw [← e]; exact ig1_rhs m X Y, fun _ => Iff.rfl, C04.rowsSpan_refl _ _ _, ?_⟩⟩
  · intro i hi
    left
    show 0 < (igT0 m : M K).get i (m + m)
    rw [← e, igT0_get m i (2 * m) hi (by omega), if_neg (by omega), if_pos rfl]
    exact zero_lt_one
  · intro i hi
    left
    show 0 < (igT1 m X Y).get i (m + m)
    rw [← e, igT1_get_rhs m X Y i hi]
    exact zero_lt_one

/-- row `q` of `[I | I | 1]`: if all `x` vanish, the slack `s_q` is 1 -/
theorem ig0_row_slack (m : ℕ) (z : ℕ → K) (h : RowsSat (igT0 m : M K) z m) (hx : ∀ i, i < m → z i = 0)
    (q : ℕ) (hq : q < m) : z (m + q) = 1 := by
  have := h q hq
  unfold RowSat at this
  have hnc : (igT0 m : M K).nc - 1 = 2 * m := rfl
  rw [hnc, igT0_get m q (2 * m) hq (by omega), if_neg (by omega), if_pos rfl,
    Finset.sum_eq_single (m + q)] at this
  · rw [igT0_get m q (m + q) hq (by omega), if_pos (Or.inr (by omega)), one_mul] at this
    exact this
  · intro j hj hne
    have hj' := Finset.mem_range.mp hj
    by_cases hjm : j < m
    · rw [hx j hjm, mul_zero]
    · rw [igT0_get m q j hq (by omega), if_neg (by omega), if_neg (by omega), zero_mul]
  · intro hnot; exact absurd (Finset.mem_range.mpr (by omega)) hnot

/-- row `i` of `[I | P | 1]`: if all `y` vanish, the slack `r_i` is 1 -/
theorem ig1_row_slack (m : ℕ) (X Y : List (List K)) (z : ℕ → K) (h : RowsSat (igT1 m X Y) z m)
    (hy : ∀ j, j < m → z (m + j) = 0) (i : ℕ) (hi : i < m) : z i = 1 := by
  have := h i hi
  unfold RowSat at this
  have hnc : (igT1 m X Y).nc - 1 = 2 * m := rfl
  rw [hnc, igT1_get_rhs m X Y i hi, Finset.sum_eq_single i] at this
  · rw [igT1_get_slack m X Y i i hi hi, if_pos rfl, one_mul] at this
    exact this
  · intro j hj hne
    have hj' := Finset.mem_range.mp hj
    by_cases hjm : j < m
    · rw [igT1_get_slack m X Y i j hi hjm, if_neg hne, zero_mul]
    · have e : j = m + (j - m) := by omega
      rw [e, hy (j - m) (by omega), mul_zero]
  · intro hnot; exact absurd (Finset.mem_range.mpr (by omega)) hnot

/-- **the artificial equilibrium is the initial state** (imitation game, read off the `y` side):
    a state satisfying the invariant, completely labelled, with `Σ y = 0`, is similar to the
    freshly initialised state -/
theorem ig_art_ssim (m : ℕ) (hm : 1 ≤ m) (X Y : List (List K)) (ip : ℕ) (s : LHState K)
    (hf : GFull m m (igT0 m) (igT1 m X Y) s) (hlab : ∀ k, ¬ InB s.b0 k ∨ ¬ InB s.b1 k)
    (hpiv : s.pivot = ip) (hy0 : basicSum s.T1 s.b1 m (m + m) = 0) :
    SSim m m s (igInit m X Y ip) := by
  have hz0 := (hf.i0.sol _).mp (tsol_rowsSat s.T0 s.b0 m (m + m) hf.i0.sh hf.i0.can)
  have hz1 := (hf.i1.sol _).mp (tsol_rowsSat s.T1 s.b1 m (m + m) hf.i1.sh hf.i1.can)
  have nn1 := tsol_nonneg s.T1 s.b1 m (m + m) hf.i1.rhs
  have sy : basicSum s.T1 s.b1 m (m + m) = ∑ j ∈ range m, tsol s.T1 s.b1 m (m + m) (m + j) :=
    basicSum_eq s.T1 s.b1 m (m + m) m m hf.i1.sh
  rw [sy] at hy0
  have hy : ∀ j, j < m → tsol s.T1 s.b1 m (m + m) (m + j) = 0 := fun j hj =>
    (sum_eq_zero_iff_of_nonneg (fun j _ => nn1 (m + j))).mp hy0 j (mem_range.mpr hj)
  -- all slacks `r_i` of tableau 1 are basic
  have hall1 : ∀ i, i < m → InB s.b1 (0 + i) := by
    intro i hi
    rw [Nat.zero_add]
    by_contra hnb
    have := ig1_row_slack m X Y _ hz1 hy i hi
    rw [tsol_nonbasic s.T1 s.b1 m (m + m) hf.i1.can.1 i hnb] at this
    exact zero_ne_one this
  -- hence `x = 0` (complete labelling) and all slacks of tableau 0 are basic
  have hx : ∀ i, i < m → tsol s.T0 s.b0 m (m + m) i = 0 := by
    intro i hi
    rcases hlab i with h | h
    · exact tsol_nonbasic s.T0 s.b0 m (m + m) hf.i0.can.1 i h
    · have := hall1 i hi; rw [Nat.zero_add] at this; exact absurd this h
  have hall0 : ∀ q, q < m → InB s.b0 (m + q) := by
    intro q hq
    by_contra hnb
    have := ig0_row_slack m _ hz0 hx q hq
    rw [tsol_nonbasic s.T0 s.b0 m (m + m) hf.i0.can.1 (m + q) hnb] at this
    exact zero_ne_one this
  refine ⟨?_, ?_, hpiv⟩
  · exact tsim_init _ s.T0 s.b0 ((List.range m).map (· + m)) m (m + m) m (ig0_tinit m) hf.i0
      (fun q hq => by rw [b0_getD m m q hq, Nat.add_comm]) hall0
  · exact tsim_init _ s.T1 s.b1 (List.range m) m (m + m) 0 (ig1_tinit m hm X Y) hf.i1
      (fun q hq => by rw [b1_getD m q hq, Nat.zero_add]) hall1

/-- **a converged inner Lemke–Howson run never ends at the artificial equilibrium**: imitation game
    of any non-empty history, any `max_piv`, exact arithmetic — if `_lemke_howson_tbl` reports
    convergence, the basic values of the `y` variables do not sum to 0. -/
theorem igLH_nonzero (X Y : List (List K)) (hX : X ≠ []) (maxPiv : ℕ)
    (hconv : (igLH X Y maxPiv 0 0).1 = true) :
    basicSum (igLH X Y maxPiv 0 0).2.T1 (igLH X Y maxPiv 0 0).2.b1 X.length (2 * X.length) ≠ 0 := by
  have hm : 1 ≤ X.length := by
    cases X with
    | nil => exact absurd rfl hX
    | cons a as => simp
  set m := X.length with hmdef
  have e2 : 2 * m = m + m := by omega
  rw [e2]
  intro hy0
  have hcont : ((List.range m).map (· + m)).contains (m - 1) = false := by
    simp only [List.contains_eq_mem, List.mem_map, List.mem_range, decide_eq_false_iff_not, not_exists, not_and]
    intro x _; omega
  have hrun : igLH X Y maxPiv 0 0 = lhLoop m (m - 1) 0 0 (maxPiv - 1) (igInit m X Y (m - 1)) 0 := by
    unfold igLH
    show lhLoop m (m - 1) 0 0 (maxPiv - 1) (igInit m X Y (m - 1))
      (if (igInit m X Y (m - 1)).b0.contains (m - 1) then 1 else 0) = _
    have : (igInit m X Y (m - 1) : LHState K).b0.contains (m - 1) = false := hcont
    rw [this]; rfl
  rw [hrun] at hconv hy0
  have h0 := ig0_tinit (K := K) m
  have h1 := ig1_tinit m hm X Y
  have hfull := igInit_full m X Y (m - 1)
  have hp0 : (igInit m X Y (m - 1) : LHState K).pivot < m + m := by
    show m - 1 < m + m; omega
  have hb0 : ∀ k, InB ((List.range m).map (· + m)) k → m ≤ k := fun k h => inB_b0 m m k h
  have hb1 : ∀ k, InB (List.range m) k → k < m := fun k h => inB_b1 m k h
  have hl0 : LHLab (m - 1) (igInit m X Y (m - 1) : LHState K) 0 := by
    refine ⟨?_, ?_, Or.inl rfl⟩
    · intro k _
      by_cases hk : k < m
      · left; intro h; have := hb0 k h; omega
      · right; intro h; have := hb1 k h; omega
    · rw [if_pos rfl]
      intro h
      have := hb0 (m - 1) h
      omega
  have hoth0 : (if (0 : ℕ) = 0 then InB (igInit m X Y (m - 1) : LHState K).b1 (igInit m X Y (m - 1) : LHState K).pivot
      else InB (igInit m X Y (m - 1) : LHState K).b0 (igInit m X Y (m - 1) : LHState K).pivot) := by
    rw [if_pos rfl]
    exact ⟨m - 1, by show m - 1 < (List.range m).length; simp; omega,
      by show (List.range m).getD (m - 1) 0 = m - 1; exact b1_getD m (m - 1) (by omega)⟩
  obtain ⟨T, hT, hst, hcv, hnc⟩ := lhLoop_iter m (m - 1) (maxPiv - 1) (igInit m X Y (m - 1) : LHState K) 0
  rw [hst] at hy0
  have hpivT := hcv hconv
  -- complete labelling at the moment of convergence
  obtain ⟨a, ha⟩ : ∃ a, T = a + 1 := ⟨T - 1, by omega⟩
  obtain ⟨fa, pa, qa⟩ := gIter_full m m _ _ h0 h1 (igInit m X Y (m - 1)) 0 (Or.inl rfl) hfull hp0 a
  have hla := gIter_lab m m _ _ h0 h1 (m - 1) (igInit m X Y (m - 1)) 0 (Or.inl rfl) hfull hp0 hl0 a
    (fun j hj1 hj2 => hnc j hj1 (by omega))
  have hpla : (lhIter m a (igInit m X Y (m - 1) : LHState K) 0).2 = 0 ∨
      (lhIter m a (igInit m X Y (m - 1) : LHState K) 0).2 = 1 := by
    rw [qa]; split <;> omega
  have hstep := gStep_lab m m _ _ h0 h1 (m - 1) _ _ hpla fa hla pa
  obtain ⟨fT, _, _⟩ := gIter_full m m _ _ h0 h1 (igInit m X Y (m - 1)) 0 (Or.inl rfl) hfull hp0 T
  have hlabT : ∀ k, ¬ InB (lhIter m T (igInit m X Y (m - 1) : LHState K) 0).1.b0 k ∨
      ¬ InB (lhIter m T (igInit m X Y (m - 1) : LHState K) 0).1.b1 k := by
    rw [ha, lhIter_succ]
    apply hstep.2
    have := hpivT
    rw [ha, lhIter_succ] at this
    exact this
  have hsim := ig_art_ssim m hm X Y (m - 1) _ fT hlabT hpivT hy0
  exact gNoReturn m m _ _ h0 h1 (m - 1) (igInit m X Y (m - 1)) 0 (Or.inl rfl) hfull hp0 hl0 hoth0 T hT hnc hsim

end QE.C15
