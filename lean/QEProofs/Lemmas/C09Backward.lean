/-
  Lemmas for C09, part 3: the backward-induction loop.
-/
import QEProofs.Lemmas.C09Bellman
namespace QE.C09
set_option linter.unusedSectionVars false

theorem mapM_toOption_eq_some {K : Type} : ∀ (l : List (Ext K)) (tv : List K),
    l.mapM Ext.toOption = some tv → l = tv.map Ext.fin := by
  intro l
  induction l with
  | nil => intro tv h; simp at h; subst h; rfl
  | cons x xs ih =>
    intro tv h
    cases x with
    | ninf => simp [Ext.toOption] at h
    | fin a =>
      simp only [List.mapM_cons, Ext.toOption] at h
      cases hxs : xs.mapM Ext.toOption with
      | none => simp [hxs] at h
      | some t =>
        simp [hxs] at h
        subst h
        simp [ih t hxs]

section
variable {K : Type} [Zero K] [Add K] [Mul K] [LinearOrder K]

theorem backwardLoop_spec (d : DDP K) : ∀ (k : Nat) (v : List K) (vs : List (List K))
    (ss : List (List Nat)), backwardLoop d k v = some (vs, ss) →
    vs.length = k ∧ ss.length = k ∧
    ∀ t, t < k → ∃ w w' σ, (vs ++ [v])[t + 1]? = some w ∧ (vs ++ [v])[t]? = some w' ∧
      ss[t]? = some σ ∧ d.bellman w = (w'.map Ext.fin, σ) := by
  intro k
  induction k with
  | zero =>
    intro v vs ss h
    simp [backwardLoop] at h
    obtain ⟨rfl, rfl⟩ := h
    simp
  | succ k ih =>
    intro v vs ss h
    simp only [backwardLoop] at h
    cases hm : (d.bellman v).1.mapM Ext.toOption with
    | none => simp [hm] at h
    | some tv =>
      simp only [hm] at h
      cases hb : backwardLoop d k tv with
      | none => simp [hb] at h
      | some p =>
        obtain ⟨vs', ss'⟩ := p
        simp only [hb, Option.some.injEq, Prod.mk.injEq] at h
        obtain ⟨rfl, rfl⟩ := h
        obtain ⟨hl1, hl2, hrec⟩ := ih tv vs' ss' hb
        refine ⟨by simp [hl1], by simp [hl2], ?_⟩
        intro t ht
        by_cases htk : t < k
        · obtain ⟨w, w', σ, h1, h2, h3, h4⟩ := hrec t htk
          refine ⟨w, w', σ, ?_, ?_, ?_, h4⟩
          · rw [List.getElem?_append_left (by simp [hl1]; omega)]; exact h1
          · rw [List.getElem?_append_left (by simp [hl1]; omega)]; exact h2
          · rw [List.getElem?_append_left (by omega)]; exact h3
        · have : t = k := by omega
          subst this
          refine ⟨v, tv, (d.bellman v).2, ?_, ?_, ?_, ?_⟩
          · rw [List.getElem?_append_right (by simp [hl1])]; simp [hl1]
          · rw [List.getElem?_append_left (by simp [hl1])]
            rw [List.getElem?_append_right (by omega)]; simp [hl1]
          · rw [List.getElem?_append_right (by omega)]; simp [hl2]
          · rw [← mapM_toOption_eq_some _ _ hm]

theorem backwardInduction_isSome (d : DDP K) (hfin : ∀ v, ∃ tv : List K, (d.bellman v).1 = tv.map Ext.fin)
    (T : Nat) (vTerm : Option (List K)) : (backwardInduction d T vTerm).isSome = true := by
  have hl : ∀ k v, (backwardLoop d k v).isSome = true := by
    intro k
    induction k with
    | zero => intro v; simp [backwardLoop]
    | succ k ih =>
      intro v
      obtain ⟨tv, htv⟩ := hfin v
      have hm : (d.bellman v).1.mapM Ext.toOption = some tv := by
        rw [htv]
        clear htv
        induction tv with
        | nil => simp
        | cons x xs ihx => simp [List.mapM_cons, Ext.toOption, ihx]
      simp only [backwardLoop, hm]
      have := ih tv
      cases hb : backwardLoop d k tv with
      | none => simp [hb] at this
      | some p => simp
  unfold backwardInduction
  simpa using hl T (vTerm.getD (List.replicate d.n 0))


end
end QE.C09
