/-
  Lemmas for C02: copy semantics of `gth_solve` (`worksInPlace`, `argAfter`, `gthCalls`).
-/
import QEModel.C02
import QEProofs.Lemmas.C02Gth
namespace QE.C02
open Finset

set_option linter.unusedSectionVars false
set_option linter.unusedVariables false

section generic
variable {α : Type} [Zero α] [One α] [Add α] [Mul α] [Div α] [LE α] [DecidableLE α]

theorem worksInPlace_iff' (ow : Bool) (f : ArgForm) :
    worksInPlace ow f = true ↔ (ow = true ∧ f.ndarray = true ∧ f.float64 = true ∧ f.cContig = true) := by
  unfold worksInPlace
  simp only [Bool.and_eq_true]
  tauto

theorem argAfter_of_not (n : ℕ) (A : M α) (ow : Bool) (f : ArgForm) (h : worksInPlace ow f = false) :
    argAfter n A ow f = A := by
  unfold argAfter; rw [h]; rfl

theorem argAfter_of_inplace (n : ℕ) (A : M α) (ow : Bool) (f : ArgForm) (h : worksInPlace ow f = true) :
    argAfter n A ow f = (reduce n (n - 1) 0 A).1 := by
  unfold argAfter; rw [h]; rfl

/-- every history of calls that does not work in place leaves the argument as it was and returns,
    each time, the solution for the original matrix -/
theorem gthCalls_of_not (n : ℕ) (ow : Bool) (f : ArgForm) (h : worksInPlace ow f = false) :
    ∀ (r : ℕ) (A : M α), (gthCalls n ow f r A).2 = A ∧ (1 ≤ r → (gthCalls n ow f r A).1 = gthSolve n A) := by
  intro r
  induction r using Nat.strong_induction_on with
  | _ r ih =>
    intro A
    match r with
    | 0 => exact ⟨rfl, fun h => absurd h (by omega)⟩
    | 1 => exact ⟨argAfter_of_not n A ow f h, fun _ => rfl⟩
    | r + 2 =>
      rw [gthCalls, argAfter_of_not n A ow f h]
      have := ih (r + 1) (by omega) A
      exact ⟨this.1, fun _ => this.2 (by omega)⟩

/-- the reduction from pivot `k` on never writes into a row `i ≤ k` -/
theorem reduce_row (n : ℕ) : ∀ (fuel k : ℕ) (A : M α) (i j : ℕ), i < n → j < n → i ≤ k →
    (reduce n fuel k A).1.get i j = A.get i j := by
  intro fuel
  induction fuel with
  | zero => intro k A i j _ _ _; rfl
  | succ fuel ih =>
    intro k A i j hi hj hik
    rw [reduce]
    try simp only
    by_cases hs : rowScale n A k ≤ 0
    · rw [if_pos hs]
    · rw [if_neg hs, ih (k+1) _ i j hi hj (by omega), redStep_get' n A k _ i j hi hj,
        if_neg (by omega)]

end generic

section field
variable {K : Type} [Field K] [LinearOrder K] [IsStrictOrderedRing K]

theorem argAfter_offNonneg (n : ℕ) (A : M K) (ow : Bool) (f : ArgForm) (hA : OffNonneg n A) :
    OffNonneg n (argAfter n A ow f) := by
  unfold argAfter
  split
  · exact reduce_offNonneg n (n-1) 0 A hA
  · exact hA

/-- along every history of calls on a Metzler matrix — in place or not — the array stays Metzler and
    every call returns a probability vector of length `n` -/
theorem gthCalls_sound (n : ℕ) (hn : 1 ≤ n) (ow : Bool) (f : ArgForm) :
    ∀ (r : ℕ) (A : M K), OffNonneg n A →
      OffNonneg n (gthCalls n ow f r A).2
      ∧ (1 ≤ r → (gthCalls n ow f r A).1.length = n
          ∧ (∀ i, 0 ≤ (gthCalls n ow f r A).1.getD i 0)
          ∧ ∑ i ∈ range n, (gthCalls n ow f r A).1.getD i 0 = 1) := by
  intro r
  induction r using Nat.strong_induction_on with
  | _ r ih =>
    intro A hA
    match r with
    | 0 => exact ⟨hA, fun h => absurd h (by omega)⟩
    | 1 =>
      obtain ⟨h1, h2, h3, _⟩ := gthSolve_stationary_aux n hn A hA
      exact ⟨argAfter_offNonneg n A ow f hA, fun _ => ⟨h1, h2, h3⟩⟩
    | r + 2 =>
      rw [gthCalls]
      have := ih (r + 1) (by omega) (argAfter n A ow f) (argAfter_offNonneg n A ow f hA)
      exact ⟨this.1, fun _ => this.2 (by omega)⟩

end field
end QE.C02
