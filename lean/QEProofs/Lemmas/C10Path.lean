/-
  Lemmas for C10, part 3: the path kernels (markov/core.py 596-603, 641-651), the init
  handling (469-502) and the assembled `simulate_indices`.  Everything in this file is
  independent of the order and of the arithmetic: it holds for every stream of "uniforms"
  (of any type, any value) — induction over the path.
-/
import QEModel.C10
import QEProofs.Lemmas.C10Search
namespace QE.C10
variable {α : Type}

/-! ### a path of a step function -/

/-- `p` is the trajectory of `step` from `s` driven by `us`:
    right length, starts at `s`, and every entry is the step image of its predecessor. -/
def IsPathOf (step : Nat → α → Option Nat) (s : Nat) (us : List α) (p : List Nat) : Prop :=
  p.length = us.length + 1 ∧ p[0]? = some s ∧
  ∀ t (ht : t < us.length), ∃ a b, p[t]? = some a ∧ p[t + 1]? = some b ∧ step a us[t] = some b

/-- **Induction over the path.** If `step` maps the set `{s | s < n}` into itself, then for every
    start `s < n` and *every* stream `us` the kernel returns a path, it has the right length, starts
    at `s`, stays below `n`, and follows `step`. -/
theorem pathFrom_valid (step : Nat → α → Option Nat) (n : Nat)
    (hstep : ∀ s u, s < n → ∃ s', step s u = some s' ∧ s' < n) :
    ∀ (us : List α) (s : Nat), s < n →
      ∃ p, pathFrom step s us = some p ∧ IsPathOf step s us p ∧ ∀ x ∈ p, x < n := by
  intro us
  induction us with
  | nil =>
    intro s hs
    refine ⟨[s], rfl, ⟨rfl, rfl, ?_⟩, ?_⟩
    · intro t ht; simp at ht
    · intro x hx; simp at hx; omega
  | cons u us ih =>
    intro s hs
    obtain ⟨s', hs', hlt'⟩ := hstep s u hs
    obtain ⟨rest, hrest, ⟨hlen, hhead, hfol⟩, hall⟩ := ih s' hlt'
    refine ⟨s :: rest, ?_, ⟨?_, rfl, ?_⟩, ?_⟩
    · simp [pathFrom, hs', hrest]
    · simp [hlen]
    · intro t ht
      cases t with
      | zero =>
        refine ⟨s, s', rfl, ?_, ?_⟩
        · simpa using hhead
        · simpa using hs'
      | succ t =>
        obtain ⟨a, b, ha, hb, hab⟩ := hfol t (by simpa using ht)
        exact ⟨a, b, by simpa using ha, by simpa using hb, by simpa using hab⟩
    · intro x hx
      rcases List.mem_cons.mp hx with rfl | hx
      · exact hs
      · exact hall x hx

/-- a path is a function of the start and the stream ("equal seeds give equal paths" once the
    generator is deterministic) — and any returned path is *the* trajectory -/
theorem pathFrom_isPathOf (step : Nat → α → Option Nat) :
    ∀ (us : List α) (s : Nat) (p : List Nat), pathFrom step s us = some p → IsPathOf step s us p := by
  intro us
  induction us with
  | nil =>
    intro s p h
    simp [pathFrom] at h
    subst h
    exact ⟨rfl, rfl, fun t ht => by simp at ht⟩
  | cons u us ih =>
    intro s p h
    simp only [pathFrom] at h
    split at h
    · exact absurd h (by simp)
    · rename_i s' hs'
      split at h
      · exact absurd h (by simp)
      · rename_i rest hrest
        simp at h
        subst h
        obtain ⟨hlen, hhead, hfol⟩ := ih s' rest hrest
        refine ⟨by simp [hlen], rfl, ?_⟩
        intro t ht
        cases t with
        | zero => exact ⟨s, s', rfl, by simpa using hhead, by simpa using hs'⟩
        | succ t =>
          obtain ⟨a, b, ha, hb, hab⟩ := hfol t (by simpa using ht)
          exact ⟨a, b, by simpa using ha, by simpa using hb, by simpa using hab⟩

/-! ### the dense step -/

/-- the dense kernel's step stays in the state space for every `u`, given only that the cdf
    array is square (`n` rows of length `n`) -/
theorem denseStep_lt [LT α] [DecidableLT α] [BEq α] (cdfs : List (List α))
    (hsq : ∀ row ∈ cdfs, row.length = cdfs.length) (s : Nat) (u : α) (hs : s < cdfs.length) :
    ∃ s', denseStep cdfs s u = some s' ∧ s' < cdfs.length := by
  have hrow : cdfs[s] ∈ cdfs := List.getElem_mem hs
  have hlen := hsq _ hrow
  have hne : cdfs[s] ≠ [] := by
    intro h; rw [h] at hlen; simp at hlen; omega
  refine ⟨searchsortedCdf cdfs[s] u, ?_, ?_⟩
  · unfold denseStep
    rw [List.getElem?_eq_getElem hs]
    simp [hne]
  · have := searchsortedCdf_lt cdfs[s] u hne
    omega

theorem denseStep_eq [LT α] [DecidableLT α] [BEq α] (cdfs : List (List α)) (s : Nat) (u : α) (s' : Nat)
    (h : denseStep cdfs s u = some s') :
    ∃ hs : s < cdfs.length, cdfs[s] ≠ [] ∧ s' = searchsortedCdf cdfs[s] u := by
  unfold denseStep at h
  split at h
  · exact absurd h (by simp)
  · rename_i row hrow
    obtain ⟨hs, rfl⟩ := List.getElem?_eq_some_iff.mp hrow
    split at h
    · exact absurd h (by simp)
    · rename_i hne
      refine ⟨hs, ?_, ?_⟩
      · intro h0; rw [h0] at hne; simp at hne
      · simp at h; exact h.symm

theorem cdfsDense_square [Add α] (P : List (List α)) (hsq : ∀ row ∈ P, row.length = P.length) :
    ∀ row ∈ cdfsDense P, row.length = (cdfsDense P).length := by
  intro row hrow
  unfold cdfsDense at *
  obtain ⟨r, hr, rfl⟩ := List.mem_map.mp hrow
  rw [List.length_map]
  -- cumsum preserves the length
  have : (cumsum r).length = r.length := by
    cases r with
    | nil => rfl
    | cons x xs =>
      have hl : ∀ (acc : α) (l : List α), (cumsumFrom acc l).length = l.length := by
        intro acc l
        induction l generalizing acc with
        | nil => rfl
        | cons y ys ih => simp [cumsumFrom, ih]
      simp [cumsum, hl]
  rw [this]; exact hsq r hr

/-! ### the CSR step -/

/-- what the sparse kernel needs of its arrays: `n+1` row pointers, every row stores at least
    one entry and lies inside `cdfs1d` and `indices`, and every stored column is a state.
    (`scipy.sparse.csr_matrix` guarantees the structure; "at least one entry" follows from the
    constructor's row-sum test.) -/
def CsrOK (n : Nat) (c1d : List α) (indices indptr : List Nat) : Prop :=
  (∀ s, s < n → ∃ lo hi, indptr[s]? = some lo ∧ indptr[s + 1]? = some hi ∧ lo < hi ∧
      hi ≤ c1d.length ∧ hi ≤ indices.length) ∧
  ∀ j ∈ indices, j < n

theorem slice_length (x : List α) (lo hi : Nat) (h : hi ≤ x.length) : (slice x lo hi).length = hi - lo := by
  unfold slice
  simp only [List.length_take, List.length_drop]
  omega

theorem sparseStep_lt [LT α] [DecidableLT α] [BEq α] (n : Nat) (c1d : List α) (indices indptr : List Nat)
    (hok : CsrOK n c1d indices indptr) (s : Nat) (u : α) (hs : s < n) :
    ∃ s', sparseStep c1d indices indptr s u = some s' ∧ s' < n := by
  obtain ⟨lo, hi, hlo, hhi, hlt, hc, hi'⟩ := hok.1 s hs
  have hlen := slice_length c1d lo hi hc
  have hne : slice c1d lo hi ≠ [] := by
    intro h; rw [h] at hlen; simp at hlen; omega
  have hk := searchsortedCdf_lt (slice c1d lo hi) u hne
  have hidx : lo + searchsortedCdf (slice c1d lo hi) u < indices.length := by omega
  refine ⟨indices[lo + searchsortedCdf (slice c1d lo hi) u], ?_, hok.2 _ (List.getElem_mem hidx)⟩
  unfold sparseStep
  rw [hlo, hhi]
  simp [hne, List.getElem?_eq_getElem hidx]

/-! ### several paths -/

theorem allPaths_spec (f : Nat → List α → Option (List Nat)) (Q : Nat → List α → List Nat → Prop)
    (hf : ∀ s us, ∃ p, f s us = some p ∧ Q s us p) :
    ∀ (ss : List Nat) (uss : List (List α)), ss.length = uss.length →
      ∃ ps, allPaths f ss uss = some ps ∧ ps.length = ss.length ∧
        ∀ i (h1 : i < ss.length) (h2 : i < uss.length) (h3 : i < ps.length), Q ss[i] uss[i] ps[i] := by
  intro ss
  induction ss with
  | nil =>
    intro uss h
    exact ⟨[], by simp [allPaths], rfl, fun i h1 => by simp at h1⟩
  | cons s ss ih =>
    intro uss h
    cases uss with
    | nil => simp at h
    | cons us uss =>
      obtain ⟨p, hp, hQ⟩ := hf s us
      obtain ⟨ps, hps, hlen, hall⟩ := ih uss (by simpa using h)
      refine ⟨p :: ps, by simp [allPaths, hp, hps], by simp [hlen], ?_⟩
      intro i h1 h2 h3
      cases i with
      | zero => simpa using hQ
      | succ i => simpa using hall i (by simpa using h1) (by simpa using h2) (by simpa using h3)

/-- same, when `f` is only known to succeed from starts satisfying `S` -/
theorem allPaths_spec' (f : Nat → List α → Option (List Nat)) (S : Nat → Prop)
    (Q : Nat → List α → List Nat → Prop)
    (hf : ∀ s us, S s → ∃ p, f s us = some p ∧ Q s us p) :
    ∀ (ss : List Nat) (uss : List (List α)), ss.length = uss.length → (∀ s ∈ ss, S s) →
      ∃ ps, allPaths f ss uss = some ps ∧ ps.length = ss.length ∧
        ∀ i (h1 : i < ss.length) (h2 : i < uss.length) (h3 : i < ps.length), Q ss[i] uss[i] ps[i] := by
  intro ss
  induction ss with
  | nil =>
    intro uss h _
    exact ⟨[], by simp [allPaths], rfl, fun i h1 => by simp at h1⟩
  | cons s ss ih =>
    intro uss h hS
    cases uss with
    | nil => simp at h
    | cons us uss =>
      obtain ⟨p, hp, hQ⟩ := hf s us (hS s (by simp))
      obtain ⟨ps, hps, hlen, hall⟩ := ih uss (by simpa using h) (fun x hx => hS x (by simp [hx]))
      refine ⟨p :: ps, by simp [allPaths, hp, hps], by simp [hlen], ?_⟩
      intro i h1 h2 h3
      cases i with
      | zero => simpa using hQ
      | succ i => simpa using hall i (by simpa using h1) (by simpa using h2) (by simpa using h3)

/-! ### init handling -/

/-- negative-index normalisation `init % n` -/
def norm (n : Nat) (i : Int) : Nat := (i % (n : Int)).toNat

theorem norm_lt (n : Nat) (i : Int) (h : inRange n i = true) : norm n i < n := by
  unfold inRange at h
  simp only [Bool.and_eq_true, decide_eq_true_eq] at h
  have hn : (0 : Int) < n := by omega
  have h1 := Int.emod_nonneg i (by omega : (n : Int) ≠ 0)
  have h2 := Int.emod_lt_of_pos i hn
  unfold norm; omega

theorem norm_of_nonneg (n : Nat) (i : Int) (h0 : 0 ≤ i) (h1 : i < n) : norm n i = i.toNat := by
  unfold norm; rw [Int.emod_eq_of_lt h0 h1]

theorem norm_of_neg (n : Nat) (i : Int) (h0 : i < 0) (h1 : -(n : Int) ≤ i) :
    (norm n i : Int) = n + i := by
  unfold norm
  have : i % (n : Int) = n + i := by
    have h := Int.add_emod_right i (n : Int)
    rw [← h, Int.add_comm]
    exact Int.emod_eq_of_lt (by omega) (by omega)
  rw [this]; omega

theorem tile_length {β : Type} (l : List β) (r : Nat) : (tile l r).length = l.length * r := by
  induction r with
  | zero => rfl
  | succ r ih => simp [tile, ih, Nat.mul_succ, Nat.add_comm]

theorem mem_tile {β : Type} (l : List β) (r : Nat) (x : β) (h : x ∈ tile l r) : x ∈ l := by
  induction r with
  | zero => simp [tile] at h
  | succ r ih =>
    simp only [tile, List.mem_append] at h
    rcases h with h | h
    · exact h
    · exact ih h

/-- `np.tile(l, r)[j] = l[j mod len l]` -/
theorem tile_getElem? {β : Type} (l : List β) (r j : Nat) (h : j < l.length * r) :
    (tile l r)[j]? = l[j % l.length]? := by
  induction r generalizing j with
  | zero => simp at h
  | succ r ih =>
    simp only [tile]
    by_cases hj : j < l.length
    · rw [List.getElem?_append_left hj, Nat.mod_eq_of_lt hj]
    · rw [List.getElem?_append_right (by omega), ih _ (by rw [Nat.mul_succ] at h; omega)]
      rw [Nat.mod_eq_sub_mod (by omega : j ≥ l.length)]

/-- documented number of paths -/
def docK : Init → Option Nat → Nat
  | .arr l, none => l.length
  | .arr l, some r => l.length * r
  | _, none => 1
  | _, some r => r

/-- documented number of dimensions of the returned array -/
def docDim : Init → Option Nat → Nat
  | .arr _, _ => 2
  | _, none => 1
  | _, some _ => 2

/-- the request is acceptable: every requested initial state lies in `[-n, n)` -/
def InitOK (n : Nat) : Init → Option Nat → Prop
  | .arr l, _ => ∀ i ∈ l, inRange n i = true
  | .scalar i, _ => inRange n i = true
  | .none, reps => ¬ (n = 0 ∧ docK .none reps ≠ 0)

/-- the `j`-th requested initial state -/
def requested (n : Nat) (drawn : List Nat) : Init → Nat → Option Nat
  | .arr l, j => (l[j % l.length]?).map (norm n)
  | .scalar i, _ => some (norm n i)
  | .none, j => drawn[j]?

theorem initStates_error_iff (n : Nat) (init : Init) (reps : Option Nat) (drawn : List Nat) :
    (∃ e, initStates n init reps drawn = .error e) ↔ ¬ InitOK n init reps := by
  cases init with
  | none =>
    cases reps <;> simp only [initStates, InitOK, docK] <;> split <;> simp_all
  | scalar i =>
    cases reps <;> simp only [initStates, InitOK] <;> split <;> simp_all
  | arr l =>
    simp only [initStates, InitOK]
    split
    · rename_i h
      cases reps <;> simp_all
    · rename_i h
      simp_all

theorem initStates_error_kind (n : Nat) (init : Init) (reps : Option Nat) (drawn : List Nat) (e : Err)
    (h : initStates n init reps drawn = .error e) : e = .valueError := by
  cases init with
  | none =>
    cases reps <;> simp only [initStates] at h <;> split at h <;> simp_all
  | scalar i =>
    cases reps <;> simp only [initStates] at h <;> split at h <;> simp_all
  | arr l =>
    simp only [initStates] at h
    split at h
    · cases reps <;> simp_all
    · simp_all

/-- **init handling, specification.** When the request is accepted: documented `dim` and number
    of paths, every initial state is a state, and path `j` starts at the `j`-th requested state
    (negative indices normalised, arrays tiled `num_reps` times, drawn states for `init=None`). -/
theorem initStates_ok_spec (n : Nat) (init : Init) (reps : Option Nat) (drawn : List Nat) (ir : InitRes)
    (h : initStates n init reps drawn = .ok ir)
    (hdrawn : init = .none → docK init reps ≤ drawn.length ∧ ∀ d ∈ drawn, d < n) :
    ir.dim = docDim init reps ∧ ir.states.length = docK init reps ∧ (∀ s ∈ ir.states, s < n) ∧
    ∀ j, j < docK init reps → ir.states[j]? = requested n drawn init j ∧ (ir.states[j]?).isSome := by
  cases init with
  | none =>
    obtain ⟨hk, hd⟩ := hdrawn rfl
    cases reps with
    | none =>
      simp only [initStates] at h
      split at h
      · exact absurd h (by simp)
      · simp only [Except.ok.injEq] at h
        subst h
        simp only [docK] at hk
        refine ⟨rfl, by simp [docK]; omega, fun s hs => hd s (List.mem_of_mem_take hs), ?_⟩
        intro j hj
        simp only [docK] at hj
        simp only [requested]
        rw [List.getElem?_take]
        simp [hj]
        omega
    | some r =>
      simp only [initStates] at h
      split at h
      · exact absurd h (by simp)
      · simp only [Except.ok.injEq] at h
        subst h
        simp only [docK] at hk
        refine ⟨rfl, by simp [docK]; omega, fun s hs => hd s (List.mem_of_mem_take hs), ?_⟩
        intro j hj
        simp only [docK] at hj
        simp only [requested]
        rw [List.getElem?_take]
        simp [hj]
        omega
  | scalar i =>
    cases reps with
    | none =>
      simp only [initStates] at h
      split at h
      · rename_i hr
        simp only [Except.ok.injEq] at h
        subst h
        refine ⟨rfl, by simp [docK], ?_, ?_⟩
        · intro s hs
          simp at hs
          subst hs; exact norm_lt n i hr
        · intro j hj
          simp only [docK] at hj
          have : j = 0 := by omega
          subst this
          simp [requested, norm]
      · exact absurd h (by simp)
    | some r =>
      simp only [initStates] at h
      split at h
      · rename_i hr
        simp only [Except.ok.injEq] at h
        subst h
        refine ⟨rfl, by simp [docK], ?_, ?_⟩
        · intro s hs
          simp at hs
          rw [hs.2]; exact norm_lt n i hr
        · intro j hj
          simp only [docK] at hj
          simp [requested, norm, hj]
      · exact absurd h (by simp)
  | arr l =>
    simp only [initStates] at h
    split at h
    · rename_i hr
      have hr' : ∀ i ∈ l, inRange n i = true := by simpa using hr
      have hmem : ∀ s ∈ l.map (fun i => (i % (n : Int)).toNat), s < n := by
        intro s hs
        obtain ⟨i, hi, rfl⟩ := List.mem_map.mp hs
        exact norm_lt n i (hr' i hi)
      cases reps with
      | none =>
        simp only [Except.ok.injEq] at h
        subst h
        refine ⟨rfl, by simp [docK], hmem, ?_⟩
        intro j hj
        simp only [docK] at hj
        simp only [requested, Nat.mod_eq_of_lt hj, List.getElem?_map]
        refine ⟨rfl, ?_⟩
        simp [hj]
      | some r =>
        simp only [Except.ok.injEq] at h
        subst h
        refine ⟨rfl, by simp [docK, tile_length], fun s hs => hmem s (mem_tile _ _ _ hs), ?_⟩
        intro j hj
        simp only [docK] at hj
        have hl : 0 < l.length := by
          rcases Nat.eq_zero_or_pos l.length with h0 | h0
          · rw [h0] at hj; omega
          · exact h0
        rw [tile_getElem? _ _ _ (by simpa using hj)]
        simp only [requested, List.length_map, List.getElem?_map]
        refine ⟨rfl, ?_⟩
        simp [Nat.mod_lt _ hl]
    · exact absurd h (by simp)

/-! ### `simulate_indices` assembled -/

/-- **`simulate_indices`, for every stream.**  For any step function that maps the state space
    into itself (dense and CSR kernels: `denseStep_lt`, `sparseStep_lt`), an acceptable request, a
    positive `ts_length` and a `(k, ts_length-1)` array of arbitrary values, the call succeeds with the
    documented `dim` and `k = docK` paths; path `j` has length `ts_length`, starts at the `j`-th
    requested state, stays in the state space and is the trajectory of the step function. -/
theorem simulateIndices_valid (n : Nat) (step : Nat → α → Option Nat)
    (hstep : ∀ s u, s < n → ∃ s', step s u = some s' ∧ s' < n)
    (init : Init) (reps : Option Nat) (drawn : List Nat) (ts : Nat) (us : List (List α))
    (hok : InitOK n init reps)
    (hdrawn : init = .none → docK init reps ≤ drawn.length ∧ ∀ d ∈ drawn, d < n)
    (hts : 0 < ts) (hk : us.length = docK init reps) (hrow : ∀ r ∈ us, r.length + 1 = ts) :
    ∃ ps, simulateIndices n (pathFrom step) init reps drawn ts us
        = .ok (some ⟨docDim init reps, ps⟩) ∧
      ps.length = docK init reps ∧
      ∀ j, j < docK init reps → ∃ p s0 u, ps[j]? = some p ∧ us[j]? = some u ∧
        requested n drawn init j = some s0 ∧ IsPathOf step s0 u p ∧ p.length = ts ∧ ∀ x ∈ p, x < n := by
  have hne : ¬ ∃ e, initStates n init reps drawn = .error e := by
    rw [initStates_error_iff]; exact fun h => h hok
  obtain ⟨ir, hir⟩ : ∃ ir, initStates n init reps drawn = .ok ir := by
    cases hi : initStates n init reps drawn with
    | error e => exact absurd ⟨e, hi⟩ hne
    | ok ir => exact ⟨ir, rfl⟩
  obtain ⟨hdim, hlen, hst, hreq⟩ := initStates_ok_spec n init reps drawn ir hir hdrawn
  obtain ⟨ps, hps, hpl, hall⟩ := allPaths_spec' (pathFrom step) (fun s => s < n)
    (fun s u p => IsPathOf step s u p ∧ ∀ x ∈ p, x < n)
    (fun s u hs => by
      obtain ⟨p, h1, h2, h3⟩ := pathFrom_valid step n hstep u s hs
      exact ⟨p, h1, h2, h3⟩)
    ir.states us (by omega) hst
  refine ⟨ps, ?_, by omega, ?_⟩
  · unfold simulateIndices
    rw [hir]
    have h1 : ¬ ts = 0 := by omega
    have h2 : (us.all fun r => r.length + 1 == ts) = true := by
      rw [List.all_eq_true]; intro r hr; simpa using hrow r hr
    simp only [h1, if_false, h2, if_true]
    unfold simulateWith
    have h3 : ¬ ir.states.length ≠ us.length := by omega
    simp only [h3, if_false, hps, hdim]
  · intro j hj
    have hj1 : j < ir.states.length := by omega
    have hj2 : j < us.length := by omega
    have hj3 : j < ps.length := by omega
    obtain ⟨hQ1, hQ2⟩ := hall j hj1 hj2 hj3
    refine ⟨ps[j], ir.states[j], us[j], List.getElem?_eq_getElem hj3, List.getElem?_eq_getElem hj2, ?_, hQ1, ?_, hQ2⟩
    · rw [← (hreq j hj).1, List.getElem?_eq_getElem hj1]
    · rw [hQ1.1, hrow _ (List.getElem_mem hj2)]

end QE.C10
