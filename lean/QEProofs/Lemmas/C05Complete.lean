/-
  Lemmas for property C05, completeness of support enumeration: an equilibrium whose two
  indifference systems are uniquely solvable passes both `_indiff_mixed_action` tests for its
  own pair of supports and is reproduced by the scatter.
-/
import QEProofs.Lemmas.C05Support

namespace QE.C05
open QE QE.MatAlg Finset

set_option linter.unusedSectionVars false
variable {K : Type} [Field K] [LinearOrder K] [IsStrictOrderedRing K]

/-- `z` solves `S z = b` (first column of `b`) -/
def Solves (S b : M K) (z : ℕ → K) : Prop :=
  ∀ i, i < S.nr → sumRange S.nc (fun j => S.get i j * z j) = b.get i 0

/-- the solver does not report "singular" on a square system with one right-hand side that has
    exactly one solution -/
def SolveRegular (solve : M K → M K → Option (M K)) : Prop :=
  ∀ S b (z : ℕ → K), S.nr = S.nc → b.nc = 1 → Solves S b z →
    (∀ z', Solves S b z' → ∀ j, j < S.nc → z' j = z j) → (solve S b).isSome = true

/-- in an equilibrium every action played with non-zero probability earns the equilibrium
    payoff -/
theorem nash_support_eq (m : ℕ) (x u : ℕ → K) (hx : IsProb m x)
    (hle : ∀ i, i < m → u i ≤ dotTo m x u) (i : ℕ) (hi : i < m) (hne : x i ≠ 0) :
    u i = dotTo m x u := by
  have hs : ∑ i ∈ range m, x i = 1 := by have := hx.2; rwa [sumRange_eq_sum] at this
  have hzero : ∑ i ∈ range m, x i * (dotTo m x u - u i) = 0 := by
    have : ∀ i ∈ range m, x i * (dotTo m x u - u i) = x i * dotTo m x u - x i * u i := by
      intro i _; ring
    rw [sum_congr rfl this, sum_sub_distrib, ← sum_mul, hs, one_mul, ← dotTo_eq, sub_self]
  have hnn : ∀ i ∈ range m, 0 ≤ x i * (dotTo m x u - u i) := by
    intro i hi
    have := hle i (mem_range.mp hi)
    exact mul_nonneg (hx.1 i (mem_range.mp hi)) (by linarith)
  have := (sum_eq_zero_iff_of_nonneg hnn).mp hzero i (mem_range.mpr hi)
  rcases mul_eq_zero.mp this with h | h
  · exact absurd h hne
  · linarith

/-- a vector that vanishes outside the duplicate-free list `s` is the scatter of its
    restriction to `s` -/
theorem scatter_restrict (n : ℕ) (s : List ℕ) (y : ℕ → K) (hn : s.Nodup)
    (hz : ∀ j, j < n → j ∉ s → y j = 0) (j : ℕ) (hj : j < n) :
    scatter s (fun t => y (s.getD t 0)) j = y j := by
  rw [scatter_eq]
  by_cases hmem : j ∈ s
  · obtain ⟨t0, ht0, he⟩ := mem_getD s j hmem
    have : ∀ t ∈ range s.length, (if s.getD t 0 = j then y (s.getD t 0) else 0)
        = if t0 = t then y j else 0 := by
      intro t ht
      have ht' := mem_range.mp ht
      by_cases h : s.getD t 0 = j
      · have htt : t0 = t := by
          have h1 : s[t0] = s[t] := by
            rw [← getD_of_lt s t0 ht0, ← getD_of_lt s t ht', he, h]
          exact (List.Nodup.getElem_inj_iff hn).mp h1
        rw [if_pos h, if_pos htt, h]
      · have htt : ¬ t0 = t := by
          intro e; subst e; exact h he
        rw [if_neg h, if_neg htt]
    rw [sum_congr rfl this, sum_ite_eq (range s.length) t0 (fun _ => y j),
      if_pos (mem_range.mpr ht0)]
  · rw [hz j hj hmem]
    apply sum_eq_zero
    intro t ht
    rw [if_neg]
    intro he
    apply hmem
    rw [← he, getD_of_lt s t (mem_range.mp ht)]
    exact List.getElem_mem _

theorem scatter_congr (s : List ℕ) (z z' : ℕ → K) (h : ∀ t, t < s.length → z t = z' t) (j : ℕ) :
    scatter s z j = scatter s z' j := by
  rw [scatter_eq, scatter_eq]
  apply sum_congr rfl
  intro t ht
  rw [h t (mem_range.mp ht)]

/-- `Σ_{j<n} f j · y j = Σ_t f (s_t) · y (s_t)` for such a vector -/
theorem sum_restrict (n : ℕ) (s : List ℕ) (y f : ℕ → K) (hn : s.Nodup) (hb : ∀ a, a ∈ s → a < n)
    (hz : ∀ j, j < n → j ∉ s → y j = 0) :
    ∑ j ∈ range n, f j * y j = ∑ t ∈ range s.length, f (s.getD t 0) * y (s.getD t 0) := by
  have hsb : ∀ t, t < s.length → s.getD t 0 < n := by
    intro t ht
    rw [getD_of_lt s t ht]
    exact hb _ (List.getElem_mem _)
  rw [← sum_mul_scatter n s (fun t => y (s.getD t 0)) f hsb]
  apply sum_congr rfl
  intro j hj
  rw [scatter_restrict n s y hn hz j (mem_range.mp hj)]

/-- **one player's half of completeness.** `y` is a probability vector with support exactly the
    list `opp`; every own action earns at most `v` against it, with equality on `own`; the
    indifference system for `(own, opp)` has no other solution; the solver is sound and does
    not fail on uniquely solvable systems (`huniq2`: at most one solution). Then `_indiff_mixed_action` answers `True` and its
    `out` is `y` restricted to `opp`, followed by `v`. -/
theorem indiff_complete (solve : M K → M K → Option (M K)) (hs : SolveSound solve)
    (hr : SolveRegular solve) (P : ℕ → ℕ → K) (mOwn nOpp : ℕ) (own opp : List ℕ) (y : ℕ → K) (v : K)
    (hlen : own.length = opp.length) (hopp : opp.Nodup ∧ ∀ a, a ∈ opp → a < nOpp)
    (hy : IsProb nOpp y) (hsupp : ∀ j, j < nOpp → (j ∈ opp ↔ y j ≠ 0))
    (hle : ∀ i, i < mOwn → payoffVec nOpp P y i ≤ v)
    (heq : ∀ i, i ∈ own → payoffVec nOpp P y i = v)
    (huniq2 : ∀ z' z'', Solves (indiffSys P own opp) (indiffRhs own.length) z' →
      Solves (indiffSys P own opp) (indiffRhs own.length) z'' →
      ∀ t, t < own.length + 1 → z' t = z'' t) :
    ∃ z, indiff solve P mOwn own opp = some z ∧
      (∀ t, t < own.length → z t = y (opp.getD t 0)) ∧ z own.length = v := by
  have hzero : ∀ j, j < nOpp → j ∉ opp → y j = 0 := by
    intro j hj hn
    by_contra hne
    exact hn ((hsupp j hj).mpr hne)
  -- pure payoffs in terms of the restriction
  have hpay : ∀ i, payoffVec nOpp P y i
      = ∑ t ∈ range own.length, P i (opp.getD t 0) * y (opp.getD t 0) := by
    intro i
    rw [payoffVec_eq, sum_restrict nOpp opp y (fun j => P i j) hopp.1 hopp.2 hzero, hlen]
  have hsum1 : ∑ t ∈ range own.length, y (opp.getD t 0) = 1 := by
    have := hy.2
    rw [sumRange_eq_sum] at this
    have h2 := sum_restrict nOpp opp y (fun _ => 1) hopp.1 hopp.2 hzero
    simp only [one_mul] at h2
    rw [← hlen] at h2
    rw [← h2]; exact this
  -- the candidate solves the system
  let z0 : ℕ → K := fun t => if t < own.length then y (opp.getD t 0) else v
  have hsolves : Solves (indiffSys P own opp) (indiffRhs own.length) z0 := by
    intro i hi
    have hnr : (indiffSys P own opp).nr = own.length + 1 := rfl
    have hnc : (indiffSys P own opp).nc = own.length + 1 := rfl
    rw [hnr] at hi
    rw [hnc, sumRange_eq_sum, sum_range_succ, indiffRhs_get _ _ hi]
    have hz0k : z0 own.length = v := by show (if own.length < own.length then _ else v) = v; simp
    have hz0t : ∀ t, t < own.length → z0 t = y (opp.getD t 0) := by
      intro t ht; show (if t < own.length then _ else v) = _; rw [if_pos ht]
    by_cases hik : i < own.length
    · rw [if_neg (by omega), indiffSys_get P own opp i own.length hi (by omega), if_pos hik,
        if_neg (lt_irrefl _), hz0k]
      have h2 : ∑ x ∈ range own.length, (indiffSys P own opp).get i x * z0 x
          = ∑ t ∈ range own.length, P (own.getD i 0) (opp.getD t 0) * y (opp.getD t 0) := by
        apply sum_congr rfl
        intro t ht
        have ht' := mem_range.mp ht
        rw [indiffSys_get P own opp i t hi (by omega), if_pos hik, if_pos ht', hz0t t ht']
      rw [h2, ← hpay, heq (own.getD i 0) (by rw [getD_of_lt own i hik]; exact List.getElem_mem _)]
      ring
    · have hik' : i = own.length := by omega
      subst hik'
      rw [if_pos rfl, indiffSys_get P own opp own.length own.length hi hi,
        if_neg (lt_irrefl _), if_neg (lt_irrefl _)]
      have h2 : ∑ x ∈ range own.length, (indiffSys P own opp).get own.length x * z0 x
          = ∑ t ∈ range own.length, y (opp.getD t 0) := by
        apply sum_congr rfl
        intro t ht
        have ht' := mem_range.mp ht
        rw [indiffSys_get P own opp own.length t hi (by omega), if_neg (lt_irrefl _), if_pos ht',
          hz0t t ht', one_mul]
      rw [h2, hsum1]; ring
  have huniq : ∀ z', Solves (indiffSys P own opp) (indiffRhs own.length) z' →
      ∀ t, t < own.length + 1 → z' t = if t < own.length then y (opp.getD t 0) else v :=
    fun z' hz' t ht => huniq2 z' z0 hz' hsolves t ht
  -- so the solver answers, and with the right values
  have hsome := hr _ _ z0 rfl rfl hsolves (fun z' hz' j hj => huniq z' hz' j hj)
  obtain ⟨Z, hZ⟩ := Option.isSome_iff_exists.mp hsome
  have hZsol : Solves (indiffSys P own opp) (indiffRhs own.length) (fun j => Z.get j 0) :=
    hs _ _ Z hZ
  have hZval := huniq _ hZsol
  have hZt : ∀ t, t < own.length → Z.get t 0 = y (opp.getD t 0) := by
    intro t ht
    have := hZval t (by omega)
    rwa [if_pos ht] at this
  have hZk : Z.get own.length 0 = v := by
    have := hZval own.length (by omega)
    rwa [if_neg (lt_irrefl _)] at this
  refine ⟨fun i => Z.get i 0, ?_, hZt, hZk⟩
  unfold indiff
  dsimp only
  rw [hZ]
  dsimp only
  have h1 : ¬ ((List.range own.length).any fun i => decide (Z.get i 0 ≤ 0)) = true := by
    rw [List.any_eq_true]
    rintro ⟨t, ht, hle0⟩
    have ht' := List.mem_range.mp ht
    have hpos : 0 < Z.get t 0 := by
      rw [hZt t ht']
      have hb : opp.getD t 0 < nOpp := by
        rw [getD_of_lt opp t (by omega)]; exact hopp.2 _ (List.getElem_mem _)
      have hne : y (opp.getD t 0) ≠ 0 :=
        (hsupp _ hb).mp (by rw [getD_of_lt opp t (by omega)]; exact List.getElem_mem _)
      exact lt_of_le_of_ne (hy.1 _ hb) (Ne.symm hne)
    have : Z.get t 0 ≤ 0 := by simpa using hle0
    linarith
  rw [if_neg h1]
  by_cases h2 : own.length = mOwn
  · rw [if_pos h2]
  · rw [if_neg h2]
    have h3 : ¬ ((List.range mOwn).any fun i =>
        !(own.contains i) && decide (Z.get own.length 0 <
          sumRange own.length fun j => P i (opp.getD j 0) * Z.get j 0)) = true := by
      rw [List.any_eq_true]
      rintro ⟨i, hi, hcond⟩
      have hi' := List.mem_range.mp hi
      simp only [Bool.and_eq_true, decide_eq_true_eq] at hcond
      have hlt := hcond.2
      rw [sumRange_eq_sum, hZk] at hlt
      have h4 : ∑ j ∈ range own.length, P i (opp.getD j 0) * Z.get j 0
          = payoffVec nOpp P y i := by
        rw [hpay]
        apply sum_congr rfl
        intro t ht
        rw [hZt t (mem_range.mp ht)]
      rw [h4] at hlt
      have := hle i hi'
      linarith
    rw [if_neg h3]

end QE.C05
