/-
  Lemmas for C14, part 7: `delete_action` — axis arithmetic `player_idx - i`, deleting along the
  rotated axis, `mapM` over the players.
-/
import QEProofs.Lemmas.C14Gam
namespace QE.C14

theorem add_mod_cases (i k N : Nat) (hi : i < N) (hk : k < N) :
    (i + k) % N = if i + k < N then i + k else i + k - N := by
  split
  · exact Nat.mod_eq_of_lt ‹_›
  · have e : i + k = (i + k - N) + N := by omega
    rw [e, Nat.add_mod_right, Nat.mod_eq_of_lt (by omega)]
    omega

/-- the axis of player `i`'s array that carries player `p`'s action -/
def delAxis (p N i : Nat) : Nat := if i ≤ p then p - i else p + N - i

theorem delAxis_lt (p N i : Nat) (hp : p < N) (hi : i < N) : delAxis p N i < N := by
  unfold delAxis; split <;> omega

theorem delAxis_mod (p N i : Nat) (hp : p < N) (hi : i < N) : (i + delAxis p N i) % N = p := by
  rw [add_mod_cases i _ N hi (delAxis_lt p N i hp hi)]
  unfold delAxis
  split <;> split <;> omega

/-- NumPy's normalisation of the (possibly negative) axis `player_idx - i` -/
theorem normAxis_sub (p N i : Nat) (hp : p < N) (hi : i < N) :
    Game.normAxis ((p : Int) - (i : Int)) N = some (delAxis p N i) := by
  unfold Game.normAxis delAxis
  by_cases h : i ≤ p
  · rw [if_pos (by omega), if_pos h]; congr 1; omega
  · rw [if_neg (by omega), if_pos (by omega), if_neg h]; congr 1; omega

theorem getD_set {β : Type} (l : List β) (p k : Nat) (v d : β) (hp : p < l.length) :
    (l.set p v).getD k d = if k = p then v else l.getD k d := by
  rw [List.getD_eq_getElem?_getD, List.getElem?_set]
  by_cases h : p = k
  · subst h; simp [hp]
  · rw [if_neg h, if_neg (fun e => h e.symm), List.getD_eq_getElem?_getD]

/-- setting position `p` and then rotating by `i` is rotating and setting position
    `delAxis p N i` -/
theorem rotL_set {β : Type} (l : List β) (p i : Nat) (v : β) (hp : p < l.length) (hi : i < l.length) :
    rotL i (l.set p v) = (rotL i l).set (delAxis p l.length i) v := by
  apply List.ext_getElem?
  intro k
  by_cases hk : k < l.length
  · have h1 : (rotL i (l.set p v))[k]? = some ((rotL i (l.set p v)).getD k v) := by
      rw [List.getD_eq_getElem?_getD, List.getElem?_eq_getElem (by simp [length_rotL]; exact hk)]; rfl
    have h2 : ((rotL i l).set (delAxis p l.length i) v)[k]?
        = some (((rotL i l).set (delAxis p l.length i) v).getD k v) := by
      rw [List.getD_eq_getElem?_getD, List.getElem?_eq_getElem (by simp [length_rotL]; exact hk)]; rfl
    rw [h1, h2]
    congr 1
    rw [getD_rotL i _ v k (by simp; omega) (by simpa using hk), List.length_set,
      getD_set l p _ v v hp,
      getD_set _ _ k v v (by rw [length_rotL]; exact delAxis_lt p _ i hp hi),
      getD_rotL i l v k (by omega) hk]
    have hd := delAxis_lt p l.length i hp hi
    have hm := delAxis_mod p l.length i hp hi
    rw [add_mod_cases i _ _ hi hd] at hm
    rw [add_mod_cases i k _ hi hk]
    by_cases e : k = delAxis p l.length i
    · rw [if_pos e, if_pos (by rw [e]; exact hm)]
    · rw [if_neg e, if_neg]
      intro e'
      apply e
      split at hm <;> split at e' <;> omega
  · rw [List.getElem?_eq_none (by simp [length_rotL]; omega),
      List.getElem?_eq_none (by simp [length_rotL]; omega)]

theorem prod_ne_zero_iff : ∀ (s : List Nat), prod s ≠ 0 ↔ ∀ x ∈ s, x ≠ 0
  | [] => by simp [prod]
  | n :: s => by
    simp only [prod, ne_eq, Nat.mul_eq_zero, not_or, List.mem_cons, forall_eq_or_imp]
    rw [← ne_eq (prod s), prod_ne_zero_iff s]

theorem prod_set_ne_zero (s : List Nat) (p v : Nat) (h : prod s ≠ 0) (hv : v ≠ 0) :
    prod (s.set p v) ≠ 0 := by
  rw [prod_ne_zero_iff] at h ⊢
  intro x hx
  rcases List.mem_or_eq_of_mem_set hx with hx | hx
  · exact h x hx
  · rw [hx]; exact hv

variable {α : Type} [Zero α]

omit [Zero α] in
theorem tab_size (s : List Nat) (f : List Nat → α) : (Arr.tab s f).data.length = prod (Arr.tab s f).shape := by
  simp [Arr.tab, length_allIdx]

theorem mapM_ok {β γ : Type} (f : β → Except Err γ) (h : β → γ) : ∀ (l : List β),
    (∀ x ∈ l, f x = .ok (h x)) → l.mapM f = .ok (l.map h)
  | [], _ => rfl
  | x :: l, hx => by
    rw [List.mapM_cons, hx x List.mem_cons_self,
      mapM_ok f h l (fun y hy => hx y (List.mem_cons_of_mem _ hy))]
    rfl

/-- reading `np.delete(A, a, axis)`: the cells at or after `a` along the axis move down by one -/
theorem deleteAxis_get (A : Arr α) (ax a : Nat) (idx : List Nat)
    (hb : inBounds (A.shape.set ax (A.shape.getD ax 0 - 1)) idx = true) :
    (A.deleteAxis ax a).get idx = A.get (Arr.bump ax a idx) := by
  unfold Arr.deleteAxis
  rw [get_tab _ _ _ hb]

/-- inversion of a successful `mapM` in `Except` -/
theorem mapM_ok_inv {β γ : Type} (f : β → Except Err γ) : ∀ (l : List β) (ps : List γ),
    l.mapM f = .ok ps → ps.length = l.length ∧ ∀ i (h1 : i < l.length) (h2 : i < ps.length), f l[i] = .ok ps[i]
  | [], ps, h => by
    simp only [List.mapM_nil] at h
    cases h
    exact ⟨rfl, fun i h1 _ => absurd h1 (by simp)⟩
  | x :: l, ps, h => by
    rw [List.mapM_cons] at h
    cases hx : f x with
    | error e => rw [hx] at h; cases h
    | ok b =>
      rw [hx] at h
      cases hl : l.mapM f with
      | error e => rw [hl] at h; cases h
      | ok bs =>
        rw [hl] at h
        cases h
        obtain ⟨ih1, ih2⟩ := mapM_ok_inv f l bs hl
        refine ⟨by simp [ih1], ?_⟩
        intro i h1 h2
        cases i with
        | zero => simpa using hx
        | succ i => simpa using ih2 i (by simpa using h1) (by simpa using h2)

omit [Zero α] in
theorem ofPlayers_inv (ps : List (Arr α)) (g : Game α) (h : Game.ofPlayers ps = .ok g) :
    g = ⟨ps⟩ ∧ ∀ i, i < ps.length → i ≠ 0 →
      (ps.getD i default).shape = rotL i (ps.headD default).shape := by
  unfold Game.ofPlayers at h
  dsimp only at h
  split at h
  · rename_i hall
    cases h
    refine ⟨rfl, ?_⟩
    intro i hi h0
    rw [List.all_eq_true] at hall
    have := hall i (List.mem_range.mpr hi)
    simp only [Bool.or_eq_true, beq_iff_eq, Bool.and_eq_true] at this
    rcases this with h | h
    · exact absurd h h0
    · exact h.2
  · cases h

/-! ### deleting a list of actions -/

theorem keep_single (n a : Nat) (ha : a < n) :
    (List.range n).filter (fun k => ![a].contains k) = List.range a ++ List.range' (a + 1) (n - a - 1) := by
  have e : List.range n = List.range a ++ ([a] ++ List.range' (a + 1) (n - a - 1)) := by
    rw [List.range_eq_range', List.range_eq_range']
    have : n = a + (1 + (n - a - 1)) := by omega
    conv_lhs => rw [this]
    rw [← List.range'_append_1, ← List.range'_append_1]
    simp
  rw [e, List.filter_append, List.filter_append]
  have h1 : (List.range a).filter (fun k => ![a].contains k) = List.range a := by
    rw [List.filter_eq_self]
    intro k hk
    have : k ≠ a := by have := List.mem_range.mp hk; omega
    simp [this]
  have h2 : ([a] : List Nat).filter (fun k => ![a].contains k) = [] := by simp
  have h3 : (List.range' (a + 1) (n - a - 1)).filter (fun k => ![a].contains k) = List.range' (a + 1) (n - a - 1) := by
    rw [List.filter_eq_self]
    intro k hk
    have : k ≠ a := by have := (List.mem_range'_1.mp hk).1; omega
    simp [this]
  rw [h1, h2, h3]
  simp

theorem keep_single_getD (n a k : Nat) (ha : a < n) (hk : k < n - 1) :
    ((List.range n).filter (fun k => ![a].contains k)).getD k 0 = if a ≤ k then k + 1 else k := by
  rw [keep_single n a ha, List.getD_eq_getElem?_getD]
  by_cases h : a ≤ k
  · rw [if_pos h, List.getElem?_append_right (by simp; exact h)]
    simp only [List.length_range]
    rw [List.getElem?_range' (by omega)]
    simp; omega
  · rw [if_neg h, List.getElem?_append_left (by simp; omega), List.getElem?_range (by omega)]
    rfl


/-- deleting the one-element list `[a]` is deleting `a` -/
theorem deleteMany_single (A : Arr α) (ax a : Nat) (ha : a < A.shape.getD ax 0) :
    A.deleteMany ax [a] = A.deleteAxis ax a := by
  have hax : ax < A.shape.length := by
    by_contra hc
    rw [List.getD_eq_getElem?_getD, List.getElem?_eq_none (by omega)] at ha
    simp at ha
  have hlen : ((List.range (A.shape.getD ax 0)).filter (fun k => ![a].contains k)).length = A.shape.getD ax 0 - 1 := by
    rw [keep_single _ a ha, List.length_append, List.length_range, List.length_range']; omega
  unfold Arr.deleteMany Arr.deleteAxis
  simp only [hlen]
  apply tab_congr
  intro idx hb
  congr 1
  unfold Arr.bump
  congr 1
  have hb' := (inBounds_iff _ _).mp hb
  have := hb'.2 ax (by rw [List.length_set]; exact hax)
  rw [getD_set _ _ _ _ _ hax, if_pos rfl] at this
  exact keep_single_getD _ a _ ha this


end QE.C14
