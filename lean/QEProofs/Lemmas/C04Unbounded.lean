/-
  C04 — status 3 of `linprog_simplex` in exact arithmetic: Phase 1 never reports
  it, and when Phase 2 reports it the program is unbounded (feasible points with
  arbitrarily large objective along the ray read off the final tableau).
-/
import QEProofs.Lemmas.C04Tie
import QEProofs.Lemmas.C04DualCert
import Mathlib.Algebra.Order.AbsoluteValue.Basic
namespace QE.C04
open QE QE.Pivot Finset

variable {K : Type} [Field K] [LinearOrder K] [IsStrictOrderedRing K]

omit [IsStrictOrderedRing K] in
/-- the artificial block of the initial tableau is the identity -/
theorem initTableau_block (P : LP K) :
    ∀ q q', q < P.m + P.k → q' < P.m + P.k →
      (initTableau P).get q (P.n + P.m + q') = if q = q' then 1 else 0 := by
  intro q q' hq hq'
  rw [initTableau_get_row P q _ hq (by omega), initEntry_art P q q' hq']
  by_cases e : q = q'
  · subst e; simp
  · have : ¬ q' = q := fun e' => e e'.symm
    simp [e, this]

/-- in the tableaux of the run, "ratio test found no row" means "no positive entry" -/
theorem status3_no_positive (P : LP K) (skip : Bool) (fuel : ℕ) (T1 : M K) (b1 : List ℕ)
    (hs : Shape T1 (P.m + P.k) (P.n + P.m + (P.m + P.k)))
    (hc : Canon T1 b1 (P.m + P.k) (P.n + P.m + (P.m + P.k)))
    (hr : RhsNonneg T1 (P.m + P.k) (P.n + P.m + (P.m + P.k)))
    (hsp : RowsSpan (initTableau P) T1 (P.m + P.k) (P.n + P.m + (P.m + P.k)))
    (h3 : (solveTableau tol0 skip fuel T1 b1).status = 3) :
    ∃ c, c < P.n + P.m + (P.m + P.k) - (if skip then P.m + P.k else 0) ∧
      0 < (solveTableau tol0 skip fuel T1 b1).T.get (P.m + P.k) c ∧
      ∀ i, i < P.m + P.k → (solveTableau tol0 skip fuel T1 b1).T.get i c ≤ 0 := by
  have hinv := solveTableau_inv0 skip fuel T1 b1 _ _ hs hc hr
  have hspan := (solveTableau_span skip fuel (initTableau P) T1 b1 _ _ (fun j => T1.get (P.m + P.k) j) hs hsp
    (by unfold CritSpan; simp only [sub_self]; exact inSpan_zero _ _ _)).1
  obtain ⟨c, hpc, hnf⟩ := solveTableau_status3 (tol0 : Tol K) skip fuel T1 b1 h3
  set r := solveTableau (tol0 : Tol K) skip fuel T1 b1 with hr'
  have hL : r.T.nr - 1 = P.m + P.k := by rw [hinv.shape.1]; rfl
  have hN : r.T.nc - 1 = P.n + P.m + (P.m + P.k) := by rw [hinv.shape.2]; rfl
  obtain ⟨h1, h2, _⟩ := pivotCol_some r.T skip (tol0 : Tol K).fea c hpc
  rw [hL, hN] at h1
  rw [hL] at h2
  have hss : r.T.nc - (r.T.nr - 1) - 1 = P.n + P.m := by rw [hinv.shape.1, hinv.shape.2]; omega
  rw [hss] at hnf
  exact ⟨c, h1, h2, no_unresolved_tie (initTableau P) r.T r.basis _ _ (P.n + P.m) c hinv.shape hinv.canon
    (by omega) (initTableau_block P) hspan hnf⟩

/-- **Phase 1 is never unbounded** -/
theorem phase1_not_status3 (P : LP K) (fuel : ℕ) :
    (solveTableau tol0 false fuel (initTableau P) (initBasis P)).status ≠ 3 := by
  intro h3
  obtain ⟨c, hc, hpos, hcol⟩ := status3_no_positive P false fuel (initTableau P) (initBasis P)
    (initTableau_shape P) (initTableau_canon P) (initTableau_rhs_nonneg P) (rowsSpan_refl _ _ _) h3
  have hinv := solveTableau_inv0 false fuel (initTableau P) (initBasis P) _ _
    (initTableau_shape P) (initTableau_canon P) (initTableau_rhs_nonneg P)
  set r := solveTableau (tol0 : Tol K) false fuel (initTableau P) (initBasis P) with hr
  set L := P.m + P.k with hL
  set N := P.n + P.m + (P.m + P.k) with hN
  simp only [Bool.false_eq_true, if_false, Nat.sub_zero] at hc
  set g := r.T.get L c with hg
  set t : K := |r.T.get L N| / g + 1 with ht
  have ht0 : 0 ≤ t := by
    have : 0 ≤ |r.T.get L N| / g := div_nonneg (abs_nonneg _) (le_of_lt hpos)
    linarith
  obtain ⟨hz0, hzrows, hzobj⟩ := inv0_ray (initTableau P) L N r.T r.basis c hinv hc hpos hcol t ht0
  rw [initTableau_obj P _ hzrows] at hzobj
  have hsum : 0 ≤ ∑ q ∈ range L, (bsol r.T r.basis L N (P.n + P.m + q) + t * rayDir r.T r.basis L c (P.n + P.m + q)) :=
    Finset.sum_nonneg (fun q _ => hz0 _)
  have hval : - r.T.get L N + t * g = |r.T.get L N| - r.T.get L N + g := by
    rw [ht, add_mul, div_mul_cancel₀ _ (ne_of_gt hpos)]; ring
  have := le_abs_self (r.T.get L N)
  linarith

/-- **linprog_simplex, status 3 ⇒ unbounded** (exact arithmetic) -/
theorem linprog_status3_core (P : LP K) (fuel : ℕ) (h : (linprogSimplex P fuel tol0).status = 3) :
    ∀ Mb : K, ∃ x, Feasible P x ∧ Mb < objective P x := by
  rw [linprogSimplex_status] at h
  by_cases h1 : (solvePhase1 (tol0 : Tol K) fuel (initTableau P) (initBasis P)).status ≠ 0
  · exfalso
    rw [if_pos h1] at h
    rcases solvePhase1_cases (tol0 : Tol K) fuel (initTableau P) (initBasis P) with
      ⟨_, e⟩ | ⟨_, _, e⟩ | ⟨h0, _, e⟩
    · rw [e] at h; exact phase1_not_status3 P fuel h
    · rw [e] at h; simp at h
    · rw [e, cleanup_status, h0] at h; simp at h
  · rw [if_neg h1] at h
    have h1' : (solvePhase1 (tol0 : Tol K) fuel (initTableau P) (initBasis P)).status = 0 := by
      simpa using h1
    obtain ⟨hinv, hz, hsol, hobj⟩ := phase2_facts P fuel h1'
    have I1 := solvePhase1_success P fuel h1'
    have hsp := solvePhase1_span P fuel h1'
    set r1 := solvePhase1 (tol0 : Tol K) fuel (initTableau P) (initBasis P) with hr1
    obtain ⟨hrs, _⟩ := setCriterionRow_span (initTableau P) r1.T r1.basis _ _ P.n P.c I1.shape hsp
    obtain ⟨hcT1, _⟩ := setCriterionRow_spec P.c P.n r1.basis r1.T _ _ I1.shape I1.canon
      (by show P.n ≤ P.n + P.m + (P.m + P.k); omega)
    have hrhsT1 : RhsNonneg (setCriterionRow P.c P.n r1.basis r1.T) (P.m + P.k) (P.n + P.m + (P.m + P.k)) := by
      intro i hi
      rw [setCriterionRow_get_row P.c P.n r1.basis r1.T _ _ i _ I1.shape hi (by omega)]
      exact I1.rhs i hi
    obtain ⟨c, hc, hpos, hcol⟩ := status3_no_positive P true (fuel - r1.iters)
      (setCriterionRow P.c P.n r1.basis r1.T) r1.basis
      (setCriterionRow_shape P.c P.n r1.basis r1.T _ _ I1.shape) hcT1 hrhsT1 hrs h
    set L := P.m + P.k with hL
    set N := P.n + P.m + (P.m + P.k) with hN
    set T1 := setCriterionRow P.c P.n r1.basis r1.T with hT1
    have hr2 : phase2Run P fuel (tol0 : Tol K) = solveTableau tol0 true (fuel - r1.iters) T1 r1.basis := rfl
    rw [← hr2] at hpos hcol
    set r2 := phase2Run P fuel (tol0 : Tol K) with hr2'
    simp only [if_true] at hc
    have hcnm : c < P.n + P.m := by omega
    set g := r2.T.get L c with hg
    intro Mb
    set t : K := |Mb + r2.T.get L N| / g + 1 with ht
    have ht0 : 0 ≤ t := by
      have : 0 ≤ |Mb + r2.T.get L N| / g := div_nonneg (abs_nonneg _) (le_of_lt hpos)
      linarith
    obtain ⟨hz0, hzrows, hzobj⟩ := inv0_ray T1 L N r2.T r2.basis c hinv (by omega) hpos hcol t ht0
    set zt := fun j => bsol r2.T r2.basis L N j + t * rayDir r2.T r2.basis L c j with hzt
    have hart : ∀ q, q < L → zt (P.n + P.m + q) = 0 := by
      intro q hq
      have hb : bsol r2.T r2.basis L N (P.n + P.m + q) = 0 := by
        by_cases hex : ∃ i, i < L ∧ r2.basis.getD i 0 = P.n + P.m + q
        · obtain ⟨i, hi, hbi⟩ := hex
          rw [← hbi, bsol_basic r2.T r2.basis L N i hinv.canon hi]
          exact (hz i hi (by omega)).1
        · exact bsol_nonbasic r2.T r2.basis L N _ (fun i hi e => hex ⟨i, hi, e⟩)
      have hd : rayDir r2.T r2.basis L c (P.n + P.m + q) = 0 := by
        unfold rayDir
        rw [if_neg (by omega)]
        apply Finset.sum_eq_zero
        intro i hi
        have hi' := Finset.mem_range.mp hi
        by_cases e : r2.basis.getD i 0 = P.n + P.m + q
        · rw [if_pos e, (hz i hi' (by omega)).2 hi' c hcnm]; simp
        · rw [if_neg e]
      show bsol r2.T r2.basis L N (P.n + P.m + q) + t * rayDir r2.T r2.basis L c (P.n + P.m + q) = 0
      rw [hb, hd]; simp
    have hfeas : Feasible P zt := rows_project P zt (fun j _ => hz0 j) ((hsol zt).mp hzrows) hart
    refine ⟨zt, hfeas, ?_⟩
    have hobjz : objective P zt = - r2.T.get L N + t * g := by
      unfold objective
      rw [← hobj zt hzrows]; exact hzobj
    rw [hobjz]
    have hval : - r2.T.get L N + t * g = |Mb + r2.T.get L N| - r2.T.get L N + g := by
      rw [ht, add_mul, div_mul_cancel₀ _ (ne_of_gt hpos)]; ring
    have := le_abs_self (Mb + r2.T.get L N)
    linarith

end QE.C04
