/-
  C04 — the row returned by the lexicographic ratio test is the *strict* lexicographic
  minimiser of `row_i / T[i,c]` (read along right-hand side, then the `slack_start` block)
  among the rows with a positive entry in the entering column.
-/
import QEProofs.Lemmas.C04Lex
namespace QE.Pivot
open QE

variable {K : Type} [Field K] [LinearOrder K]

/-- invariant of the no-tie scan (tie tolerance 0) after the prefix `P`, with completeness -/
def CInv (T : M K) (pc tc : ℕ) (tp : K) (P : List ℕ) : MRState K → Prop
  | (none, l) => l = [] ∧ ∀ k ∈ P, T.get k pc ≤ tp
  | (some rmin, l) =>
      (∀ i ∈ l, T.get i tc / T.get i pc = rmin) ∧
      ∀ k ∈ P, tp < T.get k pc →
        rmin ≤ T.get k tc / T.get k pc ∧ (T.get k tc / T.get k pc = rmin → k ∈ l)

theorem cinv_step (T : M K) (pc tc : ℕ) (tp : K) (P : List ℕ) (st : MRState K) (i : ℕ)
    (h : CInv T pc tc tp P st) : CInv T pc tc tp (P ++ [i]) (minRatioStep T pc tc tp 0 st i) := by
  obtain ⟨o, l⟩ := st
  unfold minRatioStep
  by_cases hle : T.get i pc ≤ tp
  · rw [if_pos hle]
    cases o with
    | none =>
      obtain ⟨h1, h2⟩ := h
      refine ⟨h1, ?_⟩
      intro k hk
      rcases List.mem_append.mp hk with hk | hk
      · exact h2 k hk
      · rw [List.mem_singleton] at hk; subst hk; exact hle
    | some rmin =>
      obtain ⟨h1, h2⟩ := h
      refine ⟨h1, ?_⟩
      intro k hk hpos
      rcases List.mem_append.mp hk with hk | hk
      · exact h2 k hk hpos
      · rw [List.mem_singleton] at hk; subst hk; exact absurd hle (not_le.mpr hpos)
  · rw [if_neg hle]
    cases o with
    | none =>
      obtain ⟨_, h2⟩ := h
      simp only
      refine ⟨fun j hj => by rw [List.mem_singleton] at hj; subst hj; rfl, ?_⟩
      intro k hk hpos
      rcases List.mem_append.mp hk with hk | hk
      · exact absurd (h2 k hk) (not_le.mpr hpos)
      · rw [List.mem_singleton] at hk; subst hk
        exact ⟨le_refl _, fun _ => List.mem_singleton.mpr rfl⟩
    | some rmin =>
      obtain ⟨h1, h2⟩ := h
      simp only [add_zero, sub_zero]
      by_cases hgt : rmin < T.get i tc / T.get i pc
      · rw [if_pos hgt]
        refine ⟨h1, ?_⟩
        intro k hk hpos
        rcases List.mem_append.mp hk with hk | hk
        · exact h2 k hk hpos
        · rw [List.mem_singleton] at hk; subst hk
          exact ⟨le_of_lt hgt, fun e => absurd hgt (by rw [e]; exact lt_irrefl _)⟩
      · rw [if_neg hgt]
        by_cases hlt : T.get i tc / T.get i pc < rmin
        · rw [if_pos hlt]
          refine ⟨fun j hj => by rw [List.mem_singleton] at hj; subst hj; rfl, ?_⟩
          intro k hk hpos
          rcases List.mem_append.mp hk with hk | hk
          · have := (h2 k hk hpos).1
            exact ⟨le_of_lt (lt_of_lt_of_le hlt this),
              fun e => absurd (lt_of_lt_of_le hlt this) (by rw [e]; exact lt_irrefl _)⟩
          · rw [List.mem_singleton] at hk; subst hk
            exact ⟨le_refl _, fun _ => List.mem_singleton.mpr rfl⟩
        · rw [if_neg hlt]
          have heq : T.get i tc / T.get i pc = rmin :=
            le_antisymm (not_lt.mp hgt) (not_lt.mp hlt)
          refine ⟨?_, ?_⟩
          · intro j hj
            rcases List.mem_append.mp hj with hj | hj
            · exact h1 j hj
            · rw [List.mem_singleton] at hj; subst hj; exact heq
          · intro k hk hpos
            rcases List.mem_append.mp hk with hk | hk
            · exact ⟨(h2 k hk hpos).1, fun e => List.mem_append_left _ ((h2 k hk hpos).2 e)⟩
            · rw [List.mem_singleton] at hk; subst hk
              exact ⟨le_of_eq heq.symm, fun _ => List.mem_append_right _ (List.mem_singleton.mpr rfl)⟩

theorem cinv_foldl (T : M K) (pc tc : ℕ) (tp : K) (cands : List ℕ) :
    ∀ (P : List ℕ) (st : MRState K), CInv T pc tc tp P st →
      CInv T pc tc tp (P ++ cands) (cands.foldl (minRatioStep T pc tc tp 0) st) := by
  induction cands with
  | nil => intro P st h; simpa using h
  | cons i rest ih =>
    intro P st h
    rw [List.foldl_cons]
    have := ih (P ++ [i]) _ (cinv_step T pc tc tp P st i h)
    simpa using this

/-- a candidate with a positive entry that is *not* returned has a strictly larger ratio
    than every returned row -/
theorem minRatioNoTie_strict (T : M K) (pc tc : ℕ) (cands : List ℕ) (tp : K) (r k : ℕ)
    (hr : r ∈ minRatioNoTie T pc tc cands tp 0) (hk : k ∈ cands) (hpos : tp < T.get k pc)
    (hnk : k ∉ minRatioNoTie T pc tc cands tp 0) :
    T.get r tc / T.get r pc < T.get k tc / T.get k pc := by
  unfold minRatioNoTie at hr hnk
  have h := cinv_foldl T pc tc tp cands [] (none, []) ⟨rfl, fun k hk => by simp at hk⟩
  simp only [List.nil_append] at h
  generalize cands.foldl (minRatioStep T pc tc tp 0) (none, []) = st at h hr hnk
  obtain ⟨o, l⟩ := st
  cases o with
  | none => obtain ⟨h1, _⟩ := h; simp only at hr; rw [h1] at hr; simp at hr
  | some rmin =>
    obtain ⟨h1, h2⟩ := h
    simp only at hr hnk
    rw [h1 r hr]
    obtain ⟨g1, g2⟩ := h2 k hk hpos
    rcases lt_or_eq_of_le g1 with g | g
    · exact g
    · exact absurd (g2 g.symm) hnk

end QE.Pivot

namespace QE.C04
open QE QE.Pivot

variable {K : Type} [Field K] [LinearOrder K] [IsStrictOrderedRing K]

/-- the ratio vector of row `i` for entering column `pc` -/
def ratioVec (T : M K) (pc i : ℕ) : ℕ → K := fun col => T.get i col / T.get i pc

omit [IsStrictOrderedRing K] in
/-- the lexicographic passes: the unique survivor is strictly lex-smaller (along the pass
    columns) than every other candidate -/
theorem lexLoop_strict (T : M K) (pc : ℕ) (tp : K) (js : List ℕ) :
    ∀ a : List ℕ, (∀ i ∈ a, tp < T.get i pc) → (∀ i ∈ a, T.get i pc ≠ 0) →
      (lexLoop T pc tp 0 js a).1 = true →
      ∀ r ∈ (lexLoop T pc tp 0 js a).2, ∀ i ∈ a, i ≠ r →
        LexLt js (ratioVec T pc r) (ratioVec T pc i) := by
  induction js with
  | nil => intro a _ _ hf; simp [lexLoop] at hf
  | cons j js ih =>
    intro a hpos hne hf r hr i hi hir
    by_cases hjp : j = pc
    · have e : lexLoop T pc tp 0 (j :: js) a = lexLoop T pc tp 0 js a := by
        simp only [lexLoop, if_pos hjp]
      rw [e] at hf hr
      have hra : r ∈ a := lexLoop_mem T pc tp 0 js a r hr
      refine Or.inr ⟨?_, ih a hpos hne hf r hr i hi hir⟩
      unfold ratioVec
      rw [hjp, div_self (hne r hra), div_self (hne i hi)]
    · by_cases h1 : (minRatioNoTie T pc j a tp 0).length = 1
      · have e : lexLoop T pc tp 0 (j :: js) a = (true, minRatioNoTie T pc j a tp 0) := by
          simp only [lexLoop, if_neg hjp, if_pos h1]
        rw [e] at hr
        simp only at hr
        have hni : i ∉ minRatioNoTie T pc j a tp 0 := by
          intro hi'
          obtain ⟨x, hx⟩ := List.length_eq_one_iff.mp h1
          rw [hx] at hr hi'
          simp at hr hi'
          exact hir (hi'.trans hr.symm)
        exact Or.inl (minRatioNoTie_strict T pc j a tp r i hr hi (hpos i hi) hni)
      · have e : lexLoop T pc tp 0 (j :: js) a = lexLoop T pc tp 0 js (minRatioNoTie T pc j a tp 0) := by
          simp only [lexLoop, if_neg hjp, if_neg h1]
        rw [e] at hf hr
        set a' := minRatioNoTie T pc j a tp 0 with ha'
        have hmem' : ∀ x ∈ a', x ∈ a ∧ tp < T.get x pc := fun x hx => minRatioNoTie_mem T pc j a tp 0 x hx
        have hra' : r ∈ a' := lexLoop_mem T pc tp 0 js a' r hr
        by_cases hia' : i ∈ a'
        · refine Or.inr ⟨minRatioNoTie_ratio_eq T pc j a tp r i hra' hia', ?_⟩
          exact ih a' (fun x hx => (hmem' x hx).2) (fun x hx => hne x (hmem' x hx).1) hf r hr i hia' hir
        · exact Or.inl (minRatioNoTie_strict T pc j a tp r i hra' hi (hpos i hi) hia')

omit [IsStrictOrderedRing K] in
/-- **the lexicographic ratio test returns the strict lexicographic minimiser** -/
theorem lexMinRatio_strict (T : M K) (pc ss r : ℕ) (h : lexMinRatio T pc ss (0 : K) 0 = (true, r)) :
    ∀ i, i < T.nr → i ≠ r → 0 < T.get i pc →
      LexLt (lexCols T.nr (T.nc - 1) ss) (ratioVec T pc r) (ratioVec T pc i) := by
  intro i hi hir hpos
  unfold lexCols
  set a0 := minRatioNoTie T pc (T.nc - 1) (List.range T.nr) (0 : K) 0 with ha0
  have hmem0 : ∀ x ∈ a0, x ∈ List.range T.nr ∧ (0 : K) < T.get x pc :=
    fun x hx => minRatioNoTie_mem T pc (T.nc - 1) (List.range T.nr) 0 0 x hx
  unfold lexMinRatio at h
  simp only at h
  rw [← ha0] at h
  by_cases h1 : a0.length = 1
  · rw [if_pos h1] at h
    have hr : a0.headD 0 = r := (Prod.mk.inj h).2
    obtain ⟨x, hx⟩ := List.length_eq_one_iff.mp h1
    have hxr : x = r := by rw [hx] at hr; simpa using hr
    have hra0 : r ∈ a0 := by rw [hx, hxr]; simp
    have hni : i ∉ a0 := by
      intro hi'; rw [hx] at hi'; simp at hi'; exact hir (hi'.trans hxr)
    exact Or.inl (minRatioNoTie_strict T pc (T.nc - 1) (List.range T.nr) 0 r i hra0
      (List.mem_range.mpr hi) hpos hni)
  · rw [if_neg h1] at h
    by_cases h2 : a0.length ≥ 2
    · rw [if_pos h2] at h
      have hf : (lexLoop T pc (0 : K) 0 ((List.range T.nr).map (· + ss)) a0).1 = true := (Prod.mk.inj h).1
      have hr : (lexLoop T pc (0 : K) 0 ((List.range T.nr).map (· + ss)) a0).2.headD 0 = r := (Prod.mk.inj h).2
      have hlen := lexLoop_true_length T pc 0 0 ((List.range T.nr).map (· + ss)) a0 hf
      obtain ⟨x, hx⟩ := List.length_eq_one_iff.mp hlen
      have hxr : x = r := by rw [hx] at hr; simpa using hr
      have hrres : r ∈ (lexLoop T pc (0 : K) 0 ((List.range T.nr).map (· + ss)) a0).2 := by
        rw [hx, hxr]; simp
      have hra0 : r ∈ a0 := lexLoop_mem T pc 0 0 _ a0 r hrres
      by_cases hia : i ∈ a0
      · refine Or.inr ⟨minRatioNoTie_ratio_eq T pc (T.nc - 1) (List.range T.nr) 0 r i hra0 hia, ?_⟩
        exact lexLoop_strict T pc 0 _ a0 (fun x hx => (hmem0 x hx).2)
          (fun x hx => ne_of_gt (hmem0 x hx).2) hf r hrres i hia hir
      · exact Or.inl (minRatioNoTie_strict T pc (T.nc - 1) (List.range T.nr) 0 r i hra0
          (List.mem_range.mpr hi) hpos hia)
    · rw [if_neg h2] at h
      simp at h

end QE.C04
