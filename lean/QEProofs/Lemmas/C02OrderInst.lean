/-
  Lemmas for C02: instances of `OrdSpec` — arbitrary trees, the sequential (Numba) order, NumPy's
  pairwise sum with 8 accumulators, FMA-accumulated dot products — and the identification of the
  driver's `gthSolve` / `gthSolveNp` with `gthSolveO seqOrd` / `gthSolveO (npOrd n)`.
-/
import QEModel.C02
import QEProofs.Lemmas.C02Gth
import QEProofs.Lemmas.C02Round
import QEProofs.Lemmas.C02Acc
import QEProofs.Lemmas.C02Order
namespace QE.C02
open Finset

set_option linter.unusedSectionVars false
set_option linter.unusedVariables false

section
variable {K : Type} [Field K] [LinearOrder K] [IsStrictOrderedRing K]
variable {R : RoundedOps K}

/-! ### arbitrary trees -/

theorem treeOrd_spec (R : RoundedOps K) (n : ℕ) (T : ℕ → SumTree)
    (hT : ∀ m, 1 ≤ m → (T m).leaves.Perm (List.range m)) : OrdSpec R n (treeOrd T : Ord (Fl R)) := by
  have hu := R.u_nonneg
  have hsum : ∀ l : List (Fl R), (∀ t, 0 ≤ (l.getD t 0).val) →
      Apx R.u l.length ((treeOrd T : Ord (Fl R)).sumRow l).val (sumUpTo (fun t => (l.getD t 0).val) l.length) := by
    intro l hnn
    show Apx R.u l.length (if l.length = 0 then (0 : Fl R) else (T l.length).eval (fun i => l.getD i 0)).val _
    by_cases h0 : l.length = 0
    · rw [if_pos h0, h0]; simp only [sumUpTo, Fl.zero_val]; exact apx_refl hu _ (le_refl _)
    · rw [if_neg h0]
      have := tree_apx_perm R (fun i => l.getD i 0) hnn (T l.length) l.length (hT _ (by omega))
      exact apx_mono hu (by omega) (sumUpTo_nonneg _ _ (fun t _ => hnn t)) this
  refine ⟨hsum, ?_, ?_⟩
  · intro a b ha hb
    show Apx R.u (a.length + 1)
      (if a.length = 0 then (0 : Fl R) else (T a.length).eval (fun i => a.getD i 0 * b.getD i 0)).val _
    by_cases h0 : a.length = 0
    · rw [if_pos h0, h0]; simp only [sumUpTo, Fl.zero_val]; exact apx_refl hu _ (le_refl _)
    · rw [if_neg h0]
      have hpnn : ∀ i, 0 ≤ ((fun i => a.getD i 0 * b.getD i 0) i : Fl R).val := by
        intro i
        exact apx_nonneg hu (R.fmul_spec _ _ (ha i) (hb i)) (mul_nonneg (ha i) (hb i))
      have h1 := tree_apx_perm R (fun i => a.getD i 0 * b.getD i 0) hpnn (T a.length) a.length (hT _ (by omega))
      have h2 : Apx R.u 1 (sumUpTo (fun i => ((fun i => a.getD i 0 * b.getD i 0) i : Fl R).val) a.length)
          (sumUpTo (fun t => (a.getD t 0).val * (b.getD t 0).val) a.length) :=
        sumUpTo_apx_exact _ _ _ _ _ (fun t _ => R.fmul_spec _ _ (ha t) (hb t))
      have h3 := apx_trans hu h1 h2
      exact apx_mono hu (by omega) (sumUpTo_nonneg _ _ (fun t _ => mul_nonneg (ha t) (hb t))) h3
  · intro y hnn hlen
    exact apx_mono hu (by omega) (sumUpTo_nonneg _ _ (fun t _ => hnn t)) (hsum y hnn)

/-! ### the sequential order -/

theorem sumList_spec (R : RoundedOps K) (l : List (Fl R)) (hnn : ∀ t, 0 ≤ (l.getD t 0).val) :
    Apx R.u l.length (sumList l).val (sumUpTo (fun t => (l.getD t 0).val) l.length) := by
  unfold sumList
  have := (sum_apx R 0 (fun t => l.getD t 0) (fun t => (l.getD t 0).val) l.length
    (fun t _ => ⟨hnn t, apx_refl R.u_nonneg 0 (hnn t)⟩)).2
  rwa [Nat.zero_add] at this

theorem seqDot_spec (R : RoundedOps K) (a b : List (Fl R)) (ha : ∀ t, 0 ≤ (a.getD t 0).val)
    (hb : ∀ t, 0 ≤ (b.getD t 0).val) :
    Apx R.u (a.length + 1) (seqDot a b).val
      (sumUpTo (fun t => (a.getD t 0).val * (b.getD t 0).val) a.length) := by
  unfold seqDot
  have := (sum_apx R 1 (fun t => a.getD t 0 * b.getD t 0)
    (fun t => (a.getD t 0).val * (b.getD t 0).val) a.length
    (fun t _ => ⟨mul_nonneg (ha t) (hb t), R.fmul_spec _ _ (ha t) (hb t)⟩)).2
  rwa [Nat.add_comm] at this

theorem seqOrd_spec (R : RoundedOps K) (n : ℕ) : OrdSpec R n (seqOrd : Ord (Fl R)) := by
  refine ⟨fun l h => sumList_spec R l h, fun a b ha hb => seqDot_spec R a b ha hb, ?_⟩
  intro y hnn hlen
  exact apx_mono R.u_nonneg (by omega) (sumUpTo_nonneg _ _ (fun t _ => hnn t)) (sumList_spec R y hnn)

/-! ### FMA -/

/-- a dot product accumulated by fused multiply-adds: `acc ← ffma (a t) (b t) acc`, from 0 -/
def fmaAcc (ffma : K → K → K → K) (a b : ℕ → K) : ℕ → K
  | 0 => 0
  | m + 1 => ffma (a m) (b m) (fmaAcc ffma a b m)

/-- a dot product accumulated by fused multiply-adds (one rounding of `a·b + c` per step) carries at
    most `m` factors — inside the `m+1` of `OrdSpec.dot`. `ffma` is any function with the FMA spec. -/
theorem fmaDot_apx (R : RoundedOps K) (ffma : K → K → K → K)
    (hfma : ∀ a b c, 0 ≤ a → 0 ≤ b → 0 ≤ c → Apx R.u 1 (ffma a b c) (a * b + c))
    (a b : ℕ → K) (ha : ∀ t, 0 ≤ a t) (hb : ∀ t, 0 ≤ b t) (m : ℕ) :
    0 ≤ fmaAcc ffma a b m
    ∧ Apx R.u m (fmaAcc ffma a b m) (sumUpTo (fun t => a t * b t) m) := by
  have hu := R.u_nonneg
  induction m with
  | zero => simp only [sumUpTo, fmaAcc]; exact ⟨le_refl _, apx_refl hu _ (le_refl _)⟩
  | succ m ih =>
    obtain ⟨h0, ha'⟩ := ih
    have hs0 : 0 ≤ sumUpTo (fun t => a t * b t) m := sumUpTo_nonneg _ _ (fun t _ => mul_nonneg (ha t) (hb t))
    have hr := hfma (a m) (b m) _ (ha m) (hb m) h0
    have hex : Apx R.u m (a m * b m + fmaAcc ffma a b m)
        (sumUpTo (fun t => a t * b t) m + a m * b m) := by
      have := apx_add ha' (apx_refl hu m (mul_nonneg (ha m) (hb m)))
      rwa [add_comm (fmaAcc ffma a b m) (a m * b m)] at this
    rw [sumUpTo, fmaAcc]
    refine ⟨apx_nonneg hu hr (add_nonneg (mul_nonneg (ha m) (hb m)) h0), ?_⟩
    exact apx_trans hu hr hex

/-- replacing the dot product of an admissible order by any function within `m+1` factors of the
    exact dot product of its arguments (e.g. the FMA chain, any BLAS blocking) stays admissible -/
theorem ordSpec_replace_dot (R : RoundedOps K) (n : ℕ) (o : Ord (Fl R)) (ho : OrdSpec R n o)
    (d : List (Fl R) → List (Fl R) → Fl R)
    (hd : ∀ a b : List (Fl R), (∀ t, 0 ≤ (a.getD t 0).val) → (∀ t, 0 ≤ (b.getD t 0).val) →
      Apx R.u (a.length + 1) (d a b).val (sumUpTo (fun t => (a.getD t 0).val * (b.getD t 0).val) a.length)) :
    OrdSpec R n ⟨o.sumRow, d, o.norm⟩ :=
  ⟨ho.sumRow, hd, ho.norm⟩

/-! ### NumPy's pairwise sum (8 accumulators) -/

theorem foldl_apx (R : RoundedOps K) (g : ℕ → Fl R) (hg : ∀ b, 0 ≤ (g b).val) (init : Fl R) (I : K)
    (e0 : ℕ) (hI : 0 ≤ I) (hinit : Apx R.u e0 init.val I) (L : ℕ) :
    0 ≤ I + sumUpTo (fun b => (g b).val) L
    ∧ Apx R.u (e0 + L) ((List.range L).foldl (fun acc b => acc + g b) init).val
        (I + sumUpTo (fun b => (g b).val) L) := by
  have hu := R.u_nonneg
  induction L with
  | zero => simp only [List.range_zero, List.foldl_nil, sumUpTo, add_zero]; exact ⟨hI, hinit⟩
  | succ L ih =>
    obtain ⟨h0, ha⟩ := ih
    rw [List.range_succ, List.foldl_append, List.foldl_cons, List.foldl_nil, sumUpTo, Fl.add_val, ← add_assoc]
    have hsum := apx_add ha (apx_mono hu (show 0 ≤ e0 + L by omega) (hg L) (apx_refl hu 0 (hg L)))
    have hr := R.fadd_spec _ _ (apx_nonneg hu ha h0) (hg L)
    refine ⟨add_nonneg h0 (hg L), ?_⟩
    have := apx_trans hu hr hsum
    rwa [Nat.add_assoc] at this

theorem add_apx (R : RoundedOps K) (x y : Fl R) (X Y : K) (e : ℕ) (hX : 0 ≤ X) (hY : 0 ≤ Y)
    (hx : Apx R.u e x.val X) (hy : Apx R.u e y.val Y) : Apx R.u (e + 1) (x + y).val (X + Y) := by
  have hu := R.u_nonneg
  rw [Fl.add_val]
  exact apx_trans hu (R.fadd_spec _ _ (apx_nonneg hu hx hX) (apx_nonneg hu hy hY)) (apx_add hx hy)

theorem sum_blocks (f : ℕ → K) (B : ℕ) :
    ∑ i ∈ range (8 * B), f i = ∑ b ∈ range B, ∑ j ∈ range 8, f (8 * b + j) := by
  induction B with
  | zero => simp
  | succ B ih =>
    rw [show 8 * (B + 1) = 8 * B + 8 by ring, sum_range_add, ih,
      sum_range_succ (fun b => ∑ j ∈ range 8, f (8 * b + j)) B]

/-- the exact value behind NumPy's 8-accumulator scheme is the plain sum -/
theorem pairwise_exact (a : ℕ → K) (B rem : ℕ) (hB : 1 ≤ B) :
    (((a 0 + sumUpTo (fun b => a (8 * (b + 1) + 0)) (B - 1)) + (a 1 + sumUpTo (fun b => a (8 * (b + 1) + 1)) (B - 1)))
      + ((a 2 + sumUpTo (fun b => a (8 * (b + 1) + 2)) (B - 1)) + (a 3 + sumUpTo (fun b => a (8 * (b + 1) + 3)) (B - 1))))
    + (((a 4 + sumUpTo (fun b => a (8 * (b + 1) + 4)) (B - 1)) + (a 5 + sumUpTo (fun b => a (8 * (b + 1) + 5)) (B - 1)))
      + ((a 6 + sumUpTo (fun b => a (8 * (b + 1) + 6)) (B - 1)) + (a 7 + sumUpTo (fun b => a (8 * (b + 1) + 7)) (B - 1))))
    + sumUpTo (fun t => a (8 * B + t)) rem = sumUpTo a (8 * B + rem) := by
  obtain ⟨B', rfl⟩ : ∃ B', B = B' + 1 := ⟨B - 1, by omega⟩
  simp only [Nat.add_sub_cancel, sumUpTo_eq]
  rw [sum_range_add a (8 * (B' + 1)) rem, show 8 * (B' + 1) = 8 + 8 * B' by ring,
    sum_range_add a 8 (8 * B'), sum_blocks (fun i => a (8 + i)) B', sum_comm]
  have hidx : ∀ j b, 8 + (8 * b + j) = 8 * (b + 1) + j := by intro j b; ring
  simp only [hidx]
  simp only [sum_range_succ, sum_range_zero, zero_add, Nat.add_zero]
  ring

theorem npSum_spec (R : RoundedOps K) (l : List (Fl R)) (hnn : ∀ t, 0 ≤ (l.getD t 0).val) :
    Apx R.u l.length (npSum l).val (sumUpTo (fun t => (l.getD t 0).val) l.length) := by
  have hu := R.u_nonneg
  unfold npSum
  simp only
  by_cases h8 : l.length < 8
  · rw [if_pos h8]; exact sumList_spec R l hnn
  · rw [if_neg h8]
    set B := l.length / 8 with hB
    set rem := l.length % 8 with hrem
    have hB1 : 1 ≤ B := by omega
    have hN : l.length = 8 * B + rem := by omega
    have ha : ∀ t, 0 ≤ (fun t => (l.getD t 0).val) t := hnn
    -- the eight accumulators
    have hr : ∀ j, 0 ≤ (l.getD j 0).val + sumUpTo (fun b => (l.getD (8 * (b + 1) + j) 0).val) (B - 1)
        ∧ Apx R.u (B + 2 - 3)
          ((List.range (B - 1)).foldl (fun acc b => acc + l.getD (8 * (b + 1) + j) 0) (l.getD j 0)).val
          ((l.getD j 0).val + sumUpTo (fun b => (l.getD (8 * (b + 1) + j) 0).val) (B - 1)) := by
      intro j
      have := foldl_apx R (fun b => l.getD (8 * (b + 1) + j) 0) (fun b => hnn _) (l.getD j 0) _ 0 (hnn j)
        (apx_refl hu 0 (hnn j)) (B - 1)
      have e1 : 0 + (B - 1) = B + 2 - 3 := by omega
      rw [e1] at this; exact this
    have p01 := add_apx R _ _ _ _ _ (hr 0).1 (hr 1).1 (hr 0).2 (hr 1).2
    have p23 := add_apx R _ _ _ _ _ (hr 2).1 (hr 3).1 (hr 2).2 (hr 3).2
    have p45 := add_apx R _ _ _ _ _ (hr 4).1 (hr 5).1 (hr 4).2 (hr 5).2
    have p67 := add_apx R _ _ _ _ _ (hr 6).1 (hr 7).1 (hr 6).2 (hr 7).2
    have q0 := add_apx R _ _ _ _ _ (add_nonneg (hr 0).1 (hr 1).1) (add_nonneg (hr 2).1 (hr 3).1) p01 p23
    have q1 := add_apx R _ _ _ _ _ (add_nonneg (hr 4).1 (hr 5).1) (add_nonneg (hr 6).1 (hr 7).1) p45 p67
    have hres := add_apx R _ _ _ _ _
      (add_nonneg (add_nonneg (hr 0).1 (hr 1).1) (add_nonneg (hr 2).1 (hr 3).1))
      (add_nonneg (add_nonneg (hr 4).1 (hr 5).1) (add_nonneg (hr 6).1 (hr 7).1)) q0 q1
    have hres0 := add_nonneg
      (add_nonneg (add_nonneg (hr 0).1 (hr 1).1) (add_nonneg (hr 2).1 (hr 3).1))
      (add_nonneg (add_nonneg (hr 4).1 (hr 5).1) (add_nonneg (hr 6).1 (hr 7).1))
    have htail := (foldl_apx R (fun t => l.getD (8 * B + t) 0) (fun t => hnn _) _ _ _ hres0 hres rem).2
    rw [pairwise_exact (fun t => (l.getD t 0).val) B rem hB1, ← hN] at htail
    exact apx_mono hu (by omega) (sumUpTo_nonneg _ _ (fun t _ => hnn t)) htail

theorem sumUpTo_pad (l : List (Fl R)) (m : ℕ) :
    sumUpTo (fun t => ((l ++ List.replicate m (0 : Fl R)).getD t 0).val) (l.length + m)
      = sumUpTo (fun t => (l.getD t 0).val) l.length := by
  induction m with
  | zero => simp
  | succ m ih =>
    rw [← Nat.add_assoc, sumUpTo]
    have hz : ((l ++ List.replicate (m + 1) (0 : Fl R)).getD (l.length + m) 0).val = 0 := by
      rw [List.getD_eq_getElem?_getD, List.getElem?_append_right (by omega), List.getElem?_replicate]
      split <;> simp
    rw [hz, add_zero, ← ih]
    apply sumUpTo_congr
    intro t ht
    by_cases htl : t < l.length
    · simp [List.getD_eq_getElem?_getD, List.getElem?_append_left htl]
    · rw [List.getD_eq_getElem?_getD, List.getD_eq_getElem?_getD, List.getElem?_append_right (by omega),
        List.getElem?_append_right (by omega), List.getElem?_replicate, List.getElem?_replicate]
      have h1 : t - l.length < m + 1 := by omega
      have h2 : t - l.length < m := by omega
      simp [h1, h2]

theorem npOrd_spec (R : RoundedOps K) (n : ℕ) : OrdSpec R n (npOrd n : Ord (Fl R)) := by
  have hu := R.u_nonneg
  refine ⟨fun l h => sumList_spec R l h, fun a b ha hb => seqDot_spec R a b ha hb, ?_⟩
  intro y hnn hlen
  show Apx R.u (n + 1) ((0 : Fl R) + npSum (y ++ List.replicate (n - y.length) 0)).val _
  set pad := y ++ List.replicate (n - y.length) (0 : Fl R) with hpad
  have hpadlen : pad.length = n := by simp [hpad]; omega
  have hpadnn : ∀ t, 0 ≤ (pad.getD t 0).val := by
    intro t
    by_cases ht : t < y.length
    · have : pad.getD t 0 = y.getD t 0 := by
        simp [hpad, List.getD_eq_getElem?_getD, List.getElem?_append_left ht]
      rw [this]; exact hnn t
    · have : pad.getD t 0 = 0 := by
        rw [hpad, List.getD_eq_getElem?_getD, List.getElem?_append_right (by omega), List.getElem?_replicate]
        split <;> simp
      rw [this]; simp
  have h1 := npSum_spec R pad hpadnn
  have hsumeq : sumUpTo (fun t => (pad.getD t 0).val) n
      = sumUpTo (fun t => (y.getD t 0).val) y.length := by
    have h := sumUpTo_pad y (n - y.length)
    have e : y.length + (n - y.length) = n := by omega
    rw [e] at h; exact h
  rw [hpadlen] at h1
  rw [hsumeq] at h1
  have hs0 : 0 ≤ sumUpTo (fun t => (y.getD t 0).val) y.length := sumUpTo_nonneg _ _ (fun t _ => hnn t)
  rw [Fl.add_val, Fl.zero_val]
  have hr := R.fadd_spec 0 _ (le_refl _) (apx_nonneg hu h1 hs0)
  rw [zero_add] at hr
  exact apx_trans hu hr h1

end

/-! ### the driver's two programs are instances (any scalar type, `Float` included) -/

section generic
variable {α : Type} [Zero α] [One α] [Add α] [Mul α] [Div α] [LE α] [DecidableLE α]

theorem sumList_rowTerms (n : ℕ) (A : M α) (k : ℕ) : sumList (rowTerms n A k) = rowScale n A k := by
  unfold sumList rowScale
  have hlen : (rowTerms n A k).length = n - (k + 1) := by simp [rowTerms]
  rw [hlen]
  apply sumUpTo_congr
  intro t ht
  unfold rowTerms
  exact getD_map_range _ _ _ _ ht

theorem seqDot_colTerms (A : M α) (k : ℕ) (xs : List α) :
    seqDot xs (colTerms A k xs.length) = dotCol A k xs := by
  unfold seqDot dotCol
  apply sumUpTo_congr
  intro t ht
  unfold colTerms
  rw [getD_map_range _ _ _ _ ht]

theorem gthRecO_eq_gthRec (o : Ord α) (hs : o.sumRow = sumList) (hd : o.dot = seqDot) (n : ℕ) :
    ∀ (fuel k : ℕ) (A : M α), gthRecO o n fuel k A = gthRec n fuel k A := by
  intro fuel
  induction fuel with
  | zero => intro k A; rfl
  | succ fuel ih =>
    intro k A
    rw [gthRecO, gthRec]
    try simp only
    rw [hs, hd, sumList_rowTerms]
    by_cases hsc : rowScale n A k ≤ 0
    · rw [if_pos hsc, if_pos hsc]
    · rw [if_neg hsc, if_neg hsc, ih, seqDot_colTerms]

/-- the Numba-order program the driver runs is `gthSolveO seqOrd` -/
theorem gthSolve_eq_seqOrd' (n : ℕ) (hn : 1 ≤ n) (A : M α) : gthSolve n A = gthSolveO seqOrd n A := by
  unfold gthSolve gthSolveO
  simp only
  rw [gthRaw_eq_rec n hn A, gthRecO_eq_gthRec seqOrd rfl rfl]
  rfl

/-- the NumPy-twin program the driver runs is `gthSolveO (npOrd n)` -/
theorem gthSolveNp_eq_npOrd' (n : ℕ) (hn : 1 ≤ n) (A : M α) : gthSolveNp n A = gthSolveO (npOrd n) n A := by
  unfold gthSolveNp gthSolveO
  simp only
  rw [gthRaw_eq_rec n hn A, gthRecO_eq_gthRec (npOrd n) rfl rfl]
  rfl

end generic

section headline
variable {K : Type} [Field K] [LinearOrder K] [IsStrictOrderedRing K]

theorem gthSolveO_rel_err (R : RoundedOps K) (n : ℕ) (hn : 1 ≤ n) (o : Ord (Fl R)) (ho : OrdSpec R n o)
    (A : M K) (hA : OffNonneg n A) (i : ℕ) :
    |((gthSolveO o n (liftM R n A)).getD i 0).val - (gthSolve n A).getD i 0|
      ≤ ((1 + R.u) ^ (errBound n + 1) - 1) * (gthSolve n A).getD i 0 := by
  obtain ⟨_, hx0, _, _⟩ := gthSolve_stationary_aux n hn A hA
  exact apx_rel_err R.u_nonneg (gthSolveO_apx R n hn o ho A hA i) (hx0 i)

theorem gthSolveO_rel_err_double (R : RoundedOps K) (hR : R.u ≤ 1 / 2 ^ 53) (n : ℕ) (hn : 1 ≤ n)
    (hn8 : n ≤ 8) (o : Ord (Fl R)) (ho : OrdSpec R n o) (A : M K) (hA : OffNonneg n A) (i : ℕ) :
    |((gthSolveO o n (liftM R n A)).getD i 0).val - (gthSolve n A).getD i 0|
      ≤ ((n : K) ^ 3 / 10 ^ 12) * (gthSolve n A).getD i 0 := by
  obtain ⟨_, hx0, _, _⟩ := gthSolve_stationary_aux n hn A hA
  have h1 := gthSolveO_rel_err R n hn o ho A hA i
  have hu := R.u_nonneg
  have hmono : (1 + R.u) ^ (errBound n + 1) ≤ (1 + (1 : K) / 2 ^ 53) ^ (errBound n + 1) :=
    pow_le_pow_left₀ (by linarith) (by linarith) _
  have hu0 : (0 : K) ≤ 1 / 2 ^ 53 := by positivity
  have hnum : ((errBound n + 1 : ℕ) : K) * (1 / 2 ^ 53) < 1 ∧
      1 / (1 - ((errBound n + 1 : ℕ) : K) * (1 / 2 ^ 53)) - 1 ≤ (n : K) ^ 3 / 10 ^ 12 := by
    interval_cases n
    · have : errBound 1 + 1 = 3 := by decide
      rw [this]; norm_num
    · have : errBound 2 + 1 = 12 := by decide
      rw [this]; norm_num
    · have : errBound 3 + 1 = 45 := by decide
      rw [this]; norm_num
    · have : errBound 4 + 1 = 158 := by decide
      rw [this]; norm_num
    · have : errBound 5 + 1 = 543 := by decide
      rw [this]; norm_num
    · have : errBound 6 + 1 = 1848 := by decide
      rw [this]; norm_num
    · have : errBound 7 + 1 = 6233 := by decide
      rw [this]; norm_num
    · have : errBound 8 + 1 = 20826 := by decide
      rw [this]; norm_num
  have h2 := pow_le_inv_one_sub ((1 : K) / 2 ^ 53) hu0 (errBound n + 1) hnum.1
  have h3 : (1 + R.u) ^ (errBound n + 1) - 1 ≤ (n : K) ^ 3 / 10 ^ 12 := by linarith [hnum.2]
  exact le_trans h1 (mul_le_mul_of_nonneg_right h3 (hx0 i))

end headline

end QE.C02
