/-
  Lemmas for property C05, `_BestResponsePolytope.__init__` (model `brpShift`, `brpShifted`,
  `brpRowSum`, `brpTransRecip`, `brpPoints`): the shifted payoffs are non-negative with no zero
  column, the translation is well defined, and the points given to Qhull describe the
  best-response polytope translated by `1/trans_recip`.
-/
import QEProofs.Lemmas.C05Bound
import QEProofs.Lemmas.C05Pure
import QEProofs.Lemmas.C05Nash
import Mathlib.Tactic.FieldSimp

namespace QE.C05
open QE QE.MatAlg Finset

set_option linter.unusedSectionVars false
variable {K : Type} [Field K] [LinearOrder K] [IsStrictOrderedRing K]

theorem foldl_min_attained (f : ℕ → K) : ∀ (l : List ℕ) (a0 : K),
    l.foldl (fun acc j => if f j < acc then f j else acc) a0 = a0 ∨
    ∃ j, j ∈ l ∧ l.foldl (fun acc j => if f j < acc then f j else acc) a0 = f j
  | [], a0 => Or.inl rfl
  | x :: xs, a0 => by
    rw [List.foldl_cons]
    rcases foldl_min_attained f xs (if f x < a0 then f x else a0) with h | ⟨j, hj, h⟩
    · by_cases hlt : f x < a0
      · right; exact ⟨x, List.mem_cons_self, by rw [h, if_pos hlt]⟩
      · left; rw [h, if_neg hlt]
    · right; exact ⟨j, List.mem_cons_of_mem _ hj, h⟩

theorem colMin_spec (r : ℕ) (hr : 0 < r) (Bm : ℕ → ℕ → K) (j : ℕ) :
    (∀ i, i < r → colMin r Bm j ≤ Bm i j) ∧ ∃ i, i < r ∧ colMin r Bm j = Bm i j := by
  unfold colMin
  obtain ⟨_, h2⟩ := foldl_min_le (fun i => Bm i j) (List.range r) (Bm 0 j)
  refine ⟨fun i hi => h2 i (List.mem_range.mpr hi), ?_⟩
  rcases foldl_min_attained (fun i => Bm i j) (List.range r) (Bm 0 j) with h | ⟨i, hi, h⟩
  · exact ⟨0, hr, h⟩
  · exact ⟨i, List.mem_range.mp hi, h⟩

theorem colMax_spec (r : ℕ) (hr : 0 < r) (Bm : ℕ → ℕ → K) (j : ℕ) :
    (∀ i, i < r → Bm i j ≤ colMax r Bm j) ∧ ∃ i, i < r ∧ colMax r Bm j = Bm i j :=
  vecMax_spec r hr (fun i => Bm i j)

/-- the shift is at least `-col_min` (when that is positive) -/
theorem brpShift_ge (r : ℕ) (Bm : ℕ → ℕ → K) (j : ℕ) :
    0 ≤ colMin r Bm j + brpShift r Bm j := by
  unfold brpShift
  dsimp only
  have h0 : 0 ≤ colMin r Bm j + (if colMin r Bm j < 0 then - colMin r Bm j else 0) := by
    split
    · simp
    · rename_i h; simpa using not_lt.mp h
  split
  · have h1 : (0 : K) ≤ 1 := zero_le_one
    linarith
  · exact h0

/-- **shifted payoffs are non-negative** -/
theorem brpShifted_nonneg' (r : ℕ) (Bm : ℕ → ℕ → K) (i j : ℕ) (hi : i < r) :
    0 ≤ brpShifted r Bm i j := by
  unfold brpShifted
  have h1 := (colMin_spec r (by omega) Bm j).1 i hi
  have h2 := brpShift_ge r Bm j
  linarith

/-- **no zero column**: every column of the shifted array has a positive entry -/
theorem brpShifted_col_pos' (r : ℕ) (hr : 0 < r) (Bm : ℕ → ℕ → K) (j : ℕ) :
    ∃ i, i < r ∧ 0 < brpShifted r Bm i j := by
  obtain ⟨hub, imax, himax, hmax⟩ := colMax_spec r hr Bm j
  obtain ⟨hlb, imin, himin, hmin⟩ := colMin_spec r hr Bm j
  have hle : colMin r Bm j ≤ colMax r Bm j := by rw [hmax]; exact hlb imax himax
  refine ⟨imax, himax, ?_⟩
  unfold brpShifted brpShift
  dsimp only
  rw [← hmax]
  have h0 : 0 ≤ colMin r Bm j + (if colMin r Bm j < 0 then - colMin r Bm j else 0) := by
    split
    · simp
    · rename_i h; simpa using not_lt.mp h
  by_cases hc : ((colMax r Bm j == colMin r Bm j) && decide (colMin r Bm j ≤ 0)) = true
  · rw [if_pos hc]
    have h1 : (0 : K) < 1 := zero_lt_one
    linarith
  · rw [if_neg hc]
    simp only [Bool.and_eq_true, beq_iff_eq, decide_eq_true_eq, not_and, not_le] at hc
    by_cases he : colMax r Bm j = colMin r Bm j
    · have hpos := hc he
      rw [if_neg (not_lt.mpr (le_of_lt hpos)), add_zero, he]; exact hpos
    · have hlt : colMin r Bm j < colMax r Bm j := lt_of_le_of_ne hle (Ne.symm he)
      linarith

theorem brpRowSum_eq (r c : ℕ) (Bm : ℕ → ℕ → K) (i : ℕ) :
    brpRowSum r c Bm i = ∑ j ∈ range c, brpShifted r Bm i j := by
  unfold brpRowSum; rw [sumRange_eq_sum]

/-- **the translation is well defined**: `trans_recip > 0` and every denominator
    `trans_recip - row_sums[i]` is positive -/
theorem brp_denominators_pos' (r c : ℕ) (hr : 0 < r) (hc : 0 < c) (Bm : ℕ → ℕ → K) :
    0 < brpTransRecip r c Bm ∧ ∀ i, i < r → 0 < brpTransRecip r c Bm - brpRowSum r c Bm i := by
  obtain ⟨hub, i0, hi0, hM⟩ := vecMax_spec r hr (brpRowSum r c Bm)
  have hnn : ∀ i, i < r → 0 ≤ brpRowSum r c Bm i := by
    intro i hi
    rw [brpRowSum_eq]
    exact sum_nonneg fun j _ => brpShifted_nonneg' r Bm i j hi
  obtain ⟨i1, hi1, hpos⟩ := brpShifted_col_pos' r hr Bm 0
  have hrs1 : 0 < brpRowSum r c Bm i1 := by
    rw [brpRowSum_eq]
    have := single_le_sum (f := fun j => brpShifted r Bm i1 j)
      (fun j _ => brpShifted_nonneg' r Bm i1 j hi1) (mem_range.mpr hc)
    exact lt_of_lt_of_le hpos this
  have hMpos : 0 < vecMax r (brpRowSum r c Bm) := lt_of_lt_of_le hrs1 (hub i1 hi1)
  unfold brpTransRecip
  refine ⟨by linarith, ?_⟩
  intro i hi
  have := hub i hi
  linarith

/-- a payoff row of `D`: `D_k · z ≤ 1` iff the shifted payoff row at the translated point is `≤ 1` -/
theorem brp_pay_row (r c : ℕ) (hr : 0 < r) (hc : 0 < c) (Bm : ℕ → ℕ → K) (z : ℕ → K) (i : ℕ) (hi : i < r) :
    (∑ j ∈ range c, (brpShifted r Bm i j * brpTransRecip r c Bm) /
        (brpTransRecip r c Bm - brpRowSum r c Bm i) * z j ≤ 1) ↔
      ∑ j ∈ range c, brpShifted r Bm i j * (z j + 1 / brpTransRecip r c Bm) ≤ 1 := by
  obtain ⟨ht, hd⟩ := brp_denominators_pos' r c hr hc Bm
  have hdi := hd i hi
  set t := brpTransRecip r c Bm with htdef
  set d := t - brpRowSum r c Bm i with hddef
  have h1 : ∑ j ∈ range c, (brpShifted r Bm i j * t) / d * z j
      = (t / d) * ∑ j ∈ range c, brpShifted r Bm i j * z j := by
    rw [mul_sum]
    apply sum_congr rfl
    intro j _
    field_simp
  have h2 : ∑ j ∈ range c, brpShifted r Bm i j * (z j + 1 / t)
      = ∑ j ∈ range c, brpShifted r Bm i j * z j + brpRowSum r c Bm i / t := by
    rw [brpRowSum_eq, sum_div, ← sum_add_distrib]
    apply sum_congr rfl
    intro j _
    ring
  rw [h1, h2]
  have hrs : brpRowSum r c Bm i = t - d := by rw [hddef]; ring
  rw [hrs]
  constructor
  · intro h
    have h3 : t * ∑ j ∈ range c, brpShifted r Bm i j * z j ≤ d := by
      have e : t * ∑ j ∈ range c, brpShifted r Bm i j * z j
          = (t / d * ∑ j ∈ range c, brpShifted r Bm i j * z j) * d := by
        field_simp
      rw [e]
      have := mul_le_mul_of_nonneg_right h (le_of_lt hdi)
      rwa [one_mul] at this
    have h4 : ∑ j ∈ range c, brpShifted r Bm i j * z j ≤ d / t := by
      rw [le_div_iff₀ ht]; linarith
    have : (t - d) / t = 1 - d / t := by field_simp
    rw [this]; linarith
  · intro h
    have : (t - d) / t = 1 - d / t := by field_simp
    rw [this] at h
    have h4 : ∑ j ∈ range c, brpShifted r Bm i j * z j ≤ d / t := by linarith
    have h5 : t * ∑ j ∈ range c, brpShifted r Bm i j * z j ≤ d := by
      have := (le_div_iff₀ ht).mp h4; linarith
    rw [div_mul_eq_mul_div, div_le_one hdi]
    exact h5

/-- a non-negativity row of `D`: `-trans_recip · z_j ≤ 1` iff the translated coordinate is `≥ 0` -/
theorem brp_nn_row (r c : ℕ) (hr : 0 < r) (hc : 0 < c) (Bm : ℕ → ℕ → K) (z : ℕ → K) (j0 : ℕ) (hj0 : j0 < c) :
    (∑ j ∈ range c, (if j0 = j then - brpTransRecip r c Bm else 0) * z j ≤ 1) ↔
      0 ≤ z j0 + 1 / brpTransRecip r c Bm := by
  obtain ⟨ht, _⟩ := brp_denominators_pos' r c hr hc Bm
  simp only [ite_mul, zero_mul]
  rw [sum_ite_eq (range c) j0 (fun j => - brpTransRecip r c Bm * z j), if_pos (mem_range.mpr hj0)]
  constructor
  · intro h
    have : -1 / brpTransRecip r c Bm ≤ z j0 := by
      rw [div_le_iff₀ ht]; linarith
    have e : -1 / brpTransRecip r c Bm = -(1 / brpTransRecip r c Bm) := by ring
    linarith
  · intro h
    have : -(1 / brpTransRecip r c Bm) ≤ z j0 := by linarith
    have e : -1 / brpTransRecip r c Bm = -(1 / brpTransRecip r c Bm) := by ring
    rw [← e, div_le_iff₀ ht] at this
    linarith

end QE.C05
