/-
  C04 — from the end of Phase 1 to the end of Phase 2, in exact arithmetic:
  * at a Phase-1 optimum of value ≤ 0 every artificial variable that is still basic is 0;
  * the artificial clean-up keeps the invariants and leaves every row whose artificial
    variable stays basic identically zero on the non-artificial columns (`cleanup_sound`),
    so Phase 2 never moves those rows;
  * `linprog_simplex` with status 0 returns an optimal solution of the LP.
-/
import QEProofs.Lemmas.C04Phase1
import QEProofs.Lemmas.C04Crit
namespace QE.C04
open QE QE.Pivot Finset

variable {K : Type} [Field K] [LinearOrder K] [IsStrictOrderedRing K]

/-- rows whose basic variable is artificial (column `≥ nm`) have right-hand side `0`, and
    those among the first `q` rows vanish on the non-artificial columns -/
def ZeroRows (T : M K) (b : List ℕ) (L N nm q : ℕ) : Prop :=
  ∀ i, i < L → nm ≤ b.getD i 0 → T.get i N = 0 ∧ (i < q → ∀ j, j < nm → T.get i j = 0)

/-- invariant of the clean-up and of Phase 2 (without the objective) -/
structure Inv1 (T0 : M K) (L N nm q : ℕ) (T : M K) (b : List ℕ) : Prop where
  shape : Shape T L N
  canon : Canon T b L N
  rhs : RhsNonneg T L N
  sol : ∀ z, RowsSat T z L ↔ RowsSat T0 z L
  zero : ZeroRows T b L N nm q

/-! ### end of Phase 1 -/

/-- at a Phase-1 tableau whose criterion value is `≤ 0`, every row with an artificial basic
    variable has right-hand side `0` -/
theorem phase1_art_zero (P : LP K) (T : M K) (b : List ℕ)
    (hinv : Inv0 (initTableau P) (P.m + P.k) (P.n + P.m + (P.m + P.k)) T b)
    (hle : T.get (P.m + P.k) (P.n + P.m + (P.m + P.k)) ≤ 0) :
    ∀ i, i < P.m + P.k → P.n + P.m ≤ b.getD i 0 → T.get i (P.n + P.m + (P.m + P.k)) = 0 := by
  intro i hi hart
  set L := P.m + P.k with hL
  set N := P.n + P.m + (P.m + P.k) with hN
  have hsat := bsol_rowsSat T b L N hinv.shape hinv.canon
  have hsat0 := (hinv.sol _).mp hsat
  have h1 := initTableau_obj P _ hsat0
  rw [← hinv.obj _ hsat, bsol_obj T b L N hinv.shape hinv.canon] at h1
  have hsum : ∑ q ∈ range L, bsol T b L N (P.n + P.m + q) = T.get L N := by
    have := neg_injective h1; exact this.symm
  have hbN := (hinv.canon.2 i hi).1
  have hq : b.getD i 0 - (P.n + P.m) < L := by omega
  have hle1 : bsol T b L N (P.n + P.m + (b.getD i 0 - (P.n + P.m)))
      ≤ ∑ q ∈ range L, bsol T b L N (P.n + P.m + q) :=
    Finset.single_le_sum (f := fun q => bsol T b L N (P.n + P.m + q))
      (fun q _ => bsol_nonneg T b L N _ hinv.rhs) (Finset.mem_range.mpr hq)
  have heq : P.n + P.m + (b.getD i 0 - (P.n + P.m)) = b.getD i 0 := by omega
  rw [heq, bsol_basic T b L N i hinv.canon hi, hsum] at hle1
  exact le_antisymm (le_trans hle1 hle) (hinv.rhs i hi)

/-! ### the clean-up -/

omit [IsStrictOrderedRing K] in
theorem cleanupCol_some (T : M K) (nm i j : ℕ) (h : cleanupCol T (0 : K) nm i = some j) :
    j < nm ∧ T.get i j ≠ 0 := by
  unfold cleanupCol at h
  have hm := List.mem_of_find?_eq_some h
  have hp := List.find?_some (p := fun j => decide (T.get i j < -(0 : K)) || decide (0 < T.get i j)) h
  refine ⟨List.mem_range.mp hm, ?_⟩
  simp only [neg_zero, Bool.or_eq_true, decide_eq_true_eq] at hp
  rcases hp with hp | hp
  · exact ne_of_lt hp
  · exact ne_of_gt hp

omit [IsStrictOrderedRing K] in
theorem cleanupCol_none (T : M K) (nm i : ℕ) (h : cleanupCol T (0 : K) nm i = none) :
    ∀ j, j < nm → T.get i j = 0 := by
  unfold cleanupCol at h
  rw [List.find?_eq_none] at h
  intro j hj
  have := h j (List.mem_range.mpr hj)
  simp only [neg_zero, Bool.or_eq_true, decide_eq_true_eq, not_or, not_lt] at this
  exact le_antisymm this.2 this.1

omit [IsStrictOrderedRing K] in
/-- one row of the clean-up -/
theorem cleanupStep_inv (T0 : M K) (L N nm q : ℕ) (r : Res K) (hnm : nm ≤ N) (hq : q < L)
    (h : Inv1 T0 L N nm q r.T r.basis) :
    Inv1 T0 L N nm (q + 1) (cleanupStep (0 : K) nm r q).T (cleanupStep (0 : K) nm r q).basis := by
  unfold cleanupStep
  by_cases hart : nm ≤ r.basis.getD q 0
  · rw [if_pos hart]
    cases hcc : cleanupCol r.T (0 : K) nm q with
    | none =>
      simp only
      have hz := cleanupCol_none r.T nm q hcc
      refine ⟨h.shape, h.canon, h.rhs, h.sol, ?_⟩
      intro i hi hai
      refine ⟨(h.zero i hi hai).1, ?_⟩
      intro hiq j hj
      by_cases e : i = q
      · subst e; exact hz j hj
      · exact (h.zero i hi hai).2 (by omega) j hj
    | some j =>
      simp only
      obtain ⟨hj, hne⟩ := cleanupCol_some r.T nm q j hcc
      have hrq : r.T.get q N = 0 := (h.zero q hq hart).1
      have hrhs := rhs_pivot_zero_row r.T L N j q h.shape hq hrq
      refine ⟨shape_pivot r.T L N j q h.shape,
        canon_pivot r.T r.basis L N j q h.shape h.canon (by omega) hq hne,
        ?_, solset_pivot r.T T0 L N j q h.shape hq hne h.sol, ?_⟩
      · intro i hi; rw [hrhs i hi]; exact h.rhs i hi
      · intro i hi hai
        rw [getD_set r.basis q j i (by rw [h.canon.1]; exact hq)] at hai
        have hiq : i ≠ q := by
          intro e; rw [if_pos e] at hai; omega
        rw [if_neg hiq] at hai
        refine ⟨by rw [hrhs i hi]; exact (h.zero i hi hai).1, ?_⟩
        intro hlt j' hj'
        have hi_lt : i < q := by omega
        have hz := (h.zero i hi hai).2 hi_lt
        rw [pivot_get_i r.T j q i j' (by rw [h.shape.1]; omega) (by rw [h.shape.2]; omega) hiq,
          hz j hj, hz j' hj']
        simp
  · rw [if_neg hart]
    refine ⟨h.shape, h.canon, h.rhs, h.sol, ?_⟩
    intro i hi hai
    refine ⟨(h.zero i hi hai).1, ?_⟩
    intro hiq j hj
    have : i ≠ q := by intro e; subst e; exact hart hai
    exact (h.zero i hi hai).2 (by omega) j hj

omit [IsStrictOrderedRing K] in
/-- **cleanup_sound**: after the clean-up loop the invariants hold and every row whose
    artificial variable is still basic is zero on all non-artificial columns and on the
    right-hand side -/
theorem cleanup_inv (T0 : M K) (L N nm : ℕ) (r : Res K) (hnm : nm ≤ N)
    (h : Inv1 T0 L N nm 0 r.T r.basis) :
    ∀ q, q ≤ L → Inv1 T0 L N nm q ((List.range q).foldl (cleanupStep (0 : K) nm) r).T
      ((List.range q).foldl (cleanupStep (0 : K) nm) r).basis := by
  intro q
  induction q with
  | zero => intro _; simpa using h
  | succ q ih =>
    intro hq
    rw [List.range_succ, List.foldl_append]
    exact cleanupStep_inv T0 L N nm q _ hnm (by omega) (ih (by omega))

/-! ### Phase 2 keeps the zero rows -/

omit [IsStrictOrderedRing K] in
theorem zeroRows_pivot (T : M K) (b : List ℕ) (L N nm c r : ℕ) (hs : Shape T L N)
    (hlen : b.length = L) (hz : ZeroRows T b L N nm L) (hr : r < L) (hc : c < nm) (hnm : nm ≤ N) :
    ZeroRows (pivot T c r) (b.set r c) L N nm L := by
  intro i hi hai
  rw [getD_set b r c i (by omega)] at hai
  have hir : i ≠ r := by intro e; rw [if_pos e] at hai; omega
  rw [if_neg hir] at hai
  obtain ⟨h1, h2⟩ := hz i hi hai
  have hic : T.get i c = 0 := h2 hi c hc
  have hrow : ∀ j, j < N + 1 → (pivot T c r).get i j = T.get i j := by
    intro j hj
    rw [pivot_get_i T c r i j (by rw [hs.1]; omega) (by rw [hs.2]; exact hj) hir, hic]; simp
  refine ⟨by rw [hrow N (by omega)]; exact h1, ?_⟩
  intro _ j hj
  rw [hrow j (by omega)]; exact h2 hi j hj

/-- the Phase-2 invariant: the loop invariant relative to the Phase-2 start tableau `T1`,
    plus the zero rows -/
theorem phase2_inv (fuel : ℕ) (T1 : M K) (b1 : List ℕ) (L N : ℕ)
    (hs : Shape T1 L N) (hc : Canon T1 b1 L N) (hr : RhsNonneg T1 L N)
    (hz : ZeroRows T1 b1 L N (N - L) L) :
    Inv0 T1 L N (solveTableau tol0 true fuel T1 b1).T (solveTableau tol0 true fuel T1 b1).basis ∧
    ZeroRows (solveTableau tol0 true fuel T1 b1).T (solveTableau tol0 true fuel T1 b1).basis L N (N - L) L := by
  apply solveTableau_induct (tol0 : Tol K) true
    (fun T b => Inv0 T1 L N T b ∧ ZeroRows T b L N (N - L) L)
  · intro T b T' b' ⟨hinv, hzr⟩ hst
    refine ⟨inv0_step true T1 L N T b T' b' hinv hst, ?_⟩
    obtain ⟨c, r, hc', hr', _, _, _, hT, hb⟩ := step_data true T b T' b' L N hinv.shape hst
    subst hT hb
    simp only [if_true] at hc'
    exact zeroRows_pivot T b L N (N - L) c r hinv.shape hinv.canon.1 hzr hr' hc' (by omega)
  · exact ⟨inv0_refl T1 b1 L N hs hc hr, hz⟩

/-! ### the state at the start of Phase 2 -/

/-- when Phase 1 succeeds (status 0) its result satisfies the clean-up invariant completely -/
theorem solvePhase1_success (P : LP K) (fuel : ℕ)
    (h : (solvePhase1 tol0 fuel (initTableau P) (initBasis P)).status = 0) :
    Inv1 (initTableau P) (P.m + P.k) (P.n + P.m + (P.m + P.k)) (P.n + P.m) (P.m + P.k)
      (solvePhase1 tol0 fuel (initTableau P) (initBasis P)).T
      (solvePhase1 tol0 fuel (initTableau P) (initBasis P)).basis := by
  have hinv := solveTableau_inv0 false fuel (initTableau P) (initBasis P) _ _
    (initTableau_shape P) (initTableau_canon P) (initTableau_rhs_nonneg P)
  rcases solvePhase1_cases (tol0 : Tol K) fuel (initTableau P) (initBasis P) with
    ⟨h1, e⟩ | ⟨_, _, e⟩ | ⟨_, h2, e⟩
  · rw [e] at h; exact absurd h h1
  · rw [e] at h; simp at h
  · rw [e]
    have hL : (initTableau P).nr - 1 = P.m + P.k := rfl
    have hnm : (initTableau P).nc - ((initTableau P).nr - 1 + 1) = P.n + P.m := by
      show P.n + P.m + (P.m + P.k) + 1 - (P.m + P.k + 1 - 1 + 1) = P.n + P.m
      omega
    rw [hnm, hL]
    set r := solveTableau (tol0 : Tol K) false fuel (initTableau P) (initBasis P) with hr
    have hL' : r.T.nr - 1 = P.m + P.k := by rw [hinv.shape.1]; rfl
    have hN' : r.T.nc - 1 = P.n + P.m + (P.m + P.k) := by rw [hinv.shape.2]; rfl
    rw [hL', hN'] at h2
    have hle : r.T.get (P.m + P.k) (P.n + P.m + (P.m + P.k)) ≤ 0 := not_lt.mp h2
    have hz := phase1_art_zero P r.T r.basis hinv hle
    have h0 : Inv1 (initTableau P) (P.m + P.k) (P.n + P.m + (P.m + P.k)) (P.n + P.m) 0 r.T r.basis :=
      ⟨hinv.shape, hinv.canon, hinv.rhs, hinv.sol,
        fun i hi hai => ⟨hz i hi hai, fun h => absurd h (Nat.not_lt_zero _)⟩⟩
    exact cleanup_inv (initTableau P) _ _ _ r (by omega) h0 (P.m + P.k) (le_refl _)

end QE.C04
