/-
  Lemmas for C16, part 1: comb_jit, chooseFast, chooseNat, numCompositions.
-/
import Mathlib.Data.Nat.Choose.Basic
import Mathlib.Tactic.Ring
import Mathlib.Tactic.Linarith
import QEModel.C16
namespace QE.C16

theorem intpMax_pos : 0 < intpMax := by decide

/-- the overflow test of `comb_jit`: `val > INTP_MAX // d` iff the product `val*d` exceeds
    `INTP_MAX` (for `d > 0`). -/
theorem overflow_test_iff (val d : Int) (hd : 0 < d) :
    val > intpMax / d ↔ intpMax < val * d := by
  show intpMax / d < val ↔ _
  exact Int.ediv_lt_iff_lt_mul hd

/-- the exact update `val*(N-j)/(j+1)` maps `C(N,j)` to `C(N,j+1)` -/
theorem choose_step (N j : Nat) :
    Nat.choose N j * (N - j) / (j + 1) = Nat.choose N (j + 1) := by
  rw [← Nat.choose_succ_right_eq]
  exact Nat.mul_div_cancel _ (Nat.succ_pos j)

theorem choose_step_int (N j : Nat) (hj : j ≤ N) :
    (Nat.choose N j : Int) * (((N : Int) + 1) - ((j + 1 : Nat) : Int)) / ((j + 1 : Nat) : Int)
      = (Nat.choose N (j + 1) : Int) := by
  have h1 : ((N : Int) + 1) - ((j + 1 : Nat) : Int) = ((N - j : Nat) : Int) := by
    rw [Int.natCast_sub hj]; push_cast; ring
  rw [h1, ← Int.natCast_mul, ← Int.natCast_div, choose_step]

/-- The product formed in iteration `j+1` of the loop of `comb_jit N _` (as an integer). -/
def combProd (N j : Nat) : Int := (Nat.choose N j : Int) * ((N : Int) - (j : Int))

/-- Loop of `comb_jit`, no overflow: starting iteration `j+1` with `val = C(N,j)` and `rem`
    iterations to go, the result is `C(N, j+rem)` provided none of the products overflows. -/
theorem combLoop_ok (N : Nat) : ∀ (rem j : Nat), j + rem ≤ N →
    (∀ i, j ≤ i → i < j + rem → combProd N i ≤ intpMax) →
    combLoop ((N : Int) + 1) rem (j + 1) (Nat.choose N j) = (Nat.choose N (j + rem) : Int) := by
  intro rem
  induction rem with
  | zero => intro j _ _; simp [combLoop]
  | succ rem ih =>
    intro j hj hall
    have hjN : j < N := by omega
    have hd : (0 : Int) < ((N : Int) + 1) - ((j + 1 : Nat) : Int) := by push_cast; omega
    have hno : ¬ ((Nat.choose N j : Int) > intpMax / (((N : Int) + 1) - ((j + 1 : Nat) : Int))) := by
      rw [overflow_test_iff _ _ hd]
      have := hall j (Nat.le_refl _) (by omega)
      unfold combProd at this
      have e : ((N : Int) + 1) - ((j + 1 : Nat) : Int) = (N : Int) - (j : Int) := by
        push_cast; ring
      rw [e]; omega
    rw [combLoop, if_neg hno, choose_step_int N j (by omega)]
    have := ih (j + 1) (by omega) (fun i h1 h2 => hall i (by omega) (by omega))
    rw [this]; congr 2; omega

/-- Loop of `comb_jit`, overflow: if one of the products exceeds `INTP_MAX` the result is 0. -/
theorem combLoop_overflow (N : Nat) : ∀ (rem j : Nat), j + rem ≤ N →
    (∃ i, j ≤ i ∧ i < j + rem ∧ intpMax < combProd N i) →
    combLoop ((N : Int) + 1) rem (j + 1) (Nat.choose N j) = 0 := by
  intro rem
  induction rem with
  | zero => intro j _ ⟨i, h1, h2, _⟩; omega
  | succ rem ih =>
    intro j hj ⟨i, h1, h2, h3⟩
    have hd : (0 : Int) < ((N : Int) + 1) - ((j + 1 : Nat) : Int) := by push_cast; omega
    have e : ((N : Int) + 1) - ((j + 1 : Nat) : Int) = (N : Int) - (j : Int) := by
      push_cast; ring
    rw [combLoop]
    by_cases hov : (Nat.choose N j : Int) > intpMax / (((N : Int) + 1) - ((j + 1 : Nat) : Int))
    · rw [if_pos hov]
    · rw [if_neg hov, choose_step_int N j (by omega)]
      apply ih (j + 1) (by omega)
      refine ⟨i, ?_, by omega, h3⟩
      rcases Nat.lt_or_ge j i with h | h
      · exact h
      · exfalso
        have hij : i = j := by omega
        subst hij
        apply hov
        rw [overflow_test_iff _ _ hd, e]
        exact h3


/-! ### comb_jit: the top-level case split -/

theorem min_cast (k N : Nat) (hk : k ≤ N) :
    min (k : Int) ((N : Int) - (k : Int)) = ((min k (N - k) : Nat) : Int) := by
  rw [← Int.natCast_sub hk]; omega

/-- `combJit` in terms of `t = min k (N-k)` -/
theorem combJit_unfold (N k : Nat) (hk : k ≤ N) :
    combJit N k =
      if min k (N - k) = 0 then 1
      else if min k (N - k) = 1 then (N : Int)
      else if (N : Int) = intpMax then 0
      else combLoop ((N : Int) + 1) (min k (N - k)) 1 1 := by
  unfold combJit
  have h0 : ¬ ((N : Int) < 0 ∨ (k : Int) < 0 ∨ (k : Int) > N) := by omega
  rw [if_neg h0]
  show (if min (k : Int) ((N : Int) - k) = 0 then (1 : Int) else _) = _
  rw [min_cast k N hk]
  simp only [Int.toNat_natCast]
  norm_cast

theorem choose_min (N k : Nat) (hk : k ≤ N) : Nat.choose N (min k (N - k)) = Nat.choose N k := by
  rcases Nat.le_total k (N - k) with h1 | h1
  · rw [Nat.min_eq_left h1]
  · rw [Nat.min_eq_right h1, Nat.choose_symm hk]

/-! ### the Int model is the int64 computation -/

theorem wrap64_id (x : Int) (h0 : -(2 ^ 63) ≤ x) (h1 : x ≤ intpMax) : wrap64 x = x := by
  unfold wrap64
  unfold intpMax at h1
  rw [Int.emod_eq_of_lt (by omega) (by omega)]; omega

theorem combLoopW_eq (Mv : Int) (hM : Mv ≤ intpMax) : ∀ (rem j : Nat) (val : Int),
    1 ≤ j → (j : Int) + rem ≤ Mv → 0 ≤ val → val ≤ intpMax →
    combLoopW Mv rem j val = combLoop Mv rem j val := by
  intro rem
  induction rem with
  | zero => intro j val _ _ _ _; simp [combLoopW, combLoop]
  | succ rem ih =>
    intro j val hj hjr hv0 hv1
    have hd : 0 < Mv - (j : Int) := by push_cast at hjr; omega
    have hdM : Mv - (j : Int) ≤ intpMax := by omega
    have hwd : wrap64 (Mv - (j : Int)) = Mv - (j : Int) := wrap64_id _ (by omega) hdM
    rw [combLoopW, combLoop, hwd]
    by_cases hov : val > intpMax / (Mv - (j : Int))
    · rw [if_pos hov, if_pos hov]
    · rw [if_neg hov, if_neg hov]
      have hp : val * (Mv - (j : Int)) ≤ intpMax := by
        have := (overflow_test_iff val _ hd).not.mp hov
        omega
      have hp0 : 0 ≤ val * (Mv - (j : Int)) := Int.mul_nonneg hv0 (Int.le_of_lt hd)
      have hj0 : (0 : Int) < (j : Int) := by omega
      have hq0 : 0 ≤ val * (Mv - (j : Int)) / (j : Int) := Int.ediv_nonneg hp0 (Int.le_of_lt hj0)
      have hq1 : val * (Mv - (j : Int)) / (j : Int) ≤ intpMax :=
        Int.le_trans (Int.ediv_le_self _ hp0) hp
      rw [wrap64_id _ (by omega) hp, wrap64_id _ (by omega) hq1]
      exact ih (j + 1) _ (by omega) (by push_cast at hjr ⊢; omega) hq0 hq1

/-! ### chooseFast / chooseNat / numCompositions -/

theorem chooseFast_fold (n : Nat) : ∀ t, t ≤ n →
    (List.range t).foldl (fun acc j => acc * (n - j) / (j + 1)) 1 = Nat.choose n t := by
  intro t
  induction t with
  | zero => intro _; simp
  | succ t ih =>
    intro ht
    rw [List.range_succ, List.foldl_append, ih (by omega)]
    simp only [List.foldl_cons, List.foldl_nil]
    exact choose_step n t

theorem chooseFast_eq_choose (n k : Nat) : chooseFast n k = Nat.choose n k := by
  unfold chooseFast
  by_cases h : k > n
  · simp [h, Nat.choose_eq_zero_of_lt h]
  · rw [if_neg h]
    have hk : k ≤ n := by omega
    show (List.range (min k (n - k))).foldl _ 1 = _
    rw [chooseFast_fold n _ (by omega)]
    rcases Nat.le_total k (n - k) with h1 | h1
    · rw [Nat.min_eq_left h1]
    · rw [Nat.min_eq_right h1, Nat.choose_symm hk]

theorem chooseNat_eq_choose : ∀ n k, chooseNat n k = Nat.choose n k
  | _, 0 => by simp [chooseNat]
  | 0, k + 1 => by simp [chooseNat]
  | n + 1, k + 1 => by
    rw [chooseNat, chooseNat_eq_choose n k, chooseNat_eq_choose n (k + 1), Nat.choose_succ_succ]

end QE.C16
