/-
  Lemmas for C18, part 1: the pool-swap loop of `_sample_without_replacement`.
-/
import Mathlib.Data.List.Nodup
import Mathlib.Data.List.Range
import QEModel.C18
namespace QE.C18

theorem getD_set_nat (l : List Nat) (i j a : Nat) (hi : i < l.length) :
    (l.set i a).getD j 0 = if j = i then a else l.getD j 0 := by
  rw [List.getD_eq_getElem?_getD, List.getD_eq_getElem?_getD, List.getElem?_set]
  by_cases h : i = j
  · subst h; simp [hi]
  · have h' : ¬ j = i := fun e => h e.symm
    simp [h, h']

theorem getD_range (n t : Nat) (h : t < n) : (List.range n).getD t 0 = t := by
  rw [List.getD_eq_getElem?_getD]
  simp [h]

/-- Invariant of the pool before iteration `j` (`L = n - j` live entries): the live prefix
    has pairwise distinct entries, all below `n`. -/
def PoolInv (n L : Nat) (pool : List Nat) : Prop :=
  pool.length = n ∧ L ≤ n ∧ (∀ t, t < L → pool.getD t 0 < n) ∧
  (∀ t1 t2, t1 < L → t2 < L → pool.getD t1 0 = pool.getD t2 0 → t1 = t2)

theorem poolInv_range (n : Nat) : PoolInv n n (List.range n) := by
  refine ⟨by simp, Nat.le_refl _, ?_, ?_⟩
  · intro t ht; rw [getD_range n t ht]; exact ht
  · intro t1 t2 h1 h2 h
    rw [getD_range n t1 h1, getD_range n t2 h2] at h; exact h

/-- one iteration preserves the invariant (with one live entry fewer) -/
theorem poolInv_step (n L : Nat) (pool : List Nat) (idx : Nat) (hL : 0 < L) (hidx : idx < L)
    (h : PoolInv n L pool) :
    PoolInv n (L - 1) (pool.set idx (pool.getD (L - 1) 0)) := by
  obtain ⟨hlen, hLn, hlt, hinj⟩ := h
  have hil : idx < pool.length := by omega
  refine ⟨by simp [hlen], by omega, ?_, ?_⟩
  · intro t ht
    rw [getD_set_nat _ _ _ _ hil]
    split
    · exact hlt (L - 1) (by omega)
    · exact hlt t (by omega)
  · intro t1 t2 h1 h2
    rw [getD_set_nat _ _ _ _ hil, getD_set_nat _ _ _ _ hil]
    by_cases e1 : t1 = idx <;> by_cases e2 : t2 = idx
    · intro _; omega
    · rw [if_pos e1, if_neg e2]
      intro h
      have := hinj (L - 1) t2 (by omega) (by omega) h
      omega
    · rw [if_neg e1, if_pos e2]
      intro h
      have := hinj t1 (L - 1) (by omega) (by omega) h
      omega
    · rw [if_neg e1, if_neg e2]
      exact hinj t1 t2 (by omega) (by omega)

/-- every live entry of the pool after the step is a live entry before it, different from
    the one just output -/
theorem pool_step_mem (n L : Nat) (pool : List Nat) (idx : Nat) (hL : 0 < L) (hidx : idx < L)
    (h : PoolInv n L pool) (t : Nat) (ht : t < L - 1) :
    ∃ t', t' < L ∧ t' ≠ idx ∧ (pool.set idx (pool.getD (L - 1) 0)).getD t 0 = pool.getD t' 0 := by
  obtain ⟨hlen, hLn, _, _⟩ := h
  have hil : idx < pool.length := by omega
  rw [getD_set_nat _ _ _ _ hil]
  by_cases e : t = idx
  · exact ⟨L - 1, by omega, by omega, by rw [if_pos e]⟩
  · exact ⟨t, by omega, e, by rw [if_neg e]⟩

theorem swrLoop_length (n : Nat) : ∀ (idxs : List Nat) (j : Nat) (pool : List Nat),
    (swrLoop n j pool idxs).length = idxs.length := by
  intro idxs
  induction idxs with
  | nil => intro j pool; simp [swrLoop]
  | cons idx rest ih => intro j pool; simp [swrLoop, ih]

/-- **Loop invariant of the sampler.** Started at iteration `j` with a pool whose `n-j` live
    entries are distinct and `< n`, with indices `idx_t < n-(j+t)`, the outputs are pairwise
    distinct live entries of the pool. -/
theorem swrLoop_spec (n : Nat) : ∀ (idxs : List Nat) (j : Nat) (pool : List Nat),
    PoolInv n (n - j) pool → j + idxs.length ≤ n →
    (∀ t (h : t < idxs.length), idxs[t] < n - (j + t)) →
    (swrLoop n j pool idxs).Nodup ∧
      ∀ x ∈ swrLoop n j pool idxs, ∃ t, t < n - j ∧ pool.getD t 0 = x := by
  intro idxs
  induction idxs with
  | nil => intro j pool _ _ _; simp [swrLoop]
  | cons idx rest ih =>
    intro j pool hinv hlen hidx
    have hL : 0 < n - j := by simp at hlen; omega
    have hi : idx < n - j := by
      have := hidx 0 (by simp)
      simp only [List.getElem_cons_zero, Nat.add_zero] at this; exact this
    have hinv' : PoolInv n (n - (j + 1)) (pool.set idx (pool.getD (n - j - 1) 0)) := by
      have := poolInv_step n (n - j) pool idx hL hi hinv
      rwa [show n - j - 1 = n - (j + 1) from by omega] at this ⊢
    have hrec := ih (j + 1) _ hinv' (by simp at hlen; omega) (by
      intro t ht
      have := hidx (t + 1) (by simp; omega)
      simp only [List.getElem_cons_succ] at this
      rw [show n - (j + 1 + t) = n - (j + (t + 1)) from by omega]; exact this)
    obtain ⟨hnd, hmem⟩ := hrec
    -- every later output is a live entry of the old pool at a position ≠ idx
    have hmem' : ∀ x ∈ swrLoop n (j + 1) (pool.set idx (pool.getD (n - j - 1) 0)) rest,
        ∃ t', t' < n - j ∧ t' ≠ idx ∧ pool.getD t' 0 = x := by
      intro x hx
      obtain ⟨t, ht, hxt⟩ := hmem x hx
      obtain ⟨t', h1, h2, h3⟩ := pool_step_mem n (n - j) pool idx hL hi hinv t (by omega)
      exact ⟨t', h1, h2, by rw [← h3]; exact hxt⟩
    constructor
    · show (pool.getD idx 0 :: swrLoop n (j + 1) _ rest).Nodup
      rw [List.nodup_cons]
      refine ⟨?_, hnd⟩
      intro hin
      obtain ⟨t', h1, h2, h3⟩ := hmem' _ hin
      exact h2 (hinv.2.2.2 t' idx h1 hi h3)
    · intro x hx
      have hx' : x = pool.getD idx 0 ∨ x ∈ swrLoop n (j + 1) (pool.set idx (pool.getD (n - j - 1) 0)) rest := by
        simpa [swrLoop] using hx
      rcases hx' with rfl | hx'
      · exact ⟨idx, hi, rfl⟩
      · obtain ⟨t', h1, _, h3⟩ := hmem' x hx'
        exact ⟨t', h1, h3⟩

/-! ### every arrangement is reached by exactly one index stream -/

/-- every live entry other than the one just output stays live after the step -/
theorem pool_step_mem' (n L : Nat) (pool : List Nat) (idx : Nat) (hL : 0 < L) (hidx : idx < L)
    (h : PoolInv n L pool) (t' : Nat) (ht' : t' < L) (hne : t' ≠ idx) :
    ∃ t, t < L - 1 ∧ (pool.set idx (pool.getD (L - 1) 0)).getD t 0 = pool.getD t' 0 := by
  obtain ⟨hlen, hLn, _, _⟩ := h
  have hil : idx < pool.length := by omega
  by_cases hlast : t' = L - 1
  · refine ⟨idx, by omega, ?_⟩
    rw [getD_set_nat _ _ _ _ hil, if_pos rfl, hlast]
  · refine ⟨t', by omega, ?_⟩
    rw [getD_set_nat _ _ _ _ hil, if_neg hne]

/-- **Surjectivity of the loop.** Every duplicate-free list of live pool entries is the output of
    some index stream that satisfies the guard. -/
theorem swrLoop_surj (n : Nat) : ∀ (out : List Nat) (j : Nat) (pool : List Nat),
    PoolInv n (n - j) pool → j + out.length ≤ n → out.Nodup →
    (∀ x ∈ out, ∃ t, t < n - j ∧ pool.getD t 0 = x) →
    ∃ idxs : List Nat, idxs.length = out.length ∧
      (∀ t (h : t < idxs.length), idxs[t] < n - (j + t)) ∧ swrLoop n j pool idxs = out := by
  intro out
  induction out with
  | nil => intro j pool _ _ _ _; exact ⟨[], rfl, by intro t h; simp at h, rfl⟩
  | cons x rest ih =>
    intro j pool hinv hlen hnd hmem
    have hL : 0 < n - j := by simp at hlen; omega
    obtain ⟨idx, hi, hx⟩ := hmem x (by simp)
    have hinv' : PoolInv n (n - (j + 1)) (pool.set idx (pool.getD (n - j - 1) 0)) := by
      have := poolInv_step n (n - j) pool idx hL hi hinv
      rwa [show n - j - 1 = n - (j + 1) from by omega] at this ⊢
    have hnd' := (List.nodup_cons.1 hnd).2
    have hxn : x ∉ rest := (List.nodup_cons.1 hnd).1
    obtain ⟨idxs, hl, hg, he⟩ := ih (j + 1) _ hinv' (by simp at hlen; omega) hnd' (by
      intro y hy
      obtain ⟨t', ht', hyt⟩ := hmem y (List.mem_cons_of_mem _ hy)
      have hne : t' ≠ idx := by
        intro e; subst e; rw [hx] at hyt; exact hxn (hyt ▸ hy)
      obtain ⟨t, ht, htt⟩ := pool_step_mem' n (n - j) pool idx hL hi hinv t' ht' hne
      exact ⟨t, by omega, by rw [htt]; exact hyt⟩)
    refine ⟨idx :: idxs, by simp [hl], ?_, ?_⟩
    · intro t ht
      cases t with
      | zero => simpa using hi
      | succ t =>
        simp only [List.getElem_cons_succ]
        have := hg t (by simpa using ht)
        rw [show n - (j + (t + 1)) = n - (j + 1 + t) from by omega]; exact this
    · show pool.getD idx 0 :: swrLoop n (j + 1) _ idxs = x :: rest
      rw [he, hx]

/-- **Injectivity of the loop.** Two index streams that satisfy the guard and give the same output
    are equal. -/
theorem swrLoop_inj (n : Nat) : ∀ (a b : List Nat) (j : Nat) (pool : List Nat),
    PoolInv n (n - j) pool → a.length = b.length → j + a.length ≤ n →
    (∀ t (h : t < a.length), a[t] < n - (j + t)) → (∀ t (h : t < b.length), b[t] < n - (j + t)) →
    swrLoop n j pool a = swrLoop n j pool b → a = b := by
  intro a
  induction a with
  | nil => intro b j pool _ hl _ _ _ _; cases b with
    | nil => rfl
    | cons _ _ => simp at hl
  | cons x a ih =>
    intro b j pool hinv hl hlen ha hb he
    cases b with
    | nil => simp at hl
    | cons y b =>
      have hL : 0 < n - j := by simp at hlen; omega
      have hx : x < n - j := by have := ha 0 (by simp); simpa using this
      have hy : y < n - j := by have := hb 0 (by simp); simpa using this
      have he' : pool.getD x 0 = pool.getD y 0 ∧
          swrLoop n (j + 1) (pool.set x (pool.getD (n - j - 1) 0)) a
            = swrLoop n (j + 1) (pool.set y (pool.getD (n - j - 1) 0)) b := by
        simpa [swrLoop] using he
      have hxy : x = y := hinv.2.2.2 x y hx hy he'.1
      subst hxy
      have hinv' : PoolInv n (n - (j + 1)) (pool.set x (pool.getD (n - j - 1) 0)) := by
        have := poolInv_step n (n - j) pool x hL hx hinv
        rwa [show n - j - 1 = n - (j + 1) from by omega] at this ⊢
      have := ih b (j + 1) _ hinv' (by simpa using hl) (by simp at hlen; omega)
        (by intro t ht
            have := ha (t + 1) (by simp; omega)
            simp only [List.getElem_cons_succ] at this
            rw [show n - (j + 1 + t) = n - (j + (t + 1)) from by omega]; exact this)
        (by intro t ht
            have := hb (t + 1) (by simp; omega)
            simp only [List.getElem_cons_succ] at this
            rw [show n - (j + 1 + t) = n - (j + (t + 1)) from by omega]; exact this)
        he'.2
      rw [this]

end QE.C18
