/-
  Lemmas for property C05 (Lemke-Howson): a converged run of `_lemke_howson_tbl` (tolerances 0)
  does not end at the artificial equilibrium: the returned `x` is not the zero vector.
-/
import QEProofs.Lemmas.C05Art

namespace QE.C05
open QE QE.Pivot Finset

set_option linter.unusedSectionVars false
set_option linter.unusedVariables false
variable {K : Type} [Field K] [LinearOrder K] [IsStrictOrderedRing K]

theorem lhTbl_nonzero (m n : ℕ) (hm : 1 ≤ m) (hn : 1 ≤ n) (A B : ℕ → ℕ → K) (ip maxIter : ℕ)
    (hip : ip < m + n) (hconv : (lhTbl m n A B ip maxIter 0 0).1 = true) :
    basicSum (lhTbl m n A B ip maxIter 0 0).2.T0 (lhTbl m n A B ip maxIter 0 0).2.b0 0 m ≠ 0 := by
  obtain ⟨_, hlabT⟩ := lhTbl_inv m n hm hn A B ip maxIter hip
  have hlab := hlabT hconv
  intro hx0
  unfold lhTbl at hconv hlab hx0
  dsimp only at hconv hlab hx0
  -- the initial state and the player who moves first
  have hlab0 : ∀ k, k ≠ ip → ¬ InB (lhInit m n A B ip).b0 k ∨ ¬ InB (lhInit m n A B ip).b1 k := by
    intro k _
    by_cases hk : k < m
    · left; intro h; have := inB_b0 m n k h; omega
    · right; intro h; have := inB_b1 m k h; omega
  have hfull := lhInit_full m n A B ip
  -- generic conclusion for either first player
  have main : ∀ pl0, (pl0 = 0 ∨ pl0 = 1) → LHLab ip (lhInit m n A B ip) pl0 →
      (if pl0 = 0 then InB (lhInit m n A B ip).b1 (lhInit m n A B ip).pivot
        else InB (lhInit m n A B ip).b0 (lhInit m n A B ip).pivot) →
      (lhLoop m ip (0 : K) 0 (maxIter - 1) (lhInit m n A B ip) pl0).1 = true →
      (∀ k, ¬ InB (lhLoop m ip (0 : K) 0 (maxIter - 1) (lhInit m n A B ip) pl0).2.b0 k ∨
        ¬ InB (lhLoop m ip (0 : K) 0 (maxIter - 1) (lhInit m n A B ip) pl0).2.b1 k) →
      basicSum (lhLoop m ip (0 : K) 0 (maxIter - 1) (lhInit m n A B ip) pl0).2.T0
        (lhLoop m ip (0 : K) 0 (maxIter - 1) (lhInit m n A B ip) pl0).2.b0 0 m = 0 → False := by
    intro pl0 hpl0 hl0 hoth0 hc hl hx
    obtain ⟨T, hT, hst, hcv, hnc⟩ := lhLoop_iter m ip (maxIter - 1) (lhInit m n A B ip) pl0
    rw [hst] at hl hx
    obtain ⟨fT, _, _⟩ := iter_full m n hm hn A B (lhInit m n A B ip) pl0 hpl0 hfull hip T
    have hsim := art_ssim m n hm hn A B ip _ fT hl (hcv hc) hx
    exact no_return m n hm hn A B ip (lhInit m n A B ip) pl0 hpl0 hfull hip hl0 hoth0 T hT hnc hsim
  by_cases hc : (lhInit m n A B ip).b0.contains ip = true
  · rw [if_pos hc] at hconv hlab hx0
    have hmem : ip ∈ (lhInit m n A B ip).b0 := by simpa using hc
    have hin := inB_of_mem _ _ hmem
    have hge := inB_b0 m n ip hin
    refine main 1 (Or.inr rfl) ⟨hlab0, ?_, Or.inl rfl⟩ ?_ hconv hlab hx0
    · rw [if_neg (by omega)]
      intro h
      have := inB_b1 m ip h
      omega
    · rw [if_neg (by omega)]; exact hin
  · rw [if_neg hc] at hconv hlab hx0
    have hmem : ip ∉ (lhInit m n A B ip).b0 := by simpa using hc
    have hlt : ip < m := by
      by_contra hge
      apply hmem
      apply mem_of_inB
      exact ⟨ip - m, by show ip - m < ((List.range n).map (· + m)).length; simp; omega,
        by show ((List.range n).map (· + m)).getD (ip - m) 0 = ip
           rw [b0_getD m n (ip - m) (by omega)]; omega⟩
    refine main 0 (Or.inl rfl) ⟨hlab0, ?_, Or.inl rfl⟩ ?_ hconv hlab hx0
    · rw [if_pos rfl]
      intro h
      exact hmem (mem_of_inB _ _ h)
    · rw [if_pos rfl]
      exact ⟨ip, by show ip < (List.range m).length; simpa using hlt,
        by show (List.range m).getD ip 0 = ip; exact b1_getD m ip hlt⟩

end QE.C05
