/-
  Lemmas for C10, part 8: what the constructor's checks give (exact arithmetic).
-/
import Mathlib.Order.Defs.LinearOrder
import Mathlib.Algebra.Order.Ring.Rat
import QEModel.C10
namespace QE.C10

theorem rsum_eq_zero (l : List Rat) (h : ∀ x ∈ l, x = 0) : rsum l = 0 := by
  induction l with
  | nil => rfl
  | cons x xs ih =>
    simp only [rsum]
    rw [h x (by simp), ih (fun y hy => h y (by simp [hy]))]
    simp

theorem closeToOne_zero : closeToOne 0 = false := by decide +kernel

/-- the constructor accepts exactly the square nonnegative matrices whose rows sum to one within
    `np.allclose`'s tolerance -/
theorem acceptChain_ok_iff (P : List (List Rat)) :
    acceptChain P = .ok () ↔
      (∀ r ∈ P, r.length = P.length) ∧ (∀ r ∈ P, ∀ x ∈ r, (0 : Rat) ≤ x) ∧
      (∀ r ∈ P, closeToOne (rsum r) = true) := by
  unfold acceptChain
  by_cases h1 : (P.all fun r => r.length == P.length) = true
  · by_cases h2 : (P.all fun r => r.all fun x => decide (0 ≤ x)) = true
    · by_cases h3 : (P.all fun r => closeToOne (rsum r)) = true
      · simp only [h1, h2, h3, Bool.not_true, Bool.false_eq_true, if_false, true_iff]
        refine ⟨?_, ?_, ?_⟩
        · intro r hr; simpa using (List.all_eq_true.mp h1) r hr
        · intro r hr x hx
          have := (List.all_eq_true.mp h2) r hr
          simpa using (List.all_eq_true.mp this) x hx
        · intro r hr; exact (List.all_eq_true.mp h3) r hr
      · simp only [h1, h2, h3, Bool.not_true, Bool.false_eq_true, if_false, Bool.not_false, if_true]
        constructor
        · intro h; cases h
        · rintro ⟨_, _, h⟩
          exact absurd (List.all_eq_true.mpr h) h3
    · simp only [h1, h2, Bool.not_true, Bool.false_eq_true, if_false, Bool.not_false, if_true]
      constructor
      · intro h; cases h
      · rintro ⟨_, h, _⟩
        apply absurd _ h2
        rw [List.all_eq_true]; intro r hr
        rw [List.all_eq_true]; intro x hx
        simpa using h r hr x hx
  · simp only [h1, Bool.not_false, if_true]
    constructor
    · intro h; cases h
    · rintro ⟨h, _, _⟩
      apply absurd _ h1
      rw [List.all_eq_true]; intro r hr
      simpa using h r hr

/-- an accepted row has a positive entry (an all-zero row sums to 0, which is not close to 1) -/
theorem accepted_row_has_pos (P : List (List Rat)) (h : acceptChain P = .ok ()) :
    ∀ r ∈ P, ∃ x ∈ r, (0 : Rat) < x := by
  obtain ⟨_, h2, h3⟩ := (acceptChain_ok_iff P).mp h
  intro r hr
  by_contra hc
  have hz : ∀ x ∈ r, x = 0 := by
    intro x hx
    have h0 := h2 r hr x hx
    have : ¬ (0 : Rat) < x := fun hp => hc ⟨x, hx, hp⟩
    exact le_antisymm (not_lt.mp this) h0
  have := h3 r hr
  rw [rsum_eq_zero r hz, closeToOne_zero] at this
  exact Bool.noConfusion this

end QE.C10
