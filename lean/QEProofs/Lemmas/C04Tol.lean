/-
  C04 — what survives with the code's *positive* tolerances (exact arithmetic, any
  `fea_tol`, `tol_ratio_diff`, and `tol_piv ≥ 0`): every pivot element is `> tol_piv ≥ 0`,
  hence non-zero, so canonical form, the solution set of the rows and the objective are
  preserved along the whole run; at status 0 the basic solution is `fea_tol`-optimal.
-/
import QEProofs.Lemmas.C04Simplex
namespace QE.C04
open QE QE.Pivot Finset

variable {K : Type} [Field K] [LinearOrder K] [IsStrictOrderedRing K]

omit [IsStrictOrderedRing K] in
theorem step_data_tol (tol : Tol K) (hpiv : 0 ≤ tol.piv) (skip : Bool) (T : M K) (b : List ℕ)
    (T' : M K) (b' : List ℕ) (L N : ℕ) (hs : Shape T L N) (h : Step tol skip T b T' b') :
    ∃ c r, c < N - (if skip then L else 0) ∧ r < L ∧ 0 < T.get r c ∧
      T' = pivot T c r ∧ b' = b.set r c := by
  obtain ⟨hnr, hnc⟩ := hs
  obtain ⟨c, hpc, hf, hT, hb⟩ := h
  have hL : T.nr - 1 = L := by rw [hnr]; rfl
  have hN : T.nc - 1 = N := by rw [hnc]; rfl
  obtain ⟨h1, _, _⟩ := pivotCol_some T skip tol.fea c hpc
  rw [hL, hN] at h1
  obtain ⟨g1, g2⟩ := lexMinRatio_found_pos (dropLast T) c _ tol.piv tol.diff hf
  have hL' : (dropLast T).nr = L := hL
  exact ⟨c, _, h1, lt_of_lt_of_eq g1 hL', lt_of_le_of_lt hpiv g2, hT, hb⟩

/-- the tolerance-independent part of the loop invariant -/
structure InvT (T0 : M K) (L N : ℕ) (T : M K) (b : List ℕ) : Prop where
  shape : Shape T L N
  canon : Canon T b L N
  sol : ∀ z, RowsSat T z L ↔ RowsSat T0 z L
  obj : ∀ z, RowsSat T z L → resid T z L = resid T0 z L

omit [IsStrictOrderedRing K] in
theorem solveTableau_invT (tol : Tol K) (hpiv : 0 ≤ tol.piv) (skip : Bool) (fuel : ℕ) (T0 : M K)
    (b0 : List ℕ) (L N : ℕ) (hs : Shape T0 L N) (hc : Canon T0 b0 L N) :
    InvT T0 L N (solveTableau tol skip fuel T0 b0).T (solveTableau tol skip fuel T0 b0).basis := by
  apply solveTableau_induct tol skip (InvT T0 L N)
  · intro T b T' b' h hst
    obtain ⟨c, r, hc', hr, hp, hT, hb⟩ := step_data_tol tol hpiv skip T b T' b' L N h.shape hst
    subst hT hb
    exact ⟨shape_pivot T L N c r h.shape,
      canon_pivot T b L N c r h.shape h.canon (by omega) hr (ne_of_gt hp),
      solset_pivot T T0 L N c r h.shape hr (ne_of_gt hp) h.sol,
      obj_pivot T T0 L N c r h.shape hr (ne_of_gt hp) h.obj⟩
  · exact ⟨hs, hc, fun _ => Iff.rfl, fun _ _ => rfl⟩

/-- `fea_tol`-optimality at status 0 with arbitrary tolerances (`skip_aux = False` form): the
    basic solution satisfies the initial rows exactly, has objective `−T[L,N]`, and every
    non-negative solution `z` of the initial rows has objective at most
    `−T[L,N] + fea_tol · Σ_j z_j` -/
theorem solveTableau_status0_tol (tol : Tol K) (hpiv : 0 ≤ tol.piv) (fuel : ℕ) (T0 : M K)
    (b0 : List ℕ) (L N : ℕ) (hs : Shape T0 L N) (hc : Canon T0 b0 L N)
    (h0 : (solveTableau tol false fuel T0 b0).status = 0) :
    let r := solveTableau tol false fuel T0 b0
    RowsSat T0 (bsol r.T r.basis L N) L ∧ resid T0 (bsol r.T r.basis L N) L = - r.T.get L N ∧
    ∀ z : ℕ → K, (∀ j, j < N → 0 ≤ z j) → RowsSat T0 z L →
      resid T0 z L ≤ - r.T.get L N + tol.fea * ∑ j ∈ range N, z j := by
  intro r
  have hinv := solveTableau_invT tol hpiv false fuel T0 b0 L N hs hc
  have hpc := solveTableau_status0 tol false fuel T0 b0 h0
  have hL : r.T.nr - 1 = L := by rw [hinv.shape.1]; rfl
  have hN : r.T.nc - 1 = N := by rw [hinv.shape.2]; rfl
  have hsat := bsol_rowsSat r.T r.basis L N hinv.shape hinv.canon
  refine ⟨(hinv.sol _).mp hsat, by rw [← hinv.obj _ hsat]; exact bsol_obj r.T r.basis L N hinv.shape hinv.canon, ?_⟩
  intro z hz hrows
  have hrowsT := (hinv.sol z).mpr hrows
  rw [← hinv.obj z hrowsT]
  unfold resid
  rw [hN]
  have : ∑ j ∈ range N, r.T.get L j * z j ≤ ∑ j ∈ range N, tol.fea * z j := by
    apply Finset.sum_le_sum
    intro j hj
    have hj' := Finset.mem_range.mp hj
    have hle := pivotCol_none r.T false tol.fea hpc j
    rw [hL, hN] at hle
    exact mul_le_mul_of_nonneg_right (hle (by simpa using hj')) (hz j hj')
  rw [← Finset.mul_sum] at this
  linarith

end QE.C04
