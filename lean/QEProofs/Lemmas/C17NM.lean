/-
  Lemmas for C17: Nelder-Mead bookkeeping — `f_val` always holds the (negated, bounded) objective
  at the current vertices, and the simplex keeps its `n+1` rows. Pure list reasoning: valid for
  every scalar type, every objective, every bound list (no field axioms needed).
-/
import QEModel.C17
namespace QE.C17
set_option linter.unusedSectionVars false

section
variable {α : Type} [Zero α] [One α] [Add α] [Sub α] [Mul α] [Div α] [Neg α]
  [LT α] [LE α] [DecidableLT α] [DecidableLE α] [BEq α]

/-- the bookkeeping invariant: `f_val[i] = _neg_bounded_fun(vertices[i])` for every row -/
def NMOk (f : List α → α) (P : NMP α) (bounds : List (α × α)) (N : Nat) (s : NM α) : Prop :=
  s.fval = s.verts.map (negF f P.pinf bounds) ∧ s.verts.length = N

theorem shrink_fold_ok (F : List α → α) (g : List (List α) → Nat → List α) :
    ∀ (idx : List Nat) (vf : List (List α) × List α), vf.2 = vf.1.map F →
      let r := idx.foldl (fun (vf : List (List α) × List α) i =>
        (vf.1.set i (g vf.1 i), vf.2.set i (F (g vf.1 i)))) vf
      r.2 = r.1.map F ∧ r.1.length = vf.1.length := by
  intro idx
  induction idx with
  | nil => intro vf h; exact ⟨h, rfl⟩
  | cons i rest ih =>
    intro vf h
    simp only [List.foldl_cons]
    have := ih (vf.1.set i (g vf.1 i), vf.2.set i (F (g vf.1 i))) (by simp [h, List.map_set])
    simp only at this
    exact ⟨this.1, by rw [this.2]; simp⟩

theorem nmIter_ok (f : List α → α) (P : NMP α) (bounds : List (α × α)) (N : Nat) (s : NM α)
    (h : NMOk f P bounds N s) : NMOk f P bounds N (nmIter f P bounds s) := by
  obtain ⟨h1, h2⟩ := h
  unfold nmIter
  simp only
  split
  · next v fac _ => exact ⟨by simp [h1, List.map_set], by simp [h2]⟩
  · have := shrink_fold_ok (negF f P.pinf bounds)
      (fun vs i => vadd (vs.getD (s.sind.getD 0 0) [])
        (smul P.σ (vsub (vs.getD i []) (vs.getD (s.sind.getD 0 0) []))))
      (s.sind.drop 1) (s.verts, s.fval) h1
    simp only at this
    exact ⟨this.1, by rw [this.2]; exact h2⟩

theorem nmLoop_ok (f : List α → α) (P : NMP α) (bounds : List (α × α)) (N maxIter : Nat) :
    ∀ (fuel : Nat) (s : NM α), NMOk f P bounds N s →
      NMOk f P bounds N (nmLoop f P bounds maxIter fuel s).1 := by
  intro fuel
  induction fuel with
  | zero => intro s h; exact h
  | succ fuel ih =>
    intro s h
    unfold nmLoop
    simp only
    split
    · exact h
    · exact ih _ (nmIter_ok f P bounds N s h)

theorem nmInit_ok (f : List α → α) (P : NMP α) (bounds : List (α × α)) (verts : List (List α)) :
    NMOk f P bounds verts.length (nmInit f P bounds verts) := ⟨rfl, rfl⟩

theorem initSimplex_length (k105 zdelt : α) (x0 : List α) :
    (initSimplex k105 zdelt x0).length = x0.length + 1 := by
  simp [initSimplex]

theorem getD_map_of_lt {β γ : Type} (F : β → γ) (l : List β) (b : Nat) (d : γ) (d' : β)
    (hb : b < l.length) : (l.map F).getD b d = F (l.getD b d') := by
  simp [List.getD_eq_getElem?_getD, List.getElem?_eq_getElem hb]

end
end QE.C17
