/-
  Lemmas for C17: Nelder-Mead.
  Part 1 (any scalar type): `f_val` always holds the (negated, bounded) objective at the current
  vertices, the simplex keeps its `n+1` rows, `sort_ind` keeps `n+1` entries that are valid row
  numbers.
  Part 2 (ordered field): the value at `sort_ind[0]` never gets worse, `argsort` puts the first
  minimiser first, and `sort_ind` stays a duplicate-free list sorting `f_val` through every branch
  (insertion rule and the repaired stable shrink re-sort; the pre-repair rule is refuted by the
  witness `sort_ind_not_a_permutation_old_rule` in Properties/C17.lean).
-/
import Mathlib.Algebra.Order.Field.Basic
import Mathlib.Tactic.Linarith
import Mathlib.Tactic.Ring
import Mathlib.Data.List.Perm.Subperm
import Mathlib.Data.List.Nodup
import Mathlib.Data.List.Range
import QEModel.C17
namespace QE.C17
set_option linter.unusedSectionVars false

theorem getD_map_of_lt {β γ : Type} (F : β → γ) (l : List β) (b : Nat) (d : γ) (d' : β)
    (hb : b < l.length) : (l.map F).getD b d = F (l.getD b d') := by
  simp [List.getD_eq_getElem?_getD, List.getElem?_eq_getElem hb]

theorem getD_set_ne' {β : Type} (l : List β) (i j : Nat) (a d : β) (h : i ≠ j) :
    (l.set i a).getD j d = l.getD j d := by
  simp [List.getD_eq_getElem?_getD, List.getElem?_set_ne h]

theorem getD_set_self' {β : Type} (l : List β) (i : Nat) (a d : β) (h : i < l.length) :
    (l.set i a).getD i d = a := by
  simp [List.getD_eq_getElem?_getD, h]

theorem getD_mem {l : List Nat} {i : Nat} (h : i < l.length) : l.getD i 0 ∈ l := by
  simp [List.getD_eq_getElem?_getD, List.getElem?_eq_getElem h]

section generic
variable {α : Type} [Zero α] [One α] [Add α] [Sub α] [Mul α] [Div α] [Neg α]
  [LT α] [LE α] [DecidableLT α] [DecidableLE α] [BEq α]

/-! ### `f_val[i] = _neg_bounded_fun(vertices[i])` -/

def NMOk (f : List α → α) (P : NMP α) (bounds : List (α × α)) (N : Nat) (s : NM α) : Prop :=
  s.fval = s.verts.map (negF f P.pinf bounds) ∧ s.verts.length = N

theorem shrinkStep_ok (F : List α → α) (σ : α) (best : Nat) (vf : List (List α) × List α) (i : Nat)
    (h : vf.2 = vf.1.map F) :
    (shrinkStep F σ best vf i).2 = (shrinkStep F σ best vf i).1.map F ∧
    (shrinkStep F σ best vf i).1.length = vf.1.length := by
  unfold shrinkStep
  simp [h, List.map_set]

theorem shrinkFold_ok (F : List α → α) (σ : α) (best : Nat) :
    ∀ (idx : List Nat) (vf : List (List α) × List α), vf.2 = vf.1.map F →
      (idx.foldl (shrinkStep F σ best) vf).2 = (idx.foldl (shrinkStep F σ best) vf).1.map F ∧
      (idx.foldl (shrinkStep F σ best) vf).1.length = vf.1.length := by
  intro idx
  induction idx with
  | nil => intro vf h; exact ⟨h, rfl⟩
  | cons i rest ih =>
    intro vf h
    simp only [List.foldl_cons]
    have h1 := shrinkStep_ok F σ best vf i h
    have := ih _ h1.1
    exact ⟨this.1, by rw [this.2, h1.2]⟩

theorem nmReplace_ok (f : List α → α) (P : NMP α) (bounds : List (α × α)) (N : Nat) (s : NM α)
    (v : List α) (fac : α) (h : NMOk f P bounds N s) : NMOk f P bounds N (nmReplace f P bounds s v fac) := by
  obtain ⟨h1, h2⟩ := h
  exact ⟨by simp [nmReplace, h1, List.map_set], by simp [nmReplace, h2]⟩

theorem nmShrinkWith_ok (resort : List α → List Nat → List Nat) (f : List α → α) (P : NMP α)
    (bounds : List (α × α)) (N : Nat) (s : NM α)
    (h : NMOk f P bounds N s) : NMOk f P bounds N (nmShrinkWith resort f P bounds s) := by
  obtain ⟨h1, h2⟩ := h
  have := shrinkFold_ok (negF f P.pinf bounds) P.σ (s.sind.getD 0 0) (s.sind.drop 1) (s.verts, s.fval) h1
  exact ⟨this.1, by rw [← h2]; exact this.2⟩

theorem nmShrink_ok (f : List α → α) (P : NMP α) (bounds : List (α × α)) (N : Nat) (s : NM α)
    (h : NMOk f P bounds N s) : NMOk f P bounds N (nmShrink f P bounds s) :=
  nmShrinkWith_ok _ f P bounds N s h

theorem nmIter_ok (f : List α → α) (P : NMP α) (bounds : List (α × α)) (N : Nat) (s : NM α)
    (h : NMOk f P bounds N s) : NMOk f P bounds N (nmIter f P bounds s) := by
  unfold nmIter
  split
  · exact nmReplace_ok f P bounds N s _ _ h
  · exact nmShrink_ok f P bounds N s h

theorem nmInit_ok (f : List α → α) (P : NMP α) (bounds : List (α × α)) (verts : List (List α)) :
    NMOk f P bounds verts.length (nmInit f P bounds verts) := ⟨rfl, rfl⟩

theorem initSimplex_length (k105 zdelt : α) (x0 : List α) :
    (initSimplex k105 zdelt x0).length = x0.length + 1 := by
  simp [initSimplex]

/-! ### `sort_ind` keeps `n+1` valid row numbers -/

def SindOk (N : Nat) (s : NM α) : Prop := s.sind.length = N ∧ ∀ j ∈ s.sind, j < N

theorem insIdx_length (vals : List α) (i : Nat) : ∀ l : List Nat, (insIdx vals i l).length = l.length + 1 := by
  intro l
  induction l with
  | nil => simp [insIdx]
  | cons j rest ih => unfold insIdx; split <;> simp [ih]

theorem insIdx_mem (vals : List α) (i : Nat) : ∀ (l : List Nat) (k : Nat), k ∈ insIdx vals i l ↔ k = i ∨ k ∈ l := by
  intro l
  induction l with
  | nil => intro k; simp [insIdx]
  | cons j rest ih =>
    intro k; unfold insIdx; split
    · simp
    · simp [ih]; tauto

theorem argsortFold_spec (vals : List α) : ∀ (m : Nat) ,
    ((List.range m).foldl (fun acc i => insIdx vals i acc) []).length = m ∧
    ∀ k, k ∈ (List.range m).foldl (fun acc i => insIdx vals i acc) [] ↔ k < m := by
  intro m
  induction m with
  | zero => simp
  | succ m ih =>
    rw [List.range_succ, List.foldl_append]
    simp only [List.foldl_cons, List.foldl_nil]
    refine ⟨by rw [insIdx_length, ih.1], fun k => ?_⟩
    rw [insIdx_mem, ih.2]; omega

theorem argsort_length (vals : List α) : (argsort vals).length = vals.length :=
  (argsortFold_spec vals vals.length).1

theorem argsort_mem (vals : List α) (k : Nat) : k ∈ argsort vals ↔ k < vals.length :=
  (argsortFold_spec vals vals.length).2 k

theorem reinsertAux_length (p : Nat → Bool) (w : Nat) : ∀ l : List Nat, (reinsertAux p w l).length = l.length := by
  intro l
  induction l with
  | nil => rfl
  | cons j rest ih => unfold reinsertAux; split <;> simp [ih]

theorem reinsertAux_mem (p : Nat → Bool) (w : Nat) : ∀ (l : List Nat) (k : Nat), k ∈ reinsertAux p w l → k = w ∨ k ∈ l := by
  intro l
  induction l with
  | nil => intro k h; simp [reinsertAux] at h
  | cons j rest ih =>
    intro k h
    unfold reinsertAux at h
    split at h
    · rcases List.mem_cons.mp h with h | h
      · exact Or.inl h
      · exact Or.inr (List.dropLast_subset _ h)
    · rcases List.mem_cons.mp h with h | h
      · right; simp [h]
      · rcases ih k h with h | h
        · exact Or.inl h
        · right; simp [h]

theorem nmInit_sind (f : List α → α) (P : NMP α) (bounds : List (α × α)) (verts : List (List α)) :
    SindOk verts.length (nmInit f P bounds verts) := by
  refine ⟨by simp [nmInit, argsort_length], fun j hj => ?_⟩
  have := (argsort_mem _ j).mp hj
  simpa using this

theorem nmReplace_sind (f : List α → α) (P : NMP α) (bounds : List (α × α)) (N : Nat) (s : NM α)
    (v : List α) (fac : α) (hN : s.verts.length = N) (h1N : 1 ≤ N) (h : SindOk N s) :
    SindOk N (nmReplace f P bounds s v fac) := by
  obtain ⟨h1, h2⟩ := h
  refine ⟨by simp [nmReplace, reinsert, reinsertAux_length, h1], fun j hj => ?_⟩
  simp only [nmReplace, reinsert] at hj
  rcases reinsertAux_mem _ _ _ _ hj with hw | hw
  · rw [hw, hN]; exact h2 _ (getD_mem (by omega))
  · exact h2 _ hw

theorem shrinkResort_length (fval : List α) (sind : List Nat) :
    (shrinkResort fval sind).length = sind.length := by
  simp [shrinkResort, argsort_length]

theorem shrinkResort_mem (fval : List α) (sind : List Nat) (j : Nat) (hj : j ∈ shrinkResort fval sind) :
    j ∈ sind := by
  simp only [shrinkResort, List.mem_map] at hj
  obtain ⟨k, hk, rfl⟩ := hj
  have := (argsort_mem _ k).mp hk
  exact getD_mem (by simpa using this)

theorem nmShrink_sind (f : List α → α) (P : NMP α) (bounds : List (α × α)) (N : Nat) (s : NM α)
    (h1N : 1 ≤ N) (h : SindOk N s) : SindOk N (nmShrink f P bounds s) := by
  obtain ⟨h1, h2⟩ := h
  refine ⟨by simp [nmShrink, nmShrinkWith, shrinkResort_length, h1], fun j hj => ?_⟩
  exact h2 _ (shrinkResort_mem _ _ j hj)

theorem nmIter_sind (f : List α → α) (P : NMP α) (bounds : List (α × α)) (N : Nat) (s : NM α)
    (hN : s.verts.length = N) (h1N : 1 ≤ N) (h : SindOk N s) : SindOk N (nmIter f P bounds s) := by
  unfold nmIter
  split
  · exact nmReplace_sind f P bounds N s _ _ hN h1N h
  · exact nmShrink_sind f P bounds N s h1N h

theorem nmLoop_gen (f : List α → α) (P : NMP α) (bounds : List (α × α)) (N maxIter : Nat) (h1N : 1 ≤ N) :
    ∀ (fuel : Nat) (s : NM α), NMOk f P bounds N s → SindOk N s →
      NMOk f P bounds N (nmLoop f P bounds maxIter fuel s).1 ∧
      SindOk N (nmLoop f P bounds maxIter fuel s).1 := by
  intro fuel
  induction fuel with
  | zero => intro s h1 h2; exact ⟨h1, h2⟩
  | succ fuel ih =>
    intro s h1 h2
    unfold nmLoop
    simp only
    split
    · exact ⟨h1, h2⟩
    · exact ih _ (nmIter_ok f P bounds N s h1) (nmIter_sind f P bounds N s h1.2 h1N h2)

theorem SindOk.head_lt {N : Nat} {s : NM α} (h : SindOk N s) (h1N : 1 ≤ N) : s.sind.getD 0 0 < N :=
  h.2 _ (getD_mem (by rw [h.1]; omega))

end generic
section field
variable {K : Type} [Field K] [LinearOrder K] [IsStrictOrderedRing K]

/-- `f_val[sort_ind[0]]` (the negated objective at the vertex reported as best) -/
def bestVal (s : NM K) : K := s.fval.getD (s.sind.getD 0 0) 0

theorem vadd_smul_vsub_self (σ : K) : ∀ v : List K, vadd v (smul σ (vsub v v)) = v := by
  intro v
  induction v with
  | nil => rfl
  | cons a t ih =>
    simp only [vadd, vsub, smul, List.zipWith_cons_cons, List.map_cons] at ih ⊢
    rw [ih]; simp

theorem reinsertAux_head_cons (p : Nat → Bool) (w j : Nat) (rest : List Nat) :
    (reinsertAux p w (j :: rest)).getD 0 0 = if p j then w else j := by
  unfold reinsertAux; split <;> simp

/-- accepting a point never makes the reported best value worse, provided the worst and the best
    slot are different rows -/
theorem nmReplace_best (f : List K → K) (P : NMP K) (bounds : List (K × K)) (s : NM K) (v : List K) (fac : K)
    (hwb : s.sind.getD (s.verts.length - 1) 0 ≠ s.sind.getD 0 0) :
    bestVal (nmReplace f P bounds s v fac) ≤ bestVal s := by
  unfold bestVal nmReplace reinsert
  simp only
  cases hs : s.sind with
  | nil => rw [hs] at hwb; simp at hwb
  | cons j rest =>
    rw [hs] at hwb
    have hj : (j :: rest).getD 0 0 = j := rfl
    rw [hj] at hwb ⊢
    rw [reinsertAux_head_cons]
    have hne := getD_set_ne' s.fval _ j (negF f P.pinf bounds v) 0 hwb
    split
    · next hp =>
      have := of_decide_eq_true hp
      rw [hne] at this
      exact this.le
    · rw [hne]

theorem shrinkStep_best (F : List K → K) (σ : K) (best : Nat) (vf : List (List K) × List K) (i : Nat)
    (h : vf.2 = vf.1.map F) :
    (shrinkStep F σ best vf i).2.getD best 0 = vf.2.getD best 0 ∧
    (shrinkStep F σ best vf i).1.getD best [] = vf.1.getD best [] := by
  unfold shrinkStep
  simp only
  by_cases hi : i = best
  · subst hi
    rw [vadd_smul_vsub_self]
    by_cases hl : i < vf.1.length
    · have hl2 : i < vf.2.length := by rw [h]; simpa using hl
      rw [getD_set_self' _ _ _ _ hl2, getD_set_self' _ _ _ _ hl]
      refine ⟨?_, rfl⟩
      rw [h, getD_map_of_lt F _ _ _ [] hl]
    · have hl2 : vf.2.length ≤ i := by rw [h]; simpa using hl
      rw [List.set_eq_of_length_le hl2, List.set_eq_of_length_le (not_lt.mp hl)]
      exact ⟨rfl, rfl⟩
  · exact ⟨getD_set_ne' _ _ _ _ _ hi, getD_set_ne' _ _ _ _ _ hi⟩

theorem shrinkFold_best (F : List K → K) (σ : K) (best : Nat) :
    ∀ (idx : List Nat) (vf : List (List K) × List K), vf.2 = vf.1.map F →
      (idx.foldl (shrinkStep F σ best) vf).2.getD best 0 = vf.2.getD best 0 ∧
      (idx.foldl (shrinkStep F σ best) vf).1.getD best [] = vf.1.getD best [] := by
  intro idx
  induction idx with
  | nil => intro vf _; exact ⟨rfl, rfl⟩
  | cons i rest ih =>
    intro vf h
    simp only [List.foldl_cons]
    have h1 := shrinkStep_ok F σ best vf i h
    have h2 := shrinkStep_best F σ best vf i h
    have := ih _ h1.1
    exact ⟨by rw [this.1, h2.1], by rw [this.2, h2.2]⟩

/-! ### `argsort` puts a minimiser first -/

theorem insIdx_headMin (vals : List K) (i : Nat) : ∀ l : List Nat,
    (∀ j ∈ l, vals.getD (l.getD 0 0) 0 ≤ vals.getD j 0) →
    ∀ j ∈ insIdx vals i l, vals.getD ((insIdx vals i l).getD 0 0) 0 ≤ vals.getD j 0 := by
  intro l
  cases l with
  | nil => intro _ j hj; simp [insIdx] at hj ⊢; rw [hj]
  | cons a rest =>
    intro h j hj
    unfold insIdx at hj ⊢
    have ha : (a :: rest).getD 0 0 = a := rfl
    rw [ha] at h
    split at hj
    · next hlt =>
      rw [if_pos hlt]
      simp only [List.getD_cons_zero]
      rcases List.mem_cons.mp hj with hj | hj
      · rw [hj]
      · exact le_trans hlt.le (h j hj)
    · next hlt =>
      rw [if_neg hlt]
      simp only [List.getD_cons_zero]
      rcases List.mem_cons.mp hj with hj | hj
      · rw [hj]
      · rcases (insIdx_mem vals i rest j).mp hj with hj | hj
        · rw [hj]; exact not_lt.mp hlt
        · exact h j (List.mem_cons_of_mem _ hj)

theorem argsort_head_min (vals : List K) (j : Nat) (hj : j < vals.length) :
    vals.getD ((argsort vals).getD 0 0) 0 ≤ vals.getD j 0 := by
  have key : ∀ m, ∀ k ∈ (List.range m).foldl (fun acc i => insIdx vals i acc) [],
      vals.getD (((List.range m).foldl (fun acc i => insIdx vals i acc) []).getD 0 0) 0 ≤ vals.getD k 0 := by
    intro m
    induction m with
    | zero => intro k hk; simp at hk
    | succ m ih =>
      rw [List.range_succ, List.foldl_append]
      simp only [List.foldl_cons, List.foldl_nil]
      exact insIdx_headMin vals m _ ih
  exact key vals.length j ((argsort_mem vals j).mpr hj)

/-- the shrink step leaves the old best vertex and its value untouched, and the stable re-sort puts
    a minimiser of the new `f_val` in front: the reported best value does not get worse -/
theorem nmShrink_best (f : List K → K) (P : NMP K) (bounds : List (K × K)) (N : Nat) (s : NM K)
    (h : s.fval = s.verts.map (negF f P.pinf bounds)) (h1N : 1 ≤ N) (hs : SindOk N s) :
    bestVal (nmShrink f P bounds s) ≤ bestVal s := by
  have hfold := shrinkFold_best (negF f P.pinf bounds) P.σ (s.sind.getD 0 0) (s.sind.drop 1) (s.verts, s.fval) h
  unfold bestVal nmShrink nmShrinkWith shrinkResort
  simp only
  generalize ((s.sind.drop 1).foldl (shrinkStep (negF f P.pinf bounds) P.σ (s.sind.getD 0 0)) (s.verts, s.fval)).2
    = fv at hfold ⊢
  have hlen : (s.sind.map fun i => fv.getD i 0).length = s.sind.length := by simp
  have h0 : 0 < (s.sind.map fun i => fv.getD i 0).length := by rw [hlen, hs.1]; omega
  have hmin := argsort_head_min (s.sind.map fun i => fv.getD i 0) 0 h0
  have hp0 : (argsort (s.sind.map fun i => fv.getD i 0)).getD 0 0 < s.sind.length := by
    have hm : (argsort (s.sind.map fun i => fv.getD i 0)).getD 0 0 ∈ argsort (s.sind.map fun i => fv.getD i 0) :=
      getD_mem (by rw [argsort_length]; exact h0)
    have := (argsort_mem _ _).mp hm
    simpa using this
  have hl0 : 0 < (argsort (s.sind.map fun i => fv.getD i 0)).length := by rw [argsort_length]; exact h0
  rw [getD_map_of_lt _ _ _ _ 0 hl0]
  rw [getD_map_of_lt _ _ _ _ 0 hp0, getD_map_of_lt _ _ _ _ 0 (by rw [hs.1]; omega)] at hmin
  rw [← hfold.1]
  exact hmin

theorem nmIter_best (f : List K → K) (P : NMP K) (bounds : List (K × K)) (N : Nat) (s : NM K)
    (h : s.fval = s.verts.map (negF f P.pinf bounds)) (h1N : 1 ≤ N) (hs : SindOk N s)
    (hwb : s.sind.getD (s.verts.length - 1) 0 ≠ s.sind.getD 0 0) :
    bestVal (nmIter f P bounds s) ≤ bestVal s := by
  unfold nmIter
  split
  · exact nmReplace_best f P bounds s _ _ hwb
  · exact nmShrink_best f P bounds N s h h1N hs

/-! ### without a shrink, `sort_ind` stays a permutation that sorts `f_val` -/

theorem reinsertAux_sorted (p : Nat → Bool) (w : Nat) (v : Nat → K)
    (hpw : p w = false) (hp : ∀ j, p j = true ↔ v w < v j) :
    ∀ l : List Nat, List.Pairwise (fun a b => v a ≤ v b) l →
      (reinsertAux p w (l ++ [w])).Perm (l ++ [w]) ∧
      List.Pairwise (fun a b => v a ≤ v b) (reinsertAux p w (l ++ [w])) := by
  intro l
  induction l with
  | nil => intro _; simp [reinsertAux, hpw]
  | cons j t ih =>
    intro hs
    rw [List.pairwise_cons] at hs
    obtain ⟨hj, ht⟩ := hs
    rw [List.cons_append]
    unfold reinsertAux
    by_cases hpj : p j = true
    · rw [if_pos hpj]
      have hd : (j :: (t ++ [w])).dropLast = j :: t := by simp [List.dropLast_cons_of_ne_nil]
      rw [hd]
      refine ⟨(List.perm_append_singleton w (j :: t)).symm, ?_⟩
      rw [List.pairwise_cons]
      have hlt := (hp j).mp hpj
      refine ⟨fun a ha => ?_, List.pairwise_cons.mpr ⟨hj, ht⟩⟩
      rcases List.mem_cons.mp ha with ha | ha
      · rw [ha]; exact hlt.le
      · exact le_trans hlt.le (hj a ha)
    · rw [if_neg hpj]
      obtain ⟨ih1, ih2⟩ := ih ht
      refine ⟨List.Perm.cons j ih1, ?_⟩
      rw [List.pairwise_cons]
      refine ⟨fun a ha => ?_, ih2⟩
      have := (ih1.mem_iff).mp ha
      rcases List.mem_append.mp this with h | h
      · exact hj a h
      · have : a = w := by simpa using h
        rw [this]
        have hn : ¬ v w < v j := fun h => hpj ((hp j).mpr h)
        exact not_lt.mp hn

theorem getD_last (l : List Nat) (h : l ≠ []) : l.getD (l.length - 1) 0 = l.getLast h := by
  rw [List.getLast_eq_getElem]
  have : l.length - 1 < l.length := by
    have := List.length_pos_iff.mpr h; omega
  simp [List.getD_eq_getElem?_getD, List.getElem?_eq_getElem this]

/-- **no shrink, no damage.** If `sort_ind` is duplicate-free and sorts `f_val`, accepting a
    reflection / expansion / contraction point leaves it a permutation of itself that sorts the
    updated `f_val`. (Only the shrink branch breaks this.) -/
theorem nmReplace_keeps_sorting (f : List K → K) (P : NMP K) (bounds : List (K × K)) (N : Nat) (s : NM K)
    (v : List K) (fac : K) (hN : s.verts.length = N) (h1N : 1 ≤ N) (hs : SindOk N s)
    (hnd : s.sind.Nodup)
    (hsorted : List.Pairwise (fun a b => s.fval.getD a 0 ≤ s.fval.getD b 0) s.sind) :
    (nmReplace f P bounds s v fac).sind.Perm s.sind ∧
    List.Pairwise (fun a b => (nmReplace f P bounds s v fac).fval.getD a 0 ≤ (nmReplace f P bounds s v fac).fval.getD b 0)
      (nmReplace f P bounds s v fac).sind := by
  have hne : s.sind ≠ [] := by
    intro h; have := hs.1; rw [h] at this; simp at this; omega
  have hlast : s.sind.getD (s.verts.length - 1) 0 = s.sind.getLast hne := by
    rw [hN, ← hs.1]; exact getD_last _ hne
  have hsplit := List.dropLast_concat_getLast hne
  unfold nmReplace reinsert
  simp only
  rw [hlast]
  generalize s.sind.getLast hne = w at hsplit
  generalize hl : s.sind.dropLast = l at hsplit
  rw [← hsplit] at hnd hsorted ⊢
  have hwl : w ∉ l := by
    intro hm
    have := List.nodup_append.mp hnd
    exact this.2.2 w hm w (by simp) rfl
  rw [List.pairwise_append] at hsorted
  obtain ⟨hsl, _, _⟩ := hsorted
  have hv : ∀ a ∈ l, (s.fval.set w (negF f P.pinf bounds v)).getD a 0 = s.fval.getD a 0 := by
    intro a ha
    exact getD_set_ne' _ _ _ _ _ (fun h => hwl (h ▸ ha))
  have hsl' : List.Pairwise (fun a b => (s.fval.set w (negF f P.pinf bounds v)).getD a 0
      ≤ (s.fval.set w (negF f P.pinf bounds v)).getD b 0) l := by
    refine List.Pairwise.imp_of_mem ?_ hsl
    intro a b ha hb hab
    rw [hv a ha, hv b hb]; exact hab
  exact reinsertAux_sorted _ w (fun j => (s.fval.set w (negF f P.pinf bounds v)).getD j 0)
    (by simp) (fun j => by simp) l hsl'

theorem insIdx_sorted_nodup (vals : List K) (i : Nat) : ∀ l : List Nat,
    List.Pairwise (fun a b => vals.getD a 0 ≤ vals.getD b 0) l → l.Nodup → i ∉ l →
    List.Pairwise (fun a b => vals.getD a 0 ≤ vals.getD b 0) (insIdx vals i l) ∧ (insIdx vals i l).Nodup := by
  intro l
  induction l with
  | nil => intro _ _ _; simp [insIdx]
  | cons j rest ih =>
    intro hs hn hi
    rw [List.pairwise_cons] at hs
    rw [List.nodup_cons] at hn
    unfold insIdx
    split
    · next hlt =>
      refine ⟨List.pairwise_cons.mpr ⟨fun a ha => ?_, List.pairwise_cons.mpr hs⟩,
        List.nodup_cons.mpr ⟨hi, List.nodup_cons.mpr hn⟩⟩
      rcases List.mem_cons.mp ha with ha | ha
      · rw [ha]; exact hlt.le
      · exact le_trans hlt.le (hs.1 a ha)
    · next hlt =>
      have hi' : i ∉ rest := fun h => hi (List.mem_cons_of_mem _ h)
      obtain ⟨i1, i2⟩ := ih hs.2 hn.2 hi'
      refine ⟨List.pairwise_cons.mpr ⟨fun a ha => ?_, i1⟩, List.nodup_cons.mpr ⟨?_, i2⟩⟩
      · rcases (insIdx_mem vals i rest a).mp ha with ha | ha
        · rw [ha]; exact not_lt.mp hlt
        · exact hs.1 a ha
      · intro hm
        rcases (insIdx_mem vals i rest j).mp hm with hm | hm
        · exact hi (by rw [hm]; simp)
        · exact hn.1 hm

/-- the initial `argsort` is a duplicate-free list that sorts `vals` -/
theorem argsort_sorted_nodup (vals : List K) :
    List.Pairwise (fun a b => vals.getD a 0 ≤ vals.getD b 0) (argsort vals) ∧ (argsort vals).Nodup := by
  have key : ∀ m, List.Pairwise (fun a b => vals.getD a 0 ≤ vals.getD b 0)
      ((List.range m).foldl (fun acc i => insIdx vals i acc) []) ∧
      ((List.range m).foldl (fun acc i => insIdx vals i acc) []).Nodup := by
    intro m
    induction m with
    | zero => simp
    | succ m ih =>
      rw [List.range_succ, List.foldl_append]
      simp only [List.foldl_cons, List.foldl_nil]
      refine insIdx_sorted_nodup vals m _ ih.1 ih.2 ?_
      intro hm
      have := ((argsortFold_spec vals m).2 m).mp hm
      omega
  exact key vals.length

/-! ### the repaired shrink re-sort keeps `sort_ind` a sorting permutation -/

/-- `sort_ind` is duplicate-free and sorts `f_val` -/
def SortedPerm (s : NM K) : Prop :=
  s.sind.Nodup ∧ List.Pairwise (fun a b => s.fval.getD a 0 ≤ s.fval.getD b 0) s.sind

theorem getD_inj_of_nodup (l : List Nat) (h : l.Nodup) (a b : Nat) (ha : a < l.length) (hb : b < l.length)
    (hab : a ≠ b) : l.getD a 0 ≠ l.getD b 0 := by
  simp only [List.getD_eq_getElem?_getD, List.getElem?_eq_getElem ha, List.getElem?_eq_getElem hb,
    Option.getD_some]
  intro he
  exact hab ((h.getElem_inj_iff).mp he)

/-- the stable re-sort of the vertex indices: a duplicate-free `sort_ind` stays duplicate-free,
    and the result sorts the given values (whatever `sort_ind` was before) -/
theorem shrinkResort_sorted (fv : List K) (sind : List Nat) (hnd : sind.Nodup) :
    (shrinkResort fv sind).Nodup ∧
    List.Pairwise (fun a b => fv.getD a 0 ≤ fv.getD b 0) (shrinkResort fv sind) := by
  unfold shrinkResort
  obtain ⟨hso, hno⟩ := argsort_sorted_nodup (sind.map fun i => fv.getD i 0)
  have hmem : ∀ a ∈ argsort (sind.map fun i => fv.getD i 0), a < sind.length := by
    intro a ha; have := (argsort_mem _ a).mp ha; simpa using this
  constructor
  · unfold List.Nodup
    rw [List.pairwise_map]
    refine List.Pairwise.imp_of_mem ?_ hno
    intro a b ha hb hab
    exact getD_inj_of_nodup sind hnd a b (hmem a ha) (hmem b hb) hab
  · rw [List.pairwise_map]
    refine List.Pairwise.imp_of_mem ?_ hso
    intro a b ha hb hab
    rw [getD_map_of_lt _ _ _ _ 0 (hmem a ha), getD_map_of_lt _ _ _ _ 0 (hmem b hb)] at hab
    exact hab

theorem nmShrink_sortedPerm (f : List K → K) (P : NMP K) (bounds : List (K × K)) (s : NM K)
    (h : SortedPerm s) : SortedPerm (nmShrink f P bounds s) := by
  unfold SortedPerm nmShrink nmShrinkWith
  simp only
  exact shrinkResort_sorted _ _ h.1

theorem nmIter_sortedPerm (f : List K → K) (P : NMP K) (bounds : List (K × K)) (N : Nat) (s : NM K)
    (hN : s.verts.length = N) (h1N : 1 ≤ N) (hs : SindOk N s) (h : SortedPerm s) :
    SortedPerm (nmIter f P bounds s) := by
  unfold nmIter
  split
  · next v fac _ =>
    have := nmReplace_keeps_sorting f P bounds N s v fac hN h1N hs h.1 h.2
    exact ⟨(this.1.nodup_iff).mpr h.1, this.2⟩
  · exact nmShrink_sortedPerm f P bounds s h

theorem nmInit_sortedPerm (f : List K → K) (P : NMP K) (bounds : List (K × K)) (verts : List (List K)) :
    SortedPerm (nmInit f P bounds verts) := by
  have := argsort_sorted_nodup (verts.map (negF f P.pinf bounds))
  exact ⟨this.2, this.1⟩

/-- **the loop.** The bookkeeping invariants and "`sort_ind` is a duplicate-free list of valid rows
    that sorts `f_val`" hold at exit; with `tol_f > 0` the value at `sort_ind[0]` is not worse than at
    entry. -/
theorem nmLoop_inv (f : List K → K) (P : NMP K) (bounds : List (K × K)) (N maxIter : Nat)
    (h1N : 1 ≤ N) (htol : 0 < P.tolf) :
    ∀ (fuel : Nat) (s : NM K), NMOk f P bounds N s → SindOk N s → SortedPerm s →
      NMOk f P bounds N (nmLoop f P bounds maxIter fuel s).1 ∧
      SindOk N (nmLoop f P bounds maxIter fuel s).1 ∧
      SortedPerm (nmLoop f P bounds maxIter fuel s).1 ∧
      bestVal (nmLoop f P bounds maxIter fuel s).1 ≤ bestVal s := by
  intro fuel
  induction fuel with
  | zero => intro s h1 h2 h3; exact ⟨h1, h2, h3, le_refl _⟩
  | succ fuel ih =>
    intro s h1 h2 h3
    unfold nmLoop
    simp only
    split
    · exact ⟨h1, h2, h3, le_refl _⟩
    · next hc =>
      have hwb : s.sind.getD (s.verts.length - 1) 0 ≠ s.sind.getD 0 0 := by
        intro heq
        apply hc
        simp only [Bool.or_eq_true, decide_eq_true_eq]
        left; right
        rw [heq, sub_self]; exact htol
      have := ih _ (nmIter_ok f P bounds N s h1) (nmIter_sind f P bounds N s h1.2 h1N h2)
        (nmIter_sortedPerm f P bounds N s h1.2 h1N h2 h3)
      exact ⟨this.1, this.2.1, this.2.2.1,
        le_trans this.2.2.2 (nmIter_best f P bounds N s h1.1 h1N h2 hwb)⟩

/-- the loop keeps the sorting permutation for every `tol_f` (no positivity needed) -/
theorem nmLoop_sortedPerm (f : List K → K) (P : NMP K) (bounds : List (K × K)) (N maxIter : Nat) (h1N : 1 ≤ N) :
    ∀ (fuel : Nat) (s : NM K), NMOk f P bounds N s → SindOk N s → SortedPerm s →
      NMOk f P bounds N (nmLoop f P bounds maxIter fuel s).1 ∧
      SindOk N (nmLoop f P bounds maxIter fuel s).1 ∧
      SortedPerm (nmLoop f P bounds maxIter fuel s).1 := by
  intro fuel
  induction fuel with
  | zero => intro s h1 h2 h3; exact ⟨h1, h2, h3⟩
  | succ fuel ih =>
    intro s h1 h2 h3
    unfold nmLoop
    simp only
    split
    · exact ⟨h1, h2, h3⟩
    · exact ih _ (nmIter_ok f P bounds N s h1) (nmIter_sind f P bounds N s h1.2 h1N h2)
        (nmIter_sortedPerm f P bounds N s h1.2 h1N h2 h3)

/-- a duplicate-free list of `N` numbers below `N` is a permutation of `0..N-1` -/
theorem perm_range_of_nodup (l : List Nat) (N : Nat) (hl : l.length = N) (hm : ∀ j ∈ l, j < N)
    (hnd : l.Nodup) : l.Perm (List.range N) := by
  have hsub : l ⊆ List.range N := fun j hj => List.mem_range.mpr (hm j hj)
  exact (List.subperm_of_subset hnd hsub).perm_of_length_le (by simp [hl])

/-! ### stability: on ties the earlier entry stays in front -/

theorem insIdx_head_first (vals : List K) (i : Nat) : ∀ l : List Nat, (∀ j ∈ l, j < i) →
    (∀ j ∈ l, vals.getD (l.getD 0 0) 0 ≤ vals.getD j 0) →
    (∀ j ∈ l, j < l.getD 0 0 → vals.getD (l.getD 0 0) 0 < vals.getD j 0) →
    ∀ j ∈ insIdx vals i l, j < (insIdx vals i l).getD 0 0 →
      vals.getD ((insIdx vals i l).getD 0 0) 0 < vals.getD j 0 := by
  intro l
  cases l with
  | nil => intro _ _ _ j hj hlt; simp [insIdx] at hj hlt; omega
  | cons a rest =>
    intro hlt hmin hfirst j hj hjlt
    unfold insIdx at hj hjlt ⊢
    have ha : (a :: rest).getD 0 0 = a := rfl
    rw [ha] at hmin hfirst
    split at hj
    · next hc =>
      rw [if_pos hc] at hjlt ⊢
      simp only [List.getD_cons_zero] at hjlt ⊢
      rcases List.mem_cons.mp hj with h | h
      · omega
      · exact lt_of_lt_of_le hc (hmin j h)
    · next hc =>
      rw [if_neg hc] at hjlt ⊢
      simp only [List.getD_cons_zero] at hjlt ⊢
      rcases List.mem_cons.mp hj with h | h
      · omega
      · rcases (insIdx_mem vals i rest j).mp h with h | h
        · have := hlt a (by simp); omega
        · exact hfirst j (List.mem_cons_of_mem _ h) hjlt

/-- `argsort` puts the FIRST minimiser in front: every earlier position holds a strictly larger value -/
theorem argsort_head_first (vals : List K) (j : Nat) (hj : j < (argsort vals).getD 0 0)
    (hjl : j < vals.length) : vals.getD ((argsort vals).getD 0 0) 0 < vals.getD j 0 := by
  have key : ∀ m,
      (∀ k ∈ (List.range m).foldl (fun acc i => insIdx vals i acc) [],
        vals.getD (((List.range m).foldl (fun acc i => insIdx vals i acc) []).getD 0 0) 0 ≤ vals.getD k 0) ∧
      (∀ k ∈ (List.range m).foldl (fun acc i => insIdx vals i acc) [],
        k < ((List.range m).foldl (fun acc i => insIdx vals i acc) []).getD 0 0 →
        vals.getD (((List.range m).foldl (fun acc i => insIdx vals i acc) []).getD 0 0) 0 < vals.getD k 0) := by
    intro m
    induction m with
    | zero => simp
    | succ m ih =>
      rw [List.range_succ, List.foldl_append]
      simp only [List.foldl_cons, List.foldl_nil]
      have hm : ∀ k ∈ (List.range m).foldl (fun acc i => insIdx vals i acc) [], k < m :=
        fun k hk => ((argsortFold_spec vals m).2 k).mp hk
      exact ⟨insIdx_headMin vals m _ ih.1, insIdx_head_first vals m _ hm ih.1 ih.2⟩
  exact (key vals.length).2 j ((argsort_mem vals j).mpr hjl) hj

/-- **ties keep the old best in front.** If after the shrink no row is strictly better than the old
    best row, the re-sorted `sort_ind` still starts with it. -/
theorem shrinkResort_head_of_tie (fv : List K) (sind : List Nat) (hne : sind ≠ [])
    (h : ∀ j ∈ sind, fv.getD (sind.getD 0 0) 0 ≤ fv.getD j 0) :
    (shrinkResort fv sind).getD 0 0 = sind.getD 0 0 := by
  unfold shrinkResort
  have hlen : 0 < (sind.map fun i => fv.getD i 0).length := by simpa using List.length_pos_iff.mpr hne
  have hl0 : 0 < (argsort (sind.map fun i => fv.getD i 0)).length := by rw [argsort_length]; exact hlen
  rw [getD_map_of_lt _ _ _ _ 0 hl0]
  have hp0m : (argsort (sind.map fun i => fv.getD i 0)).getD 0 0 ∈ argsort (sind.map fun i => fv.getD i 0) :=
    getD_mem hl0
  have hp0 : (argsort (sind.map fun i => fv.getD i 0)).getD 0 0 < sind.length := by
    have := (argsort_mem _ _).mp hp0m; simpa using this
  by_cases hz : (argsort (sind.map fun i => fv.getD i 0)).getD 0 0 = 0
  · rw [hz]
  · exfalso
    have hpos : 0 < (argsort (sind.map fun i => fv.getD i 0)).getD 0 0 := Nat.pos_of_ne_zero hz
    have := argsort_head_first (sind.map fun i => fv.getD i 0) 0 hpos hlen
    rw [getD_map_of_lt _ _ _ _ 0 hp0, getD_map_of_lt _ _ _ _ 0 (List.length_pos_iff.mpr hne)] at this
    have h2 := h _ (getD_mem hp0)
    exact absurd this (not_lt.mpr h2)

end field

end QE.C17
