/-
  Lemmas for C02: the standard model of rounded arithmetic, abstractly over an ordered field, and
  the running-error calculus for NON-NEGATIVE data ("x̃ approximates x with e rounding factors").

  Convention. Every rounded operation on non-negative operands returns the exact result times a
  factor in [1/(1+u), 1+u].  IEEE-754 round-to-nearest satisfies this with u = 2⁻⁵³ as long as no
  underflow/overflow occurs: both standard forms fl(z) = z(1+ε) and fl(z) = z/(1+ε'), |ε|,|ε'| ≤ u,
  hold (Higham, Accuracy and Stability, Thm 2.2 and 2.3), and
  [1-u, 1+u] ∩ [1/(1+u), 1/(1-u)] = [1/(1+u), 1+u].
  The interval is closed under inversion, which is what makes division compose.
-/
import QEModel.C02
import Mathlib.Algebra.Order.Field.Basic
import Mathlib.Algebra.Order.Field.Power
import Mathlib.Tactic.Ring
import Mathlib.Tactic.Linarith
import Mathlib.Tactic.Positivity
import Mathlib.Tactic.FieldSimp
namespace QE.C02

section
variable {K : Type} [Field K] [LinearOrder K] [IsStrictOrderedRing K]

/-- `xt` approximates `x ≥ 0` with at most `e` rounding factors:
    `x / (1+u)^e ≤ xt ≤ x (1+u)^e`, written without division. -/
def Apx (u : K) (e : ℕ) (xt x : K) : Prop := x ≤ xt * (1 + u) ^ e ∧ xt ≤ x * (1 + u) ^ e

/-- the standard model: three operations, each exact up to one factor in `[1/(1+u), 1+u]` on
    non-negative operands (positive divisor). -/
structure RoundedOps (K : Type) [Field K] [LinearOrder K] [IsStrictOrderedRing K] where
  u : K
  u_nonneg : 0 ≤ u
  fadd : K → K → K
  fmul : K → K → K
  fdiv : K → K → K
  fadd_spec : ∀ a b, 0 ≤ a → 0 ≤ b → Apx u 1 (fadd a b) (a + b)
  fmul_spec : ∀ a b, 0 ≤ a → 0 ≤ b → Apx u 1 (fmul a b) (a * b)
  fdiv_spec : ∀ a b, 0 ≤ a → 0 < b → Apx u 1 (fdiv a b) (a / b)

variable {u : K}

theorem one_le_w (hu : 0 ≤ u) : (1 : K) ≤ 1 + u := by linarith
theorem one_le_W (hu : 0 ≤ u) (e : ℕ) : (1 : K) ≤ (1 + u) ^ e := one_le_pow₀ (one_le_w hu)
theorem W_pos (hu : 0 ≤ u) (e : ℕ) : (0 : K) < (1 + u) ^ e := lt_of_lt_of_le one_pos (one_le_W hu e)
theorem W_mono (hu : 0 ≤ u) {e e' : ℕ} (h : e ≤ e') : (1 + u) ^ e ≤ (1 + u) ^ e' :=
  pow_le_pow_right₀ (one_le_w hu) h

theorem apx_nonneg (hu : 0 ≤ u) {e : ℕ} {xt x : K} (h : Apx u e xt x) (hx : 0 ≤ x) : 0 ≤ xt := by
  by_contra hc
  have hneg : xt < 0 := not_le.1 hc
  have : xt * (1 + u) ^ e < 0 := mul_neg_of_neg_of_pos hneg (W_pos hu e)
  have := h.1
  linarith

theorem apx_refl (hu : 0 ≤ u) (e : ℕ) {x : K} (hx : 0 ≤ x) : Apx u e x x := by
  have : x * 1 ≤ x * (1 + u) ^ e := mul_le_mul_of_nonneg_left (one_le_W hu e) hx
  rw [mul_one] at this
  exact ⟨this, this⟩

theorem apx_mono (hu : 0 ≤ u) {e e' : ℕ} (hee : e ≤ e') {xt x : K} (hx : 0 ≤ x)
    (h : Apx u e xt x) : Apx u e' xt x := by
  have hxt := apx_nonneg hu h hx
  have hW := W_mono hu hee
  exact ⟨le_trans h.1 (mul_le_mul_of_nonneg_left hW hxt), le_trans h.2 (mul_le_mul_of_nonneg_left hW hx)⟩

theorem apx_trans {e1 e2 : ℕ} {c b a : K} (hu : 0 ≤ u) (h1 : Apx u e1 c b) (h2 : Apx u e2 b a) :
    Apx u (e2 + e1) c a := by
  have hW2 := (W_pos hu e2).le
  constructor
  · calc a ≤ b * (1 + u) ^ e2 := h2.1
      _ ≤ (c * (1 + u) ^ e1) * (1 + u) ^ e2 := mul_le_mul_of_nonneg_right h1.1 hW2
      _ = c * (1 + u) ^ (e2 + e1) := by rw [pow_add]; ring
  · have hW1 := (W_pos hu e1).le
    calc c ≤ b * (1 + u) ^ e1 := h1.2
      _ ≤ (a * (1 + u) ^ e2) * (1 + u) ^ e1 := mul_le_mul_of_nonneg_right h2.2 hW1
      _ = a * (1 + u) ^ (e2 + e1) := by rw [pow_add]; ring

theorem apx_add {e : ℕ} {at' a bt b : K} (ha : Apx u e at' a) (hb : Apx u e bt b) :
    Apx u e (at' + bt) (a + b) := by
  constructor
  · have := ha.1; have := hb.1; nlinarith
  · have := ha.2; have := hb.2; nlinarith

theorem apx_mul (hu : 0 ≤ u) {e1 e2 : ℕ} {at' a bt b : K} (ha0 : 0 ≤ a) (hb0 : 0 ≤ b)
    (ha : Apx u e1 at' a) (hb : Apx u e2 bt b) : Apx u (e1 + e2) (at' * bt) (a * b) := by
  have hat := apx_nonneg hu ha ha0
  have hbt := apx_nonneg hu hb hb0
  have hW1 := (W_pos hu e1).le
  have hW2 := (W_pos hu e2).le
  constructor
  · calc a * b ≤ (at' * (1 + u) ^ e1) * (bt * (1 + u) ^ e2) :=
          mul_le_mul ha.1 hb.1 hb0 (mul_nonneg hat hW1)
      _ = at' * bt * (1 + u) ^ (e1 + e2) := by rw [pow_add]; ring
  · calc at' * bt ≤ (a * (1 + u) ^ e1) * (b * (1 + u) ^ e2) :=
          mul_le_mul ha.2 hb.2 hbt (mul_nonneg ha0 hW1)
      _ = a * b * (1 + u) ^ (e1 + e2) := by rw [pow_add]; ring

theorem apx_pos (hu : 0 ≤ u) {e : ℕ} {xt x : K} (h : Apx u e xt x) (hx : 0 < x) : 0 < xt := by
  by_contra hc
  have hle : xt ≤ 0 := not_lt.1 hc
  have : xt * (1 + u) ^ e ≤ 0 := mul_nonpos_of_nonpos_of_nonneg hle (W_pos hu e).le
  have := h.1
  linarith

theorem apx_div (hu : 0 ≤ u) {e1 e2 : ℕ} {at' a bt b : K} (ha0 : 0 ≤ a) (hb0 : 0 < b)
    (ha : Apx u e1 at' a) (hb : Apx u e2 bt b) : Apx u (e1 + e2) (at' / bt) (a / b) := by
  have hat := apx_nonneg hu ha ha0
  have hbt := apx_pos hu hb hb0
  have hW1 := (W_pos hu e1).le
  have hW2 := (W_pos hu e2).le
  constructor
  · rw [div_le_iff₀ hb0]
    have h1 : a * bt ≤ (at' * (1 + u) ^ e1) * (b * (1 + u) ^ e2) :=
      mul_le_mul ha.1 hb.2 hbt.le (mul_nonneg hat hW1)
    have h2 : at' / bt * (1 + u) ^ (e1 + e2) * b * bt = (at' * (1 + u) ^ e1) * (b * (1 + u) ^ e2) := by
      rw [pow_add]; field_simp
    have h3 : a * bt ≤ at' / bt * (1 + u) ^ (e1 + e2) * b * bt := by rw [h2]; exact h1
    exact le_of_mul_le_mul_right h3 hbt
  · rw [div_le_iff₀ hbt]
    have h1 : at' * b ≤ (a * (1 + u) ^ e1) * (bt * (1 + u) ^ e2) :=
      mul_le_mul ha.2 hb.1 hb0.le (mul_nonneg ha0 hW1)
    have h2 : a / b * (1 + u) ^ (e1 + e2) * bt * b = (a * (1 + u) ^ e1) * (bt * (1 + u) ^ e2) := by
      rw [pow_add]; field_simp
    have h3 : at' * b ≤ a / b * (1 + u) ^ (e1 + e2) * bt * b := by rw [h2]; exact h1
    exact le_of_mul_le_mul_right h3 hb0

/-- exact zeros are preserved in both directions: the sign test `· ≤ 0` is decided identically -/
theorem apx_le_zero_iff (hu : 0 ≤ u) {e : ℕ} {xt x : K} (h : Apx u e xt x) (hx : 0 ≤ x) :
    xt ≤ 0 ↔ x ≤ 0 := by
  constructor
  · intro hxt
    have : xt * (1 + u) ^ e ≤ 0 := mul_nonpos_of_nonpos_of_nonneg hxt (W_pos hu e).le
    exact le_trans h.1 this
  · intro hx0
    have hx00 : x = 0 := le_antisymm hx0 hx
    have := h.2
    rw [hx00, zero_mul] at this
    exact this

/-- from factors to the usual relative-error statement -/
theorem apx_rel_err (hu : 0 ≤ u) {e : ℕ} {xt x : K} (h : Apx u e xt x) (hx : 0 ≤ x) :
    |xt - x| ≤ ((1 + u) ^ e - 1) * x := by
  have hW1 := one_le_W hu e
  have hWp := W_pos hu e
  rw [abs_le]
  constructor
  · -- x - xt ≤ (W-1) x  from  x ≤ xt W
    have h1 := h.1
    have hxt := apx_nonneg hu h hx
    -- xt ≥ x / W ≥ x (2 - W)
    have h2 : x * (2 - (1 + u) ^ e) ≤ xt := by
      have h3 : x * (2 - (1 + u) ^ e) * (1 + u) ^ e ≤ xt * (1 + u) ^ e := by
        have : x * (2 - (1 + u) ^ e) * (1 + u) ^ e ≤ x := by
          have hsq : 0 ≤ x * ((1 + u) ^ e - 1) ^ 2 := mul_nonneg hx (sq_nonneg _)
          nlinarith
        linarith
      exact le_of_mul_le_mul_right h3 hWp
    linarith
  · have := h.2; linarith

end
end QE.C02
