/-
  Lemmas for property C05: pure profiles of a two-player game as degenerate mixed profiles —
  `pure_nash_brute` (N-player model, flattened payoff arrays) agrees with the mixed-equilibrium
  specification `IsNash` used for the three bimatrix solvers.
-/
import QEProofs.Lemmas.C05Nash
import QEProofs.Lemmas.C05Pure
import Mathlib.Tactic.Linarith

namespace QE.C05
open QE QE.MatAlg Finset

set_option linter.unusedSectionVars false
variable {K : Type} [Field K] [LinearOrder K] [IsStrictOrderedRing K]

/-- the pure action `i` as a mixed action -/
def delta (i : ℕ) : ℕ → K := fun k => if k = i then 1 else 0

theorem isProb_delta (n i : ℕ) (hi : i < n) : IsProb n (delta i : ℕ → K) := by
  refine ⟨fun k _ => ?_, ?_⟩
  · unfold delta; split
    · exact zero_le_one
    · exact le_refl _
  · rw [sumRange_eq_sum]
    unfold delta
    rw [sum_ite_eq' (range n) i (fun _ => (1 : K)), if_pos (mem_range.mpr hi)]

theorem payoffVec_delta (n : ℕ) (A : ℕ → ℕ → K) (j : ℕ) (hj : j < n) (i' : ℕ) :
    payoffVec n A (delta j) i' = A i' j := by
  rw [payoffVec_eq]
  unfold delta
  simp only [mul_ite, mul_one, mul_zero]
  rw [sum_ite_eq' (range n) j (fun k => A i' k), if_pos (mem_range.mpr hj)]

theorem dotTo_delta (m i : ℕ) (hi : i < m) (v : ℕ → K) : dotTo m (delta i) v = v i := by
  rw [dotTo_eq]
  unfold delta
  simp only [ite_mul, one_mul, zero_mul]
  rw [sum_ite_eq' (range m) i v, if_pos (mem_range.mpr hi)]

/-- a pure profile is a Nash equilibrium (as a pair of degenerate mixed actions) iff neither
    player has a profitable pure deviation -/
theorem isNash_delta_iff (m n : ℕ) (A B : ℕ → ℕ → K) (i j : ℕ) (hi : i < m) (hj : j < n) :
    IsNash m n A B (delta i) (delta j) ↔
      (∀ i', i' < m → A i' j ≤ A i j) ∧ (∀ j', j' < n → B j' i ≤ B j i) := by
  unfold IsNash
  constructor
  · rintro ⟨_, _, h0, h1⟩
    constructor
    · intro i' hi'
      have := h0 i' hi'
      rwa [dotTo_delta m i hi, payoffVec_delta n A j hj, payoffVec_delta n A j hj] at this
    · intro j' hj'
      have := h1 j' hj'
      rwa [dotTo_delta n j hj, payoffVec_delta m B i hi, payoffVec_delta m B i hi] at this
  · rintro ⟨h0, h1⟩
    refine ⟨isProb_delta m i hi, isProb_delta n j hj, ?_, ?_⟩
    · intro i' hi'
      rw [dotTo_delta m i hi, payoffVec_delta n A j hj, payoffVec_delta n A j hj]
      exact h0 i' hi'
    · intro j' hj'
      rw [dotTo_delta n j hj, payoffVec_delta m B i hi, payoffVec_delta m B i hi]
      exact h1 j' hj'

/-- the same with the code's tolerance: `is_nash(…, tol)` on a pure profile -/
theorem isNashTol_delta_iff (tol : K) (m n : ℕ) (A B : ℕ → ℕ → K) (i j : ℕ) (hi : i < m) (hj : j < n) :
    IsNashTol tol m n A B (delta i) (delta j) ↔
      (∀ i', i' < m → A i' j ≤ A i j + tol) ∧ (∀ j', j' < n → B j' i ≤ B j i + tol) := by
  unfold IsNashTol
  constructor
  · rintro ⟨_, _, h0, h1⟩
    constructor
    · intro i' hi'
      have := h0 i' hi'
      rw [dotTo_delta m i hi, payoffVec_delta n A j hj, payoffVec_delta n A j hj] at this
      linarith
    · intro j' hj'
      have := h1 j' hj'
      rw [dotTo_delta n j hj, payoffVec_delta m B i hi, payoffVec_delta m B i hi] at this
      linarith
  · rintro ⟨h0, h1⟩
    refine ⟨isProb_delta m i hi, isProb_delta n j hj, ?_, ?_⟩
    · intro i' hi'
      rw [dotTo_delta m i hi, payoffVec_delta n A j hj, payoffVec_delta n A j hj]
      have := h0 i' hi'; linarith
    · intro j' hj'
      rw [dotTo_delta n j hj, payoffVec_delta m B i hi, payoffVec_delta m B i hi]
      have := h1 j' hj'; linarith

/-- C-order flattening of an `r × c` array -/
def flat (r c : ℕ) (A : ℕ → ℕ → K) : List K := (List.range (r * c)).map fun k => A (k / c) (k % c)

theorem flat_getD (r c : ℕ) (A : ℕ → ℕ → K) (a b : ℕ) (ha : a < r) (hb : b < c) :
    (flat r c A).getD (a * c + b) 0 = A a b := by
  have hlt : a * c + b < r * c := by
    calc a * c + b < a * c + c := by omega
      _ = (a + 1) * c := by ring
      _ ≤ r * c := Nat.mul_le_mul_right c (by omega)
  have hc : 0 < c := by omega
  unfold flat
  simp only [List.getD_eq_getElem?_getD, List.getElem?_map, List.getElem?_range hlt, Option.map_some,
    Option.getD_some]
  have h1 : (a * c + b) / c = a := by
    rw [Nat.add_comm, Nat.add_mul_div_right _ _ hc, Nat.div_eq_of_lt hb, Nat.zero_add]
  have h2 : (a * c + b) % c = b := by
    rw [Nat.add_comm, Nat.add_mul_mod_self_right, Nat.mod_eq_of_lt hb]
  rw [h1, h2]

theorem payoffAt_two_0 (m n : ℕ) (pa pb : List K) (i j b : ℕ) :
    payoffAt [m, n] [pa, pb] 0 [i, j] b = pa.getD (b * n + j) 0 := by
  simp [payoffAt, rot, flatIdx]

theorem payoffAt_two_1 (m n : ℕ) (pa pb : List K) (i j b : ℕ) :
    payoffAt [m, n] [pa, pb] 1 [i, j] b = pb.getD (b * m + i) 0 := by
  simp [payoffAt, rot, flatIdx]

end QE.C05
