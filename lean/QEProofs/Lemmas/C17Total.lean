/-
  Lemmas for C17: termination of `bisect` — the width is halved every pass, so the exit test fires
  at the latest in the pass in which `|b−a|/2^k` drops below `xtol`.
-/
import Mathlib.Algebra.Order.Archimedean.Basic
import QEProofs.Lemmas.C17Basic
namespace QE.C17
set_option linter.unusedSectionVars false

section
variable {K : Type} [Field K] [LinearOrder K] [IsStrictOrderedRing K]

/-- **the bisection loop terminates.** If the width drops below `xtol` after `j ≥ 1` halvings and at
    least `j` passes are available, the loop exits converged within `j` passes — for ANY `f`,
    `rtol ≥ 0` (no bracket needed for termination). -/
theorem bisectLoop_terminates (f : K → K) (xtol rtol fa : K) (hr : 0 ≤ rtol) :
    ∀ (j fuel itr : Nat) (xa dm : K) (calls : Nat), 1 ≤ j → j ≤ fuel → |dm * (1 / 2) ^ j| < xtol →
      (bisectLoop f xtol rtol fa fuel itr xa dm calls).conv = true ∧
      (bisectLoop f xtol rtol fa fuel itr xa dm calls).iters ≤ itr + j := by
  intro j
  induction j with
  | zero => intro fuel itr xa dm calls h1; omega
  | succ j ih =>
    intro fuel itr xa dm calls _ hjf hw
    cases fuel with
    | zero => omega
    | succ fuel =>
      unfold bisectLoop
      by_cases hex : (f (xa + dm * half) == 0 || decide (absv (dm * half) < xtol + rtol * absv (xa + dm * half))) = true
      · rw [if_pos hex]; exact ⟨rfl, by simp⟩
      · rw [if_neg hex]
        rw [Bool.or_eq_true, beq_iff_eq, decide_eq_true_eq, not_or] at hex
        obtain ⟨_, hnot⟩ := hex
        rw [absv_eq_abs, absv_eq_abs, half_eq] at hnot
        have hge : xtol ≤ xtol + rtol * |xa + dm * (1 / 2)| := by
          have := mul_nonneg hr (abs_nonneg (xa + dm * (1 / 2))); linarith
        have hj1 : 1 ≤ j := by
          by_contra hc
          have : j = 0 := by omega
          subst this
          simp only [Nat.reduceAdd, pow_one] at hw
          exact hnot (lt_of_lt_of_le hw hge)
        have hw' : |dm * half * (1 / 2) ^ j| < xtol := by
          rw [half_eq]
          have : dm * (1 / 2) * (1 / 2) ^ j = dm * (1 / 2) ^ (j + 1) := by rw [pow_succ]; ring
          rw [this]; exact hw
        have := ih fuel (itr + 1) (if 0 ≤ f (xa + dm * half) * fa then xa + dm * half else xa) (dm * half) (calls + 1)
          hj1 (by omega) hw'
        exact ⟨this.1, by have := this.2; omega⟩

/-- `halvingsAux`: what a `some` answer means (least number of halvings) -/
theorem halvingsAux_some (xtol : K) : ∀ (fuel : Nat) (d : K) (k0 r : Nat),
    halvingsAux xtol fuel d k0 = some r →
    ∃ j, 1 ≤ j ∧ j ≤ fuel ∧ r = k0 + j ∧ |d * (1 / 2) ^ j| < xtol ∧
      ∀ i, 1 ≤ i → i < j → ¬ |d * (1 / 2) ^ i| < xtol := by
  intro fuel
  induction fuel with
  | zero => intro d k0 r h; simp [halvingsAux] at h
  | succ fuel ih =>
    intro d k0 r h
    unfold halvingsAux at h
    simp only at h
    by_cases hc : absv (d * half) < xtol
    · rw [if_pos hc] at h
      rw [absv_eq_abs, half_eq] at hc
      refine ⟨1, le_refl _, by omega, by simpa using h.symm, by simpa using hc, fun i h1 h2 => by omega⟩
    · rw [if_neg hc] at h
      rw [absv_eq_abs, half_eq] at hc
      obtain ⟨j, j1, j2, j3, j4, j5⟩ := ih _ _ _ h
      have e : ∀ i : Nat, d * (1 / 2) * (1 / 2) ^ i = d * (1 / 2) ^ (i + 1) := by
        intro i; rw [pow_succ]; ring
      refine ⟨j + 1, by omega, by omega, by omega, by rw [← e]; rw [half_eq] at j4; exact j4, ?_⟩
      intro i i1 i2
      by_cases hi : i = 1
      · subst hi; simpa using hc
      · have := j5 (i - 1) (by omega) (by omega)
        rw [half_eq, e, Nat.sub_add_cancel i1] at this
        exact this

/-- `halvingsAux`: if some number of halvings within the fuel suffices, the answer is `some` and not larger -/
theorem halvingsAux_complete (xtol : K) : ∀ (fuel : Nat) (d : K) (k0 j : Nat),
    1 ≤ j → j ≤ fuel → |d * (1 / 2) ^ j| < xtol →
    ∃ r, halvingsAux xtol fuel d k0 = some r ∧ r ≤ k0 + j := by
  intro fuel
  induction fuel with
  | zero => intro d k0 j h1 h2; omega
  | succ fuel ih =>
    intro d k0 j h1 h2 hw
    unfold halvingsAux
    simp only
    by_cases hc : absv (d * half) < xtol
    · rw [if_pos hc]; exact ⟨k0 + 1, rfl, by omega⟩
    · rw [if_neg hc]
      rw [absv_eq_abs, half_eq] at hc
      have hj : 2 ≤ j := by
        by_contra h
        have : j = 1 := by omega
        subst this
        simp only [pow_one] at hw
        exact hc hw
      have hw' : |d * half * (1 / 2) ^ (j - 1)| < xtol := by
        rw [half_eq]
        have : d * (1 / 2) * (1 / 2) ^ (j - 1) = d * (1 / 2) ^ (j - 1 + 1) := by rw [pow_succ]; ring
        rw [this, Nat.sub_add_cancel h1]; exact hw
      obtain ⟨r, hr1, hr2⟩ := ih (d * half) (k0 + 1) (j - 1) (by omega) (by omega) hw'
      exact ⟨r, hr1, by omega⟩

/-- over an Archimedean field repeated halving gets below any positive tolerance -/
theorem exists_halvings [Archimedean K] (w xtol : K) (hx : 0 < xtol) :
    ∃ j, 1 ≤ j ∧ |w * (1 / 2) ^ j| < xtol := by
  by_cases hw : w = 0
  · exact ⟨1, le_refl _, by simp [hw, hx]⟩
  · have hpos : 0 < |w| := abs_pos.mpr hw
    obtain ⟨n, hn⟩ := exists_pow_lt_of_lt_one (div_pos hx hpos) (by norm_num : (1 / 2 : K) < 1)
    refine ⟨n + 1, by omega, ?_⟩
    rw [abs_mul, abs_of_pos (by positivity : (0 : K) < (1 / 2) ^ (n + 1))]
    have h2 : (1 / 2 : K) ^ (n + 1) ≤ (1 / 2) ^ n := by
      rw [pow_succ]; have : (0 : K) < (1 / 2) ^ n := by positivity
      nlinarith
    have := (lt_div_iff₀ hpos).mp hn
    calc |w| * (1 / 2) ^ (n + 1) ≤ |w| * (1 / 2) ^ n := by exact mul_le_mul_of_nonneg_left h2 hpos.le
      _ = (1 / 2) ^ n * |w| := by ring
      _ < xtol := this

end
end QE.C17
