/-
  Lemmas for C18, part 4: the pair enumeration of `_populate_random_tournament_row_col`.
-/
import Mathlib.Data.List.Nodup
import Mathlib.Data.List.Range
import Mathlib.Tactic.Ring
import Mathlib.Tactic.Linarith
import QEModel.C18
namespace QE.C18

theorem mem_tournPairs (n a b : Nat) : (a, b) ∈ tournPairs n ↔ a < b ∧ b < n := by
  unfold tournPairs
  simp only [List.mem_flatMap, List.mem_range, List.mem_map, List.mem_range'_1, Prod.mk.injEq]
  constructor
  · rintro ⟨i, hi, j, ⟨h1, h2⟩, rfl, rfl⟩
    omega
  · rintro ⟨h1, h2⟩
    exact ⟨a, by omega, b, ⟨by omega, by omega⟩, rfl, rfl⟩

theorem mem_tournPairs' (n : Nat) (p : Nat × Nat) : p ∈ tournPairs n ↔ p.1 < p.2 ∧ p.2 < n := by
  obtain ⟨a, b⟩ := p; exact mem_tournPairs n a b

theorem nodup_tournPairs (n : Nat) : (tournPairs n).Nodup := by
  unfold tournPairs
  rw [List.nodup_flatMap]
  constructor
  · intro i _
    refine (List.nodup_range' (s := i + 1) (n := n - (i + 1)) (step := 1)).map ?_
    intro x y h; simpa using h
  · refine List.Nodup.pairwise_of_forall_ne List.nodup_range ?_
    intro i _ j _ hij
    show List.Disjoint _ _
    intro p hp hq
    simp only [List.mem_map] at hp hq
    obtain ⟨x, _, rfl⟩ := hp
    obtain ⟨y, _, hy⟩ := hq
    simp at hy; omega

theorem sum_tournRow (n : Nat) :
    ((List.range n).map (fun i => n - (i + 1))).sum * 2 = n * (n - 1) := by
  induction n with
  | zero => simp
  | succ n ih =>
    rw [List.range_succ_eq_map]
    simp only [List.map_cons, List.map_map, List.sum_cons]
    have hf : ((fun i => n + 1 - (i + 1)) ∘ Nat.succ) = fun i => n - (i + 1) := by
      funext i; simp
    rw [hf, Nat.add_mul, ih]
    cases n with
    | zero => simp
    | succ m => simp only [Nat.add_sub_cancel]; ring

theorem length_tournPairs (n : Nat) : (tournPairs n).length = n * (n - 1) / 2 := by
  have h : (tournPairs n).length = ((List.range n).map (fun i => n - (i + 1))).sum := by
    unfold tournPairs
    rw [List.length_flatMap]
    congr 1
    apply List.map_congr_left
    intro i _
    simp
  have := sum_tournRow n
  omega

theorem orient_eq (p : Nat × Nat) (b : Bool) (x y : Nat) (hp : p.1 < p.2) (hxy : x < y) :
    (orient p b = (x, y) ↔ (p = (x, y) ∧ b = true)) ∧
    (orient p b = (y, x) ↔ (p = (x, y) ∧ b = false)) := by
  obtain ⟨p1, p2⟩ := p
  simp only at hp
  cases b <;> simp only [orient, Prod.ext_iff] <;> simp <;> omega

/-- For `a < b < n` the pair `(a, b)` sits at exactly one position `t` of the double loop, and
    which of `(a, b)`, `(b, a)` is an edge is decided by `bs[t]` alone. -/
theorem tournEdges_pair (n : Nat) (bs : List Bool) (hlen : bs.length = (tournPairs n).length)
    (a b : Nat) (hab : a < b) (hb : b < n) :
    ∃ t, ∃ (h2 : t < bs.length),
      ((a, b) ∈ tournEdges n bs ↔ bs[t] = true) ∧ ((b, a) ∈ tournEdges n bs ↔ bs[t] = false) := by
  have hmem : (a, b) ∈ tournPairs n := (mem_tournPairs n a b).2 ⟨hab, hb⟩
  obtain ⟨t, ht, hpt⟩ := List.mem_iff_getElem.1 hmem
  have ht2 : t < bs.length := by omega
  refine ⟨t, ht2, ?_, ?_⟩
  all_goals
    unfold tournEdges
    rw [List.mem_iff_getElem]
    simp only [List.length_zipWith, List.getElem_zipWith]
    constructor
  · rintro ⟨s, hs, hos⟩
    have hs1 : s < (tournPairs n).length := by omega
    have hps := (mem_tournPairs' n _).1 (List.getElem_mem hs1)
    obtain ⟨he, hbt⟩ := ((orient_eq _ _ a b hps.1 hab).1).1 hos
    have : s = t := (List.Nodup.getElem_inj_iff (nodup_tournPairs n)).1 (he.trans hpt.symm)
    subst this; exact hbt
  · intro hbt
    exact ⟨t, by omega, ((orient_eq _ _ a b (by rw [hpt]; exact hab) hab).1).2 ⟨hpt, hbt⟩⟩
  · rintro ⟨s, hs, hos⟩
    have hs1 : s < (tournPairs n).length := by omega
    have hps := (mem_tournPairs' n _).1 (List.getElem_mem hs1)
    obtain ⟨he, hbt⟩ := ((orient_eq _ _ a b hps.1 hab).2).1 hos
    have : s = t := (List.Nodup.getElem_inj_iff (nodup_tournPairs n)).1 (he.trans hpt.symm)
    subst this; exact hbt
  · intro hbt
    exact ⟨t, by omega, ((orient_eq _ _ a b (by rw [hpt]; exact hab) hab).2).2 ⟨hpt, hbt⟩⟩

/-- every edge joins two different nodes below `n` -/
theorem tournEdges_mem (n : Nat) (bs : List Bool) (x y : Nat) (h : (x, y) ∈ tournEdges n bs) :
    x ≠ y ∧ x < n ∧ y < n := by
  unfold tournEdges at h
  obtain ⟨s, hs, hos⟩ := List.mem_iff_getElem.1 h
  simp only [List.length_zipWith] at hs
  simp only [List.getElem_zipWith] at hos
  have hs1 : s < (tournPairs n).length := by omega
  have hps := (mem_tournPairs' n _).1 (List.getElem_mem hs1)
  revert hos
  generalize (tournPairs n)[s] = p at hps
  obtain ⟨p1, p2⟩ := p
  cases bs[s] <;> simp [orient] <;> intros <;> omega

/-! ### state-action pairs of `random_discrete_dp` -/

theorem saIndices_eq (na : Nat) (hna : 0 < na) : ∀ ns,
    saIndices ns na = (List.range (ns * na)).map (reshapeIndex na)
  | 0 => by simp [saIndices]
  | ns + 1 => by
    have ih := saIndices_eq na hna ns
    unfold saIndices at ih ⊢
    rw [List.range_succ, List.flatMap_append, ih]
    simp only [List.flatMap_cons, List.flatMap_nil, List.append_nil]
    rw [show (ns + 1) * na = ns * na + na from by ring, List.range_add, List.map_append, List.map_map]
    congr 1
    apply List.map_congr_left
    intro a ha
    have ha' : a < na := List.mem_range.1 ha
    simp only [Function.comp, reshapeIndex]
    rw [Nat.mul_comm ns na, Nat.mul_add_div hna, Nat.mul_add_mod, Nat.div_eq_of_lt ha', Nat.mod_eq_of_lt ha']
    simp

end QE.C18
