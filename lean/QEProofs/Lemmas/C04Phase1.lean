/-
  C04 — Phase 1 (`solve_phase_1`) in exact arithmetic: status 2 is reported only
  for infeasible programs.
-/
import QEProofs.Lemmas.C04Simplex
import QEProofs.Lemmas.C04Init
namespace QE.C04
open QE QE.Pivot Finset

variable {K : Type} [Field K] [LinearOrder K] [IsStrictOrderedRing K]

omit [IsStrictOrderedRing K] in
theorem cleanupStep_status (piv : K) (nm : ℕ) (r : Res K) (i : ℕ) :
    (cleanupStep piv nm r i).status = r.status := by
  unfold cleanupStep
  split_ifs
  · split <;> rfl
  · rfl

omit [IsStrictOrderedRing K] in
theorem cleanup_status (piv : K) (nm : ℕ) (l : List ℕ) (r : Res K) :
    (l.foldl (cleanupStep piv nm) r).status = r.status := by
  induction l generalizing r with
  | nil => rfl
  | cons i l ih => rw [List.foldl_cons, ih, cleanupStep_status]

omit [IsStrictOrderedRing K] in
/-- the three exits of `solve_phase_1` -/
theorem solvePhase1_cases (tol : Tol K) (fuel : ℕ) (T : M K) (b : List ℕ) :
    let r := solveTableau tol false fuel T b
    (r.status ≠ 0 ∧ solvePhase1 tol fuel T b = r) ∨
    (r.status = 0 ∧ tol.fea < r.T.get (r.T.nr - 1) (r.T.nc - 1) ∧
      solvePhase1 tol fuel T b = { r with status := 2 }) ∨
    (r.status = 0 ∧ ¬ tol.fea < r.T.get (r.T.nr - 1) (r.T.nc - 1) ∧
      solvePhase1 tol fuel T b
        = (List.range (T.nr - 1)).foldl (cleanupStep tol.piv (T.nc - (T.nr - 1 + 1))) r) := by
  intro r
  unfold solvePhase1
  by_cases h1 : r.status ≠ 0
  · left; exact ⟨h1, by simp only [r] at h1 ⊢; rw [if_pos h1]⟩
  · right
    have h1' : r.status = 0 := by simpa using h1
    by_cases h2 : tol.fea < r.T.get (r.T.nr - 1) (r.T.nc - 1)
    · left; refine ⟨h1', h2, ?_⟩
      simp only [r] at h1 h2 ⊢; rw [if_neg h1, if_pos h2]
    · right; refine ⟨h1', h2, ?_⟩
      simp only [r] at h1 h2 ⊢; rw [if_neg h1, if_neg h2]

omit [IsStrictOrderedRing K] in
/-- Phase 1 reports status 2 exactly when its simplex run ends optimal with a positive
    criterion value -/
theorem solvePhase1_status2 (tol : Tol K) (fuel : ℕ) (T : M K) (b : List ℕ)
    (h : (solvePhase1 tol fuel T b).status = 2) :
    (solveTableau tol false fuel T b).status = 0 ∧
      tol.fea < (solveTableau tol false fuel T b).T.get ((solveTableau tol false fuel T b).T.nr - 1)
        ((solveTableau tol false fuel T b).T.nc - 1) := by
  rcases solvePhase1_cases tol fuel T b with ⟨h1, e⟩ | ⟨h1, h2, _⟩ | ⟨h1, _, e⟩
  · rw [e] at h
    rcases solveTableau_status tol false fuel T b with s | s | s <;> rw [s] at h <;> simp at h
  · exact ⟨h1, h2⟩
  · rw [e, cleanup_status, h1] at h; simp at h

omit [IsStrictOrderedRing K] in
/-- the status of `linprog_simplex`: Phase 1's if it failed, else Phase 2's -/
theorem linprogSimplex_status (P : LP K) (fuel : ℕ) (tol : Tol K) :
    (linprogSimplex P fuel tol).status
      = if (solvePhase1 tol fuel (initTableau P) (initBasis P)).status ≠ 0
        then (solvePhase1 tol fuel (initTableau P) (initBasis P)).status
        else (solveTableau tol true (fuel - (solvePhase1 tol fuel (initTableau P) (initBasis P)).iters)
          (setCriterionRow P.c P.n (solvePhase1 tol fuel (initTableau P) (initBasis P)).basis
            (solvePhase1 tol fuel (initTableau P) (initBasis P)).T)
          (solvePhase1 tol fuel (initTableau P) (initBasis P)).basis).status := by
  unfold linprogSimplex
  simp only
  by_cases h : (solvePhase1 tol fuel (initTableau P) (initBasis P)).status ≠ 0
  · rw [if_pos h, if_pos h]
  · rw [if_neg h, if_neg h]

/-- **Phase 1, status 2 ⇒ infeasible** (exact arithmetic, every `max_iter`, every size):
    if the Phase-1 optimum of the artificial problem is positive, no `x ≥ 0` satisfies
    `A_ub x ≤ b_ub`, `A_eq x = b_eq`. -/
theorem phase1_status2_infeasible (P : LP K) (fuel : ℕ)
    (h : (solvePhase1 tol0 fuel (initTableau P) (initBasis P)).status = 2) :
    ¬ ∃ x, Feasible P x := by
  rintro ⟨x, hx⟩
  obtain ⟨h0, hpos⟩ := solvePhase1_status2 tol0 fuel (initTableau P) (initBasis P) h
  have hinv := solveTableau_inv0 false fuel (initTableau P) (initBasis P) _ _
    (initTableau_shape P) (initTableau_canon P) (initTableau_rhs_nonneg P)
  have hpc := solveTableau_status0 (tol0 : Tol K) false fuel (initTableau P) (initBasis P) h0
  set r := solveTableau (tol0 : Tol K) false fuel (initTableau P) (initBasis P) with hr
  have hL : r.T.nr - 1 = P.m + P.k := by rw [hinv.shape.1]; rfl
  have hN : r.T.nc - 1 = P.n + P.m + (P.m + P.k) := by rw [hinv.shape.2]; rfl
  rw [hL, hN] at hpos
  obtain ⟨_, _, hval, hopt⟩ := inv0_optimal false (initTableau P) _ _ r.T r.basis hinv hpc
  obtain ⟨z, hz0, hzrows, hzart, _⟩ := feasible_embed P x hx
  have hle := hopt z hz0 hzrows (by intro h; cases h)
  rw [hval, initTableau_obj P z hzrows] at hle
  have hsum : ∑ i ∈ range (P.m + P.k), z (P.n + P.m + i) = 0 :=
    Finset.sum_eq_zero (fun i hi => hzart i (Finset.mem_range.mp hi))
  rw [hsum] at hle
  have : (tol0 : Tol K).fea = 0 := rfl
  rw [this] at hpos
  linarith

end QE.C04
