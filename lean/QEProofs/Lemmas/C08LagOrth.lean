/-
  Lemmas for C08, part 15: Laguerre's differential equation and orthogonality of the
  recurrence-defined generalised Laguerre polynomials under any linear functional obeying the
  integration-by-parts rule of the gamma weight `x^a e^{-x}` on `[0, ∞)`.
-/
import QEProofs.Lemmas.C08Lag
import QEProofs.Lemmas.C08Gauss
import Mathlib.Algebra.Polynomial.Degree.Lemmas
import Mathlib.Algebra.BigOperators.Intervals
namespace QE.C08
open Polynomial

set_option linter.unusedSectionVars false

variable {K : Type} [Field K] [LinearOrder K] [IsStrictOrderedRing K]

/-- Laguerre's differential equation: `X Lₙ'' + (a + 1 − X) Lₙ' + n Lₙ = 0` -/
theorem laguerrePoly_ode (a : K) (n : Nat) :
    X * derivative (derivative (laguerrePoly a n)) + (C a + 1 - X) * derivative (laguerrePoly a n)
      + (n : K[X]) * laguerrePoly a n = 0 := by
  cases n with
  | zero => simp [laguerrePoly]
  | succ n =>
    obtain ⟨hF, hG⟩ := laguerrePoly_deriv_pair a n
    have hdG := congrArg derivative hG
    have hdF := hF
    simp only [derivative_mul, derivative_sub, derivative_add, derivative_natCast, derivative_X, derivative_C,
      zero_mul, zero_add, add_zero, one_mul] at hdG
    push_cast at hG hdG ⊢
    linear_combination hdG + ((n : K[X]) + 1 + C a) * hF - hG

/-- **Pairwise orthogonality.**  For any linear `Λ` with `Λ(X f' + (a + 1 − X) f) = 0` for all
    polynomials `f` (integration by parts against `x^a e^{-x}` on `[0, ∞)`; `a` = shape − 1),
    `Λ(Lₙ Lₘ) = 0` whenever `n ≠ m`. -/
theorem laguerrePoly_orthogonal (a : K) (Λ : K[X] →ₗ[K] K)
    (hIBP : ∀ f : K[X], Λ (X * derivative f + (C a + 1 - X) * f) = 0) (n m : Nat) (hnm : n ≠ m) :
    Λ (laguerrePoly a n * laguerrePoly a m) = 0 := by
  have green : ∀ i j : Nat,
      -((i : K)) * Λ (laguerrePoly a i * laguerrePoly a j)
        + Λ (X * derivative (laguerrePoly a i) * derivative (laguerrePoly a j)) = 0 := by
    intro i j
    have h := hIBP (derivative (laguerrePoly a i) * laguerrePoly a j)
    have hode := laguerrePoly_ode a i
    have e : X * derivative (derivative (laguerrePoly a i) * laguerrePoly a j)
          + (C a + 1 - X) * (derivative (laguerrePoly a i) * laguerrePoly a j)
        = (-((i : K))) • (laguerrePoly a i * laguerrePoly a j)
          + X * derivative (laguerrePoly a i) * derivative (laguerrePoly a j) := by
      rw [smul_eq_C_mul, derivative_mul]
      simp only [C_neg, C_eq_natCast]
      linear_combination (laguerrePoly a j) * hode
    rw [e, map_add, map_smul, smul_eq_mul] at h
    exact h
  have g1 := green n m
  have g2 := green m n
  have hsym : Λ (X * derivative (laguerrePoly a m) * derivative (laguerrePoly a n))
      = Λ (X * derivative (laguerrePoly a n) * derivative (laguerrePoly a m)) := by
    congr 1; ring
  have hcomm : Λ (laguerrePoly a m * laguerrePoly a n) = Λ (laguerrePoly a n * laguerrePoly a m) := by
    congr 1; ring
  rw [hsym, hcomm] at g2
  have hdiff : ((m : K) - (n : K)) * Λ (laguerrePoly a n * laguerrePoly a m) = 0 := by
    linear_combination g1 - g2
  rcases mul_eq_zero.mp hdiff with h | h
  · exfalso
    have h' : (m : K) = (n : K) := by linear_combination h
    exact hnm (by exact_mod_cast h'.symm)
  · exact h

/-- coefficients of `L_{n+2}` from the recurrence -/
theorem laguerrePoly_coeff_succ (a : K) (n k : Nat) :
    (laguerrePoly a (n + 2)).coeff (k + 1)
      = (1 / ((n + 2 : Nat) : K)) * (((((2 * n + 3 : Nat) : K)) + a) * (laguerrePoly a (n + 1)).coeff (k + 1)
          - (laguerrePoly a (n + 1)).coeff k
          - ((((n + 1 : Nat) : K)) + a) * (laguerrePoly a n).coeff (k + 1)) := by
  have e1 : (((2 * n + 3 : Nat) : K[X]) + C a - X) = C ((((2 * n + 3 : Nat) : K)) + a) - X := by
    rw [C_add, C_eq_natCast]
  have e2 : (((n + 1 : Nat) : K[X]) + C a) = C ((((n + 1 : Nat) : K)) + a) := by
    rw [C_add, C_eq_natCast]
  rw [laguerrePoly, e1, e2, coeff_C_mul, coeff_sub, sub_mul, coeff_sub, coeff_C_mul, coeff_C_mul, coeff_X_mul]

/-- `Lₙ` has degree exactly `n` (non-zero leading coefficient `(−1)ⁿ/n!`) -/
theorem laguerrePoly_coeffs (a : K) : ∀ n : Nat,
    (∀ k, n < k → (laguerrePoly a n).coeff k = 0) ∧ (laguerrePoly a n).coeff n ≠ 0 := by
  intro n
  induction n using Nat.strongRecOn with
  | _ n ih =>
    match n with
    | 0 =>
      constructor
      · intro k hk
        simp only [laguerrePoly]
        rw [coeff_one, if_neg (by omega)]
      · simp [laguerrePoly]
    | 1 =>
      constructor
      · intro k hk
        simp only [laguerrePoly, coeff_sub, coeff_add, coeff_one, coeff_C, coeff_X]
        rw [if_neg (by omega), if_neg (by omega), if_neg (by omega)]; ring
      · simp [laguerrePoly, coeff_one, coeff_X]
    | n + 2 =>
      obtain ⟨z1, p1⟩ := ih (n + 1) (by omega)
      obtain ⟨z0, _⟩ := ih n (by omega)
      have hn : ((n + 2 : Nat) : K) ≠ 0 := by
        have : n + 2 ≠ 0 := by omega
        exact_mod_cast this
      constructor
      · intro k hk
        obtain ⟨k', rfl⟩ : ∃ k', k = k' + 1 := ⟨k - 1, by omega⟩
        rw [laguerrePoly_coeff_succ, z1 (k' + 1) (by omega), z1 k' (by omega), z0 (k' + 1) (by omega)]
        ring
      · rw [laguerrePoly_coeff_succ, z1 (n + 1 + 1) (by omega), z0 (n + 1 + 1) (by omega)]
        intro h0
        apply p1
        field_simp at h0
        linear_combination -h0

theorem laguerrePoly_degree (a : K) (n : Nat) : (laguerrePoly a n).degree = (n : WithBot Nat) := by
  obtain ⟨zs, lne⟩ := laguerrePoly_coeffs a n
  have h1 : (laguerrePoly a n).natDegree ≤ n := natDegree_le_iff_coeff_eq_zero.mpr zs
  have h2 : n ≤ (laguerrePoly a n).natDegree := le_natDegree_of_ne_zero lne
  have hne : laguerrePoly a n ≠ 0 := by
    intro h0; rw [h0, coeff_zero] at lne; exact lne rfl
  rw [degree_eq_natDegree hne, le_antisymm h1 h2]

/-- orthogonality to every polynomial of lower degree -/
theorem laguerrePoly_orthogonal_lower (a : K) (Λ : K[X] →ₗ[K] K)
    (hIBP : ∀ f : K[X], Λ (X * derivative f + (C a + 1 - X) * f) = 0) (n : Nat) :
    ∀ (d : Nat) (q : K[X]), q.natDegree ≤ d → d < n → Λ (laguerrePoly a n * q) = 0 := by
  intro d
  induction d with
  | zero =>
    intro q hq hn
    have hqC : q = C (q.coeff 0) := eq_C_of_natDegree_le_zero hq
    have h0 := laguerrePoly_orthogonal a Λ hIBP n 0 (by omega)
    rw [hqC]
    have e : laguerrePoly a n * C (q.coeff 0) = (q.coeff 0) • (laguerrePoly a n * laguerrePoly a 0) := by
      rw [smul_eq_C_mul]; simp [laguerrePoly]; ring
    rw [e, map_smul, h0, smul_zero]
  | succ d ih =>
    intro q hq hn
    obtain ⟨zs, lne⟩ := laguerrePoly_coeffs a (d + 1)
    set c : K := q.coeff (d + 1) / (laguerrePoly a (d + 1)).coeff (d + 1) with hc
    have hq' : (q - C c * laguerrePoly a (d + 1)).natDegree ≤ d := by
      rw [natDegree_le_iff_coeff_eq_zero]
      intro N hN
      rw [coeff_sub, coeff_C_mul]
      by_cases hN1 : N = d + 1
      · subst hN1
        rw [hc]; field_simp; ring
      · have hN2 : d + 1 < N := by omega
        rw [zs N hN2, coeff_eq_zero_of_natDegree_lt (lt_of_le_of_lt hq hN2)]
        ring
    have h1 := ih (q - C c * laguerrePoly a (d + 1)) hq' (by omega)
    have h2 := laguerrePoly_orthogonal a Λ hIBP n (d + 1) (by omega)
    have e : laguerrePoly a n * q
        = laguerrePoly a n * (q - C c * laguerrePoly a (d + 1)) + c • (laguerrePoly a n * laguerrePoly a (d + 1)) := by
      rw [smul_eq_C_mul]; ring
    rw [e, map_add, map_smul, h1, h2, smul_zero, add_zero]

theorem laguerrePoly_orth_degree (a : K) (Λ : K[X] →ₗ[K] K)
    (hIBP : ∀ f : K[X], Λ (X * derivative f + (C a + 1 - X) * f) = 0) (n : Nat) (q : K[X])
    (hq : q.degree < (n : WithBot Nat)) : Λ (laguerrePoly a n * q) = 0 := by
  by_cases hq0 : q = 0
  · rw [hq0, mul_zero, map_zero]
  · have : q.natDegree < n := (natDegree_lt_iff_degree_lt hq0).mpr hq
    exact laguerrePoly_orthogonal_lower a Λ hIBP n q.natDegree q (le_refl _) this

/-- the moment functional of the gamma law with shape `a + 1` and scale 1:
    `Λ(c·X^k) = c·Π_{r<k} (a + 1 + r)` -/
noncomputable def gammaFunctional (a : K) : K[X] →ₗ[K] K :=
  Polynomial.lsum fun k => (∏ r ∈ Finset.range k, (a + 1 + (r : K))) • (LinearMap.id : K →ₗ[K] K)

theorem gammaFunctional_monomial (a : K) (k : Nat) (c : K) :
    gammaFunctional a (monomial k c) = c * ∏ r ∈ Finset.range k, (a + 1 + (r : K)) := by
  simp only [gammaFunctional, Polynomial.lsum_apply]
  rw [Polynomial.sum_monomial_index]
  · simp only [LinearMap.smul_apply, LinearMap.id_apply, smul_eq_mul]; ring
  · simp

/-- it obeys the integration-by-parts rule of the weight `x^a e^{-x}` -/
theorem gammaFunctional_ibp (a : K) (f : K[X]) :
    gammaFunctional a (X * derivative f + (C a + 1 - X) * f) = 0 := by
  induction f using Polynomial.induction_on' with
  | add p q hp hq =>
    have e : X * derivative (p + q) + (C a + 1 - X) * (p + q)
        = (X * derivative p + (C a + 1 - X) * p) + (X * derivative q + (C a + 1 - X) * q) := by
      rw [derivative_add]; ring
    rw [e, map_add, hp, hq, add_zero]
  | monomial k c =>
    have e : X * derivative (monomial k c) + (C a + 1 - X) * monomial k c
        = monomial k (((k : K) + (a + 1)) * c) - monomial (k + 1) c := by
      cases k with
      | zero =>
        simp only [monomial_zero_left, derivative_C, mul_zero, zero_add, Nat.cast_zero]
        rw [← C_mul_X_pow_eq_monomial, pow_one]
        simp only [C_mul, C_add, C_1]; ring
      | succ k =>
        rw [derivative_monomial, Nat.add_sub_cancel]
        simp only [← C_mul_X_pow_eq_monomial, C_mul, C_add, C_1, C_eq_natCast]
        push_cast
        ring
    rw [e, map_sub, gammaFunctional_monomial, gammaFunctional_monomial, Finset.prod_range_succ]
    ring

end QE.C08
