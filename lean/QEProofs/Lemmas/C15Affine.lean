/-
  Lemmas for C15, part 4: the sup-norm distance `maxAbsDiff` is a metric on vectors of a fixed
  length, and the affine(-clipped) maps of the correspondence are Lipschitz for it with the
  maximal absolute row sum as modulus.
-/
import Mathlib.Algebra.Order.Field.Basic
import Mathlib.Algebra.Order.AbsoluteValue.Basic
import Mathlib.Tactic.Linarith
import Mathlib.Tactic.Ring
import QEModel.C15
import QEProofs.Lemmas.C15Nash
import QEProofs.Lemmas.C15Convex
namespace QE.C15

set_option linter.unusedSectionVars false
variable {K : Type} [Field K] [LinearOrder K] [IsStrictOrderedRing K]

theorem maxAbsDiff_coord (a b : List K) (i : Nat) (hi : i < a.length) (hj : i < b.length) :
    |a.getD i 0 - b.getD i 0| ≤ maxAbsDiff a b :=
  (maxAbsDiff_le_iff a b _ (maxAbsDiff_nonneg a b)).mp (le_refl _) i hi hj

theorem maxAbsDiff_symm (a b : List K) : maxAbsDiff a b = maxAbsDiff b a := by
  apply le_antisymm
  · rw [maxAbsDiff_le_iff _ _ _ (maxAbsDiff_nonneg _ _)]
    intro i hi hj
    rw [abs_sub_comm]; exact maxAbsDiff_coord b a i hj hi
  · rw [maxAbsDiff_le_iff _ _ _ (maxAbsDiff_nonneg _ _)]
    intro i hi hj
    rw [abs_sub_comm]; exact maxAbsDiff_coord a b i hj hi

theorem maxAbsDiff_triangle (a b c : List K) (h1 : a.length = b.length) (h2 : b.length = c.length) :
    maxAbsDiff a c ≤ maxAbsDiff a b + maxAbsDiff b c := by
  rw [maxAbsDiff_le_iff _ _ _ (add_nonneg (maxAbsDiff_nonneg _ _) (maxAbsDiff_nonneg _ _))]
  intro i hi hj
  have e1 := maxAbsDiff_coord a b i hi (by omega)
  have e2 := maxAbsDiff_coord b c i (by omega) hj
  have : a.getD i 0 - c.getD i 0 = (a.getD i 0 - b.getD i 0) + (b.getD i 0 - c.getD i 0) := by ring
  rw [this]
  exact le_trans (abs_add_le _ _) (add_le_add e1 e2)

/-- `|Σ a_j x_j − Σ a_j y_j| ≤ (Σ |a_j|) · d` when `|x_j − y_j| ≤ d` for all `j` -/
theorem fsum_zipWith_lip (d : K) (hd : 0 ≤ d) :
    ∀ (row x y : List K), x.length = y.length →
      (∀ j, j < x.length → |x.getD j 0 - y.getD j 0| ≤ d) →
      |fsum (List.zipWith (fun a t => a * t) row x) - fsum (List.zipWith (fun a t => a * t) row y)|
        ≤ fsum (row.map fun a => |a|) * d := by
  intro row
  induction row with
  | nil => intro x y _ _; simp [fsum_nil]
  | cons a row ih =>
    intro x y hl hxy
    cases x with
    | nil =>
      cases y with
      | nil =>
        simp only [List.zipWith_nil_right, fsum_nil, sub_self, abs_zero]
        have : 0 ≤ fsum ((a :: row).map fun a => |a|) := by
          have := fsum_zipWith_nonneg (K := K) (fun _ => 1) ((a :: row).map fun a => |a|)
            (List.replicate (a :: row).length [])
            (by intro r hr; obtain ⟨z, _, rfl⟩ := List.mem_map.mp hr; exact abs_nonneg z)
            (by intro _ _; exact zero_le_one)
          have e := fsum_zipWith_const (K := K) (fun _ => 1) ((a :: row).map fun a => |a|)
            (List.replicate (a :: row).length []) (by simp) (by intro _ _; rfl)
          rw [e] at this; exact this
        exact mul_nonneg this hd
      | cons _ _ => simp at hl
    | cons u xs =>
      cases y with
      | nil => simp at hl
      | cons v ys =>
        simp only [List.zipWith_cons_cons, fsum_cons, List.map_cons]
        have h0 : |u - v| ≤ d := by
          have := hxy 0 (by simp); simpa using this
        have hrest := ih xs ys (by simpa using hl) (by
          intro j hj
          have := hxy (j + 1) (by simp; omega)
          simpa using this)
        have e : a * u + fsum (List.zipWith (fun a t => a * t) row xs)
            - (a * v + fsum (List.zipWith (fun a t => a * t) row ys))
            = a * (u - v) + (fsum (List.zipWith (fun a t => a * t) row xs)
              - fsum (List.zipWith (fun a t => a * t) row ys)) := by ring
        rw [e]
        refine le_trans (abs_add_le _ _) ?_
        rw [abs_mul]
        have : |a| * |u - v| ≤ |a| * d := mul_le_mul_of_nonneg_left h0 (abs_nonneg a)
        nlinarith

/-- the clipping step of `affClip` -/
def clipTo (box : Option (K × K)) (s : K) : K :=
  match box with
  | none => s
  | some (lo, hi) => if hi < (if s < lo then lo else s) then hi else (if s < lo then lo else s)

/-- the projection on an interval is 1-Lipschitz -/
theorem clip_lip (box : Option (K × K)) (s t : K) : |clipTo box s - clipTo box t| ≤ |s - t| := by
  cases box with
  | none => exact le_refl _
  | some p =>
    obtain ⟨lo, hi⟩ := p
    simp only [clipTo]
    rw [abs_le]
    have h1 := neg_abs_le (s - t)
    have h2 := le_abs_self (s - t)
    have h3 := abs_nonneg (s - t)
    split_ifs <;> constructor <;> linarith

theorem affClip_length (A : List (List K)) (b : List K) (box : Option (K × K)) (v : List K) :
    (affClip A b box v).length = min A.length b.length := by
  unfold affClip; simp

/-- **Lipschitz modulus of the affine(-clipped) maps**: the maximal absolute row sum -/
theorem affClip_lip (A : List (List K)) (b : List K) (box : Option (K × K)) (κ : K) (hκ : 0 ≤ κ)
    (hrows : ∀ row ∈ A, fsum (row.map fun a => |a|) ≤ κ) (x y : List K) (hl : x.length = y.length) :
    maxAbsDiff (affClip A b box x) (affClip A b box y) ≤ κ * maxAbsDiff x y := by
  have hd := maxAbsDiff_nonneg x y
  rw [maxAbsDiff_le_iff _ _ _ (mul_nonneg hκ hd)]
  intro i hi hj
  rw [affClip_length] at hi
  have hiA : i < A.length := by omega
  have hib : i < b.length := by omega
  have hcoord : ∀ j, j < x.length → |x.getD j 0 - y.getD j 0| ≤ maxAbsDiff x y :=
    fun j hj' => maxAbsDiff_coord x y j hj' (by omega)
  have hlip := fsum_zipWith_lip (maxAbsDiff x y) hd A[i] x y hl hcoord
  have hrow := hrows A[i] (List.getElem_mem hiA)
  have key : ∀ v : List K, (affClip A b box v).getD i 0 =
      clipTo box (fsum (List.zipWith (fun a t => a * t) A[i] v) + b[i]) := by
    intro v
    unfold affClip
    rw [List.getD_eq_getElem?_getD, List.getElem?_eq_getElem (by simp; omega)]
    simp only [Option.getD_some, List.getElem_zipWith, fsum, clipTo]
    cases box with
    | none => rfl
    | some p => rfl
  rw [key x, key y]
  refine le_trans (clip_lip box _ _) ?_
  have e : fsum (List.zipWith (fun a t => a * t) A[i] x) + b[i]
      - (fsum (List.zipWith (fun a t => a * t) A[i] y) + b[i])
      = fsum (List.zipWith (fun a t => a * t) A[i] x) - fsum (List.zipWith (fun a t => a * t) A[i] y) := by
    ring
  rw [e]
  exact le_trans hlip (mul_le_mul_of_nonneg_right hrow hd)

end QE.C15
