/-
  Lemmas for property C05 (Lemke-Howson): the best-response polytopes are bounded, so the
  entering column of a tableau always has a positive entry and the (exact) ratio test always
  returns a legal pivot row — also when the lexicographic tie-breaking does not single one out
  (`found = False` with several minimisers left; the code then uses `argmins[0]`).
-/
import QEProofs.Lemmas.C05Tab

namespace QE.C05
open QE QE.Pivot Finset

set_option linter.unusedSectionVars false
variable {K : Type} [Field K] [LinearOrder K] [IsStrictOrderedRing K]

/-! ### the row returned by `_lex_min_ratio_test`, whatever the flag -/

theorem lexLoop_ne_nil (T : M K) (pc : ℕ) (tp td : K) (js : List ℕ) :
    ∀ (a : List ℕ), a ≠ [] → (∀ i ∈ a, tp < T.get i pc) → (lexLoop T pc tp td js a).2 ≠ [] := by
  induction js with
  | nil => intro a ha _; simpa [lexLoop] using ha
  | cons j js ih =>
    intro a ha hpos
    unfold lexLoop
    by_cases hj : j = pc
    · rw [if_pos hj]; exact ih a ha hpos
    · rw [if_neg hj]
      have hne : minRatioNoTie T pc j a tp td ≠ [] := by
        intro hnil
        have hall := minRatioNoTie_eq_nil T pc j a tp td hnil
        obtain ⟨x, hx⟩ := List.exists_mem_of_ne_nil a ha
        exact absurd (hpos x hx) (not_lt.mpr (hall x hx))
      by_cases hl : (minRatioNoTie T pc j a tp td).length = 1
      · simp only [hl, if_true]; exact hne
      · simp only [hl, if_false]
        exact ih _ hne (fun i hi => (minRatioNoTie_mem T pc j a tp td i hi).2)

theorem headD_mem (l : List ℕ) (h : l ≠ []) : l.headD 0 ∈ l := by
  cases l with
  | nil => exact absurd rfl h
  | cons x xs => simp

/-- with tie tolerance 0: if the pivot column has an entry above `tp`, the returned row is a
    row with such an entry that minimises the ratio — whether or not `found` is reported -/
theorem lexMinRatio_row (T : M K) (pc ss : ℕ) (tp : K) (hex : ∃ k, k < T.nr ∧ tp < T.get k pc) :
    (lexMinRatio T pc ss tp 0).2 < T.nr ∧ tp < T.get (lexMinRatio T pc ss tp 0).2 pc ∧
      ∀ k, k < T.nr → tp < T.get k pc →
        T.get (lexMinRatio T pc ss tp 0).2 (T.nc - 1) / T.get (lexMinRatio T pc ss tp 0).2 pc
          ≤ T.get k (T.nc - 1) / T.get k pc := by
  have hne : minRatioNoTie T pc (T.nc - 1) (List.range T.nr) tp 0 ≠ [] := by
    intro hnil
    obtain ⟨k, hk, hpos⟩ := hex
    have := minRatioNoTie_eq_nil T pc (T.nc - 1) (List.range T.nr) tp 0 hnil k (List.mem_range.mpr hk)
    exact absurd hpos (not_lt.mpr this)
  have hmem : (lexMinRatio T pc ss tp 0).2 ∈ minRatioNoTie T pc (T.nc - 1) (List.range T.nr) tp 0 := by
    unfold lexMinRatio
    by_cases h1 : (minRatioNoTie T pc (T.nc - 1) (List.range T.nr) tp 0).length = 1
    · simp only [h1, if_true]
      exact headD_mem _ hne
    · simp only [h1, if_false]
      have h2 : (minRatioNoTie T pc (T.nc - 1) (List.range T.nr) tp 0).length ≥ 2 := by
        have : (minRatioNoTie T pc (T.nc - 1) (List.range T.nr) tp 0).length ≠ 0 := by
          intro h0; exact hne (List.length_eq_zero_iff.mp h0)
        omega
      simp only [h2, if_true]
      have hl := lexLoop_ne_nil T pc tp 0 ((List.range T.nr).map (· + ss)) _ hne
        (fun i hi => (minRatioNoTie_mem T pc (T.nc - 1) (List.range T.nr) tp 0 i hi).2)
      exact lexLoop_mem T pc tp 0 _ _ _ (headD_mem _ hl)
  have hp := minRatioNoTie_mem T pc (T.nc - 1) (List.range T.nr) tp 0 _ hmem
  refine ⟨List.mem_range.mp hp.1, hp.2, ?_⟩
  intro k hk hkpos
  exact minRatioNoTie_min T pc (T.nc - 1) (List.range T.nr) tp _ k hmem (List.mem_range.mpr hk) hkpos

/-! ### boundedness -/

/-- in a canonical tableau, `Σ_j T[i,j] · (Σ_{i'} [b_{i'} = j] w_{i'}) = w_i` -/
theorem canon_sum (T : M K) (b : List ℕ) (L N : ℕ) (hc : TCanon T b L N) (w : ℕ → K)
    (i : ℕ) (hi : i < L) :
    ∑ j ∈ range N, T.get i j * (∑ i' ∈ range L, if b.getD i' 0 = j then w i' else 0) = w i := by
  simp only [mul_sum]
  rw [sum_comm]
  have : ∀ i' ∈ range L, ∑ j ∈ range N, T.get i j * (if b.getD i' 0 = j then w i' else 0)
      = if i = i' then w i' else 0 := by
    intro i' hi'
    have hi'' := mem_range.mp hi'
    obtain ⟨hb, hcol⟩ := hc.2 i' hi''
    simp only [mul_ite, mul_zero]
    rw [sum_ite_eq (range N) (b.getD i' 0) (fun j => T.get i j * w i'),
      if_pos (mem_range.mpr hb), hcol i hi]
    by_cases h : i = i'
    · rw [if_pos h, if_pos h, one_mul]
    · rw [if_neg h, if_neg h, zero_mul]
  rw [sum_congr rfl this, sum_ite_eq (range L) i w, if_pos (mem_range.mpr hi)]

/-- **boundedness ⇒ the entering column has a positive entry.** If the tableau `T` is canonical
    for `b`, has the solution set of `T0`, and `T0` is entry-wise non-negative with a positive
    entry in column `c`, then column `c` of `T` has a positive entry. -/
theorem col_has_pos (T T0 : M K) (b : List ℕ) (L N c : ℕ) (hs : TShape T L N) (hs0 : TShape T0 L N)
    (hc : TCanon T b L N) (hsol : ∀ z, RowsSat T z L ↔ RowsSat T0 z L)
    (hnn : ∀ i j, i < L → j < N → 0 ≤ T0.get i j)
    (hcN : c < N) (hpos : ∃ i0, i0 < L ∧ 0 < T0.get i0 c) :
    ∃ k, k < L ∧ 0 < T.get k c := by
  by_contra hcon
  have hle : ∀ k, k < L → T.get k c ≤ 0 := by
    intro k hk
    by_contra h
    exact hcon ⟨k, hk, not_le.mp h⟩
  -- the ray direction
  let e : ℕ → K := fun j => ∑ i' ∈ range L, if b.getD i' 0 = j then - T.get i' c else 0
  let d : ℕ → K := fun j => (if j = c then 1 else 0) + e j
  have he_nn : ∀ j, 0 ≤ e j := by
    intro j
    apply sum_nonneg
    intro i' hi'
    split
    · have := hle i' (mem_range.mp hi'); linarith
    · exact le_refl _
  have hd_nn : ∀ j, 0 ≤ d j := by
    intro j
    have := he_nn j
    show 0 ≤ (if j = c then 1 else 0) + e j
    split <;> linarith
  have hdc : 1 ≤ d c := by
    have := he_nn c
    show 1 ≤ (if c = c then 1 else 0) + e c
    rw [if_pos rfl]; linarith
  -- `d` is in the kernel of `T`
  have hker : ∀ i, i < L → ∑ j ∈ range N, T.get i j * d j = 0 := by
    intro i hi
    have h1 : ∑ j ∈ range N, T.get i j * d j
        = ∑ j ∈ range N, T.get i j * (if j = c then 1 else 0) + ∑ j ∈ range N, T.get i j * e j := by
      rw [← sum_add_distrib]
      apply sum_congr rfl
      intro j _
      show T.get i j * ((if j = c then 1 else 0) + e j) = _
      ring
    have h2 : ∑ j ∈ range N, T.get i j * (if j = c then (1 : K) else 0) = T.get i c := by
      simp only [mul_ite, mul_one, mul_zero]
      rw [sum_ite_eq' (range N) c (fun j => T.get i j), if_pos (mem_range.mpr hcN)]
    have h3 := canon_sum T b L N hc (fun i' => - T.get i' c) i hi
    rw [h1, h2, h3]; ring
  -- hence `z + d` solves `T`, hence `T0`; subtracting, `d` is in the kernel of `T0`
  have hz := tsol_rowsSat T b L N hs hc
  have hzd : RowsSat T (fun j => tsol T b L N j + d j) L := by
    intro i hi
    have := hz i hi
    unfold RowSat at this ⊢
    rw [hs.2, Nat.add_sub_cancel] at this ⊢
    have hsplit : ∑ j ∈ range N, T.get i j * (tsol T b L N j + d j)
        = ∑ j ∈ range N, T.get i j * tsol T b L N j + ∑ j ∈ range N, T.get i j * d j := by
      rw [← sum_add_distrib]
      apply sum_congr rfl
      intro j _; ring
    rw [hsplit, this, hker i hi, add_zero]
  obtain ⟨i0, hi0, hp0⟩ := hpos
  have a1 := (hsol _).mp hz i0 hi0
  have a2 := (hsol _).mp hzd i0 hi0
  unfold RowSat at a1 a2
  rw [hs0.2, Nat.add_sub_cancel] at a1 a2
  have hsplit : ∑ j ∈ range N, T0.get i0 j * (tsol T b L N j + d j)
      = ∑ j ∈ range N, T0.get i0 j * tsol T b L N j + ∑ j ∈ range N, T0.get i0 j * d j := by
    rw [← sum_add_distrib]
    apply sum_congr rfl
    intro j _; ring
  rw [hsplit, a1] at a2
  have hzero : ∑ j ∈ range N, T0.get i0 j * d j = 0 := by linarith
  have hge : T0.get i0 c * d c ≤ ∑ j ∈ range N, T0.get i0 j * d j :=
    single_le_sum (f := fun j => T0.get i0 j * d j)
      (fun j hj => mul_nonneg (hnn i0 j hi0 (mem_range.mp hj)) (hd_nn j)) (mem_range.mpr hcN)
  have : 0 < T0.get i0 c * d c := mul_pos hp0 (by linarith)
  linarith

/-- one pivoting step of the exact Lemke-Howson iteration on a bounded tableau: the row returned
    by the ratio test is a legal pivot row and everything is preserved -/
theorem tab_step' (T T0 : M K) (b : List ℕ) (L N c ss : ℕ) (hs : TShape T L N)
    (hs0 : TShape T0 L N) (hc : TCanon T b L N) (hr : TRhs T L N)
    (hsol : ∀ z, RowsSat T z L ↔ RowsSat T0 z L)
    (hnn : ∀ i j, i < L → j < N → 0 ≤ T0.get i j)
    (hcN : c < N) (hpos : ∃ i0, i0 < L ∧ 0 < T0.get i0 c) :
    (lexMinRatio T c ss 0 0).2 < L ∧
    TShape (pivot T c (lexMinRatio T c ss 0 0).2) L N ∧
    TCanon (pivot T c (lexMinRatio T c ss 0 0).2) (b.set (lexMinRatio T c ss 0 0).2 c) L N ∧
    TRhs (pivot T c (lexMinRatio T c ss 0 0).2) L N ∧
    (∀ z, RowsSat (pivot T c (lexMinRatio T c ss 0 0).2) z L ↔ RowsSat T0 z L) := by
  obtain ⟨k, hk, hkpos⟩ := col_has_pos T T0 b L N c hs hs0 hc hsol hnn hcN hpos
  obtain ⟨hrL, hpos', hmin⟩ := lexMinRatio_row T c ss 0 ⟨k, by rw [hs.1]; exact hk, hkpos⟩
  rw [hs.1] at hrL
  have hne : T.get (lexMinRatio T c ss 0 0).2 c ≠ 0 := ne_of_gt hpos'
  refine ⟨hrL, tshape_pivot T L N c _ hs, tcanon_pivot T b L N c _ hs hc hcN hrL hne, ?_, ?_⟩
  · apply trhs_pivot T L N c _ hs hr hrL hpos'
    intro k hk hkpos
    have := hmin k (by rw [hs.1]; exact hk) hkpos
    rwa [hs.2, Nat.add_sub_cancel] at this
  · intro z
    rw [← hsol z]
    exact pivot_rowsSat T z c _ L (by rw [hs.1]) hrL (by rw [hs.2]; omega) hne

/-! ### `payoff_matrix.min()` and the shift -/

theorem foldl_min_le (f : ℕ → K) : ∀ (l : List ℕ) (a0 : K),
    l.foldl (fun acc j => if f j < acc then f j else acc) a0 ≤ a0 ∧
    ∀ j, j ∈ l → l.foldl (fun acc j => if f j < acc then f j else acc) a0 ≤ f j
  | [], a0 => by simp
  | x :: xs, a0 => by
    obtain ⟨h1, h2⟩ := foldl_min_le f xs (if f x < a0 then f x else a0)
    have hstep : (if f x < a0 then f x else a0) ≤ a0 ∧ (if f x < a0 then f x else a0) ≤ f x := by
      split
      · rename_i h; exact ⟨le_of_lt h, le_refl _⟩
      · rename_i h; exact ⟨le_refl _, not_lt.mp h⟩
    rw [List.foldl_cons]
    refine ⟨le_trans h1 hstep.1, ?_⟩
    intro j hj
    rcases List.mem_cons.mp hj with rfl | hj
    · exact le_trans h1 hstep.2
    · exact h2 j hj

theorem foldl_rows_min_le (c : ℕ) (A : ℕ → ℕ → K) : ∀ (l : List ℕ) (a0 : K),
    l.foldl (fun acc i =>
      (List.range c).foldl (fun acc j => if A i j < acc then A i j else acc) acc) a0 ≤ a0 ∧
    ∀ i j, i ∈ l → j < c → l.foldl (fun acc i =>
      (List.range c).foldl (fun acc j => if A i j < acc then A i j else acc) acc) a0 ≤ A i j
  | [], a0 => by simp
  | x :: xs, a0 => by
    obtain ⟨h1, h2⟩ := foldl_rows_min_le c A xs
      ((List.range c).foldl (fun acc j => if A x j < acc then A x j else acc) a0)
    obtain ⟨g1, g2⟩ := foldl_min_le (fun j => A x j) (List.range c) a0
    rw [List.foldl_cons]
    refine ⟨le_trans h1 g1, ?_⟩
    intro i j hi hj
    rcases List.mem_cons.mp hi with rfl | hi
    · exact le_trans h1 (g2 j (List.mem_range.mpr hj))
    · exact h2 i j hi hj

theorem matMin_le (r c : ℕ) (A : ℕ → ℕ → K) (i j : ℕ) (hi : i < r) (hj : j < c) :
    matMin r c A ≤ A i j := by
  unfold matMin
  exact (foldl_rows_min_le c A (List.range r) (A 0 0)).2 i j (List.mem_range.mpr hi) hj

/-- after the shift of `_initialize_tableaux` every payoff is positive -/
theorem shift_pos (r c : ℕ) (A : ℕ → ℕ → K) (i j : ℕ) (hi : i < r) (hj : j < c) :
    0 < A i j + shiftConst r c A := by
  have h := matMin_le r c A i j hi hj
  unfold shiftConst
  dsimp only
  split
  · have h1 : (0 : K) < 1 := zero_lt_one
    linarith
  · rename_i hgt
    have := not_le.mp hgt
    linarith

end QE.C05
