/-
  C06 helper lemmas, part 2: the Lyapunov doubling iteration of the model
  (`lyapStep`, `lyapIter`, `lyapLoop`) and the running maximum `maxAbs`.
-/
import QEProofs.Lemmas.C06Mat
import Mathlib.Algebra.Order.Field.Basic
import Mathlib.Algebra.Order.Ring.Abs

set_option linter.unusedSectionVars false

namespace QE.C06
open QE QE.MatAlg Finset

section iter
variable {K : Type} [CommRing K]

theorem lyapIter_succ (A B : M K) (k : ℕ) : lyapIter A B (k + 1) = lyapStep (lyapIter A B k) := rfl

theorem lyapStep_dim {s : M K × M K} {n : ℕ} (h1 : Dim s.1 n n) (h2 : Dim s.2 n n) :
    Dim (lyapStep s).1 n n ∧ Dim (lyapStep s).2 n n :=
  ⟨dim_mmul h1 h1, dim_madd h2⟩

theorem lyapIter_dim {A B : M K} {n : ℕ} (hA : Dim A n n) (hB : Dim B n n) (k : ℕ) :
    Dim (lyapIter A B k).1 n n ∧ Dim (lyapIter A B k).2 n n := by
  induction k with
  | zero => exact ⟨hA, hB⟩
  | succ k ih => exact lyapStep_dim ih.1 ih.2

/-- one pass, read as Mathlib matrices -/
theorem lyapStep_toMat {s : M K × M K} {n : ℕ} (h1 : Dim s.1 n n) (h2 : Dim s.2 n n) :
    toMat n n (lyapStep s).1 = toMat n n s.1 * toMat n n s.1 ∧
    toMat n n (lyapStep s).2 = toMat n n s.2 + toMat n n s.1 * toMat n n s.2 * (toMat n n s.1).transpose := by
  constructor
  · exact toMat_mmul h1 h1
  · show toMat n n (madd s.2 (mmul (mmul s.1 s.2) (mT s.1))) = _
    rw [toMat_madd h2, toMat_mmul (dim_mmul h1 h2) (dim_mT h1), toMat_mmul h1 h2, toMat_mT h1]

end iter

/-! ### the running maximum -/

section maxabs
variable {K : Type} [Field K] [LinearOrder K] [IsStrictOrderedRing K]

theorem gabs_eq_abs (x : K) : gabs x = |x| := by
  unfold gabs
  split
  · rename_i h; rw [abs_of_neg h]
  · rename_i h; rw [abs_of_nonneg (not_lt.mp h)]

/-- inner fold of `maxAbs`: never decreases, dominates every visited value -/
theorem foldl_max_ge_init (g : ℕ → K) (l : List ℕ) (a : K) :
    a ≤ l.foldl (fun acc j => if acc < g j then g j else acc) a := by
  induction l generalizing a with
  | nil => exact le_refl _
  | cons x xs ih =>
    simp only [List.foldl_cons]
    refine le_trans ?_ (ih _)
    split
    · rename_i h; exact le_of_lt h
    · exact le_refl _

theorem foldl_max_ge_mem (g : ℕ → K) (l : List ℕ) (a : K) (x : ℕ) (hx : x ∈ l) :
    g x ≤ l.foldl (fun acc j => if acc < g j then g j else acc) a := by
  induction l generalizing a with
  | nil => cases hx
  | cons y ys ih =>
    simp only [List.foldl_cons]
    rcases List.mem_cons.mp hx with rfl | h
    · refine le_trans ?_ (foldl_max_ge_init g ys _)
      split
      · exact le_refl _
      · rename_i h; exact not_lt.mp h
    · exact ih _ h

theorem foldl2_max_ge_init (g : ℕ → ℕ → K) (li lj : List ℕ) (a : K) :
    a ≤ li.foldl (fun acc i => lj.foldl (fun acc j => if acc < g i j then g i j else acc) acc) a := by
  induction li generalizing a with
  | nil => exact le_refl _
  | cons x xs ih =>
    simp only [List.foldl_cons]
    exact le_trans (foldl_max_ge_init (g x) lj a) (ih _)

theorem foldl2_max_ge_mem (g : ℕ → ℕ → K) (li lj : List ℕ) (a : K) (i j : ℕ) (hi : i ∈ li) (hj : j ∈ lj) :
    g i j ≤ li.foldl (fun acc i => lj.foldl (fun acc j => if acc < g i j then g i j else acc) acc) a := by
  induction li generalizing a with
  | nil => cases hi
  | cons y ys ih =>
    simp only [List.foldl_cons]
    rcases List.mem_cons.mp hi with rfl | h
    · exact le_trans (foldl_max_ge_mem (g i) lj a j hj) (foldl2_max_ge_init g ys lj _)
    · exact ih _ h

/-- every entry is bounded in absolute value by `maxAbs gabs` (`np.max(np.abs(·))`) -/
theorem abs_get_le_maxAbs (D : M K) (i j : ℕ) (hi : i < D.nr) (hj : j < D.nc) :
    |D.get i j| ≤ maxAbs gabs D := by
  unfold maxAbs
  have := foldl2_max_ge_mem (fun i j => gabs (D.get i j)) (List.range D.nr) (List.range D.nc) 0 i j
    (List.mem_range.mpr hi) (List.mem_range.mpr hj)
  rw [gabs_eq_abs] at this
  exact this

end maxabs

/-! ### the loop -/

section loop
variable {K : Type} [Field K] [LinearOrder K] [IsStrictOrderedRing K]

/-- What a normal return of the loop started at the state after `k` passes means:
    it made `j - k ≥ 1` further passes, returned `γ_j`, the counter stayed within
    `max_it`, and the last `diff` did not exceed `tol`. -/
theorem lyapLoop_ok (tol : K) (maxIt : ℕ) (A B : M K) :
    ∀ (fuel nIts k : ℕ) (ds : List K) (X : M K) (its : ℕ) (ds' : List K),
      lyapLoop tol maxIt fuel nIts (lyapIter A B k) ds = .ok X its ds' →
      ∃ j, k + 1 ≤ j ∧ its = nIts + (j - k) ∧ its ≤ maxIt ∧ X = (lyapIter A B j).2 ∧
        ¬ tol < lyapDiff (lyapIter A B (j - 1)) (lyapIter A B j) := by
  intro fuel
  induction fuel with
  | zero => intro nIts k ds X its ds' h; simp [lyapLoop] at h
  | succ fuel ih =>
    intro nIts k ds X its ds' h
    simp only [lyapLoop] at h
    split at h
    · cases h
    · rename_i hmax
      split at h
      · rw [← lyapIter_succ] at h
        obtain ⟨j, hj, hits, hle, hX, hd⟩ := ih (nIts + 1) (k + 1) _ X its ds' h
        exact ⟨j, by omega, by omega, hle, hX, hd⟩
      · rename_i hd
        cases h
        refine ⟨k + 1, le_refl _, by omega, by omega, rfl, ?_⟩
        simpa [lyapIter_succ] using hd

/-- the `ValueError` exit is never an artefact of the fuel: it reports `n_its > max_it` -/
theorem lyapLoop_maxit_real (tol : K) (maxIt : ℕ) :
    ∀ (fuel nIts : ℕ) (s : M K × M K) (ds : List K) (n : ℕ) (ds' : List K),
      maxIt < fuel + nIts → lyapLoop tol maxIt fuel nIts s ds = .maxit n ds' → maxIt < n := by
  intro fuel
  induction fuel with
  | zero => intro nIts s ds n ds' hf h; simp [lyapLoop] at h; omega
  | succ fuel ih =>
    intro nIts s ds n ds' hf h
    simp only [lyapLoop] at h
    split at h
    · rename_i hmax; cases h; omega
    · split at h
      · exact ih (nIts + 1) _ _ n ds' (by omega) h
      · cases h

end loop
/-! ### the Riccati loop -/

section rloop
variable {K : Type} [Field K] [LinearOrder K] [IsStrictOrderedRing K]

/-- A normal return of the loop of lines 208-222, entered after `j` passes from `s0`:
    it made `p ≥ 1` passes in total, `p ≤ max_iter`, returns `H_p`, and the last error
    `max|H_p − H_(p-1)|` did not exceed `tol`. -/
theorem riccLoop_ok (sol : M K → M K → Option (M K)) (tol : K) (maxIter : ℕ) (s0 : Sda K) :
    ∀ (fuel j : ℕ) (err : K) (s : Sda K) (last : Option (M K)) (es : List K) (H : M K) (p : ℕ) (es' : List K),
      riccLoop sol tol maxIter fuel (j + 1) err s last es = .ok H p es' →
      sdaIter sol s0 j = some s →
      (∀ Hl, last = some Hl → Hl = s.H ∧ 1 ≤ j ∧ j ≤ maxIter ∧
        ∃ sprev, sdaIter sol s0 (j - 1) = some sprev ∧ err = maxAbs gabs (msub s.H sprev.H)) →
      ∃ sp sprev, 1 ≤ p ∧ p ≤ maxIter ∧ sdaIter sol s0 p = some sp ∧ H = sp.H ∧
        sdaIter sol s0 (p - 1) = some sprev ∧ maxAbs gabs (msub sp.H sprev.H) ≤ tol := by
  intro fuel
  induction fuel with
  | zero => intro j err s last es H p es' h; simp [riccLoop] at h
  | succ fuel ih =>
    intro j err s last es H p es' h hs hlast
    simp only [riccLoop] at h
    split at h
    · split at h
      · cases h
      · rename_i hmax
        cases hstep : sdaStep sol s with
        | none => rw [hstep] at h; cases h
        | some s1 =>
          rw [hstep] at h
          simp only at h
          refine ih (j + 1) _ s1 _ _ H p es' h ?_ ?_
          · simp only [sdaIter, hs, Option.bind_some, hstep]
          · intro Hl hl
            cases hl
            exact ⟨rfl, by omega, by omega, s, by simpa using hs, rfl⟩
    · rename_i hle
      cases hl : last with
      | none => rw [hl] at h; cases h
      | some Hl =>
        rw [hl] at h
        simp only [RiccOut.ok.injEq] at h
        obtain ⟨hH, hp', _⟩ := h
        obtain ⟨e1, h1, h2, sprev, hp, herr⟩ := hlast Hl hl
        have hpj : p = j := by omega
        subst hpj
        refine ⟨s, sprev, h1, h2, hs, hH.symm.trans e1, hp, ?_⟩
        rw [← herr]; exact not_lt.mp hle

end rloop

/-! ### exact stopping (nilpotent case) -/

section exactstop
variable {K : Type} [Field K] [LinearOrder K] [IsStrictOrderedRing K]

theorem foldl_max_zero (g : ℕ → K) (l : List ℕ) (h : ∀ j ∈ l, g j = 0) :
    l.foldl (fun acc j => if acc < g j then g j else acc) 0 = 0 := by
  induction l with
  | nil => rfl
  | cons x xs ih =>
    simp only [List.foldl_cons]
    rw [h x List.mem_cons_self, if_neg (lt_irrefl _)]
    exact ih fun j hj => h j (List.mem_cons_of_mem _ hj)

theorem foldl2_max_zero (g : ℕ → ℕ → K) (li lj : List ℕ) (h : ∀ i ∈ li, ∀ j ∈ lj, g i j = 0) :
    li.foldl (fun acc i => lj.foldl (fun acc j => if acc < g i j then g i j else acc) acc) 0 = 0 := by
  induction li with
  | nil => rfl
  | cons x xs ih =>
    simp only [List.foldl_cons]
    rw [foldl_max_zero (g x) lj (h x List.mem_cons_self)]
    exact ih fun i hi => h i (List.mem_cons_of_mem _ hi)

/-- `np.max(np.abs(D)) = 0` for a zero matrix -/
theorem maxAbs_eq_zero {n : ℕ} (D : M K) (hD : Dim D n n) (hz : toMat n n D = 0) : maxAbs gabs D = 0 := by
  unfold maxAbs
  apply foldl2_max_zero
  intro i hi j hj
  have hi' : i < n := by rw [← hD.nr]; exact List.mem_range.mp hi
  have hj' : j < n := by rw [← hD.nc]; exact List.mem_range.mp hj
  have := congrFun (congrFun hz ⟨i, hi'⟩) ⟨j, hj'⟩
  have h0 : D.get i j = 0 := this
  rw [h0, gabs_eq_abs, abs_zero]

/-- if the diff of pass `k+1` is `0`, the loop entered at pass `j ≤ k` with enough fuel and room
    under `max_it` returns normally with `n_its ≤ k + 2` -/
theorem lyapLoop_stops (tol : K) (maxIt : ℕ) (A B : M K) (k : ℕ) (htol : 0 ≤ tol) (hmax : k + 2 ≤ maxIt)
    (hzero : lyapDiff (lyapIter A B k) (lyapIter A B (k + 1)) = 0) :
    ∀ (d j fuel : ℕ) (ds : List K), j + d = k → d + 1 ≤ fuel →
      ∃ X its ds', lyapLoop tol maxIt fuel (j + 1) (lyapIter A B j) ds = .ok X its ds' ∧ its ≤ k + 2 := by
  intro d
  induction d with
  | zero =>
    intro j fuel ds hj hf
    obtain ⟨f, rfl⟩ : ∃ f, fuel = f + 1 := ⟨fuel - 1, by omega⟩
    have hjk : j = k := by omega
    subst hjk
    simp only [lyapLoop]
    rw [if_neg (by omega), ← lyapIter_succ, hzero, if_neg (not_lt.mpr htol)]
    exact ⟨_, _, _, rfl, by omega⟩
  | succ d ih =>
    intro j fuel ds hj hf
    obtain ⟨f, rfl⟩ : ∃ f, fuel = f + 1 := ⟨fuel - 1, by omega⟩
    simp only [lyapLoop]
    rw [if_neg (by omega), ← lyapIter_succ]
    by_cases hlt : tol < lyapDiff (lyapIter A B j) (lyapIter A B (j + 1))
    · rw [if_pos hlt]
      exact ih (j + 1) f _ (by omega) (by omega)
    · rw [if_neg hlt]
      exact ⟨_, _, _, rfl, by omega⟩

end exactstop

/-! ### stopping once the tested increment is small; executable norms -/

section smallstop
variable {K : Type} [Field K] [LinearOrder K] [IsStrictOrderedRing K]

theorem foldl_max_le (g : ℕ → K) (l : List ℕ) (a t : K) (ha : a ≤ t) (h : ∀ j ∈ l, g j ≤ t) :
    l.foldl (fun acc j => if acc < g j then g j else acc) a ≤ t := by
  induction l generalizing a with
  | nil => exact ha
  | cons x xs ih =>
    simp only [List.foldl_cons]
    apply ih
    · split
      · exact h x List.mem_cons_self
      · exact ha
    · exact fun j hj => h j (List.mem_cons_of_mem _ hj)

theorem foldl2_max_le (g : ℕ → ℕ → K) (li lj : List ℕ) (a t : K) (ha : a ≤ t)
    (h : ∀ i ∈ li, ∀ j ∈ lj, g i j ≤ t) :
    li.foldl (fun acc i => lj.foldl (fun acc j => if acc < g i j then g i j else acc) acc) a ≤ t := by
  induction li generalizing a with
  | nil => exact ha
  | cons x xs ih =>
    simp only [List.foldl_cons]
    apply ih
    · exact foldl_max_le (g x) lj a t ha (h x List.mem_cons_self)
    · exact fun i hi => h i (List.mem_cons_of_mem _ hi)

/-- `np.max(np.abs(D)) ≤ t` when every entry is at most `t ≥ 0` in absolute value -/
theorem maxAbs_le {n : ℕ} (D : M K) (hD : Dim D n n) (t : K) (ht : 0 ≤ t)
    (h : ∀ p q : Fin n, |toMat n n D p q| ≤ t) : maxAbs gabs D ≤ t := by
  unfold maxAbs
  apply foldl2_max_le _ _ _ _ _ ht
  intro i hi j hj
  have hi' : i < n := by rw [← hD.nr]; exact List.mem_range.mp hi
  have hj' : j < n := by rw [← hD.nc]; exact List.mem_range.mp hj
  rw [gabs_eq_abs]
  exact h ⟨i, hi'⟩ ⟨j, hj'⟩

/-- if the diff of pass `k+1` does not exceed `tol`, the loop entered at pass `j ≤ k` with enough fuel
    and room under `max_it` returns normally with `n_its ≤ k + 2` -/
theorem lyapLoop_stops_of_small (tol : K) (maxIt : ℕ) (A B : M K) (k : ℕ) (hmax : k + 2 ≤ maxIt)
    (hsmall : ¬ tol < lyapDiff (lyapIter A B k) (lyapIter A B (k + 1))) :
    ∀ (d j fuel : ℕ) (ds : List K), j + d = k → d + 1 ≤ fuel →
      ∃ X its ds', lyapLoop tol maxIt fuel (j + 1) (lyapIter A B j) ds = .ok X its ds' ∧ its ≤ k + 2 := by
  intro d
  induction d with
  | zero =>
    intro j fuel ds hj hf
    obtain ⟨f, rfl⟩ : ∃ f, fuel = f + 1 := ⟨fuel - 1, by omega⟩
    have hjk : j = k := by omega
    subst hjk
    simp only [lyapLoop]
    rw [if_neg (by omega), ← lyapIter_succ, if_neg hsmall]
    exact ⟨_, _, _, rfl, by omega⟩
  | succ d ih =>
    intro j fuel ds hj hf
    obtain ⟨f, rfl⟩ : ∃ f, fuel = f + 1 := ⟨fuel - 1, by omega⟩
    simp only [lyapLoop]
    rw [if_neg (by omega), ← lyapIter_succ]
    by_cases hlt : tol < lyapDiff (lyapIter A B j) (lyapIter A B (j + 1))
    · rw [if_pos hlt]
      exact ih (j + 1) f _ (by omega) (by omega)
    · rw [if_neg hlt]
      exact ⟨_, _, _, rfl, by omega⟩

theorem normInf_nonneg (A : M K) : 0 ≤ normInf A := by
  unfold normInf; exact foldl_max_ge_init _ _ 0

/-- every absolute row sum is at most the executable `normInf` -/
theorem rowsum_le_normInf {n : ℕ} (A : M K) (hA : Dim A n n) (p : Fin n) :
    ∑ c, |toMat n n A p c| ≤ normInf A := by
  have hp : (p : ℕ) ∈ List.range A.nr := by rw [hA.nr]; exact List.mem_range.mpr p.2
  have h := foldl_max_ge_mem (rowAbsSum A) (List.range A.nr) 0 p hp
  have e : rowAbsSum A p = ∑ c, |toMat n n A p c| := by
    unfold rowAbsSum
    rw [sumRange_eq_sum, hA.nc, ← Fin.sum_univ_eq_sum_range (fun c => gabs (A.get p c)) n]
    exact Finset.sum_congr rfl fun c _ => gabs_eq_abs _
  rw [← e]
  exact h

end smallstop

end QE.C06
