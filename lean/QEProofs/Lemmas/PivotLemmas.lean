/-
  Pivot lemmas (DESIGN Appendix A.2) about `QE.Pivot.pivot`, the model of
  `quantecon/optimize/pivoting.py:_pivoting`, over an arbitrary field.

  A tableau row `i` is read as the linear equation
      Σ_{j < nc-1} T[i,j]·z_j = T[i,nc-1].
  `resid T z i` is its residual at `z`.  A pivot on a non-zero element is an
  invertible row operation, so the residuals transform linearly
  (`resid_pivot_r`, `resid_pivot_i`) and therefore the solution set of every row
  is preserved (`pivot_row_r`, `pivot_row_i`).

  Shared by C04 (simplex), C05 (Lemke–Howson) and C11 (lcp_lemke).  Owned by the
  C04 agent; append only.
-/
import QEModel.Pivot
import Mathlib.Algebra.BigOperators.Field
import Mathlib.Algebra.BigOperators.Ring.Finset
import Mathlib.Tactic.Ring
import Mathlib.Tactic.FieldSimp

namespace QE.Pivot
open QE Finset

variable {K : Type} [Field K] [DecidableEq K]

/-! ### entries of the pivoted tableau -/

@[simp] theorem pivot_nr (T : M K) (c r : ℕ) : (pivot T c r).nr = T.nr := rfl
@[simp] theorem pivot_nc (T : M K) (c r : ℕ) : (pivot T c r).nc = T.nc := rfl

/-- entry of the pivot row after the pivot -/
theorem pivot_get_r (T : M K) (c r j : ℕ) (hr : r < T.nr) (hj : j < T.nc) :
    (pivot T c r).get r j = T.get r j / T.get r c := by
  unfold pivot
  rw [M.get_tab _ _ _ _ _ hr hj]
  simp

/-- entry of another row after the pivot; the code's `multiplier == 0` shortcut
    is algebraically invisible -/
theorem pivot_get_i (T : M K) (c r i j : ℕ) (hi : i < T.nr) (hj : j < T.nc) (hir : i ≠ r) :
    (pivot T c r).get i j = T.get i j - (T.get r j / T.get r c) * T.get i c := by
  unfold pivot
  rw [M.get_tab _ _ _ _ _ hi hj]
  simp only [if_neg hir]
  by_cases hm : T.get i c = 0
  · simp [hm]
  · have : (T.get i c == 0) = false := by simpa using hm
    simp [this]

/-- the pivot column becomes the unit vector `e_r` (pivot row part) -/
theorem pivot_col_r (T : M K) (c r : ℕ) (hr : r < T.nr) (hc : c < T.nc) (hp : T.get r c ≠ 0) :
    (pivot T c r).get r c = 1 := by
  rw [pivot_get_r T c r c hr hc]; exact div_self hp

/-- the pivot column becomes the unit vector `e_r` (other rows) -/
theorem pivot_col_i (T : M K) (c r i : ℕ) (hi : i < T.nr) (hc : c < T.nc) (hir : i ≠ r)
    (hp : T.get r c ≠ 0) : (pivot T c r).get i c = 0 := by
  rw [pivot_get_i T c r i c hi hc hir, div_self hp]; ring

/-- a column that is zero in the pivot row is untouched by the pivot
    (this is why the other basic columns stay unit vectors) -/
theorem pivot_col_keep (T : M K) (c r i j : ℕ) (hi : i < T.nr) (hj : j < T.nc)
    (hz : T.get r j = 0) : (pivot T c r).get i j = T.get i j := by
  by_cases hir : i = r
  · subst hir; rw [pivot_get_r T c i j hi hj, hz]; simp
  · rw [pivot_get_i T c r i j hi hj hir, hz]; simp

/-! ### rows as equations -/

/-- residual of row `i` at the point `z` -/
def resid (T : M K) (z : ℕ → K) (i : ℕ) : K :=
  ∑ j ∈ range (T.nc - 1), T.get i j * z j - T.get i (T.nc - 1)

/-- `z` satisfies row `i` of the tableau -/
def RowSat (T : M K) (z : ℕ → K) (i : ℕ) : Prop :=
  ∑ j ∈ range (T.nc - 1), T.get i j * z j = T.get i (T.nc - 1)

omit [DecidableEq K] in
theorem rowSat_iff_resid (T : M K) (z : ℕ → K) (i : ℕ) : RowSat T z i ↔ resid T z i = 0 := by
  unfold RowSat resid; exact sub_eq_zero.symm

/-- residual of the pivot row after the pivot -/
theorem resid_pivot_r (T : M K) (z : ℕ → K) (c r : ℕ) (hr : r < T.nr) (hnc : 0 < T.nc) :
    resid (pivot T c r) z r = resid T z r / T.get r c := by
  unfold resid
  simp only [pivot_nc]
  rw [pivot_get_r T c r _ hr (by omega)]
  rw [Finset.sum_congr rfl (fun j hj => by
    rw [pivot_get_r T c r j hr (by have := Finset.mem_range.mp hj; omega)])]
  rw [sub_div, Finset.sum_div]
  congr 1
  apply Finset.sum_congr rfl
  intro j _; ring

/-- residual of any other row after the pivot: the old residual minus the
    multiplier times the new residual of the pivot row -/
theorem resid_pivot_i (T : M K) (z : ℕ → K) (c r i : ℕ) (hi : i < T.nr) (hnc : 0 < T.nc)
    (hir : i ≠ r) :
    resid (pivot T c r) z i = resid T z i - T.get i c * (resid T z r / T.get r c) := by
  unfold resid
  simp only [pivot_nc]
  rw [pivot_get_i T c r i _ hi (by omega) hir]
  rw [Finset.sum_congr rfl (fun j hj => by
    rw [pivot_get_i T c r i j hi (by have := Finset.mem_range.mp hj; omega) hir])]
  have h : ∀ j, (T.get i j - T.get r j / T.get r c * T.get i c) * z j
      = T.get i j * z j - T.get i c * (T.get r j * z j / T.get r c) := by intro j; ring
  simp only [h, Finset.sum_sub_distrib, ← Finset.mul_sum, ← Finset.sum_div]
  ring

/-- **pivot lemma, pivot row**: same solution set -/
theorem pivot_row_r (T : M K) (z : ℕ → K) (c r : ℕ) (hr : r < T.nr) (hnc : 0 < T.nc)
    (hp : T.get r c ≠ 0) : RowSat (pivot T c r) z r ↔ RowSat T z r := by
  rw [rowSat_iff_resid, rowSat_iff_resid, resid_pivot_r T z c r hr hnc, div_eq_zero_iff]
  simp [hp]

/-- **pivot lemma, other rows**: on the solutions of the pivot row, same solution set -/
theorem pivot_row_i (T : M K) (z : ℕ → K) (c r i : ℕ) (hi : i < T.nr) (hnc : 0 < T.nc)
    (hir : i ≠ r) (hrow : RowSat T z r) : RowSat (pivot T c r) z i ↔ RowSat T z i := by
  rw [rowSat_iff_resid] at hrow
  rw [rowSat_iff_resid, rowSat_iff_resid, resid_pivot_i T z c r i hi hnc hir, hrow]
  simp

/-- all rows `< L` hold -/
def RowsSat (T : M K) (z : ℕ → K) (L : ℕ) : Prop := ∀ i, i < L → RowSat T z i

/-- **pivot preserves the solution set of a block of rows** containing the pivot row -/
theorem pivot_rowsSat (T : M K) (z : ℕ → K) (c r L : ℕ) (hL : L ≤ T.nr) (hr : r < L)
    (hnc : 0 < T.nc) (hp : T.get r c ≠ 0) :
    RowsSat (pivot T c r) z L ↔ RowsSat T z L := by
  constructor
  · intro h
    have hrr : RowSat T z r := (pivot_row_r T z c r (by omega) hnc hp).mp (h r hr)
    intro i hi
    by_cases hir : i = r
    · subst hir; exact hrr
    · exact (pivot_row_i T z c r i (by omega) hnc hir hrr).mp (h i hi)
  · intro h
    have hrr : RowSat T z r := h r hr
    intro i hi
    by_cases hir : i = r
    · subst hir; exact (pivot_row_r T z c i (by omega) hnc hp).mpr hrr
    · exact (pivot_row_i T z c r i (by omega) hnc hir hrr).mpr (h i hi)

/-- a row outside the block (the criterion row) keeps its residual on the
    solutions of the pivot row: the objective `Σ_j T[l,j] z_j − T[l,last]` is
    the same function on the feasible set before and after the pivot -/
theorem pivot_resid_keep (T : M K) (z : ℕ → K) (c r l : ℕ) (hl : l < T.nr) (hnc : 0 < T.nc)
    (hlr : l ≠ r) (hrow : RowSat T z r) : resid (pivot T c r) z l = resid T z l := by
  rw [rowSat_iff_resid] at hrow
  rw [resid_pivot_i T z c r l hl hnc hlr, hrow]; simp

end QE.Pivot
