/-
  Lemmas for C01, part 1: order facts about the executable pieces of `QEModel.C01`
  over a linearly ordered field — `absA`/`maxA`/`minA`, the folded maxima `supDist`/`exc`,
  `dot` against a (sub)stochastic row, the first-maximum scan.
-/
import QEModel.C01
import Mathlib.Algebra.Order.Field.Basic
import Mathlib.Algebra.Order.Group.Abs
import Mathlib.Algebra.Order.Ring.Abs
import Mathlib.Algebra.BigOperators.Group.List.Basic
import Mathlib.Data.List.Forall2
import Mathlib.Tactic.Ring
import Mathlib.Tactic.Linarith

set_option linter.unusedSectionVars false

namespace QE.C01
open List

variable {K : Type} [Field K] [LinearOrder K] [IsStrictOrderedRing K]

/-! ### scalar helpers -/

theorem absA_eq (x : K) : absA x = |x| := by
  unfold absA
  split_ifs with h
  · exact (abs_of_neg h).symm
  · exact (abs_of_nonneg (not_lt.mp h)).symm

theorem maxA_eq (a b : K) : maxA a b = max a b := by
  unfold maxA
  split_ifs with h
  · exact (max_eq_right (le_of_lt h)).symm
  · exact (max_eq_left (not_lt.mp h)).symm

theorem minA_eq (a b : K) : minA a b = min a b := by
  unfold minA
  split_ifs with h
  · exact (min_eq_right (le_of_lt h)).symm
  · exact (min_eq_left (not_lt.mp h)).symm

/-! ### folded maxima -/

theorem foldl_maxA_le_iff (l : List K) (a c : K) :
    l.foldl maxA a ≤ c ↔ a ≤ c ∧ ∀ x ∈ l, x ≤ c := by
  induction l generalizing a with
  | nil => simp
  | cons x xs ih =>
    simp only [foldl_cons, ih, maxA_eq, max_le_iff, mem_cons, forall_eq_or_imp]
    tauto

theorem foldl_maxA_lt_iff (l : List K) (a c : K) :
    l.foldl maxA a < c ↔ a < c ∧ ∀ x ∈ l, x < c := by
  induction l generalizing a with
  | nil => simp
  | cons x xs ih =>
    simp only [foldl_cons, ih, maxA_eq, max_lt_iff, mem_cons, forall_eq_or_imp]
    tauto

theorem foldl_minA_ge_iff (l : List K) (a c : K) :
    c ≤ l.foldl minA a ↔ c ≤ a ∧ ∀ x ∈ l, c ≤ x := by
  induction l generalizing a with
  | nil => simp
  | cons x xs ih =>
    simp only [foldl_cons, ih, minA_eq, le_min_iff, mem_cons, forall_eq_or_imp]
    tauto

/-- the generic "largest entry of `f v w`, at least 0" -/
def G (f : K → K → K) (v w : List K) : K := (zipWith f v w).foldl maxA 0

theorem G_le_iff (f : K → K → K) {v w : List K} (h : v.length = w.length) (c : K) :
    G f v w ≤ c ↔ 0 ≤ c ∧ Forall₂ (fun a b => f a b ≤ c) v w := by
  unfold G
  rw [foldl_maxA_le_iff]
  refine and_congr_right fun _ => ?_
  induction v generalizing w with
  | nil =>
    cases w with
    | nil => simp
    | cons y ys => simp at h
  | cons x xs ih =>
    cases w with
    | nil => simp at h
    | cons y ys =>
      simp only [length_cons, Nat.add_right_cancel_iff] at h
      simp only [zipWith_cons_cons, mem_cons, forall_eq_or_imp, forall₂_cons, ih h]

theorem G_lt_iff (f : K → K → K) {v w : List K} (h : v.length = w.length) (c : K) :
    G f v w < c ↔ 0 < c ∧ Forall₂ (fun a b => f a b < c) v w := by
  unfold G
  rw [foldl_maxA_lt_iff]
  refine and_congr_right fun _ => ?_
  induction v generalizing w with
  | nil =>
    cases w with
    | nil => simp
    | cons y ys => simp at h
  | cons x xs ih =>
    cases w with
    | nil => simp at h
    | cons y ys =>
      simp only [length_cons, Nat.add_right_cancel_iff] at h
      simp only [zipWith_cons_cons, mem_cons, forall_eq_or_imp, forall₂_cons, ih h]

theorem G_nonneg (f : K → K → K) (v w : List K) : 0 ≤ G f v w := by
  have : ∀ (l : List K) (a : K), 0 ≤ a → 0 ≤ l.foldl maxA a := by
    intro l
    induction l with
    | nil => intro a h; simpa using h
    | cons x xs ih => intro a h; exact ih _ (by rw [maxA_eq]; exact le_max_of_le_left h)
  exact this _ _ le_rfl

theorem supDist_eq_G (v w : List K) : supDist v w = G (fun a b => |a - b|) v w := by
  have : (fun a b : K => absA (a - b)) = fun a b => |a - b| := by
    funext a b; exact absA_eq _
  unfold supDist G
  rw [this]

/-- one-sided excess `max(0, max_i (v_i - w_i))` (proof-side only) -/
def exc (v w : List K) : K := G (fun a b => a - b) v w

/-- `v ≤ w + c` entrywise (and equal lengths) -/
def LeAdd (c : K) (v w : List K) : Prop := Forall₂ (fun a b => a ≤ b + c) v w

/-- `|v - w| ≤ c` entrywise (and equal lengths) -/
def Close (c : K) (v w : List K) : Prop := Forall₂ (fun a b => |a - b| ≤ c) v w

theorem close_iff (c : K) (v w : List K) : Close c v w ↔ LeAdd c v w ∧ LeAdd c w v := by
  unfold Close LeAdd
  constructor
  · intro h
    constructor
    · exact h.imp fun a b hab => by have := (abs_sub_le_iff.mp hab).1; linarith
    · exact h.flip.imp fun a b hab => by have := (abs_sub_le_iff.mp hab).2; linarith
  · rintro ⟨h1, h2⟩
    induction h1 with
    | nil => exact Forall₂.nil
    | cons hab _ ih =>
      cases h2 with
      | cons hba h2' =>
        exact Forall₂.cons (abs_sub_le_iff.mpr ⟨by linarith, by linarith⟩) (ih h2')

theorem supDist_le_iff {v w : List K} (h : v.length = w.length) (c : K) :
    supDist v w ≤ c ↔ 0 ≤ c ∧ Close c v w := by
  rw [supDist_eq_G, G_le_iff _ h]; rfl

theorem supDist_lt_iff {v w : List K} (h : v.length = w.length) (c : K) :
    supDist v w < c ↔ 0 < c ∧ Forall₂ (fun a b => |a - b| < c) v w := by
  rw [supDist_eq_G, G_lt_iff _ h]

theorem supDist_nonneg (v w : List K) : 0 ≤ supDist v w := by
  rw [supDist_eq_G]; exact G_nonneg _ _ _

theorem close_supDist {v w : List K} (h : v.length = w.length) : Close (supDist v w) v w :=
  ((supDist_le_iff h _).mp le_rfl).2

theorem exc_le_iff {v w : List K} (h : v.length = w.length) (c : K) :
    exc v w ≤ c ↔ 0 ≤ c ∧ LeAdd c v w := by
  unfold exc LeAdd
  rw [G_le_iff _ h]
  refine and_congr_right fun _ => ?_
  constructor <;> intro hh <;> exact hh.imp fun a b hab => by linarith

theorem exc_nonneg (v w : List K) : 0 ≤ exc v w := G_nonneg _ _ _

theorem leAdd_exc {v w : List K} (h : v.length = w.length) : LeAdd (exc v w) v w :=
  ((exc_le_iff h _).mp le_rfl).2

theorem Close.length_eq {c : K} {v w : List K} (h : Close c v w) : v.length = w.length :=
  Forall₂.length_eq h

theorem LeAdd.length_eq {c : K} {v w : List K} (h : LeAdd c v w) : v.length = w.length :=
  Forall₂.length_eq h

theorem LeAdd.trans {a b : K} {u v w : List K} (h1 : LeAdd a u v) (h2 : LeAdd b v w) :
    LeAdd (a + b) u w := by
  unfold LeAdd at *
  induction h1 generalizing w with
  | nil => cases h2; exact Forall₂.nil
  | cons hab _ ih =>
    cases h2 with
    | cons hbc h2' => exact Forall₂.cons (by linarith) (ih h2')

theorem LeAdd.mono {a b : K} {v w : List K} (h : LeAdd a v w) (hab : a ≤ b) : LeAdd b v w :=
  Forall₂.imp (fun _ _ h' => by linarith) h

theorem leAdd_refl (v : List K) : LeAdd 0 v v := by
  unfold LeAdd
  exact forall₂_same.mpr fun x _ => by simp

theorem LeAdd.of_eq {v w : List K} (h : v = w) : LeAdd 0 v w := h ▸ leAdd_refl v

theorem Close.symm {c : K} {v w : List K} (h : Close c v w) : Close c w v :=
  (close_iff c w v).mpr ((close_iff c v w).mp h).symm

theorem Close.trans {a b : K} {u v w : List K} (h1 : Close a u v) (h2 : Close b v w) :
    Close (a + b) u w := by
  rw [close_iff] at *
  exact ⟨h1.1.trans h2.1, by have := h2.2.trans h1.2; rwa [add_comm] at this⟩

theorem supDist_comm {v w : List K} (h : v.length = w.length) : supDist v w = supDist w v := by
  apply le_antisymm
  · exact (supDist_le_iff h _).mpr ⟨supDist_nonneg _ _, (close_supDist h.symm).symm⟩
  · exact (supDist_le_iff h.symm _).mpr ⟨supDist_nonneg _ _, (close_supDist h).symm⟩

theorem supDist_triangle {u v w : List K} (h1 : u.length = v.length) (h2 : v.length = w.length) :
    supDist u w ≤ supDist u v + supDist v w :=
  (supDist_le_iff (h1.trans h2) _).mpr
    ⟨add_nonneg (supDist_nonneg _ _) (supDist_nonneg _ _), (close_supDist h1).trans (close_supDist h2)⟩

theorem supDist_self (v : List K) : supDist v v = 0 := by
  apply le_antisymm _ (supDist_nonneg _ _)
  refine (supDist_le_iff rfl _).mpr ⟨le_rfl, ?_⟩
  exact forall₂_same.mpr fun x _ => by simp

theorem eq_of_supDist_le_zero {v w : List K} (h : v.length = w.length) (h0 : supDist v w ≤ 0) :
    v = w := by
  have hc := ((supDist_le_iff h 0).mp h0).2
  unfold Close at hc
  clear h h0
  induction hc with
  | nil => rfl
  | cons hab _ ih =>
    have := abs_nonpos_iff.mp hab
    rw [sub_eq_zero.mp this, ih]

/-! ### `dot` against a non-negative row -/

theorem sum_nonneg' : ∀ q : List K, (∀ e ∈ q, 0 ≤ e) → 0 ≤ q.sum := by
  intro q
  induction q with
  | nil => intro _; simp
  | cons e es ih =>
    intro h
    rw [sum_cons]
    exact add_nonneg (h e (by simp)) (ih fun x hx => h x (by simp [hx]))

/-- monotone + shift in one statement: `v ≤ w + c` entrywise, `q ≥ 0` ⇒ `q·v ≤ q·w + c Σq` -/
theorem dot_leAdd {c : K} (hc : 0 ≤ c) {v w : List K} (h : LeAdd c v w) :
    ∀ q : List K, (∀ e ∈ q, 0 ≤ e) → dot q v ≤ dot q w + c * q.sum := by
  unfold LeAdd at h
  induction h with
  | nil =>
    intro q hq
    have : 0 ≤ q.sum := sum_nonneg' q hq
    cases q <;> simp only [dot, zero_add] <;> positivity
  | cons hab _ ih =>
    intro q hq
    cases q with
    | nil => simp [dot]
    | cons e es =>
      simp only [dot, sum_cons]
      have he : 0 ≤ e := hq e (by simp)
      have := ih es (fun x hx => hq x (by simp [hx]))
      have h2 : e * _ ≤ e * (_ + c) := mul_le_mul_of_nonneg_left hab he
      nlinarith

/-- shift: `q·(v + c·1) = q·v + c Σq` when `q` is not longer than `v` -/
theorem dot_addConst (c : K) : ∀ (q v : List K), q.length ≤ v.length →
    dot q (addConst v c) = dot q v + c * q.sum := by
  intro q
  induction q with
  | nil => intro v _; simp [dot]
  | cons e es ih =>
    intro v hv
    cases v with
    | nil => simp at hv
    | cons x xs =>
      simp only [length_cons, Nat.add_le_add_iff_right] at hv
      have := ih xs hv
      simp only [addConst, map_cons, dot, sum_cons] at *
      rw [this]; ring

/-! ### the first-maximum scan -/

section scan
variable {γ : Type}

theorem scanMax_mem (f : γ → K) : ∀ (xs : List γ) (m : γ), scanMax f m xs ∈ m :: xs := by
  intro xs
  induction xs with
  | nil => intro m; simp [scanMax]
  | cons x xs ih =>
    intro m
    simp only [scanMax]
    split_ifs
    · have := ih x; simp only [mem_cons] at this ⊢; tauto
    · have := ih m; simp only [mem_cons] at this ⊢; tauto

theorem scanMax_ge (f : γ → K) : ∀ (xs : List γ) (m : γ), ∀ y ∈ m :: xs, f y ≤ f (scanMax f m xs) := by
  intro xs
  induction xs with
  | nil => intro m y hy; simp only [mem_cons, not_mem_nil, or_false] at hy; subst hy; simp [scanMax]
  | cons x xs ih =>
    intro m y hy
    simp only [scanMax]
    have hm := ih m
    have hx := ih x
    simp only [mem_cons] at hy hm hx
    split_ifs with hlt
    · rcases hy with rfl | rfl | hy
      · exact le_trans (le_of_lt hlt) (hx x (Or.inl rfl))
      · exact hx _ (Or.inl rfl)
      · exact hx y (Or.inr hy)
    · rcases hy with rfl | rfl | hy
      · exact hm _ (Or.inl rfl)
      · exact le_trans (not_lt.mp hlt) (hm m (Or.inl rfl))
      · exact hm y (Or.inr hy)

/-- the value of the scan is monotone in the key function, up to a shift -/
theorem scanMax_leAdd (f g : γ → K) (c : K) (m : γ) (xs : List γ)
    (h : ∀ y ∈ m :: xs, f y ≤ g y + c) : f (scanMax f m xs) ≤ g (scanMax g m xs) + c := by
  have h1 := h _ (scanMax_mem f xs m)
  have h2 := scanMax_ge g xs m _ (scanMax_mem f xs m)
  linarith

end scan

end QE.C01
