/-
  C12 helper lemmas, part 4: sequential conditioning equals one-shot conditioning.

  `Joint K n p` holds the first two moments of a pair `(x, Y)` (`x` indexed by `n`, the
  observations so far `Y` by `p`). `observe` appends a new observation `y = g x + noise(R)`
  whose noise is uncorrelated with `(x, Y)`; `advance` replaces `x` by `a x + noise(Q)`.
  `condMean` / `condCov` are the Gaussian conditional moments of `x` given `Y`.
  `observe_cond`: conditioning the extended law on `(Y, y)` = one Kalman measurement update of
  the moments conditioned on `Y` (block inverse through the Schur complement, which is the
  innovation covariance). `advance_cond`: conditioning commutes with the time update.
-/
import Mathlib.LinearAlgebra.Matrix.NonsingularInverse
import Mathlib.LinearAlgebra.Matrix.SchurComplement
import Mathlib.Data.Matrix.ColumnRowPartitioned
import Mathlib.Tactic.Abel

set_option linter.unusedSectionVars false

namespace QE.C12
open Matrix

variable {K : Type} [CommRing K]
variable {n p k : Type} [Fintype n] [Fintype p] [Fintype k] [DecidableEq n] [DecidableEq p] [DecidableEq k]

/-- first and second moments of `(x, Y)` -/
structure Joint (K : Type) (n p : Type) where
  mx : Matrix n (Fin 1) K
  mY : Matrix p (Fin 1) K
  Sxx : Matrix n n K
  SxY : Matrix n p K
  SYx : Matrix p n K
  SYY : Matrix p p K

/-- conditional mean of `x` given `Y = yo` -/
noncomputable def condMean (J : Joint K n p) (yo : Matrix p (Fin 1) K) : Matrix n (Fin 1) K :=
  J.mx + J.SxY * J.SYY⁻¹ * (yo - J.mY)

/-- conditional covariance of `x` given `Y` -/
noncomputable def condCov (J : Joint K n p) : Matrix n n K := J.Sxx - J.SxY * J.SYY⁻¹ * J.SYx

/-- append the observation `y = g x + e`, `e ∼ (0, R)` uncorrelated with `(x, Y)` -/
def observe (g : Matrix k n K) (R : Matrix k k K) (J : Joint K n p) : Joint K n (p ⊕ k) :=
  ⟨J.mx, fromRows J.mY (g * J.mx), J.Sxx, fromCols J.SxY (J.Sxx * gᵀ), fromRows J.SYx (g * J.Sxx),
   fromBlocks J.SYY (J.SYx * gᵀ) (g * J.SxY) (g * J.Sxx * gᵀ + R)⟩

/-- replace `x` by `a x + e`, `e ∼ (0, Q)` uncorrelated with `(x, Y)` -/
def advance (a : Matrix n n K) (Q : Matrix n n K) (J : Joint K n p) : Joint K n p :=
  ⟨a * J.mx, J.mY, a * J.Sxx * aᵀ + Q, a * J.SxY, J.SYx * aᵀ, J.SYY⟩

/-- the explicit block inverse through the Schur complement `F = T − D W E` -/
theorem block_left_inv (SYY W : Matrix p p K) (E : Matrix p k K) (D : Matrix k p K)
    (T F Fi : Matrix k k K) (hW : W * SYY = 1) (hFi : Fi * F = 1) (hT : T = F + D * W * E) :
    fromBlocks (W + W * E * Fi * D * W) (-(W * E * Fi)) (-(Fi * D * W)) Fi * fromBlocks SYY E D T = 1 := by
  have hW' : ∀ {q : Type} (X : Matrix p q K), W * (SYY * X) = X := by
    intro q X; rw [← Matrix.mul_assoc, hW, Matrix.one_mul]
  rw [fromBlocks_multiply, ← fromBlocks_one, hT]
  congr 1
  · simp only [Matrix.add_mul, Matrix.neg_mul, Matrix.mul_assoc, hW, Matrix.mul_one]
    abel
  · simp only [Matrix.add_mul, Matrix.mul_add, Matrix.neg_mul, Matrix.mul_assoc, hFi, Matrix.mul_one]
    abel
  · simp only [Matrix.neg_mul, Matrix.mul_assoc, hW, Matrix.mul_one]
    abel
  · simp only [Matrix.mul_add, Matrix.neg_mul, Matrix.mul_assoc, hFi]
    abel

theorem fromRows_sub' {q : Type} (a c : Matrix p q K) (b d : Matrix k q K) :
    fromRows a b - fromRows c d = fromRows (a - c) (b - d) := by
  ext (i | i) j <;> simp

/-- **one measurement update = conditioning on one more observation.**
    If `SYY` and the innovation covariance `F = g Σ g' + R` (`Σ = condCov J`) are invertible, then
    the extended observation covariance is invertible and the conditional moments of `x` given
    `(Y, y)` are the Kalman update of the conditional moments given `Y`. -/
theorem observe_cond (g : Matrix k n K) (R : Matrix k k K) (J : Joint K n p) (yo : Matrix p (Fin 1) K)
    (y : Matrix k (Fin 1) K) (hS : IsUnit J.SYY.det)
    (hF : IsUnit (g * condCov J * gᵀ + R).det) :
    IsUnit (observe g R J).SYY.det ∧
    condCov (observe g R J) = condCov J - condCov J * gᵀ * (g * condCov J * gᵀ + R)⁻¹ * (g * condCov J) ∧
    condMean (observe g R J) (fromRows yo y) =
      condMean J yo + condCov J * gᵀ * (g * condCov J * gᵀ + R)⁻¹ * (y - g * condMean J yo) := by
  have hW : J.SYY⁻¹ * J.SYY = 1 := Matrix.nonsing_inv_mul _ hS
  have hFi : (g * condCov J * gᵀ + R)⁻¹ * (g * condCov J * gᵀ + R) = 1 := Matrix.nonsing_inv_mul _ hF
  have hT : g * J.Sxx * gᵀ + R = (g * condCov J * gᵀ + R) + (g * J.SxY) * J.SYY⁻¹ * (J.SYx * gᵀ) := by
    unfold condCov
    simp only [Matrix.mul_sub, Matrix.sub_mul, Matrix.mul_assoc]
    abel
  have hinv := block_left_inv J.SYY J.SYY⁻¹ (J.SYx * gᵀ) (g * J.SxY) (g * J.Sxx * gᵀ + R)
    (g * condCov J * gᵀ + R) (g * condCov J * gᵀ + R)⁻¹ hW hFi hT
  have hinv' : (observe g R J).SYY⁻¹ = _ := Matrix.inv_eq_left_inv hinv
  refine ⟨?_, ?_, ?_⟩
  · exact (Matrix.isUnit_iff_isUnit_det _).mp (IsUnit.of_mul_eq_one_right _ hinv)
  · unfold condCov at hinv' ⊢
    rw [hinv']
    simp only [observe]
    generalize (g * (J.Sxx - J.SxY * J.SYY⁻¹ * J.SYx) * gᵀ + R)⁻¹ = Fi
    rw [fromCols_mul_fromBlocks, fromCols_mul_fromRows]
    simp only [Matrix.mul_add, Matrix.add_mul, Matrix.mul_sub, Matrix.sub_mul, Matrix.neg_mul,
      Matrix.mul_neg, Matrix.mul_assoc]
    abel
  · unfold condMean condCov at hinv' ⊢
    rw [hinv']
    simp only [observe]
    generalize (g * (J.Sxx - J.SxY * J.SYY⁻¹ * J.SYx) * gᵀ + R)⁻¹ = Fi
    rw [fromRows_sub', fromCols_mul_fromBlocks, fromCols_mul_fromRows]
    simp only [Matrix.mul_add, Matrix.add_mul, Matrix.mul_sub, Matrix.sub_mul, Matrix.neg_mul,
      Matrix.mul_neg, Matrix.mul_assoc]
    abel

/-- **the time update commutes with conditioning.** -/
theorem advance_cond (a Q : Matrix n n K) (J : Joint K n p) (yo : Matrix p (Fin 1) K) :
    (advance a Q J).SYY = J.SYY ∧
    condCov (advance a Q J) = a * condCov J * aᵀ + Q ∧
    condMean (advance a Q J) yo = a * condMean J yo := by
  refine ⟨rfl, ?_, ?_⟩
  · unfold condCov advance
    simp only [Matrix.mul_sub, Matrix.sub_mul, Matrix.mul_assoc]
    abel
  · unfold condMean advance
    simp only [Matrix.mul_add, Matrix.mul_assoc]

/-! ### the joint law of `(x_T, y_0 … y_{T-1})` built from the model equations -/

/-- index of the stacked observations `y_0 … y_{t-1}`: `t` blocks of size `k` -/
def BIdx (k : ℕ) : ℕ → Type
  | 0 => Fin 0
  | t + 1 => BIdx k t ⊕ Fin k

instance BIdx.fintype (k : ℕ) : ∀ t, Fintype (BIdx k t)
  | 0 => inferInstanceAs (Fintype (Fin 0))
  | t + 1 => @instFintypeSum _ _ (BIdx.fintype k t) _

instance BIdx.decEq (k : ℕ) : ∀ t, DecidableEq (BIdx k t)
  | 0 => inferInstanceAs (DecidableEq (Fin 0))
  | t + 1 => @instDecidableEqSum _ _ (BIdx.decEq k t) _

/-- moments of `(x_t, (y_0, …, y_{t-1}))` for `x_0 ∼ (x0, S0)`, `x_{s+1} = a x_s + c w_{s+1}`,
    `y_s = g x_s + h v_s`, all shocks uncorrelated with unit covariance: observe `y_t`, then
    advance the state -/
def batchLaw {N k m l : ℕ} (a : Matrix (Fin N) (Fin N) K) (c : Matrix (Fin N) (Fin m) K)
    (g : Matrix (Fin k) (Fin N) K) (h : Matrix (Fin k) (Fin l) K) (x0 : Matrix (Fin N) (Fin 1) K)
    (S0 : Matrix (Fin N) (Fin N) K) : (t : ℕ) → Joint K (Fin N) (BIdx k t)
  | 0 => ⟨x0, 0, S0, 0, 0, 0⟩
  | t + 1 => advance a (c * cᵀ) (observe g (h * hᵀ) (batchLaw a c g h x0 S0 t))

/-- the record `y_0 … y_{t-1}` stacked -/
def stackObs {k : ℕ} (y : ℕ → Matrix (Fin k) (Fin 1) K) : (t : ℕ) → Matrix (BIdx k t) (Fin 1) K
  | 0 => 0
  | t + 1 => fromRows (stackObs y t) (y t)

end QE.C12
