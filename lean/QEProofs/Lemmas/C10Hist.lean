/-
  Lemmas for C10, part 10: histories of operations on one MarkovChain object
  (`state_values` re-assigned between `simulate` / `simulate_indices` calls).
-/
import QEModel.C10
namespace QE.C10
variable {α : Type}

/-- a call never changes the object state -/
theorem stepH_call_state (n : Nat) (f : Nat → List α → Option (List Nat)) (sv : Option (List Int))
    (via : Bool) (a : InitArg) (reps : Option Nat) (drawn : List Nat) (ts : Nat) (us : List (List α)) :
    (stepH n f sv (.call via a reps drawn ts us)).1 = sv := by
  cases via
  · rfl
  · cases sv with
    | none => rfl
    | some l => cases a <;> rfl

/-- the setter: `None` always; a labelling exactly when it has length `n`; otherwise unchanged -/
theorem stepH_set_state (n : Nat) (f : Nat → List α → Option (List Nat)) (sv new : Option (List Int)) :
    (stepH n f sv (.setSV new)).1 =
      match new with
      | none => none
      | some l => if l.length = n then some l else sv := by
  cases new with
  | none => rfl
  | some l =>
    simp only [stepH]
    split <;> rfl

theorem finalSV_append (n : Nat) (f : Nat → List α → Option (List Nat)) (sv : Option (List Int))
    (h : List (HOp α)) (op : HOp α) :
    finalSV n f sv (h ++ [op]) = (stepH n f (finalSV n f sv h) op).1 := by
  simp [finalSV, List.foldl_append]

theorem runH_append (n : Nat) (f : Nat → List α → Option (List Nat)) (sv : Option (List Int))
    (h : List (HOp α)) (op : HOp α) :
    runH n f sv (h ++ [op]) = runH n f sv h ++ [(stepH n f (finalSV n f sv h) op).2] := by
  induction h generalizing sv with
  | nil => simp [runH, finalSV]
  | cons o os ih =>
    simp only [List.cons_append, runH, ih]
    simp [finalSV]

theorem runH_length (n : Nat) (f : Nat → List α → Option (List Nat)) (sv : Option (List Int))
    (h : List (HOp α)) : (runH n f sv h).length = h.length := by
  induction h generalizing sv with
  | nil => rfl
  | cons o os ih => simp [runH, ih]

/-- the object state after a history does not depend on the chain, the calls made or the random
    numbers: it is the fold of the setter over the assignments alone -/
def svOnly (n : Nat) (sv : Option (List Int)) : List (Option (List Int)) → Option (List Int)
  | [] => sv
  | none :: rest => svOnly n none rest
  | some l :: rest => svOnly n (if l.length = n then some l else sv) rest

def assignments : List (HOp α) → List (Option (List Int))
  | [] => []
  | .setSV s :: rest => s :: assignments rest
  | .call .. :: rest => assignments rest

theorem finalSV_eq_svOnly (n : Nat) (f : Nat → List α → Option (List Nat)) (sv : Option (List Int))
    (h : List (HOp α)) : finalSV n f sv h = svOnly n sv (assignments h) := by
  induction h generalizing sv with
  | nil => rfl
  | cons o os ih =>
    have hstep : finalSV n f sv (o :: os) = finalSV n f (stepH n f sv o).1 os := by simp [finalSV]
    rw [hstep, ih]
    cases o with
    | setSV s =>
      cases s with
      | none => rfl
      | some l =>
        simp only [assignments, svOnly, stepH]
        split <;> rfl
    | call via a reps drawn ts us =>
      rw [stepH_call_state]; rfl

/-! ### DiscreteRV objects -/

theorem drvDraw_eq_drvDrawQ [Add α] [LT α] [DecidableLT α] (q us : List α) :
    drvDraw q us = drvDrawQ (cumsum q) us := rfl

theorem runD_append [Add α] [LT α] [DecidableLT α] (q : List α) (h : List (DOp α)) (op : DOp α) :
    runD q (h ++ [op]) = runD q h ++ [(stepD (finalQ q h) op).2] := by
  induction h generalizing q with
  | nil => simp [runD, finalQ]
  | cons o os ih =>
    simp only [List.cons_append, runD, ih]
    simp [finalQ]

/-- the probability vector after a history: the last assignment, or the initial vector -/
def lastQ (q : List α) : List (DOp α) → List α
  | [] => q
  | .setQ q' :: rest => lastQ q' rest
  | .draw _ :: rest => lastQ q rest

theorem finalQ_eq_lastQ [Add α] [LT α] [DecidableLT α] (q : List α) (h : List (DOp α)) :
    finalQ q h = lastQ q h := by
  induction h generalizing q with
  | nil => rfl
  | cons o os ih =>
    have : finalQ q (o :: os) = finalQ (stepD q o).1 os := by simp [finalQ]
    rw [this, ih]
    cases o <;> rfl

end QE.C10
