/-
  C04 — `minmax`: the game LP.  Part 1: the shift constant makes the matrix positive,
  the hand-chosen pivot row is an argmax, the tableau after the two hand pivots is
  canonical with non-negative right-hand sides and row-equivalent to the initial one.
-/
import QEProofs.Lemmas.C04Dual
import Mathlib.Algebra.BigOperators.Intervals
namespace QE.C04
open QE QE.Pivot Finset

variable {K : Type} [Field K] [LinearOrder K] [IsStrictOrderedRing K]

/-! ### `A.min()` and the shift -/

omit [Field K] [IsStrictOrderedRing K] in
theorem foldl_min_le (f : ℕ → K) (l : List ℕ) :
    ∀ acc : K, l.foldl (fun acc j => if f j < acc then f j else acc) acc ≤ acc ∧
      ∀ j ∈ l, l.foldl (fun acc j => if f j < acc then f j else acc) acc ≤ f j := by
  induction l with
  | nil => intro acc; simp
  | cons x xs ih =>
    intro acc
    rw [List.foldl_cons]
    obtain ⟨h1, h2⟩ := ih (if f x < acc then f x else acc)
    have hstep : (if f x < acc then f x else acc) ≤ acc ∧ (if f x < acc then f x else acc) ≤ f x := by
      split_ifs with h
      · exact ⟨le_of_lt h, le_refl _⟩
      · exact ⟨le_refl _, not_lt.mp h⟩
    refine ⟨le_trans h1 hstep.1, ?_⟩
    intro j hj
    rcases List.mem_cons.mp hj with e | hj'
    · subst e; exact le_trans h1 hstep.2
    · exact h2 j hj'

omit [Field K] [IsStrictOrderedRing K] in
theorem foldl_min2_le (A : ℕ → ℕ → K) (lj : List ℕ) (li : List ℕ) :
    ∀ acc : K,
      li.foldl (fun acc i => lj.foldl (fun acc j => if A i j < acc then A i j else acc) acc) acc ≤ acc ∧
      ∀ i ∈ li, ∀ j ∈ lj,
        li.foldl (fun acc i => lj.foldl (fun acc j => if A i j < acc then A i j else acc) acc) acc ≤ A i j := by
  induction li with
  | nil => intro acc; simp
  | cons x xs ih =>
    intro acc
    rw [List.foldl_cons]
    obtain ⟨g1, g2⟩ := foldl_min_le (fun j => A x j) lj acc
    obtain ⟨h1, h2⟩ := ih (lj.foldl (fun acc j => if A x j < acc then A x j else acc) acc)
    refine ⟨le_trans h1 g1, ?_⟩
    intro i hi j hj
    rcases List.mem_cons.mp hi with e | hi'
    · subst e; exact le_trans h1 (g2 j hj)
    · exact h2 i hi' j hj

omit [Field K] [IsStrictOrderedRing K] in
theorem matMin_le (A : ℕ → ℕ → K) (m n i j : ℕ) (hi : i < m) (hj : j < n) : matMin A m n ≤ A i j := by
  unfold matMin
  exact (foldl_min2_le A (List.range n) (List.range m) (A 0 0)).2 i (List.mem_range.mpr hi) j
    (List.mem_range.mpr hj)

/-- the shifted matrix is positive -/
theorem mm_pos (A : ℕ → ℕ → K) (m n i j : ℕ) (hi : i < m) (hj : j < n) : 0 < A i j + mmConst A m n := by
  have h := matMin_le A m n i j hi hj
  unfold mmConst
  simp only
  split_ifs with h0
  · linarith
  · have := not_le.mp h0; linarith

/-! ### the hand-chosen pivot row -/

omit [Field K] [IsStrictOrderedRing K] in
theorem mmPivRow_spec [Zero K] (T : M K) (m : ℕ) (hm : 1 ≤ m) :
    mmPivRow T m < m ∧ ∀ i, i < m → T.get i 0 ≤ T.get (mmPivRow T m) 0 := by
  unfold mmPivRow
  have key : ∀ k, let st := (List.range k).foldl (fun (st : ℕ × K) i =>
        if i = 0 then st else if st.2 < T.get i 0 then (i, T.get i 0) else st) (0, T.get 0 0)
      st.2 = T.get st.1 0 ∧ (st.1 = 0 ∨ st.1 < k) ∧ T.get 0 0 ≤ st.2 ∧ ∀ i, i < k → T.get i 0 ≤ st.2 := by
    intro k
    induction k with
    | zero => simp
    | succ k ih =>
      simp only at ih ⊢
      rw [List.range_succ, List.foldl_append]
      simp only [List.foldl_cons, List.foldl_nil]
      set st := (List.range k).foldl (fun (st : ℕ × K) i =>
        if i = 0 then st else if st.2 < T.get i 0 then (i, T.get i 0) else st) (0, T.get 0 0) with hst
      obtain ⟨h1, h2, h3, h4⟩ := ih
      by_cases hk : k = 0
      · rw [if_pos hk]
        refine ⟨h1, by rcases h2 with h | h; exact Or.inl h; exact Or.inr (by omega), h3, ?_⟩
        intro i hi
        have : i = 0 := by omega
        subst this; exact h3
      · rw [if_neg hk]
        by_cases hlt : st.2 < T.get k 0
        · rw [if_pos hlt]
          refine ⟨rfl, Or.inr (by simp), le_trans h3 (le_of_lt hlt), ?_⟩
          intro i hi
          rcases Nat.lt_succ_iff_lt_or_eq.mp hi with h | h
          · exact le_trans (h4 i h) (le_of_lt hlt)
          · subst h; exact le_refl _
        · rw [if_neg hlt]
          refine ⟨h1, by rcases h2 with h | h; exact Or.inl h; exact Or.inr (by omega), h3, ?_⟩
          intro i hi
          rcases Nat.lt_succ_iff_lt_or_eq.mp hi with h | h
          · exact h4 i h
          · subst h; exact not_lt.mp hlt
  obtain ⟨h1, h2, _, h4⟩ := key m
  refine ⟨by rcases h2 with h | h; rw [h]; omega; exact h, ?_⟩
  intro i hi
  rw [← h1]; exact h4 i hi

/-! ### the game tableau: `L = m+1` constraint rows, `N = n+1+m` variable columns -/

omit [IsStrictOrderedRing K] in
theorem mmTableau_shape (A : ℕ → ℕ → K) (m n : ℕ) : Shape (mmTableau A m n) (m + 1) (n + 1 + m) :=
  ⟨rfl, rfl⟩

omit [IsStrictOrderedRing K] in
theorem mmTableau_get (A : ℕ → ℕ → K) (m n i j : ℕ) (hi : i < m + 2) (hj : j < n + 1 + m + 1) :
    (mmTableau A m n).get i j =
      if i < m then
        (if j < n then A i j + mmConst A m n else if j = n then -1 else if j = n + 1 + i then 1 else 0)
      else if i = m then (if j < n ∨ j = n + 1 + m then 1 else 0)
      else (if j = n then -1 else 0) := by
  unfold mmTableau
  simp only
  rw [M.get_tab _ _ _ _ _ hi hj]

/-- column `j` is the unit vector `e_i` over the first `R` rows -/
def UnitCol (T : M K) (j i R : ℕ) : Prop := ∀ i', i' < R → T.get i' j = if i' = i then 1 else 0

omit [LinearOrder K] [IsStrictOrderedRing K] in
theorem unitCol_keep [DecidableEq K] (T : M K) (L N c r j i : ℕ) (hs : Shape T L N) (hj : j < N + 1)
    (hir : i ≠ r) (hr : r < L + 1) (h : UnitCol T j i (L + 1)) : UnitCol (pivot T c r) j i (L + 1) := by
  intro i' hi'
  have hz : T.get r j = 0 := by rw [h r hr, if_neg (fun e => hir e.symm)]
  rw [pivot_col_keep T c r i' j (by rw [hs.1]; exact hi') (by rw [hs.2]; exact hj) hz]
  exact h i' hi'

omit [LinearOrder K] [IsStrictOrderedRing K] in
theorem unitCol_new [DecidableEq K] (T : M K) (L N c r : ℕ) (hs : Shape T L N) (hr : r < L + 1)
    (hc : c < N + 1) (hp : T.get r c ≠ 0) : UnitCol (pivot T c r) c r (L + 1) := by
  intro i' hi'
  by_cases e : i' = r
  · subst e; rw [if_pos rfl]
    exact pivot_col_r T c i' (by rw [hs.1]; exact hi') (by rw [hs.2]; exact hc) hp
  · rw [if_neg e]
    exact pivot_col_i T c r i' (by rw [hs.1]; exact hi') (by rw [hs.2]; exact hc) e hp

/-- the basis after the two hand pivots -/
def mmBasis (m n pr : ℕ) : List ℕ := (((List.range (m + 1)).map fun i => n + 1 + i).set pr n).set m 0

theorem mmBasis_getD (m n pr i : ℕ) (hpr : pr < m) (hi : i < m + 1) :
    (mmBasis m n pr).getD i 0 = if i = m then 0 else if i = pr then n else n + 1 + i := by
  unfold mmBasis
  rw [getD_set _ m 0 i (by simp), getD_set _ pr n i (by simp; omega)]
  by_cases h1 : i = m
  · simp [h1]
  · by_cases h2 : i = pr
    · simp [h2]
    · simp only [if_neg h1, if_neg h2]
      rw [List.getD_eq_getElem?_getD, List.getElem?_map, List.getElem?_range hi]; rfl

/-- the tableau after `_pivoting(tableau, n, pivrow); _pivoting(tableau, 0, m)` -/
def mmStart (A : ℕ → ℕ → K) (m n : ℕ) : M K :=
  pivot (pivot (mmTableau A m n) n (mmPivRow (mmTableau A m n) m)) 0 m

/-- **the start of `minmax`'s simplex run** is canonical with non-negative right-hand sides and
    row-equivalent to the game tableau (same solution set, same objective, rows and criterion
    row in the span of the game tableau's rows) -/
theorem mmStart_facts (A : ℕ → ℕ → K) (m n : ℕ) (hm : 1 ≤ m) (hn : 1 ≤ n) :
    let T0 := mmTableau A m n
    let T2 := mmStart A m n
    let b0 := mmBasis m n (mmPivRow T0 m)
    Shape T2 (m + 1) (n + 1 + m) ∧ Canon T2 b0 (m + 1) (n + 1 + m) ∧ RhsNonneg T2 (m + 1) (n + 1 + m) ∧
    (∀ z, RowsSat T2 z (m + 1) ↔ RowsSat T0 z (m + 1)) ∧
    (∀ z, RowsSat T2 z (m + 1) → resid T2 z (m + 1) = resid T0 z (m + 1)) ∧
    RowsSpan T0 T2 (m + 1) (n + 1 + m) ∧
    CritSpan T0 T2 (m + 1) (n + 1 + m) (fun j => T0.get (m + 1) j) := by
  intro T0 T2 b0
  set pr := mmPivRow T0 m with hpr
  obtain ⟨hprm, hmax⟩ := mmPivRow_spec T0 m hm
  rw [← hpr] at hprm hmax
  set Ta := pivot T0 n pr with hTa
  have hT2 : T2 = pivot Ta 0 m := rfl
  have hs0 : Shape T0 (m + 1) (n + 1 + m) := mmTableau_shape A m n
  have hsa : Shape Ta (m + 1) (n + 1 + m) := shape_pivot T0 _ _ n pr hs0
  have hs2 : Shape T2 (m + 1) (n + 1 + m) := shape_pivot Ta _ _ 0 m hsa
  -- entries of T0
  have e_struct : ∀ i j, i < m → j < n → T0.get i j = A i j + mmConst A m n := by
    intro i j hi hj
    rw [mmTableau_get A m n i j (by omega) (by omega), if_pos hi, if_pos hj]
  have e_v : ∀ i, i < m → T0.get i n = -1 := by
    intro i hi
    rw [mmTableau_get A m n i n (by omega) (by omega), if_pos hi, if_neg (lt_irrefl _), if_pos rfl]
  have e_rhs : ∀ i, i < m → T0.get i (n + 1 + m) = 0 := by
    intro i hi
    rw [mmTableau_get A m n i _ (by omega) (by omega), if_pos hi, if_neg (by omega), if_neg (by omega),
      if_neg (by omega)]
  have e_m0 : T0.get m 0 = 1 := by
    rw [mmTableau_get A m n m 0 (by omega) (by omega), if_neg (lt_irrefl _), if_pos rfl,
      if_pos (Or.inl (by omega))]
  have e_mv : T0.get m n = 0 := by
    rw [mmTableau_get A m n m n (by omega) (by omega), if_neg (lt_irrefl _), if_pos rfl,
      if_neg (by omega)]
  have e_mrhs : T0.get m (n + 1 + m) = 1 := by
    rw [mmTableau_get A m n m _ (by omega) (by omega), if_neg (lt_irrefl _), if_pos rfl,
      if_pos (Or.inr rfl)]
  have hp1 : T0.get pr n ≠ 0 := by rw [e_v pr hprm]; norm_num
  -- row m is untouched by the first pivot
  have a_m : ∀ j, j < n + 1 + m + 1 → Ta.get m j = T0.get m j := by
    intro j hj
    rw [pivot_get_i T0 n pr m j (by rw [hs0.1]; omega) (by rw [hs0.2]; exact hj) (by omega), e_mv]; ring
  have hp2 : Ta.get m 0 ≠ 0 := by rw [a_m 0 (by omega), e_m0]; exact one_ne_zero
  -- first column after the first pivot
  have a_i0 : ∀ i, i < m → Ta.get i 0 = if i = pr then - T0.get pr 0 else T0.get i 0 - T0.get pr 0 := by
    intro i hi
    by_cases e : i = pr
    · rw [if_pos e, e, pivot_get_r T0 n pr 0 (by rw [hs0.1]; omega) (by rw [hs0.2]; omega), e_v pr hprm]; ring
    · rw [if_neg e, pivot_get_i T0 n pr i 0 (by rw [hs0.1]; omega) (by rw [hs0.2]; omega) e, e_v i hi,
        e_v pr hprm]; ring
  have a_irhs : ∀ i, i < m → Ta.get i (n + 1 + m) = 0 := by
    intro i hi
    by_cases e : i = pr
    · rw [e, pivot_get_r T0 n pr _ (by rw [hs0.1]; omega) (by rw [hs0.2]; omega), e_rhs pr hprm]; simp
    · rw [pivot_get_i T0 n pr i _ (by rw [hs0.1]; omega) (by rw [hs0.2]; omega) e, e_rhs i hi,
        e_rhs pr hprm]; simp
  refine ⟨hs2, ?_, ?_, ?_, ?_, ?_, ?_⟩
  · -- canonical form
    refine ⟨by simp [b0, mmBasis], ?_⟩
    intro i hi
    rw [show b0 = mmBasis m n pr from rfl, mmBasis_getD m n pr i hprm hi]
    by_cases h1 : i = m
    · rw [if_pos h1, h1]
      exact ⟨by omega, unitCol_new Ta _ _ 0 m hsa (by omega) (by omega) hp2⟩
    · rw [if_neg h1]
      by_cases h2 : i = pr
      · rw [if_pos h2, h2]
        refine ⟨by omega, ?_⟩
        exact unitCol_keep Ta _ _ 0 m n pr hsa (by omega) (by omega) (by omega)
          (unitCol_new T0 _ _ n pr hs0 (by omega) (by omega) hp1)
      · rw [if_neg h2]
        have him : i < m := by omega
        refine ⟨by omega, ?_⟩
        apply unitCol_keep Ta _ _ 0 m (n + 1 + i) i hsa (by omega) h1 (by omega)
        apply unitCol_keep T0 _ _ n pr (n + 1 + i) i hs0 (by omega) h2 (by omega)
        intro i' hi'
        rw [mmTableau_get A m n i' _ (by omega) (by omega)]
        by_cases c1 : i' < m
        · rw [if_pos c1, if_neg (by omega), if_neg (by omega)]
          by_cases c2 : i' = i
          · subst c2; simp
          · rw [if_neg (by omega), if_neg c2]
        · rw [if_neg c1]
          by_cases c2 : i' = m
          · rw [if_pos c2, if_neg (by omega), if_neg (by omega)]
          · rw [if_neg c2, if_neg (by omega), if_neg (by omega)]
  · -- right-hand sides
    intro i hi
    by_cases h1 : i = m
    · rw [h1]
      rw [hT2, pivot_get_r Ta 0 m _ (by rw [hsa.1]; omega) (by rw [hsa.2]; omega), a_m _ (by omega),
        a_m 0 (by omega), e_mrhs, e_m0]
      norm_num
    · have him : i < m := by omega
      rw [hT2, pivot_get_i Ta 0 m i _ (by rw [hsa.1]; omega) (by rw [hsa.2]; omega) h1, a_irhs i him,
        a_m _ (by omega), a_m 0 (by omega), e_mrhs, e_m0, a_i0 i him]
      have hpos := mm_pos A m n pr 0 hprm (by omega)
      rw [← e_struct pr 0 hprm (by omega)] at hpos
      by_cases e : i = pr
      · rw [if_pos e]; linarith
      · rw [if_neg e]
        have := hmax i him
        linarith
  · intro z
    rw [hT2, solset_pivot Ta T0 _ _ 0 m hsa (by omega) hp2
      (solset_pivot T0 T0 _ _ n pr hs0 (by omega) hp1 (fun _ => Iff.rfl)) z]
  · exact obj_pivot Ta T0 _ _ 0 m hsa (by omega) hp2
      (obj_pivot T0 T0 _ _ n pr hs0 (by omega) hp1 (fun _ _ => rfl))
  · exact rowsSpan_pivot T0 Ta _ _ 0 m hsa (by omega)
      (rowsSpan_pivot T0 T0 _ _ n pr hs0 (by omega) (rowsSpan_refl _ _ _))
  · have c0 : CritSpan T0 T0 (m + 1) (n + 1 + m) (fun j => T0.get (m + 1) j) := by
      unfold CritSpan; simp only [sub_self]; exact inSpan_zero _ _ _
    exact critSpan_pivot T0 Ta _ _ 0 m _ hsa (by omega)
      (rowsSpan_pivot T0 T0 _ _ n pr hs0 (by omega) (rowsSpan_refl _ _ _))
      (critSpan_pivot T0 T0 _ _ n pr _ hs0 (by omega) (rowsSpan_refl _ _ _) c0)

/-! ### rows of the game tableau as equations -/

omit [LinearOrder K] [IsStrictOrderedRing K] in
theorem mm_sum_split (n m : ℕ) (f : ℕ → K) :
    ∑ j ∈ range (n + 1 + m), f j = ∑ j ∈ range n, f j + f n + ∑ q ∈ range m, f (n + 1 + q) := by
  rw [Finset.sum_range_add, Finset.sum_range_succ]

omit [IsStrictOrderedRing K] in
/-- row `i < m`:  Σ_j (A_ij + const) y_j − v + s_i = 0 -/
theorem mm_row_i (A : ℕ → ℕ → K) (m n i : ℕ) (z : ℕ → K) (hi : i < m) :
    RowSat (mmTableau A m n) z i ↔
      ∑ j ∈ range n, (A i j + mmConst A m n) * z j - z n + z (n + 1 + i) = 0 := by
  unfold RowSat
  have hN : (mmTableau A m n).nc - 1 = n + 1 + m := rfl
  rw [hN, mm_sum_split]
  have h1 : ∑ j ∈ range n, (mmTableau A m n).get i j * z j = ∑ j ∈ range n, (A i j + mmConst A m n) * z j := by
    apply Finset.sum_congr rfl
    intro j hj
    have hj' := Finset.mem_range.mp hj
    rw [mmTableau_get A m n i j (by omega) (by omega), if_pos hi, if_pos hj']
  have h2 : (mmTableau A m n).get i n = -1 := by
    rw [mmTableau_get A m n i n (by omega) (by omega), if_pos hi, if_neg (lt_irrefl _), if_pos rfl]
  have h3 : ∑ q ∈ range m, (mmTableau A m n).get i (n + 1 + q) * z (n + 1 + q) = z (n + 1 + i) := by
    have : ∀ q ∈ range m, (mmTableau A m n).get i (n + 1 + q) * z (n + 1 + q)
        = if q = i then z (n + 1 + q) else 0 := by
      intro q hq
      have hq' := Finset.mem_range.mp hq
      rw [mmTableau_get A m n i _ (by omega) (by omega), if_pos hi, if_neg (by omega), if_neg (by omega)]
      by_cases e : q = i
      · subst e; simp
      · rw [if_neg (by omega), if_neg e]; simp
    rw [Finset.sum_congr rfl this, Finset.sum_ite_eq']
    simp [hi]
  have h4 : (mmTableau A m n).get i (n + 1 + m) = 0 := by
    rw [mmTableau_get A m n i _ (by omega) (by omega), if_pos hi, if_neg (by omega), if_neg (by omega),
      if_neg (by omega)]
  rw [h1, h2, h3, h4]
  constructor <;> intro h <;> linear_combination h

omit [IsStrictOrderedRing K] in
/-- row `m`:  Σ_j y_j = 1 -/
theorem mm_row_m (A : ℕ → ℕ → K) (m n : ℕ) (z : ℕ → K) :
    RowSat (mmTableau A m n) z m ↔ ∑ j ∈ range n, z j = 1 := by
  unfold RowSat
  have hN : (mmTableau A m n).nc - 1 = n + 1 + m := rfl
  rw [hN, mm_sum_split]
  have h1 : ∑ j ∈ range n, (mmTableau A m n).get m j * z j = ∑ j ∈ range n, z j := by
    apply Finset.sum_congr rfl
    intro j hj
    have hj' := Finset.mem_range.mp hj
    rw [mmTableau_get A m n m j (by omega) (by omega), if_neg (lt_irrefl _), if_pos rfl,
      if_pos (Or.inl hj')]; ring
  have h2 : (mmTableau A m n).get m n = 0 := by
    rw [mmTableau_get A m n m n (by omega) (by omega), if_neg (lt_irrefl _), if_pos rfl, if_neg (by omega)]
  have h3 : ∑ q ∈ range m, (mmTableau A m n).get m (n + 1 + q) * z (n + 1 + q) = 0 := by
    apply Finset.sum_eq_zero
    intro q hq
    have hq' := Finset.mem_range.mp hq
    rw [mmTableau_get A m n m _ (by omega) (by omega), if_neg (lt_irrefl _), if_pos rfl, if_neg (by omega)]
    ring
  have h4 : (mmTableau A m n).get m (n + 1 + m) = 1 := by
    rw [mmTableau_get A m n m _ (by omega) (by omega), if_neg (lt_irrefl _), if_pos rfl, if_pos (Or.inr rfl)]
  rw [h1, h2, h3, h4]
  constructor <;> intro h <;> linear_combination h

omit [IsStrictOrderedRing K] in
/-- the criterion row of the game tableau: objective `−v` -/
theorem mm_obj (A : ℕ → ℕ → K) (m n : ℕ) (z : ℕ → K) : resid (mmTableau A m n) z (m + 1) = - z n := by
  unfold resid
  have hN : (mmTableau A m n).nc - 1 = n + 1 + m := rfl
  have hc : ∀ j, j < n + 1 + m + 1 → (mmTableau A m n).get (m + 1) j = if j = n then -1 else 0 := by
    intro j hj
    rw [mmTableau_get A m n (m + 1) j (by omega) hj, if_neg (by omega), if_neg (by omega)]
  rw [hN, mm_sum_split]
  have h1 : ∑ j ∈ range n, (mmTableau A m n).get (m + 1) j * z j = 0 := by
    apply Finset.sum_eq_zero
    intro j hj
    have hj' := Finset.mem_range.mp hj
    rw [hc j (by omega), if_neg (by omega)]; ring
  have h3 : ∑ q ∈ range m, (mmTableau A m n).get (m + 1) (n + 1 + q) * z (n + 1 + q) = 0 := by
    apply Finset.sum_eq_zero
    intro q hq
    have hq' := Finset.mem_range.mp hq
    rw [hc _ (by omega), if_neg (by omega)]; ring
  rw [h1, h3, hc n (by omega), if_pos rfl, hc _ (by omega), if_neg (by omega)]
  ring

/-! ### the certificate -/

/-- **minmax, status 0 ⇒ saddle-point certificate** (exact arithmetic).  `y` and `x` are
    probability vectors, every column payoff against `x` is at least `v` and every row payoff
    against `y` is at most `v`. -/
theorem minmax_core (A : ℕ → ℕ → K) (m n fuel : ℕ) (hm : 1 ≤ m) (hn : 1 ≤ n)
    (h0 : (minmax A m n fuel tol0).status = 0) :
    let R := minmax A m n fuel (tol0 : Tol K)
    let x := fun i => R.x.getD i 0
    let y := fun j => R.y.getD j 0
    (∀ i, i < m → 0 ≤ x i) ∧ ∑ i ∈ range m, x i = 1 ∧
    (∀ j, j < n → 0 ≤ y j) ∧ ∑ j ∈ range n, y j = 1 ∧
    (∀ j, j < n → R.v ≤ ∑ i ∈ range m, x i * A i j) ∧
    (∀ i, i < m → ∑ j ∈ range n, A i j * y j ≤ R.v) := by
  intro R x y
  obtain ⟨hs2, hc2, hr2, hsol, hobj, hrsp, hcsp⟩ := mmStart_facts A m n hm hn
  set T0 := mmTableau A m n with hT0
  set L := m + 1 with hL
  set N := n + 1 + m with hN
  set cst := mmConst A m n with hcst
  set b0 := mmBasis m n (mmPivRow T0 m) with hb0
  set r := solveTableau (tol0 : Tol K) false (fuel - 2) (mmStart A m n) b0 with hr
  have hst : R.status = r.status := rfl
  have hRv : R.v = r.T.get L N - cst := rfl
  have hinv := solveTableau_inv0 false (fuel - 2) (mmStart A m n) b0 L N hs2 hc2 hr2
  obtain ⟨hrows, hcrit⟩ := solveTableau_span false (fuel - 2) T0 (mmStart A m n) b0 L N
    (fun j => T0.get L j) hs2 hrsp hcsp
  rw [← hr] at hinv hrows hcrit
  have hpc : pivotCol r.T false (0 : K) = none :=
    solveTableau_status0 (tol0 : Tol K) false _ _ _ (hst ▸ h0)
  have hLr : r.T.nr - 1 = L := by rw [hinv.shape.1]; rfl
  have hNr : r.T.nc - 1 = N := by rw [hinv.shape.2]; rfl
  have hnonpos : ∀ j, j < N → r.T.get L j ≤ 0 := by
    intro j hj
    have := pivotCol_none r.T false 0 hpc j
    rw [hLr, hNr] at this
    exact this (by simpa using hj)
  obtain ⟨hz0, hzrows2, hzval, _⟩ := inv0_optimal false (mmStart A m n) L N r.T r.basis hinv hpc
  set zs := bsol r.T r.basis L N with hzs
  have hzrows : RowsSat T0 zs L := (hsol zs).mp hzrows2
  -- value: v_z = T[L,N]
  have hvz : zs n = r.T.get L N := by
    have h1 := hobj zs hzrows2
    rw [hzval, mm_obj A m n zs] at h1
    exact (neg_injective h1).symm
  -- primal side
  have hysum : ∑ j ∈ range n, zs j = 1 := (mm_row_m A m n zs).mp (hzrows m (by omega))
  have hrow : ∀ i, i < m → ∑ j ∈ range n, (A i j + cst) * zs j - zs n + zs (n + 1 + i) = 0 :=
    fun i hi => (mm_row_i A m n i zs hi).mp (hzrows i (by omega))
  have hshift : ∀ i, ∑ j ∈ range n, (A i j + cst) * zs j = ∑ j ∈ range n, A i j * zs j + cst := by
    intro i
    simp only [add_mul, Finset.sum_add_distrib, ← Finset.mul_sum, hysum, mul_one]
  -- the model's outputs
  have hy : ∀ j, j < n → y j = zs j := by
    intro j hj
    show R.y.getD j 0 = _
    have : R.y = (List.range n).map (basicValue r.T r.basis (m + 1)) := rfl
    rw [this, getD_map_range n _ j hj]
    exact basicValue_eq_bsol r.T r.basis L N j hinv.shape hinv.canon
  have hx : ∀ i, i < m → x i = - r.T.get L (n + 1 + i) := by
    intro i hi
    show R.x.getD i 0 = _
    have : R.x = (List.range m).map (fun j =>
        if r.T.get (m + 1) (n + 1 + j) == 0 then r.T.get (m + 1) (n + 1 + j)
        else r.T.get (m + 1) (n + 1 + j) * (-1)) := rfl
    rw [this, getD_map_range m _ i hi]
    by_cases hv : r.T.get (m + 1) (n + 1 + i) = 0
    · simp [hv, hL]
    · have : (r.T.get (m + 1) (n + 1 + i) == 0) = false := by simpa using hv
      simp only [this]; simp [hL]
  -- dual side: coefficients of the criterion row
  obtain ⟨w, hw⟩ := hcrit
  have hbase : ∀ j, j < N + 1 → T0.get L j = if j = n then -1 else 0 := by
    intro j hj
    rw [hT0, mmTableau_get A m n L j (by omega) hj, if_neg (by omega), if_neg (by omega)]
  have hwsum : ∀ j, j < N + 1 → (if j = n then (-1 : K) else 0) - r.T.get L j
      = ∑ i ∈ range m, w i * T0.get i j + w m * T0.get m j := by
    intro j hj
    have := hw j hj
    simp only at this
    rw [hbase j hj, Finset.sum_range_succ] at this
    exact this
  have hwq : ∀ q, q < m → w q = - r.T.get L (n + 1 + q) := by
    intro q hq
    have h1 := hwsum (n + 1 + q) (by omega)
    rw [if_neg (by omega)] at h1
    have h2 : ∑ i ∈ range m, w i * T0.get i (n + 1 + q) = w q := by
      have : ∀ i ∈ range m, w i * T0.get i (n + 1 + q) = if i = q then w i else 0 := by
        intro i hi
        have hi' := Finset.mem_range.mp hi
        rw [hT0, mmTableau_get A m n i _ (by omega) (by omega), if_pos hi', if_neg (by omega), if_neg (by omega)]
        by_cases e : i = q
        · subst e; simp
        · rw [if_neg (by omega), if_neg e]; simp
      rw [Finset.sum_congr rfl this, Finset.sum_ite_eq']
      simp [hq]
    have h3 : T0.get m (n + 1 + q) = 0 := by
      rw [hT0, mmTableau_get A m n m _ (by omega) (by omega), if_neg (lt_irrefl _), if_pos rfl,
        if_neg (by omega)]
    rw [h2, h3] at h1
    linear_combination -h1
  have hwm : w m = - r.T.get L N := by
    have h1 := hwsum N (by omega)
    rw [if_neg (by omega)] at h1
    have h2 : ∑ i ∈ range m, w i * T0.get i N = 0 := by
      apply Finset.sum_eq_zero
      intro i hi
      have hi' := Finset.mem_range.mp hi
      rw [hT0, mmTableau_get A m n i _ (by omega) (by omega), if_pos hi', if_neg (by omega), if_neg (by omega),
        if_neg (by omega)]; ring
    have h3 : T0.get m N = 1 := by
      rw [hT0, mmTableau_get A m n m _ (by omega) (by omega), if_neg (lt_irrefl _), if_pos rfl,
        if_pos (Or.inr rfl)]
    rw [h2, h3] at h1
    linear_combination -h1
  have hxw : ∀ i, i < m → x i = w i := fun i hi => by rw [hx i hi, hwq i hi]
  -- v is basic, so its reduced cost is 0
  have hvpos : 0 < zs n := by
    have h1 := hrow 0 (by omega)
    have hs0 : 0 ≤ zs (n + 1 + 0) := hz0 _
    have hnn : ∀ j ∈ range n, 0 ≤ (A 0 j + cst) * zs j := fun j hj =>
      mul_nonneg (le_of_lt (mm_pos A m n 0 j (by omega) (Finset.mem_range.mp hj))) (hz0 j)
    have hge : 0 ≤ ∑ j ∈ range n, (A 0 j + cst) * zs j := Finset.sum_nonneg hnn
    rcases lt_or_eq_of_le hge with hlt | heq
    · linarith
    · exfalso
      have hall := (Finset.sum_eq_zero_iff_of_nonneg hnn).mp heq.symm
      have : ∑ j ∈ range n, zs j = 0 := by
        apply Finset.sum_eq_zero
        intro j hj
        have := hall j hj
        rcases mul_eq_zero.mp this with h | h
        · exact absurd h (ne_of_gt (mm_pos A m n 0 j (by omega) (Finset.mem_range.mp hj)))
        · exact h
      rw [hysum] at this
      exact one_ne_zero this
  have hredn : r.T.get L n = 0 := by
    by_contra hne
    have hnb : ∀ i, i < L → r.basis.getD i 0 ≠ n := by
      intro i hi e
      have := (hinv.canon.2 i hi).2 L (by omega)
      rw [e, if_neg (by omega)] at this
      exact hne this
    have := bsol_nonbasic r.T r.basis L N n hnb
    rw [← hzs] at this
    rw [this] at hvpos
    exact lt_irrefl _ hvpos
  have hxsum : ∑ i ∈ range m, x i = 1 := by
    have h1 := hwsum n (by omega)
    rw [if_pos rfl, hredn] at h1
    have h2 : ∑ i ∈ range m, w i * T0.get i n = - ∑ i ∈ range m, w i := by
      rw [← Finset.sum_neg_distrib]
      apply Finset.sum_congr rfl
      intro i hi
      have hi' := Finset.mem_range.mp hi
      rw [hT0, mmTableau_get A m n i n (by omega) (by omega), if_pos hi', if_neg (lt_irrefl _), if_pos rfl]; ring
    have h3 : T0.get m n = 0 := by
      rw [hT0, mmTableau_get A m n m n (by omega) (by omega), if_neg (lt_irrefl _), if_pos rfl, if_neg (by omega)]
    rw [h2, h3] at h1
    have : ∑ i ∈ range m, x i = ∑ i ∈ range m, w i :=
      Finset.sum_congr rfl (fun i hi => hxw i (Finset.mem_range.mp hi))
    rw [this]
    linear_combination h1
  refine ⟨?_, hxsum, ?_, ?_, ?_, ?_⟩
  · intro i hi
    rw [hx i hi]
    have := hnonpos (n + 1 + i) (by omega)
    linarith
  · intro j hj; rw [hy j hj]; exact hz0 j
  · rw [Finset.sum_congr rfl (fun j hj => hy j (Finset.mem_range.mp hj))]; exact hysum
  · intro j hj
    have h1 := hwsum j (by omega)
    rw [if_neg (by omega)] at h1
    have h2 : ∑ i ∈ range m, w i * T0.get i j = ∑ i ∈ range m, x i * A i j + cst := by
      have : ∀ i ∈ range m, w i * T0.get i j = x i * A i j + cst * x i := by
        intro i hi
        have hi' := Finset.mem_range.mp hi
        rw [hT0, mmTableau_get A m n i j (by omega) (by omega), if_pos hi', if_pos hj, hxw i hi']; ring
      rw [Finset.sum_congr rfl this, Finset.sum_add_distrib, ← Finset.mul_sum, hxsum, mul_one]
    have h3 : T0.get m j = 1 := by
      rw [hT0, mmTableau_get A m n m j (by omega) (by omega), if_neg (lt_irrefl _), if_pos rfl,
        if_pos (Or.inl hj)]
    rw [h2, h3, hwm] at h1
    have := hnonpos j (by omega)
    rw [hRv]
    linarith
  · intro i hi
    have h1 := hrow i hi
    rw [hshift i] at h1
    have hs : 0 ≤ zs (n + 1 + i) := hz0 _
    have : ∑ j ∈ range n, A i j * y j = ∑ j ∈ range n, A i j * zs j :=
      Finset.sum_congr rfl (fun j hj => by rw [hy j (Finset.mem_range.mp hj)])
    rw [this, hRv, ← hvz]
    linarith

/-- a saddle certificate is tight: some column attains `v` against `x`, some row attains `v`
    against `y` (so `min_j (xᵀA)_j = v = max_i (Ay)_i`) -/
theorem saddle_attained (A : ℕ → ℕ → K) (m n : ℕ) (x y : ℕ → K) (v : K)
    (hx0 : ∀ i, i < m → 0 ≤ x i) (hxs : ∑ i ∈ range m, x i = 1)
    (hy0 : ∀ j, j < n → 0 ≤ y j) (hys : ∑ j ∈ range n, y j = 1)
    (hcol : ∀ j, j < n → v ≤ ∑ i ∈ range m, x i * A i j)
    (hrow : ∀ i, i < m → ∑ j ∈ range n, A i j * y j ≤ v) :
    (∃ j, j < n ∧ ∑ i ∈ range m, x i * A i j = v) ∧ (∃ i, i < m ∧ ∑ j ∈ range n, A i j * y j = v) := by
  have hswap : ∑ j ∈ range n, y j * ∑ i ∈ range m, x i * A i j
      = ∑ i ∈ range m, x i * ∑ j ∈ range n, A i j * y j := by
    simp only [Finset.mul_sum]
    rw [Finset.sum_comm]
    apply Finset.sum_congr rfl; intro i _
    apply Finset.sum_congr rfl; intro j _; ring
  have h1 : v ≤ ∑ j ∈ range n, y j * ∑ i ∈ range m, x i * A i j := by
    have : v = ∑ j ∈ range n, y j * v := by rw [← Finset.sum_mul, hys, one_mul]
    rw [this]
    exact Finset.sum_le_sum (fun j hj =>
      mul_le_mul_of_nonneg_left (hcol j (Finset.mem_range.mp hj)) (hy0 j (Finset.mem_range.mp hj)))
  have h2 : ∑ i ∈ range m, x i * ∑ j ∈ range n, A i j * y j ≤ v := by
    have : v = ∑ i ∈ range m, x i * v := by rw [← Finset.sum_mul, hxs, one_mul]
    rw [this]
    exact Finset.sum_le_sum (fun i hi =>
      mul_le_mul_of_nonneg_left (hrow i (Finset.mem_range.mp hi)) (hx0 i (Finset.mem_range.mp hi)))
  have hS : ∑ j ∈ range n, y j * ∑ i ∈ range m, x i * A i j = v :=
    le_antisymm (hswap ▸ h2) h1
  have hS' : ∑ i ∈ range m, x i * ∑ j ∈ range n, A i j * y j = v := hswap ▸ hS
  constructor
  · have hz : ∑ j ∈ range n, y j * (∑ i ∈ range m, x i * A i j - v) = 0 := by
      simp only [mul_sub, Finset.sum_sub_distrib, ← Finset.sum_mul, hys, one_mul]
      rw [hS]; ring
    have hnn : ∀ j ∈ range n, 0 ≤ y j * (∑ i ∈ range m, x i * A i j - v) := fun j hj =>
      mul_nonneg (hy0 j (Finset.mem_range.mp hj)) (sub_nonneg.mpr (hcol j (Finset.mem_range.mp hj)))
    have hall := (Finset.sum_eq_zero_iff_of_nonneg hnn).mp hz
    obtain ⟨j, hj, hne⟩ := Finset.exists_ne_zero_of_sum_ne_zero (by rw [hys]; exact one_ne_zero)
    refine ⟨j, Finset.mem_range.mp hj, ?_⟩
    rcases mul_eq_zero.mp (hall j hj) with h | h
    · exact absurd h hne
    · exact sub_eq_zero.mp h
  · have hz : ∑ i ∈ range m, x i * (v - ∑ j ∈ range n, A i j * y j) = 0 := by
      simp only [mul_sub, Finset.sum_sub_distrib, ← Finset.sum_mul, hxs, one_mul]
      rw [hS']; ring
    have hnn : ∀ i ∈ range m, 0 ≤ x i * (v - ∑ j ∈ range n, A i j * y j) := fun i hi =>
      mul_nonneg (hx0 i (Finset.mem_range.mp hi)) (sub_nonneg.mpr (hrow i (Finset.mem_range.mp hi)))
    have hall := (Finset.sum_eq_zero_iff_of_nonneg hnn).mp hz
    obtain ⟨i, hi, hne⟩ := Finset.exists_ne_zero_of_sum_ne_zero (by rw [hxs]; exact one_ne_zero)
    refine ⟨i, Finset.mem_range.mp hi, ?_⟩
    rcases mul_eq_zero.mp (hall i hi) with h | h
    · exact absurd h hne
    · exact (sub_eq_zero.mp h).symm

end QE.C04
