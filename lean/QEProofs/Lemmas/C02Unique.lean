/-
  Lemmas for C02: each recurrent class, restricted, is irreducible; hence the row computed for it is
  THE unique stationary distribution of the class.
-/
import QEModel.C02
import QEProofs.Lemmas.C02Gth
import QEProofs.Lemmas.C02Reach
import QEProofs.Lemmas.C02Scatter
import QEProofs.Lemmas.C02Class
import QEProofs.Lemmas.C02Support
namespace QE.C02
open Finset

set_option linter.unusedSectionVars false
set_option linter.unusedVariables false

section
variable {K : Type} [Field K] [LinearOrder K] [IsStrictOrderedRing K]

/-- for a matrix with unit row sums, `z Q = z P − z` -/
theorem Qm_stochastic_sum (n : ℕ) (P : M K) (hrow : ∀ i, i < n → ∑ j ∈ range n, P.get i j = 1)
    (z : ℕ → K) (j : ℕ) (hj : j < n) :
    ∑ i ∈ range n, z i * Qm (fun a b => P.get a b) 0 n i j
      = ∑ i ∈ range n, z i * P.get i j - z j := by
  have hterm : ∀ i ∈ range n, z i * Qm (fun a b => P.get a b) 0 n i j
      = z i * P.get i j - (if i = j then z j else 0) := by
    intro i hi
    by_cases hij : i = j
    · subst hij
      simp only [Qm, if_true, offSum]
      have hmem : i ∈ Ico 0 n := mem_Ico.2 ⟨Nat.zero_le _, hj⟩
      have hs : ∑ l ∈ (Ico 0 n).erase i, P.get i l = 1 - P.get i i := by
        have := Finset.add_sum_erase (Ico 0 n) (fun l => P.get i l) hmem
        rw [← range_eq_Ico, hrow i hj] at this
        rw [← range_eq_Ico]; linarith
      rw [hs]; ring
    · simp [Qm, hij]
  rw [sum_congr rfl hterm, sum_sub_distrib, sum_ite_eq' (range n) j (fun _ => z j)]
  simp only [mem_range, hj, if_true]

/-- paths inside a closed list of states are paths of the restricted matrix -/
theorem restrict_reach (n : ℕ) (P : M K) (C : List ℕ) (hnd : C.Nodup)
    (hclosed : ∀ c j, c ∈ C → E n (adjB P) c j → j ∈ C)
    (a : ℕ) (ha : a < C.length) (v : ℕ) (h : Rch n (adjB P) (C.getD a 0) v) :
    ∃ b, b < C.length ∧ C.getD b 0 = v ∧ Rch C.length (adjB (restrict P C)) a b := by
  induction h with
  | refl => exact ⟨a, ha, rfl, Relation.ReflTransGen.refl⟩
  | @tail u w _ huw ih =>
    obtain ⟨b', hb', hub, hr⟩ := ih
    have huC : u ∈ C := by rw [← hub]; exact getD_mem_of_lt C b' hb'
    have hwC : w ∈ C := hclosed u w huC huw
    obtain ⟨b, hb, hbw⟩ := List.getElem_of_mem hwC
    have hbw' : C.getD b 0 = w := by simp [List.getD_eq_getElem?_getD, hb, hbw]
    refine ⟨b, hb, hbw', Relation.ReflTransGen.tail hr ⟨hb', hb, ?_⟩⟩
    have := huw.2.2
    unfold adjB at this ⊢
    rw [restrict_get P C b' b hb' hb, hub, hbw']
    exact this

/-- **THE stationary distribution of a recurrent class.** For a stochastic matrix `P` and a class
    `C` returned by the model, any `y` with `y P[C,C] = y`, `Σ y = 1` equals the computed solution. -/
theorem class_row_unique_aux (n : ℕ) (P : M K)
    (hnn : ∀ i j, i < n → j < n → 0 ≤ P.get i j)
    (hrow : ∀ i, i < n → ∑ j ∈ range n, P.get i j = 1)
    (C : List ℕ) (hC : C ∈ recClasses n (reachMat n (adjB P)))
    (y : ℕ → K)
    (hy : ∀ b, b < C.length → ∑ a ∈ range C.length, y a * (restrict P C).get a b = y b)
    (hsum : ∑ a ∈ range C.length, y a = 1) :
    ∀ a, a < C.length → y a = (gthSolve C.length (restrict P C)).getD a 0 := by
  obtain ⟨hnd, hCn, hne⟩ := recClasses_mem n _ C hC
  obtain ⟨i, hi, hrec, _, _, hm⟩ := recClasses_sound n (adjB P) C hC
  have hlen : 1 ≤ C.length := List.length_pos_iff.2 hne
  have hclosedE : ∀ c j, c ∈ C → E n (adjB P) c j → j ∈ C :=
    fun c j hc hcj => recClasses_closed n (adjB P) C hC c j hc hcj
  have hclosed := closedB_sound n P C (closedB_recClasses n P C hC) hnn hCn
  have hR : OffNonneg C.length (restrict P C) := by
    intro a b ha hb _
    rw [restrict_get P C a b ha hb]
    exact hnn _ _ (hCn _ (getD_mem_of_lt C a ha)) (hCn _ (getD_mem_of_lt C b hb))
  have hRrow : ∀ a, a < C.length → ∑ b ∈ range C.length, (restrict P C).get a b = 1 := by
    intro a ha
    rw [restrict_rowsum n P C hnd hCn hclosed a ha]
    exact hrow _ (hCn _ (getD_mem_of_lt C a ha))
  have hirr : ∀ a b, a < C.length → b < C.length → Rch C.length (adjB (restrict P C)) a b := by
    intro a b ha hb
    have hca := (hm _).1 (getD_mem_of_lt C a ha)
    have hcb := (hm _).1 (getD_mem_of_lt C b hb)
    obtain ⟨b', hb', hbb, hr⟩ := restrict_reach n P C hnd hclosedE a ha (C.getD b 0) (hca.2.trans hcb.1)
    have hgetD : ∀ t (ht : t < C.length), C.getD t 0 = C[t] := by
      intro t ht; simp [List.getD_eq_getElem?_getD, ht]
    rw [hgetD b' hb', hgetD b hb] at hbb
    have : b' = b := (List.Nodup.getElem_inj_iff hnd).1 hbb
    rw [← this]; exact hr
  apply null_unique C.length hlen (restrict P C) hR hirr y _ hsum
  intro b hb
  rw [Qm_stochastic_sum C.length (restrict P C) hRrow y b hb, hy b hb, sub_self]

/-- the restriction of a stochastic matrix to one of the model's classes: Metzler, unit row sums,
    irreducible -/
theorem restrict_class_facts (n : ℕ) (P : M K)
    (hnn : ∀ i j, i < n → j < n → 0 ≤ P.get i j)
    (hrow : ∀ i, i < n → ∑ j ∈ range n, P.get i j = 1)
    (C : List ℕ) (hC : C ∈ recClasses n (reachMat n (adjB P))) :
    1 ≤ C.length ∧ OffNonneg C.length (restrict P C)
    ∧ (∀ a, a < C.length → ∑ b ∈ range C.length, (restrict P C).get a b = 1)
    ∧ (∀ a b, a < C.length → b < C.length → Rch C.length (adjB (restrict P C)) a b) := by
  obtain ⟨hnd, hCn, hne⟩ := recClasses_mem n _ C hC
  obtain ⟨i, hi, hrec, _, _, hm⟩ := recClasses_sound n (adjB P) C hC
  have hclosedE : ∀ c j, c ∈ C → E n (adjB P) c j → j ∈ C :=
    fun c j hc hcj => recClasses_closed n (adjB P) C hC c j hc hcj
  have hclosed := closedB_sound n P C (closedB_recClasses n P C hC) hnn hCn
  refine ⟨List.length_pos_iff.2 hne, ?_, ?_, ?_⟩
  · intro a b ha hb _
    rw [restrict_get P C a b ha hb]
    exact hnn _ _ (hCn _ (getD_mem_of_lt C a ha)) (hCn _ (getD_mem_of_lt C b hb))
  · intro a ha
    rw [restrict_rowsum n P C hnd hCn hclosed a ha]
    exact hrow _ (hCn _ (getD_mem_of_lt C a ha))
  · intro a b ha hb
    have hca := (hm _).1 (getD_mem_of_lt C a ha)
    have hcb := (hm _).1 (getD_mem_of_lt C b hb)
    obtain ⟨b', hb', hbb, hr⟩ := restrict_reach n P C hnd hclosedE a ha (C.getD b 0) (hca.2.trans hcb.1)
    have hgetD : ∀ t (ht : t < C.length), C.getD t 0 = C[t] := by
      intro t ht; simp [List.getD_eq_getElem?_getD, ht]
    rw [hgetD b' hb', hgetD b hb] at hbb
    have : b' = b := (List.Nodup.getElem_inj_iff hnd).1 hbb
    rw [← this]; exact hr

/-- the solution on an irreducible matrix is strictly positive everywhere -/
theorem gthSolve_pos_of_irreducible (n : ℕ) (hn : 1 ≤ n) (A : M K) (hA : OffNonneg n A)
    (hirr : ∀ i j, i < n → j < n → Rch n (adjB A) i j) :
    ∀ i, i < n → 0 < (gthSolve n A).getD i 0 := by
  obtain ⟨hcn, _, hsupp⟩ := gth_support_full n hn A hA
  exact fun i hi => (hsupp i hi).2 (hirr _ i hcn hi)

/-- the row of a class is positive exactly on the class -/
theorem class_row_support (n : ℕ) (P : M K)
    (hnn : ∀ i j, i < n → j < n → 0 ≤ P.get i j)
    (hrow : ∀ i, i < n → ∑ j ∈ range n, P.get i j = 1)
    (C : List ℕ) (hC : C ∈ recClasses n (reachMat n (adjB P))) :
    ∀ i, (0 < (scatter n C (gthSolve C.length (restrict P C))).getD i 0 ↔ i ∈ C) := by
  obtain ⟨hnd, hCn, hne⟩ := recClasses_mem n _ C hC
  obtain ⟨hlen, hR, hRrow, hirr⟩ := restrict_class_facts n P hnn hrow C hC
  have hpos := gthSolve_pos_of_irreducible C.length hlen (restrict P C) hR hirr
  intro i
  constructor
  · intro h
    by_contra hni
    rw [scatter_notMem n C _ i hni] at h
    exact lt_irrefl _ h
  · intro hi
    obtain ⟨a, ha, hai⟩ := List.getElem_of_mem hi
    have : C.getD a 0 = i := by simp [List.getD_eq_getElem?_getD, ha, hai]
    rw [← this, scatter_mem n C _ hnd hCn a ha]
    exact hpos a ha

/-- any stationary distribution of `P` that vanishes outside the class `C` is the row of `C` -/
theorem class_row_unique_full (n : ℕ) (P : M K)
    (hnn : ∀ i j, i < n → j < n → 0 ≤ P.get i j)
    (hrow : ∀ i, i < n → ∑ j ∈ range n, P.get i j = 1)
    (C : List ℕ) (hC : C ∈ recClasses n (reachMat n (adjB P)))
    (y : ℕ → K)
    (hy : ∀ j, j < n → ∑ i ∈ range n, y i * P.get i j = y j)
    (hsum : ∑ i ∈ range n, y i = 1)
    (hout : ∀ i, i < n → i ∉ C → y i = 0) :
    ∀ i, i < n → y i = (scatter n C (gthSolve C.length (restrict P C))).getD i 0 := by
  obtain ⟨hnd, hCn, hne⟩ := recClasses_mem n _ C hC
  have hy' : ∀ b, b < C.length →
      ∑ a ∈ range C.length, (fun a => y (C.getD a 0)) a * (restrict P C).get a b
        = (fun a => y (C.getD a 0)) b := by
    intro b hb
    have hbn : C.getD b 0 < n := hCn _ (getD_mem_of_lt C b hb)
    show ∑ a ∈ range C.length, y (C.getD a 0) * (restrict P C).get a b = y (C.getD b 0)
    rw [← hy (C.getD b 0) hbn,
      sum_over_class n C hnd hCn (fun i => y i * P.get i (C.getD b 0))
        (fun j hj hjC => by rw [hout j hj hjC, zero_mul])]
    apply sum_congr rfl
    intro a ha
    rw [restrict_get P C a b (mem_range.1 ha) hb]
  have hsum' : ∑ a ∈ range C.length, (fun a => y (C.getD a 0)) a = 1 := by
    rw [← hsum, sum_over_class n C hnd hCn y hout]
  have huniq := class_row_unique_aux n P hnn hrow C hC (fun a => y (C.getD a 0)) hy' hsum'
  intro i hi
  by_cases hiC : i ∈ C
  · obtain ⟨a, ha, hai⟩ := List.getElem_of_mem hiC
    have hci : C.getD a 0 = i := by simp [List.getD_eq_getElem?_getD, ha, hai]
    rw [← hci, scatter_mem n C _ hnd hCn a ha]
    exact huniq a ha
  · rw [hout i hi hiC, scatter_notMem n C _ i hiC]

end
end QE.C02
