/-
  Lemmas for C15, part 1: the two loops of `_compute_fp.py` (plain iteration, imitation game)
  for an arbitrary map `T`, and the X/Y buffers.
-/
import Mathlib.Logic.Function.Iterate
import Mathlib.Order.Defs.LinearOrder
import Mathlib.Tactic.Linarith
import QEModel.C15
namespace QE.C15

/-! ### the plain iteration -/

section iter
variable {α V : Type} [LE α] [DecidableLE α]

/-- Complete description of the `while` loop of the iteration method: it stops after `k+1`
    evaluations, `k ≤ fuel`, at the first `k` whose step `‖T^{k+1} v − T^k v‖` is `≤ tol`
    (or at `k = fuel`), returning `T^{k+1} v` and that step as the error. -/
theorem fpIterLoop_spec (T : V → V) (err : V → V → α) (tol : α) :
    ∀ (fuel : Nat) (v : V) (it : Nat),
      ∃ k, k ≤ fuel ∧
        (fpIterLoop T err tol fuel v it).iterate = it + k + 1 ∧
        (fpIterLoop T err tol fuel v it).v = T^[k + 1] v ∧
        (fpIterLoop T err tol fuel v it).error = err (T^[k + 1] v) (T^[k] v) ∧
        (k < fuel → err (T^[k + 1] v) (T^[k] v) ≤ tol) ∧
        (∀ j, j < k → ¬ err (T^[j + 1] v) (T^[j] v) ≤ tol) := by
  intro fuel
  induction fuel with
  | zero =>
    intro v it
    exact ⟨0, Nat.le_refl _, rfl, rfl, rfl, fun h => absurd h (Nat.lt_irrefl _), fun j hj => absurd hj (Nat.not_lt_zero _)⟩
  | succ f ih =>
    intro v it
    by_cases h : err (T v) v ≤ tol
    · refine ⟨0, Nat.zero_le _, ?_, ?_, ?_, fun _ => h, fun j hj => absurd hj (Nat.not_lt_zero _)⟩
      · simp [fpIterLoop, h]
      · simp [fpIterLoop, h]
      · simp [fpIterLoop, h]
    · obtain ⟨k, hk, h1, h2, h3, h4, h5⟩ := ih (T v) (it + 1)
      refine ⟨k + 1, Nat.succ_le_succ hk, ?_, ?_, ?_, ?_, ?_⟩
      · simp only [fpIterLoop, h, if_false]; rw [h1]; omega
      · simp only [fpIterLoop, h, if_false]; rw [h2]; rfl
      · simp only [fpIterLoop, h, if_false]; rw [h3]; rfl
      · intro hlt
        have := h4 (by omega)
        simpa [Function.iterate_succ_apply] using this
      · intro j hj
        cases j with
        | zero => simpa using h
        | succ j =>
          have := h5 j (by omega)
          simpa [Function.iterate_succ_apply] using this

end iter

/-! ### the imitation-game loop -/

section ig
variable {V : Type}

/-- the flag returned by the loop is `is_approx_fp` of the point returned -/
theorem igLoop_flag (T : V → V) (isFp : V → Bool) (next : List V → List V → V) (maxIter : Nat) :
    ∀ (fuel : Nat) (X Y : List V) (x : V) (it : Nat),
      (igLoop T isFp next maxIter fuel X Y x it).converged
        = isFp (igLoop T isFp next maxIter fuel X Y x it).x := by
  intro fuel
  induction fuel with
  | zero => intro X Y x it; rfl
  | succ f ih =>
    intro X Y x it
    unfold igLoop
    split
    · rfl
    · exact ih _ _ _ _

/-- `iterate ≤ max_iter` as long as the loop is entered with `iterate < max_iter` and enough fuel;
    and a run that is not flagged as converged used all `max_iter` iterations -/
theorem igLoop_iterate (T : V → V) (isFp : V → Bool) (next : List V → List V → V) (maxIter : Nat) :
    ∀ (fuel : Nat) (X Y : List V) (x : V) (it : Nat), it + 1 + fuel ≥ maxIter → it < maxIter →
      (igLoop T isFp next maxIter fuel X Y x it).iterate ≤ maxIter ∧
      it < (igLoop T isFp next maxIter fuel X Y x it).iterate ∧
      ((igLoop T isFp next maxIter fuel X Y x it).converged = false →
        (igLoop T isFp next maxIter fuel X Y x it).iterate = maxIter) := by
  intro fuel
  induction fuel with
  | zero =>
    intro X Y x it h1 h2
    simp only [igLoop]
    refine ⟨by omega, by omega, fun _ => by omega⟩
  | succ f ih =>
    intro X Y x it h1 h2
    unfold igLoop
    split
    · rename_i hc
      show it + 1 ≤ maxIter ∧ it < it + 1 ∧ (isFp x = false → it + 1 = maxIter)
      refine ⟨by omega, by omega, fun hconv => ?_⟩
      rcases hc with hc | hc
      · rw [hc] at hconv; exact absurd hconv (by decide)
      · omega
    · rename_i hc
      have hlt : it + 1 < maxIter := by
        by_contra hcon
        exact hc (Or.inr (by omega))
      obtain ⟨a, b, c⟩ := ih (X ++ [x]) (Y ++ [T x]) (next (X ++ [x]) (Y ++ [T x])) (it + 1) (by omega) hlt
      exact ⟨a, by omega, c⟩

/-- The history invariant: at every evaluation of `next` the stored sequences are
    `X = x_0 … x_{m-1}`, `Y = T x_0 … T x_{m-1}` (pointwise `Y = X.map T`), `m = iterate`. -/
theorem igLoop_history (T : V → V) (isFp : V → Bool) (next : List V → List V → V) (maxIter : Nat)
    (P : V → Prop)
    (hnext : ∀ X : List V, X ≠ [] → (∀ x ∈ X, P x) → P (next X (X.map T))) :
    ∀ (fuel : Nat) (X : List V) (x : V) (it : Nat), X.length = it → (∀ z ∈ X, P z) → P x →
      P (igLoop T isFp next maxIter fuel X (X.map T) x it).x := by
  intro fuel
  induction fuel with
  | zero => intro X x it _ _ hx; exact hx
  | succ f ih =>
    intro X x it hlen hX hx
    unfold igLoop
    split
    · exact hx
    · have hXx : ∀ z ∈ X ++ [x], P z := by
        intro z hz
        rcases List.mem_append.mp hz with h | h
        · exact hX z h
        · rw [List.mem_singleton.mp h]; exact hx
      have hmap : X.map T ++ [T x] = (X ++ [x]).map T := by simp
      rw [hmap]
      exact ih (X ++ [x]) _ (it + 1) (by simp [hlen]) hXx
        (hnext (X ++ [x]) (by simp) hXx)

end ig

/-! ### buffers -/

section buf
variable {V : Type}

theorem Buf.take_write (junk : V) (maxIter : Nat) (b : Buf V) (i : Nat) (v : V)
    (hcap : i ≤ b.cap) (hpos : 0 < b.cap) (hmax : i < maxIter) :
    (b.write junk maxIter i v).take (i + 1) = b.take i ++ [v] ∧
    i < (b.write junk maxIter i v).cap := by
  unfold Buf.write Buf.take Buf.cap
  unfold Buf.cap at hcap hpos
  by_cases h : i < b.rows.length
  · simp only [h, if_true]
    refine ⟨?_, by simpa using h⟩
    rw [List.take_set]
    apply List.ext_getElem
    · simp; omega
    · intro n h1 h2
      simp only [List.getElem_set, List.getElem_take, List.getElem_append]
      by_cases hn : n = i
      · subst hn; simp
      · have : n < i := by
          simp at h1; omega
        simp [this, Ne.symm hn]
        intro hc; omega
  · simp only [h, if_false]
    have hi : i = b.rows.length := by omega
    have hsz : b.rows.length < min maxIter (b.rows.length * 2) := by
      rw [Nat.lt_min]; omega
    refine ⟨?_, ?_⟩
    · rw [List.take_set]
      apply List.ext_getElem
      · simp; omega
      · intro n h1 h2
        simp only [List.getElem_set, List.getElem_take, List.getElem_append]
        by_cases hn : n = i
        · subst hn; simp
        · have : n < i := by
            simp at h1; omega
          have hn2 : n < b.rows.length := by omega
          simp [this, Ne.symm hn, hn2]
    · simp; omega

/-- the loop on buffers computes what the loop on plain lists computes, whatever the filler -/
theorem igLoopBuf_eq (junk : V) (T : V → V) (isFp : V → Bool) (next : List V → List V → V)
    (maxIter : Nat) :
    ∀ (fuel : Nat) (X Y : Buf V) (x : V) (it : Nat), it ≤ X.cap → it ≤ Y.cap → 0 < X.cap → 0 < Y.cap →
      igLoopBuf junk T isFp next maxIter fuel X Y x it
        = igLoop T isFp next maxIter fuel (X.take it) (Y.take it) x it := by
  intro fuel
  induction fuel with
  | zero => intro X Y x it _ _ _ _; rfl
  | succ f ih =>
    intro X Y x it h1 h2 h3 h4
    unfold igLoopBuf igLoop
    by_cases hc : isFp x = true ∨ it + 1 ≥ maxIter
    · rw [if_pos hc, if_pos hc]
    · rw [if_neg hc, if_neg hc]
      have hlt : it < maxIter := by
        by_contra hcon
        exact hc (Or.inr (by omega))
      obtain ⟨tx, cx⟩ := Buf.take_write junk maxIter X it x h1 h3 hlt
      obtain ⟨ty, cy⟩ := Buf.take_write junk maxIter Y it (T x) h2 h4 hlt
      simp only
      rw [ih _ _ _ _ (by omega) (by omega) (by omega) (by omega), tx, ty]

theorem fixedPointIGBuf_eq (junk : V) (buff0 : Nat) (hb : 1 ≤ buff0) (T : V → V) (isFp : V → Bool)
    (next : List V → List V → V) (maxIter : Nat) (v : V) :
    fixedPointIGBuf junk buff0 T isFp next maxIter v = fixedPointIG T isFp next maxIter v := by
  unfold fixedPointIGBuf fixedPointIG
  by_cases hc : isFp v = true ∨ 1 ≥ maxIter
  · rw [if_pos hc, if_pos hc]
  · rw [if_neg hc, if_neg hc]
    have hm : 1 < maxIter := by
      by_contra hcon
      exact hc (Or.inr (by omega))
    have hsz : 0 < (Buf.empty junk (min maxIter buff0)).cap := by
      simp [Buf.empty, Buf.cap]; omega
    obtain ⟨tx, cx⟩ := Buf.take_write junk maxIter (Buf.empty junk (min maxIter buff0)) 0 v
      (Nat.zero_le _) hsz (by omega)
    obtain ⟨ty, cy⟩ := Buf.take_write junk maxIter (Buf.empty junk (min maxIter buff0)) 0 (T v)
      (Nat.zero_le _) hsz (by omega)
    simp only
    rw [igLoopBuf_eq junk T isFp next maxIter _ _ _ _ _ (by omega) (by omega) (by omega) (by omega),
      tx, ty]
    simp [Buf.take]

end buf

end QE.C15
