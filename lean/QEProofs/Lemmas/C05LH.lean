/-
  Lemmas for property C05 (Lemke-Howson): the initial tableaux, the invariant of the
  complementary pivoting loop (`lhLoop`), and what it gives when the initial label leaves.
  Exact idealisation: `tol_piv = tol_ratio_diff = 0`.
-/
import QEProofs.Lemmas.C05Tab
import QEProofs.Lemmas.C05Bound
import QEProofs.Lemmas.C05Labelled
import Mathlib.Algebra.BigOperators.Intervals

namespace QE.C05
open QE QE.Pivot QE.MatAlg Finset

set_option linter.unusedSectionVars false
variable {K : Type} [Field K] [LinearOrder K] [IsStrictOrderedRing K]

/-- the shifted payoff matrices stored in the tableaux -/
def shA (m n : ℕ) (A : ℕ → ℕ → K) : ℕ → ℕ → K := fun i j => A i j + shiftConst m n A
def shB (m n : ℕ) (B : ℕ → ℕ → K) : ℕ → ℕ → K := fun j i => B j i + shiftConst n m B

/-! ### the initial tableaux -/

theorem initT0_get (m n : ℕ) (B : ℕ → ℕ → K) (i j : ℕ) (hi : i < n) (hj : j < m + n + 1) :
    (initT0 m n B).get i j =
      if j < m then shB m n B i j else if j < m + n then (if j - m = i then 1 else 0) else 1 := by
  unfold initT0
  exact M.get_tab _ _ _ _ _ hi hj

theorem initT1_get (m n : ℕ) (A : ℕ → ℕ → K) (i j : ℕ) (hi : i < m) (hj : j < m + n + 1) :
    (initT1 m n A).get i j =
      if j < m then (if j = i then 1 else 0) else if j < m + n then shA m n A i (j - m) else 1 := by
  unfold initT1
  exact M.get_tab _ _ _ _ _ hi hj

theorem init0_shape (m n : ℕ) (B : ℕ → ℕ → K) : TShape (initT0 m n B) n (m + n) := ⟨rfl, rfl⟩
theorem init1_shape (m n : ℕ) (A : ℕ → ℕ → K) : TShape (initT1 m n A) m (m + n) := ⟨rfl, rfl⟩

theorem b0_getD (m n i : ℕ) (hi : i < n) : ((List.range n).map (· + m)).getD i 0 = i + m := by
  simp [List.getD_eq_getElem?_getD, hi]

theorem b1_getD (m i : ℕ) (hi : i < m) : (List.range m).getD i 0 = i := by
  simp [List.getD_eq_getElem?_getD, hi]

theorem init0_canon (m n : ℕ) (B : ℕ → ℕ → K) :
    TCanon (initT0 m n B) ((List.range n).map (· + m)) n (m + n) := by
  refine ⟨by simp, ?_⟩
  intro i hi
  rw [b0_getD m n i hi]
  refine ⟨by omega, ?_⟩
  intro i' hi'
  rw [initT0_get m n B i' (i + m) hi' (by omega), if_neg (by omega), if_pos (by omega)]
  have : i + m - m = i := by omega
  rw [this]
  by_cases h : i = i'
  · rw [if_pos h, if_pos h.symm]
  · rw [if_neg h, if_neg (fun e => h e.symm)]

theorem init1_canon (m n : ℕ) (A : ℕ → ℕ → K) :
    TCanon (initT1 m n A) (List.range m) m (m + n) := by
  refine ⟨by simp, ?_⟩
  intro i hi
  rw [b1_getD m i hi]
  refine ⟨by omega, ?_⟩
  intro i' hi'
  rw [initT1_get m n A i' i hi' (by omega), if_pos hi]
  by_cases h : i = i'
  · rw [if_pos h, if_pos h.symm]
  · rw [if_neg h, if_neg (fun e => h e.symm)]

theorem init0_rhs (m n : ℕ) (B : ℕ → ℕ → K) : TRhs (initT0 m n B) n (m + n) := by
  intro i hi
  rw [initT0_get m n B i (m + n) hi (by omega), if_neg (by omega), if_neg (by omega)]
  exact zero_le_one

theorem init1_rhs (m n : ℕ) (A : ℕ → ℕ → K) : TRhs (initT1 m n A) m (m + n) := by
  intro i hi
  rw [initT1_get m n A i (m + n) hi (by omega), if_neg (by omega), if_neg (by omega)]
  exact zero_le_one

/-- the rows of `tableaux[0]` say `B̂ x + s = 1` -/
theorem init0_rows (m n : ℕ) (B : ℕ → ℕ → K) (z : ℕ → K) (h : RowsSat (initT0 m n B) z n)
    (j : ℕ) (hj : j < n) : payoffVec m (shB m n B) z j + z (m + j) = 1 := by
  have := h j hj
  unfold RowSat at this
  have hnc : (initT0 m n B).nc - 1 = m + n := rfl
  rw [hnc, initT0_get m n B j (m + n) hj (by omega), if_neg (by omega), if_neg (by omega),
    sum_range_add] at this
  have h1 : ∑ x ∈ range m, (initT0 m n B).get j x * z x = payoffVec m (shB m n B) z j := by
    rw [payoffVec_eq]
    apply sum_congr rfl
    intro x hx
    have hx' := mem_range.mp hx
    rw [initT0_get m n B j x hj (by omega), if_pos hx']
  have h2 : ∑ x ∈ range n, (initT0 m n B).get j (m + x) * z (m + x) = z (m + j) := by
    have : ∀ x ∈ range n, (initT0 m n B).get j (m + x) * z (m + x)
        = if j = x then z (m + x) else 0 := by
      intro x hx
      have hx' := mem_range.mp hx
      rw [initT0_get m n B j (m + x) hj (by omega), if_neg (by omega), if_pos (by omega)]
      have : m + x - m = x := by omega
      rw [this]
      by_cases hxj : x = j
      · rw [if_pos hxj, if_pos hxj.symm, one_mul]
      · rw [if_neg hxj, if_neg (fun e => hxj e.symm), zero_mul]
    rw [sum_congr rfl this, sum_ite_eq (range n) j (fun x => z (m + x)), if_pos (mem_range.mpr hj)]
  rw [h1, h2] at this
  exact this

/-- the rows of `tableaux[1]` say `r + Â y = 1` -/
theorem init1_rows (m n : ℕ) (A : ℕ → ℕ → K) (z : ℕ → K) (h : RowsSat (initT1 m n A) z m)
    (i : ℕ) (hi : i < m) : z i + payoffVec n (shA m n A) (fun j => z (m + j)) i = 1 := by
  have := h i hi
  unfold RowSat at this
  have hnc : (initT1 m n A).nc - 1 = m + n := rfl
  rw [hnc, initT1_get m n A i (m + n) hi (by omega), if_neg (by omega), if_neg (by omega),
    sum_range_add] at this
  have h1 : ∑ x ∈ range m, (initT1 m n A).get i x * z x = z i := by
    have : ∀ x ∈ range m, (initT1 m n A).get i x * z x = if i = x then z x else 0 := by
      intro x hx
      have hx' := mem_range.mp hx
      rw [initT1_get m n A i x hi (by omega), if_pos hx']
      by_cases hxi : x = i
      · rw [if_pos hxi, if_pos hxi.symm, one_mul]
      · rw [if_neg hxi, if_neg (fun e => hxi e.symm), zero_mul]
    rw [sum_congr rfl this, sum_ite_eq (range m) i (fun x => z x), if_pos (mem_range.mpr hi)]
  have h2 : ∑ x ∈ range n, (initT1 m n A).get i (m + x) * z (m + x)
      = payoffVec n (shA m n A) (fun j => z (m + j)) i := by
    rw [payoffVec_eq]
    apply sum_congr rfl
    intro x hx
    have hx' := mem_range.mp hx
    rw [initT1_get m n A i (m + x) hi (by omega), if_neg (by omega), if_pos (by omega)]
    have : m + x - m = x := by omega
    rw [this]
  rw [h1, h2] at this
  exact this

theorem init0_nonneg (m n : ℕ) (B : ℕ → ℕ → K) (i j : ℕ) (hi : i < n) (hj : j < m + n) :
    0 ≤ (initT0 m n B).get i j := by
  rw [initT0_get m n B i j hi (by omega)]
  by_cases h : j < m
  · rw [if_pos h]; exact le_of_lt (shift_pos n m B i j hi h)
  · rw [if_neg h, if_pos hj]
    split
    · exact zero_le_one
    · exact le_refl _

theorem init1_nonneg (m n : ℕ) (A : ℕ → ℕ → K) (i j : ℕ) (hi : i < m) (hj : j < m + n) :
    0 ≤ (initT1 m n A).get i j := by
  rw [initT1_get m n A i j hi (by omega)]
  by_cases h : j < m
  · rw [if_pos h]
    split
    · exact zero_le_one
    · exact le_refl _
  · rw [if_neg h, if_pos hj]; exact le_of_lt (shift_pos m n A i (j - m) hi (by omega))

theorem init0_col_pos (m n : ℕ) (B : ℕ → ℕ → K) (hn : 1 ≤ n) (c : ℕ) (hc : c < m + n) :
    ∃ i0, i0 < n ∧ 0 < (initT0 m n B).get i0 c := by
  by_cases h : c < m
  · refine ⟨0, by omega, ?_⟩
    rw [initT0_get m n B 0 c (by omega) (by omega), if_pos h]
    exact shift_pos n m B 0 c (by omega) h
  · refine ⟨c - m, by omega, ?_⟩
    rw [initT0_get m n B (c - m) c (by omega) (by omega), if_neg h, if_pos hc, if_pos rfl]
    exact zero_lt_one

theorem init1_col_pos (m n : ℕ) (A : ℕ → ℕ → K) (hm : 1 ≤ m) (c : ℕ) (hc : c < m + n) :
    ∃ i0, i0 < m ∧ 0 < (initT1 m n A).get i0 c := by
  by_cases h : c < m
  · refine ⟨c, h, ?_⟩
    rw [initT1_get m n A c c h (by omega), if_pos h, if_pos rfl]
    exact zero_lt_one
  · refine ⟨0, by omega, ?_⟩
    rw [initT1_get m n A 0 c (by omega) (by omega), if_neg h, if_pos hc]
    exact shift_pos m n A 0 (c - m) (by omega) (by omega)

/-! ### the labels: combinatorics of one exchange -/

theorem inB_set (b : List ℕ) (r c k : ℕ) (h : InB (b.set r c) k) : k = c ∨ InB b k := by
  obtain ⟨i, hi, he⟩ := h
  rw [getD_set'] at he
  have hi' : i < b.length := by simpa using hi
  by_cases hc : r = i ∧ r < b.length
  · rw [if_pos hc] at he; exact Or.inl he.symm
  · rw [if_neg hc] at he; exact Or.inr ⟨i, hi', he⟩

/-- exchange in the basis `bP` (row `r`, entering `c`, leaving `bP[r]`) keeps the pair of bases
    completely labelled except for `ip`, and the leaving variable is non-basic in both. -/
theorem lab_step (bP bO : List ℕ) (ip c r : ℕ) (hr : r < bP.length)
    (hinj : ∀ i i', i < bP.length → i' < bP.length → bP.getD i 0 = bP.getD i' 0 → i = i')
    (lab : ∀ k, k ≠ ip → ¬ InB bP k ∨ ¬ InB bO k)
    (ent : ¬ InB bP c) (oth : c = ip ∨ ¬ InB bO c) :
    (∀ k, k ≠ ip → ¬ InB (bP.set r c) k ∨ ¬ InB bO k) ∧
    ¬ InB (bP.set r c) (bP.getD r 0) ∧
    (bP.getD r 0 ≠ ip → ¬ InB bO (bP.getD r 0)) := by
  refine ⟨?_, ?_, ?_⟩
  · intro k hk
    by_cases hin : InB (bP.set r c) k
    · right
      rcases inB_set bP r c k hin with rfl | hb
      · rcases oth with h | h
        · exact absurd h hk
        · exact h
      · rcases lab k hk with h | h
        · exact absurd hb h
        · exact h
    · exact Or.inl hin
  · rintro ⟨i, hi, he⟩
    have hi' : i < bP.length := by simpa using hi
    rw [getD_set'] at he
    by_cases hc : r = i ∧ r < bP.length
    · rw [if_pos hc] at he
      exact ent ⟨r, hr, he.symm⟩
    · rw [if_neg hc] at he
      have := hinj i r hi' hr he
      exact hc ⟨this.symm, hr⟩
  · intro hne
    rcases lab _ hne with h | h
    · exact absurd ⟨r, hr, rfl⟩ h
    · exact h

/-! ### the loop invariant -/

/-- shapes, canonical form, feasibility and solution sets of the two tableaux -/
structure LHBase (m n : ℕ) (A B : ℕ → ℕ → K) (s : LHState K) : Prop where
  sh0 : TShape s.T0 n (m + n)
  sh1 : TShape s.T1 m (m + n)
  can0 : TCanon s.T0 s.b0 n (m + n)
  can1 : TCanon s.T1 s.b1 m (m + n)
  rhs0 : TRhs s.T0 n (m + n)
  rhs1 : TRhs s.T1 m (m + n)
  sol0 : ∀ z, RowsSat s.T0 z n ↔ RowsSat (initT0 m n B) z n
  sol1 : ∀ z, RowsSat s.T1 z m ↔ RowsSat (initT1 m n A) z m

/-- the label part: completely labelled except for `ip`; the entering variable is non-basic in
    the tableau `pl` it enters and, unless it is `ip`, in the other one as well -/
structure LHLab (ip : ℕ) (s : LHState K) (pl : ℕ) : Prop where
  lab : ∀ k, k ≠ ip → ¬ InB s.b0 k ∨ ¬ InB s.b1 k
  ent : if pl = 0 then ¬ InB s.b0 s.pivot else ¬ InB s.b1 s.pivot
  oth : s.pivot = ip ∨ (if pl = 0 then ¬ InB s.b1 s.pivot else ¬ InB s.b0 s.pivot)

theorem lhStep_nf_le (m : ℕ) (tp td : K) (s : LHState K) (pl : ℕ) :
    s.nf ≤ (lhStep m tp td s pl).nf := by
  unfold lhStep
  split
  · dsimp only; split <;> omega
  · dsimp only; split <;> omega

theorem lhLoop_nf_le (m ip : ℕ) (tp td : K) : ∀ (fuel : ℕ) (s : LHState K) (pl : ℕ),
    s.nf ≤ (lhLoop m ip tp td fuel s pl).2.nf
  | 0, s, pl => by unfold lhLoop; exact lhStep_nf_le m tp td s pl
  | fuel + 1, s, pl => by
    unfold lhLoop
    dsimp only
    split
    · exact lhStep_nf_le m tp td s pl
    · exact le_trans (lhStep_nf_le m tp td s pl) (lhLoop_nf_le m ip tp td fuel _ _)

/-- one step of the loop (exact ratio test) -/
theorem lhStep_inv (m n : ℕ) (hm : 1 ≤ m) (hn : 1 ≤ n) (A B : ℕ → ℕ → K) (ip : ℕ) (s : LHState K) (pl : ℕ)
    (hpl : pl = 0 ∨ pl = 1) (hb : LHBase m n A B s) (hl : LHLab ip s pl) (hpN : s.pivot < m + n) :
    LHBase m n A B (lhStep m 0 0 s pl) ∧ (lhStep m 0 0 s pl).pivot < m + n ∧
    ((lhStep m 0 0 s pl).pivot ≠ ip → LHLab ip (lhStep m 0 0 s pl) (1 - pl)) ∧
    ((lhStep m 0 0 s pl).pivot = ip →
      ∀ k, ¬ InB (lhStep m 0 0 s pl).b0 k ∨ ¬ InB (lhStep m 0 0 s pl).b1 k) := by
  rcases hpl with rfl | rfl
  · -- player 0's tableau
    obtain ⟨hr, hsh, hcan, hrhs, hsol⟩ :=
      tab_step' s.T0 (initT0 m n B) s.b0 n (m + n) s.pivot m hb.sh0 (init0_shape m n B) hb.can0
        hb.rhs0 hb.sol0 (fun i j hi hj => init0_nonneg m n B i j hi hj) hpN
        (init0_col_pos m n B hn s.pivot hpN)
    have hent := hl.ent; rw [if_pos rfl] at hent
    have hoth := hl.oth; rw [if_pos rfl] at hoth
    have hrl : (lexMinRatio s.T0 s.pivot m 0 0).2 < s.b0.length := by rw [hb.can0.1]; exact hr
    obtain ⟨l1, l2, l3⟩ := lab_step s.b0 s.b1 ip s.pivot _ hrl
      (fun i i' hi hi' h => tcanon_inj s.T0 s.b0 n (m + n) hb.can0 i i'
        (by rw [← hb.can0.1]; exact hi) (by rw [← hb.can0.1]; exact hi') h)
      hl.lab hent hoth
    have hs' : lhStep m 0 0 s 0 =
        { s with T0 := pivot s.T0 s.pivot (lexMinRatio s.T0 s.pivot m 0 0).2,
                 b0 := s.b0.set (lexMinRatio s.T0 s.pivot m 0 0).2 s.pivot,
                 pivot := s.b0.getD (lexMinRatio s.T0 s.pivot m 0 0).2 0,
                 numIter := s.numIter + 1,
                 nf := if (lexMinRatio s.T0 s.pivot m 0 0).1 then s.nf else s.nf + 1,
                 ties := s.ties + firstPassTie s.T0 s.pivot 0 0 } := by
      unfold lhStep; rw [if_pos rfl]
    rw [hs']
    refine ⟨⟨hsh, hb.sh1, hcan, hb.can1, hrhs, hb.rhs1, hsol, hb.sol1⟩, (hb.can0.2 _ hr).1, ?_, ?_⟩
    · intro hne
      exact ⟨l1, by simpa using l3 hne, Or.inr (by simpa using l2)⟩
    · intro he k
      dsimp only at he ⊢
      by_cases hk : k = ip
      · left; rw [hk, ← he]; exact l2
      · exact l1 k hk
  · -- player 1's tableau
    obtain ⟨hr, hsh, hcan, hrhs, hsol⟩ :=
      tab_step' s.T1 (initT1 m n A) s.b1 m (m + n) s.pivot 0 hb.sh1 (init1_shape m n A) hb.can1
        hb.rhs1 hb.sol1 (fun i j hi hj => init1_nonneg m n A i j hi hj) hpN
        (init1_col_pos m n A hm s.pivot hpN)
    have hent := hl.ent; rw [if_neg (by omega)] at hent
    have hoth := hl.oth; rw [if_neg (by omega)] at hoth
    have hrl : (lexMinRatio s.T1 s.pivot 0 0 0).2 < s.b1.length := by rw [hb.can1.1]; exact hr
    obtain ⟨l1, l2, l3⟩ := lab_step s.b1 s.b0 ip s.pivot _ hrl
      (fun i i' hi hi' h => tcanon_inj s.T1 s.b1 m (m + n) hb.can1 i i'
        (by rw [← hb.can1.1]; exact hi) (by rw [← hb.can1.1]; exact hi') h)
      (fun k hk => (hl.lab k hk).symm) hent hoth
    have hs' : lhStep m 0 0 s 1 =
        { s with T1 := pivot s.T1 s.pivot (lexMinRatio s.T1 s.pivot 0 0 0).2,
                 b1 := s.b1.set (lexMinRatio s.T1 s.pivot 0 0 0).2 s.pivot,
                 pivot := s.b1.getD (lexMinRatio s.T1 s.pivot 0 0 0).2 0,
                 numIter := s.numIter + 1,
                 nf := if (lexMinRatio s.T1 s.pivot 0 0 0).1 then s.nf else s.nf + 1,
                 ties := s.ties + firstPassTie s.T1 s.pivot 0 0 } := by
      unfold lhStep; rw [if_neg (by omega)]
    rw [hs']
    refine ⟨⟨hb.sh0, hsh, hb.can0, hcan, hb.rhs0, hrhs, hb.sol0, hsol⟩, (hb.can1.2 _ hr).1, ?_, ?_⟩
    · intro hne
      exact ⟨fun k hk => (l1 k hk).symm, by simpa using l3 hne, Or.inr (by simpa using l2)⟩
    · intro he k
      dsimp only at he ⊢
      by_cases hk : k = ip
      · right; rw [hk, ← he]; exact l2
      · exact (l1 k hk).symm

/-- **the loop invariant** (all games with `m, n ≥ 1`, all histories): from a state satisfying
    the invariant the final state still has two feasible canonical tableaux with the original
    solution sets, and when the loop reports convergence every label is non-basic in at least
    one of them. -/
theorem lhLoop_inv (m n : ℕ) (hm : 1 ≤ m) (hn : 1 ≤ n) (A B : ℕ → ℕ → K) (ip : ℕ) :
    ∀ (fuel : ℕ) (s : LHState K) (pl : ℕ),
    (pl = 0 ∨ pl = 1) → LHBase m n A B s → LHLab ip s pl → s.pivot < m + n →
    LHBase m n A B (lhLoop m ip 0 0 fuel s pl).2 ∧
    ((lhLoop m ip 0 0 fuel s pl).1 = true →
      ∀ k, ¬ InB (lhLoop m ip 0 0 fuel s pl).2.b0 k ∨ ¬ InB (lhLoop m ip 0 0 fuel s pl).2.b1 k)
  | 0, s, pl => by
    intro hpl hb hl hpN
    unfold lhLoop
    dsimp only
    obtain ⟨h1, _, _, h4⟩ := lhStep_inv m n hm hn A B ip s pl hpl hb hl hpN
    exact ⟨h1, fun hc => h4 (by simpa using hc)⟩
  | fuel + 1, s, pl => by
    intro hpl hb hl hpN
    unfold lhLoop
    dsimp only
    obtain ⟨h1, h2, h3, h4⟩ := lhStep_inv m n hm hn A B ip s pl hpl hb hl hpN
    by_cases hc : (lhStep m 0 0 s pl).pivot = ip
    · rw [if_pos hc]
      exact ⟨h1, fun _ => h4 hc⟩
    · rw [if_neg hc]
      exact lhLoop_inv m n hm hn A B ip fuel _ (1 - pl) (by omega) h1 (h3 hc) h2

end QE.C05
