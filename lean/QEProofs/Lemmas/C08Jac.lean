/-
  Lemmas for C08, part 11: the Jacobi recurrence of `_qnwbeta1` as a function of `n`.
-/
import QEProofs.Lemmas.C08Basic
namespace QE.C08

set_option linter.unusedSectionVars false

variable {K : Type} [Field K] [LinearOrder K] [IsStrictOrderedRing K]

/-- Jacobi values `P_n^{(a,b)}(z)` by the recurrence of the code (`j = n + 2`, `t = 2j + a + b`):
    `2j(j+a+b)(t−2) P_j = (t−1)(a² − b² + t(t−2) z) P_{j−1} − 2(j−1+a)(j−1+b) t P_{j−2}`,
    `P_0 = 1`, `P_1 = (a − b + (2+a+b) z)/2`. -/
def jacobiP (a b z : K) : Nat → K
  | 0 => 1
  | 1 => (a - b + (((2 : Nat) : K) + (a + b)) * z) / ((2 : Nat) : K)
  | n + 2 =>
    let ab := a + b
    let temp := ((2 * (n + 2) : Nat) : K) + ab
    let aa := ((2 * (n + 2) : Nat) : K) * (((n + 2 : Nat) : K) + ab) * (temp - ((2 : Nat) : K))
    let bb := (temp - 1) * (a * a - b * b + temp * (temp - ((2 : Nat) : K)) * z)
    let c := ((2 : Nat) : K) * (((n + 2 - 1 : Nat) : K) + a) * (((n + 2 - 1 : Nat) : K) + b) * temp
    (bb * jacobiP a b z (n + 1) - c * jacobiP a b z n) / aa

theorem jacLoop_spec (a b z : K) : ∀ (rem k : Nat) (t : K),
    jacLoop a b z rem (k + 2) (jacobiP a b z (k + 1)) (jacobiP a b z k) t
      = (jacobiP a b z (k + 1 + rem), jacobiP a b z (k + rem),
          if rem = 0 then t else ((2 * (k + 1 + rem) : Nat) : K) + (a + b)) := by
  intro rem
  induction rem with
  | zero => intro k t; simp [jacLoop]
  | succ rem ih =>
    intro k t
    rw [jacLoop]
    have e : ((((2 * (k + 2) : Nat) : K) + (a + b) - 1) *
          (a * a - b * b + (((2 * (k + 2) : Nat) : K) + (a + b)) * (((2 * (k + 2) : Nat) : K) + (a + b) - ((2 : Nat) : K)) * z) *
          jacobiP a b z (k + 1)
        - ((2 : Nat) : K) * (((k + 2 - 1 : Nat) : K) + a) * (((k + 2 - 1 : Nat) : K) + b) *
            (((2 * (k + 2) : Nat) : K) + (a + b)) * jacobiP a b z k) /
        (((2 * (k + 2) : Nat) : K) * (((k + 2 : Nat) : K) + (a + b)) *
          (((2 * (k + 2) : Nat) : K) + (a + b) - ((2 : Nat) : K)))
        = jacobiP a b z (k + 2) := by
      rw [jacobiP]
    rw [e, ih (k + 1)]
    have h1 : k + 1 + 1 + rem = k + 1 + (rem + 1) := by omega
    have h2 : k + 1 + rem = k + (rem + 1) := by omega
    rw [h1, h2]
    congr 2
    by_cases hr : rem = 0
    · subst hr; simp; ring
    · simp [hr]

/-- after the `for j in range(2, n+1)` loop of `_qnwbeta1` (entered with `p1 = P_1`, `p2 = 1`,
    `temp = 2 + a + b`): `(p1, p2, temp) = (P_n, P_{n−1}, 2n + a + b)` -/
theorem jacLoop_succ (a b z : K) (n : Nat) :
    jacLoop a b z n 2 ((a - b + (((2 : Nat) : K) + (a + b)) * z) / ((2 : Nat) : K)) 1
        (((2 : Nat) : K) + (a + b))
      = (jacobiP a b z (n + 1), jacobiP a b z n, ((2 * (n + 1) : Nat) : K) + (a + b)) := by
  have := jacLoop_spec a b z n 0 (((2 : Nat) : K) + (a + b))
  simp only [Nat.zero_add] at this
  have h1 : jacobiP a b z 1 = (a - b + (((2 : Nat) : K) + (a + b)) * z) / ((2 : Nat) : K) := rfl
  have h0 : jacobiP a b z 0 = 1 := rfl
  rw [h1, h0] at this
  rw [this]
  have e : 1 + n = n + 1 := by omega
  rw [e]
  congr 2
  by_cases hn : n = 0
  · subst hn; simp
  · simp [hn]

end QE.C08
