/-
  Lemmas for C01, part 5: existence of the fixed points over ℝ (Banach), by transporting the
  list operators of `QEModel.C01` to `Fin n → ℝ` with the sup metric.
-/
import QEProofs.Lemmas.C01Bellman
import Mathlib.Topology.MetricSpace.Contracting
import Mathlib.Topology.MetricSpace.Pseudo.Pi
import Mathlib.Topology.Instances.Real.Lemmas
import Mathlib.Topology.MetricSpace.ProperSpace.Real

namespace QE.C01
open List

/-- a length-preserving operator on real lists that contracts entrywise distances by `β < 1`
    has a fixed point -/
theorem exists_fixed_of_close {n : ℕ} (T : List ℝ → List ℝ) (hlen : ∀ v, (T v).length = n)
    {β : ℝ} (hβ0 : 0 ≤ β) (hβ1 : β < 1)
    (hT : ∀ c, 0 ≤ c → ∀ v w, Close c v w → Close (β * c) (T v) (T w)) :
    ∃ vS, T vS = vS := by
  -- the operator on functions
  let F : (Fin n → ℝ) → (Fin n → ℝ) := fun f i => (T (ofFn f))[i.1]'(by rw [hlen]; exact i.2)
  have hclose : ∀ f g : Fin n → ℝ, Close (dist f g) (ofFn f) (ofFn g) := by
    intro f g
    unfold Close
    rw [forall₂_iff_get]
    refine ⟨by simp, fun i h1 h2 => ?_⟩
    simp only [get_eq_getElem, List.getElem_ofFn]
    rw [← Real.dist_eq]
    exact dist_le_pi_dist f g _
  have hlip : ∀ f g, dist (F f) (F g) ≤ β * dist f g := by
    intro f g
    rw [dist_pi_le_iff (mul_nonneg hβ0 dist_nonneg)]
    intro i
    have h := hT _ dist_nonneg _ _ (hclose f g)
    unfold Close at h
    rw [forall₂_iff_get] at h
    have := h.2 i.1 (by rw [hlen]; exact i.2) (by rw [hlen]; exact i.2)
    simp only [get_eq_getElem] at this
    rw [Real.dist_eq]
    exact this
  let Kn : NNReal := ⟨β, hβ0⟩
  have hc : ContractingWith Kn F := by
    refine ⟨by exact_mod_cast hβ1, LipschitzWith.of_dist_le_mul fun f g => ?_⟩
    exact hlip f g
  obtain ⟨f, hf⟩ : ∃ f, Function.IsFixedPt F f := ⟨_, hc.fixedPoint_isFixedPt⟩
  refine ⟨ofFn f, ?_⟩
  apply ext_getElem (by rw [hlen]; simp)
  intro i h1 h2
  have hi : i < n := by simpa using h2
  have := congrFun hf ⟨i, hi⟩
  simp only [F] at this
  rw [List.getElem_ofFn]
  exact this

end QE.C01
