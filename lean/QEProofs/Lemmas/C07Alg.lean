/-
  C07 helper lemmas, part 1: pure Mathlib-matrix algebra behind `LQ.update_values`
  (completion of the square with cross term and discounting), rectangular sizes.
-/
import Mathlib.Data.Matrix.Basic
import Mathlib.Data.Matrix.Mul
import Mathlib.Tactic.Abel

namespace QE.C07
open Matrix

variable {K : Type} [CommRing K] {n k m : ℕ}

/-- `(u + F x)' S1 (u + F x)` when `S1 F = S2` and `S1` is symmetric -/
theorem square_expand (S1 : Matrix (Fin k) (Fin k) K) (S2 F : Matrix (Fin k) (Fin n) K)
    (x : Matrix (Fin n) (Fin m) K) (u : Matrix (Fin k) (Fin m) K)
    (hS1t : S1ᵀ = S1) (hF : S1 * F = S2) :
    (u + F * x)ᵀ * S1 * (u + F * x)
      = uᵀ * S1 * u + uᵀ * S2 * x + xᵀ * S2ᵀ * u + xᵀ * S2ᵀ * F * x := by
  have hFt : Fᵀ * S1 = S2ᵀ := by rw [← hF, transpose_mul, hS1t]
  have e1 : uᵀ * S1 * F * x = uᵀ * S2 * x := by
    rw [Matrix.mul_assoc uᵀ S1 F, hF]
  have e2 : xᵀ * Fᵀ * S1 * u = xᵀ * S2ᵀ * u := by
    rw [Matrix.mul_assoc xᵀ Fᵀ S1, hFt]
  have e3 : xᵀ * Fᵀ * S1 * F * x = xᵀ * S2ᵀ * F * x := by
    rw [Matrix.mul_assoc xᵀ Fᵀ S1, hFt]
  rw [transpose_add, transpose_mul, Matrix.add_mul, Matrix.add_mul, Matrix.mul_add, Matrix.mul_add]
  simp only [← Matrix.mul_assoc]
  rw [e1, e2, e3]
  abel

/-- **Completion of the square** for one step of the LQ recursion, with cross term `N`
    and discount `β`; `x`, `u` may have any number `m` of columns. -/
theorem complete_square (A P R : Matrix (Fin n) (Fin n) K) (B : Matrix (Fin n) (Fin k) K)
    (Q S1 : Matrix (Fin k) (Fin k) K) (N S2 F : Matrix (Fin k) (Fin n) K) (β : K)
    (x : Matrix (Fin n) (Fin m) K) (u : Matrix (Fin k) (Fin m) K)
    (hP : Pᵀ = P) (hQ : Qᵀ = Q)
    (hS1 : S1 = Q + β • (Bᵀ * (P * B))) (hS2 : S2 = β • (Bᵀ * (P * A)) + N) (hF : S1 * F = S2) :
    xᵀ * R * x + uᵀ * Q * u + uᵀ * N * x + xᵀ * Nᵀ * u + β • ((A * x + B * u)ᵀ * P * (A * x + B * u))
      = xᵀ * (R - S2ᵀ * F + β • (Aᵀ * (P * A))) * x + (u + F * x)ᵀ * S1 * (u + F * x) := by
  have hS1t : S1ᵀ = S1 := by
    rw [hS1, transpose_add, transpose_smul, transpose_mul, transpose_mul, transpose_transpose, hP, hQ,
      Matrix.mul_assoc]
  rw [square_expand S1 S2 F x u hS1t hF]
  have hx : xᵀ * (R - S2ᵀ * F + β • (Aᵀ * (P * A))) * x
      = xᵀ * R * x - xᵀ * S2ᵀ * F * x + β • (xᵀ * Aᵀ * P * A * x) := by
    simp only [Matrix.mul_add, Matrix.add_mul, Matrix.mul_sub, Matrix.sub_mul, Matrix.mul_assoc,
      Matrix.smul_mul, Matrix.mul_smul]
  rw [hx, hS1, hS2]
  simp only [Matrix.mul_add, Matrix.add_mul, Matrix.mul_assoc, Matrix.smul_mul, Matrix.mul_smul,
    transpose_add, transpose_smul, transpose_mul, transpose_transpose, hP, smul_add]
  abel

end QE.C07
