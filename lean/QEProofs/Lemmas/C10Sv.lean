/-
  Lemmas for C10, part 7: when `simulate_indices` refuses a request; `simulate` on a chain
  with 1-D `state_values` (value look-up, annotation of the path).
-/
import QEModel.C10
import QEProofs.Lemmas.C10Search
import QEProofs.Lemmas.C10Path
namespace QE.C10
variable {α : Type}

/-- **When is a request refused.** `simulate_indices` raises (always `ValueError`) exactly when an
    initial state is outside `[-n, n)` or `ts_length = 0`. -/
theorem simulateIndices_error_iff (n : Nat) (f : Nat → List α → Option (List Nat)) (init : Init)
    (reps : Option Nat) (drawn : List Nat) (ts : Nat) (us : List (List α)) :
    ((∃ e, simulateIndices n f init reps drawn ts us = .error e) ↔ (¬ InitOK n init reps ∨ ts = 0)) ∧
    ∀ e, simulateIndices n f init reps drawn ts us = .error e → e = .valueError := by
  have hiff := initStates_error_iff n init reps drawn
  unfold simulateIndices
  cases hi : initStates n init reps drawn with
  | error e0 =>
    have hnot : ¬ InitOK n init reps := hiff.mp ⟨e0, hi⟩
    refine ⟨⟨fun _ => Or.inl hnot, fun _ => ⟨e0, rfl⟩⟩, ?_⟩
    intro e he
    simp only [Except.error.injEq] at he
    rw [← he]; exact initStates_error_kind n init reps drawn e0 hi
  | ok ir =>
    have hok : InitOK n init reps := by
      by_contra hc
      obtain ⟨e, he⟩ := hiff.mpr hc
      rw [hi] at he; cases he
    simp only []
    by_cases hts : ts = 0
    · simp only [hts, if_true]
      exact ⟨⟨fun _ => Or.inr trivial, fun _ => ⟨_, rfl⟩⟩, fun e he => by cases he; rfl⟩
    · simp only [hts, if_false]
      refine ⟨⟨?_, ?_⟩, ?_⟩
      · rintro ⟨e, he⟩; split at he <;> cases he
      · rintro (h | h)
        · exact absurd hok h
        · exact h.elim
      · intro e he; split at he <;> cases he

/-! ### value look-up -/

/-- `_get_index`: the first position of the value, or `ValueError` when it is not a state value -/
theorem getIndexSV_scalar (sv : List Int) (v : Int) :
    (v ∉ sv → getIndexSV sv (.scalar v) = .error .valueError) ∧
    (v ∈ sv → ∃ i, getIndexSV sv (.scalar v) = .ok (.scalar (Int.ofNat i)) ∧
      ∃ h : i < sv.length, sv[i] = v ∧ ∀ j (hj : j < i), sv[j] ≠ v) := by
  constructor
  · intro hv
    have : sv.findIdx? (· == v) = none := by
      rw [List.findIdx?_eq_none_iff]
      intro x hx
      simp only [beq_eq_false_iff_ne, ne_eq]
      intro hxe; subst hxe; exact hv hx
    simp [getIndexSV, this]
  · intro hv
    cases hf : sv.findIdx? (· == v) with
    | none =>
      rw [List.findIdx?_eq_none_iff] at hf
      have := hf v hv
      simp at this
    | some i =>
      refine ⟨i, by simp [getIndexSV, hf], ?_⟩
      obtain ⟨h, h1, h2⟩ := List.findIdx?_eq_some_iff_getElem.mp hf
      refine ⟨h, by simpa using h1, ?_⟩
      intro j hj
      have := h2 j hj
      simpa using this

/-! ### annotation -/

theorem mapM_getElem?_of_lt (sv : List Int) (p : List Nat) (hp : ∀ s ∈ p, s < sv.length) :
    p.mapM (fun s => sv[s]?) = some (p.map fun s => sv.getD s 0) := by
  induction p with
  | nil => rfl
  | cons s ss ih =>
    have hs : s < sv.length := hp s (by simp)
    rw [List.mapM_cons, ih (fun x hx => hp x (by simp [hx])), List.getElem?_eq_getElem hs]
    simp [List.getD_eq_getElem?_getD, List.getElem?_eq_getElem hs]

/-- **Annotation.** If every entry of every path is a position of `state_values`, the annotated
    array exists and is the entry-wise look-up (each returned value is a state value). -/
theorem annotate_spec (sv : List Int) (paths : List (List Nat))
    (hp : ∀ p ∈ paths, ∀ s ∈ p, s < sv.length) :
    annotate sv paths = some (paths.map fun p => p.map fun s => sv.getD s 0) ∧
    ∀ p ∈ paths, ∀ s ∈ p, sv.getD s 0 ∈ sv := by
  constructor
  · unfold annotate
    induction paths with
    | nil => rfl
    | cons p ps ih =>
      rw [List.mapM_cons, mapM_getElem?_of_lt sv p (hp p (by simp)),
        ih (fun q hq => hp q (by simp [hq]))]
      rfl
  · intro p hpm s hs
    have := hp p hpm s hs
    rw [List.getD_eq_getElem?_getD, List.getElem?_eq_getElem this]
    exact List.getElem_mem this

end QE.C10
