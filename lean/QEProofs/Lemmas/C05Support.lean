/-
  Lemmas for property C05: what a `True` answer of `_indiff_mixed_action` (model: `indiff`)
  says, given a sound linear solver.
-/
import QEProofs.Lemmas.C05Nash

namespace QE.C05
open QE QE.MatAlg Finset

set_option linter.unusedSectionVars false
variable {K : Type} [Field K] [LinearOrder K] [IsStrictOrderedRing K]

/-- what is assumed of the linear solver (LAPACK `gesv` in the code, exact Gauss-Jordan in the
    driver): a reported solution `Z` of `S Z = b` satisfies every row. -/
def SolveSound (solve : M K → M K → Option (M K)) : Prop :=
  ∀ S b Z, solve S b = some Z → ∀ i, i < S.nr →
    sumRange S.nc (fun j => S.get i j * Z.get j 0) = b.get i 0

/-- the driver's solver is sound (by its residual check) -/
theorem solveChecked_sound : SolveSound (solveChecked : M K → M K → Option (M K)) := by
  intro S b Z h i hi
  unfold solveChecked at h
  cases hsol : MatAlg.solve S b with
  | none => rw [hsol] at h; simp at h
  | some Z' =>
    rw [hsol] at h
    dsimp only at h
    split at h
    · rename_i hall
      have : Z' = Z := by simpa using h
      subst this
      rw [List.all_eq_true] at hall
      have := hall i (List.mem_range.mpr hi)
      simpa using this
    · simp at h

theorem indiffSys_get (P : ℕ → ℕ → K) (own opp : List ℕ) (i j : ℕ)
    (hi : i < own.length + 1) (hj : j < own.length + 1) :
    (indiffSys P own opp).get i j =
      if i < own.length then (if j < own.length then P (own.getD i 0) (opp.getD j 0) else -(1 : K))
      else (if j < own.length then 1 else 0) := by
  unfold indiffSys
  exact M.get_tab _ _ _ _ _ hi hj

theorem indiffRhs_get (k i : ℕ) (hi : i < k + 1) :
    (indiffRhs k : M K).get i 0 = if i = k then 1 else 0 := by
  unfold indiffRhs
  exact M.get_tab _ _ _ _ _ hi (by omega)

/-- the facts established by a `True` return of `_indiff_mixed_action` -/
theorem indiff_some (solve : M K → M K → Option (M K)) (hs : SolveSound solve)
    (P : ℕ → ℕ → K) (mOwn : ℕ) (own opp : List ℕ) (z : ℕ → K)
    (h : indiff solve P mOwn own opp = some z) :
    (∀ t, t < own.length → 0 < z t) ∧
    (∑ t ∈ range own.length, z t = 1) ∧
    (∀ r, r < own.length →
      ∑ t ∈ range own.length, P (own.getD r 0) (opp.getD t 0) * z t = z own.length) ∧
    (own.length = mOwn ∨ ∀ i, i < mOwn → i ∉ own →
      ∑ t ∈ range own.length, P i (opp.getD t 0) * z t ≤ z own.length) := by
  unfold indiff at h
  dsimp only at h
  generalize hsol : solve (indiffSys P own opp) (indiffRhs own.length) = o at h
  cases o with
  | none => simp at h
  | some Z =>
    dsimp only at h
    have hrow := hs _ _ _ hsol
    have hnr : (indiffSys P own opp).nr = own.length + 1 := rfl
    have hnc : (indiffSys P own opp).nc = own.length + 1 := rfl
    rw [hnr, hnc] at hrow
    by_cases h1 : ((List.range own.length).any fun i => decide (Z.get i 0 ≤ 0)) = true
    · rw [if_pos h1] at h; simp at h
    · rw [if_neg h1] at h
      have hpos : ∀ t, t < own.length → 0 < Z.get t 0 := by
        intro t ht
        by_contra hc
        apply h1
        rw [List.any_eq_true]
        exact ⟨t, List.mem_range.mpr ht, by simpa using hc⟩
      -- the rows of the system
      have hrows : ∀ r, r < own.length →
          ∑ t ∈ range own.length, P (own.getD r 0) (opp.getD t 0) * Z.get t 0 = Z.get own.length 0 := by
        intro r hr
        have := hrow r (by omega)
        rw [sumRange_eq_sum, sum_range_succ, indiffRhs_get _ _ (by omega), if_neg (by omega),
          indiffSys_get P own opp r own.length (by omega) (by omega), if_pos hr,
          if_neg (lt_irrefl _)] at this
        have h2 : ∑ x ∈ range own.length, (indiffSys P own opp).get r x * Z.get x 0
            = ∑ t ∈ range own.length, P (own.getD r 0) (opp.getD t 0) * Z.get t 0 := by
          apply sum_congr rfl
          intro t ht
          have ht' := mem_range.mp ht
          rw [indiffSys_get P own opp r t (by omega) (by omega), if_pos hr, if_pos ht']
        rw [h2] at this
        linarith
      have hsum : ∑ t ∈ range own.length, Z.get t 0 = 1 := by
        have := hrow own.length (by omega)
        rw [sumRange_eq_sum, sum_range_succ, indiffRhs_get _ _ (by omega), if_pos rfl,
          indiffSys_get P own opp own.length own.length (by omega) (by omega),
          if_neg (lt_irrefl _), if_neg (lt_irrefl _)] at this
        have h2 : ∑ x ∈ range own.length, (indiffSys P own opp).get own.length x * Z.get x 0
            = ∑ t ∈ range own.length, Z.get t 0 := by
          apply sum_congr rfl
          intro t ht
          have ht' := mem_range.mp ht
          rw [indiffSys_get P own opp own.length t (by omega) (by omega), if_neg (lt_irrefl _),
            if_pos ht', one_mul]
        rw [h2] at this
        linarith
      by_cases h2 : own.length = mOwn
      · rw [if_pos h2] at h
        have hz : (fun i => Z.get i 0) = z := by simpa using h
        subst hz
        exact ⟨hpos, hsum, hrows, Or.inl h2⟩
      · rw [if_neg h2] at h
        split at h
        · simp at h
        · rename_i h3
          have hz : (fun i => Z.get i 0) = z := by simpa using h
          subst hz
          refine ⟨hpos, hsum, hrows, Or.inr ?_⟩
          intro i hi hni
          by_contra hc
          apply h3
          rw [List.any_eq_true]
          refine ⟨i, List.mem_range.mpr hi, ?_⟩
          have hcont : own.contains i = false := by simpa using hni
          rw [hcont]
          simp only [Bool.not_false, Bool.true_and, decide_eq_true_eq]
          rw [sumRange_eq_sum]
          exact not_le.mp hc

end QE.C05
