/-
  Lemmas for property C05 (Lemke-Howson): two (tableau, basis) pairs are *similar* when they
  have the same rows up to the order of the rows (each row with its basic variable). One exact
  pivoting step maps similar pairs to similar pairs and lets the same variable leave: the
  lexicographic ratio test returns the unique strict lexicographic minimiser, which does not
  depend on the order of the rows.
-/
import QEProofs.Lemmas.C05Rev

namespace QE.C05
open QE QE.Pivot Finset

set_option linter.unusedSectionVars false
set_option linter.unusedVariables false
variable {K : Type} [Field K] [LinearOrder K] [IsStrictOrderedRing K]

/-- every row of `(T, b)` occurs, with the same basic variable, in `(T', b')` -/
def RowMatch (T : M K) (b : List ℕ) (T' : M K) (b' : List ℕ) (L N : ℕ) : Prop :=
  ∀ i, i < L → ∃ i', i' < L ∧ b.getD i 0 = b'.getD i' 0 ∧ ∀ j, j < N + 1 → T.get i j = T'.get i' j

def TSim (T : M K) (b : List ℕ) (T' : M K) (b' : List ℕ) (L N : ℕ) : Prop :=
  RowMatch T b T' b' L N ∧ RowMatch T' b' T b L N

theorem rowMatch_refl (T : M K) (b : List ℕ) (L N : ℕ) : RowMatch T b T b L N :=
  fun i hi => ⟨i, hi, rfl, fun _ _ => rfl⟩

theorem rowMatch_trans (T1 T2 T3 : M K) (b1 b2 b3 : List ℕ) (L N : ℕ)
    (h12 : RowMatch T1 b1 T2 b2 L N) (h23 : RowMatch T2 b2 T3 b3 L N) : RowMatch T1 b1 T3 b3 L N := by
  intro i hi
  obtain ⟨i', hi', e1, g1⟩ := h12 i hi
  obtain ⟨i'', hi'', e2, g2⟩ := h23 i' hi'
  exact ⟨i'', hi'', e1.trans e2, fun j hj => (g1 j hj).trans (g2 j hj)⟩

theorem tsim_refl (T : M K) (b : List ℕ) (L N : ℕ) : TSim T b T b L N :=
  ⟨rowMatch_refl T b L N, rowMatch_refl T b L N⟩

theorem tsim_symm {T T' : M K} {b b' : List ℕ} {L N : ℕ} (h : TSim T b T' b' L N) :
    TSim T' b' T b L N := ⟨h.2, h.1⟩

theorem tsim_trans {T1 T2 T3 : M K} {b1 b2 b3 : List ℕ} {L N : ℕ} (h12 : TSim T1 b1 T2 b2 L N)
    (h23 : TSim T2 b2 T3 b3 L N) : TSim T1 b1 T3 b3 L N :=
  ⟨rowMatch_trans _ _ _ _ _ _ L N h12.1 h23.1, rowMatch_trans _ _ _ _ _ _ L N h23.2 h12.2⟩

/-- entrywise equal tableaux with bases equal row by row are similar -/
theorem tsim_of_eq (T T' : M K) (b b' : List ℕ) (L N : ℕ)
    (hb : ∀ i, i < L → b.getD i 0 = b'.getD i 0)
    (ht : ∀ i j, i < L → j < N + 1 → T.get i j = T'.get i j) : TSim T b T' b' L N :=
  ⟨fun i hi => ⟨i, hi, hb i hi, fun j hj => ht i j hi hj⟩,
   fun i hi => ⟨i, hi, (hb i hi).symm, fun j hj => (ht i j hi hj).symm⟩⟩

theorem rowMatch_inB (T T' : M K) (b b' : List ℕ) (L N : ℕ) (hl : b.length = L) (hl' : b'.length = L)
    (h : RowMatch T b T' b' L N) (k : ℕ) (hk : InB b k) : InB b' k := by
  obtain ⟨i, hi, he⟩ := hk
  obtain ⟨i', hi', e, _⟩ := h i (by rw [← hl]; exact hi)
  exact ⟨i', by rw [hl']; exact hi', by rw [← e, he]⟩

theorem tsim_inB {T T' : M K} {b b' : List ℕ} {L N : ℕ} (hl : b.length = L) (hl' : b'.length = L)
    (h : TSim T b T' b' L N) (k : ℕ) : InB b k ↔ InB b' k :=
  ⟨rowMatch_inB T T' b b' L N hl hl' h.1 k, rowMatch_inB T' T b' b L N hl' hl h.2 k⟩

/-- the rows selected by the ratio test in two similar tableaux are matching rows -/
theorem sim_row (T0 T T' : M K) (b b' : List ℕ) (L N ss c : ℕ) (h0 : TInit T0 L N ss)
    (h : TInv T0 T b L N ss) (h' : TInv T0 T' b' L N ss) (hs : TSim T b T' b' L N) (hcN : c < N) :
    b.getD (lexMinRatio T c ss (0 : K) 0).2 0 = b'.getD (lexMinRatio T' c ss (0 : K) 0).2 0 ∧
    ∀ j, j < N + 1 → T.get (lexMinRatio T c ss (0 : K) 0).2 j
      = T'.get (lexMinRatio T' c ss (0 : K) 0).2 j := by
  obtain ⟨hf, hr, hpos, _⟩ := tinv_step T0 T b L N ss c h0 h hcN
  obtain ⟨hf', hr', hpos', _⟩ := tinv_step T0 T' b' L N ss c h0 h' hcN
  set r := (lexMinRatio T c ss (0 : K) 0).2 with hrdef
  set r' := (lexMinRatio T' c ss (0 : K) 0).2 with hr'def
  obtain ⟨ρ, hρ, eρ, gρ⟩ := hs.1 r hr
  have hρr' : ρ = r' := by
    by_contra hne
    -- ρ is a row of T' with positive entry, different from the minimiser r'
    have hposρ : 0 < T'.get ρ c := by rw [← gρ c (by omega)]; exact hpos
    have s1 := C11.lexMinRatio_strict T' c ss hf' ρ (by rw [h'.sh.1]; exact hρ) hne hposρ
    rw [lexList_eq T' L N ss h'.sh] at s1
    -- r' corresponds to a row k of T, different from r
    obtain ⟨k, hk, ek, gk⟩ := hs.2 r' hr'
    have hkr : k ≠ r := by
      intro e
      rw [e] at ek
      have : b'.getD r' 0 = b'.getD ρ 0 := by rw [ek, eρ]
      exact hne (tcanon_inj T' b' L N h'.can r' ρ hr' hρ this).symm
    have hposk : 0 < T.get k c := by rw [← gk c (by omega)]; exact hpos'
    have s2 := C11.lexMinRatio_strict T c ss hf k (by rw [h.sh.1]; exact hk) hkr hposk
    rw [lexList_eq T L N ss h.sh] at s2
    apply C11.lexPosOn_neg_false _ _ s1
    apply C11.lexPosOn_congr _ _ _ _ s2
    intro j hj
    have hjN := lexList_lt L N ss h0.hss j hj
    unfold C11.ratioDiff
    rw [← gk j hjN, ← gk c (by omega), ← gρ j hjN, ← gρ c (by omega)]
    ring
  rw [← hρr']
  exact ⟨eρ, gρ⟩

/-- pivoting matching rows of matching tableaux -/
theorem rowMatch_pivot (T T' : M K) (b b' : List ℕ) (L N c r r' : ℕ) (hs : TShape T L N)
    (hs' : TShape T' L N) (hc : TCanon T b L N) (hc' : TCanon T' b' L N) (hcN : c < N)
    (hr : r < L) (hr' : r' < L) (hm : RowMatch T b T' b' L N)
    (eb : b.getD r 0 = b'.getD r' 0) (er : ∀ j, j < N + 1 → T.get r j = T'.get r' j) :
    RowMatch (pivot T c r) (b.set r c) (pivot T' c r') (b'.set r' c) L N := by
  intro i hi
  obtain ⟨i', hi', e, g⟩ := hm i hi
  refine ⟨i', hi', ?_, ?_⟩
  · rw [getD_set', getD_set']
    by_cases hir : r = i
    · have : r' = i' := by
        apply tcanon_inj T' b' L N hc' r' i' hr' hi'
        rw [← eb, hir, e]
      rw [if_pos ⟨hir, by rw [hc.1]; exact hr⟩, if_pos ⟨this, by rw [hc'.1]; exact hr'⟩]
    · have : ¬ r' = i' := by
        intro e'
        apply hir
        apply tcanon_inj T b L N hc r i hr hi
        rw [eb, e', e]
      rw [if_neg (by tauto), if_neg (by tauto)]; exact e
  · intro j hj
    by_cases hir : i = r
    · have hi'r : i' = r' := by
        apply tcanon_inj T' b' L N hc' i' r' hi' hr'
        rw [← e, hir, eb]
      rw [hir, hi'r, pivot_get_r T c r j (by rw [hs.1]; exact hr) (by rw [hs.2]; exact hj),
        pivot_get_r T' c r' j (by rw [hs'.1]; exact hr') (by rw [hs'.2]; exact hj),
        er j hj, er c (by omega)]
    · have hi'r : ¬ i' = r' := by
        intro e'
        apply hir
        apply tcanon_inj T b L N hc i r hi hr
        rw [e, e', eb]
      rw [pivot_get_i T c r i j (by rw [hs.1]; exact hi) (by rw [hs.2]; exact hj) hir,
        pivot_get_i T' c r' i' j (by rw [hs'.1]; exact hi') (by rw [hs'.2]; exact hj) hi'r,
        g j hj, g c (by omega), er j hj, er c (by omega)]

/-- **one exact pivoting step respects similarity**, and the same variable leaves -/
theorem tsim_step (T0 T T' : M K) (b b' : List ℕ) (L N ss c : ℕ) (h0 : TInit T0 L N ss)
    (h : TInv T0 T b L N ss) (h' : TInv T0 T' b' L N ss) (hs : TSim T b T' b' L N) (hcN : c < N) :
    b.getD (lexMinRatio T c ss (0 : K) 0).2 0 = b'.getD (lexMinRatio T' c ss (0 : K) 0).2 0 ∧
    TSim (pivot T c (lexMinRatio T c ss (0 : K) 0).2) (b.set (lexMinRatio T c ss (0 : K) 0).2 c)
      (pivot T' c (lexMinRatio T' c ss (0 : K) 0).2) (b'.set (lexMinRatio T' c ss (0 : K) 0).2 c) L N := by
  obtain ⟨eb, er⟩ := sim_row T0 T T' b b' L N ss c h0 h h' hs hcN
  obtain ⟨_, hr, _, _⟩ := tinv_step T0 T b L N ss c h0 h hcN
  obtain ⟨_, hr', _, _⟩ := tinv_step T0 T' b' L N ss c h0 h' hcN
  refine ⟨eb, ?_, ?_⟩
  · exact rowMatch_pivot T T' b b' L N c _ _ h.sh h'.sh h.can h'.can hcN hr hr' hs.1 eb er
  · exact rowMatch_pivot T' T b' b L N c _ _ h'.sh h.sh h'.can h.can hcN hr' hr hs.2 eb.symm
      (fun j hj => (er j hj).symm)

end QE.C05
