/-
  C04 — shared definitions for the proofs about the simplex model
  (`QEModel/C04.lean`): tableau shape, canonical form, basic solution, the legal
  pivot step of `solve_tableau`, and the LP-level notions (feasible, objective).
-/
import QEModel.C04
import QEProofs.Lemmas.PivotLemmas
import QEProofs.Lemmas.C04Ratio
import Mathlib.Algebra.Order.Field.Basic
import Mathlib.Algebra.BigOperators.Ring.Finset
import Mathlib.Algebra.Order.BigOperators.Ring.Finset
import Mathlib.Tactic.Ring
import Mathlib.Tactic.Linarith
import Mathlib.Tactic.FieldSimp

namespace QE.C04
open QE QE.Pivot Finset

variable {K : Type} [Field K] [LinearOrder K] [IsStrictOrderedRing K]

/-- `L` constraint rows + criterion row (index `L`); `N` variable columns + right-hand side (index `N`) -/
def Shape (T : M K) (L N : ℕ) : Prop := T.nr = L + 1 ∧ T.nc = N + 1

/-- canonical form: `basis[i]` is a variable column that is the unit vector `e_i`
    (over all `L+1` rows, so its criterion coefficient is `0`) -/
def Canon (T : M K) (b : List ℕ) (L N : ℕ) : Prop :=
  b.length = L ∧ ∀ i, i < L →
    b.getD i 0 < N ∧ ∀ i', i' < L + 1 → T.get i' (b.getD i 0) = if i' = i then 1 else 0

/-- right-hand sides of the constraint rows are non-negative -/
def RhsNonneg (T : M K) (L N : ℕ) : Prop := ∀ i, i < L → 0 ≤ T.get i N

/-- the basic solution: `z_{basis[i]} = T[i,N]`, `0` on the non-basic columns -/
def bsol (T : M K) (b : List ℕ) (L N : ℕ) (j : ℕ) : K :=
  ∑ i ∈ range L, if b.getD i 0 = j then T.get i N else 0

/-- direction read off column `c`: `d_c = 1`, `d_{basis[i]} = -T[i,c]`, `0` elsewhere -/
def rayDir (T : M K) (b : List ℕ) (L c : ℕ) (j : ℕ) : K :=
  if j = c then 1 else ∑ i ∈ range L, if b.getD i 0 = j then - T.get i c else 0

/-- one iteration of the `solve_tableau` loop that pivots: entering column from `_pivot_col`,
    leaving row from `_lex_min_ratio_test` on `tableau[:-1,:]`, `_pivoting`, `basis[row] = col` -/
def Step (tol : Tol K) (skip : Bool) (T : M K) (b : List ℕ) (T' : M K) (b' : List ℕ) : Prop :=
  ∃ c, pivotCol T skip tol.fea = some c ∧
    (lexMinRatio (dropLast T) c (T.nc - (T.nr - 1) - 1) tol.piv tol.diff).1 = true ∧
    T' = pivot T c (lexMinRatio (dropLast T) c (T.nc - (T.nr - 1) - 1) tol.piv tol.diff).2 ∧
    b' = b.set (lexMinRatio (dropLast T) c (T.nc - (T.nr - 1) - 1) tol.piv tol.diff).2 c

/-- `x` is feasible for the LP:  x ≥ 0,  A_ub x ≤ b_ub,  A_eq x = b_eq -/
def Feasible (P : LP K) (x : ℕ → K) : Prop :=
  (∀ j, j < P.n → 0 ≤ x j) ∧
  (∀ i, i < P.m → ∑ j ∈ range P.n, P.Aub i j * x j ≤ P.bub i) ∧
  (∀ i, i < P.k → ∑ j ∈ range P.n, P.Aeq i j * x j = P.beq i)

/-- `c · x` -/
def objective (P : LP K) (x : ℕ → K) : K := ∑ j ∈ range P.n, P.c j * x j

/-- the exact-arithmetic idealisation: all three tolerances are `0` -/
def tol0 : Tol K := ⟨0, 0, 0⟩

end QE.C04

namespace QE.C04
@[simp] theorem dropLast_get {α : Type} [Zero α] (T : M α) (i j : ℕ) : (dropLast T).get i j = T.get i j := rfl
@[simp] theorem dropLast_nr {α : Type} (T : M α) : (dropLast T).nr = T.nr - 1 := rfl
@[simp] theorem dropLast_nc {α : Type} (T : M α) : (dropLast T).nc = T.nc := rfl
end QE.C04
