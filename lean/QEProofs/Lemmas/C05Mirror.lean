/-
  Lemmas for property C05 (Lemke-Howson), the path argument: the sequence of states of the
  exact loop cannot come back to a state similar to its start. If `s_T ~ s_0`, reversibility
  and equivariance of the step give `s_{T-k} ~ s_k` for all `k` (the path read backwards is
  the path read forwards); for odd `T` the middle gives `step(s_h) ~ s_h`, impossible because
  the step makes a non-basic variable basic; for even `T` the last step was made in the
  tableau in which the initial label was basic at the start, and it is not basic there at the
  end.
-/
import QEProofs.Lemmas.C05Path

namespace QE.C05
open QE QE.Pivot Finset

set_option linter.unusedSectionVars false
set_option linter.unusedVariables false
variable {K : Type} [Field K] [LinearOrder K] [IsStrictOrderedRing K]

/-- the state and the player to move after `k` passes of the loop body (no stopping test) -/
def lhIter (m : ℕ) : ℕ → LHState K → ℕ → LHState K × ℕ
  | 0, s, pl => (s, pl)
  | k + 1, s, pl => lhIter m k (lhStep m 0 0 s pl) (1 - pl)

theorem lhIter_succ (m : ℕ) : ∀ (k : ℕ) (s : LHState K) (pl : ℕ),
    lhIter m (k + 1) s pl =
      (lhStep m 0 0 (lhIter m k s pl).1 (lhIter m k s pl).2, 1 - (lhIter m k s pl).2)
  | 0, s, pl => rfl
  | k + 1, s, pl => by
    show lhIter m (k + 1) (lhStep m 0 0 s pl) (1 - pl) = _
    rw [lhIter_succ m k]
    rfl

/-- the loop returns one of these states: the first one whose entering variable is the initial
    label, or the one reached when the fuel is used up -/
theorem lhLoop_iter (m ip : ℕ) : ∀ (fuel : ℕ) (s : LHState K) (pl : ℕ),
    ∃ T, 1 ≤ T ∧ (lhLoop m ip 0 0 fuel s pl).2 = (lhIter m T s pl).1 ∧
      ((lhLoop m ip 0 0 fuel s pl).1 = true → (lhIter m T s pl).1.pivot = ip) ∧
      ∀ j, 1 ≤ j → j < T → (lhIter m j s pl).1.pivot ≠ ip
  | 0, s, pl => by
    refine ⟨1, le_refl _, ?_, ?_, fun j h1 h2 => by omega⟩
    · unfold lhLoop; rfl
    · unfold lhLoop; intro h
      have : (lhStep m 0 0 s pl).pivot = ip := by simpa using h
      exact this
  | fuel + 1, s, pl => by
    unfold lhLoop
    dsimp only
    by_cases hc : (lhStep m 0 0 s pl).pivot = ip
    · rw [if_pos hc]
      exact ⟨1, le_refl _, rfl, fun _ => hc, fun j h1 h2 => by omega⟩
    · rw [if_neg hc]
      obtain ⟨T, hT, h1, h2, h3⟩ := lhLoop_iter m ip fuel (lhStep m 0 0 s pl) (1 - pl)
      refine ⟨T + 1, by omega, h1, h2, ?_⟩
      intro j hj1 hj2
      by_cases hj : j = 1
      · subst hj; exact hc
      · have : lhIter m j s pl = lhIter m (j - 1) (lhStep m 0 0 s pl) (1 - pl) := by
          obtain ⟨j', rfl⟩ : ∃ j', j = j' + 1 := ⟨j - 1, by omega⟩
          rfl
        rw [this]
        exact h3 (j - 1) (by omega) (by omega)

section path
variable (m n : ℕ) (hm : 1 ≤ m) (hn : 1 ≤ n) (A B : ℕ → ℕ → K) (ip : ℕ)
  (s0 : LHState K) (pl0 : ℕ)
include hm hn

/-- invariant, player, bound: for every index -/
theorem iter_full (hpl0 : pl0 = 0 ∨ pl0 = 1) (hf0 : LHFull m n A B s0) (hp0 : s0.pivot < m + n) :
    ∀ k, LHFull m n A B (lhIter m k s0 pl0).1 ∧ (lhIter m k s0 pl0).1.pivot < m + n ∧
      (lhIter m k s0 pl0).2 = (if k % 2 = 0 then pl0 else 1 - pl0) := by
  intro k
  induction k with
  | zero => exact ⟨hf0, hp0, rfl⟩
  | succ k ih =>
    obtain ⟨h1, h2, h3⟩ := ih
    have hpl : (lhIter m k s0 pl0).2 = 0 ∨ (lhIter m k s0 pl0).2 = 1 := by
      rw [h3]; split <;> omega
    rw [lhIter_succ]
    obtain ⟨g1, g2⟩ := lhStep_full m n hm hn A B _ _ hpl h1 h2
    refine ⟨g1, g2, ?_⟩
    show 1 - (lhIter m k s0 pl0).2 = _
    rw [h3]
    by_cases hk : k % 2 = 0
    · rw [if_pos hk, if_neg (by omega)]
    · rw [if_neg hk, if_pos (by omega)]; omega

/-- the label invariant, as long as the initial label has not left -/
theorem iter_lab (hpl0 : pl0 = 0 ∨ pl0 = 1) (hf0 : LHFull m n A B s0) (hp0 : s0.pivot < m + n)
    (hl0 : LHLab ip s0 pl0) :
    ∀ k, (∀ j, 1 ≤ j → j ≤ k → (lhIter m j s0 pl0).1.pivot ≠ ip) →
      LHLab ip (lhIter m k s0 pl0).1 (lhIter m k s0 pl0).2 := by
  intro k
  induction k with
  | zero => intro _; exact hl0
  | succ k ih =>
    intro hnc
    have hl := ih (fun j h1 h2 => hnc j h1 (by omega))
    obtain ⟨h1, h2, h3⟩ := iter_full m n hm hn A B s0 pl0 hpl0 hf0 hp0 k
    have hpl : (lhIter m k s0 pl0).2 = 0 ∨ (lhIter m k s0 pl0).2 = 1 := by
      rw [h3]; split <;> omega
    have hstep := lhStep_inv m n hm hn A B ip _ _ hpl h1.base hl h2
    have hne := hnc (k + 1) (by omega) (le_refl _)
    rw [lhIter_succ] at hne ⊢
    exact hstep.2.2.1 hne

/-- **the path read backwards is the path read forwards** -/
theorem mirror (hpl0 : pl0 = 0 ∨ pl0 = 1) (hf0 : LHFull m n A B s0) (hp0 : s0.pivot < m + n)
    (T : ℕ) (hsim : SSim m n (lhIter m T s0 pl0).1 s0) (hplT : (lhIter m T s0 pl0).2 = 1 - pl0) :
    ∀ k, k ≤ T → SSim m n (lhIter m (T - k) s0 pl0).1 (lhIter m k s0 pl0).1 ∧
      (lhIter m (T - k) s0 pl0).2 = 1 - (lhIter m k s0 pl0).2 := by
  intro k
  induction k with
  | zero => intro _; exact ⟨hsim, hplT⟩
  | succ k ih =>
    intro hk
    obtain ⟨hs, hp⟩ := ih (by omega)
    obtain ⟨a, ha⟩ : ∃ a, T - k = a + 1 := ⟨T - k - 1, by omega⟩
    have ha' : T - (k + 1) = a := by omega
    rw [ha] at hs hp
    rw [ha']
    obtain ⟨fa, pa, qa⟩ := iter_full m n hm hn A B s0 pl0 hpl0 hf0 hp0 a
    obtain ⟨fk, pk, qk⟩ := iter_full m n hm hn A B s0 pl0 hpl0 hf0 hp0 k
    obtain ⟨fa1, pa1, _⟩ := iter_full m n hm hn A B s0 pl0 hpl0 hf0 hp0 (a + 1)
    have hpla : (lhIter m a s0 pl0).2 = 0 ∨ (lhIter m a s0 pl0).2 = 1 := by
      rw [qa]; split <;> omega
    have hplk : (lhIter m k s0 pl0).2 = 0 ∨ (lhIter m k s0 pl0).2 = 1 := by
      rw [qk]; split <;> omega
    rw [lhIter_succ] at hs hp fa1 pa1
    -- the two players coincide
    have hpe : (lhIter m a s0 pl0).2 = (lhIter m k s0 pl0).2 := by
      have : 1 - (lhIter m a s0 pl0).2 = 1 - (lhIter m k s0 pl0).2 := hp
      omega
    rw [lhIter_succ]
    constructor
    · have h1 := lhStep_sim m n hm hn A B _ _ (lhIter m k s0 pl0).2 hplk fa1 fk hs pa1
      have h2 := lhStep_invol m n hm hn A B (lhIter m a s0 pl0).1 (lhIter m a s0 pl0).2 hpla fa pa
      rw [hpe] at h2
      dsimp only at h1
      rw [hpe] at h1
      exact ssim_trans (ssim_symm h2) h1
    · show (lhIter m a s0 pl0).2 = 1 - (1 - (lhIter m k s0 pl0).2)
      rw [hpe]; omega

/-- **no return**: before the initial label leaves for the first time, and at that moment, the
    state is never similar to the start -/
theorem no_return (hpl0 : pl0 = 0 ∨ pl0 = 1) (hf0 : LHFull m n A B s0) (hp0 : s0.pivot < m + n)
    (hl0 : LHLab ip s0 pl0)
    (hoth0 : if pl0 = 0 then InB s0.b1 s0.pivot else InB s0.b0 s0.pivot)
    (T : ℕ) (hT : 1 ≤ T) (hnc : ∀ j, 1 ≤ j → j < T → (lhIter m j s0 pl0).1.pivot ≠ ip)
    (hsim : SSim m n (lhIter m T s0 pl0).1 s0) : False := by
  obtain ⟨fT, pT, qT⟩ := iter_full m n hm hn A B s0 pl0 hpl0 hf0 hp0 T
  by_cases hpar : T % 2 = 0
  · -- even: the last step was made in tableau `1 - pl0`
    obtain ⟨a, ha⟩ : ∃ a, T = a + 1 := ⟨T - 1, by omega⟩
    obtain ⟨fa, pa, qa⟩ := iter_full m n hm hn A B s0 pl0 hpl0 hf0 hp0 a
    have hla := iter_lab m n hm hn A B ip s0 pl0 hpl0 hf0 hp0 hl0 a (fun j h1 h2 => hnc j h1 (by omega))
    have hpla : (lhIter m a s0 pl0).2 = 1 - pl0 := by rw [qa, if_neg (by omega)]
    have hpl : (lhIter m a s0 pl0).2 = 0 ∨ (lhIter m a s0 pl0).2 = 1 := by omega
    have hex := lhStep_exchange m n hm hn A B _ _ hpl fa pa hla.ent
    rw [ha, lhIter_succ] at hsim fT
    obtain ⟨hs0, hs1, hpv⟩ := hsim
    rcases hpl0 with rfl | rfl
    · rw [if_pos rfl] at hoth0
      rw [hpla, if_neg (by omega)] at hex
      apply hex.2
      rw [hpla] at hs1 hpv fT
      rw [hpv]
      exact (tsim_inB fT.i1.can.1 hf0.i1.can.1 hs1 _).mpr hoth0
    · rw [if_neg (by omega)] at hoth0
      rw [hpla, if_pos (by omega)] at hex
      apply hex.2
      rw [hpla] at hs0 hpv fT
      rw [hpv]
      exact (tsim_inB fT.i0.can.1 hf0.i0.can.1 hs0 _).mpr hoth0
  · -- odd: mirror to the middle
    obtain ⟨h, hh⟩ : ∃ h, T = 2 * h + 1 := ⟨T / 2, by omega⟩
    have hplT : (lhIter m T s0 pl0).2 = 1 - pl0 := by rw [qT, if_neg hpar]
    obtain ⟨hs, _⟩ := mirror m n hm hn A B s0 pl0 hpl0 hf0 hp0 T hsim hplT h (by omega)
    have hTh : T - h = h + 1 := by omega
    rw [hTh, lhIter_succ] at hs
    obtain ⟨fh, ph, qh⟩ := iter_full m n hm hn A B s0 pl0 hpl0 hf0 hp0 h
    have hlh := iter_lab m n hm hn A B ip s0 pl0 hpl0 hf0 hp0 hl0 h (fun j h1 h2 => hnc j h1 (by omega))
    have hpl : (lhIter m h s0 pl0).2 = 0 ∨ (lhIter m h s0 pl0).2 = 1 := by
      rw [qh]; split <;> omega
    have hex := lhStep_exchange m n hm hn A B _ _ hpl fh ph hlh.ent
    obtain ⟨fs, _⟩ := lhStep_full m n hm hn A B _ _ hpl fh ph
    have hent := hlh.ent
    obtain ⟨hs0, hs1, _⟩ := hs
    rcases hpl with e | e
    · rw [e] at hex hent hs0 fs
      rw [if_pos rfl] at hex hent
      exact hent ((tsim_inB fs.i0.can.1 fh.i0.can.1 hs0 _).mp hex.1)
    · rw [e] at hex hent hs1 fs
      rw [if_neg (by omega)] at hex hent
      exact hent ((tsim_inB fs.i1.can.1 fh.i1.can.1 hs1 _).mp hex.1)

end path
end QE.C05
