/-
  C04 — consequences of the `C(N,L)+1` iteration bound: on the whole domain of the property
  (≤ 6 variables, ≤ 5 rows) the default `max_iter = 10^6` is never reached from a lex-positive
  start; the simplex run inside `minmax` terminates when column 0 has a strict maximum
  (`lexRowsOK` of its start tableau), which makes `minmax`'s answer a certified saddle point
  without any hypothesis on the status the code never looks at.
-/
import QEProofs.Lemmas.C04TermSet
namespace QE.C04
open QE QE.Pivot Finset

variable {K : Type} [Field K] [LinearOrder K] [IsStrictOrderedRing K]

/-- Phase 1 makes at most `C(N,L) + 1` iterations -/
theorem phase1_loop_terminates_choose (P : LP K) (fuel : ℕ)
    (hfuel : (P.n + P.m + (P.m + P.k)).choose (P.m + P.k) + 1 < fuel) :
    (solveTableau (tol0 : Tol K) false fuel (initTableau P) (initBasis P)).status ≠ 1 ∧
    (solveTableau (tol0 : Tol K) false fuel (initTableau P) (initBasis P)).iters
      ≤ (P.n + P.m + (P.m + P.k)).choose (P.m + P.k) + 1 :=
  solveTableau_terminates_set false (initTableau P) _ (P.m + P.k) (P.n + P.m + (P.m + P.k))
    (by omega) fuel (initTableau P) (initBasis P) (initTableau_termInv P) hfuel

/-- `linprog_simplex` terminates once `max_iter > 2(C(N,L)+1) + L`, given `lexStartOK` -/
theorem linprog_terminates_choose (P : LP K) (fuel : ℕ)
    (hfuel : 2 * ((P.n + P.m + (P.m + P.k)).choose (P.m + P.k) + 1) + (P.m + P.k) < fuel)
    (hlex : lexStartOK P fuel (tol0 : Tol K) = true) :
    (linprogSimplex P fuel tol0).status ≠ 1 := by
  set B := (P.n + P.m + (P.m + P.k)).choose (P.m + P.k) + 1 with hB
  obtain ⟨hp1, hit1⟩ := phase1_loop_terminates_choose P fuel (by omega)
  rw [linprogSimplex_status]
  by_cases h1 : (solvePhase1 (tol0 : Tol K) fuel (initTableau P) (initBasis P)).status ≠ 0
  · rw [if_pos h1]
    rcases solvePhase1_cases (tol0 : Tol K) fuel (initTableau P) (initBasis P) with
      ⟨_, e⟩ | ⟨_, _, e⟩ | ⟨h0, _, e⟩
    · rw [e]; exact hp1
    · rw [e]; simp
    · rw [e, cleanup_status, h0]; simp
  · rw [if_neg h1]
    have h1' : (solvePhase1 (tol0 : Tol K) fuel (initTableau P) (initBasis P)).status = 0 := by
      simpa using h1
    have hinv := phase2_termInv P fuel h1' hlex
    have hit : (solvePhase1 (tol0 : Tol K) fuel (initTableau P) (initBasis P)).iters ≤ B + (P.m + P.k) := by
      rcases solvePhase1_cases (tol0 : Tol K) fuel (initTableau P) (initBasis P) with
        ⟨_, e⟩ | ⟨_, _, e⟩ | ⟨_, _, e⟩
      · rw [e]; omega
      · rw [e]; show (solveTableau (tol0 : Tol K) false fuel (initTableau P) (initBasis P)).iters ≤ _; omega
      · rw [e]
        have := (cleanup_iters (tol0 : Tol K).piv ((initTableau P).nc - ((initTableau P).nr - 1 + 1))
          (List.range ((initTableau P).nr - 1))
          (solveTableau (tol0 : Tol K) false fuel (initTableau P) (initBasis P))).2.1
        have hlen : (List.range ((initTableau P).nr - 1)).length = P.m + P.k := by
          rw [List.length_range]; rfl
        rw [hlen] at this
        omega
    exact (solveTableau_terminates_set true (initTableau P) _ (P.m + P.k) (P.n + P.m + (P.m + P.k))
      (by omega) (fuel - (solvePhase1 (tol0 : Tol K) fuel (initTableau P) (initBasis P)).iters) _ _ hinv
      (by omega)).1

/-- on the property's domain the bound is far below the default cap `10^6` -/
theorem domain_bound (n m k : ℕ) (hn : n ≤ 6) (hL : m + k ≤ 5) :
    2 * ((n + m + (m + k)).choose (m + k) + 1) + (m + k) < 10 ^ 6 := by
  have h1 : (n + m + (m + k)).choose (m + k) ≤ (16 : ℕ).choose (m + k) :=
    Nat.choose_le_choose (m + k) (by omega)
  have h2 : (16 : ℕ).choose (m + k) ≤ (16 : ℕ).choose (16 / 2) := Nat.choose_le_middle _ _
  have h3 : (16 : ℕ).choose (16 / 2) = 12870 := by decide
  omega

/-! ### `minmax` -/

/-- the termination invariant at the start of `minmax`'s simplex run, given lex-positive rows -/
theorem mmStart_termInv (A : ℕ → ℕ → K) (m n : ℕ) (hm : 1 ≤ m) (hn : 1 ≤ n)
    (hlex : lexRowsOK (mmStart A m n) = true) :
    TermInv (mmTableau A m n) (fun j => (mmTableau A m n).get (m + 1) j) (m + 1) (n + 1 + m)
      (mmStart A m n) (mmBasis m n (mmPivRow (mmTableau A m n) m)) := by
  obtain ⟨hs2, hc2, _, _, _, hrsp, hcsp⟩ := mmStart_facts A m n hm hn
  refine ⟨hs2, hc2, hrsp, ?_, hcsp, (lexRowsOK_iff _ _ _ hs2).mp hlex⟩
  -- reverse span through the two hand pivots
  set T0 := mmTableau A m n with hT0
  obtain ⟨hprm, _⟩ := mmPivRow_spec T0 m hm
  set pr := mmPivRow T0 m with hpr
  have hs0 : Shape T0 (m + 1) (n + 1 + m) := mmTableau_shape A m n
  have hsa : Shape (pivot T0 n pr) (m + 1) (n + 1 + m) := shape_pivot T0 _ _ n pr hs0
  have e_v : T0.get pr n = -1 := by
    rw [hT0, mmTableau_get A m n pr n (by omega) (by omega), if_pos hprm, if_neg (lt_irrefl _), if_pos rfl]
  have hp1 : T0.get pr n ≠ 0 := by rw [e_v]; norm_num
  have e_mv : T0.get m n = 0 := by
    rw [hT0, mmTableau_get A m n m n (by omega) (by omega), if_neg (lt_irrefl _), if_pos rfl,
      if_neg (by omega)]
  have e_m0 : T0.get m 0 = 1 := by
    rw [hT0, mmTableau_get A m n m 0 (by omega) (by omega), if_neg (lt_irrefl _), if_pos rfl,
      if_pos (Or.inl (by omega))]
  have hp2 : (pivot T0 n pr).get m 0 ≠ 0 := by
    rw [pivot_get_i T0 n pr m 0 (by rw [hs0.1]; omega) (by rw [hs0.2]; omega) (by omega), e_mv, e_m0]
    norm_num
  exact rowsSpanRev_pivot T0 (pivot T0 n pr) _ _ 0 m hsa (by omega) hp2
    (rowsSpanRev_pivot T0 T0 _ _ n pr hs0 (by omega) hp1 (rowsSpan_refl _ _ _))

/-- **the simplex run of `minmax` terminates** with status 0 once `max_iter − 2 > C(N,L)+1`,
    when its start tableau has lex-positive rows -/
theorem minmax_status0 (A : ℕ → ℕ → K) (m n fuel : ℕ) (hm : 1 ≤ m) (hn : 1 ≤ n)
    (hlex : lexRowsOK (mmStart A m n) = true)
    (hfuel : (n + 1 + m).choose (m + 1) + 3 < fuel) :
    (minmax A m n fuel tol0).status = 0 := by
  have hinv := mmStart_termInv A m n hm hn hlex
  have ht := (solveTableau_terminates_set false (mmTableau A m n) _ (m + 1) (n + 1 + m) (by omega)
    (fuel - 2) _ _ hinv (by omega)).1
  have h3 := minmax_not_status3 A m n fuel hm hn
  have : (minmax A m n fuel (tol0 : Tol K)).status
      = (solveTableau (tol0 : Tol K) false (fuel - 2) (mmStart A m n)
          (mmBasis m n (mmPivRow (mmTableau A m n) m))).status := rfl
  rcases solveTableau_status (tol0 : Tol K) false (fuel - 2) (mmStart A m n)
    (mmBasis m n (mmPivRow (mmTableau A m n) m)) with s | s | s
  · rw [this]; exact s
  · exact absurd s ht
  · exact absurd (this.trans s) h3

end QE.C04
