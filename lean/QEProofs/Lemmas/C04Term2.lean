/-
  C04 — termination of `linprog_simplex` (exact arithmetic):
  * Phase 1 always terminates: its start tableau has the identity in the `slack_start`
    (artificial) block and non-negative right-hand sides, so its rows are lex-positive;
  * Phase 2 terminates whenever it starts from lex-positive rows — the executable predicate
    `lexStartOK`, which holds in particular when the clean-up made no pivot.
-/
import QEProofs.Lemmas.C04Term
import QEProofs.Lemmas.C04Unbounded
import Mathlib.Algebra.Order.BigOperators.Group.List
namespace QE.C04
open QE QE.Pivot Finset

variable {K : Type} [Field K] [LinearOrder K] [IsStrictOrderedRing K]

theorem length_sections_replicate (l : List ℕ) :
    ∀ L : ℕ, (List.replicate L l).sections.length = l.length ^ L := by
  intro L
  induction L with
  | zero => simp [List.sections]
  | succ L ih =>
    rw [List.replicate_succ, List.sections]
    simp only [List.length_flatMap, List.length_map]
    rw [List.map_const', List.sum_replicate, ih]
    simp [pow_succ]

/-- the number of conceivable bases is `N ^ L` -/
theorem allBases_length (L N : ℕ) : (allBases L N).length = N ^ L := by
  unfold allBases; rw [length_sections_replicate]; simp

/-! ### lex-positivity from non-negativity -/

omit [Field K] [IsStrictOrderedRing K] in
theorem lexPos_of_nonneg [Zero K] (cols : List ℕ) (u : ℕ → K) (h0 : ∀ j ∈ cols, (0 : K) ≤ u j)
    (hp : ∃ j ∈ cols, (0 : K) < u j) : LexLt cols (fun _ => (0 : K)) u := by
  induction cols with
  | nil => obtain ⟨j, hj, _⟩ := hp; simp at hj
  | cons j js ih =>
    rcases lt_or_eq_of_le (h0 j (by simp)) with h | h
    · exact Or.inl h
    · refine Or.inr ⟨h, ih (fun x hx => h0 x (List.mem_cons_of_mem _ hx)) ?_⟩
      obtain ⟨x, hx, hpos⟩ := hp
      rcases List.mem_cons.mp hx with e | hx'
      · subst e; rw [← h] at hpos; exact absurd hpos (lt_irrefl _)
      · exact ⟨x, hx', hpos⟩

/-- the Phase-1 start tableau has lexicographically positive rows -/
theorem initTableau_lexRows (P : LP K) :
    LexRows (initTableau P) (P.m + P.k) (P.n + P.m + (P.m + P.k))
      (P.n + P.m + (P.m + P.k) - (P.m + P.k)) := by
  have hss : P.n + P.m + (P.m + P.k) - (P.m + P.k) = P.n + P.m := by omega
  rw [hss]
  intro i hi
  unfold LexPos
  apply lexPos_of_nonneg
  · intro col hcol
    unfold lexCols at hcol
    rcases List.mem_cons.mp hcol with e | hm
    · rw [e]; exact initTableau_rhs_nonneg P i hi
    · obtain ⟨q, hq, e⟩ := List.mem_map.mp hm
      have hq' := List.mem_range.mp hq
      rw [← e, Nat.add_comm q, initTableau_block P i q hi hq']
      split_ifs
      · exact zero_le_one
      · exact le_refl _
  · refine ⟨P.n + P.m + i, ?_, ?_⟩
    · unfold lexCols
      exact List.mem_cons_of_mem _ (List.mem_map.mpr ⟨i, List.mem_range.mpr hi, by omega⟩)
    · rw [initTableau_block P i i hi hi, if_pos rfl]; exact zero_lt_one

/-- the termination invariant at the start of Phase 1 -/
theorem initTableau_termInv (P : LP K) :
    TermInv (initTableau P) (fun j => (initTableau P).get (P.m + P.k) j) (P.m + P.k)
      (P.n + P.m + (P.m + P.k)) (initTableau P) (initBasis P) :=
  ⟨initTableau_shape P, initTableau_canon P, rowsSpan_refl _ _ _, rowsSpan_refl _ _ _,
    by unfold CritSpan; simp only [sub_self]; exact inSpan_zero _ _ _, initTableau_lexRows P⟩

/-- the termination invariant holds along `solve_tableau` -/
theorem solveTableau_termInv (skip : Bool) (T0 : M K) (base : ℕ → K) (L N : ℕ) (hLN : L ≤ N)
    (fuel : ℕ) (T : M K) (b : List ℕ) (h : TermInv T0 base L N T b) :
    TermInv T0 base L N (solveTableau (tol0 : Tol K) skip fuel T b).T
      (solveTableau (tol0 : Tol K) skip fuel T b).basis :=
  solveTableau_induct (tol0 : Tol K) skip (TermInv T0 base L N)
    (fun T b T' b' h hst => (termInv_step skip T0 base L N hLN T b T' b' h hst).1) fuel T b h

/-- **Phase 1 terminates**: its simplex run never stops at the cap once
    `max_iter > N^L + 1`, and it makes at most `N^L + 1` iterations -/
theorem phase1_loop_terminates (P : LP K) (fuel : ℕ)
    (hfuel : (P.n + P.m + (P.m + P.k)) ^ (P.m + P.k) + 1 < fuel) :
    (solveTableau (tol0 : Tol K) false fuel (initTableau P) (initBasis P)).status ≠ 1 ∧
    (solveTableau (tol0 : Tol K) false fuel (initTableau P) (initBasis P)).iters
      ≤ (P.n + P.m + (P.m + P.k)) ^ (P.m + P.k) + 1 := by
  have := solveTableau_terminates false (initTableau P) _ (P.m + P.k) (P.n + P.m + (P.m + P.k))
    (by omega) fuel (initTableau P) (initBasis P) (initTableau_termInv P)
    (by rw [allBases_length]; exact hfuel)
  rw [allBases_length] at this
  exact this

/-! ### the clean-up -/

omit [IsStrictOrderedRing K] in
theorem cleanupStep_iters (piv : K) (nm : ℕ) (r : Res K) (i : ℕ) :
    (cleanupStep piv nm r i = r) ∨ ((cleanupStep piv nm r i).iters = r.iters + 1) := by
  unfold cleanupStep
  split_ifs
  · split
    · right; rfl
    · left; rfl
  · left; rfl

omit [IsStrictOrderedRing K] in
theorem cleanup_iters (piv : K) (nm : ℕ) (l : List ℕ) :
    ∀ r : Res K, r.iters ≤ (l.foldl (cleanupStep piv nm) r).iters ∧
      (l.foldl (cleanupStep piv nm) r).iters ≤ r.iters + l.length ∧
      ((l.foldl (cleanupStep piv nm) r).iters = r.iters → l.foldl (cleanupStep piv nm) r = r) := by
  induction l with
  | nil => intro r; simp
  | cons i l ih =>
    intro r
    rw [List.foldl_cons]
    obtain ⟨h1, h2, h3⟩ := ih (cleanupStep piv nm r i)
    rcases cleanupStep_iters piv nm r i with e | e
    · rw [e] at h1 h2 h3 ⊢
      exact ⟨h1, by simp only [List.length_cons]; omega, h3⟩
    · refine ⟨by omega, by simp only [List.length_cons]; omega, fun h => ?_⟩
      omega

/-! ### Phase 2 -/

omit [LinearOrder K] [IsStrictOrderedRing K] in
theorem inSpan_congr_rows (T T' : M K) (L N : ℕ) (v : ℕ → K)
    (h : ∀ i j, i < L → j < N + 1 → T'.get i j = T.get i j) (hv : InSpan T L N v) :
    InSpan T' L N v := by
  obtain ⟨w, hw⟩ := hv
  refine ⟨w, fun j hj => ?_⟩
  rw [hw j hj]
  exact Finset.sum_congr rfl (fun i hi => by rw [h i j (Finset.mem_range.mp hi) hj])

omit [IsStrictOrderedRing K] in
theorem cleanupStep_rev (T0 : M K) (L N nm q : ℕ) (r : Res K) (hq : q < L)
    (h : Shape r.T L N ∧ RowsSpan r.T T0 L N) :
    Shape (cleanupStep (0 : K) nm r q).T L N ∧ RowsSpan (cleanupStep (0 : K) nm r q).T T0 L N := by
  unfold cleanupStep
  split_ifs
  · cases hcc : cleanupCol r.T (0 : K) nm q with
    | none => exact h
    | some j =>
      obtain ⟨_, hne⟩ := cleanupCol_some r.T nm q j hcc
      exact ⟨shape_pivot r.T L N j q h.1, rowsSpanRev_pivot T0 r.T L N j q h.1 hq hne h.2⟩
  · exact h

omit [IsStrictOrderedRing K] in
theorem cleanup_rev (T0 : M K) (L N nm : ℕ) (r : Res K)
    (h : Shape r.T L N ∧ RowsSpan r.T T0 L N) :
    ∀ q, q ≤ L → Shape ((List.range q).foldl (cleanupStep (0 : K) nm) r).T L N ∧
      RowsSpan ((List.range q).foldl (cleanupStep (0 : K) nm) r).T T0 L N := by
  intro q
  induction q with
  | zero => intro _; simpa using h
  | succ q ih =>
    intro hq
    rw [List.range_succ, List.foldl_append]
    exact cleanupStep_rev T0 L N nm q _ (by omega) (ih (by omega))

omit [IsStrictOrderedRing K] in
/-- the executable `lexRowsOK` is lex-positivity of the rows -/
theorem lexRowsOK_iff (T : M K) (L N : ℕ) (hs : Shape T L N) :
    lexRowsOK T = true ↔ LexRows T L N (N - L) := by
  unfold lexRowsOK LexRows
  have hL : T.nr - 1 = L := by rw [hs.1]; rfl
  have hN : T.nc - 1 = N := by rw [hs.2]; rfl
  have hss : T.nc - L - 1 = N - L := by rw [hs.2]; omega
  rw [hL, hN, hss, List.all_eq_true]
  constructor
  · intro h i hi
    exact (lexPosB_iff _ _).mp (h i (List.mem_range.mpr hi))
  · intro h i hi
    exact (lexPosB_iff _ _).mpr (h i (List.mem_range.mp hi))

/-- the termination invariant at the start of Phase 2, given lex-positive rows -/
theorem phase2_termInv (P : LP K) (fuel : ℕ)
    (h1 : (solvePhase1 tol0 fuel (initTableau P) (initBasis P)).status = 0)
    (hlex : lexStartOK P fuel (tol0 : Tol K) = true) :
    TermInv (initTableau P) (fun j => if j < P.n then P.c j else 0) (P.m + P.k)
      (P.n + P.m + (P.m + P.k))
      (setCriterionRow P.c P.n (solvePhase1 tol0 fuel (initTableau P) (initBasis P)).basis
        (solvePhase1 tol0 fuel (initTableau P) (initBasis P)).T)
      (solvePhase1 tol0 fuel (initTableau P) (initBasis P)).basis := by
  have I1 := solvePhase1_success P fuel h1
  have hsp := solvePhase1_span P fuel h1
  -- reverse span for the Phase-1 result
  have hrev : RowsSpan (solvePhase1 (tol0 : Tol K) fuel (initTableau P) (initBasis P)).T (initTableau P)
      (P.m + P.k) (P.n + P.m + (P.m + P.k)) := by
    rcases solvePhase1_cases (tol0 : Tol K) fuel (initTableau P) (initBasis P) with
      ⟨h0, e⟩ | ⟨_, _, e⟩ | ⟨_, _, e⟩
    · rw [e] at h1; exact absurd h1 h0
    · rw [e] at h1; simp at h1
    · rw [e]
      have hL : (initTableau P).nr - 1 = P.m + P.k := rfl
      rw [hL]
      have ht := solveTableau_termInv false (initTableau P) _ (P.m + P.k) (P.n + P.m + (P.m + P.k))
        (by omega) fuel (initTableau P) (initBasis P) (initTableau_termInv P)
      exact (cleanup_rev (initTableau P) _ _ _ _ ⟨ht.shape, ht.rev⟩ (P.m + P.k) (le_refl _)).2
  set r1 := solvePhase1 (tol0 : Tol K) fuel (initTableau P) (initBasis P) with hr1
  set L := P.m + P.k with hL
  set N := P.n + P.m + (P.m + P.k) with hN
  obtain ⟨hrs, hcs⟩ := setCriterionRow_span (initTableau P) r1.T r1.basis L N P.n P.c I1.shape hsp
  obtain ⟨hcT1, _⟩ := setCriterionRow_spec P.c P.n r1.basis r1.T L N I1.shape I1.canon
    (by show P.n ≤ P.n + P.m + (P.m + P.k); omega)
  have hrows : ∀ i j, i < L → j < N + 1 →
      (setCriterionRow P.c P.n r1.basis r1.T).get i j = r1.T.get i j :=
    fun i j hi hj => setCriterionRow_get_row P.c P.n r1.basis r1.T L N i j I1.shape hi hj
  have hlexr : LexRows r1.T L N (N - L) := by
    unfold lexStartOK at hlex
    simp only at hlex
    rw [← hr1] at hlex
    have hne : ¬ r1.status ≠ 0 := by simp [h1]
    rw [if_neg hne] at hlex
    exact (lexRowsOK_iff r1.T L N I1.shape).mp hlex
  refine ⟨setCriterionRow_shape P.c P.n r1.basis r1.T L N I1.shape, hcT1, hrs, ?_, hcs, ?_⟩
  · intro q hq
    exact inSpan_congr_rows r1.T _ L N _ hrows (hrev q hq)
  · intro i hi
    have := hlexr i hi
    unfold LexPos at this ⊢
    apply lexLt_congr _ _ _ _ _ (fun _ _ => rfl) _ this
    intro col hcol
    exact (hrows i col hi (lexCols_lt L N (N - L) (by omega) col hcol)).symm

/-- when the clean-up makes no pivot, Phase 2 starts from lex-positive rows -/
theorem lexStartOK_of_no_cleanup (P : LP K) (fuel : ℕ)
    (h1 : (solvePhase1 tol0 fuel (initTableau P) (initBasis P)).status = 0)
    (hno : (solvePhase1 tol0 fuel (initTableau P) (initBasis P)).iters
      = (solveTableau (tol0 : Tol K) false fuel (initTableau P) (initBasis P)).iters) :
    lexStartOK P fuel (tol0 : Tol K) = true := by
  have ht := solveTableau_termInv false (initTableau P) _ (P.m + P.k) (P.n + P.m + (P.m + P.k))
    (by omega) fuel (initTableau P) (initBasis P) (initTableau_termInv P)
  have heq : solvePhase1 (tol0 : Tol K) fuel (initTableau P) (initBasis P)
      = solveTableau (tol0 : Tol K) false fuel (initTableau P) (initBasis P) := by
    rcases solvePhase1_cases (tol0 : Tol K) fuel (initTableau P) (initBasis P) with
      ⟨_, e⟩ | ⟨_, _, e⟩ | ⟨_, _, e⟩
    · exact e
    · rw [e] at h1; simp at h1
    · rw [e] at hno ⊢
      exact (cleanup_iters _ _ _ _).2.2 hno
  unfold lexStartOK
  simp only
  have hne : ¬ (solvePhase1 (tol0 : Tol K) fuel (initTableau P) (initBasis P)).status ≠ 0 := by simp [h1]
  rw [if_neg hne, heq]
  exact (lexRowsOK_iff _ _ _ ht.shape).mpr ht.lex

/-- **linprog_simplex terminates** (exact arithmetic): with `max_iter > 2(N^L+1) + L` and
    lex-positive rows at the start of Phase 2, the status is not 1 -/
theorem linprog_terminates (P : LP K) (fuel : ℕ)
    (hfuel : 2 * ((P.n + P.m + (P.m + P.k)) ^ (P.m + P.k) + 1) + (P.m + P.k) < fuel)
    (hlex : lexStartOK P fuel (tol0 : Tol K) = true) :
    (linprogSimplex P fuel tol0).status ≠ 1 := by
  set B := (P.n + P.m + (P.m + P.k)) ^ (P.m + P.k) + 1 with hB
  obtain ⟨hp1, hit1⟩ := phase1_loop_terminates P fuel (by omega)
  rw [linprogSimplex_status]
  by_cases h1 : (solvePhase1 (tol0 : Tol K) fuel (initTableau P) (initBasis P)).status ≠ 0
  · rw [if_pos h1]
    rcases solvePhase1_cases (tol0 : Tol K) fuel (initTableau P) (initBasis P) with
      ⟨_, e⟩ | ⟨_, _, e⟩ | ⟨h0, _, e⟩
    · rw [e]; exact hp1
    · rw [e]; simp
    · rw [e, cleanup_status, h0]; simp
  · rw [if_neg h1]
    have h1' : (solvePhase1 (tol0 : Tol K) fuel (initTableau P) (initBasis P)).status = 0 := by
      simpa using h1
    have hinv := phase2_termInv P fuel h1' hlex
    -- Phase 1 used at most B + L iterations
    have hit : (solvePhase1 (tol0 : Tol K) fuel (initTableau P) (initBasis P)).iters ≤ B + (P.m + P.k) := by
      rcases solvePhase1_cases (tol0 : Tol K) fuel (initTableau P) (initBasis P) with
        ⟨_, e⟩ | ⟨_, _, e⟩ | ⟨_, _, e⟩
      · rw [e]; omega
      · rw [e]; show (solveTableau (tol0 : Tol K) false fuel (initTableau P) (initBasis P)).iters ≤ _; omega
      · rw [e]
        have := (cleanup_iters (tol0 : Tol K).piv ((initTableau P).nc - ((initTableau P).nr - 1 + 1))
          (List.range ((initTableau P).nr - 1))
          (solveTableau (tol0 : Tol K) false fuel (initTableau P) (initBasis P))).2.1
        have hlen : (List.range ((initTableau P).nr - 1)).length = P.m + P.k := by
          rw [List.length_range]; rfl
        rw [hlen] at this
        omega
    have := solveTableau_terminates true (initTableau P) _ (P.m + P.k) (P.n + P.m + (P.m + P.k))
      (by omega) (fuel - (solvePhase1 (tol0 : Tol K) fuel (initTableau P) (initBasis P)).iters) _ _ hinv
      (by rw [allBases_length]; omega)
    exact this.1

end QE.C04
