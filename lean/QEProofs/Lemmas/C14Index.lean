import Mathlib.Data.List.Range
import Mathlib.Data.List.Rotate
import Mathlib.Tactic.Ring
import Mathlib.Tactic.Linarith
import QEModel.C14
namespace QE.C14

theorem allIdx_succ (n : Nat) (s : List Nat) :
    allIdx ((n + 1) :: s) = allIdx (n :: s) ++ (allIdx s).map (n :: ·) := by
  simp [allIdx, List.range_succ, List.flatMap_append]

theorem length_allIdx : ∀ s : List Nat, (allIdx s).length = prod s
  | [] => rfl
  | n :: s => by
    induction n with
    | zero => simp [allIdx, prod]
    | succ n ih =>
      rw [allIdx_succ, List.length_append, ih, List.length_map, length_allIdx s]
      simp [prod]; ring

theorem allIdx_cons_get (s : List Nat) (k : Nat) (l : List Nat) (hk : (allIdx s)[k]? = some l) :
    ∀ n a, a < n → (allIdx (n :: s))[a * prod s + k]? = some (a :: l) := by
  have hkP : k < prod s := by
    rw [← length_allIdx]; exact (List.getElem?_eq_some_iff.mp hk).1
  intro n
  induction n with
  | zero => intro a h; omega
  | succ n ih =>
    intro a ha
    rw [allIdx_succ]
    have hlen : (allIdx (n :: s)).length = n * prod s := by rw [length_allIdx]; rfl
    by_cases h : a < n
    · have : a * prod s + k < (allIdx (n :: s)).length := by
        rw [hlen]
        calc a * prod s + k < a * prod s + prod s := by omega
          _ = (a + 1) * prod s := by ring
          _ ≤ n * prod s := Nat.mul_le_mul_right _ h
      rw [List.getElem?_append_left this]
      exact ih a h
    · have ha' : a = n := by omega
      subst ha'
      rw [List.getElem?_append_right (by rw [hlen]; omega), hlen]
      simp [hk]

theorem allIdx_flatIndex : ∀ (s idx : List Nat), inBounds s idx = true →
    (allIdx s)[flatIndex s idx]? = some idx
  | [], [], _ => rfl
  | [], _ :: _, h => by simp [inBounds] at h
  | _ :: _, [], h => by simp [inBounds] at h
  | n :: s, a :: r, h => by
    simp only [inBounds, Bool.and_eq_true, decide_eq_true_eq] at h
    exact allIdx_cons_get s _ r (allIdx_flatIndex s r h.2) n a h.1

theorem flatIndex_lt : ∀ (s idx : List Nat), inBounds s idx = true → flatIndex s idx < prod s := by
  intro s idx h
  have := allIdx_flatIndex s idx h
  rw [← length_allIdx]; exact (List.getElem?_eq_some_iff.mp this).1

/-- reading a tabulated array at an in-bounds index gives the tabulated function -/
theorem get_tab {α : Type} [Zero α] (shape : List Nat) (f : List Nat → α) (idx : List Nat)
    (h : inBounds shape idx = true) : (Arr.tab shape f).get idx = f idx := by
  unfold Arr.get Arr.tab
  simp only [List.getD_eq_getElem?_getD, List.getElem?_map, allIdx_flatIndex shape idx h]
  rfl

theorem prod_pos_of_lt {s : List Nat} {k : Nat} (h : k < prod s) : 0 < prod s := by omega

/-- the `k`-th multi-index in C order is in bounds and has offset `k` -/
theorem allIdx_spec : ∀ (s : List Nat) (k : Nat), k < prod s →
    ∃ idx, (allIdx s)[k]? = some idx ∧ inBounds s idx = true ∧ flatIndex s idx = k
  | [], k, h => by
    simp only [prod] at h
    have : k = 0 := by omega
    subst this
    exact ⟨[], rfl, rfl, rfl⟩
  | n :: s, k, h => by
    simp only [prod] at h
    have hP : 0 < prod s := by
      rcases Nat.eq_zero_or_pos (prod s) with h0 | h0
      · rw [h0] at h; omega
      · exact h0
    have ha : k / prod s < n := by
      rw [Nat.div_lt_iff_lt_mul hP]; exact h
    obtain ⟨idx, h1, h2, h3⟩ := allIdx_spec s (k % prod s) (Nat.mod_lt _ hP)
    refine ⟨(k / prod s) :: idx, ?_, ?_, ?_⟩
    · have := allIdx_cons_get s _ idx h1 n _ ha
      rwa [Nat.div_add_mod' k (prod s)] at this
    · simp [inBounds, ha, h2]
    · simp only [flatIndex, h3]; exact Nat.div_add_mod' k (prod s)

theorem mem_allIdx_inBounds (s idx : List Nat) (h : idx ∈ allIdx s) : inBounds s idx = true := by
  obtain ⟨k, hk, rfl⟩ := List.getElem_of_mem h
  rw [length_allIdx] at hk
  obtain ⟨idx', h1, h2, _⟩ := allIdx_spec s k hk
  have : (allIdx s)[k] = idx' := by
    have := List.getElem?_eq_some_iff.mp h1
    exact this.2
  rw [this]; exact h2

/-- an array whose data has the right length is the tabulation of its own reads -/
theorem tab_get_self {α : Type} [Zero α] (A : Arr α) (h : A.data.length = prod A.shape) :
    Arr.tab A.shape A.get = A := by
  cases A with
  | mk shape data =>
    simp only [Arr.tab, Arr.mk.injEq, true_and]
    simp only at h
    apply List.ext_getElem?
    intro k
    by_cases hk : k < prod shape
    · obtain ⟨idx, h1, _, h3⟩ := allIdx_spec shape k hk
      rw [List.getElem?_map, h1]
      simp only [Option.map_some, Arr.get, h3]
      rw [List.getD_eq_getElem?_getD, List.getElem?_eq_getElem (by omega)]
      rfl
    · rw [List.getElem?_eq_none (by simp [length_allIdx]; omega),
          List.getElem?_eq_none (by omega)]
end QE.C14
