/-
  C12 helper lemmas, part 6: the algebra of the measurement update.
  * `joseph_identity`: with a gain `M` satisfying `M F = Σ G'` (the exact gain), the short form
    `Σ − M G Σ` that the code evaluates equals the Joseph form `(I − MG) Σ (I − MG)' + M R M'`;
  * the Joseph form is PSD for every gain (ℝ);
  * the update never increases the covariance: `Σ − Σᶠ = Σ G' F⁻¹ G Σ` is PSD (ℝ);
  * information form: `Σᶠ (Σ⁻¹ + G' R⁻¹ G) = I`.
-/
import QEProofs.Lemmas.C12Psd
import Mathlib.Tactic.Abel

set_option linter.unusedSectionVars false

namespace QE.C12
open QE Matrix

section
variable {K : Type} [CommRing K] {n k l : ℕ}

/-- short form = Joseph form, for any gain with `M (G Σ G' + R) = Σ G'` -/
theorem joseph_identity (S : Matrix (Fin n) (Fin n) K) (g : Matrix (Fin k) (Fin n) K)
    (R : Matrix (Fin k) (Fin k) K) (M : Matrix (Fin n) (Fin k) K)
    (hM : M * (g * S * gᵀ + R) = S * gᵀ) :
    S - M * (g * S) = (1 - M * g) * S * (1 - M * g)ᵀ + M * R * Mᵀ := by
  have h2 : M * (g * (S * (gᵀ * Mᵀ))) = S * (gᵀ * Mᵀ) - M * (R * Mᵀ) := by
    have := congrArg (· * Mᵀ) hM
    simp only [Matrix.mul_add, Matrix.add_mul, Matrix.mul_assoc] at this
    exact eq_sub_of_add_eq this
  simp only [transpose_sub, transpose_one, transpose_mul, Matrix.sub_mul, Matrix.mul_sub,
    Matrix.one_mul, Matrix.mul_one, Matrix.mul_assoc]
  rw [h2]
  abel

/-- the exact gain `Σ G' F⁻¹` satisfies the hypothesis of `joseph_identity` -/
theorem exact_gain_eq (S : Matrix (Fin n) (Fin n) K) (g : Matrix (Fin k) (Fin n) K)
    (R : Matrix (Fin k) (Fin k) K) (hu : IsUnit (g * S * gᵀ + R).det) :
    S * gᵀ * (g * S * gᵀ + R)⁻¹ * (g * S * gᵀ + R) = S * gᵀ := by
  rw [Matrix.mul_assoc, Matrix.nonsing_inv_mul _ hu, Matrix.mul_one]

/-- information form: `(Σ − Σ G' F⁻¹ G Σ) (Σ⁻¹ + G' R⁻¹ G) = I`, written with explicit inverses -/
theorem info_form_core (S Si : Matrix (Fin n) (Fin n) K) (g : Matrix (Fin k) (Fin n) K)
    (R Ri Fi : Matrix (Fin k) (Fin k) K) (hS : S * Si = 1) (hFi : Fi * (g * S * gᵀ + R) = 1)
    (hR : R * Ri = 1) :
    (S - S * gᵀ * Fi * (g * S)) * (Si + gᵀ * Ri * g) = 1 := by
  have hFT : ∀ X : Matrix (Fin k) (Fin n) K, Fi * (g * (S * (gᵀ * X))) = X - Fi * (R * X) := by
    intro X
    have := congrArg (· * X) hFi
    simp only [Matrix.mul_add, Matrix.add_mul, Matrix.mul_assoc, Matrix.one_mul] at this
    exact eq_sub_of_add_eq this
  have hS' : ∀ X : Matrix (Fin n) (Fin n) K, S * (Si * X) = X := by
    intro X; rw [← Matrix.mul_assoc, hS, Matrix.one_mul]
  have hR' : ∀ X : Matrix (Fin k) (Fin n) K, R * (Ri * X) = X := by
    intro X; rw [← Matrix.mul_assoc, hR, Matrix.one_mul]
  simp only [Matrix.sub_mul, Matrix.mul_add, Matrix.mul_assoc]
  rw [hS, hFT, hR']
  simp only [Matrix.mul_sub, Matrix.mul_one]
  abel

end

/-! ### order statements over ℝ -/

section
variable {n k l : ℕ}

/-- the Joseph form is positive semidefinite for EVERY gain `M` -/
theorem joseph_form_psd (S : Matrix (Fin n) (Fin n) ℝ) (g : Matrix (Fin k) (Fin n) ℝ)
    (h : Matrix (Fin k) (Fin l) ℝ) (M : Matrix (Fin n) (Fin k) ℝ) (hS : S.PosSemidef) :
    ((1 - M * g) * S * (1 - M * g)ᵀ + M * (h * hᵀ) * Mᵀ).PosSemidef := by
  have h1 := hS.mul_mul_conjTranspose_same (1 - M * g)
  have h2 := posSemidef_self_mul_conjTranspose (M * h)
  rw [conjTranspose_eq_transpose_of_trivial] at h1 h2
  have e : M * (h * hᵀ) * Mᵀ = M * h * (M * h)ᵀ := by
    rw [transpose_mul]; simp only [Matrix.mul_assoc]
  rw [e]
  exact h1.add h2

/-- the measurement update never increases the covariance (Loewner order):
    `Σ − Σᶠ = Σ G' F⁻¹ G Σ` is positive semidefinite -/
theorem filtered_cov_le (S : Matrix (Fin n) (Fin n) ℝ) (g : Matrix (Fin k) (Fin n) ℝ)
    (h : Matrix (Fin k) (Fin l) ℝ) (hS : S.PosSemidef) (hu : IsUnit (innov S g h).det) :
    (S - (S - S * gᵀ * (innov S g h)⁻¹ * (g * S))).PosSemidef := by
  have hSt : Sᵀ = S := by
    have := hS.isHermitian
    rwa [IsHermitian, conjTranspose_eq_transpose_of_trivial] at this
  have hFi : ((innov S g h)⁻¹).PosSemidef := (innov_posDef S g h hS hu).inv.posSemidef
  have := hFi.mul_mul_conjTranspose_same (S * gᵀ)
  rw [conjTranspose_eq_transpose_of_trivial, transpose_mul, transpose_transpose, hSt] at this
  rw [sub_sub_cancel]
  exact this

end
end QE.C12
