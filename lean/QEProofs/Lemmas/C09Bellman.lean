/-
  Lemmas for C09, part 2: `bellman` returns the state-wise first maximum
  (SA-pair form and product form).
-/
import QEProofs.Lemmas.C09Max
namespace QE.C09
set_option linter.unusedSectionVars false

section
variable {K : Type} [Zero K] [Add K] [Mul K] [LinearOrder K]

omit [Zero K] [Add K] [Mul K] in
theorem maxIdxLoop_eq (vals : List (Ext K)) (m : Nat) (js : List Nat) :
    maxIdxLoop vals m js = firstMax (fun j => vals.getD j default) m js := rfl

omit [Zero K] [Add K] [Mul K] in
/-- first-maximum property of `maxIdxLoop` over `range(lo+1, hi)` started at `lo` -/
theorem maxIdxLoop_spec (vals : List (Ext K)) (lo hi : Nat) (h : lo < hi) :
    let m := maxIdxLoop vals lo (List.range' (lo + 1) (hi - (lo + 1)))
    lo ≤ m ∧ m < hi ∧
    (∀ j, lo ≤ j → j < hi → ¬ vals.getD m default < vals.getD j default) ∧
    (∀ j, lo ≤ j → j < m → vals.getD j default < vals.getD m default) := by
  intro m
  have := firstMax_range' (fun j => vals.getD j default) Ext.lt_irrefl' Ext.lt_trans'
    Ext.lt_of_not_lt' lo (hi - (lo + 1)) (lo + 1) lo (Nat.le_refl _) (Nat.lt_succ_self _)
    (fun j h1 h2 => by
      have : j = lo := by omega
      subst this; exact Ext.lt_irrefl' _)
    (fun j h1 h2 => by omega)
  have e : lo + 1 + (hi - (lo + 1)) = hi := by omega
  rw [e] at this
  exact this

/-- value of the `j`-th state-action pair: `R[j] + beta * Q[j].dot(v)` -/
def SaDDP.pairVal (d : SaDDP K) (v : List K) (j : Nat) : Ext K :=
  qval d.beta (d.R.getD j .ninf) (d.Q.getD j []) v

theorem SaDDP.vals_getD (d : SaDDP K) (v : List K) (j : Nat) (hR : j < d.R.length)
    (hQ : j < d.Q.length) : (d.vals v).getD j default = d.pairVal v j := by
  simp [SaDDP.vals, SaDDP.pairVal, List.getD_eq_getElem?_getD, hR, hQ]

theorem SaDDP.bellman_fst_getElem? (d : SaDDP K) (v : List K) (i : Nat) (hi : i < d.n) :
    (d.bellman v).1[i]? = some (((sWiseIdx d.aIndptr (d.vals v) i).map fun m =>
        ((d.vals v).getD m default, d.aInd.getD m 0)).getD (Ext.ninf, 0)).1 := by
  simp [SaDDP.bellman, sWiseMaxArgmax, List.unzip_eq_map, hi]

theorem SaDDP.bellman_snd_getElem? (d : SaDDP K) (v : List K) (i : Nat) (hi : i < d.n) :
    (d.bellman v).2[i]? = some (((sWiseIdx d.aIndptr (d.vals v) i).map fun m =>
        ((d.vals v).getD m default, d.aInd.getD m 0)).getD (Ext.ninf, 0)).2 := by
  simp [SaDDP.bellman, sWiseMaxArgmax, List.unzip_eq_map, hi]

theorem sa_bellman_spec (d : SaDDP K) (v : List K) (i : Nat) (hi : i < d.n)
    (hne : d.aIndptr.getD i 0 < d.aIndptr.getD (i + 1) 0)
    (hhi : d.aIndptr.getD (i + 1) 0 ≤ d.R.length)
    (hQ : d.Q.length = d.R.length) (hA : d.aInd.length = d.R.length) :
    ∃ m act, d.aIndptr.getD i 0 ≤ m ∧ m < d.aIndptr.getD (i + 1) 0 ∧
      d.aInd[m]? = some act ∧
      (d.bellman v).1[i]? = some (d.pairVal v m) ∧
      (d.bellman v).2[i]? = some act ∧
      (∀ j, d.aIndptr.getD i 0 ≤ j → j < d.aIndptr.getD (i + 1) 0 →
        ¬ d.pairVal v m < d.pairVal v j) ∧
      (∀ j, d.aIndptr.getD i 0 ≤ j → j < m → d.pairVal v j < d.pairVal v m) := by
  have hs := maxIdxLoop_spec (d.vals v) _ _ hne
  simp only at hs
  obtain ⟨h1, h2, h3, h4⟩ := hs
  set lo := d.aIndptr.getD i 0 with hlo
  set hi' := d.aIndptr.getD (i + 1) 0 with hhi'
  set m := maxIdxLoop (d.vals v) lo (List.range' (lo + 1) (hi' - (lo + 1))) with hm
  have hidx : sWiseIdx d.aIndptr (d.vals v) i = some m := by
    simp only [sWiseIdx]
    rw [if_pos (by omega)]
  have hmL : m < d.R.length := by omega
  refine ⟨m, d.aInd.getD m 0, h1, h2, ?_, ?_, ?_, ?_, ?_⟩
  · simp [List.getD_eq_getElem?_getD, hA, hmL]
  · rw [SaDDP.bellman_fst_getElem? d v i hi, hidx]
    simp only [Option.map_some, Option.getD_some]
    rw [SaDDP.vals_getD d v m hmL (by omega)]
  · rw [SaDDP.bellman_snd_getElem? d v i hi, hidx]
    simp
  · intro j hj1 hj2
    have := h3 j hj1 hj2
    rwa [SaDDP.vals_getD d v m hmL (by omega), SaDDP.vals_getD d v j (by omega) (by omega)] at this
  · intro j hj1 hj2
    have := h4 j hj1 hj2
    rwa [SaDDP.vals_getD d v m hmL (by omega), SaDDP.vals_getD d v j (by omega) (by omega)] at this

end


theorem zipWith_getD {α β γ : Type} (f : α → β → γ) (l1 : List α) (l2 : List β) (b : Nat)
    (h1 : b < l1.length) (h2 : b < l2.length) (d1 : α) (d2 : β) (d : γ) :
    (List.zipWith f l1 l2).getD b d = f (l1.getD b d1) (l2.getD b d2) := by
  simp [List.getD_eq_getElem?_getD, List.getElem?_zipWith, List.getElem?_eq_getElem h1,
    List.getElem?_eq_getElem h2]

section
variable {K : Type} [Zero K] [Add K] [Mul K] [LinearOrder K]

/-- value of action `a` in state `s` (product form): `R[s,a] + beta * Q[s,a].dot(v)` -/
def ProdDDP.actVal (d : ProdDDP K) (v : List K) (s a : Nat) : Ext K :=
  qval d.beta ((d.R.getD s []).getD a .ninf) ((d.Q.getD s []).getD a []) v

theorem ProdDDP.vals_getElem? (d : ProdDDP K) (v : List K) (i : Nat) (hR : i < d.R.length)
    (hQ : i < d.Q.length) :
    (d.vals v)[i]? = some (List.zipWith (fun r q => qval d.beta r q v) (d.R.getD i []) (d.Q.getD i [])) := by
  simp [ProdDDP.vals, List.getD_eq_getElem?_getD, hR, hQ]

theorem prod_bellman_spec (d : ProdDDP K) (v : List K) (i : Nat) (hi : i < d.R.length)
    (hQl : d.Q.length = d.R.length) (m : Nat) (hm : 0 < m)
    (hRi : (d.R.getD i []).length = m) (hQi : (d.Q.getD i []).length = m) :
    ∃ a, a < m ∧ (d.bellman v).1[i]? = some (d.actVal v i a) ∧ (d.bellman v).2[i]? = some a ∧
      (∀ b, b < m → ¬ d.actVal v i a < d.actVal v i b) ∧
      (∀ b, b < a → d.actVal v i b < d.actVal v i a) := by
  have hv := ProdDDP.vals_getElem? d v i hi (by omega)
  unfold ProdDDP.actVal
  generalize d.R.getD i [] = Ri at *
  generalize d.Q.getD i [] = Qi at *
  set row := List.zipWith (fun r q => qval d.beta r q v) Ri Qi with hrow
  have hlen : row.length = m := by simp [hrow, hRi, hQi]
  have hget : ∀ b, b < m → row.getD b default = qval d.beta (Ri.getD b .ninf) (Qi.getD b []) v := by
    intro b hb
    exact zipWith_getD _ _ _ _ (by omega) (by omega) _ _ _
  have hs := maxIdxLoop_spec row 0 m hm
  simp only at hs
  obtain ⟨_, h2, h3, h4⟩ := hs
  have harg : argmaxRow row = maxIdxLoop row 0 (List.range' (0 + 1) (m - (0 + 1))) := by
    simp [argmaxRow, hlen]
  rw [← harg] at h2 h3 h4
  refine ⟨argmaxRow row, h2, ?_, ?_, ?_, ?_⟩
  · simp only [ProdDDP.bellman, List.unzip_eq_map, List.map_map, List.getElem?_map, hv]
    simp only [Option.map_some, Function.comp]
    rw [← hget _ h2]; rfl
  · simp only [ProdDDP.bellman, List.unzip_eq_map, List.map_map, List.getElem?_map, hv]
    simp [Function.comp]
  · intro b hb
    have := h3 b (Nat.zero_le _) hb
    rwa [hget _ h2, hget _ hb] at this
  · intro b hb
    have := h4 b (Nat.zero_le _) hb
    rwa [hget _ h2, hget _ (by omega)] at this

end
end QE.C09
