/-
  Lemmas for C18, part 8: `next_k_array` (model `QE.C16.nextKArray`) on a strictly increasing
  array: the result is strictly increasing and its rank in the combinatorial number system
  (`QE.C16.kArrayRank`) is one larger.  Used for the tournament game, whose player-1 actions
  are enumerated by iterating `next_k_array` from `(0, …, k-1)`.
-/
import Mathlib.Data.Nat.Choose.Basic
import Mathlib.Algebra.BigOperators.Group.Finset.Basic
import Mathlib.Algebra.BigOperators.Intervals
import Mathlib.Data.List.Range
import Mathlib.Logic.Function.Iterate
import Mathlib.Tactic.Linarith
import Mathlib.Tactic.Ring
import QEModel.C16
import QEProofs.Lemmas.C16Comb
namespace QE.C18
open QE.C16 Finset

/-- adjacent entries strictly increase -/
def Incr (a : List Nat) : Prop := ∀ j, j + 1 < a.length → a.getD j 0 < a.getD (j + 1) 0

theorem getD_set' (l : List Nat) (i j v : Nat) (hi : i < l.length) :
    (l.set i v).getD j 0 = if j = i then v else l.getD j 0 := by
  rw [List.getD_eq_getElem?_getD, List.getD_eq_getElem?_getD, List.getElem?_set]
  by_cases h : i = j
  · subst h; simp [hi]
  · have h' : ¬ j = i := fun e => h e.symm
    simp [h, h']

/-! ### the rank as a sum over positions -/

theorem kArrayRankAux_eq : ∀ (a : List Nat) (i : Nat),
    kArrayRankAux a i = ∑ j ∈ range a.length, Nat.choose (a.getD j 0) (i + j + 1)
  | [], i => by simp [kArrayRankAux]
  | x :: a, i => by
    rw [kArrayRankAux, kArrayRankAux_eq a (i + 1), chooseFast_eq_choose, List.length_cons,
      sum_range_succ']
    simp only [List.getD_cons_succ, List.getD_cons_zero, Nat.add_zero]
    rw [Nat.add_comm]
    congr 1
    apply sum_congr rfl
    intro j _
    congr 1; omega

theorem kArrayRank_eq (a : List Nat) :
    kArrayRank a = ∑ j ∈ range a.length, Nat.choose (a.getD j 0) (j + 1) := by
  unfold kArrayRank
  rw [kArrayRankAux_eq]
  apply sum_congr rfl
  intro j _; congr 1; omega

/-- hockey stick: `Σ_{j ≤ i} C(c + j, j + 1) + 1 = C(c + i + 1, i + 1)` -/
theorem hockey (c : Nat) : ∀ i, (∑ j ∈ range (i + 1), Nat.choose (c + j) (j + 1)) + 1 = Nat.choose (c + i + 1) (i + 1)
  | 0 => by simp
  | i + 1 => by
    rw [sum_range_succ, Nat.add_right_comm, hockey c i]
    rw [show c + (i + 1) + 1 = (c + i + 1) + 1 from by ring, Nat.choose_succ_succ (c + i + 1) (i + 1)]
    rw [show c + (i + 1) = c + i + 1 from by ring]

/-! ### the while loop -/

/-- Invariant/result of the `while` loop started at position `i` with `x = a[i] + 1`. -/
theorem nkLoop_spec (k : Nat) : ∀ (fuel : Nat) (a : List Nat) (i : Nat),
    a.length = k → i ≤ k - 1 → k - 1 - i ≤ fuel → 1 ≤ k →
    ∃ a' i', nkLoop k fuel a i (a.getD i 0 + 1) = (a', i', a.getD i' 0 + 1) ∧
      i ≤ i' ∧ i' ≤ k - 1 ∧ a'.length = k ∧
      (∀ j, i ≤ j → j < i' → a.getD j 0 + 1 = a.getD (j + 1) 0) ∧
      ¬ (i' < k - 1 ∧ a.getD i' 0 + 1 = a.getD (i' + 1) 0) ∧
      (∀ j, a'.getD j 0 = if i ≤ j ∧ j < i' then j else a.getD j 0)
  | 0, a, i, hlen, hi, hf, hk => by
    refine ⟨a, i, rfl, le_refl _, hi, hlen, by intro j h1 h2; omega, by omega, ?_⟩
    intro j
    have : ¬ (i ≤ j ∧ j < i) := by omega
    rw [if_neg this]
  | fuel + 1, a, i, hlen, hi, hf, hk => by
    unfold nkLoop
    by_cases hc : i < k - 1 ∧ a.getD i 0 + 1 = a.getD (i + 1) 0
    · rw [if_pos hc]
      simp only [Nat.add_sub_cancel]
      have hil : i < a.length := by omega
      have hx : (a.set i i).getD (i + 1) 0 = a.getD (i + 1) 0 := by
        rw [getD_set' _ _ _ _ hil, if_neg (by omega)]
      obtain ⟨a', i', he, h1, h2, h3, h4, h5, h6⟩ :=
        nkLoop_spec k fuel (a.set i i) (i + 1) (by simp [hlen]) (by omega) (by omega) hk
      have hget : ∀ j, i + 1 ≤ j → (a.set i i).getD j 0 = a.getD j 0 := by
        intro j hj; rw [getD_set' _ _ _ _ hil, if_neg (by omega)]
      refine ⟨a', i', ?_, by omega, h2, h3, ?_, ?_, ?_⟩
      · rw [he, hget i' h1]
      · intro j hj1 hj2
        by_cases hji : j = i
        · subst hji; exact hc.2
        · have := h4 j (by omega) hj2
          rwa [hget j (by omega), hget (j + 1) (by omega)] at this
      · rw [hget i' h1, hget (i' + 1) (by omega)] at h5; exact h5
      · intro j
        rw [h6 j, getD_set' _ _ _ _ hil]
        by_cases hji : j = i
        · subst hji
          have : ¬ (j + 1 ≤ j ∧ j < i') := by omega
          rw [if_neg this, if_pos rfl, if_pos ⟨le_refl _, by omega⟩]
        · rw [if_neg hji]
          by_cases hr : i + 1 ≤ j ∧ j < i'
          · rw [if_pos hr, if_pos ⟨by omega, hr.2⟩]
          · rw [if_neg hr, if_neg (by omega)]
    · rw [if_neg hc]
      refine ⟨a, i, rfl, le_refl _, hi, hlen, by intro j h1 h2; omega, hc, ?_⟩
      intro j
      have : ¬ (i ≤ j ∧ j < i) := by omega
      rw [if_neg this]

/-! ### next_k_array on an increasing array -/

/-- Pointwise description of `nextKArray a` for a strictly increasing `a` of length `k ≥ 1`:
    with `i` the end of the initial run of consecutive values, the result is
    `(0, 1, …, i-1, a[i]+1, a[i+1], …)`. -/
theorem nextKArray_desc (a : List Nat) (hk : 1 ≤ a.length) (hinc : Incr a) :
    ∃ i, i < a.length ∧ (∀ j, j < i → a.getD j 0 + 1 = a.getD (j + 1) 0) ∧
      (i + 1 < a.length → a.getD i 0 + 1 < a.getD (i + 1) 0) ∧
      (nextKArray a).length = a.length ∧
      ∀ j, (nextKArray a).getD j 0
        = if j < i then j else if j = i then a.getD i 0 + 1 else a.getD j 0 := by
  unfold nextKArray
  by_cases hb : a.length = 1 ∨ a.getD 0 0 + 1 < a.getD 1 0
  · simp only [hb, if_true]
    refine ⟨0, by omega, by intro j hj; omega, ?_, by simp, ?_⟩
    · intro h1
      rcases hb with h | h
      · omega
      · exact h
    · intro j
      rw [getD_set' _ _ _ _ (by omega)]
      have : ¬ j < 0 := by omega
      rw [if_neg this]
  · simp only [hb, if_false]
    have hk2 : 2 ≤ a.length := by omega
    have h01 : a.getD 0 0 + 1 = a.getD 1 0 := by
      have := hinc 0 (by omega)
      simp only [Nat.zero_add] at this
      omega
    have hl0 : (a.set 0 0).length = a.length := by simp
    have hget0 : ∀ j, (a.set 0 0).getD j 0 = if j = 0 then 0 else a.getD j 0 := by
      intro j; exact getD_set' _ _ _ _ (by omega)
    obtain ⟨a', i', he, h1, h2, h3, h4, h5, h6⟩ :=
      nkLoop_spec a.length a.length (a.set 0 0) 1 hl0 (by omega) (by omega) (by omega)
    rw [he]
    simp only
    have hi'0 : i' ≠ 0 := by omega
    refine ⟨i', by omega, ?_, ?_, by simp [h3], ?_⟩
    · intro j hj
      by_cases hj0 : j = 0
      · subst hj0; exact h01
      · have := h4 j (by omega) hj
        rwa [hget0 j, hget0 (j + 1), if_neg hj0, if_neg (by omega)] at this
    · intro hlt
      have hlt' := hinc i' hlt
      rw [hget0 i', hget0 (i' + 1), if_neg hi'0, if_neg (by omega)] at h5
      have : ¬ (a.getD i' 0 + 1 = a.getD (i' + 1) 0) := fun e => h5 ⟨by omega, e⟩
      omega
    · intro j
      rw [getD_set' _ _ _ _ (by omega), h6 j, hget0 j, hget0 i', if_neg hi'0]
      by_cases hji : j = i'
      · subst hji
        have : ¬ j < j := by omega
        rw [if_pos rfl, if_neg this, if_pos rfl]
      · rw [if_neg hji]
        by_cases hlt : j < i'
        · rw [if_pos hlt]
          by_cases hj0 : j = 0
          · subst hj0
            have : ¬ (1 ≤ 0 ∧ 0 < i') := by omega
            rw [if_neg this, if_pos rfl]
          · rw [if_pos ⟨by omega, hlt⟩]
        · rw [if_neg hlt, if_neg hji, if_neg (by omega), if_neg (by omega)]

/-- along the initial run the entries are `a[0] + j` -/
theorem run_values (a : List Nat) (i : Nat) (hrun : ∀ j, j < i → a.getD j 0 + 1 = a.getD (j + 1) 0) :
    ∀ j, j ≤ i → a.getD j 0 = a.getD 0 0 + j
  | 0, _ => by simp
  | j + 1, h => by
    rw [← hrun j (by omega), run_values a i hrun j (by omega)]; ring

/-- **Successor in the combinatorial number system.** For a strictly increasing array of length
    `k ≥ 1`, `next_k_array` returns a strictly increasing array of the same length whose rank
    `Σ_j C(a_j, j+1)` is exactly one larger. -/
theorem nextKArray_spec (a : List Nat) (hk : 1 ≤ a.length) (hinc : Incr a) :
    (nextKArray a).length = a.length ∧ Incr (nextKArray a) ∧
      kArrayRank (nextKArray a) = kArrayRank a + 1 := by
  obtain ⟨i, hi, hrun, hstop, hlen, hget⟩ := nextKArray_desc a hk hinc
  have hval := run_values a i hrun
  refine ⟨hlen, ?_, ?_⟩
  · intro j hj
    rw [hlen] at hj
    rw [hget j, hget (j + 1)]
    by_cases h1 : j + 1 < i
    · rw [if_pos (by omega), if_pos h1]; omega
    · rw [if_neg h1]
      by_cases h2 : j + 1 = i
      · rw [if_pos (by omega), if_pos h2]
        have := hval i (le_refl _); omega
      · rw [if_neg h2]
        by_cases h3 : j = i
        · subst h3
          have : ¬ j < j := by omega
          rw [if_neg this, if_pos rfl]
          exact hstop hj
        · rw [if_neg (by omega), if_neg h3]
          exact hinc j hj
  · rw [kArrayRank_eq, kArrayRank_eq, hlen,
      ← sum_range_add_sum_Ico (fun j => Nat.choose ((nextKArray a).getD j 0) (j + 1)) (show i + 1 ≤ a.length by omega),
      ← sum_range_add_sum_Ico (fun j => Nat.choose (a.getD j 0) (j + 1)) (show i + 1 ≤ a.length by omega)]
    have htail : ∑ j ∈ Ico (i + 1) a.length, Nat.choose ((nextKArray a).getD j 0) (j + 1)
        = ∑ j ∈ Ico (i + 1) a.length, Nat.choose (a.getD j 0) (j + 1) := by
      apply sum_congr rfl
      intro j hj
      have := (mem_Ico.1 hj).1
      rw [hget j, if_neg (by omega), if_neg (by omega)]
    have hhead_new : ∑ j ∈ range (i + 1), Nat.choose ((nextKArray a).getD j 0) (j + 1)
        = Nat.choose (a.getD 0 0 + i + 1) (i + 1) := by
      rw [sum_range_succ]
      have hz : ∑ j ∈ range i, Nat.choose ((nextKArray a).getD j 0) (j + 1) = 0 := by
        apply sum_eq_zero
        intro j hj
        have := mem_range.1 hj
        rw [hget j, if_pos this]
        exact Nat.choose_eq_zero_of_lt (by omega)
      have : ¬ i < i := by omega
      rw [hz, hget i, if_neg this, if_pos rfl, hval i (le_refl _), Nat.zero_add]
    have hhead_old : (∑ j ∈ range (i + 1), Nat.choose (a.getD j 0) (j + 1)) + 1
        = Nat.choose (a.getD 0 0 + i + 1) (i + 1) := by
      rw [← hockey (a.getD 0 0) i]
      congr 1
      apply sum_congr rfl
      intro j hj
      rw [hval j (by have := mem_range.1 hj; omega)]
    rw [htail, hhead_new, ← hhead_old]; ring

theorem incr_range (k : Nat) : Incr (List.range k) := by
  intro j hj
  simp only [List.length_range] at hj
  rw [List.getD_eq_getElem?_getD, List.getD_eq_getElem?_getD]
  simp [show j < k by omega, hj]

theorem kArrayRank_range (k : Nat) : kArrayRank (List.range k) = 0 := by
  rw [kArrayRank_eq]
  apply sum_eq_zero
  intro j hj
  have hj' : j < k := by simpa using hj
  rw [List.getD_eq_getElem?_getD]
  simp only [List.getElem?_range hj', Option.getD_some]
  exact Nat.choose_eq_zero_of_lt (by omega)

/-- **The walk.** The `j`-th array visited from `(0, …, k-1)` is strictly increasing, has length
    `k`, and has rank `j`. -/
theorem walk_spec (k : Nat) (hk : 1 ≤ k) : ∀ j,
    (nextKArray^[j] (List.range k)).length = k ∧ Incr (nextKArray^[j] (List.range k)) ∧
      kArrayRank (nextKArray^[j] (List.range k)) = j
  | 0 => by simp [incr_range, kArrayRank_range]
  | j + 1 => by
    obtain ⟨h1, h2, h3⟩ := walk_spec k hk j
    rw [Function.iterate_succ_apply']
    obtain ⟨g1, g2, g3⟩ := nextKArray_spec _ (by omega) h2
    exact ⟨by omega, g2, by omega⟩

/-! ### the combinatorial number system is injective on increasing arrays -/

/-- rank of the first `k` values of `f` -/
def R (f : Nat → Nat) (k : Nat) : Nat := ∑ j ∈ range k, Nat.choose (f j) (j + 1)

theorem R_lt (f : Nat → Nat) : ∀ k, 1 ≤ k → (∀ j, j + 1 < k → f j < f (j + 1)) →
    R f k < Nat.choose (f (k - 1) + 1) k
  | 0, h, _ => by omega
  | 1, _, _ => by simp [R]
  | k + 2, _, hinc => by
    have ih := R_lt f (k + 1) (by omega) (fun j hj => hinc j (by omega))
    unfold R at ih ⊢
    rw [sum_range_succ]
    simp only [Nat.add_sub_cancel] at ih ⊢
    have hstep : f k + 1 ≤ f (k + 1) := hinc k (by omega)
    have hmono : Nat.choose (f k + 1) (k + 1) ≤ Nat.choose (f (k + 1)) (k + 1) :=
      Nat.choose_le_choose _ hstep
    rw [show k + 2 - 1 = k + 1 from by omega, Nat.choose_succ_succ' (f (k + 1)) (k + 1)]
    omega

theorem R_ge (f : Nat → Nat) (k : Nat) (hk : 1 ≤ k) : Nat.choose (f (k - 1)) k ≤ R f k := by
  obtain ⟨k, rfl⟩ : ∃ k', k = k' + 1 := ⟨k - 1, by omega⟩
  unfold R
  rw [sum_range_succ]
  simp

theorem R_inj (f g : Nat → Nat) : ∀ k, (∀ j, j + 1 < k → f j < f (j + 1)) →
    (∀ j, j + 1 < k → g j < g (j + 1)) → R f k = R g k → ∀ j, j < k → f j = g j
  | 0, _, _, _ => by intro j hj; omega
  | k + 1, hf, hg, he => by
    have hlast : f k = g k := by
      rcases Nat.lt_trichotomy (f k) (g k) with h | h | h
      · exfalso
        have h1 := R_lt f (k + 1) (by omega) hf
        have h2 := R_ge g (k + 1) (by omega)
        simp only [Nat.add_sub_cancel] at h1 h2
        have := Nat.choose_le_choose (k + 1) (show f k + 1 ≤ g k from h)
        omega
      · exact h
      · exfalso
        have h1 := R_lt g (k + 1) (by omega) hg
        have h2 := R_ge f (k + 1) (by omega)
        simp only [Nat.add_sub_cancel] at h1 h2
        have := Nat.choose_le_choose (k + 1) (show g k + 1 ≤ f k from h)
        omega
    have he' : R f k = R g k := by
      unfold R at he ⊢
      rw [sum_range_succ, sum_range_succ, hlast] at he
      omega
    have ih := R_inj f g k (fun j hj => hf j (by omega)) (fun j hj => hg j (by omega)) he'
    intro j hj
    by_cases hjk : j = k
    · subst hjk; exact hlast
    · exact ih j (by omega)

theorem kArrayRank_eq_R (a : List Nat) : kArrayRank a = R (fun j => a.getD j 0) a.length :=
  kArrayRank_eq a

/-- two strictly increasing arrays of the same length with the same rank are equal -/
theorem kArrayRank_inj (a b : List Nat) (hl : a.length = b.length) (ha : Incr a) (hb : Incr b)
    (he : kArrayRank a = kArrayRank b) : a = b := by
  rw [kArrayRank_eq_R, kArrayRank_eq_R, ← hl] at he
  have := R_inj (fun j => a.getD j 0) (fun j => b.getD j 0) a.length ha (by rw [hl]; exact hb) he
  apply List.ext_getElem hl
  intro j h1 h2
  have hj := this j h1
  simp only [List.getD_eq_getElem?_getD] at hj
  simpa [h1, h2] using hj

/-- in an increasing array every entry is at most the last one -/
theorem incr_le_last (a : List Nat) (ha : Incr a) : ∀ d j, j + d < a.length →
    a.getD j 0 ≤ a.getD (j + d) 0
  | 0, j, _ => by simp
  | d + 1, j, h => by
    have h1 := incr_le_last a ha d j (by omega)
    have h2 := ha (j + d) (by omega)
    rw [show j + (d + 1) = j + d + 1 from by ring]
    omega

/-- rank bounds: `C(last, k) ≤ rank < C(last + 1, k)` -/
theorem kArrayRank_bounds (a : List Nat) (hk : 1 ≤ a.length) (ha : Incr a) :
    Nat.choose (a.getD (a.length - 1) 0) a.length ≤ kArrayRank a ∧
      kArrayRank a < Nat.choose (a.getD (a.length - 1) 0 + 1) a.length := by
  rw [kArrayRank_eq_R]
  exact ⟨R_ge (fun j => a.getD j 0) _ hk, R_lt (fun j => a.getD j 0) _ hk ha⟩

end QE.C18
