/-
  Lemmas for C20, part 7: N-player fictitious play — length of the tensor contraction
  `payoffVecN`, range of the best responses computed by `brsN`.
-/
import QEProofs.Lemmas.C20Br
import QEProofs.Lemmas.C20Fp
namespace QE.C20

section ring
variable {K : Type} [CommRing K] [LinearOrder K] [IsStrictOrderedRing K]

omit [LinearOrder K] [IsStrictOrderedRing K] in
/-- contracting the last axis of length `m > 0` of a flat tensor with `k·m` entries leaves `k` entries -/
theorem contractLast_length (x : List K) (hm : 0 < x.length) :
    ∀ (k fuel : Nat) (l : List K), l.length = k * x.length → k ≤ fuel →
      (contractLast x fuel l).length = k := by
  intro k
  induction k with
  | zero =>
    intro fuel l hl _
    have : l = [] := List.eq_nil_of_length_eq_zero (by simpa using hl)
    subst this
    cases fuel <;> simp [contractLast]
  | succ k ih =>
    intro fuel l hl hf
    cases fuel with
    | zero => omega
    | succ f =>
      have e : (k + 1) * x.length = k * x.length + x.length := Nat.succ_mul k _
      have hne : l ≠ [] := by
        intro h; rw [h, e] at hl; simp at hl; omega
      have hemp : l.isEmpty = false := by simpa using hne
      simp only [contractLast, hemp, Bool.false_eq_true, if_false, List.length_cons]
      rw [ih f (l.drop x.length) (by rw [List.length_drop, hl, e]; omega) (by omega)]

omit [LinearOrder K] [IsStrictOrderedRing K] in
/-- `Player.payoff_vector` returns one entry per own action when the payoff array has the shape
    (own actions) × (opponents' action counts) and every opponent has at least one action -/
theorem payoffVecN_length (flat : List K) (opps : List (List K)) (hpos : ∀ o ∈ opps, 0 < o.length) :
    ∀ n : Nat, flat.length = n * (opps.map List.length).prod → (payoffVecN flat opps).length = n := by
  induction opps with
  | nil => intro n h; simpa [payoffVecN] using h
  | cons o os ih =>
    intro n h
    have ho := hpos o (by simp)
    have hrec : (payoffVecN flat os).length = n * o.length :=
      ih (fun q hq => hpos q (List.mem_cons_of_mem _ hq)) (n * o.length)
        (by rw [h]; simp [Nat.mul_assoc])
    show (contractLast o (payoffVecN flat os).length (payoffVecN flat os)).length = n
    apply contractLast_length o ho n _ _ hrec
    rw [hrec]
    exact Nat.le_mul_of_pos_right n ho

/-- best response of an N-player `Player` is an own action -/
theorem brPickN_fst_lt (G : GameN K) (opps : List (List K)) (pert : Option (List K)) (ri : List Nat)
    (n : Nat) (hn : 0 < n) (hlen : (payoffVecN G.flat opps).length = n) :
    (brPickN G opps pert ri).1 < n := by
  unfold brPickN
  apply pick_fst_lt _ _ _ _ hn
  intro i hi
  have := brSet_lt _ _ _ hi
  have h2 := addPert_length_le (payoffVecN G.flat opps) pert
  omega

omit [CommRing K] [LinearOrder K] [IsStrictOrderedRing K] in
theorem rot_map_length (i : Nat) (xs : List (List K)) :
    (rot i xs).map List.length = rot i (xs.map List.length) := by
  simp [rot, List.map_drop, List.map_take]

/-- shape of the payoff arrays of players `i, i+1, …` (the suffix `rest` of the player list) -/
def ShapeFrom (nums : List Nat) (i : Nat) (rest : List (GameN K)) : Prop :=
  ∀ k (h : k < rest.length), rest[k].flat.length = nums.getD (i + k) 0 * (rot (i + k) nums).prod ∧
    0 < nums.getD (i + k) 0

/-- the best responses computed in the first loop of `_play` are own actions of the respective players -/
theorem brsN_range (nums : List Nat) (xs : List (List K)) (perts : List (Option (List K)))
    (hxs : xs.map List.length = nums) (hpos : ∀ m ∈ nums, 0 < m) :
    ∀ (rest : List (GameN K)) (i : Nat) (ri : List Nat), ShapeFrom nums i rest →
      (brsN xs perts i rest ri).1.length = rest.length ∧
      ∀ k (h : k < (brsN xs perts i rest ri).1.length), (brsN xs perts i rest ri).1[k] < nums.getD (i + k) 0 := by
  intro rest
  induction rest with
  | nil => intro i ri _; simp [brsN]
  | cons G rest ih =>
    intro i ri hsh
    have hrest : ShapeFrom nums (i + 1) rest := by
      intro k hk
      have := hsh (k + 1) (by simpa using hk)
      have e : i + (k + 1) = i + 1 + k := by omega
      simpa [e] using this
    obtain ⟨h1, h2⟩ := ih (i + 1) (brPickN G (rot i xs) (perts.getD i none) ri).2 hrest
    have hG := hsh 0 (by simp)
    simp only [Nat.add_zero, List.getElem_cons_zero] at hG
    have hopp : ∀ o ∈ rot i xs, 0 < o.length := by
      intro o ho
      have : o.length ∈ (rot i xs).map List.length := List.mem_map_of_mem ho
      rw [rot_map_length, hxs] at this
      have hm : o.length ∈ nums := by
        simp only [rot, List.mem_append] at this
        rcases this with h | h
        · exact List.mem_of_mem_drop h
        · exact List.mem_of_mem_take h
      exact hpos _ hm
    have hlen : (payoffVecN G.flat (rot i xs)).length = nums.getD i 0 :=
      payoffVecN_length G.flat (rot i xs) hopp _ (by rw [rot_map_length, hxs]; exact hG.1)
    have hb := brPickN_fst_lt G (rot i xs) (perts.getD i none) ri _ hG.2 hlen
    have hcons : (brsN xs perts i (G :: rest) ri).1 =
        (brPickN G (rot i xs) (perts.getD i none) ri).1 ::
          (brsN xs perts (i + 1) rest (brPickN G (rot i xs) (perts.getD i none) ri).2).1 := rfl
    refine ⟨by rw [hcons, List.length_cons, h1, List.length_cons], ?_⟩
    intro k hk
    simp only [hcons] at hk ⊢
    cases k with
    | zero => simpa using hb
    | succ k =>
      have := h2 k (by simpa using hk)
      have e : i + (k + 1) = i + 1 + k := by omega
      rw [e]; simpa using this

end ring
end QE.C20

namespace QE.C20
section smallest
variable {K : Type} [CommRing K] [LinearOrder K] [IsStrictOrderedRing K]

omit [IsStrictOrderedRing K] in
/-- with `tie_breaking='smallest'` the first loop of `_play` computes, for every player, the first
    element of the best-response set against the profile `xs`, and does not touch the stream -/
theorem brsN_smallest (xs : List (List K)) (perts : List (Option (List K))) :
    ∀ (rest : List (GameN K)) (i : Nat) (ri : List Nat), (∀ G ∈ rest, G.rnd = false) →
      (brsN xs perts i rest ri).2 = ri ∧ (brsN xs perts i rest ri).1.length = rest.length ∧
      ∀ k (h : k < (brsN xs perts i rest ri).1.length) (h' : k < rest.length),
        (brsN xs perts i rest ri).1[k] =
          (brSet (addPert (payoffVecN rest[k].flat (rot (i + k) xs)) (perts.getD (i + k) none)) rest[k].tol).headD 0 := by
  intro rest
  induction rest with
  | nil => intro i ri _; simp [brsN]
  | cons G rest ih =>
    intro i ri hr
    have hG : G.rnd = false := hr G (by simp)
    have hpick : brPickN G (rot i xs) (perts.getD i none) ri =
        ((brSet (addPert (payoffVecN G.flat (rot i xs)) (perts.getD i none)) G.tol).headD 0, ri) := by
      unfold brPickN; rw [hG, pick_smallest]
    obtain ⟨h1, h2, h3⟩ := ih (i + 1) ri (fun G' hG' => hr G' (List.mem_cons_of_mem _ hG'))
    have hcons : brsN xs perts i (G :: rest) ri =
        ((brSet (addPert (payoffVecN G.flat (rot i xs)) (perts.getD i none)) G.tol).headD 0 ::
          (brsN xs perts (i + 1) rest ri).1, (brsN xs perts (i + 1) rest ri).2) := by
      show (_, _) = _
      rw [hpick]
    refine ⟨by rw [hcons]; exact h1, by rw [hcons]; simp [h2], ?_⟩
    intro k hk hk'
    simp only [hcons] at hk ⊢
    cases k with
    | zero => simp
    | succ k =>
      have := h3 k (by simpa using hk) (by simpa using hk')
      have e : i + (k + 1) = i + 1 + k := by omega
      rw [e]; simpa using this

end smallest
end QE.C20

namespace QE.C20
section consistency
variable {K : Type} [CommRing K]

theorem contractLast_nil (x : List K) (fuel : Nat) : contractLast x fuel [] = [] := by
  cases fuel <;> simp [contractLast]

/-- contracting the flattened matrix `A` (rows of length `|x| > 0`) with `x` is `A · x` -/
theorem contractLast_flatten (x : List K) (hm : 0 < x.length) :
    ∀ (A : List (List K)) (fuel : Nat), (∀ r ∈ A, r.length = x.length) → A.length ≤ fuel →
      contractLast x fuel A.flatten = payoffVec A x := by
  intro A
  induction A with
  | nil => intro fuel _ _; simp [contractLast_nil, payoffVec]
  | cons r rs ih =>
    intro fuel hr hf
    cases fuel with
    | zero => simp at hf
    | succ f =>
      have hrl : r.length = x.length := hr r (by simp)
      have hne : (r ++ rs.flatten).isEmpty = false := by
        cases r with
        | nil => simp at hrl; omega
        | cons a t => simp
      have htake : (r ++ rs.flatten).take x.length = r := by rw [← hrl]; simp
      have hdrop : (r ++ rs.flatten).drop x.length = rs.flatten := by rw [← hrl]; simp
      simp only [List.flatten_cons, contractLast, hne, Bool.false_eq_true, if_false, htake, hdrop]
      rw [ih f (fun q hq => hr q (List.mem_cons_of_mem _ hq)) (by simpa using hf)]
      simp [payoffVec]

/-- **The two payoff-vector models agree**: for one opponent, the N-player tensor contraction on
    the flattened payoff matrix is the matrix–vector product of the 2-player model. -/
theorem payoffVecN_flatten (A : List (List K)) (x : List K) (hm : 0 < x.length)
    (hr : ∀ r ∈ A, r.length = x.length) : payoffVecN A.flatten [x] = payoffVec A x := by
  show contractLast x A.flatten.length A.flatten = payoffVec A x
  apply contractLast_flatten x hm A _ hr
  have : A.flatten.length = A.length * x.length := by
    clear hm
    induction A with
    | nil => simp
    | cons r rs ih =>
      have := ih (fun q hq => hr q (List.mem_cons_of_mem _ hq))
      simp [this, hr r (by simp), Nat.succ_mul]; omega
  rw [this]
  exact Nat.le_mul_of_pos_right _ hm

end consistency
end QE.C20
