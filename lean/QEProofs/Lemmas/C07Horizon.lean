/-
  C07 helper lemmas, part 4: the backward recursion keeps the value matrix symmetric and
  positive semidefinite, and returns the minimum of the T-period programme (induction on T).
-/
import QEProofs.Lemmas.C07Bridge
import QEProofs.Lemmas.C07Seq

set_option linter.unusedSectionVars false

namespace QE.C07
open QE QE.MatAlg QE.C06 Finset Matrix

section forms
variable {K : Type} [CommRing K] {n k : ℕ}

theorem qf_add (M1 M2 : Matrix (Fin n) (Fin n) K) (x : Fin n → K) : qf (M1 + M2) x = qf M1 x + qf M2 x := by
  simp [qf, Matrix.mul_add, Matrix.add_mul]

theorem qf_smul (c : K) (M1 : Matrix (Fin n) (Fin n) K) (x : Fin n → K) : qf (c • M1) x = c * qf M1 x := by
  simp [qf]

theorem qf_congr (B : Matrix (Fin n) (Fin k) K) (P : Matrix (Fin n) (Fin n) K) (w : Fin k → K) :
    qf (Bᵀ * (P * B)) w = qf P (B *ᵥ w) := by
  unfold qf
  rw [colM_mulVec, transpose_mul]
  simp only [Matrix.mul_assoc]

theorem bf_zero_right (u : Fin k → K) (N : Matrix (Fin k) (Fin n) K) : bf u N 0 = 0 := by
  simp [bf, colM_zero]

theorem stage_zero_state (R : Matrix (Fin n) (Fin n) K) (Q : Matrix (Fin k) (Fin k) K)
    (N : Matrix (Fin k) (Fin n) K) (u : Fin k → K) : stage R Q N 0 u = qf Q u := by
  simp [stage, qf_zero, bf_zero_right]

theorem newP_symm (R S3 : Matrix (Fin n) (Fin n) K) (S1 : Matrix (Fin k) (Fin k) K)
    (S2 F : Matrix (Fin k) (Fin n) K) (hR : Rᵀ = R) (hS3 : S3ᵀ = S3) (hS1 : S1ᵀ = S1) (hF : S1 * F = S2) :
    (R - S2ᵀ * F + S3)ᵀ = R - S2ᵀ * F + S3 := by
  have h : S2ᵀ * F = Fᵀ * S1 * F := by rw [← hF, transpose_mul, hS1]
  rw [h, transpose_add, transpose_sub, hR, hS3, transpose_mul, transpose_mul, transpose_transpose, hS1,
    Matrix.mul_assoc]

theorem S1_symm (Q : Matrix (Fin k) (Fin k) K) (P : Matrix (Fin n) (Fin n) K) (B : Matrix (Fin n) (Fin k) K)
    (β : K) (hQ : Qᵀ = Q) (hP : Pᵀ = P) : (Q + β • (Bᵀ * (P * B)))ᵀ = Q + β • (Bᵀ * (P * B)) := by
  rw [transpose_add, transpose_smul, transpose_mul, transpose_mul, transpose_transpose, hP, hQ, Matrix.mul_assoc]

theorem S3_symm (P A : Matrix (Fin n) (Fin n) K) (β : K) (hP : Pᵀ = P) :
    (β • (Aᵀ * (P * A)))ᵀ = β • (Aᵀ * (P * A)) := by
  rw [transpose_smul, transpose_mul, transpose_mul, transpose_transpose, hP, Matrix.mul_assoc]

end forms

section horizon
variable {K : Type} [Field K] [LinearOrder K] [IsStrictOrderedRing K] {n k j : ℕ}

/-- total discounted cost of the open-loop control sequence `us` from the state `x`:
    `Σ_t β^t (x_t'Rx_t + u_t'Qu_t + 2u_t'Nx_t) + β^T x_T' Rf x_T`, `x_{t+1} = A x_t + B u_t` -/
def cost (R A Rf : Matrix (Fin n) (Fin n) K) (Q : Matrix (Fin k) (Fin k) K) (N : Matrix (Fin k) (Fin n) K)
    (B : Matrix (Fin n) (Fin k) K) (β : K) : List (Fin k → K) → (Fin n → K) → K
  | [], x => qf Rf x
  | u :: r, x => stage R Q N x u + β * cost R A Rf Q N B β r (A *ᵥ x + B *ᵥ u)

/-- invariant of the recursion: shape, symmetry, positive semidefiniteness -/
structure GoodVal (v : Val K) (n : ℕ) : Prop where
  dim : Dim v.P n n
  symm : (toMat n n v.P)ᵀ = toMat n n v.P
  psd : ∀ x : Fin n → K, 0 ≤ qf (toMat n n v.P) x

variable {lq : LQ K}

theorem S1_psd (h : LQDim lq n k j) {v : Val K} (g : GoodVal v n) (hβ : 0 ≤ lq.beta)
    (hstage : ∀ x u, 0 ≤ stage (toMat n n lq.R) (toMat k k lq.Q) (toMat k n lq.N) x u)
    (w : Fin k → K) : 0 ≤ qf (toMat k k (lqS1 lq v.P)) w := by
  rw [lqS1_toMat h g.dim, qf_add, qf_smul, qf_congr]
  have h1 := hstage 0 w
  rw [stage_zero_state] at h1
  exact add_nonneg h1 (mul_nonneg hβ (g.psd _))

theorem goodVal_step (sol : M K → M K → Option (M K)) (hsol : SolSpec sol k) (h : LQDim lq n k j)
    (hQs : (toMat k k lq.Q)ᵀ = toMat k k lq.Q) (hRs : (toMat n n lq.R)ᵀ = toMat n n lq.R)
    (hβ : 0 ≤ lq.beta)
    (hstage : ∀ x u, 0 ≤ stage (toMat n n lq.R) (toMat k k lq.Q) (toMat k n lq.N) x u)
    {v v' : Val K} {F : M K} (g : GoodVal v n) (hu : lqUpdate sol lq v = some (F, v')) :
    GoodVal v' n := by
  obtain ⟨_, dP', hF, hP', _, _⟩ := lqUpdate_toMat sol hsol h g.dim hu
  refine ⟨dP', ?_, ?_⟩
  · rw [hP']
    apply newP_symm _ _ _ _ _ hRs _ _ hF
    · rw [lqS3_toMat h g.dim]; exact S3_symm _ _ _ g.symm
    · rw [lqS1_toMat h g.dim]; exact S1_symm _ _ _ _ hQs g.symm
  · intro x
    have := (lq_update_min_aux sol hsol h g hQs hu x)
    rw [this]
    exact add_nonneg (hstage _ _) (mul_nonneg hβ (g.psd _))
where
  lq_update_min_aux (sol : M K → M K → Option (M K)) (hsol : SolSpec sol k) (h : LQDim lq n k j)
      {v v' : Val K} {F : M K} (g : GoodVal v n) (hQs : (toMat k k lq.Q)ᵀ = toMat k k lq.Q)
      (hu : lqUpdate sol lq v = some (F, v')) (x : Fin n → K) :
      qf (toMat n n v'.P) x =
        stage (toMat n n lq.R) (toMat k k lq.Q) (toMat k n lq.N) x (-(toMat k n F *ᵥ x))
          + lq.beta * qf (toMat n n v.P)
              (toMat n n lq.A *ᵥ x + toMat n k lq.B *ᵥ (-(toMat k n F *ᵥ x))) := by
    obtain ⟨_, _, hF, hP', _, _⟩ := lqUpdate_toMat sol hsol h g.dim hu
    have e := complete_square_qf (toMat n n lq.A) (toMat n n v.P) (toMat n n lq.R) (toMat n k lq.B)
      (toMat k k lq.Q) _ (toMat k n lq.N) _ (toMat k n F) lq.beta x (-(toMat k n F *ᵥ x)) g.symm hQs
      (lqS1_toMat h g.dim) (lqS2_toMat h g.dim) hF
    have z : (-(toMat k n F *ᵥ x) + toMat k n F *ᵥ x) = 0 := by simp
    rw [z, qf_zero, add_zero] at e
    rw [e, hP', lqS3_toMat h g.dim]

/-- one step: completion of the square as an inequality and its equality case -/
theorem step_bound (sol : M K → M K → Option (M K)) (hsol : SolSpec sol k) (h : LQDim lq n k j)
    (hQs : (toMat k k lq.Q)ᵀ = toMat k k lq.Q) (hβ : 0 ≤ lq.beta)
    (hstage : ∀ x u, 0 ≤ stage (toMat n n lq.R) (toMat k k lq.Q) (toMat k n lq.N) x u)
    {v v' : Val K} {F : M K} (g : GoodVal v n) (hu : lqUpdate sol lq v = some (F, v'))
    (x : Fin n → K) (u : Fin k → K) :
    qf (toMat n n v'.P) x ≤
      stage (toMat n n lq.R) (toMat k k lq.Q) (toMat k n lq.N) x u
        + lq.beta * qf (toMat n n v.P) (toMat n n lq.A *ᵥ x + toMat n k lq.B *ᵥ u) := by
  obtain ⟨_, _, hF, hP', _, _⟩ := lqUpdate_toMat sol hsol h g.dim hu
  have e := complete_square_qf (toMat n n lq.A) (toMat n n v.P) (toMat n n lq.R) (toMat n k lq.B)
    (toMat k k lq.Q) _ (toMat k n lq.N) _ (toMat k n F) lq.beta x u g.symm hQs
    (lqS1_toMat h g.dim) (lqS2_toMat h g.dim) hF
  rw [e, hP', lqS3_toMat h g.dim]
  exact le_add_of_nonneg_right (S1_psd h g hβ hstage _)

/-- **Induction on the horizon.** -/
theorem horizon_induction (sol : M K → M K → Option (M K)) (hsol : SolSpec sol k) (h : LQDim lq n k j)
    (hQs : (toMat k k lq.Q)ᵀ = toMat k k lq.Q) (hRs : (toMat n n lq.R)ᵀ = toMat n n lq.R)
    (hβ : 0 ≤ lq.beta)
    (hstage : ∀ x u, 0 ≤ stage (toMat n n lq.R) (toMat k k lq.Q) (toMat k n lq.N) x u)
    (v0 : Val K) (g0 : GoodVal v0 n) :
    ∀ (T : ℕ) (vT : Val K), valAt sol lq v0 T = some vT →
      GoodVal vT n ∧
      (∀ (x : Fin n → K) (us : List (Fin k → K)), us.length = T →
        qf (toMat n n vT.P) x ≤ cost (toMat n n lq.R) (toMat n n lq.A) (toMat n n v0.P) (toMat k k lq.Q)
          (toMat k n lq.N) (toMat n k lq.B) lq.beta us x) ∧
      (∀ x : Fin n → K, ∃ us : List (Fin k → K), us.length = T ∧
        cost (toMat n n lq.R) (toMat n n lq.A) (toMat n n v0.P) (toMat k k lq.Q)
          (toMat k n lq.N) (toMat n k lq.B) lq.beta us x = qf (toMat n n vT.P) x) := by
  intro T
  induction T with
  | zero =>
    intro vT hv
    simp only [valAt, Option.some.injEq] at hv
    subst hv
    refine ⟨g0, ?_, ?_⟩
    · intro x us hus
      have : us = [] := List.eq_nil_of_length_eq_zero hus
      subst this
      exact le_refl _
    · intro x
      exact ⟨[], rfl, rfl⟩
  | succ T ih =>
    intro v' hv
    simp only [valAt] at hv
    cases hT : valAt sol lq v0 T with
    | none => rw [hT] at hv; cases hv
    | some vT =>
      rw [hT] at hv
      simp only [Option.bind_some, stepV] at hv
      cases hu : lqUpdate sol lq vT with
      | none => rw [hu] at hv; cases hv
      | some r =>
        obtain ⟨F, v1⟩ := r
        rw [hu] at hv
        simp only [Option.map_some, Option.some.injEq] at hv
        subst hv
        obtain ⟨g, hlow, hatt⟩ := ih vT hT
        refine ⟨goodVal_step sol hsol h hQs hRs hβ hstage g hu, ?_, ?_⟩
        · intro x us hus
          cases us with
          | nil => simp at hus
          | cons u r =>
            simp only [List.length_cons, Nat.add_right_cancel_iff] at hus
            have h1 := step_bound sol hsol h hQs hβ hstage g hu x u
            have h2 := hlow (toMat n n lq.A *ᵥ x + toMat n k lq.B *ᵥ u) r hus
            simp only [cost]
            have h3 := mul_le_mul_of_nonneg_left h2 hβ
            linarith
        · intro x
          obtain ⟨r, hr, hc⟩ := hatt (toMat n n lq.A *ᵥ x + toMat n k lq.B *ᵥ (-(toMat k n F *ᵥ x)))
          refine ⟨(-(toMat k n F *ᵥ x)) :: r, by simp [hr], ?_⟩
          simp only [cost]
          rw [hc]
          exact (goodVal_step.lq_update_min_aux sol hsol h g hQs hu x).symm

end horizon
end QE.C07
