/-
  C04 — the dual certificate: `get_solution`'s `lambd` (read from the artificial
  columns of the final criterion row, with the `b_signs` repair) is dual feasible
  and `b·λ = fun`; weak duality, so that a primal-dual pair with equal values
  certifies optimality of both.
-/
import QEProofs.Lemmas.C04Dual
namespace QE.C04
open QE QE.Pivot Finset

variable {K : Type} [Field K] [LinearOrder K] [IsStrictOrderedRing K]

/-- `λ` is feasible for the dual  min b·λ  s.t.  A_ubᵀλ_ub + A_eqᵀλ_eq ≥ c, λ_ub ≥ 0
    (`λ_i`, `i < m`, belongs to inequality row `i`; `λ_{m+i}` to equality row `i`) -/
def DualFeasible (P : LP K) (lam : ℕ → K) : Prop :=
  (∀ i, i < P.m → 0 ≤ lam i) ∧
  ∀ j, j < P.n → P.c j ≤ ∑ i ∈ range P.m, P.Aub i j * lam i + ∑ i ∈ range P.k, P.Aeq i j * lam (P.m + i)

/-- `b · λ` -/
def dualObjective (P : LP K) (lam : ℕ → K) : K :=
  ∑ i ∈ range P.m, P.bub i * lam i + ∑ i ∈ range P.k, P.beq i * lam (P.m + i)

/-- **weak duality**: every primal feasible value is at most every dual feasible value -/
theorem weak_duality (P : LP K) (x lam : ℕ → K) (hx : Feasible P x) (hl : DualFeasible P lam) :
    objective P x ≤ dualObjective P lam := by
  obtain ⟨hx0, hub, heq⟩ := hx
  obtain ⟨hl0, hdual⟩ := hl
  unfold objective dualObjective
  have h1 : ∑ j ∈ range P.n, P.c j * x j
      ≤ ∑ j ∈ range P.n, (∑ i ∈ range P.m, P.Aub i j * lam i + ∑ i ∈ range P.k, P.Aeq i j * lam (P.m + i)) * x j :=
    Finset.sum_le_sum (fun j hj =>
      mul_le_mul_of_nonneg_right (hdual j (Finset.mem_range.mp hj)) (hx0 j (Finset.mem_range.mp hj)))
  have h2 : ∑ j ∈ range P.n, (∑ i ∈ range P.m, P.Aub i j * lam i + ∑ i ∈ range P.k, P.Aeq i j * lam (P.m + i)) * x j
      = ∑ i ∈ range P.m, lam i * ∑ j ∈ range P.n, P.Aub i j * x j
        + ∑ i ∈ range P.k, lam (P.m + i) * ∑ j ∈ range P.n, P.Aeq i j * x j := by
    simp only [add_mul, Finset.sum_add_distrib, Finset.sum_mul, Finset.mul_sum]
    congr 1
    · rw [Finset.sum_comm]
      apply Finset.sum_congr rfl; intro i _
      apply Finset.sum_congr rfl; intro j _; ring
    · rw [Finset.sum_comm]
      apply Finset.sum_congr rfl; intro i _
      apply Finset.sum_congr rfl; intro j _; ring
  have h3 : ∑ i ∈ range P.m, lam i * ∑ j ∈ range P.n, P.Aub i j * x j ≤ ∑ i ∈ range P.m, P.bub i * lam i := by
    apply Finset.sum_le_sum
    intro i hi
    have := mul_le_mul_of_nonneg_left (hub i (Finset.mem_range.mp hi)) (hl0 i (Finset.mem_range.mp hi))
    linarith
  have h4 : ∑ i ∈ range P.k, lam (P.m + i) * ∑ j ∈ range P.n, P.Aeq i j * x j
      = ∑ i ∈ range P.k, P.beq i * lam (P.m + i) := by
    apply Finset.sum_congr rfl
    intro i hi
    rw [heq i (Finset.mem_range.mp hi)]; ring
  linarith

/-- what `get_solution` stores in `lambd[i]` -/
def lamFn (P : LP K) (T : M K) (i : ℕ) : K :=
  if (if i < P.m then 0 ≤ P.bub i else 0 ≤ P.beq (i - P.m))
  then - T.get (P.m + P.k) (P.n + P.m + i) else T.get (P.m + P.k) (P.n + P.m + i)

omit [IsStrictOrderedRing K] in
theorem getLambd_getD (P : LP K) (T : M K) (i : ℕ)
    (hs : Shape T (P.m + P.k) (P.n + P.m + (P.m + P.k))) (hi : i < P.m + P.k) :
    (getLambd T (bSigns P)).getD i 0 = lamFn P T i := by
  unfold getLambd lamFn
  have hL : T.nr - 1 = P.m + P.k := by rw [hs.1]; rfl
  have hcol : T.nc - (P.m + P.k) - 1 + i = P.n + P.m + i := by rw [hs.2]; omega
  simp only [hL]
  rw [List.getD_eq_getElem?_getD, List.getElem?_map, List.getElem?_range hi]
  simp only [Option.map_some, Option.getD_some, hcol]
  have hsg : (bSigns P).getD i false
      = (if i < P.m then decide (0 ≤ P.bub i) else decide (0 ≤ P.beq (i - P.m))) := by
    unfold bSigns
    rw [List.getD_eq_getElem?_getD, List.getElem?_map, List.getElem?_range hi]
    rfl
  rw [hsg]
  by_cases hv : T.get (P.m + P.k) (P.n + P.m + i) = 0
  · simp [hv]
  · have : (T.get (P.m + P.k) (P.n + P.m + i) == 0) = false := by simpa using hv
    simp only [this]
    by_cases him : i < P.m <;> simp [him]

/-- **dual certificate from the span of the criterion row** -/
theorem dual_of_critSpan (P : LP K) (T : M K)
    (hspan : CritSpan (initTableau P) T (P.m + P.k) (P.n + P.m + (P.m + P.k))
      (fun j => if j < P.n then P.c j else 0))
    (hopt : ∀ j, j < P.n + P.m → T.get (P.m + P.k) j ≤ 0) :
    DualFeasible P (lamFn P T) ∧
      dualObjective P (lamFn P T) = - T.get (P.m + P.k) (P.n + P.m + (P.m + P.k)) := by
  obtain ⟨w, hw⟩ := hspan
  set L := P.m + P.k with hL
  set N := P.n + P.m + (P.m + P.k) with hN
  -- sign of row i
  let sg : ℕ → K := fun i =>
    if (if i < P.m then 0 ≤ P.bub i else 0 ≤ P.beq (i - P.m)) then 1 else -1
  -- (a) the multipliers are read off the artificial columns
  have hwq : ∀ q, q < L → w q = - T.get L (P.n + P.m + q) := by
    intro q hq
    have := hw (P.n + P.m + q) (by omega)
    have hb : ¬ (P.n + P.m + q < P.n) := by omega
    simp only [if_neg hb, zero_sub] at this
    have hsum : ∑ i ∈ range L, w i * (initTableau P).get i (P.n + P.m + q) = w q := by
      have : ∀ i ∈ range L, w i * (initTableau P).get i (P.n + P.m + q) = if i = q then w i else 0 := by
        intro i hi
        rw [initTableau_get_row P i _ (Finset.mem_range.mp hi) (by omega), initEntry_art P i q hq]
        by_cases e : q = i
        · subst e; simp
        · have : ¬ i = q := fun e' => e e'.symm
          simp [e, this]
      rw [Finset.sum_congr rfl this, Finset.sum_ite_eq']
      simp [hq]
    rw [hsum] at this
    exact this.symm
  have hlam : ∀ i, i < L → lamFn P T i = sg i * w i := by
    intro i hi
    unfold lamFn
    simp only [sg]
    rw [hwq i hi]
    split_ifs <;> ring
  have hsg2 : ∀ i, sg i * sg i = 1 := by
    intro i; simp only [sg]; split_ifs <;> ring
  have hwl : ∀ i, i < L → w i = sg i * lamFn P T i := by
    intro i hi; rw [hlam i hi, ← mul_assoc, hsg2, one_mul]
  -- entries of the initial rows in terms of the signs
  have hstruct : ∀ i j, i < L → j < P.n → (initTableau P).get i j
      = sg i * (if i < P.m then P.Aub i j else P.Aeq (i - P.m) j) := by
    intro i j hi hj
    rw [initTableau_get_row P i j hi (by omega), initEntry_struct P i j hj]
    simp only [sg]
    by_cases him : i < P.m
    · simp only [if_pos him]
      by_cases hb : P.bub i < 0
      · rw [if_pos hb, if_neg (not_le.mpr hb)]; ring
      · rw [if_neg hb, if_pos (not_lt.mp hb)]; ring
    · simp only [if_neg him]
      by_cases hb : P.beq (i - P.m) < 0
      · rw [if_pos hb, if_neg (not_le.mpr hb)]; ring
      · rw [if_neg hb, if_pos (not_lt.mp hb)]; ring
  have hrhs : ∀ i, i < L → (initTableau P).get i N
      = sg i * (if i < P.m then P.bub i else P.beq (i - P.m)) := by
    intro i hi
    rw [initTableau_get_row P i N hi (by omega), initEntry_rhs P i]
    simp only [sg]
    by_cases him : i < P.m
    · simp only [if_pos him]
      by_cases hb : P.bub i < 0
      · rw [if_pos hb, if_neg (not_le.mpr hb)]; ring
      · rw [if_neg hb, if_pos (not_lt.mp hb)]; ring
    · simp only [if_neg him]
      by_cases hb : P.beq (i - P.m) < 0
      · rw [if_pos hb, if_neg (not_le.mpr hb)]; ring
      · rw [if_neg hb, if_pos (not_lt.mp hb)]; ring
  -- splitting a sum over the L = m + k rows
  have hsplit : ∀ f : ℕ → K, ∑ i ∈ range L, f i
      = ∑ i ∈ range P.m, f i + ∑ i ∈ range P.k, f (P.m + i) := fun f => Finset.sum_range_add f P.m P.k
  refine ⟨⟨?_, ?_⟩, ?_⟩
  · -- λ ≥ 0 on the inequality rows: slack columns
    intro q hq
    have := hw (P.n + q) (by omega)
    have hb : ¬ (P.n + q < P.n) := by omega
    simp only [if_neg hb, zero_sub] at this
    have hsum : ∑ i ∈ range L, w i * (initTableau P).get i (P.n + q) = lamFn P T q := by
      have : ∀ i ∈ range L, w i * (initTableau P).get i (P.n + q)
          = if i = q then w i * (if P.bub i < 0 then -1 else 1) else 0 := by
        intro i hi
        rw [initTableau_get_row P i _ (Finset.mem_range.mp hi) (by omega), initEntry_slack P i q hq]
        by_cases e : q = i
        · subst e; simp
        · have : ¬ i = q := fun e' => e e'.symm
          simp [e, this]
      rw [Finset.sum_congr rfl this, Finset.sum_ite_eq', if_pos (Finset.mem_range.mpr (by omega))]
      rw [hlam q (by omega)]
      simp only [sg, if_pos hq]
      by_cases hb : P.bub q < 0
      · rw [if_pos hb, if_neg (not_le.mpr hb)]; ring
      · rw [if_neg hb, if_pos (not_lt.mp hb)]; ring
    rw [hsum] at this
    have := hopt (P.n + q) (by omega)
    linarith
  · -- A'λ ≥ c : structural columns
    intro j hj
    have h1 := hw j (by omega)
    simp only [if_pos hj] at h1
    have hsum : ∑ i ∈ range L, w i * (initTableau P).get i j
        = ∑ i ∈ range P.m, P.Aub i j * lamFn P T i + ∑ i ∈ range P.k, P.Aeq i j * lamFn P T (P.m + i) := by
      have : ∀ i ∈ range L, w i * (initTableau P).get i j
          = (if i < P.m then P.Aub i j else P.Aeq (i - P.m) j) * lamFn P T i := by
        intro i hi
        have hi' := Finset.mem_range.mp hi
        rw [hstruct i j hi' hj, hwl i hi']
        have := hsg2 i
        linear_combination (lamFn P T i * (if i < P.m then P.Aub i j else P.Aeq (i - P.m) j)) * this
      rw [Finset.sum_congr rfl this, hsplit]
      congr 1
      · apply Finset.sum_congr rfl; intro i hi; rw [if_pos (Finset.mem_range.mp hi)]
      · apply Finset.sum_congr rfl; intro i _
        have : ¬ (P.m + i < P.m) := by omega
        rw [if_neg this]; congr 2; omega
    rw [hsum] at h1
    have := hopt j (by omega)
    linarith
  · -- b·λ = −T[L,N]
    have h1 := hw N (by omega)
    have hb : ¬ (N < P.n) := by omega
    simp only [if_neg hb, zero_sub] at h1
    have hsum : ∑ i ∈ range L, w i * (initTableau P).get i N = dualObjective P (lamFn P T) := by
      unfold dualObjective
      have : ∀ i ∈ range L, w i * (initTableau P).get i N
          = (if i < P.m then P.bub i else P.beq (i - P.m)) * lamFn P T i := by
        intro i hi
        have hi' := Finset.mem_range.mp hi
        rw [hrhs i hi', hwl i hi']
        have := hsg2 i
        linear_combination (lamFn P T i * (if i < P.m then P.bub i else P.beq (i - P.m))) * this
      rw [Finset.sum_congr rfl this, hsplit]
      congr 1
      · apply Finset.sum_congr rfl; intro i hi; rw [if_pos (Finset.mem_range.mp hi)]
      · apply Finset.sum_congr rfl; intro i _
        have : ¬ (P.m + i < P.m) := by omega
        rw [if_neg this]; congr 2; omega
    rw [hsum] at h1
    exact h1.symm

/-- **linprog_simplex, status 0 ⇒ `lambd` is a dual certificate** (exact arithmetic) -/
theorem linprog_dual_core (P : LP K) (fuel : ℕ) (h : (linprogSimplex P fuel tol0).status = 0) :
    let lam := fun i => (linprogSimplex P fuel (tol0 : Tol K)).lambd.getD i 0
    DualFeasible P lam ∧ (linprogSimplex P fuel (tol0 : Tol K)).fn = some (dualObjective P lam) := by
  intro lam
  obtain ⟨h1, h2⟩ := linprogSimplex_status0 P fuel tol0 h
  obtain ⟨_, _, hfn⟩ := linprogSimplex_of_phase1_ok P fuel tol0 h1
  obtain ⟨hinv, _, _, _⟩ := phase2_facts P fuel h1
  have hspan := phase2_critSpan P fuel h1
  set r2 := phase2Run P fuel (tol0 : Tol K) with hr2
  have hpc : pivotCol r2.T true (0 : K) = none := solveTableau_status0 (tol0 : Tol K) true _ _ _ h2
  have hL : r2.T.nr - 1 = P.m + P.k := by rw [hinv.shape.1]; rfl
  have hN : r2.T.nc - 1 = P.n + P.m + (P.m + P.k) := by rw [hinv.shape.2]; rfl
  have hopt : ∀ j, j < P.n + P.m → r2.T.get (P.m + P.k) j ≤ 0 := by
    intro j hj
    have := pivotCol_none r2.T true 0 hpc j
    rw [hL, hN] at this
    exact this (by simp only [if_true]; omega)
  obtain ⟨hd, hv⟩ := dual_of_critSpan P r2.T hspan hopt
  have hlam : ∀ i, i < P.m + P.k → lam i = lamFn P r2.T i := by
    intro i hi
    show (linprogSimplex P fuel (tol0 : Tol K)).lambd.getD i 0 = _
    have : (linprogSimplex P fuel (tol0 : Tol K)).lambd = getLambd r2.T (bSigns P) := by
      have hne : ¬ (solvePhase1 (tol0 : Tol K) fuel (initTableau P) (initBasis P)).status ≠ 0 := by simp [h1]
      unfold linprogSimplex
      simp only
      rw [if_neg hne]
      rfl
    rw [this]
    exact getLambd_getD P r2.T i hinv.shape hi
  constructor
  · refine ⟨fun i hi => by rw [hlam i (by omega)]; exact hd.1 i hi, ?_⟩
    intro j hj
    have := hd.2 j hj
    have e1 : ∑ i ∈ range P.m, P.Aub i j * lam i = ∑ i ∈ range P.m, P.Aub i j * lamFn P r2.T i :=
      Finset.sum_congr rfl (fun i hi => by rw [hlam i (by have := Finset.mem_range.mp hi; omega)])
    have e2 : ∑ i ∈ range P.k, P.Aeq i j * lam (P.m + i) = ∑ i ∈ range P.k, P.Aeq i j * lamFn P r2.T (P.m + i) :=
      Finset.sum_congr rfl (fun i hi => by rw [hlam (P.m + i) (by have := Finset.mem_range.mp hi; omega)])
    rw [e1, e2]; exact this
  · have e : dualObjective P lam = dualObjective P (lamFn P r2.T) := by
      unfold dualObjective
      congr 1
      · exact Finset.sum_congr rfl (fun i hi => by rw [hlam i (by have := Finset.mem_range.mp hi; omega)])
      · exact Finset.sum_congr rfl (fun i hi => by rw [hlam (P.m + i) (by have := Finset.mem_range.mp hi; omega)])
    rw [hfn, e, hv]
    unfold getFun
    rw [hL, hN]

end QE.C04
