/-
  Lemmas for C13, part 4: `estimate_mc` — sorted distinct values, inverse indices, counting.
-/
import Mathlib.Order.Basic
import Mathlib.Order.Defs.LinearOrder
import Mathlib.Data.List.Basic
import Mathlib.Data.List.Nodup
import Mathlib.Tactic.Linarith
import QEModel.C13
namespace QE.C13
open QE

section
variable {β : Type} [LinearOrder β]

theorem mem_insSorted (a b : β) (l : List β) : b ∈ insSorted a l ↔ b = a ∨ b ∈ l := by
  induction l with
  | nil => simp [insSorted]
  | cons c t ih =>
    unfold insSorted
    split_ifs with h1 h2
    · simp
    · simp only [List.mem_cons, ih]; tauto
    · have : a = c := le_antisymm (not_lt.mp h2) (not_lt.mp h1)
      subst this; simp

theorem pairwise_insSorted (a : β) (l : List β) (hl : l.Pairwise (· < ·)) :
    (insSorted a l).Pairwise (· < ·) := by
  induction l with
  | nil => simp [insSorted]
  | cons c t ih =>
    rw [List.pairwise_cons] at hl
    unfold insSorted
    split_ifs with h1 h2
    · rw [List.pairwise_cons]
      refine ⟨?_, List.pairwise_cons.mpr hl⟩
      intro b hb
      rcases List.mem_cons.mp hb with rfl | hb
      · exact h1
      · exact lt_trans h1 (hl.1 b hb)
    · rw [List.pairwise_cons]
      refine ⟨?_, ih hl.2⟩
      intro b hb
      rcases (mem_insSorted a b t).mp hb with rfl | hb
      · exact h2
      · exact hl.1 b hb
    · exact List.pairwise_cons.mpr hl

/-- `np.unique`: strictly increasing -/
theorem uniqueSorted_pairwise (X : List β) : (uniqueSorted X).Pairwise (· < ·) := by
  induction X with
  | nil => simp [uniqueSorted]
  | cons a t ih => exact pairwise_insSorted a _ ih

/-- `np.unique`: exactly the values that occur -/
theorem mem_uniqueSorted (X : List β) (b : β) : b ∈ uniqueSorted X ↔ b ∈ X := by
  induction X with
  | nil => simp [uniqueSorted]
  | cons a t ih =>
    show b ∈ insSorted a (uniqueSorted t) ↔ _
    rw [mem_insSorted, ih]; simp

/-- the inverse index points back at the value: `S[indexIn S a] = a` for `a ∈ S`, `S` increasing -/
theorem getElem?_indexIn (S : List β) (hS : S.Pairwise (· < ·)) (a : β) (ha : a ∈ S) :
    S[indexIn S a]? = some a := by
  induction S with
  | nil => simp at ha
  | cons c t ih =>
    rw [List.pairwise_cons] at hS
    unfold indexIn
    rcases List.mem_cons.mp ha with rfl | hat
    · have h0 : List.countP (fun b => decide (b < a)) (a :: t) = 0 := by
        rw [List.countP_eq_zero]
        intro b hb
        rcases List.mem_cons.mp hb with rfl | hb
        · simp
        · simp [not_lt.mpr (hS.1 b hb).le]
      rw [h0]; rfl
    · have hca : c < a := hS.1 a hat
      rw [List.countP_cons_of_pos (by simpa using hca)]
      have := ih hS.2 hat
      unfold indexIn at this
      rw [List.getElem?_cons_succ]; exact this

/-- the index of the `i`-th distinct value is `i` -/
theorem indexIn_getElem (S : List β) (hS : S.Pairwise (· < ·)) (i : ℕ) (hi : i < S.length) :
    indexIn S S[i] = i := by
  have h := getElem?_indexIn S hS S[i] (List.getElem_mem hi)
  have hnd : S.Nodup := hS.imp (fun h => ne_of_lt h)
  have hlt : indexIn S S[i] < S.length := by
    by_contra hc
    rw [List.getElem?_eq_none (by omega)] at h; simp at h
  rw [List.getElem?_eq_getElem hlt] at h
  exact (List.Nodup.getElem_inj_iff hnd).mp (Option.some.inj h)

end

/-! ### counting -/

theorem countLoop_spec (C : ℕ → ℕ → ℕ) (i0 : ℕ) (rest : List ℕ) (a b : ℕ) :
    countLoop C i0 rest a b = C a b + ((i0 :: rest).zip rest).countP (fun p => p = (a, b)) := by
  induction rest generalizing C i0 with
  | nil => simp [countLoop]
  | cons j t ih =>
    unfold countLoop
    rw [ih]
    simp only [bump, List.zip_cons_cons, List.countP_cons]
    by_cases h : a = i0 ∧ b = j
    · obtain ⟨rfl, rfl⟩ := h; simp; omega
    · have : ¬ ((i0, j) = (a, b)) := by
        intro he; apply h; simp only [Prod.mk.injEq] at he; exact ⟨he.1.symm, he.2.symm⟩
      simp [h, this]

/-- **`_count_transition_frequencies`**: entry `(a,b)` is the number of positions `t` with
    `idx[t] = a` and `idx[t+1] = b` -/
theorem countTransitions_spec (idx : List ℕ) (a b : ℕ) :
    countTransitions idx a b = (idx.zip idx.tail).countP (fun p => p = (a, b)) := by
  cases idx with
  | nil => simp [countTransitions]
  | cons i0 rest =>
    show countLoop (fun _ _ => 0) i0 rest a b = _
    rw [countLoop_spec]; simp

section
variable {β : Type} [LinearOrder β]

/-- for a value that occurs, "its inverse index is `i`" means "it is the `i`-th distinct value" -/
theorem indexIn_eq_iff (X : List β) (a : β) (ha : a ∈ X) (i : ℕ) (hi : i < (uniqueSorted X).length) :
    indexIn (uniqueSorted X) a = i ↔ a = (uniqueSorted X)[i] := by
  have hS := uniqueSorted_pairwise X
  constructor
  · intro h
    have h2 := getElem?_indexIn _ hS a ((mem_uniqueSorted X a).mpr ha)
    rw [h, List.getElem?_eq_getElem hi] at h2
    exact (Option.some.inj h2).symm
  · intro h
    rw [h]; exact indexIn_getElem _ hS i hi

/-- transitions between inverse indices = transitions between the values they stand for -/
theorem count_pairs_index (X : List β) (i j : ℕ) (hi : i < (uniqueSorted X).length)
    (hj : j < (uniqueSorted X).length) :
    (((X.map (indexIn (uniqueSorted X))).zip (X.map (indexIn (uniqueSorted X))).tail).countP
        (fun p => p = (i, j)))
      = (X.zip X.tail).countP (fun p => p = ((uniqueSorted X)[i], (uniqueSorted X)[j])) := by
  rw [← List.map_tail, List.zip_map, List.countP_map]
  apply List.countP_congr
  intro pr hpr
  obtain ⟨a, b⟩ := pr
  have hab := List.of_mem_zip hpr
  have ha : a ∈ X := hab.1
  have hb : b ∈ X := List.mem_of_mem_tail hab.2
  simp only [Function.comp, Prod.map_apply, Prod.mk.injEq, decide_eq_true_eq]
  rw [indexIn_eq_iff X a ha i hi, indexIn_eq_iff X b hb j hj]

end

/-! ### the materialised counter and the normalisation -/

theorem getD_map_range {γ : Type} (n : ℕ) (f : ℕ → γ) (i : ℕ) (hi : i < n) (d : γ) :
    ((List.range n).map f).getD i d = f i := by
  rw [List.getD_eq_getElem?_getD, List.getElem?_map, List.getElem?_range hi]; rfl

section
variable {β : Type} [LT β] [DecidableLT β]

theorem estimateCounts_states (X : List β) : (estimateCounts X).states = uniqueSorted X := rfl

theorem estimateCounts_idx (X : List β) :
    (estimateCounts X).idx = X.map (indexIn (uniqueSorted X)) := rfl

theorem estimateCounts_counts (X : List β) :
    (estimateCounts X).counts = (List.range (uniqueSorted X).length).map fun i =>
      (List.range (uniqueSorted X).length).map fun j =>
        countTransitions (X.map (indexIn (uniqueSorted X))) i j := rfl

theorem estimateCounts_counts_getD (X : List β) (i j : ℕ) (hi : i < (uniqueSorted X).length)
    (hj : j < (uniqueSorted X).length) :
    ((estimateCounts X).counts.getD i []).getD j 0
      = countTransitions (X.map (indexIn (uniqueSorted X))) i j := by
  rw [estimateCounts_counts, getD_map_range _ _ i hi, getD_map_range _ _ j hj]

theorem estimateCounts_totals (X : List β) :
    (estimateCounts X).totals = (List.range (uniqueSorted X).length).map fun i =>
      ((List.range (uniqueSorted X).length).map fun j =>
        ((estimateCounts X).counts.getD i []).getD j 0).sum := rfl

end

section
variable {K : Type} [Field K]

theorem estimateP_some (counts : List (List ℕ)) (totals : List ℕ) (P : List (List K))
    (h : estimateP counts totals = some P) :
    (∀ t ∈ totals, t ≠ 0) ∧
      P = (counts.zip totals).map (fun rt : List ℕ × ℕ => rt.1.map fun c : ℕ => (c : K) / (rt.2 : K)) := by
  unfold estimateP at h
  split at h
  · simp at h
  · rename_i hany
    simp only [Option.some.injEq] at h
    refine ⟨?_, h.symm⟩
    intro t ht h0
    apply hany
    rw [List.any_eq_true]
    exact ⟨t, ht, by simp [h0]⟩

/-- entries of the normalised matrix when counts and totals are tabulated over `range n` -/
theorem estimateP_tab (n : ℕ) (C : ℕ → ℕ → ℕ) (tot : ℕ → ℕ) (P : List (List K))
    (h : estimateP ((List.range n).map fun i => (List.range n).map fun j => C i j)
          ((List.range n).map tot) = some P) :
    P.length = n ∧ ∀ i, i < n → tot i ≠ 0 ∧ (P.getD i []).length = n ∧
      ∀ j, j < n → (P.getD i []).getD j 0 = (C i j : K) / (tot i : K) := by
  obtain ⟨hne, rfl⟩ := estimateP_some _ _ P h
  rw [List.zip_map', List.map_map]
  refine ⟨by simp, ?_⟩
  intro i hi
  refine ⟨hne (tot i) (List.mem_map.mpr ⟨i, List.mem_range.mpr hi, rfl⟩), ?_, ?_⟩
  · rw [getD_map_range _ _ i hi]; simp
  · intro j hj
    rw [getD_map_range _ _ i hi]
    simp only [Function.comp]
    rw [List.map_map, getD_map_range _ _ j hj]
    rfl

end

/-! ### specification-level counts -/

/-- number of transitions `a → b` in the series `X` (positions `t` with `X[t] = a`, `X[t+1] = b`) -/
def transCount {β : Type} [DecidableEq β] (X : List β) (a b : β) : ℕ :=
  (X.zip X.tail).countP (fun p => p = (a, b))

section
variable {β : Type} [LinearOrder β]

theorem counts_getD_eq (X : List β) (i j : ℕ) (hi : i < (uniqueSorted X).length)
    (hj : j < (uniqueSorted X).length) :
    ((estimateCounts X).counts.getD i []).getD j 0
      = transCount X (uniqueSorted X)[i] (uniqueSorted X)[j] := by
  rw [estimateCounts_counts_getD X i j hi hj, countTransitions_spec, count_pairs_index X i j hi hj]
  rfl

/-- the row total `P.sum(1)[i]` is the number of transitions out of the `i`-th value into any
    observed value -/
theorem rowTotal_eq (X : List β) (i : ℕ) (hi : i < (uniqueSorted X).length) :
    ((List.range (uniqueSorted X).length).map fun j =>
        ((estimateCounts X).counts.getD i []).getD j 0).sum
      = ((uniqueSorted X).map (transCount X (uniqueSorted X)[i])).sum := by
  congr 1
  apply List.ext_getElem
  · simp
  · intro k h1 h2
    have hk : k < (uniqueSorted X).length := by simpa using h1
    simp only [List.getElem_map, List.getElem_range]
    exact counts_getD_eq X i k hi hk

end

theorem sum_map_div {K : Type} [Field K] (l : List ℕ) (f : ℕ → K) (c : K) :
    (l.map fun j => f j / c).sum = (l.map f).sum / c := by
  induction l with
  | nil => simp
  | cons a t ih => simp only [List.map_cons, List.sum_cons, ih, add_div]

theorem list_eq_map_range {K : Type} [Zero K] (l : List K) (n : ℕ) (hl : l.length = n) (f : ℕ → K)
    (h : ∀ j, j < n → l.getD j 0 = f j) : l = (List.range n).map f := by
  apply List.ext_getElem
  · simp [hl]
  · intro k h1 h2
    have hk : k < n := by omega
    have := h k hk
    rw [List.getD_eq_getElem?_getD, List.getElem?_eq_getElem h1] at this
    simp only [Option.getD_some] at this
    simp [this]

section
variable {β : Type} [LinearOrder β]

theorem transCount_eq_zero_of_not_mem (X : List β) (a b : β) (hb : b ∉ X) : transCount X a b = 0 := by
  unfold transCount
  rw [List.countP_eq_zero]
  intro pr hpr
  obtain ⟨c, d⟩ := pr
  have hd : d ∈ X := List.mem_of_mem_tail (List.of_mem_zip hpr).2
  simp only [Prod.mk.injEq, decide_eq_true_eq, not_and]
  intro _ hdb
  exact hb (hdb ▸ hd)

theorem estimateP_none_iff {K : Type} [Field K] (counts : List (List ℕ)) (totals : List ℕ) :
    estimateP (α := K) counts totals = none ↔ ∃ t ∈ totals, t = 0 := by
  unfold estimateP
  split
  · rename_i h
    rw [List.any_eq_true] at h
    obtain ⟨t, ht, h0⟩ := h
    simp only [true_iff]
    exact ⟨t, ht, by simpa using h0⟩
  · rename_i h
    simp only [reduceCtorEq, false_iff]
    rintro ⟨t, ht, h0⟩
    apply h
    rw [List.any_eq_true]
    exact ⟨t, ht, by simp [h0]⟩

/-- **The `ValueError` of `estimate_mc`** is raised exactly when some observed value is never
    left (no transition out of it occurs in the series). -/
theorem estimateMc_none_iff {K : Type} [Field K] (X : List β) :
    estimateMc (α := K) X = none ↔ ∃ a ∈ X, ∀ b, transCount X a b = 0 := by
  have h1 : estimateMc (α := K) X = none ↔
      estimateP (α := K) (estimateCounts X).counts (estimateCounts X).totals = none := by
    unfold estimateMc
    simp only []
    split <;> simp_all
  rw [h1, estimateP_none_iff, estimateCounts_totals]
  constructor
  · rintro ⟨t, ht, h0⟩
    obtain ⟨i, hi, rfl⟩ := List.mem_map.mp ht
    have hi' : i < (uniqueSorted X).length := List.mem_range.mp hi
    rw [rowTotal_eq X i hi', List.sum_eq_zero_iff_forall_eq_nat] at h0
    refine ⟨(uniqueSorted X)[i], (mem_uniqueSorted X _).mp (List.getElem_mem hi'), ?_⟩
    intro b
    by_cases hb : b ∈ X
    · exact h0 _ (List.mem_map.mpr ⟨b, (mem_uniqueSorted X b).mpr hb, rfl⟩)
    · exact transCount_eq_zero_of_not_mem X _ b hb
  · rintro ⟨a, ha, hz⟩
    obtain ⟨i, hi, rfl⟩ := List.getElem_of_mem ((mem_uniqueSorted X a).mpr ha)
    refine ⟨_, List.mem_map.mpr ⟨i, List.mem_range.mpr hi, rfl⟩, ?_⟩
    rw [rowTotal_eq X i hi, List.sum_eq_zero_iff_forall_eq_nat]
    intro c hc
    obtain ⟨b, _, rfl⟩ := List.mem_map.mp hc
    exact hz b

end

end QE.C13
