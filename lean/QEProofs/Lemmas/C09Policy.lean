/-
  Lemmas for C09, part 4: `_find_indices` / `RQ_sigma`, linearity of `dot`,
  rows of `I - beta Q_sigma`.
-/
import Mathlib.Tactic.Ring
import Mathlib.Algebra.BigOperators.Group.Finset.Basic
import Mathlib.Tactic.SplitIfs
import Mathlib.Algebra.Field.Defs
import QEProofs.Lemmas.C09Bellman
namespace QE.C09
set_option linter.unusedSectionVars false


theorem mapM_id_eq_some {β : Type} : ∀ (l : List (Option β)) (idx : List β),
    l.mapM (fun o => o) = some idx → l = idx.map some := by
  intro l
  induction l with
  | nil => intro idx h; simp at h; subst h; rfl
  | cons x xs ih =>
    intro idx h
    cases x with
    | none => simp at h
    | some a =>
      simp only [List.mapM_cons] at h
      cases hxs : xs.mapM (fun o => o) with
      | none => simp [hxs] at h
      | some t =>
        simp [hxs] at h
        subst h
        simp [ih t hxs]

/-- the scan of `_find_indices` for one state: a hit lies in the scanned range and carries
    the requested action; if some index of the range carries it, there is a hit -/
theorem findLoop_some (p : Nat → Prop) [DecidablePred p] : ∀ (js : List Nat) (init : Option Nat) (j : Nat),
    js.foldl (fun out j => if p j then some j else out) init = some j →
    (j ∈ js ∧ p j) ∨ init = some j := by
  intro js
  induction js with
  | nil => intro init j h; exact Or.inr h
  | cons x xs ih =>
    intro init j h
    simp only [List.foldl_cons] at h
    rcases ih _ _ h with ⟨hm, hp⟩ | h2
    · exact Or.inl ⟨List.mem_cons_of_mem _ hm, hp⟩
    · by_cases hx : p x
      · rw [if_pos hx] at h2
        have : x = j := by simpa using h2
        subst this
        exact Or.inl ⟨List.mem_cons_self, hx⟩
      · rw [if_neg hx] at h2; exact Or.inr h2

theorem findLoop_isSome (p : Nat → Prop) [DecidablePred p] : ∀ (js : List Nat) (init : Option Nat),
    (init.isSome = true ∨ ∃ j, j ∈ js ∧ p j) →
    (js.foldl (fun out j => if p j then some j else out) init).isSome = true := by
  intro js
  induction js with
  | nil => intro init h; rcases h with h | ⟨j, hj, _⟩
           · exact h
           · simp at hj
  | cons x xs ih =>
    intro init h
    simp only [List.foldl_cons]
    apply ih
    by_cases hx : p x
    · left; simp [hx]
    · rcases h with h | ⟨j, hj, hp⟩
      · left; simp [hx, h]
      · rcases List.mem_cons.mp hj with rfl | hj'
        · exact absurd hp hx
        · right; exact ⟨j, hj', hp⟩

theorem findIndex_some (aInd aIndptr : List Nat) (i act j : Nat)
    (h : findIndex aInd aIndptr i act = some j) :
    aIndptr.getD i 0 ≤ j ∧ j < aIndptr.getD (i + 1) 0 ∧ aInd[j]? = some act := by
  unfold findIndex at h
  rcases findLoop_some (fun j => aInd[j]? = some act) _ _ _ h with ⟨hm, hp⟩ | h2
  · rw [List.mem_range'_1] at hm
    exact ⟨hm.1, by omega, hp⟩
  · simp at h2

theorem findIndex_isSome (aInd aIndptr : List Nat) (i act j : Nat)
    (h1 : aIndptr.getD i 0 ≤ j) (h2 : j < aIndptr.getD (i + 1) 0) (h3 : aInd[j]? = some act) :
    (findIndex aInd aIndptr i act).isSome = true := by
  unfold findIndex
  apply findLoop_isSome (fun j => aInd[j]? = some act)
  right
  exact ⟨j, by rw [List.mem_range'_1]; omega, h3⟩

section
variable {K : Type}

/-- **RQ_sigma / controlled_mc, SA-pair form**: whenever the model returns rows at all
    (i.e. every `σ[i]` is an action of state `i`), row `i` of `R_σ`/`Q_σ` is the reward /
    transition row of a pair `j` in the block of state `i` whose action is `σ[i]`. -/
theorem sa_rqSigma_rows (d : SaDDP K) (sigma : List Nat) (hs : sigma.length = d.n)
    (R' : List (Ext K)) (Q' : List (List K)) (h : d.rqSigma sigma = some (R', Q')) :
    R'.length = d.n ∧ Q'.length = d.n ∧
    ∀ i, i < d.n → ∃ j, d.aIndptr.getD i 0 ≤ j ∧ j < d.aIndptr.getD (i + 1) 0 ∧
      d.aInd[j]? = some (sigma.getD i 0) ∧
      R'[i]? = some (d.R.getD j .ninf) ∧ Q'[i]? = some (d.Q.getD j []) := by
  unfold SaDDP.rqSigma at h
  have ht : sigma.take d.n = sigma := by rw [← hs]; exact List.take_length
  rw [ht] at h
  cases hm : (findIndices d.aInd d.aIndptr sigma).mapM (fun o => o) with
  | none => simp [hm] at h
  | some idx =>
    simp only [hm, Option.map_some, Option.some.injEq, Prod.mk.injEq] at h
    obtain ⟨rfl, rfl⟩ := h
    have hfi := mapM_id_eq_some _ _ hm
    have hlen : idx.length = d.n := by
      have := congrArg List.length hfi
      simp [findIndices] at this
      omega
    refine ⟨by simp [gather, hlen], by simp [gather, hlen], ?_⟩
    intro i hi
    have hi' : i < idx.length := by omega
    have hfi_i : findIndex d.aInd d.aIndptr i (sigma.getD i 0) = some idx[i] := by
      have := congrArg (fun l => l[i]?) hfi
      simp only [findIndices] at this
      rw [List.getElem?_map, List.getElem?_map] at this
      rw [List.getElem?_range (by omega)] at this
      simpa [List.getElem?_eq_getElem hi'] using this
    obtain ⟨h1, h2, h3⟩ := findIndex_some _ _ _ _ _ hfi_i
    refine ⟨idx[i], h1, h2, h3, ?_, ?_⟩
    · simp [gather, List.getElem?_map, List.getElem?_eq_getElem hi']
    · simp [gather, List.getElem?_map, List.getElem?_eq_getElem hi']

/-- conversely the model returns rows for every policy that picks an available action -/
theorem sa_rqSigma_isSome (d : SaDDP K) (sigma : List Nat) (hs : sigma.length = d.n)
    (hfeas : ∀ i, i < d.n → ∃ j, d.aIndptr.getD i 0 ≤ j ∧ j < d.aIndptr.getD (i + 1) 0 ∧
      d.aInd[j]? = some (sigma.getD i 0)) :
    (d.rqSigma sigma).isSome = true := by
  unfold SaDDP.rqSigma
  have ht : sigma.take d.n = sigma := by rw [← hs]; exact List.take_length
  rw [ht]
  have : ∃ idx : List Nat, findIndices d.aInd d.aIndptr sigma = idx.map some := by
    refine ⟨(List.range sigma.length).map fun i =>
      (findIndex d.aInd d.aIndptr i (sigma.getD i 0)).getD 0, ?_⟩
    simp only [findIndices, List.map_map]
    apply List.map_congr_left
    intro i hi
    rw [List.mem_range] at hi
    obtain ⟨j, h1, h2, h3⟩ := hfeas i (by omega)
    have := findIndex_isSome _ _ _ _ _ h1 h2 h3
    show _ = some ((findIndex d.aInd d.aIndptr i (sigma.getD i 0)).getD 0)
    cases hf : findIndex d.aInd d.aIndptr i (sigma.getD i 0) with
    | none => rw [hf] at this; simp at this
    | some x => rfl
  obtain ⟨idx, hidx⟩ := this
  rw [hidx]
  have : (idx.map some).mapM (fun o => o) = some idx := by
    clear hidx
    induction idx with
    | nil => simp
    | cons x xs ih => simp [List.mapM_cons, ih]
  simp [this]

/-- **RQ_sigma / controlled_mc, product form**: for a policy of length `n` with actions `< m`
    row `i` is `R[i, σ[i]]` / `Q[i, σ[i], :]`. -/
theorem prod_rqSigma_rows (d : ProdDDP K) (sigma : List Nat)
    (R' : List (Ext K)) (Q' : List (List K)) (h : d.rqSigma sigma = some (R', Q')) :
    sigma.length = d.n ∧ (∀ a ∈ sigma, a < d.m) ∧ R'.length = d.n ∧ Q'.length = d.n ∧
    ∀ i, i < d.n →
      R'[i]? = some ((d.R.getD i []).getD (sigma.getD i 0) .ninf) ∧
      Q'[i]? = some ((d.Q.getD i []).getD (sigma.getD i 0) []) := by
  unfold ProdDDP.rqSigma at h
  split at h
  · rename_i hc
    simp only [Option.some.injEq, Prod.mk.injEq] at h
    obtain ⟨rfl, rfl⟩ := h
    refine ⟨hc.1, ?_, by simp, by simp, ?_⟩
    · have := hc.2
      simpa using this
    · intro i hi
      simp [List.getElem?_map, List.getElem?_range hi]
  · simp at h

end


section
variable {K : Type} [CommRing K]

@[simp] theorem dot_nil_left (v : List K) : dot ([] : List K) v = 0 := by
  cases v <;> rfl
@[simp] theorem dot_nil_right (q : List K) : dot q ([] : List K) = 0 := by
  cases q <;> rfl
@[simp] theorem dot_cons (a b : K) (as bs : List K) : dot (a :: as) (b :: bs) = a * b + dot as bs := rfl

/-- `q · (v + w) = q·v + q·w` -/
theorem dot_add_right : ∀ (q v w : List K), v.length = w.length →
    dot q (List.zipWith (· + ·) v w) = dot q v + dot q w := by
  intro q
  induction q with
  | nil => intro v w _; simp
  | cons a as ih =>
    intro v w h
    cases v with
    | nil => cases w with
      | nil => simp
      | cons _ _ => simp at h
    | cons b bs => cases w with
      | nil => simp at h
      | cons c cs =>
        simp only [List.length_cons, Nat.add_right_cancel_iff] at h
        simp only [List.zipWith_cons_cons, dot_cons, ih bs cs h]
        ring

/-- `q · (c v) = c (q·v)` -/
theorem dot_smul_right (c : K) : ∀ (q v : List K), dot q (v.map (c * ·)) = c * dot q v := by
  intro q
  induction q with
  | nil => intro v; simp
  | cons a as ih =>
    intro v
    cases v with
    | nil => simp
    | cons b bs => simp only [List.map_cons, dot_cons, ih bs]; ring

/-- row `i` of `I - β Q` dotted with `x` (general offset form) -/
theorem dot_policyRow_aux (beta : K) (i : Nat) : ∀ (row x : List K) (o : Nat), row.length = x.length →
    dot (row.mapIdx fun j q => (if i = j + o then (1 : K) else 0) - beta * q) x
      = (if o ≤ i ∧ i < o + row.length then x.getD (i - o) 0 else 0) - beta * dot row x := by
  intro row
  induction row with
  | nil => intro x o h; simp
  | cons r rs ih =>
    intro x o h
    cases x with
    | nil => simp at h
    | cons y ys =>
      simp only [List.length_cons, Nat.add_right_cancel_iff] at h
      rw [List.mapIdx_cons]
      have hf : (fun (j : Nat) (q : K) => (if i = j + 1 + o then (1 : K) else 0) - beta * q)
          = (fun (j : Nat) (q : K) => (if i = j + (o + 1) then (1 : K) else 0) - beta * q) := by
        funext j q
        have e : j + 1 + o = j + (o + 1) := by omega
        rw [e]
      rw [dot_cons, hf, ih ys (o + 1) h, dot_cons]
      simp only [List.length_cons, Nat.zero_add]
      by_cases h1 : i = o
      · subst h1
        have e1 : ¬ (i + 1 ≤ i ∧ i < i + 1 + rs.length) := by omega
        have e2 : (i ≤ i ∧ i < i + (rs.length + 1)) := by omega
        rw [if_pos rfl, if_neg e1, if_pos e2]
        simp
        ring
      · rw [if_neg h1]
        by_cases h2 : o + 1 ≤ i ∧ i < o + 1 + rs.length
        · have e2 : (o ≤ i ∧ i < o + (rs.length + 1)) := by omega
          rw [if_pos h2, if_pos e2]
          have e3 : i - o = (i - (o + 1)) + 1 := by omega
          rw [e3, List.getD_cons_succ]
          ring
        · have e2 : ¬ (o ≤ i ∧ i < o + (rs.length + 1)) := by omega
          rw [if_neg h2, if_neg e2]
          ring

theorem dot_policyRow (beta : K) (i : Nat) (row x : List K) (h : row.length = x.length)
    (hi : i < x.length) :
    dot (row.mapIdx fun j q => (if i = j then (1 : K) else 0) - beta * q) x
      = x.getD i 0 - beta * dot row x := by
  have := dot_policyRow_aux beta i row x 0 h
  simp only [Nat.add_zero, Nat.zero_le, true_and, Nat.zero_add, Nat.sub_zero] at this
  rw [this, if_pos (by omega)]

end


section
variable {K : Type} [Zero K] [Add K] [Mul K]

theorem tSigmaOf_getElem? (beta : K) (R' : List (Ext K)) (Q' : List (List K)) (v : List K) (i : Nat)
    (h1 : i < R'.length) (h2 : i < Q'.length) :
    (tSigmaOf beta (R', Q') v)[i]? = some (qval beta (R'.getD i .ninf) (Q'.getD i []) v) := by
  simp [tSigmaOf, List.getElem?_zipWith, List.getElem?_eq_getElem h1, List.getElem?_eq_getElem h2,
    List.getD_eq_getElem?_getD]

/-- with finite rewards `b`, `T_σ v = b + β Q_σ v` (all entries finite) -/
theorem tSigmaOf_fin (beta : K) (b : List K) (Q' : List (List K)) (v : List K) :
    tSigmaOf beta (b.map Ext.fin, Q') v
      = (List.zipWith (fun r q => r + beta * dot q v) b Q').map Ext.fin := by
  unfold tSigmaOf
  induction b generalizing Q' with
  | nil => simp
  | cons r rs ih =>
    cases Q' with
    | nil => simp
    | cons q qs =>
      simp only [List.map_cons, List.zipWith_cons_cons, ih qs]
      rfl

end

section
variable {K : Type} [Field K] [DecidableEq K]

/-- the checked solver only returns exact solutions of the right length -/
theorem solveChecked_sound (A : List (List K)) (b x : List K) (h : solveChecked A b = some x) :
    x.length = A.length ∧ mulVec A x = b := by
  unfold solveChecked at h
  cases hg : gaussJordan A b with
  | none => simp [hg] at h
  | some y =>
    simp only [hg] at h
    split at h
    · rename_i hc
      simp only [Option.some.injEq] at h
      subst h
      simp only [Bool.and_eq_true, beq_iff_eq] at hc
      exact hc
    · simp at h

/-- `(I - β Q) x = b` with `Q` square of the size of `x` says `b + β Q x = x` -/
theorem fixed_point_of_solve (beta : K) (Q' : List (List K)) (b x : List K)
    (hx : x.length = Q'.length) (hsq : ∀ row ∈ Q', row.length = Q'.length)
    (h : mulVec (policyMatrix beta Q') x = b) :
    List.zipWith (fun r q => r + beta * dot q x) b Q' = x := by
  have hbl : b.length = Q'.length := by
    rw [← h]; simp [mulVec, policyMatrix]
  apply List.ext_getElem?
  intro i
  by_cases hi : i < Q'.length
  · have hrow : Q'[i].length = x.length := by rw [hx]; exact hsq _ (List.getElem_mem hi)
    have hb : b[i]? = some (x.getD i 0 - beta * dot Q'[i] x) := by
      rw [← h]
      simp only [mulVec, policyMatrix, List.getElem?_map, List.getElem?_mapIdx,
        List.getElem?_eq_getElem hi, Option.map_some]
      rw [dot_policyRow beta i Q'[i] x hrow (by omega)]
    rw [List.getElem?_zipWith, hb, List.getElem?_eq_getElem hi]
    simp only
    rw [List.getElem?_eq_getElem (by omega : i < x.length)]
    simp only [List.getD_eq_getElem?_getD, List.getElem?_eq_getElem (by omega : i < x.length),
      Option.getD_some, Option.some.injEq]
    ring
  · rw [List.getElem?_eq_none (by simp [hbl]; omega), List.getElem?_eq_none (by omega)]

end
open Finset in
/-- `dot q v = Σ_{i < min(len q, len v)} q[i]·v[i]` (the `Q[s,a,:] · v` of the property) -/
theorem dot_eq_sum {K : Type} [CommRing K] : ∀ (q v : List K),
    dot q v = ∑ i ∈ Finset.range (min q.length v.length), q.getD i 0 * v.getD i 0 := by
  intro q
  induction q with
  | nil => intro v; simp
  | cons a as ih =>
    intro v
    cases v with
    | nil => simp
    | cons b bs =>
      rw [dot_cons, ih bs]
      have : min (a :: as).length (b :: bs).length = min as.length bs.length + 1 := by
        simp only [List.length_cons]; omega
      rw [this, Finset.sum_range_succ']
      simp only [List.getD_cons_succ, List.getD_cons_zero]
      ring
end QE.C09
