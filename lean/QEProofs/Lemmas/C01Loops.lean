/-
  Lemmas for C01, part 3: a-posteriori bounds for a β-contraction on lists (the executed
  `supDist`), uniqueness of fixed points, and the exit conditions of the loops
  `opIter`, `piLoop`, `mpiLoop` of `QEModel.C01`.
-/
import QEProofs.Lemmas.C01Bellman
import Mathlib.Tactic.FieldSimp

set_option linter.unusedSectionVars false

namespace QE.C01
open List

variable {K : Type} [Field K] [LinearOrder K] [IsStrictOrderedRing K]

/-- `T` maps lists of length `n` to lists of length `n` and contracts `supDist` by `β` there -/
structure Contr (T : List K → List K) (n : ℕ) (β : K) : Prop where
  len : ∀ v, v.length = n → (T v).length = n
  contr : ∀ v w, v.length = n → w.length = n → supDist (T v) (T w) ≤ β * supDist v w

theorem Contr.fp_unique {T : List K → List K} {n : ℕ} {β : K} (h : Contr T n β) (hβ1 : β < 1)
    {v w : List K} (hv : v.length = n) (hw : w.length = n) (fv : T v = v) (fw : T w = w) : v = w := by
  apply eq_of_supDist_le_zero (hv.trans hw.symm)
  have := h.contr v w hv hw
  rw [fv, fw] at this
  have h0 := supDist_nonneg v w
  nlinarith

/-- a-posteriori bound (Puterman 6.3.1 core): `‖Tu − v*‖ ≤ β/(1−β) ‖Tu − u‖` -/
theorem Contr.stop_bound {T : List K → List K} {n : ℕ} {β : K} (h : Contr T n β)
    (hβ0 : 0 ≤ β) (hβ1 : β < 1) {vS u : List K} (hS : T vS = vS) (hSl : vS.length = n)
    (hu : u.length = n) : supDist (T u) vS ≤ β / (1 - β) * supDist (T u) u := by
  have hTu := h.len u hu
  have h1 : supDist (T u) vS ≤ β * supDist u vS := by
    have := h.contr u vS hu hSl
    rwa [hS] at this
  have h2 : supDist u vS ≤ supDist u (T u) + supDist (T u) vS :=
    supDist_triangle (hu.trans hTu.symm) (hTu.trans hSl.symm)
  have h3 : supDist u (T u) = supDist (T u) u := supDist_comm (hu.trans hTu.symm)
  have hpos : 0 < 1 - β := by linarith
  rw [div_mul_eq_mul_div, le_div_iff₀ hpos]
  have := mul_le_mul_of_nonneg_left h2 hβ0
  nlinarith

/-- the value of the fixed point of another contraction `S` that agrees with `T` at `v`:
    `‖w − v‖ ≤ 1/(1−β) ‖Tv − v‖` when `S w = w` and `S v = T v` -/
theorem Contr.fp_near {S : List K → List K} {n : ℕ} {β : K} (h : Contr S n β)
    (hβ1 : β < 1) {w v : List K} (hw : S w = w) (hwl : w.length = n) (hv : v.length = n) :
    supDist w v ≤ 1 / (1 - β) * supDist (S v) v := by
  have hSv := h.len v hv
  have h1 : supDist w (S v) ≤ β * supDist w v := by
    have := h.contr w v hwl hv
    rwa [hw] at this
  have h2 : supDist w v ≤ supDist w (S v) + supDist (S v) v :=
    supDist_triangle (hwl.trans hSv.symm) (hSv.trans hv.symm)
  have hpos : 0 < 1 - β := by linarith
  rw [div_mul_eq_mul_div, le_div_iff₀ hpos]
  nlinarith

theorem contr_bellman {P : Prob K} (hs : ∀ acts ∈ P, ∀ x ∈ acts, SubStoch x) {β : K} (hβ : 0 ≤ β) :
    Contr (bellman P β) P.length β :=
  ⟨fun v _ => by simp, fun v w hv hw => bellman_supDist hs hβ (hv.trans hw.symm)⟩

theorem contr_tSigma {P : Prob K} (hs : ∀ acts ∈ P, ∀ x ∈ acts, SubStoch x) {β : K} (hβ : 0 ≤ β)
    {σ : List ℕ} (hσ : σ.length = P.length) : Contr (tSigma P β σ) P.length β :=
  ⟨fun v _ => by simp [tSigma_length, hσ], fun v w hv hw => tSigma_supDist hs hβ σ (hv.trans hw.symm)⟩

/-! ### `operator_iteration` -/

/-- if the loop was left through the tolerance `break`, the result is `T u` for an iterate `u`
    that passed the test (`I` is any invariant of `T`, e.g. the length) -/
theorem opIter_stopped (T : List K → List K) (tol : Tol K) (I : List K → Prop)
    (hI : ∀ v, I v → I (T v)) : ∀ (fuel : ℕ) (v : List K) (cnt : ℕ), I v →
    (opIter T tol fuel v cnt).2.2 = true →
    ∃ u, I u ∧ (opIter T tol fuel v cnt).1 = T u ∧ tol.passes (supDist (T u) u) = true := by
  intro fuel
  induction fuel with
  | zero => intro v cnt _ h; simp [opIter] at h
  | succ fuel ih =>
    intro v cnt hv h
    simp only [opIter] at h ⊢
    by_cases hp : tol.passes (supDist (T v) v) = true
    · rw [if_pos hp] at h ⊢
      exact ⟨v, hv, rfl, hp⟩
    · rw [if_neg hp] at h ⊢
      exact ih (T v) (cnt + 1) (hI v hv) h

/-- the iteration count never exceeds the cap, and equals it when the loop was not left early -/
theorem opIter_count (T : List K → List K) (tol : Tol K) : ∀ (fuel : ℕ) (v : List K) (cnt : ℕ),
    (opIter T tol fuel v cnt).2.1 ≤ cnt + fuel ∧
    ((opIter T tol fuel v cnt).2.2 = false → (opIter T tol fuel v cnt).2.1 = cnt + fuel) := by
  intro fuel
  induction fuel with
  | zero => intro v cnt; simp [opIter]
  | succ fuel ih =>
    intro v cnt
    simp only [opIter]
    by_cases hp : tol.passes (supDist (T v) v) = true
    · rw [if_pos hp]; simp
    · rw [if_neg hp]
      have := ih (T v) (cnt + 1)
      constructor
      · omega
      · intro h; have := this.2 h; omega

/-- without a tolerance (`tol=None`, the partial evaluation of MPI) the loop is `T^[fuel]` -/
theorem opIter_noTest (T : List K → List K) : ∀ (fuel : ℕ) (v : List K) (cnt : ℕ),
    (opIter T .noTest fuel v cnt).1 = T^[fuel] v := by
  intro fuel
  induction fuel with
  | zero => intro v cnt; simp [opIter]
  | succ fuel ih =>
    intro v cnt
    simp only [opIter, Tol.passes, Function.iterate_succ, Function.comp]
    exact ih (T v) (cnt + 1)

/-! ### the loop of `policy_iteration` -/

theorem piLoop_stopped (ev : List ℕ → List K) (gr : List K → List ℕ) :
    ∀ (fuel : ℕ) (σ : List ℕ) (vl : List K) (cnt : ℕ),
    (piLoop ev gr fuel σ vl cnt).stopped = true →
    (piLoop ev gr fuel σ vl cnt).v = ev (piLoop ev gr fuel σ vl cnt).sigma ∧
    gr (piLoop ev gr fuel σ vl cnt).v = (piLoop ev gr fuel σ vl cnt).sigma := by
  intro fuel
  induction fuel with
  | zero => intro σ vl cnt h; simp [piLoop] at h
  | succ fuel ih =>
    intro σ vl cnt h
    simp only [piLoop] at h ⊢
    by_cases hp : gr (ev σ) = σ
    · rw [if_pos hp]; exact ⟨rfl, hp⟩
    · rw [if_neg hp] at h ⊢
      exact ih _ _ _ h

theorem piLoop_count (ev : List ℕ → List K) (gr : List K → List ℕ) :
    ∀ (fuel : ℕ) (σ : List ℕ) (vl : List K) (cnt : ℕ),
    (piLoop ev gr fuel σ vl cnt).iters ≤ cnt + fuel := by
  intro fuel
  induction fuel with
  | zero => intro σ vl cnt; simp [piLoop]
  | succ fuel ih =>
    intro σ vl cnt
    simp only [piLoop]
    by_cases hp : gr (ev σ) = σ
    · rw [if_pos hp]; simp
    · rw [if_neg hp]; have := ih (gr (ev σ)) (ev σ) (cnt + 1); omega

theorem piLoop_count_eq (ev : List ℕ → List K) (gr : List K → List ℕ) :
    ∀ (fuel : ℕ) (σ : List ℕ) (vl : List K) (cnt : ℕ),
    (piLoop ev gr fuel σ vl cnt).stopped = false → (piLoop ev gr fuel σ vl cnt).iters = cnt + fuel := by
  intro fuel
  induction fuel with
  | zero => intro σ vl cnt _; simp [piLoop]
  | succ fuel ih =>
    intro σ vl cnt h
    simp only [piLoop] at h ⊢
    by_cases hp : gr (ev σ) = σ
    · rw [if_pos hp] at h; simp at h
    · rw [if_neg hp] at h ⊢
      have := ih _ _ _ h; omega

end QE.C01
