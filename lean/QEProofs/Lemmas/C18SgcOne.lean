/-
  Lemmas for C18, part 14: the 3 × 3 game `sgc_game(1)` — its arrays and its unique equilibrium.
-/
import QEProofs.Lemmas.C18SgcUniq
import Mathlib.Tactic.NormNum
namespace QE.C18
set_option linter.unusedSectionVars false
open Finset

variable {K : Type} [Field K] [LinearOrder K] [IsStrictOrderedRing K]

theorem sgc_one_common (i j : Nat) (hi : i < 3) (hj : j < 3) :
    (sgcCommon 3 : Nat → Nat → K) i j
      = if i = 0 then (if j = 2 then 1 else 1 / 2) else 0 := by
  have w1 : wrapIdx 3 (((1 : Nat) : Int) - 1) = 0 := by decide
  have w2 : wrapIdx 3 (((1 : Nat) : Int) - 2) = 2 := by decide
  have hr : List.range' 1 (1 - 2) = [] := by decide
  unfold sgcCommon
  simp only [show (3 + 1) / 2 - 1 = 1 from rfl, w1, w2, hr, List.foldl_nil]
  simp only [upd, sgcRegions, c12_eq, c34_eq]
  have : i = 0 ∨ i = 1 ∨ i = 2 := by omega
  have : j = 0 ∨ j = 1 ∨ j = 2 := by omega
  rcases ‹i = 0 ∨ i = 1 ∨ i = 2› with rfl | rfl | rfl <;> rcases ‹j = 0 ∨ j = 1 ∨ j = 2› with rfl | rfl | rfl <;> norm_num

/-- the two arrays of `sgc_game(1)` -/
theorem sgc_one_entries (i j : Nat) (hi : i < 3) (hj : j < 3) :
    (sgcEntry0 1 i j : K) = (if i = 0 then (if j = 2 then 1 else 1 / 2) else if i = j then 3 / 4 else 0) ∧
    (sgcEntry1 1 i j : K) = (if i = 0 then (if j = 2 then 1 else 1 / 2) else if i = j then 0 else if j = 0 then 0 else 3 / 4) := by
  unfold sgcEntry0 sgcEntry1
  simp only [show 4 * 1 - 1 = 3 from rfl, show (3 + 1) / 2 - 1 = 1 from rfl, show (1 + 1) / 2 = 1 from rfl]
  rw [sgcPairs0_closed, sgcPairs1_closed, sgc_one_common i j hi hj]
  simp only [c34_eq]
  have : i = 0 ∨ i = 1 ∨ i = 2 := by omega
  have : j = 0 ∨ j = 1 ∨ j = 2 := by omega
  rcases ‹i = 0 ∨ i = 1 ∨ i = 2› with rfl | rfl | rfl <;> rcases ‹j = 0 ∨ j = 1 ∨ j = 2› with rfl | rfl | rfl <;> norm_num

theorem sgc_one_payoffs (z : Nat → K) :
    sgcU0 1 z 0 = 1 / 2 * z 0 + 1 / 2 * z 1 + z 2 ∧ sgcU0 1 z 1 = 3 / 4 * z 1 ∧ sgcU0 1 z 2 = 3 / 4 * z 2 ∧
    sgcU1 1 z 0 = 1 / 2 * z 0 + 1 / 2 * z 1 + z 2 ∧ sgcU1 1 z 1 = 3 / 4 * z 2 ∧ sgcU1 1 z 2 = 3 / 4 * z 1 := by
  unfold sgcU0 sgcU1
  simp only [show 4 * 1 - 1 = 3 from rfl, sum_range_succ, sum_range_zero]
  rw [(sgc_one_entries (K := K) 0 0 (by omega) (by omega)).1, (sgc_one_entries (K := K) 0 1 (by omega) (by omega)).1,
    (sgc_one_entries (K := K) 0 2 (by omega) (by omega)).1, (sgc_one_entries (K := K) 1 0 (by omega) (by omega)).1,
    (sgc_one_entries (K := K) 1 1 (by omega) (by omega)).1, (sgc_one_entries (K := K) 1 2 (by omega) (by omega)).1,
    (sgc_one_entries (K := K) 2 0 (by omega) (by omega)).1, (sgc_one_entries (K := K) 2 1 (by omega) (by omega)).1,
    (sgc_one_entries (K := K) 2 2 (by omega) (by omega)).1,
    (sgc_one_entries (K := K) 0 0 (by omega) (by omega)).2, (sgc_one_entries (K := K) 0 1 (by omega) (by omega)).2,
    (sgc_one_entries (K := K) 0 2 (by omega) (by omega)).2, (sgc_one_entries (K := K) 1 0 (by omega) (by omega)).2,
    (sgc_one_entries (K := K) 1 1 (by omega) (by omega)).2, (sgc_one_entries (K := K) 1 2 (by omega) (by omega)).2,
    (sgc_one_entries (K := K) 2 0 (by omega) (by omega)).2, (sgc_one_entries (K := K) 2 1 (by omega) (by omega)).2,
    (sgc_one_entries (K := K) 2 2 (by omega) (by omega)).2]
  norm_num

/-- the unique equilibrium of `sgc_game(1)` is the pure profile `(0, 0)` -/
theorem sgc_unique_nash_one' (x y : Nat → K) (h : SgcNash 1 x y) :
    (x 0 = 1 ∧ x 1 = 0 ∧ x 2 = 0) ∧ (y 0 = 1 ∧ y 1 = 0 ∧ y 2 = 0) := by
  obtain ⟨hx, hy, h0, h1⟩ := h
  obtain ⟨a0, a1, a2, _, _, _⟩ := sgc_one_payoffs y
  obtain ⟨_, _, _, b0, b1, b2⟩ := sgc_one_payoffs x
  have sx : x 0 + x 1 + x 2 = 1 := by
    have := hx.2; simpa [show 4 * 1 - 1 = 3 from rfl, sum_range_succ] using this
  have sy : y 0 + y 1 + y 2 = 1 := by
    have := hy.2; simpa [show 4 * 1 - 1 = 3 from rfl, sum_range_succ] using this
  have x0 := hx.1 0; have x1 := hx.1 1; have x2 := hx.1 2
  have y0 := hy.1 0; have y1 := hy.1 1; have y2 := hy.1 2
  -- the four implications "played ⇒ the opponent's matching action has probability ≥ 2/3"
  have X1 : 0 < x 1 → (2 / 3 : K) ≤ y 1 := by
    intro hp; have := h0 1 (by omega) hp 0 (by omega); rw [a0, a1] at this; linarith
  have X2 : 0 < x 2 → (2 / 3 : K) ≤ y 2 := by
    intro hp; have := h0 2 (by omega) hp 0 (by omega); rw [a0, a2] at this; linarith
  have Y1 : 0 < y 1 → (2 / 3 : K) ≤ x 2 := by
    intro hp; have := h1 1 (by omega) hp 0 (by omega); rw [b0, b1] at this; linarith
  have Y2 : 0 < y 2 → (2 / 3 : K) ≤ x 1 := by
    intro hp; have := h1 2 (by omega) hp 0 (by omega); rw [b0, b2] at this; linarith
  have hx1 : x 1 = 0 := by
    by_contra hne
    have p := lt_of_le_of_ne x1 (Ne.symm hne)
    have c1 := X1 p
    have c2 := Y1 (by linarith)
    have c3 := X2 (by linarith)
    linarith
  have hx2 : x 2 = 0 := by
    by_contra hne
    have p := lt_of_le_of_ne x2 (Ne.symm hne)
    have c1 := X2 p
    have c2 := Y2 (by linarith)
    linarith
  have hy1 : y 1 = 0 := by
    by_contra hne
    have p := lt_of_le_of_ne y1 (Ne.symm hne)
    have c1 := Y1 p
    linarith
  have hy2 : y 2 = 0 := by
    by_contra hne
    have p := lt_of_le_of_ne y2 (Ne.symm hne)
    have c1 := Y2 p
    linarith
  exact ⟨⟨by linarith, hx1, hx2⟩, ⟨by linarith, hy1, hy2⟩⟩

end QE.C18
