/-
  C04 — the Phase-1 tableau built by `_initialize_tableau` (`initTableau`):
  shape, canonical form with the artificial basis, non-negative right-hand sides;
  its criterion row is minus the sum of the artificial variables on the solutions
  of the rows; LP-feasible points are exactly the non-negative row solutions with
  all artificial variables `0`.
-/
import QEProofs.Lemmas.C04Defs
import Mathlib.Algebra.BigOperators.Intervals
import Mathlib.Tactic.LinearCombination
namespace QE.C04
open QE QE.Pivot Finset

variable {K : Type} [Field K] [LinearOrder K] [IsStrictOrderedRing K]

/-! ### entries -/

omit [LinearOrder K] [IsStrictOrderedRing K] in
theorem sumRows_eq_sum (L : ℕ) (f : ℕ → K) : sumRows L f = ∑ i ∈ range L, f i := by
  unfold sumRows
  induction L with
  | zero => simp
  | succ L ih => rw [List.range_succ, List.foldl_append, ih, Finset.sum_range_succ]; simp

omit [IsStrictOrderedRing K] in
theorem initTableau_shape (P : LP K) :
    Shape (initTableau P) (P.m + P.k) (P.n + P.m + (P.m + P.k)) := ⟨rfl, rfl⟩

omit [IsStrictOrderedRing K] in
theorem initTableau_get_row (P : LP K) (i j : ℕ) (hi : i < P.m + P.k)
    (hj : j < P.n + P.m + (P.m + P.k) + 1) : (initTableau P).get i j = initEntry P i j := by
  unfold initTableau
  rw [M.get_tab _ _ _ _ _ (by omega) hj, if_pos hi]

omit [IsStrictOrderedRing K] in
theorem initTableau_get_crit (P : LP K) (j : ℕ) (hj : j < P.n + P.m + (P.m + P.k) + 1) :
    (initTableau P).get (P.m + P.k) j
      = if j < P.n + P.m ∨ j = P.n + P.m + (P.m + P.k)
        then ∑ i ∈ range (P.m + P.k), initEntry P i j else 0 := by
  unfold initTableau
  rw [M.get_tab _ _ _ _ _ (by omega) hj, if_neg (lt_irrefl _), sumRows_eq_sum]

omit [IsStrictOrderedRing K] in
/-- artificial column `n+m+j` of a constraint row -/
theorem initEntry_art (P : LP K) (i j : ℕ) (hj : j < P.m + P.k) :
    initEntry P i (P.n + P.m + j) = if j = i then 1 else 0 := by
  unfold initEntry
  have h1 : ¬ (P.n + P.m + j < P.n) := by omega
  have h2 : ¬ (P.n + P.m + j < P.n + P.m) := by omega
  have h3 : P.n + P.m + j < P.n + P.m + (P.m + P.k) := by omega
  simp only [h1, h2, h3, if_true, if_false]
  by_cases h : j = i
  · subst h; simp
  · simp [h]

omit [IsStrictOrderedRing K] in
/-- slack column `n+j` of a constraint row -/
theorem initEntry_slack (P : LP K) (i j : ℕ) (hj : j < P.m) :
    initEntry P i (P.n + j)
      = if j = i then (if P.bub i < 0 then -1 else 1) else 0 := by
  unfold initEntry
  have h1 : ¬ (P.n + j < P.n) := by omega
  have h2 : P.n + j < P.n + P.m := by omega
  simp only [h1, h2, if_true, if_false]
  by_cases h : j = i
  · subst h; simp [hj]
  · by_cases hi : i < P.m <;> simp [h, hi]

omit [IsStrictOrderedRing K] in
/-- right-hand side of a constraint row -/
theorem initEntry_rhs (P : LP K) (i : ℕ) :
    initEntry P i (P.n + P.m + (P.m + P.k))
      = if i < P.m then (if P.bub i < 0 then - P.bub i else P.bub i)
        else (if P.beq (i - P.m) < 0 then - P.beq (i - P.m) else P.beq (i - P.m)) := by
  unfold initEntry
  have h1 : ¬ (P.n + P.m + (P.m + P.k) < P.n) := by omega
  have h2 : ¬ (P.n + P.m + (P.m + P.k) < P.n + P.m) := by omega
  have h3 : ¬ (P.n + P.m + (P.m + P.k) < P.n + P.m + (P.m + P.k)) := by omega
  simp only [h1, h2, h3, if_false]

omit [IsStrictOrderedRing K] in
/-- structural column `j < n` of a constraint row -/
theorem initEntry_struct (P : LP K) (i j : ℕ) (hj : j < P.n) :
    initEntry P i j
      = if i < P.m then (if P.bub i < 0 then - P.Aub i j else P.Aub i j)
        else (if P.beq (i - P.m) < 0 then - P.Aeq (i - P.m) j else P.Aeq (i - P.m) j) := by
  unfold initEntry
  simp only [hj, if_true]

/-! ### invariants at the start -/

omit [Field K] [LinearOrder K] [IsStrictOrderedRing K] in
theorem initBasis_getD (P : LP K) (i : ℕ) (hi : i < P.m + P.k) :
    (initBasis P).getD i 0 = P.n + P.m + i := by
  unfold initBasis
  rw [List.getD_eq_getElem?_getD, List.getElem?_map, List.getElem?_range hi]
  rfl

omit [IsStrictOrderedRing K] in
theorem initTableau_canon (P : LP K) :
    Canon (initTableau P) (initBasis P) (P.m + P.k) (P.n + P.m + (P.m + P.k)) := by
  refine ⟨by simp [initBasis], ?_⟩
  intro i hi
  rw [initBasis_getD P i hi]
  refine ⟨by omega, ?_⟩
  intro i' hi'
  by_cases hL : i' < P.m + P.k
  · rw [initTableau_get_row P i' _ hL (by omega), initEntry_art P i' i hi]
    by_cases h : i = i'
    · subst h; simp
    · have : ¬ i' = i := fun e => h e.symm
      simp [h, this]
  · have : i' = P.m + P.k := by omega
    subst this
    rw [initTableau_get_crit P _ (by omega)]
    have h1 : ¬ (P.n + P.m + i < P.n + P.m ∨ P.n + P.m + i = P.n + P.m + (P.m + P.k)) := by omega
    have h2 : ¬ (P.m + P.k = i) := by omega
    rw [if_neg h1, if_neg h2]

theorem initTableau_rhs_nonneg (P : LP K) :
    RhsNonneg (initTableau P) (P.m + P.k) (P.n + P.m + (P.m + P.k)) := by
  intro i hi
  rw [initTableau_get_row P i _ hi (by omega), initEntry_rhs]
  split_ifs with h1 h2 h3
  · linarith
  · exact not_lt.mp h2
  · linarith
  · exact not_lt.mp h3

/-! ### rows as sums -/

omit [IsStrictOrderedRing K] in
/-- a constraint row, split into its non-artificial part and its own artificial variable -/
theorem initRow_split (P : LP K) (z : ℕ → K) (i : ℕ) (hi : i < P.m + P.k) :
    ∑ j ∈ range (P.n + P.m + (P.m + P.k)), initEntry P i j * z j
      = ∑ j ∈ range (P.n + P.m), initEntry P i j * z j + z (P.n + P.m + i) := by
  rw [Finset.sum_range_add]
  congr 1
  have : ∀ j ∈ range (P.m + P.k), initEntry P i (P.n + P.m + j) * z (P.n + P.m + j)
      = if j = i then z (P.n + P.m + j) else 0 := by
    intro j hj
    rw [initEntry_art P i j (Finset.mem_range.mp hj)]
    split_ifs <;> simp
  rw [Finset.sum_congr rfl this, Finset.sum_ite_eq']
  simp [hi]

omit [IsStrictOrderedRing K] in
/-- the non-artificial part, split into the structural part and the row's own slack -/
theorem initRow_split2 (P : LP K) (z : ℕ → K) (i : ℕ) :
    ∑ j ∈ range (P.n + P.m), initEntry P i j * z j
      = ∑ j ∈ range P.n, initEntry P i j * z j
        + (if i < P.m then (if P.bub i < 0 then -1 else 1) * z (P.n + i) else 0) := by
  rw [Finset.sum_range_add]
  congr 1
  have : ∀ j ∈ range P.m, initEntry P i (P.n + j) * z (P.n + j)
      = if j = i then (if P.bub i < 0 then -1 else 1) * z (P.n + j) else 0 := by
    intro j hj
    rw [initEntry_slack P i j (Finset.mem_range.mp hj)]
    split_ifs <;> simp
  rw [Finset.sum_congr rfl this, Finset.sum_ite_eq']
  simp

omit [IsStrictOrderedRing K] in
/-- row `i` of the initial tableau holds at `z`, as an equation between sums -/
theorem initTableau_rowSat_iff (P : LP K) (z : ℕ → K) (i : ℕ) (hi : i < P.m + P.k) :
    RowSat (initTableau P) z i ↔
      ∑ j ∈ range (P.n + P.m), initEntry P i j * z j + z (P.n + P.m + i)
        = initEntry P i (P.n + P.m + (P.m + P.k)) := by
  unfold RowSat
  have hN : (initTableau P).nc - 1 = P.n + P.m + (P.m + P.k) := rfl
  rw [hN, initTableau_get_row P i _ hi (by omega), ← initRow_split P z i hi]
  have : ∀ j ∈ range (P.n + P.m + (P.m + P.k)), (initTableau P).get i j * z j = initEntry P i j * z j := by
    intro j hj
    rw [initTableau_get_row P i j hi (by have := Finset.mem_range.mp hj; omega)]
  rw [Finset.sum_congr rfl this]

omit [IsStrictOrderedRing K] in
/-- **Phase-1 objective**: on the solutions of the rows, the criterion row of the initial
    tableau evaluates to minus the sum of the artificial variables -/
theorem initTableau_obj (P : LP K) (z : ℕ → K) (h : RowsSat (initTableau P) z (P.m + P.k)) :
    resid (initTableau P) z (P.m + P.k) = - ∑ i ∈ range (P.m + P.k), z (P.n + P.m + i) := by
  unfold resid
  have hN : (initTableau P).nc - 1 = P.n + P.m + (P.m + P.k) := rfl
  rw [hN, Finset.sum_range_add]
  -- artificial block of the criterion row is zero
  have hart : ∑ j ∈ range (P.m + P.k),
      (initTableau P).get (P.m + P.k) (P.n + P.m + j) * z (P.n + P.m + j) = 0 := by
    apply Finset.sum_eq_zero
    intro j hj
    have hj' := Finset.mem_range.mp hj
    rw [initTableau_get_crit P _ (by omega)]
    have : ¬ (P.n + P.m + j < P.n + P.m ∨ P.n + P.m + j = P.n + P.m + (P.m + P.k)) := by omega
    rw [if_neg this]; simp
  -- non-artificial block: swap the sums
  have hna : ∑ j ∈ range (P.n + P.m), (initTableau P).get (P.m + P.k) j * z j
      = ∑ i ∈ range (P.m + P.k), ∑ j ∈ range (P.n + P.m), initEntry P i j * z j := by
    rw [Finset.sum_comm]
    apply Finset.sum_congr rfl
    intro j hj
    have hj' := Finset.mem_range.mp hj
    rw [initTableau_get_crit P j (by omega), if_pos (Or.inl hj'), Finset.sum_mul]
  have hrhs : (initTableau P).get (P.m + P.k) (P.n + P.m + (P.m + P.k))
      = ∑ i ∈ range (P.m + P.k), initEntry P i (P.n + P.m + (P.m + P.k)) := by
    rw [initTableau_get_crit P _ (by omega), if_pos (Or.inr rfl)]
  rw [hart, hna, hrhs, add_zero, ← Finset.sum_sub_distrib, ← Finset.sum_neg_distrib]
  apply Finset.sum_congr rfl
  intro i hi
  have hi' := Finset.mem_range.mp hi
  have := (initTableau_rowSat_iff P z i hi').mp (h i hi')
  linear_combination this

/-! ### LP-feasible points and row solutions -/

/-- an LP-feasible `x` extends (slacks, artificials `0`) to a non-negative solution of the rows -/
theorem feasible_embed (P : LP K) (x : ℕ → K) (hx : Feasible P x) :
    ∃ z : ℕ → K, (∀ j, j < P.n + P.m + (P.m + P.k) → 0 ≤ z j) ∧
      RowsSat (initTableau P) z (P.m + P.k) ∧
      (∀ i, i < P.m + P.k → z (P.n + P.m + i) = 0) ∧ (∀ j, j < P.n → z j = x j) := by
  obtain ⟨hx0, hub, heq⟩ := hx
  let z : ℕ → K := fun j =>
    if j < P.n then x j
    else if j < P.n + P.m then P.bub (j - P.n) - ∑ q ∈ range P.n, P.Aub (j - P.n) q * x q
    else 0
  have zs : ∀ j, j < P.n → z j = x j := fun j hj => by simp [z, hj]
  have zsl : ∀ i, i < P.m → z (P.n + i) = P.bub i - ∑ q ∈ range P.n, P.Aub i q * x q := by
    intro i hi
    have h1 : ¬ (P.n + i < P.n) := by omega
    have h2 : P.n + i < P.n + P.m := by omega
    simp [z, h1, h2]
  have za : ∀ i, z (P.n + P.m + i) = 0 := by
    intro i
    have h1 : ¬ (P.n + P.m + i < P.n) := by omega
    have h2 : ¬ (P.n + P.m + i < P.n + P.m) := by omega
    simp [z, h1, h2]
  refine ⟨z, ?_, ?_, fun i _ => za i, zs⟩
  · intro j hj
    by_cases h1 : j < P.n
    · rw [zs j h1]; exact hx0 j h1
    · by_cases h2 : j < P.n + P.m
      · have : j = P.n + (j - P.n) := by omega
        rw [this, zsl (j - P.n) (by omega)]
        have := hub (j - P.n) (by omega)
        linarith
      · have : j = P.n + P.m + (j - (P.n + P.m)) := by omega
        rw [this, za]
  · intro i hi
    rw [initTableau_rowSat_iff P z i hi, initRow_split2 P z i, za, initEntry_rhs]
    have hstruct : ∑ j ∈ range P.n, initEntry P i j * z j
        = ∑ j ∈ range P.n, initEntry P i j * x j := by
      apply Finset.sum_congr rfl
      intro j hj; rw [zs j (Finset.mem_range.mp hj)]
    rw [hstruct]
    by_cases him : i < P.m
    · simp only [if_pos him]
      rw [zsl i him]
      by_cases hneg : P.bub i < 0
      · simp only [if_pos hneg]
        have : ∑ j ∈ range P.n, initEntry P i j * x j = - ∑ j ∈ range P.n, P.Aub i j * x j := by
          rw [← Finset.sum_neg_distrib]
          apply Finset.sum_congr rfl
          intro j hj
          rw [initEntry_struct P i j (Finset.mem_range.mp hj), if_pos him, if_pos hneg]; ring
        rw [this]; ring
      · simp only [if_neg hneg]
        have : ∑ j ∈ range P.n, initEntry P i j * x j = ∑ j ∈ range P.n, P.Aub i j * x j := by
          apply Finset.sum_congr rfl
          intro j hj
          rw [initEntry_struct P i j (Finset.mem_range.mp hj), if_pos him, if_neg hneg]
        rw [this]; ring
    · simp only [if_neg him]
      have he := heq (i - P.m) (by omega)
      by_cases hneg : P.beq (i - P.m) < 0
      · simp only [if_pos hneg]
        have : ∑ j ∈ range P.n, initEntry P i j * x j
            = - ∑ j ∈ range P.n, P.Aeq (i - P.m) j * x j := by
          rw [← Finset.sum_neg_distrib]
          apply Finset.sum_congr rfl
          intro j hj
          rw [initEntry_struct P i j (Finset.mem_range.mp hj), if_neg him, if_pos hneg]; ring
        rw [this, he]; ring
      · simp only [if_neg hneg]
        have : ∑ j ∈ range P.n, initEntry P i j * x j
            = ∑ j ∈ range P.n, P.Aeq (i - P.m) j * x j := by
          apply Finset.sum_congr rfl
          intro j hj
          rw [initEntry_struct P i j (Finset.mem_range.mp hj), if_neg him, if_neg hneg]
        rw [this, he]; ring

/-- a non-negative solution of the rows with all artificial variables `0` is LP-feasible
    (its first `n` components) -/
theorem rows_project (P : LP K) (z : ℕ → K)
    (hz : ∀ j, j < P.n + P.m + (P.m + P.k) → 0 ≤ z j)
    (h : RowsSat (initTableau P) z (P.m + P.k))
    (hart : ∀ i, i < P.m + P.k → z (P.n + P.m + i) = 0) : Feasible P z := by
  refine ⟨fun j hj => hz j (by omega), ?_, ?_⟩
  · intro i hi
    have hrow := (initTableau_rowSat_iff P z i (by omega)).mp (h i (by omega))
    rw [initRow_split2 P z i, hart i (by omega), initEntry_rhs, if_pos hi, if_pos hi] at hrow
    have hs := hz (P.n + i) (by omega)
    by_cases hneg : P.bub i < 0
    · simp only [if_pos hneg] at hrow
      have : ∑ j ∈ range P.n, initEntry P i j * z j = - ∑ j ∈ range P.n, P.Aub i j * z j := by
        rw [← Finset.sum_neg_distrib]
        apply Finset.sum_congr rfl
        intro j hj
        rw [initEntry_struct P i j (Finset.mem_range.mp hj), if_pos hi, if_pos hneg]; ring
      rw [this] at hrow
      linarith
    · simp only [if_neg hneg] at hrow
      have : ∑ j ∈ range P.n, initEntry P i j * z j = ∑ j ∈ range P.n, P.Aub i j * z j := by
        apply Finset.sum_congr rfl
        intro j hj
        rw [initEntry_struct P i j (Finset.mem_range.mp hj), if_pos hi, if_neg hneg]
      rw [this] at hrow
      linarith
  · intro i hi
    have him : ¬ (P.m + i < P.m) := by omega
    have hsub : P.m + i - P.m = i := by omega
    have hrow := (initTableau_rowSat_iff P z (P.m + i) (by omega)).mp (h (P.m + i) (by omega))
    rw [initRow_split2 P z (P.m + i), hart (P.m + i) (by omega), initEntry_rhs, if_neg him, if_neg him,
      hsub] at hrow
    by_cases hneg : P.beq i < 0
    · simp only [if_pos hneg] at hrow
      have : ∑ j ∈ range P.n, initEntry P (P.m + i) j * z j = - ∑ j ∈ range P.n, P.Aeq i j * z j := by
        rw [← Finset.sum_neg_distrib]
        apply Finset.sum_congr rfl
        intro j hj
        rw [initEntry_struct P (P.m + i) j (Finset.mem_range.mp hj), if_neg him, hsub, if_pos hneg]; ring
      rw [this] at hrow
      linarith
    · simp only [if_neg hneg] at hrow
      have : ∑ j ∈ range P.n, initEntry P (P.m + i) j * z j = ∑ j ∈ range P.n, P.Aeq i j * z j := by
        apply Finset.sum_congr rfl
        intro j hj
        rw [initEntry_struct P (P.m + i) j (Finset.mem_range.mp hj), if_neg him, hsub, if_neg hneg]
      rw [this] at hrow
      linarith

end QE.C04
